import RaftVerif.Model.Quorum
import RaftVerif.Proofs.Quorum
import RaftVerif.Props.C12
