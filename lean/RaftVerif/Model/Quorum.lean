/-
Model of /repo/quorum (majority.go, joint.go, quorum.go).  Core Lean only.

Go `MajorityConfig` is `map[uint64]struct{}`: modelled as a `List Nat` of voter ids (the theorems
assume `Nodup`; the driver always passes duplicate-free lists because they come from Go maps).
Go `quorum.Index` is `uint64` with `math.MaxUint64` playing the role of "no constraint": modelled as
`Option Nat`, `none` = ∞.  An `AckedIndexer` is a partial function `Id → Option Nat`.
-/
namespace RaftVerif.Quorum

abbrev Id := Nat

/-- quorum.VoteResult (numeric values 1,2,3 are tied by the fact table). -/
inductive VoteResult where
  | pending | lost | won
  deriving DecidableEq, Repr, Inhabited

def VoteResult.toString : VoteResult → String
  | .pending => "pending" | .lost => "lost" | .won => "won"

/-- Index acknowledged by a voter, a voter that has not reported counts as 0
    (majority.go: "Any unused slots will be left as zero"). -/
def ackOr0 (ack : Id → Option Nat) (id : Id) : Nat := (ack id).getD 0

/-- insertion into an ascending list (model of `slices.Sort` on `[]uint64`; structural recursion so
that the kernel can evaluate it) -/
def insertAsc (x : Nat) : List Nat → List Nat
  | [] => [x]
  | y :: ys => if x ≤ y then x :: y :: ys else y :: insertAsc x ys

/-- `slices.Sort` -/
def sortAsc : List Nat → List Nat
  | [] => []
  | x :: xs => insertAsc x (sortAsc xs)

/-- The sorted scratch slice `srt` of `MajorityConfig.CommittedIndex`. -/
def sortedAcks (c : List Id) (ack : Id → Option Nat) : List Nat :=
  sortAsc (c.map (ackOr0 ack))

/-- `pos := n - (n/2 + 1)` -/
def quorumPos (n : Nat) : Nat := n - (n / 2 + 1)

/-- `MajorityConfig.CommittedIndex`; `none` is `math.MaxUint64`. -/
def majorityCommitted (c : List Id) (ack : Id → Option Nat) : Option Nat :=
  if c.isEmpty then none
  else some ((sortedAcks c ack).getD (quorumPos c.length) 0)

/-- `idx0 < idx1 ? idx0 : idx1` on `Option Nat` with `none` = ∞. -/
def minIdx : Option Nat → Option Nat → Option Nat
  | none, b => b
  | a, none => a
  | some a, some b => some (if a < b then a else b)

/-- `JointConfig.CommittedIndex` -/
def jointCommitted (c0 c1 : List Id) (ack : Id → Option Nat) : Option Nat :=
  minIdx (majorityCommitted c0 ack) (majorityCommitted c1 ack)

/-- `q := len(c)/2 + 1` -/
def quorumSize (n : Nat) : Nat := n / 2 + 1

def yesCount (c : List Id) (votes : Id → Option Bool) : Nat :=
  c.countP (fun id => votes id == some true)

def missingCount (c : List Id) (votes : Id → Option Bool) : Nat :=
  c.countP (fun id => (votes id).isNone)

/-- `MajorityConfig.VoteResult` -/
def majorityVote (c : List Id) (votes : Id → Option Bool) : VoteResult :=
  if c.isEmpty then .won
  else
    let q := quorumSize c.length
    if yesCount c votes ≥ q then .won
    else if yesCount c votes + missingCount c votes ≥ q then .pending
    else .lost

/-- `JointConfig.VoteResult` -/
def jointVote (c0 c1 : List Id) (votes : Id → Option Bool) : VoteResult :=
  let r1 := majorityVote c0 votes
  let r2 := majorityVote c1 votes
  if r1 = r2 then r1
  else if r1 = .lost ∨ r2 = .lost then .lost
  else .pending

/-- `JointConfig.IDs` as a duplicate-free list (order irrelevant for all users, see C19). -/
def jointIDs (c0 c1 : List Id) : List Id :=
  c0 ++ c1.filter (fun id => !c0.contains id)

/-- association-list lookup used by the driver and by the node model for Go maps -/
def lookup {β : Type} (m : List (Id × β)) (id : Id) : Option β :=
  match m with
  | [] => none
  | (k, v) :: rest => if k == id then some v else lookup rest id

end RaftVerif.Quorum
