import RaftVerif.Model.Tracker
/-!
# Model/ConfChange — confchange/confchange.go, confchange/restore.go, raftpb/confchange.go,
raftpb/confstate.go (`Equivalent`), plus the proto2 wire decoding of ConfChange / ConfChangeV2.
-/
namespace RaftVerif

inductive ConfChangeType where
  | addNode | removeNode | updateNode | addLearnerNode
  deriving DecidableEq, Repr, Inhabited

def ConfChangeType.toNat : ConfChangeType → Nat
  | .addNode => 0 | .removeNode => 1 | .updateNode => 2 | .addLearnerNode => 3
def ConfChangeType.ofNat? : Nat → Option ConfChangeType
  | 0 => some .addNode | 1 => some .removeNode | 2 => some .updateNode | 3 => some .addLearnerNode | _ => none

inductive ConfChangeTransition where
  | auto | jointImplicit | jointExplicit
  deriving DecidableEq, Repr, Inhabited
def ConfChangeTransition.toNat : ConfChangeTransition → Nat
  | .auto => 0 | .jointImplicit => 1 | .jointExplicit => 2
def ConfChangeTransition.ofNat? : Nat → Option ConfChangeTransition
  | 0 => some .auto | 1 => some .jointImplicit | 2 => some .jointExplicit | _ => none

structure ConfChangeSingle where
  typ : ConfChangeType := .addNode
  nodeId : Id := 0
  deriving DecidableEq, Repr, Inhabited

structure ConfChangeV2 where
  transition : ConfChangeTransition := .auto
  changes : List ConfChangeSingle := []
  deriving DecidableEq, Repr, Inhabited

/-- `ConfChangeV2.EnterJoint()`: `some autoLeave` when the change must go through a joint config -/
def ConfChangeV2.enterJoint (c : ConfChangeV2) : Option Bool :=
  if c.transition != .auto || c.changes.length > 1 then
    match c.transition with
    | .auto => some true
    | .jointImplicit => some true
    | .jointExplicit => some false
  else none

/-- `ConfChangeV2.LeaveJoint()` -/
def ConfChangeV2.leaveJoint (c : ConfChangeV2) : Bool := c.transition == .auto && c.changes.length == 0

/-! ### proto2 wire decoding (only what `proto.Unmarshal` into ConfChange / ConfChangeV2 needs) -/

/-- decode one varint; returns value and rest -/
def decVarint : Nat → List UInt8 → Option (Nat × List UInt8)
  | 0, _ => none
  | _ + 1, [] => none
  | fuel + 1, b :: rest =>
      if b.toNat < 128 then some (b.toNat, rest)
      else match decVarint fuel rest with
        | none => none
        | some (v, rest') => some (b.toNat - 128 + 128 * v, rest')

/-- one field: (field number, wire type, varint value or length-delimited payload), rest -/
def decField (bs : List UInt8) : Option (Nat × Nat × Nat × List UInt8 × List UInt8) :=
  match decVarint 10 bs with
  | none => none
  | some (tag, rest) =>
    let field := tag / 8
    let wt := tag % 8
    if wt == 0 then
      match decVarint 10 rest with
      | none => none
      | some (v, rest') => some (field, wt, v, [], rest')
    else if wt == 2 then
      match decVarint 10 rest with
      | none => none
      | some (len, rest') => if rest'.length < len then none else some (field, wt, 0, rest'.take len, rest'.drop len)
    else if wt == 1 then (if rest.length < 8 then none else some (field, wt, 0, [], rest.drop 8))
    else if wt == 5 then (if rest.length < 4 then none else some (field, wt, 0, [], rest.drop 4))
    else none

def decFields : Nat → List UInt8 → Option (List (Nat × Nat × Nat × List UInt8))
  | _, [] => some []
  | 0, _ => none
  | fuel + 1, bs =>
    match decField bs with
    | none => none
    | some (f, wt, v, payload, rest) =>
      match decFields fuel rest with
      | none => none
      | some more => some ((f, wt, v, payload) :: more)

def decodeSingle (bs : List UInt8) : Option ConfChangeSingle := do
  let fs ← decFields (bs.length + 1) bs
  let mut c : ConfChangeSingle := {}
  for (f, wt, v, _) in fs do
    if f == 1 && wt == 0 then
      match ConfChangeType.ofNat? v with
      | some t => c := { c with typ := t }
      | none => pure ()
    else if f == 2 && wt == 0 then c := { c with nodeId := v }
  pure c

/-- `proto.Unmarshal(data, &pb.ConfChangeV2{})` -/
def decodeConfChangeV2 (bs : List UInt8) : Option ConfChangeV2 := do
  let fs ← decFields (bs.length + 1) bs
  let mut c : ConfChangeV2 := {}
  for (f, wt, v, payload) in fs do
    if f == 1 && wt == 0 then
      match ConfChangeTransition.ofNat? v with
      | some t => c := { c with transition := t }
      | none => pure ()
    else if f == 2 && wt == 2 then
      let s ← decodeSingle payload
      c := { c with changes := c.changes ++ [s] }
  pure c

/-- `proto.Unmarshal(data, &pb.ConfChange{})` followed by `AsV2()` -/
def decodeConfChangeV1AsV2 (bs : List UInt8) : Option ConfChangeV2 := do
  let fs ← decFields (bs.length + 1) bs
  let mut s : ConfChangeSingle := {}
  for (f, wt, v, _) in fs do
    if f == 2 && wt == 0 then
      match ConfChangeType.ofNat? v with
      | some t => s := { s with typ := t }
      | none => pure ()
    else if f == 3 && wt == 0 then s := { s with nodeId := v }
  pure { transition := .auto, changes := [s] }

/-! ### Changer -/

structure Changer where
  tracker : Tracker
  lastIndex : Nat

abbrev CE := Except String   -- confchange errors (Go `error` values)

def joint (cfg : TrackerConfig) : Bool := (cfg.outgoing.getD []).length > 0

/-- `Config.Clone` — note that it does not copy `AutoLeave` -/
def TrackerConfig.clone (c : TrackerConfig) : TrackerConfig := { c with autoLeave := false }

def checkInvariants (cfg : TrackerConfig) (trk : ProgressMap) : CE Unit := do
  let out := cfg.outgoing.getD []
  let ids := cfg.voters ++ out ++ cfg.learners.getD [] ++ cfg.learnersNext.getD []
  for id in ids do
    if (mapGet trk id).isNone then throw s!"no progress for {id}"
  for id in cfg.learnersNext.getD [] do
    if !out.contains id then throw s!"{id} is in LearnersNext, but not Voters[1]"
    if ((mapGet trk id).map (·.isLearner)).getD false then throw s!"{id} is in LearnersNext, but is already marked as learner"
  for id in cfg.learners.getD [] do
    if out.contains id then throw s!"{id} is in Learners and Voters[1]"
    if cfg.voters.contains id then throw s!"{id} is in Learners and Voters[0]"
    if !((mapGet trk id).map (·.isLearner)).getD false then throw s!"{id} is in Learners, but is not marked as learner"
  if !joint cfg then
    if cfg.outgoing.isSome then throw "cfg.Voters[1] must be nil when not joint"
    if cfg.learnersNext.isSome then throw "cfg.LearnersNext must be nil when not joint"
    if cfg.autoLeave then throw "AutoLeave must be false when not joint"

def checkAndReturn (cfg : TrackerConfig) (trk : ProgressMap) : CE (TrackerConfig × ProgressMap) := do
  checkInvariants cfg trk
  pure (cfg, trk)

def Changer.checkAndCopy (c : Changer) : CE (TrackerConfig × ProgressMap) :=
  checkAndReturn c.tracker.cfg.clone c.tracker.progress

def Changer.initProgress (c : Changer) (cfg : TrackerConfig) (trk : ProgressMap) (id : Id) (isLearner : Bool) :
    TrackerConfig × ProgressMap :=
  let cfg := if !isLearner then { cfg with voters := setInsert id cfg.voters }
             else { cfg with learners := nilAdd cfg.learners id }
  let pr : Progress := { match_ := 0, next := max c.lastIndex 1,
                         inflights := { size := c.tracker.maxInflight, maxBytes := c.tracker.maxInflightBytes },
                         isLearner := isLearner, recentActive := true }
  (cfg, mapInsert id pr trk)

def Changer.remove (_c : Changer) (cfg : TrackerConfig) (trk : ProgressMap) (id : Id) : TrackerConfig × ProgressMap :=
  match mapGet trk id with
  | none => (cfg, trk)
  | some _ =>
    let cfg := { cfg with voters := setErase id cfg.voters, learners := nilDelete cfg.learners id,
                          learnersNext := nilDelete cfg.learnersNext id }
    if !optContains cfg.outgoing id then (cfg, mapErase id trk) else (cfg, trk)

def Changer.makeVoter (c : Changer) (cfg : TrackerConfig) (trk : ProgressMap) (id : Id) : TrackerConfig × ProgressMap :=
  match mapGet trk id with
  | none => c.initProgress cfg trk id false
  | some pr =>
    let cfg := { cfg with learners := nilDelete cfg.learners id, learnersNext := nilDelete cfg.learnersNext id,
                          voters := setInsert id cfg.voters }
    (cfg, mapInsert id { pr with isLearner := false } trk)

def Changer.makeLearner (c : Changer) (cfg : TrackerConfig) (trk : ProgressMap) (id : Id) : TrackerConfig × ProgressMap :=
  match mapGet trk id with
  | none => c.initProgress cfg trk id true
  | some pr =>
    if pr.isLearner then (cfg, trk)
    else
      let (cfg, trk) := c.remove cfg trk id
      if optContains cfg.outgoing id then
        ({ cfg with learnersNext := nilAdd cfg.learnersNext id }, mapInsert id pr trk)
      else
        ({ cfg with learners := nilAdd cfg.learners id }, mapInsert id { pr with isLearner := true } trk)

def Changer.apply (c : Changer) (cfg : TrackerConfig) (trk : ProgressMap) (ccs : List ConfChangeSingle) :
    CE (TrackerConfig × ProgressMap) := do
  let mut cfg := cfg
  let mut trk := trk
  for cc in ccs do
    if cc.nodeId == 0 then continue
    match cc.typ with
    | .addNode => (cfg, trk) := c.makeVoter cfg trk cc.nodeId
    | .addLearnerNode => (cfg, trk) := c.makeLearner cfg trk cc.nodeId
    | .removeNode => (cfg, trk) := c.remove cfg trk cc.nodeId
    | .updateNode => pure ()
  if cfg.voters.length == 0 then throw "removed all voters"
  pure (cfg, trk)

def symdiff (l r : List Id) : Nat :=
  l.countP (fun id => !r.contains id) + r.countP (fun id => !l.contains id)

def Changer.enterJoint (c : Changer) (autoLeave : Bool) (ccs : List ConfChangeSingle) :
    CE (TrackerConfig × ProgressMap) := do
  let (cfg, trk) ← c.checkAndCopy
  if joint cfg then throw "config is already joint"
  if cfg.voters.length == 0 then throw "can't make a zero-voter config joint"
  let cfg := { cfg with outgoing := some cfg.voters }
  let (cfg, trk) ← c.apply cfg trk ccs
  checkAndReturn { cfg with autoLeave := autoLeave } trk

def Changer.leaveJoint (c : Changer) : CE (TrackerConfig × ProgressMap) := do
  let (cfg, trk) ← c.checkAndCopy
  if !joint cfg then throw "can't leave a non-joint config"
  let mut cfg := cfg
  let mut trk := trk
  for id in cfg.learnersNext.getD [] do
    cfg := { cfg with learners := nilAdd cfg.learners id }
    match mapGet trk id with
    | some pr => trk := mapInsert id { pr with isLearner := true } trk
    | none => throw "nil progress in LeaveJoint"   -- Go: nil pointer dereference (excluded by checkInvariants)
  cfg := { cfg with learnersNext := none }
  for id in cfg.outgoing.getD [] do
    let isVoter := cfg.voters.contains id
    let isLearner := optContains cfg.learners id
    if !isVoter && !isLearner then trk := mapErase id trk
  cfg := { cfg with outgoing := none, autoLeave := false }
  checkAndReturn cfg trk

def Changer.simple (c : Changer) (ccs : List ConfChangeSingle) : CE (TrackerConfig × ProgressMap) := do
  let (cfg, trk) ← c.checkAndCopy
  if joint cfg then throw "can't apply simple config change in joint config"
  let (cfg, trk) ← c.apply cfg trk ccs
  if symdiff c.tracker.cfg.voters cfg.voters > 1 then
    throw "more than one voter changed without entering joint config"
  checkAndReturn cfg trk

/-- `confchange.Restore` -/
def restoreConf (c : Changer) (cs : ConfState) : CE (TrackerConfig × ProgressMap) := do
  let outgoing := cs.votersOutgoing.map fun id => ({ typ := .addNode, nodeId := id } : ConfChangeSingle)
  let incoming :=
    (cs.votersOutgoing.map fun id => ({ typ := .removeNode, nodeId := id } : ConfChangeSingle)) ++
    (cs.voters.map fun id => ({ typ := .addNode, nodeId := id } : ConfChangeSingle)) ++
    (cs.learners.map fun id => ({ typ := .addLearnerNode, nodeId := id } : ConfChangeSingle)) ++
    (cs.learnersNext.map fun id => ({ typ := .addLearnerNode, nodeId := id } : ConfChangeSingle))
  let mut chg := c
  if outgoing.length == 0 then
    for cc in incoming do
      let (cfg, trk) ← chg.simple [cc]
      chg := { chg with tracker := { chg.tracker with cfg := cfg, progress := trk } }
  else
    for cc in outgoing do
      let (cfg, trk) ← chg.simple [cc]
      chg := { chg with tracker := { chg.tracker with cfg := cfg, progress := trk } }
    let (cfg, trk) ← chg.enterJoint cs.autoLeave incoming
    chg := { chg with tracker := { chg.tracker with cfg := cfg, progress := trk } }
  pure (chg.tracker.cfg, chg.tracker.progress)

/-- `ConfState.Equivalent` (after sorting) -/
def ConfState.equivalent (a b : ConfState) : Bool :=
  let s (l : List Id) := Quorum.sortAsc l
  s a.voters == s b.voters && s a.learners == s b.learners && s a.votersOutgoing == s b.votersOutgoing &&
  s a.learnersNext == s b.learnersNext && a.autoLeave == b.autoLeave

end RaftVerif
