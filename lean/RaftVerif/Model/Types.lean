import RaftVerif.Model.Parse
/-!
# Model/Types — data carried by the model (mirror of raftpb/raft.proto as used by the library)

Core Lean only. `uint64` is `Nat`. Optional scalar fields of messages are modelled by value
(absent = 0 / false) because the library only ever reads them through `GetX()`; optional-ness is
kept where it is observable: `Entry.Type`, `Entry.Data` (they change `proto.Size`), `Message.Snapshot`
(`m.GetSnapshot() != nil`), `Message.Context` / `Snapshot.Data` (printed).
-/
namespace RaftVerif

abbrev Bytes := List UInt8
abbrev Id := Nat

/-- `math.MaxUint64`, `LocalAppendThread`, `LocalApplyThread`, `noLimit` -/
def maxUint64 : Nat := 18446744073709551615
def localAppendThread : Nat := maxUint64
def localApplyThread : Nat := maxUint64 - 1
def noLimit : Nat := maxUint64

inductive EntryType where
  | normal | confChange | confChangeV2
  deriving DecidableEq, Repr, Inhabited

def EntryType.toNat : EntryType → Nat
  | .normal => 0 | .confChange => 1 | .confChangeV2 => 2

def EntryType.ofNat? : Nat → Option EntryType
  | 0 => some .normal | 1 => some .confChange | 2 => some .confChangeV2 | _ => none

structure Entry where
  term : Nat := 0
  index : Nat := 0
  typ : Option EntryType := none
  data : Option Bytes := none
  deriving DecidableEq, Repr, Inhabited

/-- `e.GetType()` -/
def Entry.getType (e : Entry) : EntryType := e.typ.getD .normal
/-- `len(e.GetData())` -/
def Entry.dataLen (e : Entry) : Nat := (e.data.map List.length).getD 0

structure ConfState where
  voters : List Id := []
  learners : List Id := []
  votersOutgoing : List Id := []
  learnersNext : List Id := []
  autoLeave : Bool := false
  deriving DecidableEq, Repr, Inhabited

structure Snapshot where
  data : Option Bytes := none
  index : Nat := 0
  term : Nat := 0
  conf : ConfState := {}
  deriving DecidableEq, Repr, Inhabited

structure HardState where
  term : Nat := 0
  vote : Nat := 0
  commit : Nat := 0
  deriving DecidableEq, Repr, Inhabited

def HardState.isEmpty (h : HardState) : Bool := h.term == 0 && h.vote == 0 && h.commit == 0

inductive MsgType where
  | hup | beat | prop | app | appResp | vote | voteResp | snap | heartbeat | heartbeatResp
  | unreachable | snapStatus | checkQuorum | transferLeader | timeoutNow | readIndex | readIndexResp
  | preVote | preVoteResp | storageAppend | storageAppendResp | storageApply | storageApplyResp
  | forgetLeader
  deriving DecidableEq, Repr, Inhabited

def MsgType.toNat : MsgType → Nat
  | .hup => 0 | .beat => 1 | .prop => 2 | .app => 3 | .appResp => 4 | .vote => 5 | .voteResp => 6
  | .snap => 7 | .heartbeat => 8 | .heartbeatResp => 9 | .unreachable => 10 | .snapStatus => 11
  | .checkQuorum => 12 | .transferLeader => 13 | .timeoutNow => 14 | .readIndex => 15
  | .readIndexResp => 16 | .preVote => 17 | .preVoteResp => 18 | .storageAppend => 19
  | .storageAppendResp => 20 | .storageApply => 21 | .storageApplyResp => 22 | .forgetLeader => 23

def MsgType.ofNat? : Nat → Option MsgType
  | 0 => some .hup | 1 => some .beat | 2 => some .prop | 3 => some .app | 4 => some .appResp
  | 5 => some .vote | 6 => some .voteResp | 7 => some .snap | 8 => some .heartbeat
  | 9 => some .heartbeatResp | 10 => some .unreachable | 11 => some .snapStatus
  | 12 => some .checkQuorum | 13 => some .transferLeader | 14 => some .timeoutNow
  | 15 => some .readIndex | 16 => some .readIndexResp | 17 => some .preVote | 18 => some .preVoteResp
  | 19 => some .storageAppend | 20 => some .storageAppendResp | 21 => some .storageApply
  | 22 => some .storageApplyResp | 23 => some .forgetLeader | _ => none

/-- util.go `isLocalMsg` -/
def MsgType.isLocal : MsgType → Bool
  | .hup | .beat | .unreachable | .snapStatus | .checkQuorum | .storageAppend | .storageAppendResp
  | .storageApply | .storageApplyResp => true
  | _ => false

/-- util.go `isResponseMsg` -/
def MsgType.isResponse : MsgType → Bool
  | .appResp | .voteResp | .heartbeatResp | .unreachable | .readIndexResp | .preVoteResp
  | .storageAppendResp | .storageApplyResp => true
  | _ => false

def isLocalMsgTarget (id : Nat) : Bool := id == localAppendThread || id == localApplyThread

structure Message where
  typ : MsgType := .hup
  to : Nat := 0
  «from» : Nat := 0
  term : Nat := 0
  logTerm : Nat := 0
  index : Nat := 0
  entries : List Entry := []
  commit : Nat := 0
  vote : Nat := 0
  snapshot : Option Snapshot := none
  reject : Bool := false
  rejectHint : Nat := 0
  context : Option Bytes := none
  responses : List Message := []
  deriving Repr, Inhabited

/-- `len(m.GetContext())` -/
def Message.ctxLen (m : Message) : Nat := (m.context.map List.length).getD 0

/-! ### sizes (util.go) -/

/-- length of the base-128 varint encoding -/
def varintLen (n : Nat) : Nat :=
  if n < 128 then 1 else 1 + varintLen (n / 128)
decreasing_by omega

/-- `proto.Size` of a `raftpb.Entry` whose Term and Index are set (every entry of a log) -/
def entrySize (e : Entry) : Nat :=
  (1 + varintLen e.term) + (1 + varintLen e.index) +
  (match e.typ with | none => 0 | some t => 1 + varintLen t.toNat) +
  (match e.data with | none => 0 | some d => 1 + varintLen d.length + d.length)

def entsSize (ents : List Entry) : Nat := (ents.map entrySize).sum

def payloadsSize (ents : List Entry) : Nat := (ents.map Entry.dataLen).sum

/-- util.go `limitSize`: the longest prefix whose total size is ≤ `maxSize`, but never empty -/
def limitSizeAux (maxSize : Nat) : Nat → List Entry → List Entry
  | _, [] => []
  | size, e :: rest =>
      let size' := size + entrySize e
      if size' > maxSize then [] else e :: limitSizeAux maxSize size' rest

def limitSize (ents : List Entry) (maxSize : Nat) : List Entry :=
  match ents with
  | [] => []
  | e :: rest => e :: limitSizeAux maxSize (entrySize e) rest

/-! ### canonical text (must equal /repo/verif_hooks.go) -/
open Parse

def fmtEntry (e : Entry) : String :=
  let ty := match e.typ with | none => "-" | some t => toString t.toNat
  s!"{e.term}.{e.index}.{ty}.{fmtOptBytes e.data}"

def fmtEntries (es : List Entry) : String := "[" ++ ",".intercalate (es.map fmtEntry) ++ "]"

def b2n (b : Bool) : Nat := if b then 1 else 0

def fmtConfState (cs : ConfState) : String :=
  s!"v={fmtIds cs.voters};o={fmtIds cs.votersOutgoing};l={fmtIds cs.learners};n={fmtIds cs.learnersNext};a={b2n cs.autoLeave}"

def fmtSnapshot : Option Snapshot → String
  | none => "-"
  | some s => s!"S({s.index}.{s.term}.{fmtConfState s.conf}.{fmtOptBytes s.data})"

partial def fmtMessage (m : Message) : String :=
  s!"M({m.typ.toNat} {m.from} {m.to} {m.term} {m.logTerm} {m.index} {m.commit} {m.vote} {b2n m.reject} {m.rejectHint} {fmtEntries m.entries} {fmtSnapshot m.snapshot} {fmtOptBytes m.context} [" ++
    ",".intercalate (m.responses.map fmtMessage) ++ "])"

def fmtMessages (ms : List Message) : String := "[" ++ ",".intercalate (ms.map fmtMessage) ++ "]"

def fmtHardState (h : HardState) : String := s!"{h.term}.{h.vote}.{h.commit}"

end RaftVerif
