import RaftVerif.Model.Log
import RaftVerif.Model.Quorum
/-!
# Model/Tracker — tracker/progress.go, tracker/inflights.go, tracker/tracker.go

Go maps are association lists kept sorted by key without duplicates (`Visit` order = list order).
`Inflights` is modelled as the abstract FIFO of (index, bytes) it implements (the ring buffer's
`start`/`buffer` are not observable; `VerifDump` prints the same abstraction on the Go side).
-/
namespace RaftVerif

/-! ### sorted sets / maps of ids -/

def setInsert (x : Id) : List Id → List Id
  | [] => [x]
  | y :: ys => if x < y then x :: y :: ys else if x == y then y :: ys else y :: setInsert x ys

def setErase (x : Id) (l : List Id) : List Id := l.filter (· != x)

def mapInsert {β : Type} (k : Id) (v : β) : List (Id × β) → List (Id × β)
  | [] => [(k, v)]
  | (k', v') :: rest =>
      if k < k' then (k, v) :: (k', v') :: rest
      else if k == k' then (k, v) :: rest
      else (k', v') :: mapInsert k v rest

def mapErase {β : Type} (k : Id) (m : List (Id × β)) : List (Id × β) := m.filter (·.1 != k)

def mapGet {β : Type} (m : List (Id × β)) (k : Id) : Option β := Quorum.lookup m k

/-- nilAwareAdd -/
def nilAdd (m : Option (List Id)) (id : Id) : Option (List Id) := some (setInsert id (m.getD []))

/-- nilAwareDelete -/
def nilDelete (m : Option (List Id)) (id : Id) : Option (List Id) :=
  match m with
  | none => none
  | some l => let l' := setErase id l; if l'.isEmpty then none else some l'

def optContains (m : Option (List Id)) (id : Id) : Bool := (m.getD []).contains id

/-! ### Inflights -/

structure Inflights where
  size : Nat := 0
  maxBytes : Nat := 0
  q : List (Nat × Nat) := []   -- (index, bytes), oldest first
  deriving DecidableEq, Repr, Inhabited

namespace Inflights
def count (i : Inflights) : Nat := i.q.length
def bytes (i : Inflights) : Nat := (i.q.map (·.2)).sum
def full (i : Inflights) : Bool := i.count == i.size || (i.maxBytes != 0 && i.bytes ≥ i.maxBytes)
def add (i : Inflights) (index bytes : Nat) : P Inflights :=
  if i.full then throw "inflights.Add: cannot add into a Full inflights"
  else pure { i with q := i.q ++ [(index, bytes)] }
def freeLE (i : Inflights) (to : Nat) : Inflights := { i with q := i.q.dropWhile (fun p => p.1 ≤ to) }
def reset (i : Inflights) : Inflights := { i with q := [] }
end Inflights

/-! ### Progress -/

inductive ProgressState where
  | probe | replicate | snapshot
  deriving DecidableEq, Repr, Inhabited

def ProgressState.toNat : ProgressState → Nat
  | .probe => 0 | .replicate => 1 | .snapshot => 2

structure Progress where
  match_ : Nat := 0
  next : Nat := 0
  sentCommit : Nat := 0
  state : ProgressState := .probe
  pendingSnapshot : Nat := 0
  recentActive : Bool := false
  msgAppFlowPaused : Bool := false
  inflights : Inflights := {}
  isLearner : Bool := false
  deriving DecidableEq, Repr, Inhabited

namespace Progress

def resetState (pr : Progress) (st : ProgressState) : Progress :=
  { pr with msgAppFlowPaused := false, pendingSnapshot := 0, state := st, inflights := pr.inflights.reset }

def becomeProbe (pr : Progress) : Progress :=
  let pr :=
    if pr.state == .snapshot then
      let pending := pr.pendingSnapshot
      let pr := pr.resetState .probe
      { pr with next := max (pr.match_ + 1) (pending + 1) }
    else
      let pr := pr.resetState .probe
      { pr with next := pr.match_ + 1 }
  { pr with sentCommit := min pr.sentCommit (usub pr.next 1) }

def becomeReplicate (pr : Progress) : Progress :=
  let pr := pr.resetState .replicate
  { pr with next := pr.match_ + 1 }

def becomeSnapshot (pr : Progress) (snapshoti : Nat) : Progress :=
  let pr := pr.resetState .snapshot
  { pr with pendingSnapshot := snapshoti, next := snapshoti + 1, sentCommit := snapshoti }

def sentEntries (pr : Progress) (entries bytes : Nat) : P Progress :=
  match pr.state with
  | .replicate => do
      let pr ←
        if entries > 0 then do
          let next := pr.next + entries
          let infl ← pr.inflights.add (usub next 1) bytes
          pure { pr with next := next, inflights := infl }
        else pure pr
      pure { pr with msgAppFlowPaused := pr.inflights.full }
  | .probe => pure (if entries > 0 then { pr with msgAppFlowPaused := true } else pr)
  | .snapshot => throw "progress.SentEntries: sending append in unhandled state"

def canBumpCommit (pr : Progress) (index : Nat) : Bool :=
  index > pr.sentCommit && pr.sentCommit < usub pr.next 1

def maybeUpdate (pr : Progress) (n : Nat) : Progress × Bool :=
  if n ≤ pr.match_ then (pr, false)
  else ({ pr with match_ := n, next := max pr.next (n + 1), msgAppFlowPaused := false }, true)

def maybeDecrTo (pr : Progress) (rejected matchHint : Nat) : Progress × Bool :=
  if pr.state == .replicate then
    if rejected ≤ pr.match_ then (pr, false)
    else
      let next := pr.match_ + 1
      ({ pr with next := next, sentCommit := min pr.sentCommit (usub next 1) }, true)
  else if usub pr.next 1 != rejected then (pr, false)
  else
    let next := max (min rejected (matchHint + 1)) (pr.match_ + 1)
    ({ pr with next := next, sentCommit := min pr.sentCommit (usub next 1), msgAppFlowPaused := false }, true)

def isPaused (pr : Progress) : Bool :=
  match pr.state with
  | .probe => pr.msgAppFlowPaused
  | .replicate => pr.msgAppFlowPaused
  | .snapshot => true

end Progress

/-! ### tracker.Config / ProgressTracker -/

structure TrackerConfig where
  voters : List Id := []                   -- Voters[0] (never nil)
  outgoing : Option (List Id) := none      -- Voters[1]
  learners : Option (List Id) := none
  learnersNext : Option (List Id) := none
  autoLeave : Bool := false
  deriving DecidableEq, Repr, Inhabited

abbrev ProgressMap := List (Id × Progress)

structure Tracker where
  cfg : TrackerConfig := {}
  progress : ProgressMap := []
  votes : List (Id × Bool) := []
  maxInflight : Nat := 0
  maxInflightBytes : Nat := 0
  deriving Repr, Inhabited

namespace Tracker

def outgoingL (t : Tracker) : List Id := t.cfg.outgoing.getD []

def confState (t : Tracker) : ConfState :=
  { voters := t.cfg.voters, votersOutgoing := t.outgoingL, learners := t.cfg.learners.getD [],
    learnersNext := t.cfg.learnersNext.getD [], autoLeave := t.cfg.autoLeave }

def isSingleton (t : Tracker) : Bool := t.cfg.voters.length == 1 && t.outgoingL.length == 0

/-- `Committed()`; `none` = MaxUint64 -/
def committed (t : Tracker) : Option Nat :=
  Quorum.jointCommitted t.cfg.voters t.outgoingL (fun id => (mapGet t.progress id).map (·.match_))

def quorumActive (t : Tracker) : Bool :=
  let votes := t.progress.filterMap fun (id, pr) => if pr.isLearner then none else some (id, pr.recentActive)
  Quorum.jointVote t.cfg.voters t.outgoingL (Quorum.lookup votes) == .won

def voterNodes (t : Tracker) : List Id := t.outgoingL.foldl (fun acc id => setInsert id acc) t.cfg.voters
def learnerNodes (t : Tracker) : List Id := t.cfg.learners.getD []

def resetVotes (t : Tracker) : Tracker := { t with votes := [] }

def recordVote (t : Tracker) (id : Id) (v : Bool) : Tracker :=
  match mapGet t.votes id with
  | some _ => t
  | none => { t with votes := mapInsert id v t.votes }

def tallyVotes (t : Tracker) : Nat × Nat × Quorum.VoteResult :=
  let voted := t.progress.filterMap fun (id, pr) => if pr.isLearner then none else mapGet t.votes id
  (voted.countP (· == true), voted.countP (· == false),
   Quorum.jointVote t.cfg.voters t.outgoingL (Quorum.lookup t.votes))

def getProgress (t : Tracker) (id : Id) : Option Progress := mapGet t.progress id
def setProgress (t : Tracker) (id : Id) (pr : Progress) : Tracker :=
  { t with progress := mapInsert id pr t.progress }

def make (maxInflight maxBytes : Nat) : Tracker :=
  { maxInflight := maxInflight, maxInflightBytes := maxBytes }

end Tracker

/-! ### canonical text -/
open Parse in
def fmtInflights (i : Inflights) : String :=
  s!"{i.count}.{i.bytes}.{i.size}.{i.maxBytes}.[" ++ ",".intercalate (i.q.map fun (a, b) => s!"{a}:{b}") ++ "]"

open Parse in
def fmtTracker (t : Tracker) : String :=
  let os (m : Option (List Id)) : String := match m with | none => "-" | some l => "{" ++ fmtIds l ++ "}"
  let prs := t.progress.map fun (id, pr) =>
    s!" {id}:{pr.match_}.{pr.next}.{pr.sentCommit}.{pr.state.toNat}.{pr.pendingSnapshot}.{b2n pr.recentActive}.{b2n pr.msgAppFlowPaused}.{b2n pr.isLearner}.{fmtInflights pr.inflights}"
  let vs := t.votes.map fun (id, v) => s!" {id}:{b2n v}"
  "cfg: v={" ++ fmtIds t.cfg.voters ++ "}" ++ s!" o={os t.cfg.outgoing} l={os t.cfg.learners} n={os t.cfg.learnersNext} a={b2n t.cfg.autoLeave} mi={t.maxInflight} mib={t.maxInflightBytes} prs:" ++
    String.join prs ++ " votes:" ++ String.join vs

end RaftVerif
