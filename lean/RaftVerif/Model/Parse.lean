/-! Small parsing / printing helpers shared by the driver (core Lean only). -/
namespace RaftVerif.Parse

def splitOn1 (s : String) (c : Char) : List String := s.split (· == c) |>.toList |>.map (·.toString)

def natOrZero (s : String) : Nat := s.toNat?.getD 0

/-- comma separated ids, "-" or "" for the empty list -/
def idList (s : String) : List Nat :=
  if s == "-" || s == "" then [] else (splitOn1 s ',').map natOrZero

/-- "a:b,c:d" pairs of naturals, "-" or "" for empty -/
def pairList (s : String) : List (Nat × Nat) :=
  if s == "-" || s == "" then []
  else (splitOn1 s ',').map fun p =>
    match splitOn1 p ':' with
    | [a, b] => (natOrZero a, natOrZero b)
    | _ => (0, 0)

def hexDigit (c : Char) : Nat :=
  if '0' ≤ c ∧ c ≤ '9' then c.toNat - '0'.toNat
  else if 'a' ≤ c ∧ c ≤ 'f' then c.toNat - 'a'.toNat + 10
  else 0

def hexToBytesAux : List Char → List UInt8
  | a :: b :: rest => UInt8.ofNat (hexDigit a * 16 + hexDigit b) :: hexToBytesAux rest
  | _ => []

/-- "-" ↦ none, "x<hex>" ↦ some bytes -/
def optBytes (s : String) : Option (List UInt8) :=
  if s == "-" then none
  else some (hexToBytesAux (s.toList.drop 1))

def hexChar (n : Nat) : Char :=
  if n < 10 then Char.ofNat ('0'.toNat + n) else Char.ofNat ('a'.toNat + n - 10)

def bytesToHex (b : List UInt8) : String :=
  String.ofList (b.flatMap fun x => [hexChar (x.toNat / 16), hexChar (x.toNat % 16)])

def fmtOptBytes : Option (List UInt8) → String
  | none => "-"
  | some b => "x" ++ bytesToHex b

def fmtIds (ids : List Nat) : String := ",".intercalate (ids.map toString)

/-- FNV-1a 64 bit over the UTF-8 bytes -/
def fnv64 (s : String) : UInt64 :=
  s.toUTF8.foldl (fun h b => (h ^^^ b.toUInt64) * 1099511628211) 14695981039346656037

def hex64 (h : UInt64) : String :=
  let n := h.toNat
  String.ofList ((List.range 16).reverse.map fun i => hexChar ((n >>> (4 * i)) % 16))

end RaftVerif.Parse
