import RaftVerif.Model.Raft
/-!
# Model/RawNode — rawnode.go (all of it except WithProgress/Status), node.go helpers

`RawNode.dump` prints the canonical text of `(*RawNode).VerifState()` (/repo/verif_hooks.go).
-/
namespace RaftVerif

structure Ready where
  softState : Option (Nat × Role) := none
  hardState : Option HardState := none
  readStates : List (Nat × Option Bytes) := []
  entries : List Entry := []
  snapshot : Option Snapshot := none
  committedEntries : List Entry := []
  messages : List Message := []
  mustSync : Bool := false
  deriving Repr, Inhabited

structure RawNode where
  raft : Raft := {}
  async : Bool := false
  prevSoft : Nat × Role := (0, .follower)
  prevHard : HardState := {}
  stepsOnAdvance : List Message := []
  deriving Repr, Inhabited

inductive ApiErr where
  | proposalDropped | stepLocalMsg | stepPeerNotFound
  deriving DecidableEq, Repr

def ApiErr.toString : ApiErr → String
  | .proposalDropped => "ErrProposalDropped" | .stepLocalMsg => "ErrStepLocalMsg" | .stepPeerNotFound => "ErrStepPeerNotFound"

namespace RawNode

def hardState (r : Raft) : HardState := { term := r.term, vote := r.vote, commit := r.log.committed }
def softState (r : Raft) : Nat × Role := (r.lead, r.state)

def isEmptySnap (s : Option Snapshot) : Bool := (s.map (·.index)).getD 0 == 0
def isEmptyHS (h : Option HardState) : Bool := (h.map (·.isEmpty)).getD true

def new (c : Config) (storage : MemoryStorage) (draws : List Nat) : Except String RawNode := do
  let r ← newRaft c storage draws
  pure { raft := r, async := c.asyncStorageWrites, prevSoft := softState r, prevHard := hardState r }

/-- run a raft action on the node with the given election-timeout draws -/
def runM {α : Type} (rn : RawNode) (draws : List Nat) (act : M α) : Except String (α × RawNode) := do
  let (a, r) ← act.run { rn.raft with draws := draws }
  if !r.draws.isEmpty then throw "HARNESS: unused election-timeout draws"
  pure (a, { rn with raft := r })

def applyUnstableEntries (rn : RawNode) : Bool := !rn.async

def mustSync (st prev : HardState) (entsnum : Nat) : Bool :=
  entsnum != 0 || st.vote != prev.vote || st.term != prev.term

def needStorageAppendRespMsg (r : Raft) (rd : Ready) : Bool :=
  r.log.hasNextOrInProgressUnstableEnts || !isEmptySnap rd.snapshot

def newStorageAppendRespMsg (r : Raft) (rd : Ready) : P Message := do
  let m : Message := { typ := .storageAppendResp, to := r.cfg.id, «from» := localAppendThread, term := r.term }
  let m ← if r.log.hasNextOrInProgressUnstableEnts then do
      let last ← r.log.lastEntryID
      pure { m with index := last.index, logTerm := last.term }
    else pure m
  pure (if !isEmptySnap rd.snapshot then { m with snapshot := rd.snapshot } else m)

def newStorageApplyRespMsg (r : Raft) (ents : List Entry) : Message :=
  { typ := .storageApplyResp, to := r.cfg.id, «from» := localApplyThread, term := 0, entries := ents }

def readyWithoutAccept (rn : RawNode) : P Ready := do
  let r := rn.raft
  let cents ← r.log.nextCommittedEnts rn.applyUnstableEntries
  let mut rd : Ready := { entries := r.log.nextUnstableEnts, committedEntries := cents, messages := r.msgs }
  if softState r != rn.prevSoft then rd := { rd with softState := some (softState r) }
  if hardState r != rn.prevHard then rd := { rd with hardState := some (hardState r) }
  if r.log.hasNextUnstableSnapshot then rd := { rd with snapshot := r.log.unstable.nextSnapshot }
  if r.readStates.length != 0 then rd := { rd with readStates := r.readStates }
  rd := { rd with mustSync := mustSync (hardState r) rn.prevHard rd.entries.length }
  if rn.async then
    if rd.entries.length > 0 || !isEmptyHS rd.hardState || !isEmptySnap rd.snapshot || r.msgsAfterAppend.length > 0 then
      let mut m : Message := { typ := .storageAppend, to := localAppendThread, «from» := r.cfg.id, entries := rd.entries }
      match rd.hardState with
      | some h => if !h.isEmpty then m := { m with term := h.term, vote := h.vote, commit := h.commit }
      | none => pure ()
      if !isEmptySnap rd.snapshot then m := { m with snapshot := rd.snapshot }
      m := { m with responses := r.msgsAfterAppend }
      if needStorageAppendRespMsg r rd then
        let resp ← newStorageAppendRespMsg r rd
        m := { m with responses := m.responses ++ [resp] }
      rd := { rd with messages := rd.messages ++ [m] }
    if rd.committedEntries.length > 0 then
      let m : Message := { typ := .storageApply, to := localApplyThread, «from» := r.cfg.id, term := 0,
                           entries := rd.committedEntries, responses := [newStorageApplyRespMsg r rd.committedEntries] }
      rd := { rd with messages := rd.messages ++ [m] }
  else
    rd := { rd with messages := rd.messages ++ r.msgsAfterAppend.filter (fun m => m.to != r.cfg.id) }
  pure rd

def acceptReady (rn : RawNode) (rd : Ready) : P RawNode := do
  let mut rn := rn
  match rd.softState with
  | some s => rn := { rn with prevSoft := s }
  | none => pure ()
  match rd.hardState with
  | some h => if !h.isEmpty then rn := { rn with prevHard := h }
  | none => pure ()
  if rd.readStates.length != 0 then rn := { rn with raft := { rn.raft with readStates := [] } }
  if !rn.async then
    if rn.stepsOnAdvance.length != 0 then throw "two accepted Ready structs without call to Advance"
    let mut soa := rn.raft.msgsAfterAppend.filter (fun m => m.to == rn.raft.cfg.id)
    if needStorageAppendRespMsg rn.raft rd then
      soa := soa ++ [← newStorageAppendRespMsg rn.raft rd]
    if rd.committedEntries.length > 0 then
      soa := soa ++ [newStorageApplyRespMsg rn.raft rd.committedEntries]
    rn := { rn with stepsOnAdvance := soa }
  let mut r := rn.raft
  r := { r with msgs := [], msgsAfterAppend := [], log := r.log.acceptUnstable }
  match rd.committedEntries.getLast? with
  | some last =>
    let l ← r.log.acceptApplying last.index (entsSize rd.committedEntries) rn.applyUnstableEntries
    r := { r with log := l }
  | none => pure ()
  pure { rn with raft := r }

def ready (rn : RawNode) : P (Ready × RawNode) := do
  let rd ← rn.readyWithoutAccept
  let rn ← rn.acceptReady rd
  pure (rd, rn)

def hasReady (rn : RawNode) : Bool :=
  let r := rn.raft
  softState r != rn.prevSoft ||
  (!(hardState r).isEmpty && hardState r != rn.prevHard) ||
  r.log.hasNextUnstableSnapshot ||
  r.msgs.length > 0 || r.msgsAfterAppend.length > 0 ||
  r.log.hasNextUnstableEnts || r.log.hasNextCommittedEnts rn.applyUnstableEntries ||
  r.readStates.length != 0

/-- `rn.raft.Step(m)` with error mapping -/
def rstep (rn : RawNode) (draws : List Nat) (m : Message) : Except String (Option ApiErr × RawNode) := do
  let (e, rn) ← rn.runM draws (Raft.step Raft.stepFuel m)
  pure (e.map (fun _ => ApiErr.proposalDropped), rn)

def advance (rn : RawNode) (draws : List Nat) : Except String RawNode := do
  if rn.async then throw "Advance must not be called when using AsyncStorageWrites"
  let act : M Unit := do
    for m in rn.stepsOnAdvance do
      let _ ← Raft.step Raft.stepFuel m
  let ((), rn) ← rn.runM draws act
  pure { rn with stepsOnAdvance := [] }

/-- `RawNode.Step` -/
def step (rn : RawNode) (draws : List Nat) (m : Message) : Except String (Option ApiErr × RawNode) :=
  if m.typ.isLocal && !isLocalMsgTarget m.from then pure (some .stepLocalMsg, rn)
  else if m.typ.isResponse && !isLocalMsgTarget m.from && (rn.raft.trk.getProgress m.from).isNone then
    pure (some .stepPeerNotFound, rn)
  else rn.rstep draws m

def tick (rn : RawNode) (draws : List Nat) : Except String RawNode := do
  let ((), rn) ← rn.runM draws Raft.tick
  pure rn

def campaign (rn : RawNode) (draws : List Nat) := rn.rstep draws { typ := .hup }
def propose (rn : RawNode) (draws : List Nat) (data : Option Bytes) :=
  rn.rstep draws { typ := .prop, «from» := rn.raft.cfg.id, entries := [{ data := data }] }
def proposeConfChange (rn : RawNode) (draws : List Nat) (typ : EntryType) (data : Option Bytes) :=
  rn.rstep draws { typ := .prop, entries := [{ typ := some typ, data := data }] }
def reportUnreachable (rn : RawNode) (draws : List Nat) (id : Id) := rn.rstep draws { typ := .unreachable, «from» := id }
def reportSnapshot (rn : RawNode) (draws : List Nat) (id : Id) (failure : Bool) :=
  rn.rstep draws { typ := .snapStatus, «from» := id, reject := failure }
def transferLeader (rn : RawNode) (draws : List Nat) (transferee : Id) :=
  rn.rstep draws { typ := .transferLeader, «from» := transferee }
def forgetLeader (rn : RawNode) (draws : List Nat) := rn.rstep draws { typ := .forgetLeader }
def readIndex (rn : RawNode) (draws : List Nat) (rctx : Option Bytes) :=
  rn.rstep draws { typ := .readIndex, entries := [{ data := rctx }] }

def applyConfChange (rn : RawNode) (draws : List Nat) (cc : ConfChangeV2) : Except String (ConfState × RawNode) :=
  rn.runM draws (Raft.applyConfChange cc)

/-! ### canonical text -/
open Parse

def fmtReadStates (rs : List (Nat × Option Bytes)) : String :=
  ",".intercalate (rs.map fun (i, c) => s!"{i}.{fmtOptBytes c}")

def fmtReadOnly (ro : ReadOnly) : String :=
  s!"ro: opt={ro.option} conf={ro.confirmedReads} acks:" ++ String.join (ro.acks.map fun (id, v) => s!" {id}:{v}") ++
  " unc:[" ++ ",".intercalate (ro.unconfirmed.map fun rq => s!"{rq.index}@{fmtMessage rq.req}") ++ "]"

def dump (rn : RawNode) : String :=
  let r := rn.raft
  s!"id={r.cfg.id} term={r.term} vote={r.vote} lead={r.lead} role={r.state.toNat} learner={b2n r.isLearner} xfer={r.leadTransferee} pci={r.pendingConfIndex} usz={r.uncommittedSize} ee={r.electionElapsed} he={r.heartbeatElapsed} ret={r.randomizedElectionTimeout}" ++
  s!" | log: {fmtLog r.log} | sto: {fmtStorage r.log.storage} | {fmtTracker r.trk} | {fmtReadOnly r.readOnly}" ++
  s!" | pri={fmtMessages r.pendingReadIndexMessages} msgs={fmtMessages r.msgs} maa={fmtMessages r.msgsAfterAppend} rs=[{fmtReadStates r.readStates}]" ++
  s!" | raw: async={b2n rn.async} pss={rn.prevSoft.1}.{rn.prevSoft.2.toNat} phs={fmtHardState rn.prevHard} soa={fmtMessages rn.stepsOnAdvance}"

def fmtReady (rd : Ready) : String :=
  let ss := match rd.softState with | none => "-" | some (l, s) => s!"{l}.{s.toNat}"
  let hs := match rd.hardState with | none => "-" | some h => fmtHardState h
  s!"R(ss={ss} hs={hs} rs=[{fmtReadStates rd.readStates}] ents={fmtEntries rd.entries} snap={fmtSnapshot rd.snapshot} cents={fmtEntries rd.committedEntries} msgs={fmtMessages rd.messages} sync={b2n rd.mustSync})"

end RawNode
end RaftVerif
