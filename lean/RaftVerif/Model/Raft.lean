import RaftVerif.Model.ConfChange
/-!
# Model/Raft — raft.go and read_only.go

Same function names and case structure as the Go source, written in a state monad over the `Raft`
record so that it can be read side by side with raft.go. `panic`s are `throw`n. The only source of
nondeterminism, `globalRand.Intn(electionTimeout)`, reads the next value of `Raft.draws` (supplied by
the caller with every operation).
-/
namespace RaftVerif

inductive Role where
  | follower | candidate | leader | preCandidate
  deriving DecidableEq, Repr, Inhabited

def Role.toNat : Role → Nat
  | .follower => 0 | .candidate => 1 | .leader => 2 | .preCandidate => 3

/-! ### read_only.go -/

structure ReadIndexRequest where
  req : Message
  index : Nat
  deriving Repr, Inhabited

structure ReadOnly where
  option : Nat := 0          -- 0 = ReadOnlySafe, 1 = ReadOnlyLeaseBased
  acks : List (Id × Nat) := []
  unconfirmed : List ReadIndexRequest := []
  confirmedReads : Nat := 0
  deriving Repr, Inhabited

def leUint64 (n : Nat) : Bytes := (List.range 8).map fun i => UInt8.ofNat ((n >>> (8 * i)) % 256)

def decLeUint64 (b : Bytes) : Option Nat :=
  if b.length < 8 then none
  else some (((b.take 8).zipIdx.map fun (x, i) => x.toNat <<< (8 * i)).sum)

namespace ReadOnly
def addRequest (ro : ReadOnly) (commitIndex : Nat) (req : Message) : ReadOnly :=
  { ro with unconfirmed := ro.unconfirmed ++ [{ req := req, index := commitIndex }] }

def recvAck (ro : ReadOnly) (frm : Id) (ctx : Option Bytes) : P ReadOnly :=
  match ctx with
  | none => pure ro
  | some [] => pure ro
  | some b =>
    match decLeUint64 b with
    | none => throw "readOnly.recvAck: context shorter than 8 bytes"
    | some v => pure { ro with acks := mapInsert frm (max ((mapGet ro.acks frm).getD 0) v) ro.acks }

/-- returns the released requests -/
def maybeAdvance (ro : ReadOnly) (c0 c1 : List Id) : P (ReadOnly × List ReadIndexRequest) :=
  match Quorum.jointCommitted c0 c1 (mapGet ro.acks) with
  | none => throw "readOnly.maybeAdvance: slice bounds out of range (empty config)"
  | some newConfirmed =>
    if newConfirmed ≤ ro.confirmedReads then pure (ro, [])
    else
      let n := newConfirmed - ro.confirmedReads
      if n > ro.unconfirmed.length then throw "readOnly.maybeAdvance: slice bounds out of range"
      else pure ({ ro with unconfirmed := ro.unconfirmed.drop n, confirmedReads := newConfirmed }, ro.unconfirmed.take n)

def heartbeatCtx (ro : ReadOnly) : Option Bytes :=
  if ro.unconfirmed.length == 0 then none
  else some (leUint64 (ro.confirmedReads + ro.unconfirmed.length))
end ReadOnly

/-! ### raft -/

/-- the immutable part of `raft` (Config after `validate()`) -/
structure RaftCfg where
  id : Id := 0
  electionTimeout : Nat := 10
  heartbeatTimeout : Nat := 1
  maxMsgSize : Nat := 0
  maxUncommittedSize : Nat := 0
  checkQuorum : Bool := false
  preVote : Bool := false
  disableProposalForwarding : Bool := false
  disableConfChangeValidation : Bool := false
  stepDownOnRemoval : Bool := false
  deriving Repr, Inhabited

structure Raft where
  cfg : RaftCfg := {}
  term : Nat := 0
  vote : Nat := 0
  readStates : List (Nat × Option Bytes) := []
  log : RaftLog := {}
  trk : Tracker := {}
  state : Role := .follower
  isLearner : Bool := false
  msgs : List Message := []
  msgsAfterAppend : List Message := []
  lead : Nat := 0
  leadTransferee : Nat := 0
  pendingConfIndex : Nat := 0
  uncommittedSize : Nat := 0
  readOnly : ReadOnly := {}
  electionElapsed : Nat := 0
  heartbeatElapsed : Nat := 0
  randomizedElectionTimeout : Nat := 0
  pendingReadIndexMessages : List Message := []
  /-- election-timeout draws still available to the current operation -/
  draws : List Nat := []
  deriving Repr, Inhabited

inductive StepErr where
  | proposalDropped
  deriving DecidableEq, Repr, Inhabited

abbrev M := StateT Raft (Except String)

def liftP {α : Type} (x : P α) : M α := match x with | .ok a => pure a | .error e => throw e

def campaignTransferCtx : Bytes := "CampaignTransfer".toUTF8.toList

inductive CampaignType where
  | preElection | election | transfer
  deriving DecidableEq, Repr

def voteRespMsgType (t : MsgType) : MsgType := if t == .vote then .voteResp else .preVoteResp

namespace Raft

def getPr (id : Id) : M Progress := do
  match (← get).trk.getProgress id with
  | some pr => pure pr
  | none => throw "nil Progress dereference"

def setPr (id : Id) (pr : Progress) : M Unit := modify fun r => { r with trk := r.trk.setProgress id pr }

def setLog (l : RaftLog) : M Unit := modify fun r => { r with log := l }

def lastEntryID : M EntryID := do liftP (← get).log.lastEntryID

def send (m : Message) : M Unit := do
  let r ← get
  let m := if m.from == 0 then { m with «from» := r.cfg.id } else m
  let m ←
    if m.typ == .vote || m.typ == .voteResp || m.typ == .preVote || m.typ == .preVoteResp then
      if m.term == 0 then throw "send: term should be set" else pure m
    else
      if m.term != 0 then throw "send: term should not be set"
      else pure (if m.typ != .prop && m.typ != .readIndex then { m with term := r.term } else m)
  if m.typ == .appResp || m.typ == .voteResp || m.typ == .preVoteResp then
    modify fun r => { r with msgsAfterAppend := r.msgsAfterAppend ++ [m] }
  else
    if m.to == r.cfg.id then throw "send: message should not be self-addressed"
    modify fun r => { r with msgs := r.msgs ++ [m] }

def maybeSendSnapshot (to : Id) (pr : Progress) : M Bool := do
  if !pr.recentActive then return false
  let snapshot := (← get).log.snapshot
  if snapshot.index == 0 then throw "need non-empty snapshot"
  setPr to (pr.becomeSnapshot snapshot.index)
  send { to := to, typ := .snap, snapshot := some snapshot }
  return true

def maybeSendAppend (to : Id) (sendIfEmpty : Bool) : M Bool := do
  let pr ← getPr to
  if pr.isPaused then return false
  let r ← get
  let prevIndex := usub pr.next 1
  let prevTerm ← match r.log.term prevIndex with
    | .ok t => pure t
    | .error _ => return (← maybeSendSnapshot to pr)
  let mut ents : List Entry := []
  let mut err := false
  if pr.state != .replicate || !pr.inflights.full then
    match ← liftP (r.log.entries pr.next r.cfg.maxMsgSize) with
    | .ok es => ents := es
    | .error _ => err := true
  if ents.length == 0 && !sendIfEmpty then return false
  if err then return (← maybeSendSnapshot to pr)
  send { to := to, typ := .app, index := prevIndex, logTerm := prevTerm, entries := ents, commit := r.log.committed }
  let pr ← liftP (pr.sentEntries ents.length (payloadsSize ents))
  setPr to { pr with sentCommit := r.log.committed }
  return true

def sendAppend (to : Id) : M Unit := do let _ ← maybeSendAppend to true

/-- `for r.maybeSendAppend(to, false) {}` — every successful round sends at least one entry, so
`lastIndex + 2` rounds always suffice; `fuel` makes the recursion structural -/
def sendAppendLoop : Nat → Id → M Unit
  | 0, _ => pure ()
  | fuel + 1, to => do
    if ← maybeSendAppend to false then sendAppendLoop fuel to

def sendHeartbeat (to : Id) (ctx : Option Bytes) : M Unit := do
  let pr ← getPr to
  let commit := min pr.match_ (← get).log.committed
  send { to := to, typ := .heartbeat, commit := commit, context := ctx }
  setPr to { pr with sentCommit := commit }

def progressIds : M (List Id) := do pure ((← get).trk.progress.map (·.1))

def bcastAppend : M Unit := do
  let me := (← get).cfg.id
  for id in ← progressIds do
    if id != me then sendAppend id

def bcastHeartbeatWithCtx (ctx : Option Bytes) : M Unit := do
  let me := (← get).cfg.id
  for id in ← progressIds do
    if id != me then sendHeartbeat id ctx

def bcastHeartbeat : M Unit := do bcastHeartbeatWithCtx (← get).readOnly.heartbeatCtx

def maybeCommit : M Bool := do
  let r ← get
  match r.trk.committed with
  | none => return false
  | some idx =>
    let (l, ok) ← liftP (r.log.maybeCommit { term := r.term, index := idx })
    setLog l
    return ok

def resetRandomizedElectionTimeout : M Unit := do
  let r ← get
  match r.draws with
  | [] => throw "HARNESS: no election-timeout draw supplied"
  | d :: rest => set { r with randomizedElectionTimeout := r.cfg.electionTimeout + d, draws := rest }

def abortLeaderTransfer : M Unit := modify fun r => { r with leadTransferee := 0 }

def reset (term : Nat) : M Unit := do
  modify fun r => if r.term != term then { r with term := term, vote := 0 } else r
  modify fun r => { r with lead := 0, electionElapsed := 0, heartbeatElapsed := 0 }
  resetRandomizedElectionTimeout
  abortLeaderTransfer
  modify fun r =>
    let last := r.log.lastIndex
    let prs := r.trk.progress.map fun (id, pr) =>
      let npr : Progress := { match_ := if id == r.cfg.id then last else 0, next := last + 1,
                              inflights := { size := r.trk.maxInflight, maxBytes := r.trk.maxInflightBytes },
                              isLearner := pr.isLearner }
      (id, npr)
    { r with trk := { r.trk.resetVotes with progress := prs }, pendingConfIndex := 0, uncommittedSize := 0,
             readOnly := { option := r.readOnly.option } }

def increaseUncommittedSize (ents : List Entry) : M Bool := do
  let r ← get
  let s := payloadsSize ents
  if r.uncommittedSize > 0 && s > 0 && r.uncommittedSize + s > r.cfg.maxUncommittedSize then return false
  set { r with uncommittedSize := r.uncommittedSize + s }
  return true

def reduceUncommittedSize (s : Nat) : M Unit :=
  modify fun r => { r with uncommittedSize := if s > r.uncommittedSize then 0 else r.uncommittedSize - s }

def appendEntry (es : List Entry) : M Bool := do
  let r ← get
  let li := r.log.lastIndex
  let cloned := es.zipIdx.map fun (e, i) => { e with term := r.term, index := li + 1 + i }
  if !(← increaseUncommittedSize cloned) then return false
  let (l, li) ← liftP ((← get).log.append cloned)
  setLog l
  send { to := r.cfg.id, typ := .appResp, index := li }
  return true

def promotable : M Bool := do
  let r ← get
  match r.trk.getProgress r.cfg.id with
  | none => pure false
  | some pr => pure (!pr.isLearner && !r.log.hasNextOrInProgressSnapshot)

def pastElectionTimeout : M Bool := do
  let r ← get
  pure (r.electionElapsed ≥ r.randomizedElectionTimeout)

def becomeFollower (term lead : Nat) : M Unit := do
  reset term
  modify fun r => { r with lead := lead, state := .follower }

def becomeCandidate : M Unit := do
  if (← get).state == .leader then throw "invalid transition [leader -> candidate]"
  reset ((← get).term + 1)
  modify fun r => { r with vote := r.cfg.id, state := .candidate }

def becomePreCandidate : M Unit := do
  if (← get).state == .leader then throw "invalid transition [leader -> pre-candidate]"
  modify fun r => { r with trk := r.trk.resetVotes, lead := 0, state := .preCandidate }

def becomeLeader : M Unit := do
  if (← get).state == .follower then throw "invalid transition [follower -> leader]"
  reset (← get).term
  modify fun r => { r with lead := r.cfg.id, state := .leader }
  let me := (← get).cfg.id
  let pr ← getPr me
  setPr me { pr.becomeReplicate with recentActive := true }
  modify fun r => { r with pendingConfIndex := r.log.lastIndex }
  if !(← appendEntry [{}]) then throw "empty entry was dropped"

def hasUnappliedConfChanges : M Bool := do
  let r ← get
  if r.log.applied ≥ r.log.committed then return false
  let lo := r.log.applied + 1
  let hi := r.log.committed + 1
  liftP (r.log.scanAny (fun e => e.getType == .confChange || e.getType == .confChangeV2)
    r.log.maxApplyingEntsSize (hi - lo + 1) lo hi)

def campaign (t : CampaignType) : M Unit := do
  let (voteMsg, term) ←
    if t == .preElection then do
      becomePreCandidate
      pure (MsgType.preVote, (← get).term + 1)
    else do
      becomeCandidate
      pure (MsgType.vote, (← get).term)
  let r ← get
  for id in r.trk.voterNodes do
    if id == r.cfg.id then
      send { to := id, term := term, typ := voteRespMsgType voteMsg }
    else
      let last ← lastEntryID
      let ctx := if t == .transfer then some campaignTransferCtx else none
      send { to := id, term := term, typ := voteMsg, index := last.index, logTerm := last.term, context := ctx }

def hup (t : CampaignType) : M Unit := do
  if (← get).state == .leader then return
  if !(← promotable) then return
  if ← hasUnappliedConfChanges then return
  campaign t

def poll (id : Id) (v : Bool) : M Quorum.VoteResult := do
  modify fun r => { r with trk := r.trk.recordVote id v }
  pure (← get).trk.tallyVotes.2.2

def committedEntryInCurrentTerm : M Bool := do
  let r ← get
  pure (RaftLog.zeroTermOnOutOfBounds (r.log.term r.log.committed) == r.term)

/-- returns the response to send, `none` when the read state was delivered locally -/
def responseToReadIndexReq (req : Message) (readIndex : Nat) : M (Option Message) := do
  let r ← get
  match req.entries with
  | [] => throw "responseToReadIndexReq: index out of range (no entries)"
  | e0 :: _ =>
    if req.from == 0 || req.from == r.cfg.id then
      set { r with readStates := r.readStates ++ [(readIndex, e0.data)] }
      pure none
    else
      pure (some { typ := .readIndexResp, to := req.from, index := readIndex, entries := req.entries })

def sendReadIndexResp (req : Message) (readIndex : Nat) : M Unit := do
  match ← responseToReadIndexReq req readIndex with
  | some resp => if resp.to != 0 then send resp
  | none => pure ()

def sendMsgReadIndexResponse (m : Message) : M Unit := do
  let r ← get
  if r.trk.cfg.voters.contains r.cfg.id && r.trk.isSingleton then
    -- sole voter and that voter is this node
    sendReadIndexResp m r.log.committed
  else if r.readOnly.option == 0 then
    let ro := r.readOnly.addRequest r.log.committed m
    let ro ← liftP (ro.recvAck r.cfg.id ro.heartbeatCtx)
    set { r with readOnly := ro }
    bcastHeartbeat
  else
    sendReadIndexResp m r.log.committed

def releasePendingReadIndexMessages : M Unit := do
  let r ← get
  if r.pendingReadIndexMessages.length == 0 then return
  if !(← committedEntryInCurrentTerm) then return
  set { r with pendingReadIndexMessages := [] }
  for m in r.pendingReadIndexMessages do
    sendMsgReadIndexResponse m

def sendTimeoutNow (to : Id) : M Unit := send { to := to, typ := .timeoutNow }

def handleAppendEntries (m : Message) : M Unit := do
  let r ← get
  if m.index < r.log.committed then
    send { to := m.from, typ := .appResp, index := r.log.committed }
    return
  let (l, res) ← liftP (r.log.maybeAppend { term := m.logTerm, index := m.index } m.entries m.commit)
  setLog l
  match res with
  | some mlastIndex => send { to := m.from, typ := .appResp, index := mlastIndex }
  | none =>
    let hintIndex := min m.index l.lastIndex
    let (hintIndex, hintTerm) := l.findConflictByTerm hintIndex m.logTerm
    send { to := m.from, typ := .appResp, index := m.index, reject := true, rejectHint := hintIndex, logTerm := hintTerm }

def handleHeartbeat (m : Message) : M Unit := do
  let l ← liftP ((← get).log.commitTo m.commit)
  setLog l
  send { to := m.from, typ := .heartbeatResp, context := m.context }

/-- the tail of `switchToConfig` is needed by `restore`; `switchToConfig` itself never calls `Step` -/
def switchToConfig (cfg : TrackerConfig) (trk : ProgressMap) : M ConfState := do
  modify fun r => { r with trk := { r.trk with cfg := cfg, progress := trk } }
  let r ← get
  let cs := r.trk.confState
  let pr := r.trk.getProgress r.cfg.id
  let isLearner := (pr.map (·.isLearner)).getD false
  set { r with isLearner := isLearner }
  if (pr.isNone || isLearner) && r.state == .leader then
    if r.cfg.stepDownOnRemoval then becomeFollower r.term 0
    return cs
  if r.state != .leader || cs.voters.length == 0 then return cs
  if ← maybeCommit then
    bcastAppend
  else
    let me := r.cfg.id
    for id in ← progressIds do
      if id != me then let _ ← maybeSendAppend id false
  let r ← get
  if !(r.trk.voterNodes.contains r.leadTransferee) && r.leadTransferee != 0 then abortLeaderTransfer
  return cs

def restore (s : Snapshot) : M Bool := do
  let r ← get
  if s.index ≤ r.log.committed then return false
  if r.state != .follower then
    becomeFollower (r.term + 1) 0
    return false
  let cs := s.conf
  let found := cs.voters.contains r.cfg.id || cs.learners.contains r.cfg.id || cs.votersOutgoing.contains r.cfg.id
  if !found then return false
  let id : EntryID := { term := s.term, index := s.index }
  if r.log.matchTerm id then
    let l ← liftP (r.log.commitTo s.index)
    setLog l
    return false
  let l := r.log.restore s
  setLog l
  let trk0 := Tracker.make r.trk.maxInflight r.trk.maxInflightBytes
  modify fun r => { r with trk := trk0 }
  match restoreConf { tracker := trk0, lastIndex := l.lastIndex } cs with
  | .error e => throw s!"unable to restore config: {e}"
  | .ok (cfg, trk) =>
    let cs2 ← switchToConfig cfg trk
    if !cs.equivalent cs2 then throw "ConfStates not equivalent"
    return true

def handleSnapshot (m : Message) : M Unit := do
  let s := m.snapshot.getD {}
  if ← restore s then
    send { to := m.from, typ := .appResp, index := (← get).log.lastIndex }
  else
    send { to := m.from, typ := .appResp, index := (← get).log.committed }

/-- decode the conf change carried by a proposed entry (`stepLeader`, MsgProp) -/
def decodeCC (e : Entry) : M (Option ConfChangeV2) := do
  match e.getType with
  | .confChange =>
    match decodeConfChangeV1AsV2 (e.data.getD []) with
    | some c => pure (some c)
    | none => throw "proto.Unmarshal ConfChange failed"
  | .confChangeV2 =>
    match decodeConfChangeV2 (e.data.getD []) with
    | some c => pure (some c)
    | none => throw "proto.Unmarshal ConfChangeV2 failed"
  | .normal => pure none

/-- `checkConfChange`: could `cc` be applied to the active configuration? (dry run of the Changer) -/
def checkConfChange (r : Raft) (cc : ConfChangeV2) : Bool :=
  let changer : Changer := { tracker := r.trk, lastIndex := r.log.lastIndex }
  let res :=
    if cc.leaveJoint then changer.leaveJoint
    else match cc.enterJoint with
      | some autoLeave => changer.enterJoint autoLeave cc.changes
      | none => changer.simple cc.changes
  match res with
  | .ok _ => true
  | .error _ => false

def appliedToLog (index size : Nat) : M Nat := do
  let r ← get
  let newApplied := max index r.log.applied
  let l ← liftP (r.log.appliedTo newApplied size)
  setLog l
  pure newApplied

mutual

/-- `raft.Step`; `fuel` bounds the nesting Step → appliedTo → Step (depth 2 in the Go code) -/
def step : Nat → Message → M (Option StepErr)
  | 0, _ => throw "MODEL: step nesting deeper than expected"
  | fuel + 1, m => do
    let r ← get
    if m.term == 0 then pure ()
    else if m.term > r.term then
      if m.typ == .vote || m.typ == .preVote then
        let force := m.context == some campaignTransferCtx
        let inLease := r.cfg.checkQuorum && r.lead != 0 && r.electionElapsed < r.cfg.electionTimeout
        if !force && inLease then return none
      if m.typ == .preVote then pure ()
      else if m.typ == .preVoteResp && !m.reject then pure ()
      else
        if m.typ == .app || m.typ == .heartbeat || m.typ == .snap then becomeFollower m.term m.from
        else becomeFollower m.term 0
    else if m.term < r.term then
      if (r.cfg.checkQuorum || r.cfg.preVote) && (m.typ == .heartbeat || m.typ == .app) then
        send { to := m.from, typ := .appResp }
      else if m.typ == .preVote then
        send { to := m.from, term := r.term, typ := .preVoteResp, reject := true }
      else if m.typ == .storageAppendResp then
        match m.snapshot with
        | some s => appliedSnap fuel s
        | none => pure ()
      return none
    match m.typ with
    | .hup =>
      if (← get).cfg.preVote then hup .preElection else hup .election
      return none
    | .storageAppendResp =>
      if m.index != 0 then
        modify fun r => { r with log := r.log.stableTo { term := m.logTerm, index := m.index } }
      match m.snapshot with
      | some s => appliedSnap fuel s
      | none => pure ()
      return none
    | .storageApplyResp =>
      match m.entries.getLast? with
      | some last =>
        appliedTo fuel last.index (entsSize m.entries)
        -- only entries of the current term were ever counted
        let t := (← get).term
        reduceUncommittedSize (payloadsSize (m.entries.filter (fun e => e.term == t)))
      | none => pure ()
      return none
    | .vote | .preVote =>
      let r ← get
      let canVote := r.vote == m.from || (r.vote == 0 && r.lead == 0) || (m.typ == .preVote && m.term > r.term)
      let _ ← lastEntryID
      let candLastID : EntryID := { term := m.logTerm, index := m.index }
      if canVote && (← liftP (r.log.isUpToDate candLastID)) then
        send { to := m.from, term := m.term, typ := voteRespMsgType m.typ }
        if m.typ == .vote then
          modify fun r => { r with electionElapsed := 0, vote := m.from }
      else
        send { to := m.from, term := r.term, typ := voteRespMsgType m.typ, reject := true }
      return none
    | _ =>
      match (← get).state with
      | .leader => stepLeader fuel m
      | .candidate | .preCandidate => stepCandidate fuel m
      | .follower => stepFollower fuel m

def appliedTo : Nat → Nat → Nat → M Unit
  | fuel, index, size => do
    let newApplied ← appliedToLog index size
    let r ← get
    if r.trk.cfg.autoLeave && newApplied ≥ r.pendingConfIndex && r.state == .leader then
      -- confChangeToMsg(nil): an empty ConfChangeV2 proposal
      let m : Message := { typ := .prop, entries := [{ typ := some .confChangeV2, data := none }] }
      let _ ← step fuel m

def appliedSnap : Nat → Snapshot → M Unit
  | fuel, snap => do
    modify fun r => { r with log := r.log.stableSnapTo snap.index }
    appliedTo fuel snap.index 0

def stepLeader : Nat → Message → M (Option StepErr)
  | fuel, m => do
    match m.typ with
    | .beat => bcastHeartbeat; return none
    | .checkQuorum =>
      if !(← get).trk.quorumActive then
        becomeFollower (← get).term 0
      modify fun r =>
        { r with trk := { r.trk with progress := r.trk.progress.map fun (id, pr) =>
            if id != r.cfg.id then (id, { pr with recentActive := false }) else (id, pr) } }
      return none
    | .prop =>
      let r ← get
      if m.entries.length == 0 then throw "stepped empty MsgProp"
      if (r.trk.getProgress r.cfg.id).isNone then return some .proposalDropped
      if r.leadTransferee != 0 then return some .proposalDropped
      let mut ents : List Entry := []
      for (e, i) in m.entries.zipIdx do
        match ← decodeCC e with
        | none => ents := ents ++ [e]
        | some cc =>
          let r ← get
          let alreadyPending := r.pendingConfIndex > r.log.applied
          let alreadyJoint := r.trk.outgoingL.length > 0
          let wantsLeaveJoint := cc.changes.length == 0
          let failed := alreadyPending || (alreadyJoint && !wantsLeaveJoint) || (!alreadyJoint && wantsLeaveJoint)
            || !(checkConfChange r cc)
          if failed && !r.cfg.disableConfChangeValidation then
            ents := ents ++ [{ typ := some .normal }]
          else
            set { r with pendingConfIndex := r.log.lastIndex + i + 1 }
            ents := ents ++ [e]
      if !(← appendEntry ents) then return some .proposalDropped
      bcastAppend
      return none
    | .readIndex =>
      let r ← get
      if !(← committedEntryInCurrentTerm) then
        set { r with pendingReadIndexMessages := r.pendingReadIndexMessages ++ [m] }
        return none
      sendMsgReadIndexResponse m
      return none
    | .forgetLeader => return none
    | _ => pure ()
    let pr ← match (← get).trk.getProgress m.from with
      | some pr => pure pr
      | none => return none
    match m.typ with
    | .appResp =>
      let pr := { pr with recentActive := true }
      setPr m.from pr
      if m.reject then
        let r ← get
        let nextProbeIdx := if m.logTerm > 0 then (r.log.findConflictByTerm m.rejectHint m.logTerm).1 else m.rejectHint
        let (pr, ok) := pr.maybeDecrTo m.index nextProbeIdx
        if ok then
          let pr := if pr.state == .replicate then pr.becomeProbe else pr
          setPr m.from pr
          sendAppend m.from
      else
        let (pr, updated) := pr.maybeUpdate m.index
        setPr m.from pr
        if updated || (pr.match_ == m.index && pr.state == .probe) then
          let r ← get
          let pr :=
            if pr.state == .probe then pr.becomeReplicate
            else if pr.state == .snapshot && pr.match_ + 1 ≥ r.log.firstIndex then pr.becomeProbe.becomeReplicate
            else if pr.state == .replicate then { pr with inflights := pr.inflights.freeLE m.index }
            else pr
          setPr m.from pr
          if ← maybeCommit then
            releasePendingReadIndexMessages
            bcastAppend
          else
            let pr ← getPr m.from
            if r.cfg.id != m.from && pr.canBumpCommit (← get).log.committed then sendAppend m.from
          if r.cfg.id != m.from then
            -- `for r.maybeSendAppend(m.From, false) {}`
            sendAppendLoop ((← get).log.lastIndex + 2) m.from
          let r ← get
          let pr ← getPr m.from
          if m.from == r.leadTransferee && pr.match_ == r.log.lastIndex then sendTimeoutNow m.from
      return none
    | .heartbeatResp =>
      let pr := { pr with recentActive := true, msgAppFlowPaused := false }
      setPr m.from pr
      let r ← get
      if pr.match_ < r.log.lastIndex || pr.state == .probe then sendAppend m.from
      if r.readOnly.option != 0 || m.ctxLen == 0 then return none
      let ro ← liftP ((← get).readOnly.recvAck m.from m.context)
      let r ← get
      let (ro, rss) ← liftP (ro.maybeAdvance r.trk.cfg.voters r.trk.outgoingL)
      set { r with readOnly := ro }
      for rs in rss do
        sendReadIndexResp rs.req rs.index
      return none
    | .snapStatus =>
      if pr.state != .snapshot then return none
      let pr := if !m.reject then pr.becomeProbe else ({ pr with pendingSnapshot := 0 } : Progress).becomeProbe
      setPr m.from { pr with msgAppFlowPaused := true }
      return none
    | .unreachable =>
      if pr.state == .replicate then setPr m.from pr.becomeProbe
      return none
    | .transferLeader =>
      if pr.isLearner then return none
      let r ← get
      let leadTransferee := m.from
      let lastLeadTransferee := r.leadTransferee
      if lastLeadTransferee != 0 then
        if lastLeadTransferee == leadTransferee then return none
        abortLeaderTransfer
      if leadTransferee == r.cfg.id then return none
      modify fun r => { r with electionElapsed := 0, leadTransferee := leadTransferee }
      if pr.match_ == r.log.lastIndex then sendTimeoutNow leadTransferee
      else sendAppend leadTransferee
      return none
    | _ => return none

def stepCandidate : Nat → Message → M (Option StepErr)
  | _fuel, m => do
    let r ← get
    let myVoteRespType : MsgType := if r.state == .preCandidate then .preVoteResp else .voteResp
    match m.typ with
    | .prop => return some .proposalDropped
    | .app => becomeFollower m.term m.from; handleAppendEntries m; return none
    | .heartbeat => becomeFollower m.term m.from; handleHeartbeat m; return none
    | .snap => becomeFollower m.term m.from; handleSnapshot m; return none
    | .timeoutNow => return none
    | t =>
      if t == myVoteRespType then
        -- a granted pre-vote counts only if it was issued for the term being asked for (r.Term+1)
        if r.state == .preCandidate && !m.reject && m.term != r.term + 1 then return none
        match ← poll m.from (!m.reject) with
        | .won =>
          if r.state == .preCandidate then campaign .election
          else if (mapGet (← get).trk.votes r.cfg.id).isNone then
            -- own vote (released only once the HardState is durable) not yet recorded: stay candidate
            pure ()
          else
            becomeLeader
            bcastAppend
        | .lost => becomeFollower r.term 0
        | .pending => pure ()
      return none

def stepFollower : Nat → Message → M (Option StepErr)
  | _fuel, m => do
    let r ← get
    match m.typ with
    | .prop =>
      if r.lead == 0 then return some .proposalDropped
      else if r.cfg.disableProposalForwarding then return some .proposalDropped
      send { m with to := r.lead }
      return none
    | .app =>
      set { r with electionElapsed := 0, lead := m.from }
      handleAppendEntries m
      return none
    | .heartbeat =>
      set { r with electionElapsed := 0, lead := m.from }
      handleHeartbeat m
      return none
    | .snap =>
      set { r with electionElapsed := 0, lead := m.from }
      handleSnapshot m
      return none
    | .transferLeader =>
      if r.lead == 0 then return none
      send { m with to := r.lead }
      return none
    | .forgetLeader =>
      if r.readOnly.option == 1 then return none
      if r.lead != 0 then set { r with lead := 0 }
      return none
    | .timeoutNow =>
      hup .transfer
      return none
    | .readIndex =>
      if r.lead == 0 then return none
      send { m with to := r.lead }
      return none
    | .readIndexResp =>
      match m.entries with
      | [e] => set { r with readStates := r.readStates ++ [(m.index, e.data)] }
      | _ => pure ()
      return none
    | _ => return none

end

def stepFuel : Nat := 3

def tickElection : M Unit := do
  modify fun r => { r with electionElapsed := r.electionElapsed + 1 }
  if (← promotable) && (← pastElectionTimeout) then
    modify fun r => { r with electionElapsed := 0 }
    let _ ← step stepFuel { «from» := (← get).cfg.id, typ := .hup }

def tickHeartbeat : M Unit := do
  modify fun r => { r with heartbeatElapsed := r.heartbeatElapsed + 1, electionElapsed := r.electionElapsed + 1 }
  let r ← get
  if r.electionElapsed ≥ r.cfg.electionTimeout then
    modify fun r => { r with electionElapsed := 0 }
    if r.cfg.checkQuorum then
      let _ ← step stepFuel { «from» := r.cfg.id, typ := .checkQuorum }
    let r ← get
    if r.state == .leader && r.leadTransferee != 0 then abortLeaderTransfer
  if (← get).state != .leader then return
  let r ← get
  if r.heartbeatElapsed ≥ r.cfg.heartbeatTimeout then
    modify fun r => { r with heartbeatElapsed := 0 }
    let _ ← step stepFuel { «from» := r.cfg.id, typ := .beat }

/-- `r.tick()`: the function installed by the last `become*` -/
def tick : M Unit := do
  if (← get).state == .leader then tickHeartbeat else tickElection

def applyConfChange (cc : ConfChangeV2) : M ConfState := do
  let r ← get
  let changer : Changer := { tracker := r.trk, lastIndex := r.log.lastIndex }
  let res :=
    if cc.leaveJoint then changer.leaveJoint
    else match cc.enterJoint with
      | some autoLeave => changer.enterJoint autoLeave cc.changes
      | none => changer.simple cc.changes
  match res with
  | .error e => throw s!"applyConfChange: {e}"
  | .ok (cfg, trk) => switchToConfig cfg trk

def loadState (hs : HardState) : M Unit := do
  let r ← get
  if hs.commit < r.log.committed || hs.commit > r.log.lastIndex then throw "loadState: state.commit out of range"
  set { r with log := { r.log with committed := hs.commit }, term := hs.term, vote := hs.vote }

end Raft

/-- raw `Config` as passed to `NewRawNode` (before `validate()`) -/
structure Config where
  id : Id := 0
  electionTick : Nat := 0
  heartbeatTick : Nat := 0
  applied : Nat := 0
  asyncStorageWrites : Bool := false
  maxSizePerMsg : Nat := 0
  maxCommittedSizePerReady : Nat := 0
  maxUncommittedEntriesSize : Nat := 0
  maxInflightMsgs : Nat := 0
  maxInflightBytes : Nat := 0
  checkQuorum : Bool := false
  preVote : Bool := false
  readOnlyOption : Nat := 0
  disableProposalForwarding : Bool := false
  disableConfChangeValidation : Bool := false
  stepDownOnRemoval : Bool := false
  deriving Repr, Inhabited

/-- `Config.validate()`: error string or the config with defaults filled in -/
def Config.validate (c : Config) : Except String Config := do
  if c.id == 0 then throw "cannot use none as id"
  if isLocalMsgTarget c.id then throw "cannot use local target as id"
  if c.heartbeatTick == 0 then throw "heartbeat tick must be greater than 0"
  if c.electionTick ≤ c.heartbeatTick then throw "election tick must be greater than heartbeat tick"
  let c := if c.maxUncommittedEntriesSize == 0 then { c with maxUncommittedEntriesSize := noLimit } else c
  let c := if c.maxCommittedSizePerReady == 0 then { c with maxCommittedSizePerReady := c.maxSizePerMsg } else c
  -- a zero apply budget can never be positive: the smallest positive one means "one entry at a time"
  let c := if c.maxCommittedSizePerReady == 0 then { c with maxCommittedSizePerReady := 1 } else c
  if c.maxInflightMsgs == 0 then throw "max inflight messages must be greater than 0"
  let c ← if c.maxInflightBytes == 0 then pure { c with maxInflightBytes := noLimit }
          else if c.maxInflightBytes < c.maxSizePerMsg then throw "max inflight bytes must be >= max message size"
          else pure c
  if c.readOnlyOption == 1 && !c.checkQuorum then throw "CheckQuorum must be enabled when ReadOnlyOption is ReadOnlyLeaseBased"
  pure c

/-- `newRaft` -/
def newRaft (c : Config) (storage : MemoryStorage) (draws : List Nat) : Except String Raft := do
  let c ← c.validate
  let raftlog := RaftLog.new storage c.maxCommittedSizePerReady
  let (hs, cs) := storage.initialState
  let r : Raft :=
    { cfg := { id := c.id, electionTimeout := c.electionTick, heartbeatTimeout := c.heartbeatTick,
               maxMsgSize := c.maxSizePerMsg, maxUncommittedSize := c.maxUncommittedEntriesSize,
               checkQuorum := c.checkQuorum, preVote := c.preVote,
               disableProposalForwarding := c.disableProposalForwarding,
               disableConfChangeValidation := c.disableConfChangeValidation,
               stepDownOnRemoval := c.stepDownOnRemoval },
      log := raftlog, trk := Tracker.make c.maxInflightMsgs c.maxInflightBytes,
      readOnly := { option := c.readOnlyOption }, draws := draws }
  let act : M Unit := do
    let lastID ← Raft.lastEntryID
    match restoreConf { tracker := (← get).trk, lastIndex := lastID.index } cs with
    | .error e => throw s!"newRaft: {e}"
    | .ok (cfg, trk) =>
      let cs2 ← Raft.switchToConfig cfg trk
      if !cs.equivalent cs2 then throw "ConfStates not equivalent"
    match hs with
    | some h => if !h.isEmpty then Raft.loadState h
    | none => pure ()
    if c.applied > 0 then
      let l ← liftP ((← get).log.appliedTo c.applied 0)
      Raft.setLog l
    Raft.becomeFollower (← get).term 0
  let ((), r) ← act.run r
  pure r

end RaftVerif
