import RaftVerif.Model.Types
/-!
# Model/Log — storage.go (MemoryStorage), log_unstable.go (unstable), log.go (raftLog)

Function by function, same names and case structure as the Go code. A Go `panic`/`Panicf` is
`Except.error <site>`; a Go `error` return is a `StorageErr`. Core Lean only.
-/
namespace RaftVerif

/-- panics are `throw`n with the name of the assertion site -/
abbrev P := Except String

inductive StorageErr where
  | compacted | unavailable | snapOutOfDate
  deriving DecidableEq, Repr, Inhabited

def StorageErr.toString : StorageErr → String
  | .compacted => "ErrCompacted" | .unavailable => "ErrUnavailable" | .snapOutOfDate => "ErrSnapOutOfDate"

/-- uint64 subtraction with wrap-around -/
def usub (a b : Nat) : Nat := if a ≥ b then a - b else a + 18446744073709551616 - b

structure EntryID where
  term : Nat
  index : Nat
  deriving DecidableEq, Repr, Inhabited

/-! ## MemoryStorage -/

structure MemoryStorage where
  hardState : Option HardState := none
  snapshot : Snapshot := {}
  /-- `ents[0]` is the dummy entry carrying (index, term) of the compaction point -/
  ents : List Entry := [{}]
  deriving Repr, Inhabited

namespace MemoryStorage

def offset (ms : MemoryStorage) : Nat := (ms.ents.head?.map (·.index)).getD 0
def firstIndex (ms : MemoryStorage) : Nat := ms.offset + 1
def lastIndex (ms : MemoryStorage) : Nat := ms.offset + ms.ents.length - 1

def initialState (ms : MemoryStorage) : Option HardState × ConfState := (ms.hardState, ms.snapshot.conf)

def setHardState (ms : MemoryStorage) (hs : HardState) : MemoryStorage := { ms with hardState := some hs }

def term (ms : MemoryStorage) (i : Nat) : Except StorageErr Nat :=
  if i < ms.offset then .error .compacted
  else if i - ms.offset ≥ ms.ents.length then .error .unavailable
  else .ok ((ms.ents[i - ms.offset]?.map (·.term)).getD 0)

/-- `Entries(lo, hi, maxSize)`: outer `P` is the panic, inner the error value -/
def entries (ms : MemoryStorage) (lo hi maxSize : Nat) : P (Except StorageErr (List Entry)) :=
  if lo ≤ ms.offset then pure (.error .compacted)
  else if hi > ms.lastIndex + 1 then throw "storage.Entries: hi out of bound"
  else if ms.ents.length == 1 then pure (.error .unavailable)
  else if lo > hi then throw "storage.Entries: slice bounds out of range"
  else pure (.ok (limitSize ((ms.ents.drop (lo - ms.offset)).take (hi - lo)) maxSize))

def applySnapshot (ms : MemoryStorage) (snap : Snapshot) : Except StorageErr MemoryStorage :=
  if ms.snapshot.index != 0 && ms.snapshot.index ≥ snap.index then .error .snapOutOfDate
  else .ok { ms with snapshot := snap, ents := [{ term := snap.term, index := snap.index }] }

def createSnapshot (ms : MemoryStorage) (i : Nat) (cs : Option ConfState) (data : Option Bytes) :
    P (Except StorageErr (MemoryStorage × Snapshot)) :=
  if i ≤ ms.snapshot.index then pure (.error .snapOutOfDate)
  else if i > ms.lastIndex then throw "storage.CreateSnapshot: out of bound"
  else if i < ms.offset then throw "storage.CreateSnapshot: index out of range"
  else
    let t := (ms.ents[i - ms.offset]?.map (·.term)).getD 0
    let s : Snapshot := { ms.snapshot with index := i, term := t, conf := cs.getD ms.snapshot.conf, data := data }
    pure (.ok ({ ms with snapshot := s }, s))

def compact (ms : MemoryStorage) (ci : Nat) : P (Except StorageErr MemoryStorage) :=
  if ci ≤ ms.offset then pure (.error .compacted)
  else if ci > ms.lastIndex then throw "storage.Compact: out of bound"
  else
    let i := ci - ms.offset
    let d := ms.ents[i]?.getD {}
    pure (.ok { ms with ents := ({ index := d.index, term := d.term } : Entry) :: ms.ents.drop (i + 1) })

def append (ms : MemoryStorage) (entries : List Entry) : P MemoryStorage :=
  match entries with
  | [] => pure ms
  | e0 :: _ =>
    let first := ms.firstIndex
    let last := e0.index + entries.length - 1
    if last < first then pure ms
    else
      let entries := if first > e0.index then entries.drop (first - e0.index) else entries
      match entries with
      | [] => pure ms
      | f0 :: _ =>
        let off := f0.index - ms.offset
        if ms.ents.length > off then pure { ms with ents := ms.ents.take off ++ entries }
        else if ms.ents.length == off then pure { ms with ents := ms.ents ++ entries }
        else throw "storage.Append: missing log entry"

end MemoryStorage

/-! ## unstable -/

structure Unstable where
  snapshot : Option Snapshot := none
  entries : List Entry := []
  offset : Nat := 0
  snapshotInProgress : Bool := false
  offsetInProgress : Nat := 0
  deriving Repr, Inhabited

namespace Unstable

def maybeFirstIndex (u : Unstable) : Option Nat := u.snapshot.map (·.index + 1)

def maybeLastIndex (u : Unstable) : Option Nat :=
  if u.entries.length != 0 then some (u.offset + u.entries.length - 1)
  else u.snapshot.map (·.index)

def maybeTerm (u : Unstable) (i : Nat) : Option Nat :=
  if i < u.offset then
    match u.snapshot with
    | some s => if s.index == i then some s.term else none
    | none => none
  else
    match u.maybeLastIndex with
    | none => none
    | some last => if i > last then none else (u.entries[i - u.offset]?).map (·.term)

def nextEntries (u : Unstable) : List Entry :=
  let inProgress := u.offsetInProgress - u.offset
  if u.entries.length == inProgress then [] else u.entries.drop inProgress

def nextSnapshot (u : Unstable) : Option Snapshot :=
  if u.snapshotInProgress then none else u.snapshot

def acceptInProgress (u : Unstable) : Unstable :=
  let u := match u.entries.getLast? with
    | some e => { u with offsetInProgress := e.index + 1 }
    | none => u
  if u.snapshot.isSome then { u with snapshotInProgress := true } else u

def stableTo (u : Unstable) (id : EntryID) : Unstable :=
  match u.maybeTerm id.index with
  | none => u
  | some gt =>
    if id.index < u.offset then u
    else if gt != id.term then u
    else
      let num := id.index + 1 - u.offset
      let off := id.index + 1
      { u with entries := u.entries.drop num, offset := off, offsetInProgress := max u.offsetInProgress off }

def stableSnapTo (u : Unstable) (i : Nat) : Unstable :=
  match u.snapshot with
  | some s => if s.index == i then { u with snapshot := none, snapshotInProgress := false } else u
  | none => u

def restore (u : Unstable) (s : Snapshot) : Unstable :=
  { u with offset := s.index + 1, offsetInProgress := s.index + 1, entries := [], snapshot := some s,
           snapshotInProgress := false }

def slice (u : Unstable) (lo hi : Nat) : P (List Entry) :=
  if lo > hi then throw "unstable.slice: invalid"
  else if lo < u.offset || hi > u.offset + u.entries.length then throw "unstable.slice: out of bound"
  else pure ((u.entries.drop (lo - u.offset)).take (hi - lo))

def truncateAndAppend (u : Unstable) (ents : List Entry) : P Unstable :=
  match ents with
  | [] => throw "unstable.truncateAndAppend: empty"   -- Go: index out of range on ents[0]
  | e0 :: _ =>
    let fromIndex := e0.index
    if fromIndex == u.offset + u.entries.length then
      pure { u with entries := u.entries ++ ents }
    else if fromIndex ≤ u.offset then
      pure { u with entries := ents, offset := fromIndex, offsetInProgress := fromIndex }
    else do
      let keep ← u.slice u.offset fromIndex
      pure { u with entries := keep ++ ents, offsetInProgress := min u.offsetInProgress fromIndex }

end Unstable

/-! ## raftLog -/

structure RaftLog where
  storage : MemoryStorage := {}
  unstable : Unstable := {}
  committed : Nat := 0
  applying : Nat := 0
  applied : Nat := 0
  maxApplyingEntsSize : Nat := 0
  applyingEntsSize : Nat := 0
  applyingEntsPaused : Bool := false
  deriving Repr, Inhabited

namespace RaftLog

/-- `newLogWithSize` -/
def new (storage : MemoryStorage) (maxApplyingEntsSize : Nat) : RaftLog :=
  let fi := storage.firstIndex
  let li := storage.lastIndex
  { storage := storage,
    unstable := { offset := li + 1, offsetInProgress := li + 1 },
    maxApplyingEntsSize := maxApplyingEntsSize,
    committed := fi - 1, applying := fi - 1, applied := fi - 1 }

def firstIndex (l : RaftLog) : Nat := (l.unstable.maybeFirstIndex).getD l.storage.firstIndex
def lastIndex (l : RaftLog) : Nat := (l.unstable.maybeLastIndex).getD l.storage.lastIndex

def term (l : RaftLog) (i : Nat) : Except StorageErr Nat :=
  match l.unstable.maybeTerm i with
  | some t => .ok t
  | none =>
    if i + 1 < l.firstIndex then .error .compacted
    else if i > l.lastIndex then .error .unavailable
    else l.storage.term i

def zeroTermOnOutOfBounds (r : Except StorageErr Nat) : Nat :=
  match r with
  | .ok t => t
  | .error _ => 0

def matchTerm (l : RaftLog) (id : EntryID) : Bool :=
  match l.term id.index with
  | .ok t => t == id.term
  | .error _ => false

def lastEntryID (l : RaftLog) : P EntryID :=
  let index := l.lastIndex
  match l.term index with
  | .ok t => pure { term := t, index := index }
  | .error _ => throw "lastEntryID: unexpected error"

def findConflict (l : RaftLog) : List Entry → Nat
  | [] => 0
  | e :: rest => if !l.matchTerm { term := e.term, index := e.index } then e.index else findConflict l rest

def findConflictByTerm (l : RaftLog) (index term : Nat) : Nat × Nat :=
  match index with
  | 0 => (0, 0)
  | i + 1 =>
    match l.term (i + 1) with
    | .error _ => (i + 1, 0)
    | .ok ourTerm => if ourTerm ≤ term then (i + 1, ourTerm) else findConflictByTerm l i term

def commitTo (l : RaftLog) (tocommit : Nat) : P RaftLog :=
  if l.committed < tocommit then
    if l.lastIndex < tocommit then throw "commitTo: tocommit out of range"
    else pure { l with committed := tocommit }
  else pure l

def append (l : RaftLog) (ents : List Entry) : P (RaftLog × Nat) :=
  match ents with
  | [] => pure (l, l.lastIndex)
  | e0 :: _ =>
    if usub e0.index 1 < l.committed then throw "append: after out of range (committed)"
    else do
      let u ← l.unstable.truncateAndAppend ents
      let l' := { l with unstable := u }
      pure (l', l'.lastIndex)

/-- `maybeAppend(a logSlice, committed)`: `none` = not ok -/
def maybeAppend (l : RaftLog) (prev : EntryID) (ents : List Entry) (committed : Nat) : P (RaftLog × Option Nat) :=
  if !l.matchTerm prev then pure (l, none)
  else do
    let lastnewi := prev.index + ents.length
    let ci := l.findConflict ents
    let l ←
      if ci == 0 then pure l
      else if ci ≤ l.committed then throw "maybeAppend: conflict with committed entry"
      else
        let off := prev.index + 1
        if usub ci off > ents.length then throw "maybeAppend: index out of range"
        else do
          let (l', _) ← l.append (ents.drop (ci - off))
          pure l'
    let l ← l.commitTo (min committed lastnewi)
    pure (l, some lastnewi)

def maxAppliableIndex (l : RaftLog) (allowUnstable : Bool) : Nat :=
  if allowUnstable then l.committed else min l.committed (usub l.unstable.offset 1)

def hasNextOrInProgressSnapshot (l : RaftLog) : Bool := l.unstable.snapshot.isSome
def hasNextUnstableSnapshot (l : RaftLog) : Bool := l.unstable.nextSnapshot.isSome
def hasNextOrInProgressUnstableEnts (l : RaftLog) : Bool := l.unstable.entries.length > 0
def nextUnstableEnts (l : RaftLog) : List Entry := l.unstable.nextEntries
def hasNextUnstableEnts (l : RaftLog) : Bool := l.nextUnstableEnts.length > 0

def mustCheckOutOfBounds (l : RaftLog) (lo hi : Nat) : P (Option StorageErr) :=
  if lo > hi then throw "slice: invalid lo > hi"
  else if lo < l.firstIndex then pure (some .compacted)
  else if hi > l.lastIndex + 1 then throw "slice: out of bound"
  else pure none

def slice (l : RaftLog) (lo hi maxSize : Nat) : P (Except StorageErr (List Entry)) := do
  match ← l.mustCheckOutOfBounds lo hi with
  | some e => return .error e
  | none => pure ()
  if lo == hi then return .ok []
  if lo ≥ l.unstable.offset then
    let es ← l.unstable.slice lo hi
    return .ok (limitSize es maxSize)
  let cut := min hi l.unstable.offset
  let ents ← match ← l.storage.entries lo cut maxSize with
    | .error .compacted => return .error .compacted
    | .error .unavailable => throw "slice: entries unavailable from storage"
    | .error e => throw s!"slice: unexpected storage error {e.toString}"
    | .ok es => pure es
  if hi ≤ l.unstable.offset then return .ok ents
  if ents.length < cut - lo then return .ok ents
  let size := entsSize ents
  if size ≥ maxSize then return .ok ents
  let us ← l.unstable.slice l.unstable.offset hi
  let unst := limitSize us (maxSize - size)
  if unst.length == 1 && size + entsSize unst > maxSize then return .ok ents
  return .ok (ents ++ unst)

def entries (l : RaftLog) (i maxSize : Nat) : P (Except StorageErr (List Entry)) :=
  if i > l.lastIndex then pure (.ok []) else l.slice i (l.lastIndex + 1) maxSize

def allEntries (l : RaftLog) : P (List Entry) := do
  match ← l.entries l.firstIndex noLimit with
  | .ok es => pure es
  | .error _ => throw "allEntries: unexpected error"

def isUpToDate (l : RaftLog) (their : EntryID) : P Bool := do
  let our ← l.lastEntryID
  pure (their.term > our.term || (their.term == our.term && their.index ≥ our.index))

def maybeCommit (l : RaftLog) (at_ : EntryID) : P (RaftLog × Bool) :=
  if at_.term != 0 && at_.index > l.committed && l.matchTerm at_ then do
    let l' ← l.commitTo at_.index
    pure (l', true)
  else pure (l, false)

def restore (l : RaftLog) (s : Snapshot) : RaftLog :=
  { l with committed := s.index, unstable := l.unstable.restore s }

def snapshot (l : RaftLog) : Snapshot := l.unstable.snapshot.getD l.storage.snapshot

def nextCommittedEnts (l : RaftLog) (allowUnstable : Bool) : P (List Entry) := do
  if l.applyingEntsPaused then return []
  if l.hasNextOrInProgressSnapshot then return []
  let lo := l.applying + 1
  let hi := l.maxAppliableIndex allowUnstable + 1
  if lo ≥ hi then return []
  let maxSize := usub l.maxApplyingEntsSize l.applyingEntsSize
  if maxSize == 0 then throw "nextCommittedEnts: applying entry size not positive"
  match ← l.slice lo hi maxSize with
  | .ok es => pure es
  | .error _ => throw "nextCommittedEnts: unexpected error when getting unapplied entries"

def hasNextCommittedEnts (l : RaftLog) (allowUnstable : Bool) : Bool :=
  if l.applyingEntsPaused then false
  else if l.hasNextOrInProgressSnapshot then false
  else l.applying + 1 < l.maxAppliableIndex allowUnstable + 1

def appliedTo (l : RaftLog) (i size : Nat) : P RaftLog :=
  if l.committed < i || i < l.applied then throw "appliedTo: applied out of range"
  else
    let sz := if l.applyingEntsSize > size then l.applyingEntsSize - size else 0
    pure { l with applied := i, applying := max l.applying i, applyingEntsSize := sz,
                  applyingEntsPaused := sz ≥ l.maxApplyingEntsSize }

def acceptApplying (l : RaftLog) (i size : Nat) (allowUnstable : Bool) : P RaftLog :=
  if l.committed < i then throw "acceptApplying: applying out of range"
  else
    let sz := l.applyingEntsSize + size
    pure { l with applying := i, applyingEntsSize := sz,
                  applyingEntsPaused := sz ≥ l.maxApplyingEntsSize || i < l.maxAppliableIndex allowUnstable }

def stableTo (l : RaftLog) (id : EntryID) : RaftLog := { l with unstable := l.unstable.stableTo id }
def stableSnapTo (l : RaftLog) (i : Nat) : RaftLog := { l with unstable := l.unstable.stableSnapTo i }
def acceptUnstable (l : RaftLog) : RaftLog := { l with unstable := l.unstable.acceptInProgress }

/-- `scan(lo, hi, pageSize, v)` specialised to the only visitor used (`hasUnappliedConfChanges`):
does some entry in `[lo, hi)` satisfy `p`? `fuel` bounds the number of pages. -/
def scanAny (l : RaftLog) (p : Entry → Bool) (pageSize : Nat) : Nat → Nat → Nat → P Bool
  | 0, _, _ => throw "scan: out of fuel"
  | fuel + 1, lo, hi =>
    if lo < hi then do
      match ← l.slice lo hi pageSize with
      | .error _ => throw "scan: error scanning unapplied entries"
      | .ok [] => throw "scan: got 0 entries"
      | .ok ents =>
        if ents.any p then pure true
        else scanAny l p pageSize fuel (lo + ents.length) hi
    else pure false

end RaftLog

/-! ### canonical text -/
open Parse in
def fmtStorage (ms : MemoryStorage) : String :=
  let hs := match ms.hardState with | none => "-" | some h => fmtHardState h
  s!"hs={hs} snap={fmtSnapshot (some ms.snapshot)} ents={fmtEntries ms.ents}"

def fmtLog (l : RaftLog) : String :=
  let u := l.unstable
  s!"c={l.committed} ag={l.applying} ad={l.applied} aes={l.applyingEntsSize} aep={b2n l.applyingEntsPaused} max={l.maxApplyingEntsSize} uoff={u.offset} uoip={u.offsetInProgress} usnap={fmtSnapshot u.snapshot} usip={b2n u.snapshotInProgress} uents={fmtEntries u.entries}"

end RaftVerif
