import RaftVerif.Spec.Reconf
import RaftVerif.Spec.ReconfStatements
import RaftVerif.Model.Parse
/-!
# Spec/ReconfCheck — executable trace checker for the abstract protocol with membership changes

Same line syntax as `Spec/Check.lean`, plus
* log entries `term:val` or `term:val:incoming/outgoing` (comma separated ids; an empty list is the
  empty string or a single dash), e.g. `1:0:1,2,3,4/1,2,3` (enter joint) and `1:0:2,3,4/` (simple);
* `crash n k` (restart with applied index `k`), `applyTo n k`,
  `leaderAppendCfg n val incoming outgoing`, `sendApp n prev cnt` (the commit index sent is the
  leader's; a fourth field is accepted and ignored).
Core Lean only.
-/
namespace RaftVerif.SpecR
open RaftVerif.Parse

def parseEnt (x : String) : Option Ent :=
  match splitOn1 x ':' with
  | [a, b] =>
    match a.toNat?, b.toNat? with
    | some a, some b => some { term := a, val := b }
    | _, _ => none
  | [a, b, c] =>
    match a.toNat?, b.toNat?, splitOn1 c '/' with
    | some a, some b, [i, o] => some { term := a, val := b, cfg := some (idList i, idList o) }
    | _, _, _ => none
  | _ => none

def parseLog : Nat → List String → Option (Log × List String)
  | 0, t => some ([], t)
  | n + 1, x :: rest =>
    match parseEnt x, parseLog n rest with
    | some e, some (l, rest') => some (e :: l, rest')
    | _, _ => none
  | _ + 1, [] => none

def parseAction (t : List String) : Option Action :=
  let n (s : String) := natOrZero s
  match t with
  | ["campaign", a] => some (.campaign (n a))
  | ["sendReqVote", a] => some (.sendReqVote (n a))
  | ["updateTerm", a, b] => some (.updateTerm (n a) (n b))
  | ["grant", a, b, c, d] => some (.grant (n a) (n b) (n c) (n d))
  | ["write", a] => some (.write (n a))
  | ["persist", a] => some (.persist (n a))
  | ["crash", a, k] => some (.crash (n a) (n k))
  | ["sendVote", a, b, c] => some (.sendVote (n a) (n b) (n c))
  | ["sendAck", a, b, c] => some (.sendAck (n a) (n b) (n c))
  | ["becomeLeader", a, q] => some (.becomeLeader (n a) (idList q))
  | ["stepDown", a] => some (.stepDown (n a))
  | ["leaderAppend", a, v] => some (.leaderAppend (n a) (n v))
  | ["leaderAppendCfg", a, v, i, o] => some (.leaderAppendCfg (n a) (n v) (idList i, idList o))
  | ["sendApp", a, p, c] => some (.sendApp (n a) (n p) (n c))
  | ["sendApp", a, p, c, _] => some (.sendApp (n a) (n p) (n c))
  | ["sendSnap", a, i] => some (.sendSnap (n a) (n i))
  | ["sendHb", a, to, c] => some (.sendHb (n a) (n to) (n c))
  | ["leaderCommit", a, c, q] => some (.leaderCommit (n a) (n c) (idList q))
  | "handleApp" :: a :: tt :: p :: pt :: c :: k :: rest =>
    match parseLog (n k) rest with
    | some (l, _) => some (.handleApp (n a) (n tt) (n p) (n pt) l (n c))
    | none => none
  | "handleSnap" :: a :: tt :: k :: rest =>
    match parseLog (n k) rest with
    | some (l, _) => some (.handleSnap (n a) (n tt) l)
    | none => none
  | ["handleHb", a, tt, c] => some (.handleHb (n a) (n tt) (n c))
  | ["ackCommit", a, tt] => some (.ackCommit (n a) (n tt))
  | ["applyTo", a, k] => some (.applyTo (n a) (n k))
  | _ => none

/-- order-sensitive hash of a log, computed identically by the harness; a configuration entry mixes
in its voter lists -/
def cfgHash : Option Conf → Nat
  | none => 0
  | some (i, o) => (i.foldl (fun h x => (h * 31 + x + 1) % 2147483647) 17) * 1009 +
      (o.foldl (fun h x => (h * 31 + x + 1) % 2147483647) 19)

def logHash (l : Log) : Nat :=
  l.foldl (fun h e =>
    (h * 1000003 + (e.term * 131 + e.val + 7 + cfgHash e.cfg) % 2147483647) % 2147483647) 0

def roleName : Role → String
  | .follower => "F" | .candidate => "C" | .leader => "L"

def verText (v : Ver) : String := s!"{v.term} {v.vote} {v.commit} {v.log.length} {logHash v.log}"

def idsText (l : List Nat) : String :=
  if l.isEmpty then "-" else ",".intercalate (l.map toString)

/-- abstract state of node `n` in the canonical comparison format:
`role  vol(term vote commit len hash)  d dur(…)  p npending  a applied  c incoming/outgoing` -/
def nodeText (c0 : Conf) (s : State) (n : NodeId) : String :=
  let nd := s.nodes n
  let c := nd.active c0
  s!"{roleName nd.role} {verText nd.vol} d {verText nd.dur} p {nd.pending.length} a {nd.applied} c {idsText c.1}/{idsText c.2}"

structure Checker where
  c0 : Conf := ([], [])
  st : State := State.init
  actions : Nat := 0
  failed : Option String := none

/-- which conjuncts of a guard hold (explains a DISABLED answer) -/
def diag (c0 : Conf) (s : State) : Action → String
  | .becomeLeader n q =>
    let nd := s.nodes n
    s!" [candidate={decide (nd.role = .candidate)} quorum={(nd.active c0).isQuorum q} ownVoteDurable={decide ((nd.vol.term, n) ∈ nd.dur.votes)} reqVotesCovered={reqVotesCovered s.msgs nd.vol.term n nd.vol.log} votesInSoup={decide (∀ v ∈ q, v = n ∨ Msg.vote nd.vol.term v n ∈ s.msgs)}]"
  | .grant n c lt li =>
    let nd := s.nodes n
    s!" [candNonzero={decide (c ≠ 0)} reqInSoup={decide (Msg.reqVote nd.vol.term c lt li ∈ s.msgs)} voteFree={decide (nd.vol.vote = 0 ∨ nd.vol.vote = c)} upToDate={upToDate lt li nd.vol.log} notLeader={decide (nd.role ≠ .leader)}]"
  | .sendReqVote n => s!" [candidate={decide ((s.nodes n).role = .candidate)}]"
  | .campaign n =>
    let nd := s.nodes n
    s!" [notLeader={decide (nd.role ≠ .leader)} noUnappliedCfg={!nd.vol.log.hasCfgIn nd.applied nd.vol.commit} applied={nd.applied} commit={nd.vol.commit}]"
  | .leaderAppendCfg n _ c =>
    let nd := s.nodes n
    s!" [leader={decide (nd.role = .leader)} pendingConf={nd.pendingConf} applied={nd.applied} allowed={(nd.active c0).allowed c}]"
  | .leaderCommit n c q =>
    let nd := s.nodes n
    s!" [leader={decide (nd.role = .leader)} above={decide (nd.vol.commit < c)} ownTerm={decide (nd.vol.log.termAt c = some nd.vol.term)} quorum={(nd.active c0).isQuorum q}]"
  | .applyTo n k => s!" [applied={(s.nodes n).applied} k={k} commit={(s.nodes n).vol.commit}]"
  | _ => ""

def Checker.act (c : Checker) (t : List String) : Checker × String :=
  match c.failed with
  | some _ => (c, "skipped")
  | none =>
    match parseAction t with
    | none => ({ c with failed := some "bad action" }, "BAD-ACTION " ++ " ".intercalate t)
    | some a =>
      match step? c.c0 c.st a with
      | some s' => ({ c with st := s', actions := c.actions + 1 }, "ok")
      | none => ({ c with failed := some "disabled" }, "DISABLED " ++ " ".intercalate t ++ diag c.c0 c.st a)

end RaftVerif.SpecR
