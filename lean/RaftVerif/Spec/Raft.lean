/-
# Spec/Raft — the abstract protocol (DESIGN.md section 4.2)

A transition system small enough to read in minutes, over which the *global* safety invariants
(election safety, log matching, leader completeness, state-machine safety) are proved by induction
over steps, with no bound on the number of nodes, terms, log lengths or steps.

Tie to the implementation: the cluster simulator (`harness/cmd/sim`) abstracts every step of the
real `RawNode`s (and of the environment: storage threads, crashes, restarts) into a list of
`Action`s; the compiled driver replays them with `Spec.step?` — every action must be *enabled* — and
compares the resulting abstract state with the abstraction of the implementation's state.

Core Lean only (the driver links this file).

## Modelling decisions
* Membership is static here (`Cfg.isQuorum` fixed, any simple or joint configuration): the history
  theorems are `…_partial` under `StaticMembership` (DESIGN.md 4.2, last paragraph).
* Logs are *uncompacted ghost logs*: index `i ≥ 1` is `log[i-1]`. Compaction is invisible.
* An entry is `(term, val)`; `val` identifies type+payload (a hash in the driver).
* Every node has a volatile version `vol`, a durable version `dur`, and a FIFO `pending` of versions
  handed to the storage thread (sync `Ready/Advance` = `write` immediately followed by `persist`).
  A `Ver` also carries the *promises* made up to that version: acknowledgements `(T,k)` ("my log
  matches the log of the leader of term `T` up to `k`") and granted votes `(t,c)`. A promise may be
  put on the network only once it is part of the **durable** version (C05).
  A crash is `vol := dur; pending := []; role := follower`.
* The network is a monotone soup: anything in it can be received any number of times in any order.
* `campaign` only changes the node (candidate of `term+1`, voting for itself).  The vote request is
  put into the soup by a separate action `sendReqVote`, which a candidate may take any number of
  times (or never: the implementation creates the request at campaign time but hands it to the
  network only with the next `Ready`; a candidate that crashes in between never sent it).  The
  request advertises the candidate's current volatile term and log, i.e. it may leave before the new
  term (and the tail of the log) is durable.  A node that crashed may therefore campaign twice for
  one term with different logs; it may only become leader if the log it leads with is at least as
  up to date as every request of that candidacy that is in the soup (`reqVotesCovered`,
  SPEC_ISSUES.md issue 1 / SPEC_CHANGES.md #1): the log may have grown since the first request, it
  must not have shrunk.  A request that was never sent constrains nothing.
-/
namespace RaftVerif.Spec

abbrev NodeId := Nat

structure Ent where
  term : Nat
  val : Nat
  deriving DecidableEq, Repr, Inhabited

abbrev Log := List Ent

/-- entry at 1-based index `i` -/
def Log.at? (l : Log) (i : Nat) : Option Ent := if i = 0 then none else l[i - 1]?

/-- term at 1-based index `i`; index 0 has term 0 -/
def Log.termAt (l : Log) (i : Nat) : Option Nat :=
  if i = 0 then some 0 else (l[i - 1]?).map (·.term)

def Log.lastTerm (l : Log) : Nat := (l.getLast?.map (·.term)).getD 0

inductive Role where
  | follower | candidate | leader
  deriving DecidableEq, Repr, Inhabited

/-- One version of a node's persistent state together with the promises made up to it. -/
structure Ver where
  term : Nat := 0
  vote : Nat := 0            -- 0 = none (node ids are ≥ 1)
  commit : Nat := 0
  log : Log := []
  acks : List (Nat × Nat) := []    -- (T, k)
  votes : List (Nat × Nat) := []   -- (t, candidate)
  deriving DecidableEq, Repr, Inhabited

structure Node where
  vol : Ver := {}
  dur : Ver := {}
  pending : List Ver := []
  role : Role := .follower
  deriving DecidableEq, Repr, Inhabited

inductive Msg where
  /-- vote request of candidate `cand` for term `t` with its last entry id -/
  | reqVote (t cand lastTerm lastIdx : Nat)
  /-- a granted (real) vote, released by `voter` -/
  | vote (t voter cand : Nat)
  /-- append from the leader of term `t`: entries follow index `prev` whose term is `prevTerm` -/
  | app (t prev prevTerm : Nat) (ents : Log) (commit : Nat)
  /-- snapshot from the leader of term `t`: the whole committed prefix -/
  | snap (t : Nat) (pre : Log)
  /-- heartbeat from the leader of term `t` to `to` carrying a commit index -/
  | hb (t to commit : Nat)
  /-- acknowledgement released by `node`: its log matches the term-`t` leader's up to `k` -/
  | ack (t node k : Nat)
  deriving DecidableEq, Repr

/-- Static membership: a quorum predicate on lists of node ids. -/
structure Cfg where
  isQuorum : List NodeId → Bool

/-- What the proofs need from the quorum predicate (discharged for every joint majority
configuration with a non-empty incoming half in `Spec/QuorumInst.lean`, from C12). -/
structure Cfg.OK (cfg : Cfg) : Prop where
  intersect : ∀ A B, cfg.isQuorum A = true → cfg.isQuorum B = true → ∃ v, v ∈ A ∧ v ∈ B
  mono : ∀ A B, (∀ v, v ∈ A → v ∈ B) → cfg.isQuorum A = true → cfg.isQuorum B = true

structure State where
  nodes : NodeId → Node
  msgs : List Msg
  /-- ghost: every (term, node) that ever became leader, newest first -/
  elected : List (Nat × NodeId)
  /-- ghost: the log of the leader of term `t` (set at election, extended by its appends,
      frozen afterwards) -/
  glog : Nat → Log
  /-- ghost: every (index, entry, term of the committing node at that moment) some node ever had at
      or below its commit index -/
  committed : List (Nat × Ent × Nat)

def State.init : State :=
  { nodes := fun _ => {}, msgs := [], elected := [], glog := fun _ => [], committed := [] }

/-- candidate's last entry `(lt, li)` is at least as up to date as `l` -/
def upToDate (lt li : Nat) (l : Log) : Bool :=
  lt > l.lastTerm || (lt == l.lastTerm && li ≥ l.length)

/-- `raftLog.maybeAppend` on ghost logs: `none` if `(prev, prevTerm)` does not match, otherwise the
new log: keep everything up to the first conflicting index, then the message's suffix. -/
def appendResult (l : Log) (prev prevTerm : Nat) (ents : Log) : Option Log :=
  if l.termAt prev ≠ some prevTerm then none
  else
    -- number of leading entries of `ents` already present with the same term
    let rec agree : Nat → Log → Nat
      | _, [] => 0
      | i, e :: es => if l.termAt i = some e.term then agree (i + 1) es + 1 else 0
    let k := agree (prev + 1) ents
    if k = ents.length then some l
    else some (l.take (prev + k) ++ ents.drop k)

/-- some released acknowledgement of `v` for term `t` covers index `c` -/
def hasAck (msgs : List Msg) (t v c : Nat) : Bool :=
  msgs.any fun m => match m with
    | .ack t' v' k => t' == t && v' == v && decide (c ≤ k)
    | _ => false

/-- some acknowledgement promise `(t, k)` with `c ≤ k` is in the list -/
def hasDurAck (acks : List (Nat × Nat)) (t c : Nat) : Bool :=
  acks.any fun p => p.1 == t && decide (c ≤ p.2)

/-- the soup holds an append or snapshot of the leader of term `t` -/
def hasAppOrSnap (msgs : List Msg) (t : Nat) : Bool :=
  msgs.any fun m => match m with
    | .app t' _ _ _ _ => t' == t
    | .snap t' _ => t' == t
    | _ => false

/-- the log `l` is at least as up to date as the last entry id `(lt, li)` advertised by every vote
request of candidate `cand` for term `t` in the soup (SPEC_CHANGES.md #1: a node never counts votes
that were granted on the strength of a request describing a *more* up-to-date log than the one it is
about to lead with) -/
def reqVotesCovered (msgs : List Msg) (t cand : Nat) (l : Log) : Bool :=
  msgs.all fun m => match m with
    | .reqVote t' c' lt li =>
        !(t' == t && c' == cand) || (l.lastTerm > lt || (l.lastTerm == lt && l.length ≥ li))
    | _ => true

/-- handling the append leaves the prefix up to `commit` untouched -/
def keepsCommitted (l : Log) (prev prevTerm : Nat) (ents : Log) (commit : Nat) : Bool :=
  match appendResult l prev prevTerm ents with
  | none => true
  | some l' => l'.take commit == l.take commit

inductive Action where
  /-- start a real election: term+1, vote for self (the vote request leaves with `sendReqVote`) -/
  | campaign (n : NodeId)
  /-- a candidate puts the vote request of its current candidacy (current volatile term and log)
      on the network; may be taken any number of times, or never -/
  | sendReqVote (n : NodeId)
  /-- adopt a higher term seen in any message -/
  | updateTerm (n : NodeId) (t : Nat)
  /-- grant the vote of the current term to `c` (volatile; released only once durable) -/
  | grant (n c lt li : Nat)
  /-- hand the current volatile version to the storage thread -/
  | write (n : NodeId)
  /-- the storage thread makes the oldest handed-out version durable -/
  | persist (n : NodeId)
  /-- crash and restart from durable state -/
  | crash (n : NodeId)
  /-- put a durable vote promise on the network -/
  | sendVote (n t c : Nat)
  /-- put a durable acknowledgement on the network -/
  | sendAck (n t k : Nat)
  /-- a candidate with a quorum of released votes (its own must be durable) becomes leader -/
  | becomeLeader (n : NodeId) (q : List NodeId)
  /-- step down without changing the term (CheckQuorum, lost election, removal, …) -/
  | stepDown (n : NodeId)
  /-- a leader appends an entry of its own term at the end of its log -/
  | leaderAppend (n : NodeId) (val : Nat)
  /-- a leader sends entries `(prev, prev+cnt]` of its log -/
  | sendApp (n prev cnt commit : Nat)
  /-- a leader sends its committed prefix up to `idx` as a snapshot -/
  | sendSnap (n idx : Nat)
  /-- a leader sends a heartbeat with commit `c` to `to` -/
  | sendHb (n to c : Nat)
  /-- a leader advances its commit index to `c` on the strength of quorum `q` -/
  | leaderCommit (n c : Nat) (q : List NodeId)
  /-- a non-leader of the same term handles an append -/
  | handleApp (n : NodeId) (t prev prevTerm : Nat) (ents : Log) (commit : Nat)
  | handleSnap (n : NodeId) (t : Nat) (pre : Log)
  | handleHb (n : NodeId) (t c : Nat)
  /-- a non-leader answers an append/snapshot of its current term that lies (partly) below its commit
      index by acknowledging its commit index (`handleAppendEntries` first branch, `handleSnapshot`
      ignore branch) -/
  | ackCommit (n : NodeId) (t : Nat)
  deriving Repr

def setNode (s : State) (n : NodeId) (x : Node) : State :=
  { s with nodes := fun m => if m = n then x else s.nodes m }

def setVol (nd : Node) (v : Ver) : Node := { nd with vol := v }

/-- the entries `(i, l[i], t)` for `lo < i ≤ hi` -/
def commitRange (l : Log) (lo hi t : Nat) : List (Nat × Ent × Nat) :=
  (List.range (hi - lo)).filterMap fun d => (l.at? (lo + d + 1)).map fun e => (lo + d + 1, e, t)

/-- Guard of each action. All guards are decidable and mention only the acting node, the soup and
(for promises) the node's own durable version. -/
def enabled (cfg : Cfg) (s : State) : Action → Prop
  | .campaign n => (s.nodes n).role ≠ .leader ∧ n ≠ 0
  | .sendReqVote n => (s.nodes n).role = .candidate
  | .updateTerm n t => (s.nodes n).vol.term < t
  | .grant n c lt li =>
      let nd := s.nodes n
      c ≠ 0 ∧ Msg.reqVote nd.vol.term c lt li ∈ s.msgs ∧ (nd.vol.vote = 0 ∨ nd.vol.vote = c) ∧
      upToDate lt li nd.vol.log = true ∧ nd.role ≠ .leader
  | .write _ => True
  | .persist n => (s.nodes n).pending ≠ []
  | .crash _ => True
  | .sendVote n t c => (t, c) ∈ (s.nodes n).dur.votes
  | .sendAck n t k => k = 0 ∨ (t, k) ∈ (s.nodes n).dur.acks
  | .ackCommit n t =>
      let nd := s.nodes n
      t = nd.vol.term ∧ nd.role ≠ .leader ∧
      hasAppOrSnap s.msgs t = true
  | .becomeLeader n q =>
      let nd := s.nodes n
      nd.role = .candidate ∧ cfg.isQuorum q = true ∧ (nd.vol.term, n) ∈ nd.dur.votes ∧
      -- SPEC_CHANGES.md #1: the log it leads with covers all vote requests of this candidacy
      reqVotesCovered s.msgs nd.vol.term n nd.vol.log = true ∧
      ∀ v ∈ q, v = n ∨ Msg.vote nd.vol.term v n ∈ s.msgs
  | .stepDown _ => True
  | .leaderAppend n _ => (s.nodes n).role = .leader
  | .sendApp n prev cnt commit =>
      let nd := s.nodes n
      nd.role = .leader ∧ prev + cnt ≤ nd.vol.log.length ∧ commit ≤ nd.vol.commit
  | .sendSnap n idx =>
      let nd := s.nodes n
      nd.role = .leader ∧ idx ≤ nd.vol.commit
  | .sendHb n to c =>
      let nd := s.nodes n
      nd.role = .leader ∧ c ≤ nd.vol.commit ∧
      (c = 0 ∨ hasAck s.msgs nd.vol.term to c = true)
  | .leaderCommit n c q =>
      let nd := s.nodes n
      nd.role = .leader ∧ nd.vol.commit < c ∧ nd.vol.log.termAt c = some nd.vol.term ∧
      cfg.isQuorum q = true ∧
      ∀ v ∈ q, (v = n ∧ hasDurAck nd.dur.acks nd.vol.term c = true) ∨
               hasAck s.msgs nd.vol.term v c = true
  | .handleApp n t prev prevTerm ents commit =>
      let nd := s.nodes n
      Msg.app t prev prevTerm ents commit ∈ s.msgs ∧ t = nd.vol.term ∧ nd.role ≠ .leader ∧
      -- the implementation asserts that a conflict is never at or below the commit index (C14):
      -- the append leaves the committed prefix untouched
      keepsCommitted nd.vol.log prev prevTerm ents nd.vol.commit = true
  | .handleSnap n t pre =>
      let nd := s.nodes n
      Msg.snap t pre ∈ s.msgs ∧ t = nd.vol.term ∧ nd.role ≠ .leader
  | .handleHb n t c =>
      let nd := s.nodes n
      Msg.hb t n c ∈ s.msgs ∧ t = nd.vol.term ∧ nd.role ≠ .leader ∧ c ≤ nd.vol.log.length

instance (cfg : Cfg) (s : State) (a : Action) : Decidable (enabled cfg s a) := by
  cases a <;> simp only [enabled] <;> infer_instance

/-- Effect of each action (meaningful when `enabled`). -/
def apply (s : State) : Action → State
  | .campaign n =>
      let nd := s.nodes n
      let v := { nd.vol with term := nd.vol.term + 1, vote := n,
                             votes := (nd.vol.term + 1, n) :: nd.vol.votes }
      setNode s n { nd with vol := v, role := .candidate }
  | .sendReqVote n =>
      let nd := s.nodes n
      { s with msgs := Msg.reqVote nd.vol.term n nd.vol.log.lastTerm nd.vol.log.length :: s.msgs }
  | .updateTerm n t =>
      let nd := s.nodes n
      setNode s n { nd with vol := { nd.vol with term := t, vote := 0 }, role := .follower }
  | .grant n c _ _ =>
      let nd := s.nodes n
      setNode s n { nd with vol := { nd.vol with vote := c, votes := (nd.vol.term, c) :: nd.vol.votes } }
  | .write n =>
      let nd := s.nodes n
      setNode s n { nd with pending := nd.pending ++ [nd.vol] }
  | .persist n =>
      let nd := s.nodes n
      match nd.pending with
      | [] => s
      | w :: rest => setNode s n { nd with dur := w, pending := rest }
  | .crash n =>
      let nd := s.nodes n
      setNode s n { nd with vol := nd.dur, pending := [], role := .follower }
  | .sendVote n t c => { s with msgs := Msg.vote t n c :: s.msgs }
  | .sendAck n t k => { s with msgs := Msg.ack t n k :: s.msgs }
  | .becomeLeader n _ =>
      let nd := s.nodes n
      { setNode s n { nd with role := .leader } with
        elected := (nd.vol.term, n) :: s.elected,
        glog := fun t => if t = nd.vol.term then nd.vol.log else s.glog t }
  | .stepDown n =>
      let nd := s.nodes n
      setNode s n { nd with role := .follower }
  | .leaderAppend n val =>
      let nd := s.nodes n
      let l := nd.vol.log ++ [{ term := nd.vol.term, val := val }]
      -- the leader's acknowledgement of its own entry is a promise like any other (gated on durability)
      { setNode s n { nd with vol := { nd.vol with log := l, acks := (nd.vol.term, l.length) :: nd.vol.acks } } with
        glog := fun t => if t = nd.vol.term then l else s.glog t }
  | .sendApp n prev cnt commit =>
      let nd := s.nodes n
      { s with msgs := Msg.app nd.vol.term prev ((nd.vol.log.termAt prev).getD 0)
                         ((nd.vol.log.drop prev).take cnt) commit :: s.msgs }
  | .sendSnap n idx =>
      let nd := s.nodes n
      { s with msgs := Msg.snap nd.vol.term (nd.vol.log.take idx) :: s.msgs }
  | .sendHb n to c =>
      let nd := s.nodes n
      { s with msgs := Msg.hb nd.vol.term to c :: s.msgs }
  | .leaderCommit n c _ =>
      let nd := s.nodes n
      { setNode s n { nd with vol := { nd.vol with commit := c } } with
        committed := commitRange nd.vol.log nd.vol.commit c nd.vol.term ++ s.committed }
  | .handleApp n t prev prevTerm ents commit =>
      let nd := s.nodes n
      match appendResult nd.vol.log prev prevTerm ents with
      | none => setNode s n { nd with role := .follower }
      | some lnew =>
          let lastnew := prev + ents.length
          let cnew := max nd.vol.commit (min commit lastnew)
          let v : Ver := { nd.vol with log := lnew, commit := cnew, acks := (t, lastnew) :: nd.vol.acks }
          { setNode s n { nd with role := .follower, vol := v } with
            committed := commitRange lnew nd.vol.commit cnew nd.vol.term ++ s.committed }
  | .handleSnap n t pre =>
      let nd := s.nodes n
      let idx := pre.length
      if idx ≤ nd.vol.commit then setNode s n { nd with role := .follower }
      else if nd.vol.log.take idx = pre then
        -- the local log already contains the snapshot's last entry: only fast-forward the commit
        { setNode s n { nd with role := .follower, vol := { nd.vol with commit := idx } } with
          committed := commitRange nd.vol.log nd.vol.commit idx nd.vol.term ++ s.committed }
      else
        let v : Ver := { nd.vol with log := pre, commit := idx, acks := (t, idx) :: nd.vol.acks }
        { setNode s n { nd with role := .follower, vol := v } with
          committed := commitRange pre nd.vol.commit idx nd.vol.term ++ s.committed }
  | .handleHb n _ c =>
      let nd := s.nodes n
      let cnew := max nd.vol.commit c
      { setNode s n { nd with role := .follower, vol := { nd.vol with commit := cnew } } with
        committed := commitRange nd.vol.log nd.vol.commit cnew nd.vol.term ++ s.committed }
  | .ackCommit n t =>
      let nd := s.nodes n
      setNode s n { nd with role := .follower, vol := { nd.vol with acks := (t, nd.vol.commit) :: nd.vol.acks } }

/-- executable step used by the trace checker: `none` when the action is not enabled -/
def step? (cfg : Cfg) (s : State) (a : Action) : Option State :=
  if enabled cfg s a then some (apply s a) else none

inductive Reachable (cfg : Cfg) : State → Prop where
  | init : Reachable cfg State.init
  | step (s : State) (a : Action) : Reachable cfg s → enabled cfg s a → Reachable cfg (apply s a)

end RaftVerif.Spec
