/-
# Spec/Reconf — the abstract protocol with membership changes (etcd-io/raft style)

A self-contained copy of `Spec/Raft.lean` extended by
* log entries that optionally carry the *resulting* configuration `(incoming, outgoing)`;
* a per-node applied index (`applied ≤ commit`); the node's *active configuration* is the
  configuration of the last configuration entry at or below `applied` (or the initial one);
* `becomeLeader` / `leaderCommit` count quorums of the acting node's own active configuration;
* `campaign` is refused while a configuration entry lies in `(applied, commit]`
  (`hasUnappliedConfChanges`, raft.go `hup`);
* `leaderAppendCfg` is guarded by `pendingConf ≤ applied` and by the allowed transitions of
  `confchange.Changer` (simple one-voter change, enter joint, leave joint);
* `applyTo n k` advances the applied index; `crash n k` restarts with any `applied = k ≤ dur.commit`.

Core Lean only, all guards decidable (a compiled checker replays real executions).
-/
namespace RaftVerif.SpecR

abbrev NodeId := Nat

/-- a configuration `(incoming, outgoing)`; simple iff `outgoing = []` -/
abbrev Conf := List Nat × List Nat

structure Ent where
  term : Nat
  val : Nat
  cfg : Option Conf := none
  deriving DecidableEq, Repr, Inhabited

abbrev Log := List Ent

/-- entry at 1-based index `i` -/
def Log.at? (l : Log) (i : Nat) : Option Ent := if i = 0 then none else l[i - 1]?

/-- term at 1-based index `i`; index 0 has term 0 -/
def Log.termAt (l : Log) (i : Nat) : Option Nat :=
  if i = 0 then some 0 else (l[i - 1]?).map (·.term)

def Log.lastTerm (l : Log) : Nat := (l.getLast?.map (·.term)).getD 0

/-- the configuration in force after applying the first `k` entries of `l`, starting from `c0` -/
def cfgOf (c0 : Conf) : Log → Conf
  | [] => c0
  | e :: es => cfgOf (match e.cfg with | some c => c | none => c0) es

def Log.cfgAt (c0 : Conf) (l : Log) (k : Nat) : Conf := cfgOf c0 (l.take k)

/-- some entry with index in `(lo, hi]` is a configuration entry -/
def Log.hasCfgIn (l : Log) (lo hi : Nat) : Bool :=
  ((l.take hi).drop lo).any fun e => e.cfg.isSome

/-- strict majority of `V` inside `A` (`V` is duplicate-free in every reachable state) -/
def majority (V A : List Nat) : Bool := decide (V.length < 2 * V.countP (fun id => A.contains id))

/-- `A` is a quorum of the (possibly joint) configuration `c` -/
def Conf.isQuorum (c : Conf) (A : List Nat) : Bool :=
  majority c.1 A && (c.2.isEmpty || majority c.2 A)

/-- `V` and `V'` differ in at most one voter -/
def diffAtMostOne (V V' : List Nat) : Bool :=
  decide ((V.filter fun x => !V'.contains x).length + (V'.filter fun x => !V.contains x).length ≤ 1)

/-- the transitions of `confchange.Changer` (learners ignored): simple, enter joint, leave joint;
the incoming half is never empty and voter lists are duplicate-free -/
def Conf.allowed (c c' : Conf) : Bool :=
  !c'.1.isEmpty && decide c'.1.Nodup &&
  ((c.2.isEmpty && c'.2.isEmpty && diffAtMostOne c.1 c'.1) ||      -- simple
   (c.2.isEmpty && c'.2 == c.1) ||                                   -- enter joint
   (!c.2.isEmpty && c'.1 == c.1 && c'.2.isEmpty))                    -- leave joint

inductive Role where
  | follower | candidate | leader
  deriving DecidableEq, Repr, Inhabited

/-- One version of a node's persistent state together with the promises made up to it. -/
structure Ver where
  term : Nat := 0
  vote : Nat := 0            -- 0 = none (node ids are ≥ 1)
  commit : Nat := 0
  log : Log := []
  acks : List (Nat × Nat) := []    -- (T, k)
  votes : List (Nat × Nat) := []   -- (t, candidate)
  deriving DecidableEq, Repr, Inhabited

structure Node where
  vol : Ver := {}
  dur : Ver := {}
  pending : List Ver := []
  role : Role := .follower
  /-- applied index (volatile; `≤ vol.commit`) -/
  applied : Nat := 0
  /-- `pendingConfIndex` (meaningful for a leader) -/
  pendingConf : Nat := 0
  deriving DecidableEq, Repr, Inhabited

inductive Msg where
  /-- vote request of candidate `cand` for term `t` with its last entry id -/
  | reqVote (t cand lastTerm lastIdx : Nat)
  /-- a granted (real) vote, released by `voter` -/
  | vote (t voter cand : Nat)
  /-- append from the leader of term `t`: entries follow index `prev` whose term is `prevTerm` -/
  | app (t prev prevTerm : Nat) (ents : Log) (commit : Nat)
  /-- snapshot from the leader of term `t`: the whole committed prefix -/
  | snap (t : Nat) (pre : Log)
  /-- heartbeat from the leader of term `t` to `to` carrying a commit index -/
  | hb (t to commit : Nat)
  /-- acknowledgement released by `node`: its log matches the term-`t` leader's up to `k` -/
  | ack (t node k : Nat)
  deriving DecidableEq, Repr

structure State where
  nodes : NodeId → Node
  msgs : List Msg
  /-- ghost: every (term, node) that ever became leader, newest first -/
  elected : List (Nat × NodeId)
  /-- ghost: the log of the leader of term `t` (set at election, extended by its appends,
      frozen afterwards) -/
  glog : Nat → Log
  /-- ghost: every (index, entry, term of the committing node at that moment) some node ever had at
      or below its commit index -/
  committed : List (Nat × Ent × Nat)
  /-- ghost: every `(term, index, applied)` of a `leaderCommit`: the leader of `term` advanced its
      commit index to `index` counting a quorum of the configuration at its applied index -/
  choices : List (Nat × Nat × Nat)
  /-- ghost: the applied index of the node that won term `t`, at that moment (its active
      configuration was that of its log at this index) -/
  eapp : Nat → Nat
  /-- ghost: the commit index of the node that won term `t`, at that moment -/
  ecommit : Nat → Nat
  /-- ghost: the length of the log the winner of term `t` was elected with -/
  elen : Nat → Nat

def State.init : State :=
  { nodes := fun _ => {}, msgs := [], elected := [], glog := fun _ => [], committed := [],
    choices := [], eapp := fun _ => 0, ecommit := fun _ => 0, elen := fun _ => 0 }

/-- candidate's last entry `(lt, li)` is at least as up to date as `l` -/
def upToDate (lt li : Nat) (l : Log) : Bool :=
  lt > l.lastTerm || (lt == l.lastTerm && li ≥ l.length)

/-- `raftLog.maybeAppend` on ghost logs: `none` if `(prev, prevTerm)` does not match, otherwise the
new log: keep everything up to the first conflicting index, then the message's suffix. -/
def appendResult (l : Log) (prev prevTerm : Nat) (ents : Log) : Option Log :=
  if l.termAt prev ≠ some prevTerm then none
  else
    let rec agree : Nat → Log → Nat
      | _, [] => 0
      | i, e :: es => if l.termAt i = some e.term then agree (i + 1) es + 1 else 0
    let k := agree (prev + 1) ents
    if k = ents.length then some l
    else some (l.take (prev + k) ++ ents.drop k)

/-- some released acknowledgement of `v` for term `t` covers index `c` -/
def hasAck (msgs : List Msg) (t v c : Nat) : Bool :=
  msgs.any fun m => match m with
    | .ack t' v' k => t' == t && v' == v && decide (c ≤ k)
    | _ => false

/-- some acknowledgement promise `(t, k)` with `c ≤ k` is in the list -/
def hasDurAck (acks : List (Nat × Nat)) (t c : Nat) : Bool :=
  acks.any fun p => p.1 == t && decide (c ≤ p.2)

/-- the soup holds an append or snapshot of the leader of term `t` -/
def hasAppOrSnap (msgs : List Msg) (t : Nat) : Bool :=
  msgs.any fun m => match m with
    | .app t' _ _ _ _ => t' == t
    | .snap t' _ => t' == t
    | _ => false

/-- the log `l` is at least as up to date as the last entry id advertised by every vote request of
candidate `cand` for term `t` in the soup -/
def reqVotesCovered (msgs : List Msg) (t cand : Nat) (l : Log) : Bool :=
  msgs.all fun m => match m with
    | .reqVote t' c' lt li =>
        !(t' == t && c' == cand) || (l.lastTerm > lt || (l.lastTerm == lt && l.length ≥ li))
    | _ => true

/-- handling the append leaves the prefix up to `commit` untouched -/
def keepsCommitted (l : Log) (prev prevTerm : Nat) (ents : Log) (commit : Nat) : Bool :=
  match appendResult l prev prevTerm ents with
  | none => true
  | some l' => l'.take commit == l.take commit

inductive Action where
  /-- start a real election: term+1, vote for self (the vote request leaves with `sendReqVote`);
      refused while a configuration entry is committed but not applied -/
  | campaign (n : NodeId)
  | sendReqVote (n : NodeId)
  /-- adopt a higher term seen in any message -/
  | updateTerm (n : NodeId) (t : Nat)
  /-- grant the vote of the current term to `c` (volatile; released only once durable) -/
  | grant (n c lt li : Nat)
  /-- hand the current volatile version to the storage thread -/
  | write (n : NodeId)
  /-- the storage thread makes the oldest handed-out version durable -/
  | persist (n : NodeId)
  /-- crash and restart from durable state with applied index `k ≤ dur.commit` -/
  | crash (n : NodeId) (k : Nat)
  | sendVote (n t c : Nat)
  | sendAck (n t k : Nat)
  /-- a candidate with a quorum `q` of its own active configuration becomes leader -/
  | becomeLeader (n : NodeId) (q : List NodeId)
  | stepDown (n : NodeId)
  /-- a leader appends a normal entry of its own term -/
  | leaderAppend (n : NodeId) (val : Nat)
  /-- a leader appends a configuration entry whose resulting configuration is `c` -/
  | leaderAppendCfg (n : NodeId) (val : Nat) (c : Conf)
  /-- a leader sends entries `(prev, prev+cnt]` of its log together with its commit index -/
  | sendApp (n prev cnt : Nat)
  | sendSnap (n idx : Nat)
  | sendHb (n to c : Nat)
  /-- a leader advances its commit index to `c` on the strength of quorum `q` of its own active
      configuration -/
  | leaderCommit (n c : Nat) (q : List NodeId)
  | handleApp (n : NodeId) (t prev prevTerm : Nat) (ents : Log) (commit : Nat)
  | handleSnap (n : NodeId) (t : Nat) (pre : Log)
  | handleHb (n : NodeId) (t c : Nat)
  | ackCommit (n : NodeId) (t : Nat)
  /-- apply the committed entries up to `k` (configuration entries take effect here) -/
  | applyTo (n : NodeId) (k : Nat)
  deriving Repr

def setNode (s : State) (n : NodeId) (x : Node) : State :=
  { s with nodes := fun m => if m = n then x else s.nodes m }

/-- the entries `(i, l[i], t)` for `lo < i ≤ hi` -/
def commitRange (l : Log) (lo hi t : Nat) : List (Nat × Ent × Nat) :=
  (List.range (hi - lo)).filterMap fun d => (l.at? (lo + d + 1)).map fun e => (lo + d + 1, e, t)

/-- the configuration a node decides with: that of its applied prefix -/
def Node.active (c0 : Conf) (nd : Node) : Conf := nd.vol.log.cfgAt c0 nd.applied

/-- Guard of each action (`c0` is the initial configuration). All guards are decidable and mention
only the acting node, the soup and (for promises) the node's own durable version. -/
def enabled (c0 : Conf) (s : State) : Action → Prop
  | .campaign n =>
      let nd := s.nodes n
      nd.role ≠ .leader ∧ n ≠ 0 ∧ nd.vol.log.hasCfgIn nd.applied nd.vol.commit = false
  | .sendReqVote n => (s.nodes n).role = .candidate
  | .updateTerm n t => (s.nodes n).vol.term < t
  | .grant n c lt li =>
      let nd := s.nodes n
      c ≠ 0 ∧ Msg.reqVote nd.vol.term c lt li ∈ s.msgs ∧ (nd.vol.vote = 0 ∨ nd.vol.vote = c) ∧
      upToDate lt li nd.vol.log = true ∧ nd.role ≠ .leader
  | .write _ => True
  | .persist n => (s.nodes n).pending ≠ []
  | .crash n k => k ≤ (s.nodes n).dur.commit
  | .sendVote n t c => (t, c) ∈ (s.nodes n).dur.votes
  | .sendAck n t k => k = 0 ∨ (t, k) ∈ (s.nodes n).dur.acks
  | .ackCommit n t =>
      let nd := s.nodes n
      t = nd.vol.term ∧ nd.role ≠ .leader ∧ hasAppOrSnap s.msgs t = true
  | .becomeLeader n q =>
      let nd := s.nodes n
      nd.role = .candidate ∧ (nd.active c0).isQuorum q = true ∧ (nd.vol.term, n) ∈ nd.dur.votes ∧
      reqVotesCovered s.msgs nd.vol.term n nd.vol.log = true ∧
      ∀ v ∈ q, v = n ∨ Msg.vote nd.vol.term v n ∈ s.msgs
  | .stepDown _ => True
  | .leaderAppend n _ => (s.nodes n).role = .leader
  | .leaderAppendCfg n _ c =>
      let nd := s.nodes n
      nd.role = .leader ∧ nd.pendingConf ≤ nd.applied ∧ (nd.active c0).allowed c = true
  | .sendApp n prev cnt =>
      let nd := s.nodes n
      nd.role = .leader ∧ prev + cnt ≤ nd.vol.log.length
  | .sendSnap n idx =>
      let nd := s.nodes n
      nd.role = .leader ∧ idx ≤ nd.vol.commit
  | .sendHb n to c =>
      let nd := s.nodes n
      nd.role = .leader ∧ c ≤ nd.vol.commit ∧
      (c = 0 ∨ hasAck s.msgs nd.vol.term to c = true)
  | .leaderCommit n c q =>
      let nd := s.nodes n
      nd.role = .leader ∧ nd.vol.commit < c ∧ nd.vol.log.termAt c = some nd.vol.term ∧
      (nd.active c0).isQuorum q = true ∧
      ∀ v ∈ q, (v = n ∧ hasDurAck nd.dur.acks nd.vol.term c = true) ∨
               hasAck s.msgs nd.vol.term v c = true
  | .handleApp n t prev prevTerm ents commit =>
      let nd := s.nodes n
      Msg.app t prev prevTerm ents commit ∈ s.msgs ∧ t = nd.vol.term ∧ nd.role ≠ .leader ∧
      keepsCommitted nd.vol.log prev prevTerm ents nd.vol.commit = true
  | .handleSnap n t pre =>
      let nd := s.nodes n
      Msg.snap t pre ∈ s.msgs ∧ t = nd.vol.term ∧ nd.role ≠ .leader
  | .handleHb n t c =>
      let nd := s.nodes n
      Msg.hb t n c ∈ s.msgs ∧ t = nd.vol.term ∧ nd.role ≠ .leader ∧ c ≤ nd.vol.log.length
  | .applyTo n k => (s.nodes n).applied < k ∧ k ≤ (s.nodes n).vol.commit

instance (c0 : Conf) (s : State) (a : Action) : Decidable (enabled c0 s a) := by
  cases a <;> simp only [enabled] <;> infer_instance

/-- Effect of each action (meaningful when `enabled`). -/
def apply (s : State) : Action → State
  | .campaign n =>
      let nd := s.nodes n
      let v := { nd.vol with term := nd.vol.term + 1, vote := n,
                             votes := (nd.vol.term + 1, n) :: nd.vol.votes }
      setNode s n { nd with vol := v, role := .candidate }
  | .sendReqVote n =>
      let nd := s.nodes n
      { s with msgs := Msg.reqVote nd.vol.term n nd.vol.log.lastTerm nd.vol.log.length :: s.msgs }
  | .updateTerm n t =>
      let nd := s.nodes n
      setNode s n { nd with vol := { nd.vol with term := t, vote := 0 }, role := .follower }
  | .grant n c _ _ =>
      let nd := s.nodes n
      setNode s n { nd with vol := { nd.vol with vote := c, votes := (nd.vol.term, c) :: nd.vol.votes } }
  | .write n =>
      let nd := s.nodes n
      setNode s n { nd with pending := nd.pending ++ [nd.vol] }
  | .persist n =>
      let nd := s.nodes n
      match nd.pending with
      | [] => s
      | w :: rest => setNode s n { nd with dur := w, pending := rest }
  | .crash n k =>
      let nd := s.nodes n
      setNode s n { nd with vol := nd.dur, pending := [], role := .follower, applied := k,
                            pendingConf := 0 }
  | .sendVote n t c => { s with msgs := Msg.vote t n c :: s.msgs }
  | .sendAck n t k => { s with msgs := Msg.ack t n k :: s.msgs }
  | .becomeLeader n _ =>
      let nd := s.nodes n
      { setNode s n { nd with role := .leader, pendingConf := nd.vol.log.length } with
        elected := (nd.vol.term, n) :: s.elected,
        glog := fun t => if t = nd.vol.term then nd.vol.log else s.glog t,
        eapp := fun t => if t = nd.vol.term then nd.applied else s.eapp t,
        ecommit := fun t => if t = nd.vol.term then nd.vol.commit else s.ecommit t,
        elen := fun t => if t = nd.vol.term then nd.vol.log.length else s.elen t }
  | .stepDown n =>
      let nd := s.nodes n
      setNode s n { nd with role := .follower }
  | .leaderAppend n val =>
      let nd := s.nodes n
      let l := nd.vol.log ++ [{ term := nd.vol.term, val := val }]
      { setNode s n { nd with vol := { nd.vol with log := l, acks := (nd.vol.term, l.length) :: nd.vol.acks } } with
        glog := fun t => if t = nd.vol.term then l else s.glog t }
  | .leaderAppendCfg n val c =>
      let nd := s.nodes n
      let l := nd.vol.log ++ [{ term := nd.vol.term, val := val, cfg := some c }]
      { setNode s n { nd with vol := { nd.vol with log := l, acks := (nd.vol.term, l.length) :: nd.vol.acks },
                              pendingConf := l.length } with
        glog := fun t => if t = nd.vol.term then l else s.glog t }
  | .sendApp n prev cnt =>
      let nd := s.nodes n
      { s with msgs := Msg.app nd.vol.term prev ((nd.vol.log.termAt prev).getD 0)
                         ((nd.vol.log.drop prev).take cnt) nd.vol.commit :: s.msgs }
  | .sendSnap n idx =>
      let nd := s.nodes n
      { s with msgs := Msg.snap nd.vol.term (nd.vol.log.take idx) :: s.msgs }
  | .sendHb n to c =>
      let nd := s.nodes n
      { s with msgs := Msg.hb nd.vol.term to c :: s.msgs }
  | .leaderCommit n c _ =>
      let nd := s.nodes n
      { setNode s n { nd with vol := { nd.vol with commit := c } } with
        committed := commitRange nd.vol.log nd.vol.commit c nd.vol.term ++ s.committed,
        choices := (nd.vol.term, c, nd.applied) :: s.choices }
  | .handleApp n t prev prevTerm ents commit =>
      let nd := s.nodes n
      match appendResult nd.vol.log prev prevTerm ents with
      | none => setNode s n { nd with role := .follower }
      | some lnew =>
          let lastnew := prev + ents.length
          let cnew := max nd.vol.commit (min commit lastnew)
          let v : Ver := { nd.vol with log := lnew, commit := cnew, acks := (t, lastnew) :: nd.vol.acks }
          { setNode s n { nd with role := .follower, vol := v } with
            committed := commitRange lnew nd.vol.commit cnew nd.vol.term ++ s.committed }
  | .handleSnap n t pre =>
      let nd := s.nodes n
      let idx := pre.length
      if idx ≤ nd.vol.commit then setNode s n { nd with role := .follower }
      else if nd.vol.log.take idx = pre then
        -- the local log already contains the snapshot's last entry: only fast-forward the commit
        { setNode s n { nd with role := .follower, vol := { nd.vol with commit := idx } } with
          committed := commitRange nd.vol.log nd.vol.commit idx nd.vol.term ++ s.committed }
      else
        -- `restore`: the log is replaced and the configuration of the snapshot is installed at once
        let v : Ver := { nd.vol with log := pre, commit := idx, acks := (t, idx) :: nd.vol.acks }
        { setNode s n { nd with role := .follower, vol := v, applied := idx } with
          committed := commitRange pre nd.vol.commit idx nd.vol.term ++ s.committed }
  | .handleHb n _ c =>
      let nd := s.nodes n
      let cnew := max nd.vol.commit c
      { setNode s n { nd with role := .follower, vol := { nd.vol with commit := cnew } } with
        committed := commitRange nd.vol.log nd.vol.commit cnew nd.vol.term ++ s.committed }
  | .ackCommit n t =>
      let nd := s.nodes n
      setNode s n { nd with role := .follower, vol := { nd.vol with acks := (t, nd.vol.commit) :: nd.vol.acks } }
  | .applyTo n k =>
      let nd := s.nodes n
      setNode s n { nd with applied := k }

/-- executable step used by the trace checker: `none` when the action is not enabled -/
def step? (c0 : Conf) (s : State) (a : Action) : Option State :=
  if enabled c0 s a then some (apply s a) else none

inductive Reachable (c0 : Conf) : State → Prop where
  | init : Reachable c0 State.init
  | step (s : State) (a : Action) : Reachable c0 s → enabled c0 s a → Reachable c0 (apply s a)

/-- what the proofs assume about the initial configuration -/
def Conf.wf (c : Conf) : Prop := c.1 ≠ [] ∧ c.1.Nodup ∧ c.2.Nodup

/-- replay a list of actions from a state -/
def run (c0 : Conf) : State → List Action → Option State
  | s, [] => some s
  | s, a :: as => match step? c0 s a with
    | none => none
    | some s' => run c0 s' as

end RaftVerif.SpecR
