import RaftVerif.Spec.Raft
import RaftVerif.Spec.Statements
import RaftVerif.Model.Parse
/-!
# Spec/Check — executable trace checker for the abstract protocol (tie X, environment level)

The cluster simulator abstracts every step of the real nodes and of the environment into `Action`s
(harness/internal/sim/spec.go). The driver replays them with `step?` — each must be *enabled* — and
compares the abstract node state after every implementation operation. Core Lean only.
-/
namespace RaftVerif.Spec
open RaftVerif.Parse

def parseLog : Nat → List String → Option (Log × List String)
  | 0, t => some ([], t)
  | n + 1, x :: rest =>
    match splitOn1 x ':' with
    | [a, b] =>
      match a.toNat?, b.toNat?, parseLog n rest with
      | some a, some b, some (l, rest') => some ({ term := a, val := b } :: l, rest')
      | _, _, _ => none
    | _ => none
  | _ + 1, [] => none

def parseAction (t : List String) : Option Action :=
  let n (s : String) := natOrZero s
  match t with
  | ["campaign", a] => some (.campaign (n a))
  | ["sendReqVote", a] => some (.sendReqVote (n a))
  | ["updateTerm", a, b] => some (.updateTerm (n a) (n b))
  | ["grant", a, b, c, d] => some (.grant (n a) (n b) (n c) (n d))
  | ["write", a] => some (.write (n a))
  | ["persist", a] => some (.persist (n a))
  | ["crash", a] => some (.crash (n a))
  | ["sendVote", a, b, c] => some (.sendVote (n a) (n b) (n c))
  | ["sendAck", a, b, c] => some (.sendAck (n a) (n b) (n c))
  | ["becomeLeader", a, q] => some (.becomeLeader (n a) (idList q))
  | ["stepDown", a] => some (.stepDown (n a))
  | ["leaderAppend", a, v] => some (.leaderAppend (n a) (n v))
  | ["sendApp", a, p, c, k] => some (.sendApp (n a) (n p) (n c) (n k))
  | ["sendSnap", a, i] => some (.sendSnap (n a) (n i))
  | ["sendHb", a, to, c] => some (.sendHb (n a) (n to) (n c))
  | ["leaderCommit", a, c, q] => some (.leaderCommit (n a) (n c) (idList q))
  | "handleApp" :: a :: tt :: p :: pt :: c :: k :: rest =>
    match parseLog (n k) rest with
    | some (l, _) => some (.handleApp (n a) (n tt) (n p) (n pt) l (n c))
    | none => none
  | "handleSnap" :: a :: tt :: k :: rest =>
    match parseLog (n k) rest with
    | some (l, _) => some (.handleSnap (n a) (n tt) l)
    | none => none
  | ["handleHb", a, tt, c] => some (.handleHb (n a) (n tt) (n c))
  | ["ackCommit", a, tt] => some (.ackCommit (n a) (n tt))
  | _ => none

/-- order-sensitive hash of a log, computed identically by the harness -/
def logHash (l : Log) : Nat :=
  l.foldl (fun h e => (h * 1000003 + (e.term * 131 + e.val + 7) % 2147483647) % 2147483647) 0

def roleName : Role → String
  | .follower => "F" | .candidate => "C" | .leader => "L"

def verText (v : Ver) : String := s!"{v.term} {v.vote} {v.commit} {v.log.length} {logHash v.log}"

/-- abstract state of node `n` in the canonical comparison format:
`role  vol(term vote commit len hash)  dur(term vote commit len hash)  npending` -/
def nodeText (s : State) (n : NodeId) : String :=
  let nd := s.nodes n
  s!"{roleName nd.role} {verText nd.vol} d {verText nd.dur} p {nd.pending.length}"

structure Checker where
  cfg : Cfg := ⟨fun _ => false⟩
  st : State := State.init
  actions : Nat := 0
  failed : Option String := none

/-- which conjuncts of a `becomeLeader` / `grant` / `sendReqVote` guard hold (explains a DISABLED
answer; a grant is refused in particular when the request was created but never sent) -/
def diag (cfg : Cfg) (s : State) : Action → String
  | .becomeLeader n q =>
    let nd := s.nodes n
    s!" [candidate={decide (nd.role = .candidate)} quorum={cfg.isQuorum q} ownVoteDurable={decide ((nd.vol.term, n) ∈ nd.dur.votes)} reqVotesCovered={reqVotesCovered s.msgs nd.vol.term n nd.vol.log} votesInSoup={decide (∀ v ∈ q, v = n ∨ Msg.vote nd.vol.term v n ∈ s.msgs)}]"
  | .grant n c lt li =>
    let nd := s.nodes n
    s!" [candNonzero={decide (c ≠ 0)} reqInSoup={decide (Msg.reqVote nd.vol.term c lt li ∈ s.msgs)} voteFree={decide (nd.vol.vote = 0 ∨ nd.vol.vote = c)} upToDate={upToDate lt li nd.vol.log} notLeader={decide (nd.role ≠ .leader)}]"
  | .sendReqVote n => s!" [candidate={decide ((s.nodes n).role = .candidate)}]"
  | _ => ""

def Checker.act (c : Checker) (t : List String) : Checker × String :=
  match c.failed with
  | some _ => (c, "skipped")
  | none =>
    match parseAction t with
    | none => ({ c with failed := some "bad action" }, "BAD-ACTION " ++ " ".intercalate t)
    | some a =>
      match step? c.cfg c.st a with
      | some s' => ({ c with st := s', actions := c.actions + 1 }, "ok")
      | none => ({ c with failed := some "disabled" }, "DISABLED " ++ " ".intercalate t ++ diag c.cfg c.st a)

end RaftVerif.Spec
