import RaftVerif.Spec.Raft
import RaftVerif.Model.Quorum
/-!
# Statements of the global invariants over `Spec.Reachable` states

Only definitions: the property theorems in `Props/` are `theorem … : Reachable cfg s → Statement s`.
Kept apart from the proofs so that a statement is never weakened silently.
-/
namespace RaftVerif.Spec

/-- every version of a node's persistent state that exists anywhere: volatile, durable, handed out -/
def versions (nd : Node) : List Ver := nd.vol :: nd.dur :: nd.pending

/-- C02: at most one node is ever elected per term, and no term is won twice — not even by the same
node in a later incarnation. -/
def ElectionSafety (s : State) : Prop :=
  (∀ t n n', (t, n) ∈ s.elected → (t, n') ∈ s.elected → n = n') ∧ (s.elected.map (·.1)).Nodup

/-- C02: two nodes that are leader at the same time in the same term are the same node -/
def OneLeaderPerTerm (s : State) : Prop :=
  ∀ n n', (s.nodes n).role = .leader → (s.nodes n').role = .leader →
    (s.nodes n).vol.term = (s.nodes n').vol.term → n = n'

/-- C02: a node's released votes of one term all name the same candidate (also across restarts) -/
def VoteUnique (s : State) : Prop :=
  ∀ t v c c', Msg.vote t v c ∈ s.msgs → Msg.vote t v c' ∈ s.msgs → c = c'

/-- C05 (votes): a released vote is covered by the voter's durable state -/
def VoteDurable (s : State) : Prop :=
  ∀ t v c, Msg.vote t v c ∈ s.msgs →
    (s.nodes v).dur.term > t ∨ ((s.nodes v).dur.term = t ∧ (s.nodes v).dur.vote = c)

/-- C07: the durable term never exceeds the volatile one, and a leader's term is durable -/
def DurableBehindVolatile (s : State) : Prop :=
  ∀ n, (s.nodes n).dur.term ≤ (s.nodes n).vol.term ∧
    ((s.nodes n).role = .leader → (s.nodes n).dur.term = (s.nodes n).vol.term)

/-- C03: within every log anywhere, terms never decrease and are bounded by the owner's term -/
def TermsMonotone (s : State) : Prop :=
  ∀ n v, v ∈ versions (s.nodes n) →
    (v.log.map (·.term)).Pairwise (· ≤ ·) ∧ ∀ e ∈ v.log, 1 ≤ e.term ∧ e.term ≤ v.term

/-- C03: any two logs anywhere (any node, volatile / durable / handed out) that agree on the term at
index `i` are identical up to `i`. -/
def LogMatching (s : State) : Prop :=
  ∀ n n' v v', v ∈ versions (s.nodes n) → v' ∈ versions (s.nodes n') →
    ∀ i, 1 ≤ i → i ≤ v.log.length → v.log.termAt i = v'.log.termAt i → v.log.take i = v'.log.take i

/-- C06 (b): the commit index is never ahead of the log, in any version -/
def CommitWithinLog (s : State) : Prop :=
  ∀ n v, v ∈ versions (s.nodes n) → v.commit ≤ v.log.length

/-- C01: state-machine safety — an index is never committed with two different entries, by any
nodes, in any incarnations, at any times. -/
def StateMachineSafety (s : State) : Prop :=
  ∀ i e e' t t', (i, e, t) ∈ s.committed → (i, e', t') ∈ s.committed → e = e'

/-- C04: the log of every elected leader of term `T` contains every entry that any node committed
while in a term below `T`. -/
def LeaderCompleteness (s : State) : Prop :=
  ∀ T n i e tc, (T, n) ∈ s.elected → (i, e, tc) ∈ s.committed → tc < T → (s.glog T).at? i = some e

/-- C05 (acks): a released acknowledgement `(t, v, k)` with `k ≥ 1` was durable at `v`: its durable
term is at least `t` -/
def AckDurable (s : State) : Prop :=
  ∀ t v k, Msg.ack t v k ∈ s.msgs → 1 ≤ k → t ≤ (s.nodes v).dur.term

/-- C06 (a): whatever a leader has committed in its own term is what the log of that term's leader
holds, and carries that term at the commit index when it was advanced by counting. -/
def CommittedIsLeaderLog (s : State) : Prop :=
  ∀ n, (s.nodes n).role = .leader →
    (s.nodes n).vol.log = s.glog (s.nodes n).vol.term

/-- The quorum predicate of a (possibly joint) majority configuration, via the C12 model. -/
def jointCfg (c0 c1 : List Nat) : Cfg :=
  ⟨fun A => Quorum.jointVote c0 c1 (fun id => if A.contains id then some true else none) == .won⟩

end RaftVerif.Spec
