import RaftVerif.Spec.Reconf
/-!
# Statements of the global invariants over `SpecR.Reachable` states (membership changes)

Only definitions: the property theorems in `Props/` are `theorem … : Reachable cfg s → Statement s`.
Kept apart from the proofs so that a statement is never weakened silently.
-/
namespace RaftVerif.SpecR

/-- every version of a node's persistent state that exists anywhere: volatile, durable, handed out -/
def versions (nd : Node) : List Ver := nd.vol :: nd.dur :: nd.pending

/-- C02: at most one node is ever elected per term, and no term is won twice — not even by the same
node in a later incarnation. -/
def ElectionSafety (s : State) : Prop :=
  (∀ t n n', (t, n) ∈ s.elected → (t, n') ∈ s.elected → n = n') ∧ (s.elected.map (·.1)).Nodup

/-- C02: two nodes that are leader at the same time in the same term are the same node -/
def OneLeaderPerTerm (s : State) : Prop :=
  ∀ n n', (s.nodes n).role = .leader → (s.nodes n').role = .leader →
    (s.nodes n).vol.term = (s.nodes n').vol.term → n = n'

/-- C02: a node's released votes of one term all name the same candidate (also across restarts) -/
def VoteUnique (s : State) : Prop :=
  ∀ t v c c', Msg.vote t v c ∈ s.msgs → Msg.vote t v c' ∈ s.msgs → c = c'

/-- C05 (votes): a released vote is covered by the voter's durable state -/
def VoteDurable (s : State) : Prop :=
  ∀ t v c, Msg.vote t v c ∈ s.msgs →
    (s.nodes v).dur.term > t ∨ ((s.nodes v).dur.term = t ∧ (s.nodes v).dur.vote = c)

/-- C07: the durable term never exceeds the volatile one, and a leader's term is durable -/
def DurableBehindVolatile (s : State) : Prop :=
  ∀ n, (s.nodes n).dur.term ≤ (s.nodes n).vol.term ∧
    ((s.nodes n).role = .leader → (s.nodes n).dur.term = (s.nodes n).vol.term)

/-- C03: within every log anywhere, terms never decrease and are bounded by the owner's term -/
def TermsMonotone (s : State) : Prop :=
  ∀ n v, v ∈ versions (s.nodes n) →
    (v.log.map (·.term)).Pairwise (· ≤ ·) ∧ ∀ e ∈ v.log, 1 ≤ e.term ∧ e.term ≤ v.term

/-- C03: any two logs anywhere (any node, volatile / durable / handed out) that agree on the term at
index `i` are identical up to `i`. -/
def LogMatching (s : State) : Prop :=
  ∀ n n' v v', v ∈ versions (s.nodes n) → v' ∈ versions (s.nodes n') →
    ∀ i, 1 ≤ i → i ≤ v.log.length → v.log.termAt i = v'.log.termAt i → v.log.take i = v'.log.take i

/-- C06 (b): the commit index is never ahead of the log, in any version -/
def CommitWithinLog (s : State) : Prop :=
  ∀ n v, v ∈ versions (s.nodes n) → v.commit ≤ v.log.length

/-- C01: state-machine safety — an index is never committed with two different entries, by any
nodes, in any incarnations, at any times. -/
def StateMachineSafety (s : State) : Prop :=
  ∀ i e e' t t', (i, e, t) ∈ s.committed → (i, e', t') ∈ s.committed → e = e'

/-- C04: the log of every elected leader of term `T` contains every entry that any node committed
while in a term below `T`. -/
def LeaderCompleteness (s : State) : Prop :=
  ∀ T n i e tc, (T, n) ∈ s.elected → (i, e, tc) ∈ s.committed → tc < T → (s.glog T).at? i = some e

/-- C05 (acks): a released acknowledgement `(t, v, k)` with `k ≥ 1` was durable at `v`: its durable
term is at least `t` -/
def AckDurable (s : State) : Prop :=
  ∀ t v k, Msg.ack t v k ∈ s.msgs → 1 ≤ k → t ≤ (s.nodes v).dur.term

/-- C06 (a): whatever a leader has committed in its own term is what the log of that term's leader
holds, and carries that term at the commit index when it was advanced by counting. -/
def CommittedIsLeaderLog (s : State) : Prop :=
  ∀ n, (s.nodes n).role = .leader →
    (s.nodes n).vol.log = s.glog (s.nodes n).vol.term

/-- index `i` of `l` holds a configuration entry -/
def Log.isCfg (l : Log) (i : Nat) : Prop := ∃ e, l.at? i = some e ∧ e.cfg.isSome = true

/-- at most one configuration entry with index in `(lo, hi]` -/
def AtMostOneCfg (l : Log) (lo hi : Nat) : Prop :=
  ∀ i j, lo < i → i < j → j ≤ hi → l.isCfg i → l.isCfg j → False

/-- every configuration entry is an allowed transition from the configuration before it -/
def CfgChain (c0 : Conf) (l : Log) : Prop :=
  ∀ k (h : k < l.length) c, (l[k]).cfg = some c → (l.cfgAt c0 k).allowed c = true

/-! ### Configuration statements -/

/-- applied ≤ commit ≤ length of the log, at every node -/
def AppliedWithinCommit (s : State) : Prop :=
  ∀ n, (s.nodes n).applied ≤ (s.nodes n).vol.commit ∧
    (s.nodes n).vol.commit ≤ (s.nodes n).vol.log.length

/-- every configuration entry of every log anywhere is a transition `confchange.Changer` allows
(simple one-voter change, enter joint, leave joint) from the configuration before it in that log -/
def CfgTransitionsAllowed (c0 : Conf) (s : State) : Prop :=
  ∀ n v, v ∈ versions (s.nodes n) → CfgChain c0 v.log

/-- a leader has at most one configuration entry above its applied index, and none above
`pendingConfIndex` -/
def LeaderOneUnappliedCfg (s : State) : Prop :=
  ∀ n, (s.nodes n).role = .leader →
    AtMostOneCfg (s.nodes n).vol.log (s.nodes n).applied (s.nodes n).vol.log.length ∧
    ∀ i, (s.nodes n).pendingConf < i → ¬ (s.nodes n).vol.log.isCfg i

/-- whoever holds two configuration entries knows that the lower one is committed (every `MsgApp`
carries the leader's commit index) -/
def CfgCommittedBeforeNext (s : State) : Prop :=
  ∀ n v, v ∈ versions (s.nodes n) → ∀ i j, i < j → v.log.isCfg i → v.log.isCfg j → i ≤ v.commit

/-- a leader decides with a configuration that is the last or the second-to-last of its own log,
and every committed-anywhere index it has applied is below its commit index: stated as the
election record — the winner of `T` had applied everything up to its commit index except
non-configuration entries -/
def ElectedCfgApplied (s : State) : Prop :=
  ∀ T n, (T, n) ∈ s.elected → s.eapp T ≤ s.ecommit T ∧
    ∀ i, s.eapp T < i → i ≤ s.ecommit T → ¬ (s.glog T).isCfg i

end RaftVerif.SpecR
