import RaftVerif.Spec.Statements
import RaftVerif.Props.C12
/-!
# The quorum predicate of every joint majority configuration satisfies `Cfg.OK`

Discharged from the C12 theorems (`majority_vote_spec`, `joint_vote_spec`, `quorum_intersect`).
The `Nodup` hypotheses are not needed by the proof (C12's `quorum_intersect` counts list positions);
they are kept in the signature because that is how the configuration is always built.
-/
namespace RaftVerif.Spec
open RaftVerif.Quorum

/-- the vote assignment "everybody in `A` said yes, nobody else answered" -/
def votesOf (A : List Nat) : Id → Option Bool := fun id => if A.contains id then some true else none

theorem yesCount_votesOf (c A : List Nat) :
    yesCount c (votesOf A) = c.countP (fun id => A.contains id) := by
  unfold yesCount votesOf
  congr 1
  funext id
  cases A.contains id <;> simp

theorem jointCfg_isQuorum_iff (c0 c1 A : List Nat) :
    (jointCfg c0 c1).isQuorum A = true ↔
      (c0 = [] ∨ c0.length < 2 * c0.countP (fun id => A.contains id)) ∧
      (c1 = [] ∨ c1.length < 2 * c1.countP (fun id => A.contains id)) := by
  show (jointVote c0 c1 (votesOf A) == VoteResult.won) = true ↔ _
  rw [beq_iff_eq, (joint_vote_spec c0 c1 (votesOf A)).1,
    (majority_vote_spec c0 (votesOf A)).1, (majority_vote_spec c1 (votesOf A)).1,
    yesCount_votesOf, yesCount_votesOf]

theorem jointCfg_ok (c0 c1 : List Nat) (h0 : c0 ≠ []) (_hn0 : c0.Nodup) (_hn1 : c1.Nodup) :
    (jointCfg c0 c1).OK := by
  constructor
  · intro A B hA hB
    rw [jointCfg_isQuorum_iff] at hA hB
    have hA0 := hA.1.resolve_left h0
    have hB0 := hB.1.resolve_left h0
    obtain ⟨v, _, hvA, hvB⟩ := quorum_intersect c0 _ _ hA0 hB0
    exact ⟨v, by simpa using hvA, by simpa using hvB⟩
  · intro A B hAB hA
    rw [jointCfg_isQuorum_iff] at hA ⊢
    have mono : ∀ c : List Nat, c.countP (fun id => A.contains id) ≤ c.countP (fun id => B.contains id) := by
      intro c
      apply List.countP_mono_left
      intro x _ hx
      simp only [List.contains_eq_mem, decide_eq_true_eq] at hx ⊢
      exact hAB x hx
    refine ⟨hA.1.imp id (fun h => ?_), hA.2.imp id (fun h => ?_)⟩
    · exact Nat.lt_of_lt_of_le h (Nat.mul_le_mul_left 2 (mono c0))
    · exact Nat.lt_of_lt_of_le h (Nat.mul_le_mul_left 2 (mono c1))

end RaftVerif.Spec
