import RaftVerif.Proofs.SimCluster
import RaftVerif.Proofs.SimAux
import RaftVerif.Proofs.SimTerm
import RaftVerif.Proofs.ConfChangeRoundtrip
import RaftVerif.Proofs.C14RawNode
import RaftVerif.Props.C08
/-!
# Proofs/SimInit — the initial state: a node freshly built by `RawNode.new` on the empty storage of a cluster
with the static voter list `voters` satisfies `NodeInv` w.r.t. the initial Spec node, and `AuxInv`.

`restoreConf` keeps every set strictly ascending (`setInsert`), so `trk.cfg.voters` is the sorted, de-duplicated
voter list; `RaftStatic.tvoters` asks for `trk.cfg.voters = voters`, hence the hypothesis `Sorted voters`
(`voters.Pairwise (· < ·)`).  The id 0 is skipped by `Changer.apply`, hence `0 ∉ voters`.
-/
namespace RaftVerif.Sim
open Refine
set_option linter.unusedVariables false

/-- the empty storage of a cluster whose voters are `voters` (bootstrapped through the snapshot's ConfState) -/
def initStorage (voters : List Id) : MemoryStorage := { snapshot := { conf := { voters := voters } } }

/-- `confchange.Restore` of the ConfState `{ voters }` on the empty tracker: the configuration is exactly
`{ voters }`, the progress map has one non-learner entry per voter -/
theorem restore_init (voters : List Id) (hs : Sorted voters) (h0 : 0 ∉ voters) (mi mb li : Nat) :
    ∃ trk, restoreConf (restoreStart mi mb li) { voters := voters } = .ok ({ voters := voters }, trk) ∧
      (∀ v, v ∈ voters ↔ (mapGet trk v).isSome = true) ∧
      (∀ v pr, mapGet trk v = some pr → pr.isLearner = false) := by
  rw [restore_eq]
  simp only [if_pos, List.map_nil, List.nil_append, List.append_nil]
  obtain ⟨c1, a1, a2, a3⟩ := simpleFold_adds voters (restoreStart mi mb li) (rinv_start mi mb li)
    (fun id hid e => h0 (e ▸ hid))
  rw [a1, ok_bind, pure_eq]
  have hl : ∀ x, x ∉ c1.tracker.cfg.learners.getD [] := by
    intro x hx; have := ((a3 x).2.1.mp hx).1; simp [restoreStart, Tracker.make] at this
  have hln : ∀ x, x ∉ c1.tracker.cfg.learnersNext.getD [] := by
    intro x hx; have := ((a3 x).2.2.mp hx).1; simp [restoreStart, Tracker.make] at this
  have hv : ∀ x, x ∈ c1.tracker.cfg.voters ↔ x ∈ voters := by
    intro x; rw [(a3 x).1]; simp [restoreStart, Tracker.make]
  have hcfg : c1.tracker.cfg = { voters := voters } := by
    apply cfg_eq_of_views a2.wf ⟨hs, optWF_none, optWF_none, optWF_none⟩ a2.nj a2.autoLeave hv
    · intro x; simp [hl x]
    · intro x; simp [hln x]
  refine ⟨c1.tracker.progress, by rw [hcfg], fun v => ?_, fun v pr hp => ?_⟩
  · constructor
    · intro hm
      have := a2.rsem.sem.prog v (Or.inl ((hv v).2 hm))
      cases hg : mapGet c1.tracker.progress v with
      | none => exact absurd hg this
      | some pr => rfl
    · intro hm
      have hne : mapGet c1.tracker.progress v ≠ none := by
        intro e; rw [e] at hm; cases hm
      have := a2.rsem.sem.keys v hne
      rw [hcfg] at this
      simpa [cfgMember] using this
  · cases hb : pr.isLearner with
    | false => rfl
    | true => exact absurd (a2.rsem.flag v pr hp hb) (hl v)

/-! ### the run of `newRaft` on the empty storage -/
open C14

theorem initStorage_wf (voters : List Id) : (initStorage voters).WF :=
  ⟨by simp [initStorage], show Contig 0 [{}] by decide⟩

theorem cfgFill_pos (c : Config) : 0 < (cfgFill c).maxCommittedSizePerReady := by
  unfold cfgFill cfgFill0
  simp only
  repeat' split
  all_goals simp_all
  all_goals omega

theorem cfgFill_fields (c : Config) :
    (cfgFill c).applied = c.applied ∧ (cfgFill c).preVote = c.preVote ∧ (cfgFill c).checkQuorum = c.checkQuorum := by
  unfold cfgFill cfgFill0
  simp only
  repeat' split
  all_goals exact ⟨rfl, rfl, rfl⟩

/-- a successful `validate` returns `cfgFill c`, and the id is not 0 -/
theorem validate_ok {c c' : Config} (hv : c.validate = .ok c') : c' = cfgFill c ∧ c.id ≠ 0 := by
  rw [validate_eq] at hv
  by_cases h0 : c.id = 0
  · rw [if_pos h0] at hv; cases hv
  · refine ⟨?_, h0⟩
    repeat' (split at hv)
    all_goals first | (cases hv; done) | (injection hv with hv; exact hv.symm)

/-- the state `newRaft` leaves on the empty storage of `voters`, given the restored progress map, the draw
consumed by `becomeFollower` and the remaining draws -/
def initRaft (c : Config) (voters : List Id) (trk : ProgressMap) (d : Nat) (rest : List Nat) : Raft :=
  { Next.resetSt (swCfg (newRaftInit (cfgFill c) (initStorage voters) (d :: rest)) { voters := voters } trk) 0 d rest
    with lead := 0, state := .follower }

/-- **the exact result of `newRaft`** on the empty storage of a sorted voter list without the id 0 -/
theorem newRaft_init {voters : List Id} {c : Config} {draws : List Nat} {r : Raft}
    (hs : Sorted voters) (h0 : 0 ∉ voters) (happ : c.applied = 0)
    (h : newRaft c (initStorage voters) draws = .ok r) :
    c.id ≠ 0 ∧ ∃ trk d rest, draws = d :: rest ∧ r = initRaft c voters trk d rest ∧
      (∀ v, v ∈ voters ↔ (mapGet trk v).isSome = true) ∧
      (∀ v pr, mapGet trk v = some pr → pr.isLearner = false) := by
  rw [newRaft_eq] at h
  obtain ⟨c', hv, h⟩ := bind_eq_ok.1 h
  obtain ⟨p, hrun, h⟩ := bind_eq_ok.1 h
  obtain ⟨u, r1⟩ := p
  simp only [pure, Except.pure, Except.ok.injEq] at h
  subst h
  obtain ⟨hc', hid⟩ := validate_ok hv
  subst hc'
  refine ⟨hid, ?_⟩
  rw [newRaftAct_run _ _ _ _ (newRaftInit_state _ _ _)] at hrun
  have hle : (newRaftInit (cfgFill c) (initStorage voters) draws).log.lastEntryID =
      .ok { term := 0, index := 0 } := rfl
  rw [hle] at hrun
  obtain ⟨trk, hres, hk, hl⟩ :=
    restore_init voters hs h0 (cfgFill c).maxInflightMsgs (cfgFill c).maxInflightBytes 0
  have hres' : restoreConf
      { tracker := (newRaftInit (cfgFill c) (initStorage voters) draws).trk,
        lastIndex := ({ term := 0, index := 0 } : EntryID).index } (initStorage voters).initialState.2 =
      .ok ({ voters := voters }, trk) := hres
  simp only [hres'] at hrun
  have heq : ConfState.equivalent (initStorage voters).initialState.2
      (swCfg (newRaftInit (cfgFill c) (initStorage voters) draws) { voters := voters } trk).trk.confState = true :=
    confState_equivalent_refl _
  rw [heq] at hrun
  simp only [Bool.true_eq_false, if_false] at hrun
  rw [nrTail_run] at hrun
  have hload : nrLoad (initStorage voters).initialState.1
      (swCfg (newRaftInit (cfgFill c) (initStorage voters) draws) { voters := voters } trk) = .ok _ := rfl
  simp only [hload] at hrun
  have happ' : (cfgFill c).applied = 0 := (cfgFill_fields c).1.trans happ
  have hap : nrApplied (cfgFill c)
      (swCfg (newRaftInit (cfgFill c) (initStorage voters) draws) { voters := voters } trk) =
      .ok (swCfg (newRaftInit (cfgFill c) (initStorage voters) draws) { voters := voters } trk) := by
    unfold nrApplied; rw [if_pos happ']
  simp only [hap] at hrun
  obtain ⟨d, rest, hd, hr⟩ := becomeFollower_run_exact hrun
  have hd' : draws = d :: rest := hd
  subst hd'
  exact ⟨trk, d, rest, rfl, hr, hk, hl⟩

/-! ### the fields of the initial state -/

section fields
variable (c : Config) (voters : List Id) (trk : ProgressMap) (d : Nat) (rest : List Nat)

theorem initRaft_log : (initRaft c voters trk d rest).log =
    RaftLog.new (initStorage voters) (cfgFill c).maxCommittedSizePerReady := rfl

theorem initRaft_wf : (initRaft c voters trk d rest).log.WF := by
  rw [initRaft_log]; exact (C08.newLog_wf (initStorage_wf voters) _).2 (cfgFill_pos c)

theorem initRaft_unc : Uncompacted (initRaft c voters trk d rest).log :=
  Uncompacted.of_storage rfl rfl rfl

theorem initRaft_absLog (val : Val) : absLog val (initRaft c voters trk d rest) = [] := rfl

/-- the progress `reset` gives a peer on an empty log -/
def initPr (c : Config) (id : Id) (pr : Progress) : Progress :=
  { match_ := if id == (cfgFill c).id then 0 else 0, next := 1,
    inflights := { size := (cfgFill c).maxInflightMsgs, maxBytes := (cfgFill c).maxInflightBytes },
    isLearner := pr.isLearner }

theorem initRaft_getProgress (v : Id) : (initRaft c voters trk d rest).trk.getProgress v =
    (mapGet trk v).map (initPr c v) :=
  lookup_map_keys (initPr c) trk v

theorem initRaft_state : (initRaft c voters trk d rest).state = .follower := rfl

theorem initRaft_not_leader : (initRaft c voters trk d rest).state ≠ .leader := by
  rw [initRaft_state]; decide

theorem initRaft_not_candidate : (initRaft c voters trk d rest).state ≠ .candidate := by
  rw [initRaft_state]; decide

end fields

theorem initRaft_static {c : Config} {voters : List Id} {trk : ProgressMap} {d : Nat} {rest : List Nat} {n : Nat}
    (hid : c.id = n) (hnz : c.id ≠ 0) (hmem : n ∈ voters)
    (hpv : c.preVote = false)
    (hk : ∀ v, v ∈ voters ↔ (mapGet trk v).isSome = true)
    (hl : ∀ v pr, mapGet trk v = some pr → pr.isLearner = false) :
    RaftStatic voters n (initRaft c voters trk d rest) where
  id := (cfgFill_id c).trans hid
  idnz := hid ▸ hnz
  pv := (cfgFill_fields c).2.1.trans hpv
  xfer := rfl
  pri := rfl
  ro := rfl
  tvoters := rfl
  tout := rfl
  tauto := rfl
  prog := fun v => by rw [initRaft_getProgress, Option.isSome_map]; exact hk v
  nolearn := fun v pr hp => by
    rw [initRaft_getProgress] at hp
    cases hg : mapGet trk v with
    | none => rw [hg] at hp; cases hp
    | some p0 => rw [hg] at hp; cases hp; exact hl v p0 hg
  self := hmem

/-- the initial model state satisfies the node-local simulation invariant w.r.t. the initial Spec node and
the empty soup -/
theorem initRaft_inv (val : Val) {c : Config} {voters : List Id} {trk : ProgressMap} {d : Nat} {rest : List Nat}
    {n : Nat} (hst : RaftStatic voters n (initRaft c voters trk d rest)) :
    RaftInv val voters n (initRaft c voters trk d rest) ({} : Spec.Node) [] where
  abs := ⟨rfl, rfl, rfl, rfl, rfl⟩
  st := hst
  wf := initRaft_wf c voters trk d rest
  unc := initRaft_unc c voters trk d rest
  leadInv := fun h => absurd h (initRaft_not_leader _ _ _ _ _)
  candVote := fun h => absurd h (initRaft_not_candidate _ _ _ _ _)
  termPos := fun h => absurd (initRaft_state _ _ _ _ _) h
  logLe := fun e he => (List.not_mem_nil he).elim
  candLt := fun h => absurd h (initRaft_not_candidate _ _ _ _ _)
  pend := rfl
  durV := fun p hp => (List.not_mem_nil hp).elim
  durA := fun p hp => (List.not_mem_nil hp).elim
  out := fun m hm => (List.not_mem_nil hm).elim
  prom := fun m hm => (List.not_mem_nil hm).elim
  rvTerm := fun t lt li h => (List.not_mem_nil h).elim
  rvCov := fun h => absurd h (initRaft_not_candidate _ _ _ _ _)
  votes := fun h => absurd h (initRaft_not_candidate _ _ _ _ _)
  selfVote := fun h => absurd h (initRaft_not_candidate _ _ _ _ _)
  matchO := fun h => absurd h (initRaft_not_leader _ _ _ _ _)
  matchS := fun h => absurd h (initRaft_not_leader _ _ _ _ _)

theorem initRaft_aux (c : Config) (voters : List Id) (trk : ProgressMap) (d : Nat) (rest : List Nat) (n : Nat) :
    AuxInv n (initRaft c voters trk d rest) where
  matchLe := fun h => absurd h (initRaft_not_leader _ _ _ _ _)
  self := fun m hm => (List.not_mem_nil hm).elim
  outFrom := fun m hm => (List.not_mem_nil hm).elim

/-- **a node freshly built on the empty storage satisfies the node invariant w.r.t. the initial Spec node**
(`({} : Spec.Node) = Spec.State.init.nodes n`, `[] = Spec.State.init.msgs`), and the auxiliary invariant.

Extra hypotheses (on `voters` only): `hsorted` — the voter list is strictly ascending, the normal form in which
`restoreConf` (`setInsert`) keeps `trk.cfg.voters`, needed for `RaftStatic.tvoters : trk.cfg.voters = voters`
(it implies `hnd`, which is kept for the interface); `h0` — the id 0 is skipped by `Changer.apply`.
For a concrete list both are discharged by `decide`. -/
theorem init_nodeInv {val : Val} {voters : List Id} {n : Nat} {c : Config} {draws : List Nat} {rn : RawNode}
    (hid : c.id = n) (hmem : n ∈ voters) (hnd : voters.Nodup)
    (hsorted : voters.Pairwise (· < ·)) (h0 : 0 ∉ voters)
    (hpv : c.preVote = false) (hasync : c.asyncStorageWrites = false)
    (happ : c.applied = 0)
    (h : RawNode.new c (initStorage voters) draws = .ok rn) :
    NodeInv val voters n rn ({} : Spec.Node) [] ∧ AuxInv n rn.raft := by
  unfold RawNode.new at h
  obtain ⟨r, hr, h⟩ := bind_eq_ok.1 h
  simp only [pure, Except.pure, Except.ok.injEq] at h
  subst h
  obtain ⟨hnz, trk, d, rest, hd, hr', hk, hl⟩ := newRaft_init hsorted h0 happ hr
  subst hr'
  exact ⟨⟨hasync, rfl, initRaft_inv val (initRaft_static hid hnz hmem hpv hk hl)⟩,
    initRaft_aux c voters trk d rest n⟩

/-- the concrete three-node cluster -/
example (val : Val) (n d : Nat) (hn : n ∈ [1, 2, 3]) (rn : RawNode)
    (h : RawNode.new { id := n, electionTick := 10, heartbeatTick := 1, maxInflightMsgs := 256 }
      (initStorage [1, 2, 3]) [d] = .ok rn) :
    NodeInv val [1, 2, 3] n rn ({} : Spec.Node) [] ∧ AuxInv n rn.raft :=
  init_nodeInv rfl hn (by decide) (by decide) (by decide) rfl rfl rfl h

/-! ### non-vacuity: the construction succeeds -/

/-- `newRaft` succeeds on the empty storage whenever the configuration validates and a draw is supplied -/
theorem newRaft_init_ok {voters : List Id} {c c' : Config} {d : Nat} {rest : List Nat}
    (hs : Sorted voters) (h0 : 0 ∉ voters) (happ : c.applied = 0) (hv : c.validate = .ok c') :
    ∃ r, newRaft c (initStorage voters) (d :: rest) = .ok r := by
  obtain ⟨hc', _⟩ := validate_ok hv
  subst hc'
  obtain ⟨trk, hres, hk, hl⟩ :=
    restore_init voters hs h0 (cfgFill c).maxInflightMsgs (cfgFill c).maxInflightBytes 0
  have hres' : restoreConf
      { tracker := (newRaftInit (cfgFill c) (initStorage voters) (d :: rest)).trk,
        lastIndex := ({ term := 0, index := 0 } : EntryID).index } (initStorage voters).initialState.2 =
      .ok ({ voters := voters }, trk) := hres
  have hle : (newRaftInit (cfgFill c) (initStorage voters) (d :: rest)).log.lastEntryID =
      .ok { term := 0, index := 0 } := rfl
  have heq : ConfState.equivalent (initStorage voters).initialState.2
      (swCfg (newRaftInit (cfgFill c) (initStorage voters) (d :: rest)) { voters := voters } trk).trk.confState = true :=
    confState_equivalent_refl _
  have hload : nrLoad (initStorage voters).initialState.1
      (swCfg (newRaftInit (cfgFill c) (initStorage voters) (d :: rest)) { voters := voters } trk) = .ok _ := rfl
  have happ' : (cfgFill c).applied = 0 := (cfgFill_fields c).1.trans happ
  have hap : nrApplied (cfgFill c)
      (swCfg (newRaftInit (cfgFill c) (initStorage voters) (d :: rest)) { voters := voters } trk) =
      .ok (swCfg (newRaftInit (cfgFill c) (initStorage voters) (d :: rest)) { voters := voters } trk) := by
    unfold nrApplied; rw [if_pos happ']
  rw [newRaft_eq, hv, ok_bind, newRaftAct_run _ _ _ _ (newRaftInit_state _ _ _), hle]
  simp only [hres']
  rw [heq]
  simp only [Bool.true_eq_false, if_false]
  rw [nrTail_run]
  simp only [hload, hap]
  rw [C14.becomeFollower_run]
  exact ⟨_, rfl⟩

/-- **`RawNode.new` succeeds** on the empty storage whenever the configuration validates and a draw is supplied -/
theorem init_exists {voters : List Id} {c c' : Config} {d : Nat} {rest : List Nat}
    (hs : voters.Pairwise (· < ·)) (h0 : 0 ∉ voters) (happ : c.applied = 0) (hv : c.validate = .ok c') :
    ∃ rn, RawNode.new c (initStorage voters) (d :: rest) = .ok rn := by
  obtain ⟨r, hr⟩ := newRaft_init_ok (d := d) (rest := rest) hs h0 happ hv
  exact ⟨_, by unfold RawNode.new; rw [hr]; rfl⟩

/-- the configuration of node `n` in the concrete examples -/
def exCfg (n : Nat) : Config := { id := n, electionTick := 10, heartbeatTick := 1, maxInflightMsgs := 256 }

example (d : Nat) : ∃ rn, RawNode.new (exCfg 2) (initStorage [1, 2, 3]) [d] = .ok rn :=
  init_exists (c' := cfgFill (exCfg 2)) (by decide) (by decide) rfl rfl

end RaftVerif.Sim
