import RaftVerif.Proofs.SimCluster
/-!
# Proofs/SimRaw — from `RawNode` operations to runs of the `Raft` state monad
-/
namespace RaftVerif.Sim
open Refine

/-- inversion of `runM`: the action ran from the node's raft state with the supplied draws -/
theorem runM_inv {α : Type} {rn rn' : RawNode} {draws : List Nat} {act : M α} {a : α}
    (h : rn.runM draws act = .ok (a, rn')) :
    ∃ r', act.run { rn.raft with draws := draws } = .ok (a, r') ∧ rn' = { rn with raft := r' } := by
  unfold RawNode.runM at h
  obtain ⟨⟨a', r'⟩, hrun, h⟩ := bind_eq_ok.1 h
  by_cases hd : (!r'.draws.isEmpty) = true
  · simp [hd, throw, throwThe, MonadExceptOf.throw, bind, Except.bind] at h
  · simp only [hd, bind, Except.bind, pure, Except.pure] at h
    simp only [Bool.false_eq_true, if_false, Except.ok.injEq, Prod.mk.injEq] at h
    obtain ⟨rfl, rfl⟩ := h
    exact ⟨r', hrun, rfl⟩

/-- inversion of `rstep` -/
theorem rstep_inv {rn rn' : RawNode} {draws : List Nat} {m : Message} {e : Option ApiErr}
    (h : rn.rstep draws m = .ok (e, rn')) :
    ∃ e0 r', (Raft.step Raft.stepFuel m).run { rn.raft with draws := draws } = .ok (e0, r') ∧
      rn' = { rn with raft := r' } := by
  unfold RawNode.rstep at h
  obtain ⟨⟨e0, rn1⟩, hrun, h⟩ := bind_eq_ok.1 h
  simp only [pure, Except.pure, Except.ok.injEq, Prod.mk.injEq] at h
  obtain ⟨_, rfl⟩ := h
  obtain ⟨r', h1, h2⟩ := runM_inv hrun
  exact ⟨e0, r', h1, h2⟩

/-- inversion of `RawNode.step`: either the message was refused (nothing changes) or it was stepped -/
theorem step_inv {rn rn' : RawNode} {draws : List Nat} {m : Message} {e : Option ApiErr}
    (h : rn.step draws m = .ok (e, rn')) :
    rn' = rn ∨ ∃ e0 r', (Raft.step Raft.stepFuel m).run { rn.raft with draws := draws } = .ok (e0, r') ∧
      rn' = { rn with raft := r' } := by
  unfold RawNode.step at h
  split at h
  · left; simp only [pure, Except.pure, Except.ok.injEq, Prod.mk.injEq] at h; exact h.2.symm
  · split at h
    · left; simp only [pure, Except.pure, Except.ok.injEq, Prod.mk.injEq] at h; exact h.2.symm
    · right; exact rstep_inv h

/-- inversion of `RawNode.tick` -/
theorem tick_inv {rn rn' : RawNode} {draws : List Nat} (h : rn.tick draws = .ok rn') :
    ∃ r', Raft.tick.run { rn.raft with draws := draws } = .ok ((), r') ∧ rn' = { rn with raft := r' } := by
  unfold RawNode.tick at h
  obtain ⟨⟨u, rn1⟩, hrun, h⟩ := bind_eq_ok.1 h
  simp only [pure, Except.pure, Except.ok.injEq] at h
  subst h
  exact runM_inv hrun

/-- supplying the draws of an operation keeps the invariant -/
theorem RaftInv.withDraws {val : Val} {voters : List Id} {n : Nat} {r : Raft} {nd : Spec.Node}
    {msgs : List Spec.Msg} (h : RaftInv val voters n r nd msgs) (draws : List Nat) :
    RaftInv val voters n { r with draws := draws } nd msgs :=
  h.congr rfl rfl rfl rfl rfl rfl rfl rfl rfl rfl rfl rfl

/-- a `RaftSim` of the raft state lifts to the `RawNode` that only had its raft state replaced -/
theorem NodeInv.of_raftSim {val : Val} {voters : List Id} {n : Nat} {s : Spec.State} {rn : RawNode} {r' : Raft}
    (hinv : NodeInv val voters n rn (s.nodes n) s.msgs) (hsim : RaftSim val voters n s r') :
    ∃ as s', RunL (cfgOf voters) s as s' ∧ (∀ a ∈ as, a.actor = n) ∧
      NodeInv val voters n { rn with raft := r' } (s'.nodes n) s'.msgs ∧
      ∀ m ∈ ([] : List Message), NetOK val s'.msgs m := by
  obtain ⟨as, s', h1, h2, h3⟩ := hsim
  exact ⟨as, s', h1, h2, ⟨hinv.sync, hinv.adv, h3⟩, by simp⟩

end RaftVerif.Sim
