import RaftVerif.Proofs.LiveAppResp
/-!
# Proofs/LiveAck — the progress transformation of an acknowledging `MsgAppResp` (C15), pure part
-/
namespace RaftVerif.Live
open Raft
set_option linter.unusedSimpArgs false

/-- `MaybeUpdate` on a new index, after the sender was marked active -/
theorem ackUpd_new (pr : Progress) (idx : Nat) (h : pr.match_ < idx) :
    (ackUpd pr idx).2 = true ∧ (ackUpd pr idx).1.match_ = idx ∧ (ackUpd pr idx).1.recentActive = true ∧
    (ackUpd pr idx).1.state = pr.state ∧ (ackUpd pr idx).1.inflights = pr.inflights ∧
    (ackUpd pr idx).1.msgAppFlowPaused = false ∧ (ackUpd pr idx).1.next = max pr.next (idx + 1) := by
  obtain ⟨h1, h2, h3, h4, h5, h6, h7, _⟩ :=
    maybeUpdate_new ({ pr with recentActive := true } : Progress) idx h
  exact ⟨h1, h2, h7, h5, h6, h4, h3⟩

theorem ackCond_of_new (pr : Progress) (idx : Nat) (h : pr.match_ < idx) : ackCond pr idx :=
  Or.inl (ackUpd_new pr idx h).1

theorem ackTransition_keeps (pr : Progress) (fi idx : Nat) :
    (ackTransition pr fi idx).match_ = pr.match_ ∧ (ackTransition pr fi idx).recentActive = pr.recentActive ∧
    (ackTransition pr fi idx).isLearner = pr.isLearner := by
  unfold ackTransition
  split
  · exact ⟨rfl, rfl, rfl⟩
  · split
    · simp [Progress.becomeReplicate, Progress.becomeProbe, Progress.resetState]
      split <;> exact ⟨rfl, rfl, rfl⟩
    · split <;> exact ⟨rfl, rfl, rfl⟩

/-- a probing follower that acknowledges starts streaming -/
theorem ackTransition_probe (pr : Progress) (fi idx : Nat) (hs : pr.state = .probe) :
    (ackTransition pr fi idx).state = .replicate ∧ (ackTransition pr fi idx).next = pr.match_ + 1 ∧
    (ackTransition pr fi idx).isPaused = false ∧ (ackTransition pr fi idx).inflights.count = 0 := by
  unfold ackTransition
  simp only [hs, beq_self_eq_true, ↓reduceIte]
  obtain ⟨_, h2, h3, _, h5, h6, _⟩ := Progress.becomeReplicate_spec pr
  exact ⟨h2, h5, h3, h6⟩

/-- a follower waiting for a snapshot whose acknowledged index reconnects to the leader's log
(`Match + 1 ≥ firstIndex`) starts streaming -/
theorem ackTransition_snapshot_recovers (pr : Progress) (fi idx : Nat) (hs : pr.state = .snapshot)
    (hfi : fi ≤ pr.match_ + 1) :
    (ackTransition pr fi idx).state = .replicate ∧ (ackTransition pr fi idx).next = pr.match_ + 1 ∧
    (ackTransition pr fi idx).isPaused = false ∧ (ackTransition pr fi idx).pendingSnapshot = 0 ∧
    (ackTransition pr fi idx).inflights.count = 0 := by
  unfold ackTransition
  have h1 : (pr.state == ProgressState.probe) = false := by simp [hs]
  have h2 : (pr.state == ProgressState.snapshot && decide (pr.match_ + 1 ≥ fi)) = true := by
    simp [hs, hfi]
  simp only [h1, h2, Bool.false_eq_true, ↓reduceIte]
  obtain ⟨_, g2, g3, g4, g5, g6, _⟩ := Progress.becomeReplicate_spec pr.becomeProbe
  have hm : pr.becomeProbe.match_ = pr.match_ := (Progress.becomeProbe_spec pr).2.2.2.1
  refine ⟨g2, by rw [g5, hm], g3, ?_, g6⟩
  simp [Progress.becomeReplicate, Progress.resetState]

/-- … and stays in `StateSnapshot`, untouched, when it does not reconnect -/
theorem ackTransition_snapshot_stays (pr : Progress) (fi idx : Nat) (hs : pr.state = .snapshot)
    (hfi : pr.match_ + 1 < fi) : ackTransition pr fi idx = pr := by
  unfold ackTransition
  have h1 : (pr.state == ProgressState.probe) = false := by simp [hs]
  have h2 : (pr.state == ProgressState.snapshot && decide (pr.match_ + 1 ≥ fi)) = false := by
    simp only [hs, beq_self_eq_true, Bool.true_and, ge_iff_le, decide_eq_false_iff_not]; omega
  have h3 : (pr.state == ProgressState.replicate) = false := by simp [hs]
  simp only [h1, h2, h3, Bool.false_eq_true, ↓reduceIte]

/-- a streaming follower gets its inflight window freed up to the acknowledged index -/
theorem ackTransition_replicate (pr : Progress) (fi idx : Nat) (hs : pr.state = .replicate) :
    ackTransition pr fi idx = { pr with inflights := pr.inflights.freeLE idx } := by
  unfold ackTransition
  have h1 : (pr.state == ProgressState.probe) = false := by simp [hs]
  have h2 : (pr.state == ProgressState.snapshot && decide (pr.match_ + 1 ≥ fi)) = false := by simp [hs]
  have h3 : (pr.state == ProgressState.replicate) = true := by simp [hs]
  simp only [h1, h2, h3, Bool.false_eq_true, ↓reduceIte]

/-- a `MsgSnap` for `id` was appended to `msgs` between `r` and `r'` -/
def SnapSent (r r' : Raft) (id : Id) : Prop :=
  ∃ new x, r'.msgs = r.msgs ++ new ∧ x ∈ new ∧ x.typ = .snap ∧ x.to = id

/-- what `PrKeep` from the mid-state of the handler gives for the acknowledging peer -/
theorem ack_final_progress (r r' : Raft) (m : Message) (pr : Progress) (hk : PrKeep (ackMid r m pr) r') :
    ∃ pr', r'.trk.getProgress m.from = some pr' ∧
      pr'.match_ = (ackUpd pr m.index).1.match_ ∧ pr'.recentActive = true ∧ pr'.isLearner = pr.isLearner ∧
      (pr'.state = (ackTransition (ackUpd pr m.index).1 r.log.firstIndex m.index).state ∨
       (pr'.state = .snapshot ∧ SnapSent r r' m.from)) := by
  obtain ⟨new, hmsgs, hk⟩ := hk
  have hgm : (ackMid r m pr).trk.getProgress m.from =
      some (ackTransition (ackUpd pr m.index).1 r.log.firstIndex m.index) := by
    simp [ackMid, getProgress_setProgress]
  obtain ⟨pr', hg', e1, e2, e3, e4⟩ := (hk m.from).2 _ hgm
  obtain ⟨k1, k2, k3⟩ := ackTransition_keeps (ackUpd pr m.index).1 r.log.firstIndex m.index
  have hra : (ackUpd pr m.index).1.recentActive = true := by
    unfold ackUpd Progress.maybeUpdate; split <;> rfl
  have hil : (ackUpd pr m.index).1.isLearner = pr.isLearner := by
    unfold ackUpd Progress.maybeUpdate; split <;> rfl
  refine ⟨pr', hg', e1.trans k1, by rw [e2, k2, hra], by rw [e3, k3, hil], ?_⟩
  rcases e4 with e4 | ⟨e4, x, hx, hx1, hx2⟩
  · exact Or.inl e4
  · exact Or.inr ⟨e4, new, x, hmsgs, hx, hx1, hx2⟩

end RaftVerif.Live
