import RaftVerif.Proofs.SimApp
import RaftVerif.Proofs.SimDur
/-!
# Proofs/SimAppD — `SimApp` with the durable frame exposed (`RaftSimD`)
-/
namespace RaftVerif.Sim
open Refine
set_option linter.unusedSimpArgs false

/-- **MsgApp at the own term of a non-leader** (follower, candidate or pre-candidate): Spec `ackCommit`
(append below the commit index) or Spec `handleApp` (accepted or rejected) -/
theorem simD_app_nonleader {val : Val} {voters : List Id} {n : Nat} {s : Spec.State} {r r' : Raft} {m : Message}
    {e : Option StepErr} {fuel : Nat} (hinv : RaftInv val voters n r (s.nodes n) s.msgs)
    (ht : m.typ = .app) (hterm : m.term = r.term) (hin : NetOK val s.msgs m) (hs : r.state ≠ .leader)
    (h : (Raft.step (fuel + 1) m).run r = .ok (e, r')) : RaftSimD val voters n s r' := by
  unfold NetOK at hin
  simp only [ht] at hin
  obtain ⟨ht0, hsoup, hcontig, hle⟩ := hin
  have hsoup' : Spec.Msg.app r.term m.index m.logTerm (m.entries.map (absEnt val)) m.commit ∈ s.msgs := by
    rw [← hterm]; exact hsoup
  obtain ⟨_, hf, hmsgs, hcase⟩ := step_app_refine val fuel m r r' e ht hterm hs hinv.wf hinv.unc hcontig h
  obtain ⟨hst', _⟩ := app_static hinv.st ht hterm hs hinv.wf hinv.unc hcontig h
  have hr0 : r.term ≠ 0 := hterm ▸ ht0
  rcases hcase with hc | hc | hc
  · -- stale: `ackCommit`
    have hen := ackCommit_enabled val (cfgOf voters) hinv.abs hs (app_hasAppOrSnap hsoup')
    have hm : (Spec.apply s (.ackCommit n r.term)).msgs = s.msgs := rfl
    have habs := appStale_abs val hinv.abs hf hc
    have hnd := ackCommit_nodes s n r.term
    obtain ⟨_, hl, hmaa⟩ := hc
    have hlog : absLog val r' = absLog val r := by unfold absLog; rw [hl]
    refine ⟨[.ackCommit n r.term], _, .single hen, by simp [Spec.Action.actor], ?_, by rw [hnd], by rw [hm]; exact fun _ _ _ hx => hx⟩
    rw [hm]
    refine app_inv_build hinv habs hst' (by rw [hl]; exact hinv.wf) (by rw [hl]; exact hinv.unc) hf.state hf.term
      (by rw [hlog]; exact hinv.logLe) (by rw [hnd]) (by rw [hnd]) (by rw [hnd]) ?_ hmsgs ?_
    · rw [hnd]; exact fun q hq => List.mem_cons_of_mem _ hq
    · refine app_prom hinv.prom hinv.st.id hr0 (by rw [hnd]) ?_ hmaa ?_
      · rw [hnd]; exact fun q hq => List.mem_cons_of_mem _ hq
      · intro _
        rw [hnd, ← hinv.abs.commit]
        exact List.mem_cons_self
  · -- rejected: `handleApp` with `appendResult = none`
    have hen := handleApp_enabled val (cfgOf voters) hinv.abs hs (Or.inl hc) hsoup'
    have hm : (Spec.apply s (.handleApp n r.term m.index m.logTerm (m.entries.map (absEnt val)) m.commit)).msgs
        = s.msgs := by rw [Spec.apply_msgs]; rfl
    have habs := appReject_abs val hinv.abs hf hc
    obtain ⟨_, _, hl, hnone, hmaa⟩ := hc
    have hnd := handleApp_nodes_none s n r.term m.index m.logTerm (m.entries.map (absEnt val)) m.commit
      (by rw [hinv.abs.log]; exact hnone)
    have hlog : absLog val r' = absLog val r := by unfold absLog; rw [hl]
    refine ⟨[.handleApp n r.term m.index m.logTerm (m.entries.map (absEnt val)) m.commit], _, .single hen,
      by simp [Spec.Action.actor], ?_, by rw [hnd], by rw [hm]; exact fun _ _ _ hx => hx⟩
    rw [hm]
    refine app_inv_build hinv habs hst' (by rw [hl]; exact hinv.wf) (by rw [hl]; exact hinv.unc) hf.state hf.term
      (by rw [hlog]; exact hinv.logLe) (by rw [hnd]) (by rw [hnd]) (by rw [hnd]) ?_ hmsgs ?_
    · rw [hnd]; exact fun q hq => hq
    · refine app_prom hinv.prom hinv.st.id hr0 (by rw [hnd]) ?_ hmaa (fun h => by cases h)
      rw [hnd]; exact fun q hq => hq
  · -- accepted: `handleApp` with `appendResult = some (absLog val r')`
    have hen := handleApp_enabled val (cfgOf voters) hinv.abs hs (Or.inr hc) hsoup'
    have hm : (Spec.apply s (.handleApp n r.term m.index m.logTerm (m.entries.map (absEnt val)) m.commit)).msgs
        = s.msgs := by rw [Spec.apply_msgs]; rfl
    have habs := appAccept_abs val hinv.abs hf hc
    obtain ⟨_, _, hres, _, _, hwf', hunc', hmaa⟩ := hc
    have hnd := handleApp_nodes_some s n r.term m.index m.logTerm (m.entries.map (absEnt val)) m.commit _
      (by rw [hinv.abs.log]; exact hres)
    refine ⟨[.handleApp n r.term m.index m.logTerm (m.entries.map (absEnt val)) m.commit], _, .single hen,
      by simp [Spec.Action.actor], ?_, by rw [hnd], by rw [hm]; exact fun _ _ _ hx => hx⟩
    rw [hm]
    refine app_inv_build hinv habs hst' hwf' hunc' hf.state hf.term ?_ (by rw [hnd]) (by rw [hnd]) (by rw [hnd])
      ?_ hmsgs ?_
    · intro x hx
      rcases app_appendResult_mem hres x hx with h1 | h1
      · exact hinv.logLe x h1
      · obtain ⟨e0, he0, rfl⟩ := List.mem_map.1 h1
        rw [← hterm]
        exact hle e0 he0
    · rw [hnd]; exact fun q hq => List.mem_cons_of_mem _ hq
    · refine app_prom hinv.prom hinv.st.id hr0 (by rw [hnd]) ?_ hmaa ?_
      · rw [hnd]; exact fun q hq => List.mem_cons_of_mem _ hq
      · intro _
        rw [hnd]
        show (r.term, m.index + m.entries.length) ∈
          (r.term, m.index + (m.entries.map (absEnt val)).length) :: (s.nodes n).vol.acks
        rw [List.length_map]
        exact List.mem_cons_self

/-- **MsgApp at the node's own term**, exposing the durable frame (`hreach` is not used) -/
theorem simD_app_same {val : Val} {voters : List Id} {n : Nat} {s : Spec.State} {r r' : Raft} {m : Message}
    {e : Option StepErr} {fuel : Nat} (hinv : RaftInv val voters n r (s.nodes n) s.msgs)
    (_hreach : Spec.Reachable (cfgOf voters) s)
    (ht : m.typ = .app) (hterm : m.term = r.term) (hin : NetOK val s.msgs m)
    (h : (Raft.step (fuel + 1) m).run r = .ok (e, r')) : RaftSimD val voters n s r' := by
  by_cases hs : r.state = .leader
  · rw [app_leader_ignored ht hterm hs h]
    exact RaftSimD.refl hinv
  · exact simD_app_nonleader hinv ht hterm hin hs h

end RaftVerif.Sim
