import RaftVerif.Proofs.RawInv
import RaftVerif.Props.C07Ready
import RaftVerif.Props.C18
/-!
# Proofs/RawSync — C05 in the Ready/Advance (synchronous) interface

"Every promise becomes sendable only after the state it promises is on stable storage."

In sync mode (`rn.async = false`) the promises of a `Ready` (`rd.messages`) may be sent only after the
application has persisted the same `Ready`.  `persistReady` is that write (snapshot, entries, hard state, into
the `MemoryStorage`).  The theorems say that the storage *after* the write backs every promise of `rd.messages`:

* `persistReady_succeeds` — the write does not fail;
* `persistReady_abs` — after the write the storage holds exactly the node's log (same abstract log);
* `sync_ready_covers_promises` — every non-reject MsgAppResp / MsgVoteResp of the `Ready` is covered by the
  stored term / vote / entries (or carries a term below the stored one); `sync_pending_covered`: so are the
  self-addressed ones kept for `Advance`.

Continued in `Proofs/RawSync2.lean`:

* `sync_mustSync_when_backing_new` — `MustSync` is set whenever a current-term promise is backed by entries or
  a (term, vote) not yet handed out; **not** when it is backed by a pending snapshot (`sync_snapshot_no_mustSync`);
* `sync_self_acks_deferred` — self-addressed acknowledgements are not in `rd.messages`; they are the prefix of
  `stepsOnAdvance`, stepped only by `Advance`; `sync_self_acks_covered`.
-/
namespace RaftVerif.Raw
open RaftVerif Raft RawNode Next

/-! ## what the application does with a `Ready` -/

/-- save the hard state of a `Ready` (Go idiom: `if !IsEmptyHardState(rd.HardState) { SetHardState }`) -/
def persistHard (ms : MemoryStorage) (oh : Option HardState) : MemoryStorage :=
  match oh with
  | some h => if h.isEmpty then ms else ms.setHardState h
  | none => ms

/-- install the snapshot of a `Ready` (Go idiom: `if !IsEmptySnap(rd.Snapshot) { ApplySnapshot }`); a refusal
(`ErrSnapOutOfDate`) is a failure of the write -/
def persistSnap (ms : MemoryStorage) (os : Option Snapshot) : P MemoryStorage :=
  match os with
  | some s =>
    if s.index == 0 then pure ms
    else match ms.applySnapshot s with
      | .ok ms' => pure ms'
      | .error e => throw s!"ApplySnapshot: {e.toString}"
  | none => pure ms

/-- **the write of a `Ready`**: snapshot (if any), then entries, then hard state (if any) -/
def persistReady (ms : MemoryStorage) (rd : Ready) : P MemoryStorage := do
  let ms1 ← persistSnap ms rd.snapshot
  let ms2 ← ms1.append rd.entries
  pure (persistHard ms2 rd.hardState)

/-- term / vote a restart would load from the storage (`none`: Go's zero `HardState`, `newRaft` starts at
term 0 without vote) -/
def persistTerm (ms : MemoryStorage) : Nat := match ms.hardState with | some h => h.term | none => 0
def persistVote (ms : MemoryStorage) : Nat := match ms.hardState with | some h => h.vote | none => 0

/-- **what was handed out before is in storage**: if unstable entries are in progress (handed out by an earlier
`Ready` and not yet acknowledged — possible in sync mode when `Step` is called between `Ready` and `Advance`
and truncates the log, so that the acknowledgement no longer matches) then no snapshot is pending and the
storage holds them at their indexes, ending there if they are all of the unstable entries
(`RaftLog.StorageHolds`).  Trivially true when nothing is in progress (`offsetInProgress ≤ offset`). -/
def sync_EntsStored (l : RaftLog) : Prop :=
  l.unstable.offset < l.unstable.offsetInProgress →
    l.unstable.snapshot = none ∧ l.StorageHolds (l.unstable.offsetInProgress - 1)

instance (l : RaftLog) : Decidable (sync_EntsStored l) := by unfold sync_EntsStored; infer_instance

theorem sync_EntsStored.of_idle {l : RaftLog} (h : l.unstable.offsetInProgress ≤ l.unstable.offset) :
    sync_EntsStored l := fun h' => absurd h (by omega)

/-- **the storage is up to date with what the node handed out so far** (sync mode: every earlier `Ready` was
persisted before its `Advance`): the stored term and vote are those of the last `HardState` handed out; the
unstable entries in progress, if any, are stored (`sync_EntsStored` — after an `Advance` that directly follows
its `Ready`, `stableTo` has cleared the in-progress marker and nothing is in progress); no snapshot is in
progress (`stableSnapTo` at `Advance`); a pending snapshot is a real one (`restore` only installs
`index > committed`). -/
structure sync_Stable (rn : RawNode) : Prop where
  term : persistTerm rn.raft.log.storage = rn.prevHard.term
  vote : persistVote rn.raft.log.storage = rn.prevHard.vote
  entsStored : sync_EntsStored rn.raft.log
  snapIdle : rn.raft.log.unstable.snapshotInProgress = false
  snapPos : ∀ s, rn.raft.log.unstable.snapshot = some s → s.index ≠ 0

instance (rn : RawNode) : Decidable (sync_Stable rn) :=
  have : Decidable (∀ s, rn.raft.log.unstable.snapshot = some s → s.index ≠ 0) := by
    cases rn.raft.log.unstable.snapshot with
    | none => exact isTrue (by simp)
    | some s => exact decidable_of_iff (s.index ≠ 0) (by simp)
  decidable_of_iff
    (persistTerm rn.raft.log.storage = rn.prevHard.term ∧ persistVote rn.raft.log.storage = rn.prevHard.vote ∧
      sync_EntsStored rn.raft.log ∧
      rn.raft.log.unstable.snapshotInProgress = false ∧
      ∀ s, rn.raft.log.unstable.snapshot = some s → s.index ≠ 0)
    ⟨fun ⟨a, b, c, d, e⟩ => ⟨a, b, c, d, e⟩, fun ⟨a, b, c, d, e⟩ => ⟨a, b, c, d, e⟩⟩

/-- the snapshot of the `Ready` can be installed: the stored one is older -/
def sync_SnapFresh (l : RaftLog) : Prop :=
  ∀ s, l.unstable.snapshot = some s → ¬(l.storage.snapshot.index ≠ 0 ∧ s.index ≤ l.storage.snapshot.index)

/-! ## the storage after the write holds the node's log -/

/-- `Append` of a contiguous run that starts inside or right after the stored log: truncate there, extend -/
theorem persist_storeAppend {a : ALog} {n : Nat} {es : List Entry} (hc : Contig n es) (hb : a.base < n)
    (hl : n ≤ a.last + 1) :
    a.storeAppend es = .ok (if es.isEmpty then a else (a.truncateFrom n).extend es) := by
  have hf : es.filter (fun e => decide (a.base < e.index)) = es := by
    rw [List.filter_eq_self]
    intro e he
    have := (hc.mem he).1
    simp; omega
  unfold ALog.storeAppend
  rw [hf]
  cases es with
  | nil => rfl
  | cons f0 rest =>
    have h0 : f0.index = n := hc.head_index
    simp only [ALog.overwrite, h0]
    rw [if_neg (by omega)]
    rfl

/-- `Append` touches neither the hard state nor the snapshot -/
theorem persist_append_frame {ms ms' : MemoryStorage} {es : List Entry} (h : ms.append es = .ok ms') :
    ms'.hardState = ms.hardState ∧ ms'.snapshot = ms.snapshot := by
  unfold MemoryStorage.append at h
  split at h
  · cases h; exact ⟨rfl, rfl⟩
  · simp only at h
    split at h
    · cases h; exact ⟨rfl, rfl⟩
    · split at h
      · cases h; exact ⟨rfl, rfl⟩
      · split at h
        · cases h; exact ⟨rfl, rfl⟩
        · split at h
          · cases h; exact ⟨rfl, rfl⟩
          · cases h

/-- **log level**: install the pending snapshot (if any) and append *all* unstable entries: the storage
then holds exactly the log of the node — same abstract log (base, base term, entries) -/
theorem persist_log_abs {l : RaftLog} (h : l.WF) (hsp : ∀ s, l.unstable.snapshot = some s → s.index ≠ 0)
    {ms1 ms2 : MemoryStorage} (h1 : persistSnap l.storage l.unstable.snapshot = .ok ms1)
    (h2 : ms1.append l.unstable.entries = .ok ms2) :
    ms2.WF ∧ ms2.abs = l.abs ∧ ms2.hardState = l.storage.hardState := by
  have hc := h.unstable.contig
  have hso := h.snapOK
  have hus := h.unstable.snap
  unfold RaftLog.SnapOK at hso
  cases hsn : l.unstable.snapshot with
  | none =>
    rw [hsn] at h1 hso
    simp only [persistSnap, pure, Except.pure] at h1
    cases h1
    obtain ⟨ha, hb, hc', _⟩ := hso
    have hli := MemoryStorage.lastIndex_abs h.storage
    have habs := MemoryStorage.append_abs h.storage hc
    rw [h2, persist_storeAppend hc (by rw [MemoryStorage.abs_base]; exact ha) (by rw [← hli]; exact hb)] at habs
    simp only [Except.map] at habs
    injection habs with habs
    refine ⟨MemoryStorage.append_wf h.storage hc h2, ?_, (persist_append_frame h2).1⟩
    rw [habs]
    unfold RaftLog.abs
    rw [hsn]
    cases he : l.unstable.entries with
    | nil =>
      have hoff := hc' he
      rw [hli] at hoff
      simp only [ALog.last, MemoryStorage.abs_base] at hoff
      simp only [List.isEmpty_nil, if_true, ALog.truncateFrom, ALog.extend, List.append_nil]
      rw [List.take_of_length_le (by simp only [MemoryStorage.abs_base]; omega)]
    | cons e0 rest => simp
  | some s =>
    rw [hsn] at h1 hus
    simp only at hus
    have hs0 := hsp s hsn
    simp only [persistSnap] at h1
    rw [if_neg (by simpa using hs0)] at h1
    rcases MemoryStorage.applySnapshot_spec l.storage s with ⟨_, herr⟩ | ⟨_, m, hm, hwf, hab, _, hhs⟩
    · rw [herr] at h1; cases h1
    · rw [hm] at h1
      simp only [pure, Except.pure] at h1
      cases h1
      have habs := MemoryStorage.append_abs hwf hc
      rw [h2, persist_storeAppend hc (by rw [hab]; simp only; omega) (by rw [hab]; simp only [ALog.last]; omega)] at habs
      simp only [Except.map] at habs
      injection habs with habs
      refine ⟨MemoryStorage.append_wf hwf hc h2, ?_, (persist_append_frame h2).1.trans hhs⟩
      rw [habs, hab]
      unfold RaftLog.abs
      rw [hsn]
      cases he : l.unstable.entries with
      | nil => simp
      | cons e0 rest => simp [ALog.truncateFrom, ALog.extend]

/-- the stored run of in-progress entries: the first `k = offsetInProgress - offset` unstable entries are the
storage's entries from `unstable.offset` on -/
theorem persist_inprogress_segment {l : RaftLog} (h : l.WF) (hsn : l.unstable.snapshot = none)
    (hold : ∀ e ∈ l.unstable.entries, e.index ≤ l.unstable.offsetInProgress - 1 →
      l.storage.abs.entry? e.index = some e) :
    (l.storage.abs.ents.drop (l.unstable.offset - (l.storage.offset + 1))).take
        (l.unstable.offsetInProgress - l.unstable.offset) =
      l.unstable.entries.take (l.unstable.offsetInProgress - l.unstable.offset) := by
  have hso := h.snapOK
  unfold RaftLog.SnapOK at hso
  rw [hsn] at hso
  obtain ⟨ha, _, _, _⟩ := hso
  have hhi := h.unstable.inProgHi
  apply List.ext_getElem?
  intro i
  rw [List.getElem?_take, List.getElem?_take]
  split
  · rename_i hi
    have hlt : i < l.unstable.entries.length := by omega
    have hci := h.unstable.contig i hlt
    have := hold _ (List.getElem_mem hlt) (by omega)
    unfold ALog.entry? at this
    rw [MemoryStorage.abs_base, if_pos (by omega), hci] at this
    rw [List.getElem?_drop, List.getElem?_eq_getElem hlt, ← this]
    congr 1; omega
  · rfl

/-- **log level, general**: the pending snapshot (if any) is installed and the unstable entries *not yet in
progress* are appended, while those in progress are already stored (`sync_EntsStored`): the storage then holds
exactly the log of the node -/
theorem persist_log_abs_gen {l : RaftLog} (h : l.WF) (hsp : ∀ s, l.unstable.snapshot = some s → s.index ≠ 0)
    (hes : sync_EntsStored l) {ms1 ms2 : MemoryStorage}
    (h1 : persistSnap l.storage l.unstable.snapshot = .ok ms1)
    (h2 : ms1.append (l.unstable.entries.drop (l.unstable.offsetInProgress - l.unstable.offset)) = .ok ms2) :
    ms2.WF ∧ ms2.abs = l.abs ∧ ms2.hardState = l.storage.hardState := by
  by_cases hk : l.unstable.offsetInProgress ≤ l.unstable.offset
  · have : l.unstable.offsetInProgress - l.unstable.offset = 0 := by omega
    rw [this, List.drop_zero] at h2
    exact persist_log_abs h hsp h1 h2
  · obtain ⟨hsn, hold, hend⟩ := hes (by omega)
    have hseg := persist_inprogress_segment h hsn hold
    have hc := h.unstable.contig
    have hhi := h.unstable.inProgHi
    have hso := h.snapOK
    unfold RaftLog.SnapOK at hso
    rw [hsn] at hso h1
    obtain ⟨ha, hb, _, _⟩ := hso
    simp only [persistSnap, pure, Except.pure] at h1
    cases h1
    have hli := MemoryStorage.lastIndex_abs h.storage
    simp only [ALog.last, MemoryStorage.abs_base] at hli
    -- the last in-progress entry is stored, so storage reaches `offsetInProgress - 1`
    have hreach : l.unstable.offsetInProgress ≤ l.storage.lastIndex + 1 := by
      have hlt : l.unstable.offsetInProgress - l.unstable.offset - 1 < l.unstable.entries.length := by omega
      have hci := hc _ hlt
      have hs := hold _ (List.getElem_mem hlt) (by omega)
      have := (ALog.entry?_isSome_iff l.storage.abs _).mp (by rw [hs]; rfl)
      simp only [ALog.last, MemoryStorage.abs_base] at this
      omega
    have hcd := hc.drop (l.unstable.offsetInProgress - l.unstable.offset)
    have eoip : l.unstable.offset + (l.unstable.offsetInProgress - l.unstable.offset) =
        l.unstable.offsetInProgress := by omega
    rw [eoip] at hcd
    have habs := MemoryStorage.append_abs h.storage hcd
    rw [h2, persist_storeAppend hcd (by rw [MemoryStorage.abs_base]; omega)
      (by simp only [ALog.last, MemoryStorage.abs_base]; omega)] at habs
    simp only [Except.map] at habs
    injection habs with habs
    refine ⟨MemoryStorage.append_wf h.storage hcd h2, ?_, (persist_append_frame h2).1⟩
    rw [habs]
    unfold RaftLog.abs
    rw [hsn]
    simp only [ALog.truncateFrom, ALog.extend, MemoryStorage.abs_base]
    have ej : l.unstable.offsetInProgress - (l.storage.offset + 1) =
        (l.unstable.offset - (l.storage.offset + 1)) + (l.unstable.offsetInProgress - l.unstable.offset) := by
      omega
    split
    · -- everything is in progress: nothing to append, storage ends at `offsetInProgress - 1`
      rename_i hemp
      have hlen : l.unstable.entries.length ≤ l.unstable.offsetInProgress - l.unstable.offset := by
        have := List.drop_eq_nil_iff.mp (List.isEmpty_iff.mp hemp)
        exact this
      have hnext : l.unstable.offsetInProgress - 1 + 1 = l.unstable.next := by
        unfold Unstable.next; omega
      have hl := hend hnext
      have hdl : (l.storage.abs.ents.drop (l.unstable.offset - (l.storage.offset + 1))).length =
          l.unstable.offsetInProgress - l.unstable.offset := by
        rw [List.length_drop]; omega
      rw [List.take_of_length_le (by omega), List.take_of_length_le (by omega)] at hseg
      rw [← hseg, List.take_append_drop]
      rfl
    · rw [ej, List.take_add, hseg, List.append_assoc, List.take_append_drop]

/-! ## from the log to the `Ready` -/

theorem persistHard_ents (ms : MemoryStorage) (oh : Option HardState) : (persistHard ms oh).ents = ms.ents := by
  unfold persistHard
  split
  · split <;> rfl
  · rfl

theorem persistHard_abs (ms : MemoryStorage) (oh : Option HardState) : (persistHard ms oh).abs = ms.abs := by
  simp only [MemoryStorage.abs, MemoryStorage.offset, MemoryStorage.dummyTerm, persistHard_ents]

theorem persistHard_wf {ms : MemoryStorage} (oh : Option HardState) (h : ms.WF) : (persistHard ms oh).WF := by
  unfold MemoryStorage.WF MemoryStorage.offset at *
  rw [persistHard_ents]; exact h

theorem persistHard_lastIndex (ms : MemoryStorage) (oh : Option HardState) :
    (persistHard ms oh).lastIndex = ms.lastIndex := by
  simp only [MemoryStorage.lastIndex, MemoryStorage.offset, persistHard_ents]

/-- the three sub-steps of the write -/
theorem persistReady_ok_iff (ms ms' : MemoryStorage) (rd : Ready) :
    persistReady ms rd = .ok ms' ↔
      ∃ ms1 ms2, persistSnap ms rd.snapshot = .ok ms1 ∧ ms1.append rd.entries = .ok ms2 ∧
        ms' = persistHard ms2 rd.hardState := by
  unfold persistReady
  simp only [bind, Except.bind, pure, Except.pure]
  constructor
  · intro h
    split at h
    · cases h
    · rename_i ms1 h1
      split at h
      · cases h
      · rename_i ms2 h2
        cases h
        exact ⟨ms1, ms2, h1, h2, rfl⟩
  · rintro ⟨ms1, ms2, h1, h2, rfl⟩
    rw [h1]; simp only; rw [h2]

/-- the `Ready` carries the unstable entries that are not in progress -/
theorem sync_nextUnstableEnts (l : RaftLog) :
    l.nextUnstableEnts = l.unstable.entries.drop (l.unstable.offsetInProgress - l.unstable.offset) := by
  unfold RaftLog.nextUnstableEnts Unstable.nextEntries
  simp only
  split
  · rename_i h0
    have : l.unstable.entries.length = l.unstable.offsetInProgress - l.unstable.offset := by simpa using h0
    rw [List.drop_eq_nil_of_le (by omega)]
  · rfl

/-- where the in-progress marker may be, given that the in-progress entries are stored -/
theorem sync_inprogress_reach {l : RaftLog} (h : l.WF) (hes : sync_EntsStored l) :
    (l.unstable.snapshot = none → l.storage.offset < l.unstable.offsetInProgress ∧
      l.unstable.offsetInProgress ≤ l.storage.lastIndex + 1) ∧
    (l.unstable.snapshot ≠ none → l.unstable.offsetInProgress = l.unstable.offset) := by
  have hlo := h.unstable.inProgLo
  have hhi := h.unstable.inProgHi
  constructor
  · intro hsn
    have hso := h.snapOK
    unfold RaftLog.SnapOK at hso
    rw [hsn] at hso
    obtain ⟨ha, hb, _, _⟩ := hso
    refine ⟨by omega, ?_⟩
    by_cases hk : l.unstable.offsetInProgress ≤ l.unstable.offset
    · omega
    · obtain ⟨_, hold, _⟩ := hes (by omega)
      have hlt : l.unstable.offsetInProgress - l.unstable.offset - 1 < l.unstable.entries.length := by omega
      have hci := h.unstable.contig _ hlt
      have hs := hold _ (List.getElem_mem hlt) (by omega)
      have := (ALog.entry?_isSome_iff l.storage.abs _).mp (by rw [hs]; rfl)
      rw [← MemoryStorage.lastIndex_abs h.storage] at this
      omega
  · intro hsn
    by_cases hk : l.unstable.offsetInProgress ≤ l.unstable.offset
    · omega
    · exact absurd (hes (by omega)).1 hsn

/-- no snapshot in progress: the `Ready` carries the pending snapshot -/
theorem sync_rdSnap (rn : RawNode) (hi : rn.raft.log.unstable.snapshotInProgress = false) :
    rdSnap rn = rn.raft.log.unstable.snapshot := by
  unfold rdSnap RaftLog.hasNextUnstableSnapshot Unstable.nextSnapshot
  simp only [hi, Bool.false_eq_true, ↓reduceIte]
  cases rn.raft.log.unstable.snapshot <;> simp

/-- **after the write of a `Ready` the storage holds exactly the node's log**: same base (compaction point
and its term) and the same entries.  Hence `lastIndex`, `term i` and the entry at every index agree. -/
theorem persistReady_abs (rn : RawNode) (rd : Ready) (hrd : rn.readyWithoutAccept = .ok rd)
    (hwf : rn.raft.log.WF) (hst : sync_Stable rn) {ms' : MemoryStorage}
    (hp : persistReady rn.raft.log.storage rd = .ok ms') :
    ms'.WF ∧ ms'.abs = rn.raft.log.abs := by
  obtain ⟨core, _⟩ := readyWithoutAccept_core rn rd hrd
  obtain ⟨ms1, ms2, h1, h2, rfl⟩ := (persistReady_ok_iff _ _ _).mp hp
  rw [core.snap, sync_rdSnap rn hst.snapIdle] at h1
  rw [core.entries, sync_nextUnstableEnts] at h2
  obtain ⟨hw, ha, _⟩ := persist_log_abs_gen hwf hst.snapPos hst.entsStored h1 h2
  exact ⟨persistHard_wf _ hw, by rw [persistHard_abs, ha]⟩

/-- **after the write the stored term and vote are the node's** (or the node still is at term 0 without vote,
where Go's empty `HardState` is not written) -/
theorem persistReady_hard (rn : RawNode) (rd : Ready) (hrd : rn.readyWithoutAccept = .ok rd)
    (hst : sync_Stable rn) {ms' : MemoryStorage} (hp : persistReady rn.raft.log.storage rd = .ok ms') :
    (persistTerm ms' = rn.raft.term ∧ persistVote ms' = rn.raft.vote) ∨ (rn.raft.term = 0 ∧ rn.raft.vote = 0) := by
  obtain ⟨core, _⟩ := readyWithoutAccept_core rn rd hrd
  obtain ⟨ms1, ms2, h1, h2, rfl⟩ := (persistReady_ok_iff _ _ _).mp hp
  have hh2 : ms2.hardState = rn.raft.log.storage.hardState := by
    have f2 := (persist_append_frame h2).1
    rw [f2]
    unfold persistSnap at h1
    split at h1
    · split at h1
      · cases h1; rfl
      · split at h1
        · rename_i s _ m hm
          cases h1
          unfold MemoryStorage.applySnapshot at hm
          split at hm
          · cases hm
          · cases hm; rfl
        · cases h1
    · cases h1; rfl
  rw [core.hard]
  unfold rdHard
  by_cases heq : hardState rn.raft = rn.prevHard
  · left
    rw [if_neg (by simp [heq])]
    have ht : rn.raft.term = rn.prevHard.term := by rw [← heq]; rfl
    have hv : rn.raft.vote = rn.prevHard.vote := by rw [← heq]; rfl
    simp only [persistHard, persistTerm, persistVote, hh2]
    exact ⟨by rw [ht]; exact hst.term, by rw [hv]; exact hst.vote⟩
  · rw [if_pos (by simpa using heq)]
    cases hem : (hardState rn.raft).isEmpty with
    | true =>
      right
      simp only [HardState.isEmpty, hardState, Bool.and_eq_true, beq_iff_eq] at hem
      exact ⟨hem.1.1, hem.1.2⟩
    | false =>
      left
      simp only [persistHard, hem, Bool.false_eq_true, ↓reduceIte]
      exact ⟨rfl, rfl⟩

/-! ## the write succeeds -/

theorem persist_append_ok {ms : MemoryStorage} (hw : ms.WF) {n : Nat} {es : List Entry} (hc : Contig n es)
    (hb : ms.abs.base < n) (hl : n ≤ ms.abs.last + 1) : ∃ ms2, ms.append es = .ok ms2 := by
  have habs := MemoryStorage.append_abs hw hc
  rw [persist_storeAppend hc hb hl] at habs
  cases hap : ms.append es with
  | ok ms2 => exact ⟨ms2, rfl⟩
  | error e => rw [hap] at habs; cases habs

/-- **the write of a `Ready` never fails** on a well-formed log whose in-progress part is stored, provided the storage
accepts the pending snapshot (it does not already hold a snapshot at least as recent) -/
theorem persistReady_succeeds (rn : RawNode) (rd : Ready) (hrd : rn.readyWithoutAccept = .ok rd)
    (hwf : rn.raft.log.WF) (hst : sync_Stable rn) (hfr : sync_SnapFresh rn.raft.log) :
    ∃ ms', persistReady rn.raft.log.storage rd = .ok ms' := by
  obtain ⟨core, _⟩ := readyWithoutAccept_core rn rd hrd
  have hus := hwf.unstable.snap
  obtain ⟨rnone, rsome⟩ := sync_inprogress_reach hwf hst.entsStored
  have hlo := hwf.unstable.inProgLo
  have hcd := hwf.unstable.contig.drop (rn.raft.log.unstable.offsetInProgress - rn.raft.log.unstable.offset)
  have eoip : rn.raft.log.unstable.offset +
      (rn.raft.log.unstable.offsetInProgress - rn.raft.log.unstable.offset) =
      rn.raft.log.unstable.offsetInProgress := by omega
  rw [eoip] at hcd
  suffices h : ∃ ms1 ms2, persistSnap rn.raft.log.storage rn.raft.log.unstable.snapshot = .ok ms1 ∧
      ms1.append (rn.raft.log.unstable.entries.drop
        (rn.raft.log.unstable.offsetInProgress - rn.raft.log.unstable.offset)) = .ok ms2 by
    obtain ⟨ms1, ms2, h1, h2⟩ := h
    refine ⟨_, (persistReady_ok_iff _ _ _).mpr ⟨ms1, ms2, ?_, ?_, rfl⟩⟩
    · rw [core.snap, sync_rdSnap rn hst.snapIdle]; exact h1
    · rw [core.entries, sync_nextUnstableEnts]; exact h2
  cases hsn : rn.raft.log.unstable.snapshot with
  | none =>
    obtain ⟨ha, hb⟩ := rnone hsn
    have hli := MemoryStorage.lastIndex_abs hwf.storage
    obtain ⟨ms2, h2⟩ := persist_append_ok hwf.storage hcd (by rw [MemoryStorage.abs_base]; exact ha)
      (by rw [← hli]; exact hb)
    exact ⟨_, ms2, rfl, h2⟩
  | some s =>
    rw [hsn] at hus
    simp only at hus
    have hidle := rsome (by rw [hsn]; simp)
    have hs0 := hst.snapPos s hsn
    rcases MemoryStorage.applySnapshot_spec rn.raft.log.storage s with ⟨hbad, _⟩ | ⟨_, m, hm, hw, hab, _, _⟩
    · exact absurd hbad (hfr s hsn)
    · obtain ⟨ms2, h2⟩ := persist_append_ok hw hcd (by rw [hab]; simp only; omega)
        (by rw [hab]; simp only [ALog.last]; omega)
      refine ⟨m, ms2, ?_, h2⟩
      simp only [persistSnap]
      rw [if_neg (by simpa using hs0), hm]
      rfl

/-! ## C05, sync mode: the persisted `Ready` covers its promises -/

/-- the storage after the write answers every log query like the node's log -/
theorem persistReady_queries (rn : RawNode) (rd : Ready) (hrd : rn.readyWithoutAccept = .ok rd)
    (hwf : rn.raft.log.WF) (hst : sync_Stable rn) {ms' : MemoryStorage}
    (hp : persistReady rn.raft.log.storage rd = .ok ms') :
    ms'.firstIndex = rn.raft.log.firstIndex ∧ ms'.lastIndex = rn.raft.log.lastIndex ∧
    (∀ i, ms'.term i = rn.raft.log.term i) ∧ (∀ i, ms'.abs.entry? i = rn.raft.log.abs.entry? i) := by
  obtain ⟨hw, ha⟩ := persistReady_abs rn rd hrd hwf hst hp
  refine ⟨?_, ?_, ?_, ?_⟩
  · rw [MemoryStorage.firstIndex_abs, RaftLog.firstIndex_abs hwf, ha]
  · rw [MemoryStorage.lastIndex_abs hw, RaftLog.lastIndex_abs hwf, ha]
  · intro i; rw [MemoryStorage.term_eq' hw, RaftLog.term_eq' hwf, ha]
  · intro i; rw [ha]

/-- the promise carried by `x` is covered by the storage `ms'` (`l` is the node's log):

* `x` a non-reject MsgAppResp: its term is at most the stored term; if it is the stored term then `x.index` is
  at most the stored last index, the storage holds at `x.index` exactly the entry of the node's log (same
  `entry?`, same answer to `term`), and that answer is a term (`.ok`) unless `x.index` is below the compaction
  point of the node's log;
* `x` a non-reject MsgVoteResp: its term is at most the stored term; if it is the stored term then the vote
  went to the stored vote (or the message is addressed to nobody).

(A promise with a lower term than the stored one is the other disjunct of C05: "the sender has durably moved to
a higher term than the message carries".) -/
def sync_Covered (l : RaftLog) (ms' : MemoryStorage) (x : Message) : Prop :=
  (PendApp x → x.term ≤ persistTerm ms' ∧ (x.term = persistTerm ms' →
    x.index ≤ ms'.lastIndex ∧ ms'.term x.index = l.term x.index ∧
    ms'.abs.entry? x.index = l.abs.entry? x.index ∧
    (l.firstIndex ≤ x.index + 1 → ∃ t, ms'.term x.index = .ok t ∧ l.term x.index = .ok t))) ∧
  (PendVote x → x.term ≤ persistTerm ms' ∧ (x.term = persistTerm ms' → x.to = persistVote ms' ∨ x.to = 0))

/-- every pending promise (`msgsAfterAppend`, whether addressed to a peer or to the node itself) is covered
by the storage after the write of the `Ready`; either storage mode -/
theorem sync_pending_covered (rn : RawNode) (rd : Ready)
    (hrd : rn.readyWithoutAccept = .ok rd) (hinv : PromisesWithinLog rn.raft)
    (hwf : rn.raft.log.WF) (hst : sync_Stable rn) {ms' : MemoryStorage}
    (hp : persistReady rn.raft.log.storage rd = .ok ms') :
    ∀ x ∈ rn.raft.msgsAfterAppend, sync_Covered rn.raft.log ms' x := by
  intro x hx'
  obtain ⟨hfi, hli, hterm, hent⟩ := persistReady_queries rn rd hrd hwf hst hp
  have hhard := persistReady_hard rn rd hrd hst hp
  constructor
  · intro hpa
    obtain ⟨h1, h2⟩ := hinv.app x hx' hpa
    have hle : x.term ≤ persistTerm ms' := by rcases hhard with ⟨e, _⟩ | ⟨e, _⟩ <;> omega
    refine ⟨hle, fun heq => ?_⟩
    have hcur : x.term = rn.raft.term := by rcases hhard with ⟨e, _⟩ | ⟨e, _⟩ <;> omega
    have hidx := h2 hcur
    refine ⟨by rw [hli]; exact hidx, hterm _, hent _, fun hlo => ?_⟩
    have hmid : rn.raft.log.term x.index = .ok ((rn.raft.log.abs.term? x.index).getD 0) := by
      rw [RaftLog.term_eq' hwf]
      apply ALog.termResult_of_mid
      · rw [RaftLog.firstIndex_abs hwf] at hlo; unfold ALog.first at hlo; omega
      · rw [← RaftLog.lastIndex_abs hwf]; exact hidx
    exact ⟨_, by rw [hterm, hmid], hmid⟩
  · intro hpv
    obtain ⟨h1, h2⟩ := hinv.vote x hx' hpv
    have hle : x.term ≤ persistTerm ms' := by rcases hhard with ⟨e, _⟩ | ⟨e, _⟩ <;> omega
    refine ⟨hle, fun heq => ?_⟩
    have hcur : x.term = rn.raft.term := by rcases hhard with ⟨e, _⟩ | ⟨e, _⟩ <;> omega
    rcases hhard with ⟨_, ev⟩ | ⟨_, ev⟩
    · rw [ev]; exact h2 hcur
    · rcases h2 hcur with h | h
      · right; omega
      · right; exact h

/-- **C05 (Ready/Advance interface)**.  Sync mode, a node satisfying the promise invariant, a well-formed log,
the storage up to date with what was handed out before (`sync_Stable`).  Let `ms'` be the storage after the
application wrote this `Ready` (`persistReady`).  Then every message of `rd.messages` is covered by `ms'`
(`sync_Covered`): the messages of a `Ready` may be sent once the `Ready` is persisted. -/
theorem sync_ready_covers_promises (rn : RawNode) (rd : Ready) (ha : rn.async = false)
    (hrd : rn.readyWithoutAccept = .ok rd) (hinv : PromisesWithinLog rn.raft)
    (hwf : rn.raft.log.WF) (hst : sync_Stable rn) {ms' : MemoryStorage}
    (hp : persistReady rn.raft.log.storage rd = .ok ms') :
    ∀ x ∈ rd.messages, sync_Covered rn.raft.log ms' x := by
  intro x hx
  rw [C07R.sync_ready_messages rn rd ha hrd, List.mem_append] at hx
  rcases hx with hx | hx
  · -- `msgs` holds no promise
    have hnp := hinv.msgs x hx
    constructor
    · rintro ⟨ht, _⟩; rw [ht] at hnp; cases hnp
    · rintro ⟨ht, _⟩; rw [ht] at hnp; cases hnp
  · exact sync_pending_covered rn rd hrd hinv hwf hst hp x (List.mem_filter.mp hx).1

/-! ## self-addressed acknowledgements wait for `Advance` -/
section SelfAcks
open Live

theorem sync_storageAppendResp_shape (r : Raft) (rd : Ready) (m : Message)
    (h : RawNode.newStorageAppendRespMsg r rd = .ok m) : m.typ = .storageAppendResp ∧ m.to = r.cfg.id := by
  unfold RawNode.newStorageAppendRespMsg at h
  simp only [bind, Except.bind, pure, Except.pure] at h
  split at h
  · split at h
    · cases h
    · cases h
      split <;> exact ⟨rfl, rfl⟩
  · cases h
    split <;> exact ⟨rfl, rfl⟩

end SelfAcks

end RaftVerif.Raw
