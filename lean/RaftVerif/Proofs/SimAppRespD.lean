import RaftVerif.Proofs.SimAppResp
import RaftVerif.Proofs.SimDur
/-!
# Proofs/SimAppRespD — `SimAppResp` with the durable frame exposed (`RaftSimD`)

Copies of the Spec-side helpers of `Proofs/SimAppResp.lean` (`sim_commitAt`, `sim_sends`, `sim_appResp_leader_ack`,
`sim_appResp_leader_reject`, `sim_appResp_same`) that also expose: the node's durable version is untouched and no vote
request of `n` appeared (`leaderCommit` changes only `vol.commit` / `committed`; `sendApp` only adds a `Msg.app`).
-/
namespace RaftVerif.Sim
open Refine
open Raft
set_option linter.unusedSimpArgs false
set_option linter.unusedVariables false

/-- **the leader's `maybeCommit` that advances the commit index** is Spec `leaderCommit` -/
theorem simD_commitAt {val : Val} {voters : List Id} {n : Nat} {s : Spec.State} {a : Raft} {idx : Nat}
    (hinv : RaftInv val voters n a (s.nodes n) s.msgs) (hl : a.state = .leader)
    (hq : a.trk.committed = some idx) (h1 : a.log.committed < idx) (h2 : idx ≤ a.log.lastIndex)
    (h3 : a.log.term idx = .ok a.term) : RaftSimD val voters n s (Next.committedAt a idx) := by
  have hta : (absLog val a).termAt idx = some a.term := (term_ok_iff_termAt val hinv.wf hinv.unc _ _).1 h3
  have hen : Spec.enabled (cfgOf voters) s (.leaderCommit n idx (ackedBy a idx)) := by
    refine ⟨by rw [hinv.abs.role, hl]; rfl, by rw [hinv.abs.commit]; exact h1,
      by rw [hinv.abs.log, hinv.abs.term]; exact hta, ackedBy_quorum hinv.st hq (by omega), ?_⟩
    intro v hv
    obtain ⟨_, pr, hg, hc⟩ := mem_ackedBy.1 hv
    rw [hinv.abs.term]
    by_cases hvn : v = n
    · subst hvn
      exact Or.inl ⟨rfl, hinv.matchS hl pr idx hg hc hta⟩
    · exact Or.inr (hinv.matchO hl v pr idx hvn hg (by omega) hc)
  refine ⟨[.leaderCommit n idx (ackedBy a idx)], _, .single hen, by simp [Spec.Action.actor], ?_,
    by rw [leaderCommit_nodes], fun _ _ _ hx => hx⟩
  have hm : (Spec.apply s (.leaderCommit n idx (ackedBy a idx))).msgs = s.msgs := rfl
  rw [hm, leaderCommit_nodes]
  exact {
    abs := ⟨hinv.abs.term, hinv.abs.vote, rfl, hinv.abs.log, hinv.abs.role⟩
    st := hinv.st.congr rfl rfl rfl rfl rfl rfl
    wf := wf_commit hinv.wf (Nat.le_of_lt h1) h2
    unc := hinv.unc.of_abs rfl rfl
    leadInv := hinv.leadInv
    candVote := hinv.candVote
    termPos := hinv.termPos
    logLe := hinv.logLe
    candLt := hinv.candLt
    pend := hinv.pend
    durV := hinv.durV
    durA := hinv.durA
    out := hinv.out
    prom := hinv.prom
    rvTerm := hinv.rvTerm
    rvCov := hinv.rvCov
    votes := hinv.votes
    selfVote := hinv.selfVote
    matchO := hinv.matchO
    matchS := hinv.matchS }

/-- **a leader that only sends** (`Sends`) is simulated by one Spec `sendApp` per queued MsgApp -/
theorem simD_sends {val : Val} {voters : List Id} {n : Nat} {s : Spec.State} {a r' : Raft}
    (hinv : RaftInv val voters n a (s.nodes n) s.msgs) (hl : a.state = .leader) (hs : Sends val a r') :
    RaftSimD val voters n s r' := by
  obtain ⟨added, hmsgs, hadd⟩ := hs.out
  obtain ⟨as, s', hrun, hact, hnodes, hsub, hrv, hnew⟩ :=
    run_sendApps (voters := voters) (n := n) hl added hadd s hinv.abs
  refine ⟨as, s', hrun, hact, ?_, by rw [hnodes], fun t lt li => hrv t n lt li⟩
  rw [hnodes]
  have hi := hinv.frame hsub (fun t lt li => hrv t n lt li)
  have sf := hs.sf
  have hlog : absLog val r' = absLog val a := by unfold absLog; rw [sf.log]
  have hst' : r'.state = .leader := sf.state.trans hl
  have hnc : r'.state ≠ .candidate := by rw [hst']; simp
  have htp : a.term ≠ 0 := hinv.termPos (by rw [hl]; simp)
  exact {
    abs := hi.abs.congr sf.term sf.vote sf.log (by rw [sf.state])
    st := {
      id := by rw [sf.cfg]; exact hi.st.id
      idnz := hi.st.idnz
      pv := by rw [sf.cfg]; exact hi.st.pv
      xfer := sf.leadTransferee.trans hi.st.xfer
      pri := sf.pendingReadIndexMessages.trans hi.st.pri
      ro := by rw [sf.readOnly]; exact hi.st.ro
      tvoters := by rw [sf.trkCfg]; exact hi.st.tvoters
      tout := by rw [sf.trkCfg]; exact hi.st.tout
      tauto := by rw [sf.trkCfg]; exact hi.st.tauto
      prog := fun v => by rw [prKeep_isSome hs.pk]; exact hi.st.prog v
      nolearn := fun v pr' hp => by
        obtain ⟨pr, hg, _, e⟩ := prKeep_back hs.pk hp
        rw [e]; exact hi.st.nolearn v pr hg
      self := hi.st.self }
    wf := by rw [sf.log]; exact hi.wf
    unc := by rw [sf.log]; exact hi.unc
    leadInv := by rw [sf.state, sf.lead, sf.vote]; exact hi.leadInv
    candVote := fun hc => absurd hc hnc
    termPos := by rw [sf.state, sf.term]; exact hi.termPos
    logLe := by rw [hlog, sf.term]; exact hi.logLe
    candLt := fun hc => absurd hc hnc
    pend := hi.pend
    durV := hi.durV
    durA := hi.durA
    out := by
      intro x hx
      rw [hmsgs] at hx
      rcases List.mem_append.1 hx with hx | hx
      · exact hi.out x hx
      · rcases hadd x hx with h | h | h
        · unfold NetOK; simp only [h]
        · unfold NetOK; simp only [h]
        · exact sendAppOK_netOK h htp hinv.logLe (hnew x hx h)
    prom := by rw [hs.maa]; exact hi.prom
    rvTerm := by rw [sf.term]; exact hi.rvTerm
    rvCov := fun hc => absurd hc hnc
    votes := fun hc => absurd hc hnc
    selfVote := fun hc => absurd hc hnc
    matchO := by
      intro _ v pr' c hv hp h0 hc
      obtain ⟨pr, hg, e, _⟩ := prKeep_back hs.pk hp
      rw [sf.term]
      exact hi.matchO hl v pr c hv hg h0 (by rw [← e]; exact hc)
    matchS := by
      intro _ pr' c hp hc hta
      obtain ⟨pr, hg, e, _⟩ := prKeep_back hs.pk hp
      rw [sf.term]
      rw [hlog, sf.term] at hta
      exact hi.matchS hl pr c hg (by rw [← e]; exact hc) hta }

/-- **leader, acknowledging MsgAppResp from a tracked peer** -/
theorem simD_appResp_leader_ack {val : Val} {voters : List Id} {n : Nat} {s : Spec.State} {r r' : Raft}
    {m : Message} {e : Option StepErr} {fuel : Nat} (hinv : RaftInv val voters n r (s.nodes n) s.msgs)
    (hl : r.state = .leader) (ht : m.typ = .appResp) (hterm : m.term = r.term)
    (hin : InOK val n (s.nodes n) s.msgs m) (hrej : m.reject = false) {pr : Progress}
    (hg : r.trk.getProgress m.from = some pr) (h : (stepLeader fuel m).run r = .ok (e, r')) :
    RaftSimD val voters n s r' := by
  unfold InOK at hin
  simp only [ht] at hin
  have hack := hin.2 hrej
  obtain ⟨hl1, hm1⟩ := ackUpd_facts pr m.index
  by_cases hc : Live.ackCond pr m.index
  · obtain ⟨b, mid, hmc, hsp⟩ := stepLeader_appResp_ack_sends val fuel m r r' e pr ht hg hrej hc h
    obtain ⟨k1, _, k3⟩ := Live.ackTransition_keeps (Live.ackUpd pr m.index).1 r.log.firstIndex m.index
    have hinvMid : RaftInv val voters n (Live.ackMid r m pr) (s.nodes n) s.msgs :=
      hinv.ack hg hterm (k3.trans hl1) (by rw [k1]; exact hm1) hack
    have hlm : (Live.ackMid r m pr).state = .leader := hl
    rcases (Next.maybeCommit_exact _).elim hmc with ⟨_, rfl⟩ | ⟨_, idx, h1, h2, h3, h4, _, rfl⟩
    · exact simD_sends hinvMid hlm (hsp hinvMid.wf hinvMid.unc hinvMid.st.pri)
    · obtain ⟨as, s1, hrun, hact, hinv1, hd1, hrv1⟩ := simD_commitAt hinvMid hlm h1 h2 h3 h4
      exact RaftSimD.trans hrun hact hd1 hrv1 (simD_sends hinv1 hlm (hsp hinv1.wf hinv1.unc hinv1.st.pri))
  · have := (Live.stepLeader_appResp_ack_inv fuel m r r' e pr ht hg hrej h).2.2 hc
    subst this
    exact RaftSimD.refl (hinv.ack hg hterm hl1 hm1 hack)

/-- **leader, rejecting MsgAppResp from a tracked peer**: `Match` is untouched, at most one MsgApp is sent -/
theorem simD_appResp_leader_reject {val : Val} {voters : List Id} {n : Nat} {s : Spec.State} {r r' : Raft}
    {m : Message} {e : Option StepErr} {fuel : Nat} (hinv : RaftInv val voters n r (s.nodes n) s.msgs)
    (hl : r.state = .leader) (ht : m.typ = .appResp) (hrej : m.reject = true) {pr : Progress}
    (hg : r.trk.getProgress m.from = some pr) (h : (stepLeader fuel m).run r = .ok (e, r')) :
    RaftSimD val voters n s r' := by
  rw [Live.stepLeader_appResp_reject_run fuel m r pr ht hg hrej] at h
  split at h
  · obtain ⟨p, hp, h⟩ := bind_eq_ok.1 h
    injection h with h; injection h with _ h; subst h
    obtain ⟨b, s1⟩ := p
    obtain ⟨f1, f2⟩ := afterReject_facts pr m.index (Live.probeHint r m)
    have hinv1 := hinv.setPr (X := Live.afterReject pr m.index (Live.probeHint r m)) hg f1
      (fun _ c _ h1 h2 => by omega) (fun _ c h1 h2 _ => by omega)
    exact simD_sends hinv1 hl ((maybeSendAppend_sends val m.from true _ hinv1.wf hinv1.unc).elim hp)
  · injection h with h; injection h with _ h; subst h
    exact RaftSimD.refl (hinv.setPr (X := { pr with recentActive := true }) hg rfl
      (fun _ c _ h1 h2 => by simp only at h2; omega) (fun _ c h1 h2 _ => by simp only at h2; omega))

/-- **MsgAppResp at the node's own term** (from the network, or the leader's own acknowledgement replayed by
`Advance`): ignored by a non-leader and by a leader that does not track the sender; at a leader an acknowledgement
may move `Match` of the sender (no Spec action), `maybeCommit` is Spec `leaderCommit n c (ackedBy · c)`, and every
MsgApp queued is a Spec `sendApp`; a rejection queues at most one MsgApp (Spec `sendApp`).
No extra hypothesis (`hreach` is not used). -/
theorem simD_appResp_same {val : Val} {voters : List Id} {n : Nat} {s : Spec.State} {r r' : Raft} {m : Message}
    {e : Option StepErr} {fuel : Nat} (hinv : RaftInv val voters n r (s.nodes n) s.msgs)
    (hreach : Spec.Reachable (cfgOf voters) s)
    (ht : m.typ = .appResp) (hterm : m.term = r.term) (hin : InOK val n (s.nodes n) s.msgs m)
    (h : (Raft.step (fuel + 1) m).run r = .ok (e, r')) : RaftSimD val voters n s r' := by
  by_cases hl : r.state = .leader
  · rw [Live.step_leader_dispatch fuel m r hl (Or.inr hterm) (Or.inr (Or.inr (Or.inl ht)))] at h
    cases hg : r.trk.getProgress m.from with
    | none =>
      rw [Live.stepLeader_noProgress_run fuel m r (Or.inr (Or.inr (Or.inr (Or.inl ht)))) hg] at h
      injection h with h; injection h with _ h; subst h
      exact RaftSimD.refl hinv
    | some pr =>
      cases hrej : m.reject with
      | true => exact simD_appResp_leader_reject hinv hl ht hrej hg h
      | false => exact simD_appResp_leader_ack hinv hl ht hterm hin hrej hg h
  · rw [step_appResp_nonleader_run fuel m r ht hterm hl] at h
    injection h with h; injection h with _ h; subst h
    exact RaftSimD.refl hinv

end RaftVerif.Sim
