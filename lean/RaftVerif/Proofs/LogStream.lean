import RaftVerif.Proofs.LogMutate
/-!
# Proofs/LogStream — the stream of applied entries over a sequence of operations

Core Lean only.
-/
namespace RaftVerif

theorem Contig.pairwise_lt {n : Nat} {es : List Entry} (h : Contig n es) :
    es.Pairwise (fun a b => a.index < b.index) := by
  induction es generalizing n with
  | nil => exact List.Pairwise.nil
  | cons e es ih =>
    obtain ⟨h0, h1⟩ := contig_cons.mp h
    rw [List.pairwise_cons]
    refine ⟨?_, ih h1⟩
    intro e' he'
    have := h1.mem he'
    omega

/-- the operations that touch the apply cursor -/
inductive ApplyOp where
  /-- `Ready()` + accept: `nextCommittedEnts(allowUnstable)`, then (if the batch is not empty)
  `acceptApplying(last index of the batch, size of the batch, allowUnstable)` — what
  `RawNode.readyWithoutAccept` / `acceptReady` do -/
  | ready (allowUnstable : Bool)
  /-- the application acknowledges: `appliedTo(i, size)` -/
  | applied (i size : Nat)
  /-- commit advancement: `commitTo(c)` -/
  | commit (c : Nat)
  /-- a snapshot arrives (`raft.restore`): ignored unless it is beyond `committed`, else `raftLog.restore(s)` -/
  | restore (s : Snapshot)
  /-- the pending snapshot (if any) is installed: storage `ApplySnapshot`, then `raft.appliedSnap`
  (`stableSnapTo(s.index)`; `appliedTo(s.index, 0)`); nothing happens if storage refuses it -/
  | snapInstalled
  deriving Repr

namespace RaftLog

/-- one operation; returns the new log and the batch handed to the application (empty for the
operations that hand out nothing) -/
def applyStep (l : RaftLog) : ApplyOp → P (RaftLog × List Entry)
  | .ready au => do
    let b ← l.nextCommittedEnts au
    match b.getLast? with
    | some last => do
      let l' ← l.acceptApplying last.index (entsSize b) au
      pure (l', b)
    | none => pure (l, [])
  | .applied i size => do
    let l' ← l.appliedTo i size
    pure (l', [])
  | .commit c => do
    let l' ← l.commitTo c
    pure (l', [])
  | .restore s => pure (if s.index ≤ l.committed then l else l.restore s, [])
  | .snapInstalled =>
    match l.unstable.snapshot with
    | none => pure (l, [])
    | some s =>
      match l.storage.applySnapshot s with
      | .error _ => pure (l, [])
      | .ok ms' => do
        let l' ← (({ l with storage := ms' } : RaftLog).stableSnapTo s.index).appliedTo s.index 0
        pure (l', [])

/-- installing the pending snapshot in storage keeps the invariant (the log does not look at storage
while the snapshot is pending) -/
theorem storage_installed_wf {l : RaftLog} (h : l.WF) {s : Snapshot} (hsn : l.unstable.snapshot = some s)
    {ms' : MemoryStorage} (hms : ms'.WF) : ({ l with storage := ms' } : RaftLog).WF := by
  refine ⟨hms, h.unstable, ?_, h.appliedLeApplying, h.applyingLeCommitted, ?_, h.budget⟩
  · have := h.snapOK
    unfold SnapOK at this ⊢
    simp only [hsn] at this ⊢
    exact this
  · have := h.committedLeLast
    unfold lastIndex Unstable.maybeLastIndex at this ⊢
    simp only [hsn] at this ⊢
    by_cases hl : l.unstable.entries.length = 0
    · simp [hl] at this ⊢; exact this
    · simp [hl] at this ⊢; exact this

/-- the snapshot operations hand out nothing, keep the invariant and only move the cursors forward -/
theorem applyStep_snap {l : RaftLog} (h : l.WF) (op : ApplyOp)
    (hop : (∃ s, op = .restore s) ∨ op = .snapInstalled) {l1 : RaftLog} {b : List Entry}
    (hok : l.applyStep op = .ok (l1, b)) :
    l1.WF ∧ b = [] ∧ l.applying ≤ l1.applying ∧ l.committed ≤ l1.committed ∧
    (op = .snapInstalled → (l1 = l ∨ ∃ s, l.unstable.snapshot = some s ∧ l1.applying = max l.applying s.index ∧
      l1.unstable.snapshot = none ∧ l1.applied = s.index)) := by
  rcases hop with ⟨s, rfl⟩ | rfl
  · simp only [applyStep, pure, Except.pure, Except.ok.injEq, Prod.mk.injEq] at hok
    obtain ⟨e1, e2⟩ := hok
    subst e1 e2
    refine ⟨?_, rfl, ?_, ?_, by intro hc; cases hc⟩
    · split
      · exact h
      · exact (restore_spec h s (by omega)).1
    · split
      · exact Nat.le_refl _
      · exact Nat.le_refl _
    · split
      · exact Nat.le_refl _
      · show l.committed ≤ s.index; omega
  · simp only [applyStep] at hok
    cases hsn : l.unstable.snapshot with
    | none =>
      rw [hsn] at hok
      simp only [pure, Except.pure, Except.ok.injEq, Prod.mk.injEq] at hok
      obtain ⟨e1, e2⟩ := hok
      subst e1 e2
      exact ⟨h, rfl, Nat.le_refl _, Nat.le_refl _, fun _ => Or.inl rfl⟩
    | some s =>
      rw [hsn] at hok
      simp only at hok
      rcases MemoryStorage.applySnapshot_spec l.storage s with ⟨_, herr⟩ | ⟨_, ms', hms, hwfm, habsm, _, _⟩
      · rw [herr] at hok
        simp only [pure, Except.pure, Except.ok.injEq, Prod.mk.injEq] at hok
        obtain ⟨e1, e2⟩ := hok
        subst e1 e2
        exact ⟨h, rfl, Nat.le_refl _, Nat.le_refl _, fun _ => Or.inl rfl⟩
      · rw [hms] at hok
        simp only [bind, Except.bind] at hok
        have hw1 := storage_installed_wf h hsn hwfm
        cases hap : (({ l with storage := ms' } : RaftLog).stableSnapTo s.index).appliedTo s.index 0 with
        | error m => rw [hap] at hok; cases hok
        | ok l'' =>
          rw [hap] at hok
          simp only [pure, Except.pure, Except.ok.injEq, Prod.mk.injEq] at hok
          obtain ⟨e1, e2⟩ := hok
          subst e1 e2
          have happ : l.applied ≤ s.index := by
            by_cases hle : l.applied ≤ s.index
            · exact hle
            · exfalso
              have := (appliedTo_panics_iff (({ l with storage := ms' } : RaftLog).stableSnapTo s.index) s.index 0).mpr
                (Or.inr (by show s.index < l.applied; omega))
              obtain ⟨m, hm⟩ := this
              rw [hm] at hap; cases hap
          have hoff : ms'.offset = s.index := by
            have := congrArg ALog.base habsm; exact this
          have hterm : ms'.dummyTerm = s.term := by
            have := congrArg ALog.baseTerm habsm; exact this
          have hlast : ms'.lastIndex = s.index := by
            rw [MemoryStorage.lastIndex_abs hwfm, habsm]; rfl
          obtain ⟨l', hok', hwf', habs', hsn', hap', hag', hc'⟩ :=
            appliedSnap_spec hw1 (s := s) hsn hoff hterm (fun _ => hlast) happ
          rw [hap] at hok'
          injection hok' with hok'
          subst hok'
          have hag0 : ({ l with storage := ms' } : RaftLog).applying = l.applying := rfl
          have hc0 : ({ l with storage := ms' } : RaftLog).committed = l.committed := rfl
          refine ⟨hwf', rfl, by rw [hag', hag0]; omega, by rw [hc', hc0]; exact Nat.le_refl _, ?_⟩
          intro _
          exact Or.inr ⟨s, rfl, by rw [hag', hag0], hsn', hap'⟩

/-- a sequence of operations; returns the final log and the concatenation of all batches -/
def applyRun (l : RaftLog) : List ApplyOp → P (RaftLog × List Entry)
  | [] => pure (l, [])
  | op :: ops => do
    let (l1, b) ← l.applyStep op
    let (l2, bs) ← l1.applyRun ops
    pure (l2, b ++ bs)

/-- `Ready` + accept never panics under the invariant; it hands out `nextBatch` and moves `applying` to
the end of the batch -/
theorem applyStep_ready {l : RaftLog} (h : l.WF) (au : Bool) :
    ∃ l1, l.applyStep (.ready au) = .ok (l1, l.nextBatch au) ∧ l1.WF ∧
      l1.applying = l.applying + (l.nextBatch au).length ∧ l1.committed = l.committed ∧
      l1.applied = l.applied ∧ l1.storage = l.storage ∧ l1.unstable = l.unstable := by
  simp only [applyStep]
  rw [nextCommittedEnts_eq h]
  simp only [bind, Except.bind]
  cases hl : (l.nextBatch au).getLast? with
  | none =>
    have : l.nextBatch au = [] := List.getLast?_eq_none_iff.mp hl
    rw [this]
    exact ⟨l, rfl, h, rfl, rfl, rfl, rfl, rfl⟩
  | some last =>
    have hne : l.nextBatch au ≠ [] := by intro h0; rw [h0] at hl; cases hl
    have hli := nextBatch_getLast h au hl
    have hk := (nextBatch_slice h au hne).1
    have hm := maxAppliableIndex_le_committed l au
    have haa := h.appliedLeApplying
    simp only
    cases hacc : l.acceptApplying last.index (entsSize (l.nextBatch au)) au with
    | error m =>
      exfalso
      have := (acceptApplying_panics_iff l _ _ au).mp ⟨m, hacc⟩
      omega
    | ok l1 =>
      obtain ⟨hwf, ha, hap, hc, hs, hu⟩ := acceptApplying_wf h (by omega) hacc
      exact ⟨l1, rfl, hwf, by omega, hc, hap, hs, hu⟩

/-- what one operation does to the invariant, the cursors and the stream -/
theorem applyStep_spec {l : RaftLog} (h : l.WF) (op : ApplyOp) {l1 : RaftLog} {b : List Entry}
    (hok : l.applyStep op = .ok (l1, b)) :
    l1.WF ∧ Contig (l.applying + 1) b ∧ l.applying + b.length ≤ l1.applying ∧
      l.committed ≤ l1.committed ∧ (∀ e ∈ b, e.index ≤ l.committed) ∧
      (match op with
        | .applied i _ => l1.applying = max l.applying i
        | .ready _ => l1.applying = l.applying + b.length
        | .commit _ => l1.applying = l.applying + b.length
        | _ => True) := by
  cases op with
  | restore s =>
    obtain ⟨hwf, hb, ha, hc, _⟩ := applyStep_snap h (.restore s) (Or.inl ⟨s, rfl⟩) hok
    subst hb
    exact ⟨hwf, Contig.nil _, by simpa using ha, hc, by simp, trivial⟩
  | snapInstalled =>
    obtain ⟨hwf, hb, ha, hc, _⟩ := applyStep_snap h .snapInstalled (Or.inr rfl) hok
    subst hb
    exact ⟨hwf, Contig.nil _, by simpa using ha, hc, by simp, trivial⟩
  | ready au =>
    obtain ⟨l1', hs, hwf, ha, hc, _⟩ := applyStep_ready h au
    rw [hs] at hok
    injection hok with hok
    injection hok with h1 h2
    subst h1 h2
    exact ⟨hwf, nextBatch_contig h au, by omega, by omega,
      fun e he => (nextBatch_committed h au e he).2, ha⟩
  | applied i size =>
    simp only [applyStep, bind, Except.bind] at hok
    cases ha : l.appliedTo i size with
    | error m => rw [ha] at hok; cases hok
    | ok l' =>
      rw [ha] at hok
      injection hok with hok
      injection hok with h1 h2
      subst h1 h2
      obtain ⟨hwf, _, hap, hmono, hc, _⟩ := appliedTo_wf h ha
      exact ⟨hwf, Contig.nil _, by simpa using hmono, by omega, by simp, hap⟩
  | commit c =>
    simp only [applyStep, bind, Except.bind] at hok
    cases ha : l.commitTo c with
    | error m => rw [ha] at hok; cases hok
    | ok l' =>
      rw [ha] at hok
      injection hok with hok
      injection hok with h1 h2
      subst h1 h2
      obtain ⟨hwf, hc, hap, _⟩ := commitTo_wf h ha
      exact ⟨hwf, Contig.nil _, by simp [hap], by omega, by simp, by simpa using hap⟩

theorem applyRun_cons {l : RaftLog} {op : ApplyOp} {ops : List ApplyOp} {l' : RaftLog} {stream : List Entry}
    (hok : l.applyRun (op :: ops) = .ok (l', stream)) :
    ∃ l1 b bs, l.applyStep op = .ok (l1, b) ∧ l1.applyRun ops = .ok (l', bs) ∧ stream = b ++ bs := by
  unfold applyRun at hok
  simp only [bind, Except.bind] at hok
  cases h1 : l.applyStep op with
  | error m => rw [h1] at hok; cases hok
  | ok r1 =>
    obtain ⟨l1, b⟩ := r1
    rw [h1] at hok
    simp only at hok
    cases h2 : l1.applyRun ops with
    | error m => rw [h2] at hok; cases hok
    | ok r2 =>
      obtain ⟨l2, bs⟩ := r2
      rw [h2] at hok
      simp only [pure, Except.pure, Except.ok.injEq, Prod.mk.injEq] at hok
      obtain ⟨e1, e2⟩ := hok
      subst e1 e2
      exact ⟨l1, b, bs, rfl, h2, rfl⟩

/-- **apply stream, general form** (jumps of `applying` by `appliedTo(i)` with `i > applying` — snapshot
installation — allowed): the invariant holds at the end, the cursors only move forward, and the stream
is strictly ascending (hence no index twice), lies in `(applying₀, applying']`, within commit. -/
theorem applyRun_spec {l : RaftLog} (h : l.WF) (ops : List ApplyOp) {l' : RaftLog} {stream : List Entry}
    (hok : l.applyRun ops = .ok (l', stream)) :
    l'.WF ∧ l.applying ≤ l'.applying ∧ l.committed ≤ l'.committed ∧
      stream.Pairwise (fun a b => a.index < b.index) ∧
      (∀ e ∈ stream, l.applying < e.index ∧ e.index ≤ l'.applying) ∧ l'.applying ≤ l'.committed := by
  induction ops generalizing l stream with
  | nil =>
    unfold applyRun at hok
    injection hok with hok
    injection hok with e1 e2
    subst e1 e2
    exact ⟨h, Nat.le_refl _, Nat.le_refl _, List.Pairwise.nil, by simp, h.applyingLeCommitted⟩
  | cons op ops ih =>
    obtain ⟨l1, b, bs, hs1, hs2, rfl⟩ := applyRun_cons hok
    obtain ⟨hwf1, hcb, hab, hcc, _, _⟩ := applyStep_spec h op hs1
    obtain ⟨hwf', ha', hc', hpw, hrange, hac⟩ := ih hwf1 hs2
    refine ⟨hwf', by omega, by omega, ?_, ?_, hac⟩
    · rw [List.pairwise_append]
      refine ⟨hcb.pairwise_lt, hpw, ?_⟩
      intro x hx y hy
      have := hcb.mem hx
      have := hrange y hy
      omega
    · intro e he
      rcases List.mem_append.mp he with he | he
      · have := hcb.mem he; omega
      · have := hrange e he; omega

/-- no `appliedTo(i)` jumps ahead of what was handed out (`i ≤ applying` at that moment), and no snapshot
is installed -/
def NoJump (l : RaftLog) : List ApplyOp → Prop
  | [] => True
  | op :: ops =>
    (match op with
      | .applied i _ => i ≤ l.applying
      | .snapInstalled => l.unstable.snapshot = none
      | _ => True) ∧
    (match l.applyStep op with
      | .ok (l1, _) => NoJump l1 ops
      | .error _ => True)

/-- `NoJump` is decidable -/
instance decNoJump : (l : RaftLog) → (ops : List ApplyOp) → Decidable (l.NoJump ops)
  | _, [] => isTrue trivial
  | l, op :: ops =>
    have _d1 : Decidable (match op with
        | .applied i _ => i ≤ l.applying
        | .snapInstalled => l.unstable.snapshot = none
        | _ => True) := by
      cases op with
      | applied i _ => exact inferInstanceAs (Decidable (i ≤ l.applying))
      | snapInstalled => exact inferInstanceAs (Decidable (l.unstable.snapshot = none))
      | ready _ => exact isTrue trivial
      | commit _ => exact isTrue trivial
      | restore _ => exact isTrue trivial
    have _d2 : Decidable (match l.applyStep op with | .ok (l1, _) => NoJump l1 ops | .error _ => True) := by
      cases l.applyStep op with
      | ok r => exact decNoJump r.1 ops
      | error _ => exact isTrue trivial
    by unfold NoJump; exact instDecidableAnd

/-- **apply stream, gap-free form**: as long as acknowledgements do not jump ahead, the concatenation
of all batches is exactly `applying₀+1, applying₀+2, …, applying'` — no gap, no repeat. -/
theorem applyRun_gapfree {l : RaftLog} (h : l.WF) (ops : List ApplyOp) (hnj : l.NoJump ops)
    {l' : RaftLog} {stream : List Entry} (hok : l.applyRun ops = .ok (l', stream)) :
    Contig (l.applying + 1) stream ∧ l'.applying = l.applying + stream.length := by
  induction ops generalizing l stream with
  | nil =>
    unfold applyRun at hok
    injection hok with hok
    injection hok with e1 e2
    subst e1 e2
    exact ⟨Contig.nil _, rfl⟩
  | cons op ops ih =>
    obtain ⟨l1, b, bs, hs1, hs2, rfl⟩ := applyRun_cons hok
    obtain ⟨hwf1, hcb, hab, _, _, hop⟩ := applyStep_spec h op hs1
    unfold NoJump at hnj
    rw [hs1] at hnj
    obtain ⟨hj, hnj1⟩ := hnj
    have ha1 : l1.applying = l.applying + b.length := by
      cases op with
      | ready au => exact hop
      | commit c => exact hop
      | restore s =>
        obtain ⟨_, hb, _, _, _⟩ := applyStep_snap h (.restore s) (Or.inl ⟨s, rfl⟩) hs1
        subst hb
        simp only [applyStep, pure, Except.pure, Except.ok.injEq, Prod.mk.injEq] at hs1
        rw [← hs1.1]
        split <;> rfl
      | snapInstalled =>
        simp only at hj
        simp only [applyStep, hj, pure, Except.pure, Except.ok.injEq, Prod.mk.injEq] at hs1
        rw [← hs1.1, ← hs1.2]; rfl
      | applied i size =>
        simp only at hop hj
        have := hcb
        simp only [applyStep, bind, Except.bind] at hs1
        cases ha : l.appliedTo i size with
        | error m => rw [ha] at hs1; cases hs1
        | ok l'' =>
          rw [ha] at hs1
          injection hs1 with hs1
          injection hs1 with e1 e2
          subst e2
          simp only [List.length_nil, Nat.add_zero]; omega
    obtain ⟨hcs, hlen⟩ := ih hwf1 hnj1 hs2
    refine ⟨?_, by rw [hlen, ha1, List.length_append]; omega⟩
    rw [contig_append]
    refine ⟨hcb, ?_⟩
    have : l.applying + 1 + b.length = l1.applying + 1 := by omega
    rw [this]; exact hcs

end RaftLog
end RaftVerif
