import RaftVerif.Proofs.NoPanicRaw
import RaftVerif.Proofs.NoPanicSend
/-!
# Proofs/NoPanicVoteResp — a MsgVoteResp of the node's own term never throws (C14 end to end)

* follower / leader / pre-candidate: the message is ignored (`return none`).
* candidate: `poll` (total); tally pending, or own vote not recorded: nothing; lost: `becomeFollower r.term 0`
  (needs one election-timeout draw); won: `becomeLeader` (never from a follower, one draw, own progress present,
  the empty entry can always be appended to a well-formed log) and `bcastAppend` from a state in which every
  progress has `next = lastIndex` (of the new log), so that no snapshot is ever needed.
-/
set_option linter.unusedSimpArgs false
namespace RaftVerif.NoPanicP
open Raft C14 Sim Refine

/-! ### not a candidate: ignored -/

theorem dispatch_voteResp_ignored (fuel : Nat) (m : Message) (r : Raft) (hs : r.state ≠ .candidate)
    (ht : m.typ = .voteResp) : (dispatch fuel m r).run r = .ok (none, r) := by
  unfold dispatch
  cases hst : r.state with
  | candidate => exact absurd hst hs
  | follower =>
    simp only []
    rw [Raft.stepFollower]
    simp [StateT.run_bind, StateT.run_get, P_pure_eq, P_ok_bind, ht, StateT.run_pure]
    rfl
  | preCandidate =>
    simp only []
    rw [Raft.stepCandidate]
    simp [StateT.run_bind, StateT.run_get, P_pure_eq, P_ok_bind, ht, hst, StateT.run_pure]
  | leader =>
    simp only []
    rw [Raft.stepLeader]
    cases hg : r.trk.getProgress m.from <;>
      simp [StateT.run_bind, StateT.run_get, P_pure_eq, P_ok_bind, ht, hg, StateT.run_pure]

/-! ### lost: `becomeFollower` needs one draw -/

theorem noErr_reset (t : Nat) (r : Raft) (hd : r.draws ≠ []) : NoErr (Raft.reset t) r := by
  cases hdr : r.draws with
  | nil => exact absurd hdr hd
  | cons d rest => exact NoErr.of_ok (Next.reset_run t r d rest hdr)

theorem noErr_becomeFollower (t l : Nat) (r : Raft) (hd : r.draws ≠ []) : NoErr (Raft.becomeFollower t l) r := by
  unfold Raft.becomeFollower
  simp only [np, wp]
  exact ⟨noErr_reset t r hd, Spec.trivial _ _⟩

/-! ### won: the state after `becomeLeader` -/

/-- every progress has `next = lastIndex + 1` (of the candidate's log) after `becomeLeader` -/
theorem becomeLeader_next (p : Raft) :
    Spec Raft.becomeLeader p (fun _ s1 => ∀ v pr, s1.trk.getProgress v = some pr → pr.next = p.log.lastIndex + 1) := by
  unfold Raft.becomeLeader
  simp only [wp]
  refine ⟨fun _ => trivial, fun hne => ?_⟩
  refine (Spec.runs (Raft.reset p.term) p).mono ?_
  intro _ mid hrun
  obtain ⟨d, rest, _, rfl⟩ := vr_reset_run_exact hrun
  intro pr hpr
  have hcid : (Next.resetSt p p.term d rest).cfg.id = p.cfg.id := rfl
  rw [vr_resetSt_getProgress, hcid] at hpr
  rw [hcid]
  refine (appendEntry_spec_st _ _).mono ?_
  rintro ok s' (⟨rfl, rfl⟩ | ⟨rfl, q, _, rfl⟩)
  · exact ⟨fun _ => trivial, fun h => absurd h (by simp)⟩
  · refine ⟨fun h => absurd h (by simp), fun _ => ?_⟩
    cases hq : p.trk.getProgress p.cfg.id with
    | none => rw [hq] at hpr; cases hpr
    | some pr0 =>
      rw [hq] at hpr
      injection hpr with hpr
      intro v pv hv
      change Tracker.getProgress (Tracker.setProgress _ _ _) v = some pv at hv
      rw [getProgress_setProgress] at hv
      by_cases he : p.cfg.id = v
      · rw [if_pos he] at hv
        injection hv with hv
        rw [← hv, ← hpr]
        simp [Progress.becomeReplicate, Progress.resetState, vrResetPr]
      · rw [if_neg he, vr_resetSt_getProgress] at hv
        cases hq2 : p.trk.getProgress v with
        | none => rw [hq2] at hv; cases hv
        | some pv0 =>
          rw [hq2] at hv
          injection hv with hv
          rw [← hv]; rfl

/-- what `bcastAppend` needs of the fresh leader -/
structure LeaderReady (s1 : Raft) : Prop where
  wf : s1.log.WF
  unc : Uncompacted s1.log
  prog : ∀ id pr, s1.trk.getProgress id = some pr → 1 ≤ pr.next ∧ pr.next ≤ s1.log.lastIndex + 1

theorem becomeLeader_ready (p : Raft) (hwf : p.log.WF) (hu : Uncompacted p.log) :
    Spec Raft.becomeLeader p (fun _ s1 => LeaderReady s1) := by
  refine ((becomeLeader_refine (fun _ _ => 0) p hwf hu).and (becomeLeader_next p)).mono ?_
  rintro _ s1 ⟨hp, hn⟩
  have h1 : s1.log.lastIndex = p.log.lastIndex + 1 := by
    have hl := congrArg List.length hp.log
    simp only [absLog, List.length_append, List.length_cons, List.length_nil] at hl
    rw [absLogL_length_eq _ hp.wf hp.unc, absLogL_length_eq _ hwf hu] at hl
    omega
  refine ⟨hp.wf, hp.unc, fun id pr hpr => ?_⟩
  have := hn id pr hpr
  omega

/-- `becomeLeader` from a non-follower with a draw, its own progress and a well-formed log -/
theorem noErr_becomeLeader (p : Raft) (hwf : p.log.WF) (hs : p.state ≠ .follower) (hd : p.draws ≠ [])
    (hpr : (p.trk.getProgress p.cfg.id).isSome = true) : NoErr Raft.becomeLeader p := by
  intro e he
  rcases (panic_becomeLeader_wf_iff p hwf e).1 he with ⟨_, h⟩ | ⟨_, _, h⟩ | ⟨_, _, _, h⟩
  · exact hs h
  · exact hd h
  · rw [h] at hpr; cases hpr

/-! ### the candidate -/

theorem noErr_stepCandidate_voteResp (fuel : Nat) (m : Message) (s : Raft) (hs : s.state = .candidate)
    (ht : m.typ = .voteResp) (hwf : s.log.WF) (hu : Uncompacted s.log) (hd : s.draws ≠ [])
    (hpr : (s.trk.getProgress s.cfg.id).isSome = true)
    (hb : ∀ s1, LeaderReady s1 → NoErr Raft.bcastAppend s1) : NoErr (Raft.stepCandidate fuel m) s := by
  obtain ⟨typ, to, frm, term, logTerm, index, entries, commit, vote, snapshot, reject, rejectHint, context, responses⟩ := m
  simp only at ht
  subst ht
  rw [Raft.stepCandidate]
  have hpc : (s.state == Role.preCandidate) = false := by rw [hs]; rfl
  simp only [np, wp, hpc, Bool.false_and, Bool.false_eq_true, if_false, beq_self_eq_true, true_implies,
    not_true_eq_false, false_implies, and_true, not_false_eq_true, ↓reduceIte, true_and]
  split
  · simp only [np, wp, true_and, and_true, implies_true]
    intro _
    have hs' : (polled s ⟨.voteResp, to, frm, term, logTerm, index, entries, commit, vote, snapshot, reject,
        rejectHint, context, responses⟩).state ≠ .follower := by
      show s.state ≠ .follower
      rw [hs]; intro h; cases h
    refine ⟨noErr_becomeLeader _ hwf hs' hd ?_, ?_⟩
    · show ((s.trk.recordVote frm !reject).getProgress s.cfg.id).isSome = true
      unfold Tracker.getProgress
      rw [vr_recordVote_progress]
      exact hpr
    · refine (becomeLeader_ready { s with trk := s.trk.recordVote frm !reject } hwf hu).mono (fun _ s1 h1 => ?_)
      exact ⟨hb s1 h1, Spec.trivial _ _⟩
  · simp only [np, wp, true_and, and_true, implies_true]
    exact ⟨noErr_becomeFollower _ _ _ hd, Spec.trivial _ _⟩
  · simp only [np, wp]

/-! ### MsgVoteResp at the node's own term -/

/-- model-level form, relative to "`bcastAppend` of a fresh leader does not throw" -/
theorem noErr_step_voteResp_same_of {r : Raft} (hwf : r.log.WF) (hu : Uncompacted r.log)
    (hpr : (r.trk.getProgress r.cfg.id).isSome = true) (fuel : Nat) (m : Message) (ht : m.typ = .voteResp)
    (hterm : m.term = r.term) (hd : r.state = .candidate → r.draws ≠ [])
    (hb : ∀ s1, LeaderReady s1 → NoErr Raft.bcastAppend s1) : NoErr (Raft.step (fuel + 1) m) r := by
  intro e he
  rw [step_same_term_dispatch fuel m r (Or.inr hterm) (by rw [ht]; decide)] at he
  by_cases hs : r.state = .candidate
  · have hdd : dispatch fuel m r = Raft.stepCandidate fuel m := by unfold dispatch; rw [hs]
    rw [hdd] at he
    exact noErr_stepCandidate_voteResp fuel m r hs ht hwf hu (hd hs) hpr hb e he
  · rw [dispatch_voteResp_ignored fuel m r hs ht] at he
    cases he

theorem self_progress {val : Val} {voters : List Id} {n : Nat} {r : Raft} {nd : Spec.Node} {msgs}
    (hinv : RaftInv val voters n r nd msgs) : (r.trk.getProgress r.cfg.id).isSome = true := by
  rw [hinv.st.id]
  exact (hinv.st.prog n).1 hinv.st.self

theorem LeaderReady.noErr_bcastAppend {s1 : Raft} (h : LeaderReady s1) : NoErr Raft.bcastAppend s1 :=
  NoPanicP.noErr_bcastAppend s1 h.wf h.unc h.prog

/-- model-level form: well-formed uncompacted log, own progress tracked, a draw if the node is a candidate -/
theorem noErr_step_voteResp_same' {r : Raft} (hwf : r.log.WF) (hu : Uncompacted r.log)
    (hpr : (r.trk.getProgress r.cfg.id).isSome = true) (fuel : Nat) (m : Message) (ht : m.typ = .voteResp)
    (hterm : m.term = r.term) (hd : r.state = .candidate → r.draws ≠ []) : NoErr (Raft.step (fuel + 1) m) r :=
  noErr_step_voteResp_same_of hwf hu hpr fuel m ht hterm hd (fun _ h => h.noErr_bcastAppend)

/-- **MsgVoteResp of the node's own term never throws** (simulation-invariant form; `h0` is not needed) -/
theorem noErr_step_voteResp_same {val : Val} {voters : List Id} {n : Nat} {r : Raft} {nd : Spec.Node} {msgs}
    (hinv : RaftInv val voters n r nd msgs) (fuel : Nat) (m : Message) (ht : m.typ = .voteResp)
    (hterm : m.term = r.term) (_h0 : m.term ≠ 0) (hd : r.state = .candidate → r.draws ≠ []) :
    NoErr (Raft.step (fuel + 1) m) r :=
  noErr_step_voteResp_same' hinv.wf hinv.unc (self_progress hinv) fuel m ht hterm hd

end RaftVerif.NoPanicP
