import Lean.Meta.Tactic.Simp.RegisterCommand
/-!
# Proofs/WpAttr — the `wp` simp set (weakest-precondition rewriting for the model's state monad)
-/
/-- weakest-precondition rewriting rules for `Spec` -/
register_simp_attr wp
/-- total-correctness rewriting rules for `Tot` -/
register_simp_attr tot
