import RaftVerif.Spec.ReconfStatements
/-!
# Lemmas about ghost logs: `termAt`, `at?`, `LogOK`, `appendResult`
-/
namespace RaftVerif.SpecR

theorem Log.termAt_zero (l : Log) : l.termAt 0 = some 0 := by simp [Log.termAt]

theorem Log.termAt_pos (l : Log) {i : Nat} (h : 1 ≤ i) : l.termAt i = (l[i - 1]?).map (·.term) := by
  unfold Log.termAt; rw [if_neg (by omega)]

theorem Log.termAt_le {l : Log} {i t : Nat} (h : l.termAt i = some t) : i ≤ l.length := by
  by_cases hi : i = 0
  · omega
  · rw [Log.termAt_pos l (by omega)] at h
    cases hx : l[i - 1]? with
    | none => rw [hx] at h; simp at h
    | some e =>
      have := (List.getElem?_eq_some_iff.mp hx).1
      omega

theorem Log.termAt_some {l : Log} {i : Nat} (h : i ≤ l.length) : ∃ t, l.termAt i = some t := by
  by_cases hi : i = 0
  · subst hi; exact ⟨0, Log.termAt_zero l⟩
  · rw [Log.termAt_pos l (by omega)]
    have : i - 1 < l.length := by omega
    exact ⟨l[i - 1].term, by simp [this]⟩

theorem Log.termAt_take {l : Log} {i j : Nat} (h : i ≤ j) : Log.termAt (List.take j l) i = l.termAt i := by
  by_cases hi : i = 0
  · subst hi; simp [Log.termAt]
  · rw [Log.termAt_pos _ (by omega), Log.termAt_pos _ (by omega), List.getElem?_take,
      if_pos (by omega)]

theorem Log.termAt_congr {l m : Log} {i : Nat} (h : List.take i l = List.take i m) :
    l.termAt i = m.termAt i := by
  rw [← Log.termAt_take (Nat.le_refl i), h, Log.termAt_take (Nat.le_refl i)]

theorem Log.termAt_prefix {l m : Log} (h : l <+: m) {i : Nat} (hi : i ≤ l.length) :
    m.termAt i = l.termAt i := by
  obtain ⟨r, rfl⟩ := h
  apply Log.termAt_congr
  exact List.take_append_of_le_length hi

theorem Log.termAt_append_left {l m : Log} {i : Nat} (hi : i ≤ l.length) :
    Log.termAt (l ++ m) i = l.termAt i := Log.termAt_prefix (List.prefix_append l m) hi

theorem Log.at?_take {l : Log} {i j : Nat} (h : i ≤ j) : Log.at? (List.take j l) i = l.at? i := by
  unfold Log.at?
  by_cases hi : i = 0
  · simp [hi]
  · rw [if_neg hi, if_neg hi, List.getElem?_take, if_pos (by omega)]

theorem Log.at?_congr {l m : Log} {i : Nat} (h : List.take i l = List.take i m) : l.at? i = m.at? i := by
  rw [← Log.at?_take (Nat.le_refl i), h, Log.at?_take (Nat.le_refl i)]

theorem Log.termAt_eq_at? (l : Log) {i : Nat} (h : 1 ≤ i) : l.termAt i = (l.at? i).map (·.term) := by
  unfold Log.termAt Log.at?
  rw [if_neg (by omega), if_neg (by omega)]

/-- `take` of a prefix -/
theorem take_of_prefix {l m : Log} (h : l <+: m) {i : Nat} (hi : i ≤ l.length) :
    List.take i m = List.take i l := by
  obtain ⟨r, rfl⟩ := h
  exact List.take_append_of_le_length hi

theorem drop_prefix_of_prefix {l m : Log} (h : l <+: m) {i : Nat} (hi : i ≤ l.length) :
    List.drop i l <+: List.drop i m := by
  obtain ⟨r, rfl⟩ := h
  rw [List.drop_append_of_le_length hi]
  exact List.prefix_append _ _

/-- the defining property of the ghost logs: the prefix of `L` up to an entry of term `t` is the
prefix of `g t` -/
def LogOK (g : Nat → Log) (L : Log) : Prop :=
  ∀ i t, 1 ≤ i → L.termAt i = some t → List.take i L = List.take i (g t)

theorem LogOK.nil (g : Nat → Log) : LogOK g [] := by
  intro i t hi h
  have := Log.termAt_le h
  simp at this; omega

theorem LogOK.take {g : Nat → Log} {L : Log} (h : LogOK g L) (k : Nat) : LogOK g (List.take k L) := by
  intro i t hi ht
  have hik : i ≤ k := by
    have := Log.termAt_le ht
    rw [List.length_take] at this; omega
  rw [Log.termAt_take hik] at ht
  rw [List.take_take, Nat.min_eq_left hik]
  exact h i t hi ht

theorem LogOK.prefix {g : Nat → Log} {L M : Log} (h : LogOK g L) (hp : M <+: L) : LogOK g M := by
  rw [List.prefix_iff_eq_take] at hp
  rw [hp]; exact h.take _

theorem LogOK.mono {g g' : Nat → Log} {L : Log} (hg : ∀ t, g t <+: g' t) (h : LogOK g L) :
    LogOK g' L := by
  intro i t hi ht
  have h1 := h i t hi ht
  have h2 : i ≤ (g t).length := by
    have hl := Log.termAt_le ht
    have := congrArg List.length h1
    rw [List.length_take, List.length_take] at this
    omega
  rw [h1, take_of_prefix (hg t) h2]

/-- two logs that agree on the term at `i` agree up to `i` -/
theorem LogOK.matching {g : Nat → Log} {L M : Log} (hL : LogOK g L) (hM : LogOK g M) (i : Nat)
    (hi : i ≤ L.length) (h : L.termAt i = M.termAt i) : List.take i L = List.take i M := by
  by_cases h0 : i = 0
  · subst h0; simp
  · obtain ⟨t, ht⟩ := Log.termAt_some hi
    rw [hL i t (by omega) ht, hM i t (by omega) (h ▸ ht)]

theorem LogOK.append_own {g : Nat → Log} {L : Log} {T v : Nat} {c : Option Conf} (h : LogOK g L)
    (hg : g T = L ++ [⟨T, v, c⟩]) : LogOK g (L ++ [⟨T, v, c⟩]) := by
  intro i t hi ht
  by_cases hlen : i ≤ L.length
  · rw [Log.termAt_append_left hlen] at ht
    rw [List.take_append_of_le_length hlen]
    exact h i t hi ht
  · have hle := Log.termAt_le ht
    simp only [List.length_append, List.length_cons, List.length_nil] at hle
    have hi' : i = L.length + 1 := by omega
    subst hi'
    rw [Log.termAt_pos _ (by omega)] at ht
    simp at ht
    subst ht
    rw [hg]


/-! ### `appendResult` -/

theorem agree_nil (l : Log) (i : Nat) : appendResult.agree l i [] = 0 := by
  simp [appendResult.agree]

theorem agree_cons (l : Log) (i : Nat) (e : Ent) (es : Log) :
    appendResult.agree l i (e :: es) =
      if l.termAt i = some e.term then appendResult.agree l (i + 1) es + 1 else 0 := by
  simp [appendResult.agree]

theorem agree_le (l : Log) (i : Nat) (es : Log) : appendResult.agree l i es ≤ es.length := by
  induction es generalizing i with
  | nil => simp [agree_nil]
  | cons e es ih =>
    rw [agree_cons]
    split
    · have := ih (i + 1); simp; omega
    · simp

theorem agree_spec (l : Log) (i : Nat) (es : Log) (j : Nat) (hj : j < appendResult.agree l i es) :
    l.termAt (i + j) = (es[j]?).map (·.term) := by
  induction es generalizing i j with
  | nil => simp [agree_nil] at hj
  | cons e es ih =>
    rw [agree_cons] at hj
    split at hj
    · rename_i h
      cases j with
      | zero => simpa using h
      | succ j =>
        have := ih (i + 1) j (by omega)
        rw [show i + (j + 1) = i + 1 + j by omega, this]
        simp
    · omega

theorem agree_stop (l : Log) (i : Nat) (es : Log) (h : appendResult.agree l i es < es.length) :
    l.termAt (i + appendResult.agree l i es) ≠ (es[appendResult.agree l i es]?).map (·.term) := by
  induction es generalizing i with
  | nil => simp at h
  | cons e es ih =>
    rw [agree_cons] at h ⊢
    split
    · rename_i h'
      rw [if_pos h'] at h
      have := ih (i + 1) (by simp at h; omega)
      rw [show i + (appendResult.agree l (i + 1) es + 1) = i + 1 + appendResult.agree l (i + 1) es by omega]
      simpa using this
    · rename_i h'
      simpa using h'

theorem appendResult_spec {g : Nat → Log} {l G : Log} {prev pt : Nat} {ents l' : Log}
    (hl : LogOK g l) (hG : LogOK g G) (hprev : prev ≤ G.length) (hpt : G.termAt prev = some pt)
    (hents : ents <+: List.drop prev G) (hr : appendResult l prev pt ents = some l') :
    l.termAt prev = some pt ∧ prev + ents.length ≤ G.length ∧
    ((l' = l ∧ prev + ents.length ≤ l.length ∧
        List.take (prev + ents.length) l = List.take (prev + ents.length) G) ∨
     (l' = List.take (prev + ents.length) G ∧
        ∃ j, j ≤ prev + ents.length ∧ l.termAt j ≠ G.termAt j)) := by
  unfold appendResult at hr
  have h0 : l.termAt prev = some pt := by
    by_cases h0 : l.termAt prev = some pt
    · exact h0
    · simp [h0] at hr
  simp only [ne_eq, h0, not_true_eq_false, ↓reduceIte] at hr
  obtain ⟨r, hr'⟩ := hents
  have hGsplit : G = List.take prev G ++ (ents ++ r) := by
    rw [hr', List.take_append_drop]
  have hPlen : (List.take prev G).length = prev := by rw [List.length_take]; omega
  have hlenG : prev + ents.length ≤ G.length := by
    have := congrArg List.length hGsplit
    simp only [List.length_append, hPlen] at this
    omega
  -- entries of G after `prev`
  have hGent : ∀ j, j < ents.length → G.termAt (prev + 1 + j) = (ents[j]?).map (·.term) := by
    intro j hj
    rw [Log.termAt_pos _ (by omega), hGsplit, List.getElem?_append_right (by rw [hPlen]; omega), hPlen,
      List.getElem?_append_left (by omega)]
    congr 2
    omega
  have hagree : ∀ j, j ≤ appendResult.agree l (prev + 1) ents → l.termAt (prev + j) = G.termAt (prev + j) := by
    intro j hj
    cases j with
    | zero => simp [h0, hpt]
    | succ j =>
      have hk := agree_le l (prev + 1) ents
      rw [show prev + (j + 1) = prev + 1 + j by omega, agree_spec l (prev + 1) ents j (by omega),
        hGent j (by omega)]
  have hkle := agree_le l (prev + 1) ents
  refine ⟨h0, hlenG, ?_⟩
  by_cases hk : appendResult.agree l (prev + 1) ents = ents.length
  · left
    simp only [hk, ↓reduceIte, Option.some.injEq] at hr
    have h1 := hagree ents.length (by omega)
    obtain ⟨t, ht⟩ := Log.termAt_some hlenG
    have h2 : prev + ents.length ≤ l.length := Log.termAt_le (h1.trans ht)
    exact ⟨hr.symm, h2, hl.matching hG _ h2 h1⟩
  · right
    simp only [hk, ↓reduceIte, Option.some.injEq] at hr
    have hklt : appendResult.agree l (prev + 1) ents < ents.length := by omega
    have h1 := hagree _ (Nat.le_refl _)
    have hk2 : prev + appendResult.agree l (prev + 1) ents ≤ G.length := by omega
    obtain ⟨t, ht⟩ := Log.termAt_some hk2
    have h2 : prev + appendResult.agree l (prev + 1) ents ≤ l.length := Log.termAt_le (h1.trans ht)
    have h3 := hl.matching hG _ h2 h1
    constructor
    · rw [← hr, h3]
      generalize appendResult.agree l (prev + 1) ents = k at hklt
      have e1 : List.take (prev + k) G = List.take prev G ++ List.take k ents := by
        conv => lhs; rw [hGsplit]
        rw [List.take_append, hPlen, List.take_of_length_le (by rw [hPlen]; omega),
          show prev + k - prev = k by omega, List.take_append_of_le_length (by omega)]
      have e2 : List.take (prev + ents.length) G = List.take prev G ++ ents := by
        conv => lhs; rw [hGsplit]
        rw [List.take_append, hPlen, List.take_of_length_le (by rw [hPlen]; omega),
          show prev + ents.length - prev = ents.length by omega, List.take_left' rfl]
      rw [e1, e2, List.append_assoc, List.take_append_drop]
    · refine ⟨prev + 1 + appendResult.agree l (prev + 1) ents, by omega, ?_⟩
      rw [hGent _ hklt]
      exact agree_stop l (prev + 1) ents hklt

end RaftVerif.SpecR
