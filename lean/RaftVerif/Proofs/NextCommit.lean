import RaftVerif.Proofs.NextVotes
import RaftVerif.Proofs.LiveAck
import RaftVerif.Proofs.StepMain
import RaftVerif.Proofs.LogMutate
/-!
# Proofs/NextCommit — where a leader's commit index moves (C06)

* `CmE s s'` — `log.committed` is what it was.  Kept by everything a leader runs in a `Step` except
  `maybeCommit` (only called by the MsgAppResp handler).
* `LS s s'` — `log`, `term`, `state`, `trk.cfg` are what they were (kept by the tail of the MsgAppResp
  handler after `maybeCommit`); `CK` adds the per-peer `Match` (`Live.PrKeep`).
-/
namespace RaftVerif

/-- the commit index is what it was -/
def CmE (s s' : Raft) : Prop := s'.log.committed = s.log.committed

instance : RelOK CmE where
  refl _ := rfl
  trans h1 h2 := Eq.trans h2 h1

theorem CmE.of_eq {s x : Raft} (h : x.log.committed = s.log.committed) : CmE s x := h
theorem SendFrame.ce {s s' : Raft} (h : SendFrame s s') : CmE s s' := by unfold CmE; rw [h.log]

/-- `committed` of the new log equals the old one, from a hypothesis about the `Log` function used -/
macro "ce_tac" : tactic => `(tactic| first
  | rfl
  | exact RaftLog.append_committed (l' := Prod.fst _) (li := Prod.snd _) (by assumption)
  | exact (RaftLog.appliedTo_committed (by assumption)).1)

macro_rules | `(tactic| rel_fields) => `(tactic| exact CmE.of_eq (by ce_tac))

/-- log, term, role and configuration are what they were -/
structure LS (s s' : Raft) : Prop where
  log : s'.log = s.log
  term : s'.term = s.term
  state : s'.state = s.state
  trkCfg : s'.trk.cfg = s.trk.cfg

instance : RelOK LS where
  refl _ := ⟨rfl, rfl, rfl, rfl⟩
  trans h1 h2 := ⟨h2.log.trans h1.log, h2.term.trans h1.term, h2.state.trans h1.state, h2.trkCfg.trans h1.trkCfg⟩

theorem SendFrame.ls {s s' : Raft} (h : SendFrame s s') : LS s s' := ⟨h.log, h.term, h.state, h.trkCfg⟩
theorem LS.ce {s s' : Raft} (h : LS s s') : CmE s s' := by unfold CmE; rw [h.log]

macro_rules | `(tactic| rel_fields) => `(tactic| exact LS.mk rfl rfl rfl rfl)

/-- what the tail of the MsgAppResp handler keeps: log, term, role, configuration and every peer's `Match` -/
structure CK (s s' : Raft) : Prop where
  ls : LS s s'
  pk : Live.PrKeep s s'

instance : RelOK CK where
  refl s := ⟨RelOK.refl s, RelOK.refl s⟩
  trans h1 h2 := ⟨RelOK.trans h1.ls h2.ls, RelOK.trans h1.pk h2.pk⟩

/-- the quorum commit index only depends on the configuration and the peers' `Match` -/
theorem CK.committed {s s' : Raft} (h : CK s s') : s'.trk.committed = s.trk.committed := by
  unfold Tracker.committed Tracker.outgoingL
  rw [h.ls.trkCfg]
  congr 1
  funext id
  obtain ⟨_, _, hk⟩ := h.pk
  obtain ⟨h1, h2⟩ := hk id
  unfold Tracker.getProgress at h1 h2
  cases hg : mapGet s.trk.progress id with
  | none => rw [h1 hg]
  | some pr =>
    obtain ⟨pr', hg', hm, _⟩ := h2 pr hg
    rw [hg']
    simp [hm]

namespace Next
open Raft Live
set_option linter.unusedSimpArgs false

syntax "ce_step" : tactic
syntax "ls_step" : tactic

theorem send_ce (m : Message) (s : Raft) : Spec (send m) s (fun _ s' => CmE s s') :=
  (send_sf _  s).mono fun _ _ h => h.ce
macro_rules | `(tactic| ce_step) => `(tactic| rel_call (send_ce ..))
theorem maybeSendAppend_ce (to : Id) (b : Bool) (s : Raft) : Spec (maybeSendAppend to b) s (fun _ s' => CmE s s') :=
  (maybeSendAppend_sf _ _  s).mono fun _ _ h => h.ce
macro_rules | `(tactic| ce_step) => `(tactic| rel_call (maybeSendAppend_ce ..))
theorem sendAppendLoop_ce (n : Nat) (to : Id) (s : Raft) : Spec (sendAppendLoop n to) s (fun _ s' => CmE s s') :=
  (sendAppendLoop_sf _ _  s).mono fun _ _ h => h.ce
macro_rules | `(tactic| ce_step) => `(tactic| rel_call (sendAppendLoop_ce ..))
theorem sendHeartbeat_ce (to : Id) (c : Option Bytes) (s : Raft) : Spec (sendHeartbeat to c) s (fun _ s' => CmE s s') :=
  (sendHeartbeat_sf _ _  s).mono fun _ _ h => h.ce
macro_rules | `(tactic| ce_step) => `(tactic| rel_call (sendHeartbeat_ce ..))
theorem bcastAppend_ce (s : Raft) : Spec (bcastAppend) s (fun _ s' => CmE s s') :=
  (bcastAppend_sf  s).mono fun _ _ h => h.ce
macro_rules | `(tactic| ce_step) => `(tactic| rel_call (bcastAppend_ce ..))
theorem bcastHeartbeat_ce (s : Raft) : Spec (bcastHeartbeat) s (fun _ s' => CmE s s') :=
  (bcastHeartbeat_sf  s).mono fun _ _ h => h.ce
macro_rules | `(tactic| ce_step) => `(tactic| rel_call (bcastHeartbeat_ce ..))
macro_rules | `(tactic| ce_step) => `(tactic| same_call (hasUnappliedConfChanges_same ..))
macro_rules | `(tactic| ce_step) => `(tactic| same_call (decodeCC_same ..))

theorem responseToReadIndexReq_ce (req : Message) (i : Nat) (s : Raft) : Spec (responseToReadIndexReq req i) s (fun _ s' => CmE s s') := by
  unfold responseToReadIndexReq
  rel_start
  wp_auto [ce_step]
macro_rules | `(tactic| ce_step) => `(tactic| rel_call (responseToReadIndexReq_ce ..))

theorem sendReadIndexResp_ce (req : Message) (i : Nat) (s : Raft) : Spec (sendReadIndexResp req i) s (fun _ s' => CmE s s') := by
  unfold sendReadIndexResp
  rel_start
  wp_auto [ce_step]
macro_rules | `(tactic| ce_step) => `(tactic| rel_call (sendReadIndexResp_ce ..))

theorem sendMsgReadIndexResponse_ce (m : Message) (s : Raft) : Spec (sendMsgReadIndexResponse m) s (fun _ s' => CmE s s') := by
  unfold sendMsgReadIndexResponse
  rel_start
  wp_auto [ce_step]
macro_rules | `(tactic| ce_step) => `(tactic| rel_call (sendMsgReadIndexResponse_ce ..))

theorem releasePendingReadIndexMessages_ce (s : Raft) : Spec releasePendingReadIndexMessages s (fun _ s' => CmE s s') := by
  unfold releasePendingReadIndexMessages
  rel_start
  wp_auto [first | ce_step | rel_loop CmE]
macro_rules | `(tactic| ce_step) => `(tactic| rel_call (releasePendingReadIndexMessages_ce ..))

theorem send_ls (m : Message) (s : Raft) : Spec (send m) s (fun _ s' => LS s s') :=
  (send_sf _  s).mono fun _ _ h => h.ls
macro_rules | `(tactic| ls_step) => `(tactic| rel_call (send_ls ..))
theorem maybeSendAppend_ls (to : Id) (b : Bool) (s : Raft) : Spec (maybeSendAppend to b) s (fun _ s' => LS s s') :=
  (maybeSendAppend_sf _ _  s).mono fun _ _ h => h.ls
macro_rules | `(tactic| ls_step) => `(tactic| rel_call (maybeSendAppend_ls ..))
theorem sendAppendLoop_ls (n : Nat) (to : Id) (s : Raft) : Spec (sendAppendLoop n to) s (fun _ s' => LS s s') :=
  (sendAppendLoop_sf _ _  s).mono fun _ _ h => h.ls
macro_rules | `(tactic| ls_step) => `(tactic| rel_call (sendAppendLoop_ls ..))
theorem sendHeartbeat_ls (to : Id) (c : Option Bytes) (s : Raft) : Spec (sendHeartbeat to c) s (fun _ s' => LS s s') :=
  (sendHeartbeat_sf _ _  s).mono fun _ _ h => h.ls
macro_rules | `(tactic| ls_step) => `(tactic| rel_call (sendHeartbeat_ls ..))
theorem bcastAppend_ls (s : Raft) : Spec (bcastAppend) s (fun _ s' => LS s s') :=
  (bcastAppend_sf  s).mono fun _ _ h => h.ls
macro_rules | `(tactic| ls_step) => `(tactic| rel_call (bcastAppend_ls ..))
theorem bcastHeartbeat_ls (s : Raft) : Spec (bcastHeartbeat) s (fun _ s' => LS s s') :=
  (bcastHeartbeat_sf  s).mono fun _ _ h => h.ls
macro_rules | `(tactic| ls_step) => `(tactic| rel_call (bcastHeartbeat_ls ..))
macro_rules | `(tactic| ls_step) => `(tactic| same_call (hasUnappliedConfChanges_same ..))
macro_rules | `(tactic| ls_step) => `(tactic| same_call (decodeCC_same ..))

theorem responseToReadIndexReq_ls (req : Message) (i : Nat) (s : Raft) : Spec (responseToReadIndexReq req i) s (fun _ s' => LS s s') := by
  unfold responseToReadIndexReq
  rel_start
  wp_auto [ls_step]
macro_rules | `(tactic| ls_step) => `(tactic| rel_call (responseToReadIndexReq_ls ..))

theorem sendReadIndexResp_ls (req : Message) (i : Nat) (s : Raft) : Spec (sendReadIndexResp req i) s (fun _ s' => LS s s') := by
  unfold sendReadIndexResp
  rel_start
  wp_auto [ls_step]
macro_rules | `(tactic| ls_step) => `(tactic| rel_call (sendReadIndexResp_ls ..))

theorem sendMsgReadIndexResponse_ls (m : Message) (s : Raft) : Spec (sendMsgReadIndexResponse m) s (fun _ s' => LS s s') := by
  unfold sendMsgReadIndexResponse
  rel_start
  wp_auto [ls_step]
macro_rules | `(tactic| ls_step) => `(tactic| rel_call (sendMsgReadIndexResponse_ls ..))

theorem releasePendingReadIndexMessages_ls (s : Raft) : Spec releasePendingReadIndexMessages s (fun _ s' => LS s s') := by
  unfold releasePendingReadIndexMessages
  rel_start
  wp_auto [first | ls_step | rel_loop LS]
macro_rules | `(tactic| ls_step) => `(tactic| rel_call (releasePendingReadIndexMessages_ls ..))

theorem reset_ce (t : Nat) (s : Raft) : Spec (reset t) s (fun _ s' => CmE s s') :=
  (reset_spec_st t s).mono fun _ _ h => by unfold CmE; rw [h.2.2.2.2.1]
macro_rules | `(tactic| ce_step) => `(tactic| rel_call (reset_ce ..))

theorem becomeFollower_ce (t l : Nat) (s : Raft) : Spec (becomeFollower t l) s (fun _ s' => CmE s s') :=
  (becomeFollower_spec t l s).mono fun _ _ h => by unfold CmE; rw [h.2.2.2.2.1]
macro_rules | `(tactic| ce_step) => `(tactic| rel_call (becomeFollower_ce ..))

theorem increaseUncommittedSize_ce (es : List Entry) (s : Raft) : Spec (increaseUncommittedSize es) s (fun _ s' => CmE s s') := by
  unfold increaseUncommittedSize
  rel_start
  wp_auto [ce_step]
macro_rules | `(tactic| ce_step) => `(tactic| rel_call (increaseUncommittedSize_ce ..))

theorem appendEntry_ce (es : List Entry) (s : Raft) : Spec (appendEntry es) s (fun _ s' => CmE s s') := by
  unfold appendEntry
  rel_start
  wp_auto [ce_step]
macro_rules | `(tactic| ce_step) => `(tactic| rel_call (appendEntry_ce ..))

theorem appliedToLog_ce (i sz : Nat) (s : Raft) : Spec (appliedToLog i sz) s (fun _ s' => CmE s s') := by
  unfold appliedToLog
  rel_start
  wp_auto [ce_step]
macro_rules | `(tactic| ce_step) => `(tactic| rel_call (appliedToLog_ce ..))


/-- every message type but MsgAppResp leaves a leader's commit index alone -/
theorem stepLeader_ce (fuel : Nat) (m : Message) (s : Raft) (hm : m.typ ≠ .appResp) :
    Spec (stepLeader fuel m) s (fun _ s' => CmE s s') := by
  rw [stepLeader]
  rel_start
  wp_auto [first | exact absurd (by assumption) hm | ce_step | rel_loop CmE]

/-- `raftLog.maybeCommit` returning `true`: exactly `committed := at.index`, which is new, inside the log,
and holds an entry of term `at.term ≠ 0` -/
theorem log_maybeCommit_true {l l' : RaftLog} {at_ : EntryID} (h : l.maybeCommit at_ = .ok (l', true)) :
    l' = { l with committed := at_.index } ∧ l.committed < at_.index ∧ at_.index ≤ l.lastIndex ∧
    l.term at_.index = .ok at_.term ∧ at_.term ≠ 0 := by
  unfold RaftLog.maybeCommit at h
  split at h
  · rename_i hc
    simp only [Bool.and_eq_true, bne_iff_ne, ne_eq, decide_eq_true_eq] at hc
    obtain ⟨⟨h1, h2⟩, h3⟩ := hc
    obtain ⟨l1, hl1, h⟩ := bind_eq_ok.1 h
    simp only [pure, Except.pure, Except.ok.injEq, Prod.mk.injEq, and_true] at h
    subst h
    obtain ⟨rfl, hli⟩ := RaftLog.commitTo_spec hl1
    have hmax : max l.committed at_.index = at_.index := by omega
    refine ⟨by rw [hmax], h2, hli h2, ?_, h1⟩
    unfold RaftLog.matchTerm at h3
    split at h3
    · rename_i t ht
      have : t = at_.term := by simpa using h3
      rw [ht, this]
    · cases h3
  · simp [pure, Except.pure] at h

theorem log_maybeCommit_false {l l' : RaftLog} {at_ : EntryID} (h : l.maybeCommit at_ = .ok (l', false)) :
    l' = l := by
  unfold RaftLog.maybeCommit at h
  split at h
  · obtain ⟨l1, _, h⟩ := bind_eq_ok.1 h
    simp [pure, Except.pure] at h
  · simp only [pure, Except.pure, Except.ok.injEq, Prod.mk.injEq, and_true] at h
    exact h.symm

/-- the state after a successful `maybeCommit` -/
abbrev committedAt (s : Raft) (idx : Nat) : Raft := { s with log := { s.log with committed := idx } }

/-- **`maybeCommit`, exactly**: `false` and nothing changes, or `true` and `committed` becomes the quorum
index of the tracker, which is new, inside the log, and holds an entry of the leader's own non-zero term -/
theorem maybeCommit_exact (s : Raft) :
    Spec maybeCommit s (fun b s' =>
      (b = false ∧ s' = s) ∨
      (b = true ∧ ∃ idx, s.trk.committed = some idx ∧ s.log.committed < idx ∧ idx ≤ s.log.lastIndex ∧
        s.log.term idx = .ok s.term ∧ s.term ≠ 0 ∧ s' = committedAt s idx)) := by
  unfold maybeCommit
  simp only [wp]
  split
  · simp only [wp]; exact Or.inl ⟨trivial, trivial⟩
  · rename_i idx hidx
    simp only [wp]
    intro p hp
    obtain ⟨l', b⟩ := p
    cases b with
    | false =>
      have := log_maybeCommit_false hp
      subst this
      exact Or.inl ⟨rfl, rfl⟩
    | true =>
      obtain ⟨rfl, h1, h2, h3, h4⟩ := log_maybeCommit_true hp
      exact Or.inr ⟨rfl, idx, hidx, h1, h2, h3, h4, rfl⟩

theorem ck_step_and {cur mid r' : Raft} {P : Prop} (h1 : CK cur mid) (h2 : P ∧ CK mid r') :
    P ∧ CK cur r' := ⟨h2.1, RelOK.trans h1 h2.2⟩

theorem sendTimeoutNow_ck (to : Id) (s : Raft) : Spec (sendTimeoutNow to) s (fun _ s' => CK s s') := by
  unfold sendTimeoutNow
  exact ((send_ls _ _).and (send_pk _ _)).mono (fun _ _ h => ⟨h.1, h.2⟩)
theorem sendAppend_ck (to : Id) (s : Raft) : Spec (sendAppend to) s (fun _ s' => CK s s') := by
  refine (Spec.and ?_ (sendAppend_pk to s)).mono (fun _ _ h => ⟨h.1, h.2⟩)
  unfold sendAppend
  rel_start
  wp_auto [ls_step]
theorem sendAppendLoop_ck (n : Nat) (to : Id) (s : Raft) : Spec (sendAppendLoop n to) s (fun _ s' => CK s s') :=
  ((sendAppendLoop_ls n to s).and (sendAppendLoop_pk n to s)).mono (fun _ _ h => ⟨h.1, h.2⟩)
theorem bcastAppend_ck (s : Raft) : Spec bcastAppend s (fun _ s' => CK s s') :=
  ((bcastAppend_ls s).and (bcastAppend_pk s)).mono (fun _ _ h => ⟨h.1, h.2⟩)
theorem releasePendingReadIndexMessages_ck (s : Raft) :
    Spec releasePendingReadIndexMessages s (fun _ s' => CK s s') :=
  ((releasePendingReadIndexMessages_ls s).and (releasePendingReadIndexMessages_pk s)).mono (fun _ _ h => ⟨h.1, h.2⟩)

/-- the common tail of the `MsgAppResp` handler: maybe tell the transferee to campaign -/
macro "ck_tl1 " h:ident : tactic => `(tactic| (
  obtain ⟨_, _, hq1, hq2⟩ := bind_ok $h
  obtain ⟨eq0, eq1⟩ := get_ok hq1; subst eq0 eq1
  obtain ⟨_, _, hq3, hq4⟩ := bind_ok hq2
  obtain ⟨eq2, _⟩ := getPr_ok hq3; subst eq2
  split at hq4
  · obtain ⟨_, _, hq5, hq6⟩ := bind_ok hq4
    obtain ⟨eq3a, eq3⟩ := pure_ok hq6; subst eq3
    exact ⟨eq3a, (sendTimeoutNow_ck _ _).elim hq5⟩
  · obtain ⟨eq3a, eq3⟩ := pure_ok hq4; subst eq3; exact ⟨eq3a, RelOK.refl _⟩))

macro "ck_tl2 " h:ident : tactic => `(tactic| (
  split at $h:ident
  · obtain ⟨_, _, hp1, hp2⟩ := bind_ok $h
    obtain ⟨ep0, ep1⟩ := get_ok hp1; subst ep0 ep1
    obtain ⟨_, _, hp3, hp4⟩ := bind_ok hp2
    refine ck_step_and ((sendAppendLoop_ck _ _ _).elim hp3) ?_
    ck_tl1 hp4
  · ck_tl1 $h))

/-- **acknowledging `MsgAppResp`, commit part**: when the acknowledgement is processed further
(`ackCond`), `maybeCommit` runs in the state `ackMid` and everything after it keeps `CK` -/
theorem stepLeader_appResp_ack_commit (fuel : Nat) (m : Message) (r r' : Raft) (res : Option StepErr)
    (pr : Progress) (hm : m.typ = .appResp) (hg : r.trk.getProgress m.from = some pr)
    (hrej : m.reject = false) (hc : ackCond pr m.index) (h : (stepLeader fuel m).run r = .ok (res, r')) :
    ∃ b mid, maybeCommit.run (ackMid r m pr) = .ok (b, mid) ∧ CK mid r' := by
  rw [← ackMid3_eq]
  unfold stepLeader at h
  simp only [hm] at h
  obtain ⟨r0, r1, h1, hA⟩ := bind_ok h
  obtain ⟨e0, e1⟩ := get_ok h1; subst r0 r1
  split at hA
  case h_2 hnone => rw [hg] at hnone; cases hnone
  rename_i pr' hg'
  have epr : pr' = pr := by rw [hg] at hg'; injection hg' with hg'; exact hg'.symm
  subst pr'
  obtain ⟨pr'', r2, h2, hB⟩ := bind_ok hA
  obtain ⟨e0, e1⟩ := pure_ok h2; subst pr'' r2
  obtain ⟨u3, r3, h3, hC⟩ := bind_ok hB
  have e := setPr_ok h3; subst r3
  simp only [hrej, Bool.false_eq_true, ↓reduceIte] at hC
  obtain ⟨u4, r4, h4, hD⟩ := bind_ok hC
  have e := setPr_ok h4; subst r4
  split at hD
  case isFalse hcond =>
    exact absurd (by simpa [ackCond, ackUpd] using hc) hcond
  obtain ⟨r0, r5, h5, hE⟩ := bind_ok hD
  obtain ⟨e0, e1⟩ := get_ok h5; subst r0 r5
  obtain ⟨u6, r6, h6, hF⟩ := bind_ok hE
  have e := setPr_ok h6; subst r6
  obtain ⟨b7, r7, h7, hG⟩ := bind_ok hF
  refine ⟨b7, r7, h7, ?_⟩
  suffices hk : res = none ∧ CK r7 r' from hk.2
  split at hG
  · obtain ⟨u8, r8, h8, hH⟩ := bind_ok hG
    refine ck_step_and ((releasePendingReadIndexMessages_ck _).elim h8) ?_
    obtain ⟨u9, r9, h9, hI⟩ := bind_ok hH
    refine ck_step_and ((bcastAppend_ck _).elim h9) ?_
    ck_tl2 hI
  · obtain ⟨pr8, r8, h8, hH⟩ := bind_ok hG
    obtain ⟨e8, _⟩ := getPr_ok h8; subst e8
    obtain ⟨r0, r9, h9, hI⟩ := bind_ok hH
    obtain ⟨e0, e1⟩ := get_ok h9; subst e0 e1
    split at hI
    · obtain ⟨u10, r10, h10, hJ⟩ := bind_ok hI
      refine ck_step_and ((sendAppend_ck _ _).elim h10) ?_
      ck_tl2 hJ
    · ck_tl2 hI

/-- the commit index is the quorum index of the tracker, the entry there has term `t ≠ 0`, and it is inside the log -/
def CommitOK (t : Nat) (s' : Raft) : Prop :=
  s'.trk.committed = some s'.log.committed ∧ s'.log.term s'.log.committed = .ok t ∧
  s'.log.committed ≤ s'.log.lastIndex ∧ t ≠ 0

/-- **`stepLeader` and the commit index**: unchanged, or advanced by an accepted MsgAppResp to the
tracker's quorum index, an index inside the log whose entry has the leader's own (non-zero) term; term
and role are then unchanged -/
theorem stepLeader_commit (fuel : Nat) (m : Message) (s : Raft) :
    Spec (stepLeader fuel m) s (fun _ s' => CmE s s' ∨
      (s.log.committed < s'.log.committed ∧ s'.term = s.term ∧ s'.state = s.state ∧ CommitOK s.term s' ∧
        m.typ = .appResp ∧ m.reject = false)) := by
  by_cases hm : m.typ = .appResp
  · rw [Spec.iff_runs]
    intro res s' h
    unfold Runs at h
    cases hg : s.trk.getProgress m.from with
    | none =>
      rw [stepLeader_noProgress_run fuel m s (Or.inr (Or.inr (Or.inr (Or.inl hm)))) hg] at h
      injection h with h; injection h with _ h; subst h
      exact Or.inl rfl
    | some pr =>
      cases hrej : m.reject with
      | true =>
        rw [stepLeader_appResp_reject_run fuel m s pr hm hg hrej] at h
        split at h
        · obtain ⟨p, hp, h⟩ := bind_eq_ok.1 h
          injection h with h; injection h with _ h; subst h
          obtain ⟨b, s1⟩ := p
          have h2 := (maybeSendAppend_ce m.from true _).elim hp
          exact Or.inl (by unfold CmE at h2 ⊢; exact h2)
        · injection h with h; injection h with _ h; subst h
          exact Or.inl rfl
      | false =>
        by_cases hc : ackCond pr m.index
        · obtain ⟨b, mid, hmc, hck⟩ := stepLeader_appResp_ack_commit fuel m s s' res pr hm hg hrej hc h
          rcases (maybeCommit_exact _).elim hmc with ⟨_, rfl⟩ | ⟨_, idx, h1, h2, h3, h4, h5, rfl⟩
          · left
            unfold CmE
            rw [hck.ls.log]
            rfl
          · right
            have hlog : s'.log = { s.log with committed := idx } := hck.ls.log
            refine ⟨by rw [hlog]; exact h2, hck.ls.term, hck.ls.state, ⟨?_, ?_, ?_, h5⟩, hm, rfl⟩
            · rw [hck.committed, hlog]; exact h1
            · rw [hlog]; exact h4
            · rw [hlog]; exact h3
        · have := (stepLeader_appResp_ack_inv fuel m s s' res pr hm hg hrej h).2.2 hc
          subst this
          exact Or.inl rfl
  · exact (stepLeader_ce fuel m s hm).mono (fun _ _ h => Or.inl h)


/-- a local MsgProp (term 0) never moves the commit index -/
theorem step_prop_ce (fuel : Nat) (m : Message) (s : Raft) (ht : m.typ = .prop) (h0 : m.term = 0) :
    Spec (step fuel m) s (fun _ s' => CmE s s') := by
  cases fuel with
  | zero => rw [step]; simp only [wp]
  | succ fuel =>
    refine step_prop_local fuel m s _ ht h0 (fun _ => stepLeader_ce _ _ _ (by rw [ht]; intro h; cases h))
      (fun _ => ?_) (fun _ => ?_)
    · exact (stepCandidate_prop_spec fuel m s ht).mono (fun _ _ h => by rw [h.2]; exact RelOK.refl _)
    · refine (stepFollower_prop_spec fuel m s ht).mono (fun _ s' h => ?_)
      split at h
      · rw [h.2]; exact RelOK.refl _
      · rw [h.2.2]; exact CmE.of_eq rfl

theorem appliedTo_ce (fuel i sz : Nat) (s : Raft) : Spec (appliedTo fuel i sz) s (fun _ s' => CmE s s') := by
  rw [appliedTo]
  rel_start
  wp_auto [first | ce_step | rel_call (step_prop_ce _ _ _ rfl rfl)]

theorem appliedSnap_ce (fuel : Nat) (snap : Snapshot) (s : Raft) :
    Spec (appliedSnap fuel snap) s (fun _ s' => CmE s s') := by
  rw [appliedSnap]
  rel_start
  wp_auto [first | ce_step | rel_call (appliedTo_ce ..)]

/-- `hup` does nothing at a leader -/
theorem hup_leader_same (t : CampaignType) (s : Raft) (hs : s.state = .leader) :
    Spec (hup t) s (fun _ s' => s' = s) := by
  rw [Spec.iff_runs]
  intro _ s' h
  unfold Runs at h
  rw [hup_run, if_pos hs] at h
  injection h with h; injection h with _ h; exact h.symm

/-- what a `Step` at a leader does to the commit index -/
abbrev LeaderCommitPost (r : Raft) (m : Message) (r' : Raft) : Prop :=
  CmE r r' ∨ r.term < r'.term ∨
  (r.log.committed < r'.log.committed ∧ r'.term = r.term ∧ r'.state = .leader ∧ CommitOK r.term r' ∧
    m.typ = .appResp ∧ m.reject = false)

theorem step_leader_commit_succ (fuel : Nat) (m : Message) (r : Raft) (hs : r.state = .leader) :
    Spec (step (fuel + 1) m) r (fun _ r' => LeaderCommitPost r m r') := by
  rw [step]
  simp (config := {zeta := false}) only [wp]
  spec_jp (fun mid => mid = r ∨ (r.term < mid.term ∧ mid.state = .follower))
  · intro u mid hmid
    rcases hmid with rfl | ⟨hlt, hfol⟩
    · have hce : ∀ {act : M (Option StepErr)}, Spec act mid (fun _ s' => CmE mid s') →
          Spec act mid (fun _ s' => LeaderCommitPost mid m s') := fun h => h.mono (fun _ _ h => Or.inl h)
      split
      · refine hce ?_
        rel_start
        wp_auto [first | ce_step | same_call (hup_leader_same _ _ hs)]
      · refine hce ?_
        rel_start
        wp_auto [first | ce_step | rel_call (appliedSnap_ce ..)]
      · refine hce ?_
        rel_start
        wp_auto [first | ce_step | rel_call (appliedTo_ce ..)]
      · refine hce ?_
        rel_start
        wp_auto [first | ce_step]
      · refine hce ?_
        rel_start
        wp_auto [first | ce_step]
      · simp only [wp]
        split
        · refine (stepLeader_commit ..).mono (fun _ s' h => ?_)
          rcases h with h | ⟨h1, h2, h3, h4⟩
          · exact Or.inl h
          · exact Or.inr (Or.inr ⟨h1, h2, h3.trans hs, h4⟩)
        all_goals (rename_i hst; rw [hs] at hst; cases hst)
    · refine Spec.mono (Q := fun _ s' => mid.term ≤ s'.term) ?_
        (fun _ s' h => Or.inr (Or.inl (Nat.lt_of_lt_of_le hlt h)))
      have hgood : ∀ {act : M (Option StepErr)}, Spec act mid (fun _ s' => Good mid s') →
          Spec act mid (fun _ s' => mid.term ≤ s'.term) := fun h => h.mono (fun _ _ h => h.term)
      have hte : ∀ {act : M (Option StepErr)}, Spec act mid (fun _ s' => TE mid s') →
          Spec act mid (fun _ s' => mid.term ≤ s'.term) := fun h => h.mono (fun _ _ h => Nat.le_of_eq h.term.symm)
      split
      · refine hgood ?_
        rel_start
        wp_auto [first | good_step]
      · refine hgood ?_
        rel_start
        wp_auto [first | good_step | rel_call (appliedSnap_good _ (step_good _) ..)]
      · refine hgood ?_
        rel_start
        wp_auto [first | good_step | rel_call (appliedTo_good _ (step_good _) ..)]
      · refine hte ?_
        rel_start
        wp_auto [first | te_step]
      · refine hte ?_
        rel_start
        wp_auto [first | te_step]
      · simp only [wp]
        split
        · rename_i hst; rw [hfol] at hst; cases hst
        · rename_i hst; rw [hfol] at hst; cases hst
        · rename_i hst; rw [hfol] at hst; cases hst
        · exact hgood (stepFollower_good ..)
  · intro body hbody
    simp (config := {zeta := false}) only [wp]
    refine ⟨fun h0 => ?_, fun h0 => ⟨fun hgt => ?_, fun hgt => ⟨fun hlt => ?_, fun hlt => ?_⟩⟩⟩
    · exact hbody () r (Or.inl rfl)
    · spec_jp (fun mid => mid = r)
      · intro _ mid hmid
        subst hmid
        simp only [wp]
        refine ⟨fun _ => hbody _ _ (Or.inl rfl), fun _ => ⟨fun _ => hbody _ _ (Or.inl rfl), fun _ => ⟨fun _ => ?_, fun _ => ?_⟩⟩⟩
        all_goals (
          refine (becomeFollower_spec _ _ _).mono ?_
          intro _ mid2 ⟨h1, _, _, h4, _⟩
          exact hbody _ _ (Or.inr ⟨by omega, h4⟩))
      · intro jp1 hjp1
        simp (config := {zeta := false}) only [wp]
        refine ⟨fun _ => ?_, fun _ => hjp1 _ _ rfl⟩
        spec_zeta
        spec_zeta
        simp (config := {zeta := false}) only [wp]
        exact ⟨fun _ => Or.inl (RelOK.refl _), fun _ => hjp1 _ _ rfl⟩
    · refine Spec.mono (Q := fun _ s' => CmE r s') ?_ (fun _ _ h => Or.inl h)
      rel_start
      wp_auto [first | ce_step | rel_call (appliedSnap_ce ..)]
    · exact hbody () r (Or.inl rfl)

theorem step_leader_commit (fuel : Nat) (m : Message) (r : Raft) (hs : r.state = .leader) :
    Spec (step fuel m) r (fun _ r' => LeaderCommitPost r m r') := by
  cases fuel with
  | zero => rw [step]; simp only [wp]
  | succ fuel => exact step_leader_commit_succ fuel m r hs


/-- `maybeAppend`, commit part (no log invariant needed): refused (`prev` does not match) and nothing changes,
or accepted and `committed := max committed (min mc lastNewIndex)`, which — when it is an advance — is
inside the new log -/
theorem log_maybeAppend_commit {l l' : RaftLog} {prev : EntryID} {ents : List Entry} {mc : Nat}
    {res : Option Nat} (h : l.maybeAppend prev ents mc = .ok (l', res)) :
    (res = none ∧ l' = l ∧ l.matchTerm prev = false) ∨
    (res = some (prev.index + ents.length) ∧ l.matchTerm prev = true ∧
      l'.committed = max l.committed (min mc (prev.index + ents.length)) ∧
      (l.committed < min mc (prev.index + ents.length) → min mc (prev.index + ents.length) ≤ l'.lastIndex)) := by
  unfold RaftLog.maybeAppend at h
  by_cases hm : (!l.matchTerm prev) = true
  · simp only [hm, if_true, pure, Except.pure, Except.ok.injEq, Prod.mk.injEq] at h
    exact Or.inl ⟨h.2.symm, h.1.symm, by simpa using hm⟩
  · rw [if_neg hm] at h
    have hmt : l.matchTerm prev = true := by simpa using hm
    right
    have fin : ∀ l1 : RaftLog, l1.committed = l.committed →
        (l1.commitTo (min mc (prev.index + ents.length)) >>= fun l2 => pure (l2, some (prev.index + ents.length))) =
          Except.ok (l', res) →
        res = some (prev.index + ents.length) ∧ l.matchTerm prev = true ∧
        l'.committed = max l.committed (min mc (prev.index + ents.length)) ∧
        (l.committed < min mc (prev.index + ents.length) → min mc (prev.index + ents.length) ≤ l'.lastIndex) := by
      intro l1 hc1 h
      obtain ⟨l2, hl2, h⟩ := bind_eq_ok.1 h
      simp only [pure, Except.pure, Except.ok.injEq, Prod.mk.injEq] at h
      obtain ⟨rfl, rfl⟩ := h
      obtain ⟨rfl, hli⟩ := RaftLog.commitTo_spec hl2
      refine ⟨rfl, hmt, by simp only [hc1], fun hlt => ?_⟩
      exact hli (by rw [hc1]; exact hlt)
    by_cases hc : (l.findConflict ents == 0) = true
    · rw [if_pos hc] at h
      obtain ⟨l1, hl1, h⟩ := bind_eq_ok.1 h
      simp only [pure, Except.pure, Except.ok.injEq] at hl1
      subst hl1
      exact fin l rfl h
    · rw [if_neg hc] at h
      by_cases hc2 : l.findConflict ents ≤ l.committed
      · rw [if_pos hc2] at h
        obtain ⟨l1, hl1, h⟩ := bind_eq_ok.1 h
        simp [throw, throwThe, MonadExceptOf.throw] at hl1
      · rw [if_neg hc2] at h
        by_cases hc3 : usub (l.findConflict ents) (prev.index + 1) > ents.length
        · rw [if_pos hc3] at h
          obtain ⟨l1, hl1, h⟩ := bind_eq_ok.1 h
          simp [throw, throwThe, MonadExceptOf.throw] at hl1
        · rw [if_neg hc3] at h
          obtain ⟨⟨l3, li⟩, hp, h⟩ := bind_eq_ok.1 h
          obtain ⟨l1, hl1, h⟩ := bind_eq_ok.1 h
          simp only [pure, Except.pure, Except.ok.injEq] at hl1
          subst hl1
          exact fin l3 (RaftLog.append_committed hp) h

/-- **a follower's commit index after `handleAppendEntries`**: never lower; if it advanced then the
append was accepted (`m.index ≥ committed`, `(m.logTerm, m.index)` matches the log), the new value is
exactly `min(m.commit, lastNewIndex)` with `lastNewIndex = m.index + len(m.entries)`, and it is inside the log -/
theorem handleAppendEntries_commit (m : Message) (s : Raft) :
    Spec (handleAppendEntries m) s (fun _ s' =>
      s.log.committed ≤ s'.log.committed ∧
      (s.log.committed < s'.log.committed →
        s.log.committed ≤ m.index ∧ s.log.matchTerm { term := m.logTerm, index := m.index } = true ∧
        s'.log.committed = min m.commit (m.index + m.entries.length) ∧
        s'.log.committed ≤ s'.log.lastIndex)) := by
  unfold handleAppendEntries
  simp only [wp]
  refine ⟨fun hlt => ?_, fun hge p hp => ?_⟩
  · refine (send_sf _ s).mono (fun _ s' h => ?_)
    rw [h.log]
    exact ⟨Nat.le_refl _, fun h => absurd h (Nat.lt_irrefl _)⟩
  · obtain ⟨l', res⟩ := p
    have key : s.log.committed ≤ l'.committed ∧
      (s.log.committed < l'.committed →
        s.log.committed ≤ m.index ∧ s.log.matchTerm { term := m.logTerm, index := m.index } = true ∧
        l'.committed = min m.commit (m.index + m.entries.length) ∧ l'.committed ≤ l'.lastIndex) := by
      rcases log_maybeAppend_commit hp with ⟨_, rfl, _⟩ | ⟨_, hmt, hc, hli⟩
      · exact ⟨Nat.le_refl _, fun h => absurd h (Nat.lt_irrefl _)⟩
      · simp only at hc hli
        refine ⟨by rw [hc]; exact Nat.le_max_left _ _, fun hadv => ?_⟩
        have hlt : s.log.committed < min m.commit (m.index + m.entries.length) := by omega
        have he : l'.committed = min m.commit (m.index + m.entries.length) := by omega
        exact ⟨by omega, hmt, he, by rw [he]; exact hli hlt⟩
    split
    · simp only [wp]
      refine (send_sf _ _).mono (fun _ s' h => ?_)
      rw [h.log]; exact key
    · simp only [wp]
      refine (send_sf _ _).mono (fun _ s' h => ?_)
      rw [h.log]; exact key

/-- **a follower's commit index after `handleHeartbeat`**: exactly `max committed m.commit`, and an
advance stays inside the log (`commitTo` panics otherwise, see `handleHeartbeat_panics`) -/
theorem handleHeartbeat_commit (m : Message) (s : Raft) :
    Spec (handleHeartbeat m) s (fun _ s' =>
      s'.log.committed = max s.log.committed m.commit ∧ (s.log.committed < m.commit → m.commit ≤ s.log.lastIndex) ∧
      s'.log.lastIndex = s.log.lastIndex) := by
  unfold handleHeartbeat
  simp only [wp]
  intro l' hl'
  obtain ⟨rfl, hli⟩ := RaftLog.commitTo_spec hl'
  refine (send_sf _ _).mono (fun _ s' h => ?_)
  rw [h.log]
  exact ⟨rfl, hli, rfl⟩

/-- a heartbeat whose commit index lies beyond the follower's log is a panic (`commitTo` refuses it) -/
theorem handleHeartbeat_panics (m : Message) (s : Raft) (h1 : s.log.committed < m.commit)
    (h2 : s.log.lastIndex < m.commit) :
    (handleHeartbeat m).run s = .error "commitTo: tocommit out of range" := by
  unfold handleHeartbeat
  simp only [StateT.run_bind, StateT.run_get, P_pure_eq, P_ok_bind]
  rw [RaftLog.commitTo_eq', if_pos ⟨h1, h2⟩]
  rfl

end Next
end RaftVerif
