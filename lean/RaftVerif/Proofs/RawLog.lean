import RaftVerif.Proofs.RawInv
import RaftVerif.Proofs.LogDefs
/-!
# Proofs/RawLog — facts about `lastIndex` that need no well-formedness of the log
(`lastIndex` is positional: `unstable.offset + unstable.entries.length - 1`, else the unstable
snapshot's index, else `storage.lastIndex`)
-/
namespace RaftVerif.Raw
open RaftVerif

theorem lastIndex_congr {l l' : RaftLog} (hu : l'.unstable = l.unstable) (hs : l'.storage = l.storage) :
    l'.lastIndex = l.lastIndex := by
  unfold RaftLog.lastIndex; rw [hu, hs]

theorem maybeTerm_some_le {u : Unstable} {i t : Nat} (h : u.maybeTerm i = some t) :
    ∃ last, u.maybeLastIndex = some last ∧ i ≤ last := by
  unfold Unstable.maybeTerm at h
  split at h
  · split at h
    · rename_i s hs
      split at h
      · rename_i heq
        have heq' : s.index = i := by simpa using heq
        unfold Unstable.maybeLastIndex
        by_cases hl : (u.entries.length != 0) = true
        · rw [if_pos hl]
          have : u.entries.length ≠ 0 := by simpa using hl
          exact ⟨_, rfl, by omega⟩
        · rw [if_neg hl]
          exact ⟨s.index, by simp [hs], by omega⟩
      · cases h
    · cases h
  · split at h
    · cases h
    · rename_i last hl
      split at h
      · cases h
      · exact ⟨last, hl, by omega⟩

/-- a term is only known for indexes up to `lastIndex` -/
theorem term_ok_le {l : RaftLog} {i t : Nat} (h : l.term i = .ok t) : i ≤ l.lastIndex := by
  unfold RaftLog.term at h
  split at h
  · rename_i t' ht
    obtain ⟨last, h1, h2⟩ := maybeTerm_some_le ht
    unfold RaftLog.lastIndex
    rw [h1]; exact h2
  · split at h
    · cases h
    · split at h
      · cases h
      · omega

theorem matchTerm_le {l : RaftLog} {id : EntryID} (h : l.matchTerm id = true) : id.index ≤ l.lastIndex := by
  unfold RaftLog.matchTerm at h
  split at h
  · rename_i t ht; exact term_ok_le ht
  · cases h

/-- `commitTo` leaves `lastIndex` alone and keeps `committed ≤ lastIndex` -/
theorem commitTo_last {l l' : RaftLog} {t : Nat} (h : l.commitTo t = .ok l') :
    l'.lastIndex = l.lastIndex ∧ (l.committed ≤ l.lastIndex → l'.committed ≤ l'.lastIndex) := by
  obtain ⟨hu, hs⟩ := RaftLog.commitTo_unstable h
  have hl := lastIndex_congr hu hs
  obtain ⟨rfl, h2⟩ := RaftLog.commitTo_spec h
  refine ⟨hl, fun hc => ?_⟩
  rw [hl]
  simp only
  by_cases h1 : l.committed < t
  · have := h2 h1; omega
  · omega

theorem maybeCommit_last {l : RaftLog} {at_ : EntryID} {p : RaftLog × Bool} (h : l.maybeCommit at_ = .ok p) :
    p.1.lastIndex = l.lastIndex ∧ (l.committed ≤ l.lastIndex → p.1.committed ≤ p.1.lastIndex) := by
  unfold RaftLog.maybeCommit at h
  split at h
  · obtain ⟨l1, hl1, h⟩ := bind_eq_ok.1 h
    simp only [pure, Except.pure, Except.ok.injEq] at h
    subst h
    exact commitTo_last hl1
  · simp only [pure, Except.pure, Except.ok.injEq] at h
    subst h
    exact ⟨rfl, id⟩

theorem appliedTo_last {l l' : RaftLog} {i size : Nat} (h : l.appliedTo i size = .ok l') :
    l'.lastIndex = l.lastIndex ∧ (l.committed ≤ l.lastIndex → l'.committed ≤ l'.lastIndex) := by
  obtain ⟨hc, hu, hs⟩ := RaftLog.appliedTo_committed h
  have hl := lastIndex_congr hu hs
  exact ⟨hl, fun h => by rw [hl, hc]; exact h⟩


/-! ### `append` -/

theorem truncateAndAppend_last {u u' : Unstable} {e0 : Entry} {rest : List Entry}
    (h : u.truncateAndAppend (e0 :: rest) = .ok u') :
    u'.maybeLastIndex = some (e0.index + rest.length) := by
  unfold Unstable.truncateAndAppend at h
  simp only at h
  split at h
  · rename_i h1
    have h1' : e0.index = u.offset + u.entries.length := by simpa using h1
    simp only [pure, Except.pure, Except.ok.injEq] at h
    subst h
    simp [Unstable.maybeLastIndex]
    omega
  · split at h
    · simp only [pure, Except.pure, Except.ok.injEq] at h
      subst h
      simp [Unstable.maybeLastIndex]
    · rename_i h1 h2
      obtain ⟨keep, hk, h⟩ := bind_eq_ok.1 h
      simp only [pure, Except.pure, Except.ok.injEq] at h
      subst h
      unfold Unstable.slice at hk
      split at hk
      · cases hk
      · split at hk
        · cases hk
        · rename_i h3 h4
          simp only [pure, Except.pure, Except.ok.injEq] at hk
          subst hk
          simp only [Bool.or_eq_true, decide_eq_true_eq, not_or, Nat.not_lt] at h4
          simp [Unstable.maybeLastIndex]
          omega

/-- `append (e0 :: rest)`: the new last index is `e0.index + rest.length`, whatever was there before -/
theorem append_last {l : RaftLog} {e0 : Entry} {rest : List Entry} {p : RaftLog × Nat}
    (h : l.append (e0 :: rest) = .ok p) :
    p.1.lastIndex = e0.index + rest.length ∧ p.2 = e0.index + rest.length ∧
    l.committed ≤ usub e0.index 1 ∧ p.1.committed = l.committed := by
  unfold RaftLog.append at h
  simp only at h
  split at h
  · cases h
  · rename_i h1
    obtain ⟨u, hu, h⟩ := bind_eq_ok.1 h
    simp only [pure, Except.pure, Except.ok.injEq] at h
    subst h
    have := truncateAndAppend_last hu
    refine ⟨?_, ?_, by omega, rfl⟩ <;> simp only [RaftLog.lastIndex, this, Option.getD_some]


/-! ### `maybeAppend` -/

theorem findConflict_cases (l : RaftLog) (ents : List Entry) :
    (l.findConflict ents = 0 ∧ ∀ e ∈ ents, l.matchTerm ⟨e.term, e.index⟩ = true ∨ e.index = 0) ∨
    (∃ pre e post, ents = pre ++ e :: post ∧ (∀ x ∈ pre, l.matchTerm ⟨x.term, x.index⟩ = true) ∧
      l.matchTerm ⟨e.term, e.index⟩ = false ∧ l.findConflict ents = e.index) := by
  induction ents with
  | nil => left; simp [RaftLog.findConflict]
  | cons a rest ih =>
    unfold RaftLog.findConflict
    by_cases hm : l.matchTerm ⟨a.term, a.index⟩ = true
    · simp only [hm, Bool.not_true, Bool.false_eq_true, if_false]
      rcases ih with ⟨h0, hall⟩ | ⟨pre, e, post, rfl, hpre, he, hci⟩
      · left
        refine ⟨h0, ?_⟩
        intro x hx
        rcases List.mem_cons.1 hx with rfl | hx
        · exact Or.inl hm
        · exact hall x hx
      · right
        refine ⟨a :: pre, e, post, rfl, ?_, he, hci⟩
        intro x hx
        rcases List.mem_cons.1 hx with rfl | hx
        · exact hm
        · exact hpre x hx
    · have hm' : l.matchTerm ⟨a.term, a.index⟩ = false := by simpa using hm
      simp only [hm', Bool.not_false, if_true]
      right
      exact ⟨[], a, rest, rfl, by simp, hm', rfl⟩


/-- `maybeAppend` for entries contiguous from `prev.index + 1`, without any well-formedness of the log:
rejected (nothing changes) or accepted with `lastnew = prev.index + ents.length ≤ lastIndex'`,
`committed' ≤ lastIndex'`, and every index `k` below which the message agrees with the log stays inside -/
theorem maybeAppend_last {l : RaftLog} {prev : EntryID} {ents : List Entry} {mc : Nat}
    {p : RaftLog × Option Nat} (hc : Contig (prev.index + 1) ents)
    (h : l.maybeAppend prev ents mc = .ok p) :
    (p.2 = none ∧ p.1 = l) ∨
    (p.2 = some (prev.index + ents.length) ∧ prev.index + ents.length ≤ p.1.lastIndex ∧
      (l.committed ≤ l.lastIndex → p.1.committed ≤ p.1.lastIndex) ∧
      ∀ k, (∀ e ∈ ents, e.index ≤ k → l.matchTerm ⟨e.term, e.index⟩ = true) → k ≤ l.lastIndex →
        k ≤ p.1.lastIndex) := by
  unfold RaftLog.maybeAppend at h
  by_cases hm : l.matchTerm prev = true
  · simp only [hm, Bool.not_true, Bool.false_eq_true, if_false] at h
    right
    rcases findConflict_cases l ents with ⟨h0, hall⟩ | ⟨pre, e, post, hents, hpre, he, hci⟩
    · simp only [h0, beq_self_eq_true, if_true] at h
      obtain ⟨l1, hl1, h⟩ := bind_eq_ok.1 h
      simp only [pure, Except.pure, Except.ok.injEq] at hl1
      subst hl1
      obtain ⟨l2, hl2, h⟩ := bind_eq_ok.1 h
      simp only [pure, Except.pure, Except.ok.injEq] at h
      subst h
      obtain ⟨e1, e2⟩ := commitTo_last hl2
      refine ⟨rfl, ?_, e2, fun k _ hk => by rw [e1]; exact hk⟩
      rw [e1]
      cases hl : ents.getLast? with
      | none =>
        have : ents = [] := List.getLast?_eq_none_iff.1 hl
        subst this
        simpa using matchTerm_le hm
      | some z =>
        have hz : z ∈ ents := List.mem_of_getLast? hl
        have hzi := hc.getLast?_index hl
        have hpos := (hc.mem hz).1
        rcases hall z hz with hz' | hz'
        · have := matchTerm_le hz'
          simp only at this
          omega
        · omega
    · have hidx : e.index = prev.index + 1 + pre.length := by
        rw [hents] at hc
        exact ((contig_cons.1 (contig_append.1 hc).2).1)
      have hlen : ents.length = pre.length + 1 + post.length := by rw [hents]; simp; omega
      have hne : (l.findConflict ents == 0) = false := by rw [hci]; simp; omega
      simp only [hne, Bool.false_eq_true, if_false] at h
      by_cases hc2 : l.findConflict ents ≤ l.committed
      · rw [if_pos hc2] at h
        obtain ⟨l1, hl1, h⟩ := bind_eq_ok.1 h
        cases hl1
      · rw [if_neg hc2] at h
        have hus : usub (l.findConflict ents) (prev.index + 1) = pre.length := by
          rw [hci, hidx]; unfold usub; rw [if_pos (by omega)]; omega
        rw [hus, if_neg (by omega)] at h
        obtain ⟨⟨l3, li⟩, hp, h⟩ := bind_eq_ok.1 h
        obtain ⟨l1, hl1, h⟩ := bind_eq_ok.1 h
        simp only [pure, Except.pure, Except.ok.injEq] at hl1
        subst hl1
        obtain ⟨l2, hl2, h⟩ := bind_eq_ok.1 h
        simp only [pure, Except.pure, Except.ok.injEq] at h
        subst h
        have hdrop : ents.drop (l.findConflict ents - (prev.index + 1)) = e :: post := by
          rw [hci, hidx, hents]
          have : prev.index + 1 + pre.length - (prev.index + 1) = pre.length := by omega
          rw [this]; simp
        rw [hdrop] at hp
        obtain ⟨a1, _, a3, a4⟩ := append_last hp
        simp only at a1 a4
        obtain ⟨e1, e2⟩ := commitTo_last hl2
        rw [hci] at hc2
        have hl3 : l3.committed ≤ l3.lastIndex := by rw [a1, a4]; omega
        refine ⟨rfl, by rw [e1, a1]; omega, fun _ => e2 hl3, ?_⟩
        intro k hk _
        rw [e1, a1]
        have hek : ¬ e.index ≤ k := by
          intro hle
          have := hk e (by rw [hents]; simp) hle
          rw [he] at this; cases this
        omega
  · have hm' : l.matchTerm prev = false := by simpa using hm
    simp only [hm', Bool.not_false, if_true, pure, Except.pure, Except.ok.injEq] at h
    subst h
    exact Or.inl ⟨rfl, rfl⟩

end RaftVerif.Raw
