import RaftVerif.Proofs.StepRouted
/-!
# Proofs/SimCorOrderFrame — the raft state machine moves the apply cursors only on storage acknowledgements

`CurE s s'`: `applying` and `applied` of the log are the same.  Same scripts as `Proofs/SimStoreFrame.lean`.
-/
namespace RaftVerif

namespace RaftLog

/-- the two apply cursors -/
def cur (l : RaftLog) : Nat × Nat := (l.applying, l.applied)

theorem append_cur {l : RaftLog} {ents : List Entry} {p : RaftLog × Nat} (h : l.append ents = .ok p) :
    p.1.cur = l.cur := by
  unfold append at h
  cases ents with
  | nil => simp only [pure, Except.pure, Except.ok.injEq] at h; rw [← h]
  | cons e0 rest =>
    simp only at h
    split at h
    · simp [throw, throwThe, MonadExceptOf.throw] at h
    · cases hu : l.unstable.truncateAndAppend (e0 :: rest) with
      | error e => simp [hu, bind, Except.bind] at h
      | ok u =>
        simp only [hu, bind, Except.bind, pure, Except.pure, Except.ok.injEq] at h
        rw [← h]; rfl

theorem commitTo_cur {l l' : RaftLog} {t : Nat} (h : l.commitTo t = .ok l') : l'.cur = l.cur :=
by
  unfold RaftLog.commitTo at h
  split at h
  · split at h
    · cases h
    · injection h with h; subst h; rfl
  · injection h with h; subst h; rfl

theorem maybeAppend_cur {l : RaftLog} {prev : EntryID} {ents : List Entry} {c : Nat}
    {p : RaftLog × Option Nat} (h : l.maybeAppend prev ents c = .ok p) : p.1.cur = l.cur := by
  unfold maybeAppend at h
  by_cases hm : (!l.matchTerm prev) = true
  · simp only [hm, if_true, pure, Except.pure, Except.ok.injEq] at h
    rw [← h]
  · rw [if_neg hm] at h
    by_cases hc : (l.findConflict ents == 0) = true
    · rw [if_pos hc] at h
      obtain ⟨l1, hl1, h⟩ := bind_eq_ok.1 h
      obtain ⟨l2, hl2, h⟩ := bind_eq_ok.1 h
      simp only [pure, Except.pure, Except.ok.injEq] at h hl1
      rw [← h, hl1]; exact commitTo_cur hl2
    · rw [if_neg hc] at h
      by_cases hc2 : l.findConflict ents ≤ l.committed
      · rw [if_pos hc2] at h
        obtain ⟨l1, hl1, h⟩ := bind_eq_ok.1 h
        simp [throw, throwThe, MonadExceptOf.throw] at hl1
      · rw [if_neg hc2] at h
        by_cases hc3 : usub (l.findConflict ents) (prev.index + 1) > ents.length
        · rw [if_pos hc3] at h
          obtain ⟨l1, hl1, h⟩ := bind_eq_ok.1 h
          simp [throw, throwThe, MonadExceptOf.throw] at hl1
        · rw [if_neg hc3] at h
          obtain ⟨⟨l3, li⟩, hp, h⟩ := bind_eq_ok.1 h
          obtain ⟨l1, hl1, h⟩ := bind_eq_ok.1 h
          obtain ⟨l2, hl2, h⟩ := bind_eq_ok.1 h
          simp only [pure, Except.pure, Except.ok.injEq] at h hl1
          have e1 := append_cur hp
          have e2 := commitTo_cur hl2
          rw [← h]; rw [← hl1] at *; exact e2.trans e1

theorem maybeCommit_cur {l : RaftLog} {at_ : EntryID} {p : RaftLog × Bool}
    (h : l.maybeCommit at_ = .ok p) : p.1.cur = l.cur := by
  unfold maybeCommit at h
  split at h
  · simp only [bind, Except.bind] at h
    split at h
    · simp at h
    · rename_i l1 hl1
      simp only [pure, Except.pure, Except.ok.injEq] at h
      rw [← h]; exact commitTo_cur hl1
  · simp only [pure, Except.pure, Except.ok.injEq] at h
    rw [← h]

theorem stableTo_cur (l : RaftLog) (id : EntryID) : (l.stableTo id).cur = l.cur := rfl
theorem stableSnapTo_cur (l : RaftLog) (i : Nat) : (l.stableSnapTo i).cur = l.cur := rfl
theorem restore_cur (l : RaftLog) (s : Snapshot) : (l.restore s).cur = l.cur := rfl

end RaftLog

namespace Sim
open Raft

/-- both apply cursors of the log are untouched -/
def CurE (s s' : Raft) : Prop := s'.log.cur = s.log.cur
instance : RelOK CurE := ⟨fun _ => rfl, fun h1 h2 => Eq.trans h2 h1⟩

theorem CurE.of {s x : Raft} (h : x.log.cur = s.log.cur) : CurE s x := h
theorem CurE.of_log {s x : Raft} (h : x.log = s.log) : CurE s x := congrArg RaftLog.cur h
theorem SendFrame.curE {s s' : Raft} (h : SendFrame s s') : CurE s s' := CurE.of_log h.log

/-- the cursors of the new log are those of the old one, from a hypothesis about the `Log` function used -/
macro "cur_tac" : tactic => `(tactic| first
  | rfl
  | exact RaftLog.append_cur (by assumption)
  | exact RaftLog.maybeAppend_cur (by assumption)
  | exact RaftLog.maybeCommit_cur (by assumption)
  | exact RaftLog.commitTo_cur (by assumption))

macro_rules | `(tactic| rel_fields) => `(tactic| exact CurE.of (by cur_tac))

/-- registered `CurE` call rules -/
syntax "cue_step" : tactic

theorem send_cue (m : Message) (s : Raft) : Spec (send m) s (fun _ s' => CurE s s') :=
  (send_sf m s).mono fun _ _ h => SendFrame.curE h
theorem maybeSendAppend_cue (to : Id) (b : Bool) (s : Raft) :
    Spec (maybeSendAppend to b) s (fun _ s' => CurE s s') :=
  (maybeSendAppend_sf to b s).mono fun _ _ h => SendFrame.curE h
theorem sendAppendLoop_cue (n : Nat) (to : Id) (s : Raft) :
    Spec (sendAppendLoop n to) s (fun _ s' => CurE s s') :=
  (sendAppendLoop_sf n to s).mono fun _ _ h => SendFrame.curE h
theorem sendHeartbeat_cue (to : Id) (c : Option Bytes) (s : Raft) :
    Spec (sendHeartbeat to c) s (fun _ s' => CurE s s') :=
  (sendHeartbeat_sf to c s).mono fun _ _ h => SendFrame.curE h
theorem bcastAppend_cue (s : Raft) : Spec bcastAppend s (fun _ s' => CurE s s') :=
  (bcastAppend_sf s).mono fun _ _ h => SendFrame.curE h
theorem bcastHeartbeat_cue (s : Raft) : Spec bcastHeartbeat s (fun _ s' => CurE s s') :=
  (bcastHeartbeat_sf s).mono fun _ _ h => SendFrame.curE h

macro_rules | `(tactic| cue_step) => `(tactic| rel_call (send_cue ..))
macro_rules | `(tactic| cue_step) => `(tactic| rel_call (maybeSendAppend_cue ..))
macro_rules | `(tactic| cue_step) => `(tactic| rel_call (sendAppendLoop_cue ..))
macro_rules | `(tactic| cue_step) => `(tactic| rel_call (sendHeartbeat_cue ..))
macro_rules | `(tactic| cue_step) => `(tactic| rel_call (bcastAppend_cue ..))
macro_rules | `(tactic| cue_step) => `(tactic| rel_call (bcastHeartbeat_cue ..))
macro_rules | `(tactic| cue_step) => `(tactic| same_call (hasUnappliedConfChanges_same ..))
macro_rules | `(tactic| cue_step) => `(tactic| same_call (decodeCC_same ..))

theorem reset_cue (t : Nat) (s : Raft) : Spec (reset t) s (fun _ s' => CurE s s') :=
  (reset_spec_st t s).mono fun _ _ ⟨_, _, _, _, h3, _⟩ => CurE.of_log h3
theorem becomeFollower_cue (t l : Nat) (s : Raft) : Spec (becomeFollower t l) s (fun _ s' => CurE s s') :=
  (becomeFollower_spec t l s).mono fun _ _ ⟨_, _, _, _, h3, _⟩ => CurE.of_log h3
theorem becomeCandidate_cue (s : Raft) : Spec becomeCandidate s (fun _ s' => CurE s s') :=
  (becomeCandidate_spec s).mono fun _ _ ⟨_, _, _, _, _, h3, _⟩ => CurE.of_log h3
theorem becomePreCandidate_cue (s : Raft) : Spec becomePreCandidate s (fun _ s' => CurE s s') :=
  (becomePreCandidate_spec s).mono fun _ s' ⟨_, h⟩ => by subst h; exact CurE.of rfl

macro_rules | `(tactic| cue_step) => `(tactic| rel_call (reset_cue ..))
macro_rules | `(tactic| cue_step) => `(tactic| rel_call (becomeFollower_cue ..))
macro_rules | `(tactic| cue_step) => `(tactic| rel_call (becomeCandidate_cue ..))
macro_rules | `(tactic| cue_step) => `(tactic| rel_call (becomePreCandidate_cue ..))

theorem maybeCommit_cue (s : Raft) : Spec maybeCommit s (fun _ s' => CurE s s') := by
  unfold maybeCommit
  rel_start
  wp_auto [cue_step]
macro_rules | `(tactic| cue_step) => `(tactic| rel_call (maybeCommit_cue ..))

theorem increaseUncommittedSize_cue (es : List Entry) (s : Raft) :
    Spec (increaseUncommittedSize es) s (fun _ s' => CurE s s') := by
  unfold increaseUncommittedSize
  rel_start
  wp_auto [cue_step]
macro_rules | `(tactic| cue_step) => `(tactic| rel_call (increaseUncommittedSize_cue ..))

theorem appendEntry_cue (es : List Entry) (s : Raft) : Spec (appendEntry es) s (fun _ s' => CurE s s') := by
  unfold appendEntry
  rel_start
  wp_auto [cue_step]
macro_rules | `(tactic| cue_step) => `(tactic| rel_call (appendEntry_cue ..))


theorem becomeLeader_cue (s : Raft) : Spec becomeLeader s (fun _ s' => CurE s s') := by
  unfold becomeLeader
  rel_start
  wp_auto [cue_step]
macro_rules | `(tactic| cue_step) => `(tactic| rel_call (becomeLeader_cue ..))

theorem campaign_cue (t : CampaignType) (s : Raft) : Spec (campaign t) s (fun _ s' => CurE s s') := by
  unfold campaign
  rel_start
  wp_auto [first | cue_step | rel_loop CurE]
macro_rules | `(tactic| cue_step) => `(tactic| rel_call (campaign_cue ..))

theorem hup_cue (t : CampaignType) (s : Raft) : Spec (hup t) s (fun _ s' => CurE s s') := by
  unfold hup
  rel_start
  wp_auto [cue_step]
macro_rules | `(tactic| cue_step) => `(tactic| rel_call (hup_cue ..))

theorem responseToReadIndexReq_cue (req : Message) (i : Nat) (s : Raft) : Spec (responseToReadIndexReq req i) s (fun _ s' => CurE s s') := by
  unfold responseToReadIndexReq
  rel_start
  wp_auto [cue_step]
macro_rules | `(tactic| cue_step) => `(tactic| rel_call (responseToReadIndexReq_cue ..))

theorem sendReadIndexResp_cue (req : Message) (i : Nat) (s : Raft) : Spec (sendReadIndexResp req i) s (fun _ s' => CurE s s') := by
  unfold sendReadIndexResp
  rel_start
  wp_auto [cue_step]
macro_rules | `(tactic| cue_step) => `(tactic| rel_call (sendReadIndexResp_cue ..))

theorem sendMsgReadIndexResponse_cue (m : Message) (s : Raft) : Spec (sendMsgReadIndexResponse m) s (fun _ s' => CurE s s') := by
  unfold sendMsgReadIndexResponse
  rel_start
  wp_auto [cue_step]
macro_rules | `(tactic| cue_step) => `(tactic| rel_call (sendMsgReadIndexResponse_cue ..))

theorem releasePendingReadIndexMessages_cue (s : Raft) : Spec releasePendingReadIndexMessages s (fun _ s' => CurE s s') := by
  unfold releasePendingReadIndexMessages
  rel_start
  wp_auto [first | cue_step | rel_loop CurE]
macro_rules | `(tactic| cue_step) => `(tactic| rel_call (releasePendingReadIndexMessages_cue ..))

theorem handleAppendEntries_cue (m : Message) (s : Raft) : Spec (handleAppendEntries m) s (fun _ s' => CurE s s') := by
  unfold handleAppendEntries
  rel_start
  wp_auto [cue_step]
macro_rules | `(tactic| cue_step) => `(tactic| rel_call (handleAppendEntries_cue ..))

theorem handleHeartbeat_cue (m : Message) (s : Raft) : Spec (handleHeartbeat m) s (fun _ s' => CurE s s') := by
  unfold handleHeartbeat
  rel_start
  wp_auto [cue_step]
macro_rules | `(tactic| cue_step) => `(tactic| rel_call (handleHeartbeat_cue ..))

theorem switchToConfig_cue (cfg : TrackerConfig) (trk : ProgressMap) (s : Raft) : Spec (switchToConfig cfg trk) s (fun _ s' => CurE s s') := by
  unfold switchToConfig
  rel_start
  wp_auto [first | cue_step | rel_loop CurE]
macro_rules | `(tactic| cue_step) => `(tactic| rel_call (switchToConfig_cue ..))

theorem restore_cue (snap : Snapshot) (s : Raft) : Spec (restore snap) s (fun _ s' => CurE s s') := by
  unfold restore
  rel_start
  wp_auto [cue_step]
macro_rules | `(tactic| cue_step) => `(tactic| rel_call (restore_cue ..))

theorem handleSnapshot_cue (m : Message) (s : Raft) : Spec (handleSnapshot m) s (fun _ s' => CurE s s') := by
  unfold handleSnapshot
  rel_start
  wp_auto [cue_step]
macro_rules | `(tactic| cue_step) => `(tactic| rel_call (handleSnapshot_cue ..))

theorem applyConfChange_cue (cc : ConfChangeV2) (s : Raft) : Spec (applyConfChange cc) s (fun _ s' => CurE s s') := by
  unfold applyConfChange
  rel_start
  wp_auto [cue_step]
macro_rules | `(tactic| cue_step) => `(tactic| rel_call (applyConfChange_cue ..))

theorem stepFollower_cue (fuel : Nat) (m : Message) (s : Raft) : Spec (stepFollower fuel m) s (fun _ s' => CurE s s') := by
  rw [stepFollower]
  rel_start
  wp_auto [cue_step]
macro_rules | `(tactic| cue_step) => `(tactic| rel_call (stepFollower_cue ..))

theorem stepCandidate_cue (fuel : Nat) (m : Message) (s : Raft) : Spec (stepCandidate fuel m) s (fun _ s' => CurE s s') := by
  rw [stepCandidate]
  rel_start
  wp_auto [cue_step]
macro_rules | `(tactic| cue_step) => `(tactic| rel_call (stepCandidate_cue ..))

theorem stepLeader_cue (fuel : Nat) (m : Message) (s : Raft) : Spec (stepLeader fuel m) s (fun _ s' => CurE s s') := by
  rw [stepLeader]
  rel_start
  wp_auto [first | cue_step | rel_loop CurE]
macro_rules | `(tactic| cue_step) => `(tactic| rel_call (stepLeader_cue ..))

/-- **`Step` keeps the apply cursors** for every message except the two storage acknowledgements -/
theorem step_cue' (fuel : Nat) (m : Message) (s : Raft) (h1 : m.typ ≠ .storageAppendResp)
    (h2 : m.typ ≠ .storageApplyResp) : Spec (step fuel m) s (fun _ s' => CurE s s') := by
  cases fuel with
  | zero => rw [step]; simp only [wp]
  | succ fuel =>
    rw [step]
    rel_start
    wp_auto [first
      | (exfalso; exact h1 (by assumption))
      | (exfalso; exact h1 (eq_of_beq (by assumption)))
      | (exfalso; exact h2 (by assumption))
      | cue_step]

theorem tickElection_cue (s : Raft) : Spec tickElection s (fun _ s' => CurE s s') := by
  unfold tickElection
  rel_start
  wp_auto [first | rel_call (step_cue' _ _ _ (by simp) (by simp)) | cue_step]

theorem tickHeartbeat_cue (s : Raft) : Spec tickHeartbeat s (fun _ s' => CurE s s') := by
  unfold tickHeartbeat
  rel_start
  wp_auto [first | rel_call (step_cue' _ _ _ (by simp) (by simp)) | cue_step]

theorem tick_cue (s : Raft) : Spec tick s (fun _ s' => CurE s s') := by
  unfold tick
  rel_start
  wp_auto [first | rel_call (tickElection_cue ..) | rel_call (tickHeartbeat_cue ..)]

/-- **`Raft.step` keeps the apply cursors** for every message that is no storage acknowledgement -/
theorem step_cursors {fuel : Nat} {m : Message} {r r' : Raft} {e : Option StepErr}
    (h1 : m.typ ≠ .storageAppendResp) (h2 : m.typ ≠ .storageApplyResp)
    (h : (Raft.step fuel m).run r = .ok (e, r')) :
    r'.log.applying = r.log.applying ∧ r'.log.applied = r.log.applied := by
  have := (step_cue' fuel m r h1 h2).elim h
  exact ⟨congrArg Prod.fst this, congrArg Prod.snd this⟩

/-- **`Raft.tick` keeps the apply cursors** -/
theorem tick_cursors {r r' : Raft} (h : Raft.tick.run r = .ok ((), r')) :
    r'.log.applying = r.log.applying ∧ r'.log.applied = r.log.applied := by
  have := (tick_cue r).elim h
  exact ⟨congrArg Prod.fst this, congrArg Prod.snd this⟩

end Sim

end RaftVerif
