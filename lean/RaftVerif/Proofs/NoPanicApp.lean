import RaftVerif.Proofs.NoPanicRaw
/-!
# Proofs/NoPanicApp — a MsgApp of the node's own term never throws (C14 end to end)

The only assertion on the path is `maybeAppend: conflict with committed entry`.  It is excluded by `AppAgrees`:
every entry of the message at or below the receiver's commit index agrees with the receiver's log — the
model-level consequence of Spec fact S3 (`Spec.app_keeps_commit`: the entries lie in the ghost log of the term,
with which the receiver's committed prefix agrees).
A candidate / pre-candidate first becomes follower (`reset` consumes one election-timeout draw).
-/
set_option linter.unusedSimpArgs false
set_option linter.unusedVariables false
namespace RaftVerif.NoPanicP
open Raft C14 Sim Refine

/-- every entry of the message at or below the commit index agrees with the log -/
def AppAgrees (val : Val) (r : Raft) (m : Message) : Prop :=
  ∀ e ∈ m.entries, e.index ≤ r.log.committed → (absLog val r).termAt e.index = some e.term

/-- list level: entries that lie in `G` after `idx` agree with any log that shares its first `c` entries with `G` -/
theorem agrees_of_prefix (val : Val) (L G : Spec.Log) (ents : List Entry) (idx c : Nat)
    (hpre : (ents.map (absEnt val)) <+: G.drop idx) (hcp : L.take c = G.take c) (hc : c ≤ L.length)
    (hcont : Contig (idx + 1) ents) :
    ∀ e ∈ ents, e.index ≤ c → L.termAt e.index = some e.term := by
  intro e he hle
  obtain ⟨k, hk, rfl⟩ := List.getElem_of_mem he
  have hi : ents[k].index = idx + 1 + k := hcont k hk
  obtain ⟨t, ht⟩ := hpre
  have hG : G[idx + k]? = some (absEnt val ents[k]) := by
    rw [← List.getElem?_drop, ← ht, List.getElem?_append_left (by simpa using hk)]
    simp [hk]
  have hL : L[idx + k]? = G[idx + k]? := by
    have h1 : (L.take c)[idx + k]? = L[idx + k]? := List.getElem?_take_of_lt (by omega)
    have h2 : (G.take c)[idx + k]? = G[idx + k]? := List.getElem?_take_of_lt (by omega)
    rw [← h1, ← h2, hcp]
  unfold Spec.Log.termAt
  rw [if_neg (by omega), hi]
  have : idx + 1 + k - 1 = idx + k := by omega
  rw [this, hL, hG]
  rfl

/-- **S3 at the model level** -/
theorem appAgrees_of_spec {val : Val} {r : Raft} {m : Message} (G : Spec.Log)
    (hpre : (m.entries.map (absEnt val)) <+: G.drop m.index)
    (hcp : (absLog val r).take r.log.committed = G.take r.log.committed)
    (hc : r.log.committed ≤ (absLog val r).length) (hwf : r.log.WF) (hu : Uncompacted r.log)
    (hcont : Contig (m.index + 1) m.entries) : AppAgrees val r m :=
  agrees_of_prefix val (absLog val r) G m.entries m.index r.log.committed hpre hcp hc hcont

/-- `AppAgrees` only looks at the log -/
theorem AppAgrees.congr {val : Val} {r r' : Raft} {m : Message} (h : AppAgrees val r m) (hl : r'.log = r.log) :
    AppAgrees val r' m := by
  unfold AppAgrees absLog at *
  rw [hl]; exact h

/-- **handleAppendEntries never throws** on a well-formed uncompacted log when the entries at or below the commit
index agree with the log: `findConflict` then points above the commit index -/
theorem noErr_handleAppendEntries {val : Val} (m : Message) (r : Raft) (hwf : r.log.WF) (hu : Uncompacted r.log)
    (hcont : Contig (m.index + 1) m.entries) (hagree : AppAgrees val r m) :
    NoErr (handleAppendEntries m) r := by
  intro e he
  obtain ⟨_, _, _, hne, hle⟩ := (panic_handleAppendEntries_wf_iff m r hwf hcont e).mp he
  rcases RaftLog.findConflict_spec hwf m.entries with ⟨_, h0⟩ | ⟨pre, x, post, heq, _, hx, hfc⟩
  · exact hne h0
  · rw [hfc] at hle
    exact hx ((agrees_iff val hu x).mpr (hagree x (by rw [heq]; simp) hle))

/-- leader: a MsgApp is ignored -/
theorem noErr_stepLeader_app (fuel : Nat) (m : Message) (r : Raft) (ht : m.typ = .app) :
    NoErr (stepLeader fuel m) r :=
  NoErr.of_ok (app_stepLeader_run fuel m r ht)

/-- follower: note the leader, then `handleAppendEntries` -/
theorem noErr_stepFollower_app {val : Val} (fuel : Nat) (m : Message) (r : Raft) (ht : m.typ = .app)
    (hwf : r.log.WF) (hu : Uncompacted r.log) (hcont : Contig (m.index + 1) m.entries)
    (hagree : AppAgrees val r m) : NoErr (stepFollower fuel m) r := by
  intro e he
  rw [stepFollower_app_run fuel m ht r] at he
  revert e
  show NoErr _ r
  simp only [np, wp, true_and, and_true]
  exact ⟨noErr_handleAppendEntries (val := val) m _ hwf hu hcont (hagree.congr rfl), Spec.trivial _ _⟩

/-- `becomeFollower` needs one election-timeout draw (`reset`) -/
theorem app_noErr_becomeFollower (t l : Nat) (r : Raft) (hd : r.draws ≠ []) : NoErr (becomeFollower t l) r := by
  unfold becomeFollower
  simp only [np, wp, and_true]
  refine ⟨fun e he => hd ((panic_reset_iff t r e).mp he).2, Spec.trivial _ _⟩

/-- candidate / pre-candidate: become follower of the sender (log unchanged), then `handleAppendEntries` -/
theorem noErr_stepCandidate_app {val : Val} (fuel : Nat) (m : Message) (r : Raft) (ht : m.typ = .app)
    (hwf : r.log.WF) (hu : Uncompacted r.log) (hcont : Contig (m.index + 1) m.entries)
    (hagree : AppAgrees val r m) (hd : r.draws ≠ []) : NoErr (stepCandidate fuel m) r := by
  intro e he
  rw [stepCandidate_app_run fuel m ht r] at he
  revert e
  show NoErr _ r
  refine NoErr.bind_of (app_noErr_becomeFollower _ _ r hd) (Raft.becomeFollower_spec m.term m.from r) ?_
  intro _ mid ⟨_, _, _, _, hl, _⟩
  simp only [np, wp, and_true]
  exact ⟨noErr_handleAppendEntries (val := val) m mid (by rw [hl]; exact hwf) (by rw [hl]; exact hu) hcont
    (hagree.congr hl), Spec.trivial _ _⟩

/-- **MsgApp of the node's own term never throws** (model level) -/
theorem noErr_step_app_same' {val : Val} {r : Raft} (hwf : r.log.WF) (hu : Uncompacted r.log) (fuel : Nat)
    (m : Message) (ht : m.typ = .app) (hterm : m.term = r.term)
    (hcont : Contig (m.index + 1) m.entries) (hagree : AppAgrees val r m)
    (hd : r.state = .candidate ∨ r.state = .preCandidate → r.draws ≠ []) :
    NoErr (Raft.step (fuel + 1) m) r := by
  intro e he
  rw [step_same_term_dispatch fuel m r (Or.inr hterm) (by rw [ht]; decide)] at he
  revert e
  show NoErr _ r
  unfold dispatch
  cases hs : r.state with
  | leader => exact noErr_stepLeader_app fuel m r ht
  | candidate => exact noErr_stepCandidate_app fuel m r ht hwf hu hcont hagree (hd (Or.inl hs))
  | preCandidate => exact noErr_stepCandidate_app fuel m r ht hwf hu hcont hagree (hd (Or.inr hs))
  | follower => exact noErr_stepFollower_app fuel m r ht hwf hu hcont hagree

/-- **MsgApp of the node's own term never throws** (simulation-invariant form).  `h0`, `hfrom` are not needed: the
MsgAppResp is stamped by `send` and queued in `msgsAfterAppend` (no self-address check). -/
theorem noErr_step_app_same {val : Val} {voters : List Id} {n : Nat} {r : Raft} {nd : Spec.Node} {msgs}
    (hinv : RaftInv val voters n r nd msgs) (fuel : Nat) (m : Message) (ht : m.typ = .app)
    (hterm : m.term = r.term) (h0 : m.term ≠ 0) (hfrom : m.from ≠ n)
    (hcont : Contig (m.index + 1) m.entries) (hagree : AppAgrees val r m)
    (hd : r.state = .candidate ∨ r.state = .preCandidate → r.draws ≠ []) :
    NoErr (Raft.step (fuel + 1) m) r :=
  noErr_step_app_same' hinv.wf hinv.unc fuel m ht hterm hcont hagree hd

end RaftVerif.NoPanicP
