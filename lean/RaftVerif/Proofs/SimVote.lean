import RaftVerif.Proofs.SimInv
/-!
# Proofs/SimVote — a MsgVote of the node's own term: Spec `grant` or nothing
-/
namespace RaftVerif.Sim
open Refine

/-- **MsgVote at the node's own term** is simulated by Spec `grant` (vote granted) or by no action (rejected) -/
theorem sim_vote_same {val : Val} {voters : List Id} {n : Nat} {s : Spec.State} {r r' : Raft} {m : Message}
    {e : Option StepErr} {fuel : Nat} (hinv : RaftInv val voters n r (s.nodes n) s.msgs)
    (ht : m.typ = .vote) (hterm : m.term = r.term) (hto : m.to = n) (hin : NetOK val s.msgs m)
    (h : (Raft.step (fuel + 1) m).run r = .ok (e, r')) : RaftSim val voters n s r' := by
  unfold NetOK at hin
  simp only [ht] at hin
  obtain ⟨ht0, hf0, hfn, hsoup⟩ := hin
  obtain ⟨_, ⟨hcv, hup, rfl⟩ | ⟨_, rfl⟩⟩ := step_vote_refine val fuel m r r' e ht hterm hinv.wf hinv.unc h
  · -- granted
    have hs : r.state ≠ .leader := by
      intro hl
      obtain ⟨h1, h2⟩ := hinv.leadInv hl
      rcases hcv with h3 | h3
      · exact hfn (by rw [← h3, h2, hto])
      · exact hinv.st.idnz (by rw [← h1, h3.2])
    have hen := grant_enabled val (cfgOf voters) hinv.abs hterm hs hcv hup hf0 hsoup
    refine ⟨[.grant n m.from m.logTerm m.index], _, .single hen, by simp [Spec.Action.actor], ?_⟩
    have hm : (Spec.apply s (.grant n m.from m.logTerm m.index)).msgs = s.msgs := rfl
    rw [hm, grant_nodes]
    exact {
      abs := by have := granted_abs (m := m) val hinv.abs; rwa [grant_nodes] at this
      st := hinv.st.congr rfl rfl rfl rfl rfl rfl
      wf := hinv.wf
      unc := hinv.unc
      leadInv := fun hl => absurd hl hs
      candVote := by
        intro hc
        show m.from = n
        have hv := hinv.candVote hc
        rcases hcv with h3 | h3
        · rw [← h3, hv]
        · exact absurd (hv.symm.trans h3.1) hinv.st.idnz
      termPos := hinv.termPos
      logLe := hinv.logLe
      candLt := hinv.candLt
      pend := hinv.pend
      durV := fun p hp => List.mem_cons_of_mem _ (hinv.durV p hp)
      durA := hinv.durA
      out := hinv.out
      prom := by
        intro x hx
        rcases List.mem_append.1 hx with hx | hx
        · obtain ⟨a, b, c⟩ := hinv.prom x hx
          refine ⟨a, b, ?_⟩
          revert c
          split
          · exact fun c hr => List.mem_cons_of_mem _ (c hr)
          · exact id
          · exact id
        · simp only [List.mem_singleton] at hx
          subst hx
          refine ⟨hinv.st.id, by show r.term ≠ 0; rw [← hterm]; exact ht0, ?_⟩
          show false = false → (r.term, m.from) ∈ _
          intro _
          rw [hinv.abs.term]
          exact List.mem_cons_self
      rvTerm := hinv.rvTerm
      rvCov := hinv.rvCov
      votes := hinv.votes
      selfVote := hinv.selfVote
      matchO := hinv.matchO
      matchS := hinv.matchS }
  · -- rejected
    refine RaftSim.refl ?_
    exact {
      abs := rejected_abs val hinv.abs
      st := hinv.st.congr rfl rfl rfl rfl rfl rfl
      wf := hinv.wf
      unc := hinv.unc
      leadInv := hinv.leadInv
      candVote := hinv.candVote
      termPos := hinv.termPos
      logLe := hinv.logLe
      candLt := hinv.candLt
      pend := hinv.pend
      durV := hinv.durV
      durA := hinv.durA
      out := hinv.out
      prom := by
        intro x hx
        rcases List.mem_append.1 hx with hx | hx
        · exact hinv.prom x hx
        · simp only [List.mem_singleton] at hx
          subst hx
          refine ⟨hinv.st.id, by show r.term ≠ 0; rw [← hterm]; exact ht0, ?_⟩
          show true = false → _
          intro h; cases h
      rvTerm := hinv.rvTerm
      rvCov := hinv.rvCov
      votes := hinv.votes
      selfVote := hinv.selfVote
      matchO := hinv.matchO
      matchS := hinv.matchS }

end RaftVerif.Sim
