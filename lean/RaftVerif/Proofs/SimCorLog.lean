import RaftVerif.Proofs.SimCorBase
/-!
# Proofs/SimCorLog — log matching and commit-within-log for the views of the nodes of a reachable cluster
-/
namespace RaftVerif.SimCorP
open Sim Refine Simulation

/-- the payload encoding that separates the payload of `e` from every other -/
def valFor (e : Entry) : Val := fun t d => if t = e.typ ∧ d = e.data then 1 else 0

/-- two entries with the same abstraction under `valFor e` (one of them `e`) agree on term, type and data -/
theorem valFor_sep {e e' : Entry} (h : absEnt (valFor e) e = absEnt (valFor e) e') :
    e.term = e'.term ∧ e.typ = e'.typ ∧ e.data = e'.data := by
  have ht : e.term = e'.term := congrArg Spec.Ent.term h
  have hv : valFor e e.typ e.data = valFor e e'.typ e'.data := congrArg Spec.Ent.val h
  have hv1 : valFor e e.typ e.data = 1 := by simp [valFor]
  rw [hv1] at hv
  by_cases hcond : e'.typ = e.typ ∧ e'.data = e.data
  · exact ⟨ht, hcond.1.symm, hcond.2.symm⟩
  · simp [valFor, hcond] at hv

/-- equal abstract prefixes give equal abstract entries -/
theorem take_getElem {val : Val} {L1 L2 : List Entry} {i k : Nat}
    (h : (L1.map (absEnt val)).take i = (L2.map (absEnt val)).take i) (hk : k < i) :
    (L1[k]?).map (absEnt val) = (L2[k]?).map (absEnt val) := by
  have := congrArg (fun l => l[k]?) h
  simpa [List.getElem?_take, hk] using this

/-- `termAt` of an abstracted entry list -/
theorem termAt_map (val : Val) (L : List Entry) {i : Nat} (hi : 1 ≤ i) :
    Spec.Log.termAt (L.map (absEnt val)) i = (L[i - 1]?).map (·.term) := by
  rw [Spec.Log.termAt_pos _ hi]
  simp only [List.getElem?_map, Option.map_map]
  rfl

/-- **log matching, abstract form**: two views (raftLog or storage, of any two nodes) that hold entries of the same
term at index `i` have the same abstract prefix up to `i` -/
theorem log_matching_abs {val : Val} {voters : List Id} {c0 c : Cluster} (h : Setting voters c0 c)
    {s : Spec.State} (hs : Spec.Reachable (cfgOf voters) s) (hR : RSD val voters c s)
    {a b : Nat} {ra rb : RawNode} (ha : c.nodes a = some ra) (hb : c.nodes b = some rb) (sa sb : Bool)
    {i : Nat} (hi : 1 ≤ i) {e e' : Entry} (he : (entsOf ra sa)[i - 1]? = some e)
    (he' : (entsOf rb sb)[i - 1]? = some e') (ht : e.term = e'.term) :
    ((entsOf ra sa).map (absEnt val)).take i = ((entsOf rb sb).map (absEnt val)).take i := by
  have VA := viewOK hR ha sa
  have VB := viewOK hR hb sb
  have hlen : i ≤ (entsOf ra sa).length := by
    have := (List.getElem?_eq_some_iff.1 he).1
    omega
  have key := Spec.log_matching _ h.cfgOK s hs a b _ _ (verOf_mem (s.nodes a) sa) (verOf_mem (s.nodes b) sb) i hi
    (by rw [VA.log, List.length_map]; exact hlen)
    (by rw [VA.log, VB.log, termAt_map val _ hi, termAt_map val _ hi, he, he']; simp [ht])
  rw [VA.log, VB.log] at key
  exact key

/-- **log matching, concrete form**: … then every two entries at an index `j ≤ i` agree on term, type, data and
index -/
theorem log_matching_views {voters : List Id} {c0 c : Cluster} (h : Setting voters c0 c)
    {a b : Nat} {ra rb : RawNode} (ha : c.nodes a = some ra) (hb : c.nodes b = some rb) (sa sb : Bool)
    {i : Nat} (hi : 1 ≤ i) {e e' : Entry} (he : (entsOf ra sa)[i - 1]? = some e)
    (he' : (entsOf rb sb)[i - 1]? = some e') (ht : e.term = e'.term)
    {j : Nat} (hj : 1 ≤ j) (hji : j ≤ i) :
    ∃ x y, (entsOf ra sa)[j - 1]? = some x ∧ (entsOf rb sb)[j - 1]? = some y ∧
      x.term = y.term ∧ x.typ = y.typ ∧ x.data = y.data ∧ x.index = j ∧ y.index = j := by
  have hla : j - 1 < (entsOf ra sa).length := by
    have := (List.getElem?_eq_some_iff.1 he).1
    omega
  have hlb : j - 1 < (entsOf rb sb).length := by
    have := (List.getElem?_eq_some_iff.1 he').1
    omega
  obtain ⟨x, hx⟩ : ∃ x, (entsOf ra sa)[j - 1]? = some x := ⟨_, List.getElem?_eq_getElem hla⟩
  obtain ⟨y, hy⟩ : ∃ y, (entsOf rb sb)[j - 1]? = some y := ⟨_, List.getElem?_eq_getElem hlb⟩
  obtain ⟨s, hs, hR⟩ := h.related (valFor x)
  have key := take_getElem (log_matching_abs h hs hR ha hb sa sb hi he he' ht) (k := j - 1) (by omega)
  rw [hx, hy] at key
  simp only [Option.map_some, Option.some.injEq] at key
  obtain ⟨k1, k2, k3⟩ := valFor_sep key
  have ix := ents_index hR ha sa hx
  have iy := ents_index hR hb sb hy
  exact ⟨x, y, hx, hy, k1, k2, k3, by omega, by omega⟩

/-- **commit within log** for both views: the (current / stored) commit index is within the (raftLog / storage) -/
theorem commit_within_views {voters : List Id} {c0 c : Cluster} (h : Setting voters c0 c)
    {a : Nat} {ra : RawNode} (ha : c.nodes a = some ra) (sa : Bool) :
    (hsOf ra sa).commit ≤ (entsOf ra sa).length := by
  obtain ⟨s, hs, hR⟩ := h.related (fun _ _ => 0)
  have VA := viewOK hR ha sa
  have := Spec.commit_within_log _ h.cfgOK s hs a _ (verOf_mem (s.nodes a) sa)
  rw [VA.commit, VA.log, List.length_map] at this
  exact this

/-- an abstract `at?` that is `some` comes from a model entry -/
theorem at?_map {val : Val} {L : List Entry} {i : Nat} (hi : 1 ≤ i) :
    Spec.Log.at? (L.map (absEnt val)) i = (L[i - 1]?).map (absEnt val) := by
  unfold Spec.Log.at?
  rw [if_neg (by omega), List.getElem?_map]

end RaftVerif.SimCorP
