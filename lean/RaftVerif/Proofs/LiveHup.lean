import RaftVerif.Proofs.LiveTick
/-!
# Proofs/LiveHup — what the `MsgHup` stepped by the election timer does (C15)

`campaign(campaignElection)` makes the node a candidate of the next term that voted for itself;
`campaign(campaignPreElection)` makes it a pre-candidate of the same term.  `hup` does that unless the
node is leader, is not promotable, or has an unapplied configuration change (then nothing happens).
-/
namespace RaftVerif.Live
open Raft
set_option linter.unusedSimpArgs false

theorem campaign_election_spec (s : Raft) :
    Spec (campaign .election) s (fun _ s' =>
      s'.state = .candidate ∧ s'.term = s.term + 1 ∧ s'.vote = s.cfg.id ∧ s'.lead = 0 ∧ s'.log = s.log) := by
  unfold campaign
  simp (config := {decide := true}) only [wp, beq_iff_eq, reduceCtorEq, false_implies, true_implies,
    not_false_eq_true, true_and]
  refine (becomeCandidate_spec s).mono ?_
  intro _ mid ⟨_, h1, h2, h3, h4, h5, _⟩
  refine Spec.mono (Q := fun _ s' => SendFrame mid s') ?_
    (fun _ s' h => ⟨h.state.trans h4, h.term.trans h1, h.vote.trans h2, h.lead.trans h3, h.log.trans h5⟩)
  rel_start
  wp_auto [first | sf_step | rel_loop SendFrame]

theorem campaign_preElection_spec (s : Raft) :
    Spec (campaign .preElection) s (fun _ s' =>
      s'.state = .preCandidate ∧ s'.term = s.term ∧ s'.vote = s.vote ∧ s'.lead = 0 ∧ s'.log = s.log) := by
  unfold campaign
  simp (config := {decide := true}) only [wp, beq_iff_eq, reduceCtorEq, false_implies, true_implies,
    not_false_eq_true, true_and]
  refine ⟨(becomePreCandidate_spec s).mono ?_, trivial⟩
  intro _ mid ⟨_, hmid⟩
  subst hmid
  refine Spec.mono
    (Q := fun _ s' => SendFrame { s with trk := s.trk.resetVotes, lead := 0, state := .preCandidate } s') ?_
    (fun _ s' h => ⟨h.state, h.term, h.vote, h.lead, h.log⟩)
  rel_start
  wp_auto [first | sf_step | rel_loop SendFrame]

/-- `hup(t)`: nothing for a leader, a node that is not promotable, or one with an unapplied conf change;
otherwise `campaign(t)` -/
theorem hup_run (t : CampaignType) (s : Raft) :
    (hup t).run s =
      if s.state = .leader then .ok ((), s)
      else if promotableB s = false then .ok ((), s)
      else hasUnappliedConfChanges.run s >>= fun p =>
        if p.1 = true then .ok ((), p.2) else (campaign t).run p.2 := by
  unfold hup
  simp only [StateT.run_bind, StateT.run_get, P_pure_eq, P_ok_bind]
  by_cases hl : s.state = .leader
  · have hl' : (s.state == Role.leader) = true := by simp [hl]
    rw [if_pos hl]
    simp only [hl', ↓reduceIte, StateT.run_pure, P_pure_eq]
  · have hl' : (s.state == Role.leader) = false := by simpa using hl
    rw [if_neg hl]
    simp only [hl', Bool.false_eq_true, ↓reduceIte, StateT.run_bind, promotable_run, P_ok_bind]
    cases hp : promotableB s
    · rw [if_pos rfl]
      simp only [Bool.not_false, ↓reduceIte, StateT.run_pure, P_pure_eq]
    · simp only [Bool.not_true, Bool.false_eq_true, Bool.true_eq_false, ↓reduceIte, StateT.run_bind]
      cases hu : hasUnappliedConfChanges.run s with
      | error e => rfl
      | ok p =>
        obtain ⟨b, s1⟩ := p
        cases b <;>
          simp only [P_ok_bind, Bool.false_eq_true, Bool.true_eq_false, ↓reduceIte, StateT.run_pure, P_pure_eq]

/-- nothing committed is waiting to be applied: no unapplied conf change -/
theorem hasUnappliedConfChanges_none (s : Raft) (h : s.log.committed ≤ s.log.applied) :
    hasUnappliedConfChanges.run s = .ok (false, s) := by
  unfold hasUnappliedConfChanges
  have hc : s.log.applied ≥ s.log.committed := h
  simp only [StateT.run_bind, StateT.run_get, P_pure_eq, P_ok_bind]
  rw [if_pos hc]
  rfl

/-- a local `MsgHup` (term 0): `hup(campaignPreElection)` with PreVote, `hup(campaignElection)` without -/
theorem step_hup_run (fuel : Nat) (m : Message) (s : Raft) (hm : m.typ = .hup) (h0 : m.term = 0) :
    (step (fuel + 1) m).run s =
      ((hup (if s.cfg.preVote = true then .preElection else .election)).run s >>= fun p => .ok (none, p.2)) := by
  rw [step]
  have h0' : (m.term == 0) = true := by simp [h0]
  simp only [StateT.run_bind, StateT.run_get, P_pure_eq, P_ok_bind, h0', ↓reduceIte, StateT.run_pure, hm]
  cases hpv : s.cfg.preVote
  · simp only [Bool.false_eq_true, ↓reduceIte, StateT.run_bind]
    generalize (hup CampaignType.election).run s = x
    cases x <;> rfl
  · simp only [↓reduceIte, StateT.run_bind]
    generalize (hup CampaignType.preElection).run s = x
    cases x <;> rfl

/-- **the `MsgHup` of a promotable non-leader without unapplied conf change starts a campaign** -/
theorem step_hup_campaigns (fuel : Nat) (m : Message) (s s' : Raft) (res : Option StepErr)
    (hm : m.typ = .hup) (h0 : m.term = 0) (hnl : s.state ≠ .leader) (hp : promotableB s = true)
    (hu : hasUnappliedConfChanges.run s = .ok (false, s))
    (h : (step (fuel + 1) m).run s = .ok (res, s')) :
    res = none ∧
    (s.cfg.preVote = false →
      s'.state = .candidate ∧ s'.term = s.term + 1 ∧ s'.vote = s.cfg.id ∧ s'.lead = 0 ∧ s'.log = s.log) ∧
    (s.cfg.preVote = true →
      s'.state = .preCandidate ∧ s'.term = s.term ∧ s'.vote = s.vote ∧ s'.lead = 0 ∧ s'.log = s.log) := by
  rw [step_hup_run fuel m s hm h0, hup_run, if_neg hnl, if_neg (by rw [hp]; simp), hu] at h
  simp only [P_ok_bind, Bool.false_eq_true, ↓reduceIte] at h
  obtain ⟨p, hc, h'⟩ := bind_eq_ok.1 h
  injection h' with h'; injection h' with e1 e2; subst e2
  refine ⟨e1.symm, fun hpv => ?_, fun hpv => ?_⟩
  · rw [hpv] at hc
    exact (campaign_election_spec s).elim hc
  · rw [hpv] at hc
    exact (campaign_preElection_spec s).elim hc

end RaftVerif.Live
