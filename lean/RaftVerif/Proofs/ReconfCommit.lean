import RaftVerif.Proofs.ReconfCfgInv
import RaftVerif.Proofs.ReconfQuorum
/-!
# Stage 3: the commit invariant `Inv3`

The classical Raft safety argument as a state invariant, in the style of Paxos' `SafeAt`:

* `Chosen c j`: the entry at index `j` of `glog c` has term `c` and a quorum holds *durable*
  acknowledgements of term `c` covering `j`.
* `Dead c i`: a quorum is durably past term `c` and none of its members holds (in any version)
  an acknowledgement of term `c` covering `i` — so index `i` can never be chosen in term `c`.
* `safe_at`: for every elected `T` and `c < T`, `glog T` agrees with `glog c` up to every index `i`
  that term `c` filled itself, unless `Dead c i`.

Promises are created volatile; a crash rolls back to `dur`; all version-level facts are therefore
stated for *every* version of a node (`vol`, `dur`, `pending`), and released promises are part of
`dur`.
-/
namespace RaftVerif.SpecR

/-- `k` is an applied index the leader of term `c` may hold when it commits an index `≥ i0` for the
first time: not below its applied index at election, at most one configuration entry between `k`
and `i0`, and above the commit index at election only if term `c` can have committed something
below `i0` -/
def Use (s : State) (c i0 k : Nat) : Prop :=
  s.eapp c ≤ k ∧ k < i0 ∧ AtMostOneCfg (s.glog c) k (i0 - 1) ∧ (k ≤ s.ecommit c ∨ s.elen c + 1 < i0)

/-- index `i` can never be chosen in term `c`: some set `Q` of nodes is durably past term `c`
without having acknowledged `(c, ≥ i0)` (`i0 ≤ i`), and `Q` meets every quorum of every
configuration the leader of term `c` could use to commit `i0` or more -/
def Dead (c0 : Conf) (s : State) (c i : Nat) : Prop :=
  ∃ (i0 : Nat) (Q : List NodeId), i0 ≤ i ∧ (∃ n, (c, n) ∈ s.elected) ∧ s.elen c < i0 ∧ i0 ≤ (s.glog c).length + 1 ∧
    (∀ a ∈ Q, c < (s.nodes a).dur.term ∧
      ∀ w ∈ versions (s.nodes a), ∀ k, (c, k) ∈ w.acks → k < i0) ∧
    ∀ k, Use s c i0 k → ∀ Q2, ((s.glog c).cfgAt c0 k).isQuorum Q2 = true → ∃ v, v ∈ Q ∧ v ∈ Q2

/-- index `j` is chosen in term `c`: the leader of term `c` advanced its commit index to `j` -/
def Chosen (_c0 : Conf) (s : State) (c j : Nat) : Prop := ∃ k, (c, j, k) ∈ s.choices

/-- the first `m` entries of `L` are a chosen prefix, chosen in a term `≤ τ` -/
def PrefixCommitted (c0 : Conf) (s : State) (τ : Nat) (L : Log) (m : Nat) : Prop :=
  m = 0 ∨ ∃ c j, c ≤ τ ∧ m ≤ j ∧ Chosen c0 s c j ∧ List.take m L = List.take m (s.glog c)

structure Inv3 (c0 : Conf) (s : State) : Prop where
  ack_bound : ∀ n w, w ∈ versions (s.nodes n) → ∀ t k, (t, k) ∈ w.acks → k ≤ (s.glog t).length
  ack_same : ∀ n w, w ∈ versions (s.nodes n) → ∀ k, (w.term, k) ∈ w.acks →
    List.take k w.log = List.take k (s.glog w.term)
  ack_w : ∀ n w, w ∈ versions (s.nodes n) → ∀ c k i, (c, k) ∈ w.acks → c < w.term → i ≤ k →
    (s.glog c).termAt i = some c → List.take i w.log = List.take i (s.glog c) ∨ Dead c0 s c i
  safe_at : ∀ T n, (T, n) ∈ s.elected → ∀ c i, c < T → (s.glog c).termAt i = some c →
    List.take i (s.glog T) = List.take i (s.glog c) ∨ Dead c0 s c i
  vote_req : ∀ a w, w ∈ versions (s.nodes a) → ∀ T n, (T, n) ∈ w.votes → a = n ∨
    ∃ lt li, Msg.reqVote T n lt li ∈ s.msgs ∧
      ∀ c k i, c < T → (c, k) ∈ w.acks → i ≤ k → (s.glog c).termAt i = some c →
        Dead c0 s c i ∨ c < lt ∨ (lt = c ∧ i ≤ li)
  ver_commit : ∀ n w, w ∈ versions (s.nodes n) → PrefixCommitted c0 s w.term w.log w.commit
  app_commit : ∀ t prev pt ents cm, Msg.app t prev pt ents cm ∈ s.msgs →
    PrefixCommitted c0 s t (s.glog t) cm
  snap_commit : ∀ t pre, Msg.snap t pre ∈ s.msgs → PrefixCommitted c0 s t (s.glog t) pre.length
  hb_commit : ∀ t to cm, Msg.hb t to cm ∈ s.msgs → cm = 0 ∨
    (PrefixCommitted c0 s t (s.glog t) cm ∧ ∃ k, cm ≤ k ∧ (t, k) ∈ (s.nodes to).dur.acks)
  ack_msg : ∀ t v k, Msg.ack t v k ∈ s.msgs → k = 0 ∨ (t, k) ∈ (s.nodes v).dur.acks
  committed_chosen : ∀ i e tc, (i, e, tc) ∈ s.committed →
    ∃ c j, c ≤ tc ∧ i ≤ j ∧ Chosen c0 s c j ∧ (s.glog c).at? i = some e
  safe_next : ∀ T n, (T, n) ∈ s.elected → ∀ c m, c < T → (c, m) ∈ s.elected →
    Dead c0 s c ((s.glog c).length + 1)
  choice_q : ∀ c j k, (c, j, k) ∈ s.choices → ∃ Q, ((s.glog c).cfgAt c0 k).isQuorum Q = true ∧
    ∀ a ∈ Q, ∃ k', j ≤ k' ∧ (c, k') ∈ (s.nodes a).dur.acks
  elected_quorum : ∀ T n, (T, n) ∈ s.elected →
    ∃ q, ((s.glog T).cfgAt c0 (s.eapp T)).isQuorum q = true ∧ ∀ v ∈ q, (T, n) ∈ (s.nodes v).dur.votes
  cand_commit : ∀ n, (s.nodes n).role = .candidate →
    PrefixCommitted c0 s ((s.nodes n).vol.term - 1) (s.nodes n).vol.log (s.nodes n).vol.commit
  elect_commit : ∀ T n, (T, n) ∈ s.elected →
    PrefixCommitted c0 s (T - 1) (s.glog T) (s.ecommit T)

theorem inv3_init (c0 : Conf) : Inv3 c0 State.init := by
  constructor
  · intro n w hw t k hk; simp [versions, State.init] at hw; subst hw; simp at hk
  · intro n w hw k hk; simp [versions, State.init] at hw; subst hw; simp at hk
  · intro n w hw c k i hk; simp [versions, State.init] at hw; subst hw; simp at hk
  · intro T n h; simp [State.init] at h
  · intro a w hw T n h; simp [versions, State.init] at hw; subst hw; simp at h
  · intro n w hw; simp [versions, State.init] at hw; subst hw; exact Or.inl rfl
  · intro t prev pt ents cm h; simp [State.init] at h
  · intro t pre h; simp [State.init] at h
  · intro t to cm h; simp [State.init] at h
  · intro t v k h; simp [State.init] at h
  · intro i e tc h; simp [State.init] at h
  · intro T n h; simp [State.init] at h
  · intro c j k h; simp [State.init] at h
  · intro T n h; simp [State.init] at h
  · intro n h; simp [State.init] at h
  · intro T n h; simp [State.init] at h

theorem Chosen.ok {c0 : Conf} {s : State} (hC : InvC c0 s) {c j : Nat} (h : Chosen c0 s c j) :
    ∃ k, (c, j, k) ∈ s.choices ∧ ChoiceOK s c j k := by
  obtain ⟨k, hk⟩ := h; exact ⟨k, hk, hC.choice c j k hk⟩

theorem Chosen.term {c0 : Conf} {s : State} (hC : InvC c0 s) {c j : Nat} (h : Chosen c0 s c j) :
    (s.glog c).termAt j = some c := by
  obtain ⟨k, _, hk⟩ := h.ok hC; exact hk.term

/-- a chosen index is not dead -/
theorem chosen_not_dead {c0 : Conf} {s : State} (hC : InvC c0 s)
    (hq : ∀ c j k, (c, j, k) ∈ s.choices → ∃ Q, ((s.glog c).cfgAt c0 k).isQuorum Q = true ∧
      ∀ a ∈ Q, ∃ k', j ≤ k' ∧ (c, k') ∈ (s.nodes a).dur.acks) {c i j : Nat}
    (hc : Chosen c0 s c j) (hij : i ≤ j) (hd : Dead c0 s c i) : False := by
  obtain ⟨i0, Q, hi0, ⟨n, hn⟩, hel, _, hQ, hmeet⟩ := hd
  have hE := hC.elect c n hn
  -- no choice of term `c` at or above `i0`
  have key : ∀ j, i0 ≤ j → ∀ k, (c, j, k) ∉ s.choices := by
    intro j
    induction j using Nat.strongRecOn with
    | _ j ih =>
      intro hj k hk
      have hok := hC.choice c j k hk
      have hk0 : k < i0 ∧ (k ≤ s.ecommit c ∨ s.elen c + 1 < i0) := by
        rcases hok.src with h | ⟨j', k', hm, hle, hlt⟩
        · have := hE.commit_le
          exact ⟨by omega, Or.inl h⟩
        · have hj' : j' < i0 := by
            rcases Nat.lt_or_ge j' i0 with h | h
            · exact h
            · exact absurd hm (ih j' hlt h k')
          have hok' := hC.choice c j' k' hm
          have : s.elen c < j' := by
            rcases Nat.lt_or_ge (s.elen c) j' with h | h
            · exact h
            · exact absurd hok'.term (hE.terms j' (by have := hok'.lt; omega) h)
          exact ⟨by omega, Or.inr (by omega)⟩
      have huse : Use s c i0 k :=
        ⟨hok.app_le, hk0.1, hok.one_cfg.mono (Nat.le_refl _) (by omega), hk0.2⟩
      obtain ⟨Q2, hQ2, hacks⟩ := hq c j k hk
      obtain ⟨v, hv, hv2⟩ := hmeet k huse Q2 hQ2
      obtain ⟨k', hk', hak⟩ := hacks v hv2
      have := (hQ v hv).2 _ (by simp [versions]) k' hak
      omega
  obtain ⟨k, hk⟩ := hc
  exact key j (by omega) k hk

theorem Dead.mono_idx {c0 : Conf} {s : State} {c i i' : Nat} (h : Dead c0 s c i) (hi : i ≤ i') :
    Dead c0 s c i' := by
  obtain ⟨i0, Q, hi0, rest⟩ := h
  exact ⟨i0, Q, by omega, rest⟩

theorem PrefixCommitted.mono_idx {c0 : Conf} {s : State} {τ : Nat} {L : Log} {m m' : Nat}
    (h : PrefixCommitted c0 s τ L m) (hm : m' ≤ m) : PrefixCommitted c0 s τ L m' := by
  rcases h with rfl | ⟨c, j, hc, hj, hch, heq⟩
  · left; omega
  · right
    refine ⟨c, j, hc, by omega, hch, ?_⟩
    have := congrArg (List.take m') heq
    rwa [List.take_take, List.take_take, Nat.min_eq_left hm] at this

theorem PrefixCommitted.mono_term {c0 : Conf} {s : State} {τ τ' : Nat} {L : Log} {m : Nat}
    (h : PrefixCommitted c0 s τ L m) (hτ : τ ≤ τ') : PrefixCommitted c0 s τ' L m := by
  rcases h with rfl | ⟨c, j, hc, hj, hch, heq⟩
  · left; rfl
  · exact Or.inr ⟨c, j, by omega, hj, hch, heq⟩

/-- transfer to another log that agrees on the prefix -/
theorem PrefixCommitted.of_take_eq {c0 : Conf} {s : State} {τ : Nat} {L L' : Log} {m : Nat}
    (h : PrefixCommitted c0 s τ L m) (heq : List.take m L' = List.take m L) :
    PrefixCommitted c0 s τ L' m := by
  rcases h with rfl | ⟨c, j, hc, hj, hch, heq'⟩
  · left; rfl
  · exact Or.inr ⟨c, j, hc, hj, hch, heq.trans heq'⟩


/-- the acknowledgements of the new volatile version are old ones, or of the (unchanged) term -/
theorem volAfter_acks_old (c0 : Conf) (s : State) (a : Action) (hn : NodeOK (s.nodes a.actor))
    (he : enabled c0 s a) (t k : Nat) (h : (t, k) ∈ (volAfter s a).acks) :
    (t, k) ∈ (s.nodes a.actor).vol.acks ∨
      (t = (s.nodes a.actor).vol.term ∧ (volAfter s a).term = (s.nodes a.actor).vol.term) := by
  by_cases hvs : a.isVoteStep = false
  · have hcr : a.isCrash = false := by cases a <;> simp_all [Action.isVoteStep, Action.isCrash]
    rcases volAfter_acks_new c0 s a he hcr t k h with h' | h'
    · exact Or.inl h'
    · exact Or.inr ⟨h', (volAfter_votes s a hvs).1⟩
  · left
    cases a <;> simp [Action.isVoteStep] at hvs <;> simp only [volAfter, Action.actor] at h ⊢
    case campaign => exact h
    case updateTerm => exact h
    case grant => exact h
    case crash n => exact hn.dur_le_vol.acks_sub _ h

theorem chosen_le_glog {c0 : Conf} {s : State} (hC : InvC c0 s) {c j : Nat} (h : Chosen c0 s c j) :
    j ≤ (s.glog c).length :=
  Log.termAt_le (h.term hC)

/-- replacing `l` by a prefix of `G` of length `m`, when `l` and `G` differ within `m`, keeps every
prefix on which `l` and `G` agreed -/
theorem take_replace {l G : Log} {m i : Nat} (hli : List.take i l = List.take i G)
    (hne : List.take m l ≠ List.take m G) : List.take i (List.take m G) = List.take i G := by
  by_cases h : i ≤ m
  · rw [List.take_take, Nat.min_eq_left h]
  · exfalso
    apply hne
    have := congrArg (List.take m) hli
    rwa [List.take_take, List.take_take, Nat.min_eq_left (by omega)] at this

theorem diff_take_ne {l G : Log} {m j : Nat} (hj : j ≤ m) (hd : l.termAt j ≠ G.termAt j) :
    List.take m l ≠ List.take m G := by
  intro h
  apply hd
  rw [← Log.termAt_take hj, h, Log.termAt_take hj]

/-- a committed prefix (seen from term `τ`) is a prefix of the ghost log of every elected `T ≥ τ` -/
theorem prefixCommitted_glog {c0 : Conf} {s : State} (hC : InvC c0 s) (h3 : Inv3 c0 s) {τ : Nat}
    {L : Log} {m T : Nat} {n : NodeId} (h : PrefixCommitted c0 s τ L m) (hT : (T, n) ∈ s.elected)
    (hτ : τ ≤ T) : List.take m L = List.take m (s.glog T) := by
  rcases h with rfl | ⟨c, j, hc, hj, hch, heq⟩
  · simp
  · rw [heq]
    by_cases hcT : c = T
    · rw [hcT]
    · rcases h3.safe_at T n hT c j (by omega) (hch.term hC) with h | h
      · have := congrArg (List.take m) h
        rw [List.take_take, List.take_take, Nat.min_eq_left hj] at this
        exact this.symm
      · exact absurd h (fun hd => chosen_not_dead hC h3.choice_q hch (Nat.le_refl _) hd)

theorem hasAppOrSnap_elected {s : State} (h2 : Inv2 s) {t : Nat} (h : hasAppOrSnap s.msgs t = true) :
    ∃ n, (t, n) ∈ s.elected := by
  simp only [hasAppOrSnap, List.any_eq_true] at h
  obtain ⟨m, hm, hp⟩ := h
  cases m <;> simp at hp
  case app t' prev pt ents c => subst hp; exact (h2.app_msg _ _ _ _ _ hm).1
  case snap t' pre => subst hp; exact (h2.snap_msg _ _ hm).1

theorem Log.termAt_length (L : Log) (h : L ≠ []) : L.termAt L.length = some L.lastTerm := by
  have hpos : 0 < L.length := List.length_pos_iff.mpr h
  rw [Log.termAt_pos _ (by omega)]
  unfold Log.lastTerm
  rw [List.getLast?_eq_getElem?]
  have : L.length - 1 < L.length := by omega
  simp [this]

theorem Log.lastTerm_nil : Log.lastTerm [] = 0 := rfl

theorem Log.termAt_mem {l : Log} {i t : Nat} (hi : 1 ≤ i) (h : l.termAt i = some t) :
    ∃ e, e ∈ l ∧ e.term = t := by
  rw [Log.termAt_pos _ hi] at h
  cases hx : l[i - 1]? with
  | none => rw [hx] at h; simp at h
  | some e =>
    rw [hx] at h
    simp only [Option.map_some, Option.some.injEq] at h
    exact ⟨e, List.mem_of_getElem? hx, h⟩

theorem elected_of_glog_ne_nil {s : State} (h2 : Inv2 s) {T : Nat} (h : s.glog T ≠ []) :
    ∃ n, (T, n) ∈ s.elected :=
  Classical.byContradiction fun hne =>
    h (h2.glog_unelected T (fun n hn => hne ⟨n, hn⟩))

theorem reqVotesCovered_spec {msgs : List Msg} {t c : Nat} {l : Log} {lt li : Nat}
    (h : reqVotesCovered msgs t c l = true) (hm : Msg.reqVote t c lt li ∈ msgs) :
    lt < l.lastTerm ∨ (l.lastTerm = lt ∧ li ≤ l.length) := by
  simp only [reqVotesCovered, List.all_eq_true] at h
  have := h _ hm
  simpa using this

/-- a well-formed log that contains the term-`c` entry at `i` is at least as up to date as
`(c, i)` -/
theorem uptodate_of_take {g : Nat → Log} {τ : Nat} {L : Log} {c i : Nat} (hwf : LogWF g τ L)
    (h : List.take i L = List.take i (g c)) (ht : (g c).termAt i = some c) :
    c < L.lastTerm ∨ (L.lastTerm = c ∧ i ≤ L.length) := by
  by_cases hi0 : i = 0
  · subst hi0
    rw [Log.termAt_zero] at ht
    have : c = 0 := by simpa using ht.symm
    subst this
    rcases Nat.eq_zero_or_pos L.lastTerm with h' | h'
    · exact Or.inr ⟨h', Nat.zero_le _⟩
    · exact Or.inl h'
  · have hL : L.termAt i = some c := by rw [Log.termAt_congr h]; exact ht
    obtain ⟨e, heL, hec⟩ := Log.termAt_mem (by omega) hL
    have := hwf.le_lastTerm e heL
    rw [hec] at this
    rcases Nat.lt_or_ge c L.lastTerm with h' | h'
    · exact Or.inl h'
    · exact Or.inr ⟨by omega, Log.termAt_le hL⟩

theorem upToDate_spec {lt li : Nat} {l : Log} (h : upToDate lt li l = true) :
    l.lastTerm < lt ∨ (lt = l.lastTerm ∧ l.length ≤ li) := by
  simpa [upToDate] using h

theorem hasAck_spec {msgs : List Msg} {t v c : Nat} (h : hasAck msgs t v c = true) :
    ∃ k, Msg.ack t v k ∈ msgs ∧ c ≤ k := by
  simp only [hasAck, List.any_eq_true] at h
  obtain ⟨m, hm, hp⟩ := h
  cases m <;> simp at hp
  case ack t' v' k =>
    obtain ⟨⟨rfl, rfl⟩, hk⟩ := hp
    exact ⟨k, hm, hk⟩

theorem hasDurAck_spec {acks : List (Nat × Nat)} {t c : Nat} (h : hasDurAck acks t c = true) :
    ∃ k, (t, k) ∈ acks ∧ c ≤ k := by
  simp only [hasDurAck, List.any_eq_true] at h
  obtain ⟨⟨t', k⟩, hm, hp⟩ := h
  simp at hp
  obtain ⟨rfl, hk⟩ := hp
  exact ⟨k, hm, hk⟩

theorem PrefixCommitted.le_length {c0 : Conf} {s : State} (hC : InvC c0 s) {τ : Nat} {L : Log}
    {m : Nat} (h : PrefixCommitted c0 s τ L m) : m ≤ L.length := by
  rcases h with rfl | ⟨c, j, _, hj, hch, heq⟩
  · exact Nat.zero_le _
  · have := congrArg List.length heq
    have := chosen_le_glog hC hch
    rw [List.length_take, List.length_take] at *
    omega

theorem mem_commitRange {l : Log} {lo hi t : Nat} {x : Nat × Ent × Nat} (h : x ∈ commitRange l lo hi t) :
    ∃ i e, x = (i, e, t) ∧ lo < i ∧ i ≤ hi ∧ l.at? i = some e := by
  simp only [commitRange, List.mem_filterMap, List.mem_range] at h
  obtain ⟨d, hd, hx⟩ := h
  cases he : l.at? (lo + d + 1) with
  | none => rw [he] at hx; simp at hx
  | some e =>
    rw [he] at hx
    simp only [Option.map_some, Option.some.injEq] at hx
    exact ⟨lo + d + 1, e, hx.symm, by omega, by omega, he⟩

theorem volAfter_mem_versions (s : State) (a : Action) (hst : a.isStorage = false) :
    volAfter s a ∈ versions ((apply s a).nodes a.actor) := by
  rw [apply_nodes_self, nodeAfter_eq s a hst]
  simp [versions]

theorem hb_mem_newMsgs (s : State) (a : Action) (t to c : Nat) (h : Msg.hb t to c ∈ newMsgs s a) :
    ∃ n, a = .sendHb n to c ∧ t = (s.nodes n).vol.term := by
  cases a <;> simp [newMsgs] at h
  case sendHb n to' c' =>
    obtain ⟨rfl, rfl, rfl⟩ := h
    exact ⟨n, rfl, rfl⟩

theorem ack_mem_newMsgs (s : State) (a : Action) (t v k : Nat) (h : Msg.ack t v k ∈ newMsgs s a) :
    a = .sendAck v t k := by
  cases a <;> simp [newMsgs] at h
  case sendAck n t' k' => obtain ⟨rfl, rfl, rfl⟩ := h; rfl

theorem mem_apply_committed (s : State) (a : Action) (x : Nat × Ent × Nat) :
    x ∈ (apply s a).committed ↔ x ∈ newCommitted s a ∨ x ∈ s.committed := by
  rw [apply_committed, List.mem_append]

/-- what the joint induction provides about a candidate `n` that is about to become leader: its log
contains whatever any lower term `c` filled itself, up to every index that is not dead, and every
lower term is dead beyond the end of its ghost log (`Proofs/ReconfCand.lean`) -/
def CandSafe (c0 : Conf) (s : State) (n : NodeId) : Prop :=
  ∀ c, c < (s.nodes n).vol.term →
    (∀ i, (s.glog c).termAt i = some c →
      List.take i (s.nodes n).vol.log = List.take i (s.glog c) ∨ Dead c0 s c i) ∧
    (∀ m, (c, m) ∈ s.elected → Dead c0 s c ((s.glog c).length + 1))

/-- a candidate that wins a term *below* an already elected one can never commit anything: some
set of nodes that are durably past its term meets every quorum of its active configuration -/
def CandLate (c0 : Conf) (s : State) (n : NodeId) : Prop :=
  (∃ T y, (T, y) ∈ s.elected ∧ (s.nodes n).vol.term < T) →
    ∃ Q : List NodeId, (∀ a ∈ Q, (s.nodes n).vol.term < (s.nodes a).dur.term) ∧
      ∀ Q2, ((s.nodes n).active c0).isQuorum Q2 = true → ∃ v, v ∈ Q ∧ v ∈ Q2

/-- the step elects only candidates that are safe -/
def CandOK (c0 : Conf) (s : State) (a : Action) : Prop :=
  ∀ n q, a = .becomeLeader n q → CandSafe c0 s n ∧ CandLate c0 s n

set_option linter.unusedSectionVars false

section Step
variable {c0 : Conf} (hc0 : c0.wf) {s : State} {a : Action}
  (h1 : Inv1 c0 s) (h2 : Inv2 s) (hC : InvC c0 s) (h3 : Inv3 c0 s) (he : enabled c0 s a)
  (hf : Fresh s a) (hnd : ElectedNodup s)
include hc0 h1 h2 hC h3 he hf hnd

theorem dead_step {c i : Nat} (h : Dead c0 s c i) : Dead c0 (apply s a) c i := by
  have hext := glog_ext c0 s a hf h1 h2 he
  obtain ⟨i0, Q, hi0, ⟨n, hn⟩, hel, hlen, hq, hmeet⟩ := h
  obtain ⟨e1, e2, e3⟩ := ghost_keep hf hn
  refine ⟨i0, Q, hi0, ⟨n, elected_mono s a _ hn⟩, by rw [e3]; exact hel,
    Nat.le_trans hlen (Nat.succ_le_succ (hext c).length_le), fun b hb => ?_, ?_⟩
  · obtain ⟨hb1, hb2⟩ := hq b hb
    refine ⟨Nat.lt_of_lt_of_le hb1 (dur_step s a b (h1.nodes b)).2.term_le, ?_⟩
    intro w hw k hk
    rcases versions_step s a b w hw with hw | ⟨rfl, _, rfl⟩
    · exact hb2 w hw k hk
    · rcases volAfter_acks_old c0 s a (h1.nodes _) he c k hk with h' | ⟨h', _⟩
      · exact hb2 _ (by simp [versions]) k h'
      · have := (h1.nodes a.actor).dur_le_vol.term_le
        omega
  · intro k ⟨hu1, hu2, hu3, hu4⟩ Q2 hQ2
    have hk : k ≤ (s.glog c).length := by omega
    rw [cfgAt_prefix c0 (hext c) hk] at hQ2
    refine hmeet k ⟨by rw [← e1]; exact hu1, hu2, ?_, by rw [← e2, ← e3]; exact hu4⟩ Q2 hQ2
    intro x y hx hxy hy hcx hcy
    exact hu3 x y hx hxy hy ((isCfg_prefix (hext c) (by omega)).mpr hcx)
      ((isCfg_prefix (hext c) (by omega)).mpr hcy)

theorem chosen_step {c j : Nat} (h : Chosen c0 s c j) : Chosen c0 (apply s a) c j := by
  obtain ⟨k, hk⟩ := h
  exact ⟨k, by rw [apply_choices]; exact List.mem_append_right _ hk⟩

theorem prefixCommitted_step {τ : Nat} {L : Log} {m : Nat} (h : PrefixCommitted c0 s τ L m) :
    PrefixCommitted c0 (apply s a) τ L m := by
  have hext := glog_ext c0 s a hf h1 h2 he
  rcases h with rfl | ⟨c, j, hc, hj, hch, heq⟩
  · left; rfl
  · refine Or.inr ⟨c, j, hc, hj, chosen_step hc0 h1 h2 hC h3 he hf hnd hch, ?_⟩
    rw [heq, take_of_prefix (hext c) (by have := chosen_le_glog hC hch; omega)]

/-- the new-acknowledgement cases of `volAfter` -/
theorem ack_bound_step : ∀ n w, w ∈ versions ((apply s a).nodes n) → ∀ t k, (t, k) ∈ w.acks →
    k ≤ ((apply s a).glog t).length := by
  have hext := glog_ext c0 s a hf h1 h2 he
  have hvol : ∀ n, (s.nodes n).vol ∈ versions (s.nodes n) := fun n => by simp [versions]
  have old : ∀ n w, w ∈ versions (s.nodes n) → ∀ t k, (t, k) ∈ w.acks →
      k ≤ ((apply s a).glog t).length := fun n w hw t k hk =>
    Nat.le_trans (h3.ack_bound n w hw t k hk) (hext t).length_le
  intro n w hw t k hk
  rcases versions_step s a n w hw with hw | ⟨rfl, hst, rfl⟩
  · exact old n w hw t k hk
  · cases a <;> simp only [volAfter, Action.actor] at hk <;> try exact old _ _ (hvol _) t k hk
    case crash => simp [Action.isStorage] at hst
    case leaderAppend n v =>
      simp only [List.mem_cons, Prod.mk.injEq] at hk
      rcases hk with ⟨rfl, rfl⟩ | hk
      · rw [apply_glog]; simp [glogAfter]
      · exact old _ _ (hvol _) t k hk
    case leaderAppendCfg n v cc =>
      simp only [List.mem_cons, Prod.mk.injEq] at hk
      rcases hk with ⟨rfl, rfl⟩ | hk
      · rw [apply_glog]; simp [glogAfter]
      · exact old _ _ (hvol _) t k hk
    case handleApp n t' prev pt ents c =>
      cases hr : appendResult (s.nodes n).vol.log prev pt ents with
      | none => rw [hr] at hk; exact old _ _ (hvol _) t k hk
      | some lnew =>
        rw [hr] at hk
        simp only [List.mem_cons, Prod.mk.injEq] at hk
        rcases hk with ⟨rfl, rfl⟩ | hk
        · exact Nat.le_trans (handleApp_result h2 he hr).1 (hext _).length_le
        · exact old _ _ (hvol _) t k hk
    case handleSnap n t' pre =>
      split at hk
      · exact old _ _ (hvol _) t k hk
      · split at hk
        · exact old _ _ (hvol _) t k hk
        · simp only [List.mem_cons, Prod.mk.injEq] at hk
          rcases hk with ⟨rfl, rfl⟩ | hk
          · simp only [enabled] at he
            exact Nat.le_trans (h2.snap_msg _ _ he.1).2.length_le (hext _).length_le
          · exact old _ _ (hvol _) t k hk
    case ackCommit n t' =>
      simp only [List.mem_cons, Prod.mk.injEq] at hk
      rcases hk with ⟨rfl, rfl⟩ | hk
      · simp only [enabled] at he
        obtain ⟨m, hm⟩ := hasAppOrSnap_elected h2 he.2.2
        have h := prefixCommitted_glog hC h3 (h3.ver_commit n _ (hvol n)) hm (by omega)
        have h' := congrArg List.length h
        have hc := h2.ver_commit n _ (hvol n)
        rw [List.length_take, List.length_take] at h'
        exact Nat.le_trans (by omega) (hext _).length_le
      · exact old _ _ (hvol _) t k hk

theorem ack_same_step : ∀ n w, w ∈ versions ((apply s a).nodes n) → ∀ k, (w.term, k) ∈ w.acks →
    List.take k w.log = List.take k ((apply s a).glog w.term) := by
  have hext := glog_ext c0 s a hf h1 h2 he
  have hvol : ∀ n, (s.nodes n).vol ∈ versions (s.nodes n) := fun n => by simp [versions]
  have old : ∀ n w, w ∈ versions (s.nodes n) → ∀ k, (w.term, k) ∈ w.acks →
      List.take k w.log = List.take k ((apply s a).glog w.term) := fun n w hw k hk => by
    rw [h3.ack_same n w hw k hk, take_of_prefix (hext _) (h3.ack_bound n w hw _ k hk)]
  intro n w hw k hk
  rcases versions_step s a n w hw with hw | ⟨rfl, hst, rfl⟩
  · exact old n w hw k hk
  · cases a <;> simp only [volAfter, Action.actor] at hk ⊢ <;> try exact old _ _ (hvol _) k hk
    case crash => simp [Action.isStorage] at hst
    case campaign n =>
      have := ((h1.nodes n).vers _ (hvol n)).acks_le _ _ hk
      omega
    case updateTerm n t =>
      have := ((h1.nodes n).vers _ (hvol n)).acks_le _ _ hk
      simp only [enabled] at he
      omega
    case leaderAppend n v =>
      have hg : (apply s (.leaderAppend n v)).glog (s.nodes n).vol.term =
          (s.nodes n).vol.log ++ [⟨(s.nodes n).vol.term, v, none⟩] := by
        rw [apply_glog]; simp [glogAfter]
      rw [hg]
    case leaderAppendCfg n v cc =>
      have hg : (apply s (.leaderAppendCfg n v cc)).glog (s.nodes n).vol.term =
          (s.nodes n).vol.log ++ [⟨(s.nodes n).vol.term, v, some cc⟩] := by
        rw [apply_glog]; simp [glogAfter]
      rw [hg]
    case handleApp n t prev pt ents c =>
      have hg : (apply s (.handleApp n t prev pt ents c)).glog = s.glog := by rw [apply_glog]; rfl
      rw [hg]
      cases hr : appendResult (s.nodes n).vol.log prev pt ents with
      | none => rw [hr] at hk; exact h3.ack_same _ _ (hvol _) k hk
      | some lnew =>
        rw [hr] at hk
        simp only at hk ⊢
        have htn : t = (s.nodes n).vol.term := by simp only [enabled] at he; exact he.2.1
        obtain ⟨hlen, hres⟩ := handleApp_result h2 he hr
        simp only [List.mem_cons, Prod.mk.injEq] at hk
        rcases hk with ⟨_, rfl⟩ | hk
        · rw [← htn]
          rcases hres with ⟨rfl, _, h⟩ | ⟨rfl, _⟩
          · exact h
          · rw [List.take_take, Nat.min_self]
        · have hold := h3.ack_same _ _ (hvol n) k hk
          rcases hres with ⟨rfl, _, _⟩ | ⟨rfl, j, hj, hd⟩
          · exact hold
          · rw [← htn] at hold ⊢
            exact take_replace hold (diff_take_ne hj hd)
    case handleSnap n t pre =>
      have hg : (apply s (.handleSnap n t pre)).glog = s.glog := by rw [apply_glog]; rfl
      rw [hg]
      have htn : t = (s.nodes n).vol.term := by simp only [enabled] at he; exact he.2.1
      have hpre : pre = List.take pre.length (s.glog t) := by
        simp only [enabled] at he
        exact List.prefix_iff_eq_take.mp (h2.snap_msg _ _ he.1).2
      split at hk
      · rename_i h; simp only [h, ↓reduceIte]; exact h3.ack_same _ _ (hvol _) k hk
      · rename_i h
        simp only [h, ↓reduceIte] at hk ⊢
        split at hk
        · rename_i h'; simp only [h', ↓reduceIte]; exact h3.ack_same _ _ (hvol _) k hk
        · rename_i h'
          simp only [h', ↓reduceIte]
          simp only [List.mem_cons, Prod.mk.injEq] at hk
          rcases hk with ⟨_, rfl⟩ | hk
          · rw [← htn, List.take_length]; exact hpre
          · have hold := h3.ack_same _ _ (hvol n) k hk
            rw [← htn] at hold ⊢
            rw [hpre]
            exact take_replace hold (by rw [← hpre]; exact h')
    case ackCommit n t =>
      have hg : (apply s (.ackCommit n t)).glog = s.glog := by rw [apply_glog]; rfl
      rw [hg]
      simp only [List.mem_cons, Prod.mk.injEq] at hk
      rcases hk with ⟨_, rfl⟩ | hk
      · simp only [enabled] at he
        obtain ⟨m, hm⟩ := hasAppOrSnap_elected h2 he.2.2
        rw [← he.1]
        exact prefixCommitted_glog hC h3 (h3.ver_commit n _ (hvol n)) hm (by omega)
      · exact h3.ack_same _ _ (hvol n) k hk

theorem ack_w_step : ∀ n w, w ∈ versions ((apply s a).nodes n) → ∀ c k i, (c, k) ∈ w.acks →
    c < w.term → i ≤ k → ((apply s a).glog c).termAt i = some c →
    List.take i w.log = List.take i ((apply s a).glog c) ∨ Dead c0 (apply s a) c i := by
  have hext := glog_ext c0 s a hf h1 h2 he
  have hvol : ∀ n, (s.nodes n).vol ∈ versions (s.nodes n) := fun n => by simp [versions]
  intro n w hw c k i hk hc hik ht
  -- the acknowledgement is an old one, so everything happens inside the old `glog c`
  have hkold : k ≤ (s.glog c).length := by
    rcases versions_step s a n w hw with hw | ⟨rfl, hst, rfl⟩
    · exact h3.ack_bound n w hw c k hk
    · rcases volAfter_acks_old c0 s a (h1.nodes _) he c k hk with h | ⟨h, h'⟩
      · exact h3.ack_bound _ _ (hvol _) c k h
      · omega
  have ht' : (s.glog c).termAt i = some c := by
    rw [← Log.termAt_prefix (hext c) (by omega)]; exact ht
  rw [take_of_prefix (hext c) (by omega)]
  suffices h : List.take i w.log = List.take i (s.glog c) ∨ Dead c0 s c i from
    h.imp id (dead_step hc0 h1 h2 hC h3 he hf hnd)
  clear ht
  have hlen : ∀ l : Log, List.take i l = List.take i (s.glog c) → i ≤ l.length := by
    intro l hl
    have := congrArg List.length hl
    rw [List.length_take, List.length_take] at this
    omega
  rcases versions_step s a n w hw with hw | ⟨rfl, hst, rfl⟩
  · exact h3.ack_w n w hw c k i hk hc hik ht'
  · have hkv : (c, k) ∈ (s.nodes a.actor).vol.acks := by
      rcases volAfter_acks_old c0 s a (h1.nodes _) he c k hk with h | ⟨h, h'⟩
      · exact h
      · omega
    have hcle := ((h1.nodes _).vers _ (hvol a.actor)).acks_le _ _ hkv
    -- what the old volatile version knows
    have hvolw : List.take i (s.nodes a.actor).vol.log = List.take i (s.glog c) ∨ Dead c0 s c i := by
      by_cases hlt : c < (s.nodes a.actor).vol.term
      · exact h3.ack_w _ _ (hvol _) c k i hkv hlt hik ht'
      · left
        have hceq : c = (s.nodes a.actor).vol.term := by omega
        have := h3.ack_same _ _ (hvol a.actor) k (hceq ▸ hkv)
        rw [← hceq] at this
        have := congrArg (List.take i) this
        rwa [List.take_take, List.take_take, Nat.min_eq_left hik] at this
    clear hk hw
    cases a <;> simp only [volAfter, Action.actor] at hc hvolw hkv hcle ⊢ <;> try exact hvolw
    case crash => simp [Action.isStorage] at hst
    case leaderAppend n v =>
      rcases hvolw with h | h
      · left; rw [List.take_append_of_le_length (hlen _ h)]; exact h
      · exact Or.inr h
    case leaderAppendCfg n v cc =>
      rcases hvolw with h | h
      · left; rw [List.take_append_of_le_length (hlen _ h)]; exact h
      · exact Or.inr h
    case handleApp n t prev pt ents cm =>
      cases hr : appendResult (s.nodes n).vol.log prev pt ents with
      | none => exact hvolw
      | some lnew =>
        simp only
        have htn : t = (s.nodes n).vol.term := by simp only [enabled] at he; exact he.2.1
        obtain ⟨hlen', hres⟩ := handleApp_result h2 he hr
        rcases hres with ⟨rfl, _, _⟩ | ⟨rfl, j, hj, hd⟩
        · exact hvolw
        · rcases hvolw with h | h
          · rw [hr] at hc
            simp only at hc
            obtain ⟨⟨m, hm⟩, _⟩ := (by simp only [enabled] at he; exact h2.app_msg _ _ _ _ _ he.1)
            rcases h3.safe_at t m hm c i (by omega) ht' with h' | h'
            · left
              rw [← h']
              exact take_replace (h.trans h'.symm) (diff_take_ne hj hd)
            · exact Or.inr h'
          · exact Or.inr h
    case handleSnap n t pre =>
      have htn : t = (s.nodes n).vol.term := by simp only [enabled] at he; exact he.2.1
      have hsm := (by simp only [enabled] at he; exact h2.snap_msg _ _ he.1)
      have hpre : pre = List.take pre.length (s.glog t) := List.prefix_iff_eq_take.mp hsm.2
      split
      · exact hvolw
      · split
        · exact hvolw
        · rename_i h1' h2'
          simp only
          rcases hvolw with h | h
          · simp only [h1', h2', ↓reduceIte] at hc
            obtain ⟨m, hm⟩ := hsm.1
            rcases h3.safe_at t m hm c i (by omega) ht' with h' | h'
            · left
              rw [← h', hpre]
              exact take_replace (h.trans h'.symm) (by rw [← hpre]; exact h2')
            · exact Or.inr h'
          · exact Or.inr h

omit he hf hnd hC in
/-- what the volatile log of a node says about the indexes it acknowledged -/
theorem vol_uptodate (b : NodeId) : ∀ c k i, (c, k) ∈ (s.nodes b).vol.acks → i ≤ k →
    (s.glog c).termAt i = some c →
    Dead c0 s c i ∨ c < (s.nodes b).vol.log.lastTerm ∨
      ((s.nodes b).vol.log.lastTerm = c ∧ i ≤ (s.nodes b).vol.log.length) := by
  have hvol : (s.nodes b).vol ∈ versions (s.nodes b) := by simp [versions]
  intro c k i hk hik ht
  have hcle := ((h1.nodes b).vers _ hvol).acks_le _ _ hk
  have hw : List.take i (s.nodes b).vol.log = List.take i (s.glog c) ∨ Dead c0 s c i := by
    by_cases hlt : c < (s.nodes b).vol.term
    · exact h3.ack_w _ _ hvol c k i hk hlt hik ht
    · left
      have hceq : c = (s.nodes b).vol.term := by omega
      have := h3.ack_same _ _ hvol k (hceq ▸ hk)
      rw [← hceq] at this
      have := congrArg (List.take i) this
      rwa [List.take_take, List.take_take, Nat.min_eq_left hik] at this
  rcases hw with h | h
  · exact Or.inr (uptodate_of_take (h2.ver_log b _ hvol) h ht)
  · exact Or.inl h

theorem safe_at_step (hcand : CandOK c0 s a) : ∀ T n, (T, n) ∈ (apply s a).elected → ∀ c i, c < T →
    ((apply s a).glog c).termAt i = some c →
    List.take i ((apply s a).glog T) = List.take i ((apply s a).glog c) ∨
      Dead c0 (apply s a) c i := by
  have hext := glog_ext c0 s a hf h1 h2 he
  have hvol : ∀ n, (s.nodes n).vol ∈ versions (s.nodes n) := fun n => by simp [versions]
  intro T n hel c i hcT ht
  by_cases hi0 : i = 0
  · subst hi0; left; simp
  have old_case : (T, n) ∈ s.elected → (s.glog c).termAt i = some c →
      List.take i ((apply s a).glog T) = List.take i ((apply s a).glog c) ∨
        Dead c0 (apply s a) c i := by
    intro hel ht'
    rcases h3.safe_at T n hel c i hcT ht' with h | h
    · left
      have hi : i ≤ (s.glog c).length := Log.termAt_le ht'
      have hiT : i ≤ (s.glog T).length := by
        have := congrArg List.length h
        rw [List.length_take, List.length_take] at this
        omega
      rw [take_of_prefix (hext T) hiT, take_of_prefix (hext c) hi]; exact h
    · exact Or.inr (dead_step hc0 h1 h2 hC h3 he hf hnd h)
  rw [mem_apply_elected] at hel
  rcases hel with hel | hel
  · -- a new leader
    obtain ⟨q, rfl, rfl⟩ := mem_newElected s _ T n hel
    have hgT : (apply s (.becomeLeader n q)).glog (s.nodes n).vol.term = (s.nodes n).vol.log := by
      rw [apply_glog]; simp [glogAfter]
    have hgc : (apply s (.becomeLeader n q)).glog c = s.glog c := by
      rw [apply_glog]; simp only [glogAfter]; rw [if_neg (by omega)]
    rw [hgT, hgc]
    rw [hgc] at ht
    exact (((hcand n q rfl).1 c hcT).1 i ht).imp id (dead_step hc0 h1 h2 hC h3 he hf hnd)
  · rcases glog_step s a c with h | ⟨m, q, rfl, rfl, h⟩ | ⟨m, v, cc, happ, rfl, h⟩
    · rw [h] at ht; exact old_case hel ht
    · -- a new leader of term `c`: its log holds no entry of term `c`
      exfalso
      rw [h] at ht
      have hg0 : s.glog (s.nodes m).vol.term = [] := h2.glog_unelected _ (hf m q rfl)
      have := (h2.ver_log m _ (hvol m)).ok i _ (by omega) ht
      have hl := Log.termAt_le ht
      have := congrArg List.length this
      rw [hg0, List.length_take] at this
      simp only [List.take_nil, List.length_nil] at this
      omega
    · rw [h] at ht
      have hlead := happ.leader he
      have hl := h2.leader_log m hlead
      by_cases hil : i ≤ (s.nodes m).vol.log.length
      · rw [Log.termAt_append_left hil, hl] at ht
        exact old_case hel ht
      · -- the new entry: term `c` was already dead beyond the end of its log
        right
        apply dead_step hc0 h1 h2 hC h3 he hf hnd
        have hle := Log.termAt_le ht
        simp only [List.length_append, List.length_cons, List.length_nil] at hle
        have := h3.safe_next T n hel _ m hcT (h1.leader_elected m hlead)
        rw [← hl] at this
        exact this.mono_idx (by omega)

theorem safe_next_step (hcand : CandOK c0 s a) : ∀ T n, (T, n) ∈ (apply s a).elected → ∀ c m, c < T →
    (c, m) ∈ (apply s a).elected → Dead c0 (apply s a) c (((apply s a).glog c).length + 1) := by
  have hext := glog_ext c0 s a hf h1 h2 he
  have hvol : ∀ n, (s.nodes n).vol ∈ versions (s.nodes n) := fun n => by simp [versions]
  intro T n hel c m hcT helc
  rw [mem_apply_elected] at hel helc
  -- the lower term was elected before this step
  have old_c : (c, m) ∈ s.elected → Dead c0 s c ((s.glog c).length + 1) →
      Dead c0 (apply s a) c (((apply s a).glog c).length + 1) := by
    intro hc hd
    exact (dead_step hc0 h1 h2 hC h3 he hf hnd hd).mono_idx
      (Nat.succ_le_succ (hext c).length_le)
  rcases helc with helc | helc
  · -- the lower term is elected now, below an already elected one
    obtain ⟨q, rfl, rfl⟩ := mem_newElected s _ c m helc
    have hTold : (T, n) ∈ s.elected := by
      rcases hel with hel | hel
      · obtain ⟨q', h, hT⟩ := mem_newElected s _ T n hel
        simp only [Action.becomeLeader.injEq] at h
        rw [← h.1] at hT
        omega
      · exact hel
    obtain ⟨Q, hQ, hmeet⟩ := (hcand m q rfl).2 ⟨T, n, hTold, hcT⟩
    have hg : (apply s (.becomeLeader m q)).glog (s.nodes m).vol.term = (s.nodes m).vol.log := by
      rw [apply_glog]; simp [glogAfter]
    have hg0 : s.glog (s.nodes m).vol.term = [] := h2.glog_unelected _ (hf m q rfl)
    have hcand' : (s.nodes m).role = .candidate := by simp only [enabled] at he; exact he.1
    refine ⟨(s.nodes m).vol.log.length + 1, Q, by rw [hg]; exact Nat.le_refl _,
      ⟨m, by rw [mem_apply_elected]; exact Or.inl helc⟩,
      by simp [apply_elen, elenAfter], by rw [hg]; exact Nat.le_refl _, fun b hb => ⟨?_, ?_⟩, ?_⟩
    · exact Nat.lt_of_lt_of_le (hQ b hb) (dur_step s _ b (h1.nodes b)).2.term_le
    · intro w hw k hk
      have : k ≤ (s.glog (s.nodes m).vol.term).length := by
        rcases versions_step s _ b w hw with hw | ⟨rfl, _, rfl⟩
        · exact h3.ack_bound b w hw _ k hk
        · exact h3.ack_bound _ _ (hvol _) _ k hk
      rw [hg0] at this
      simp at this
      omega
    · intro k ⟨hu1, hu2, _, hu4⟩ Q2 hQ2
      rw [hg] at hQ2
      simp only [apply_eapp, apply_ecommit, apply_elen, eappAfter, ecommitAfter, elenAfter,
        ↓reduceIte] at hu1 hu4
      have hk : k ≤ (s.nodes m).vol.commit := by omega
      have hno := (hC.cand_guard m hcand').mono (Nat.le_refl _) hk
      rw [cfgAt_eq_of_noCfg c0 _ hu1 hno] at hQ2
      exact hmeet Q2 hQ2
  · rcases hel with hel | hel
    · -- a new leader above an elected term
      obtain ⟨q, rfl, rfl⟩ := mem_newElected s _ T n hel
      exact old_c helc (((hcand n q rfl).1 c hcT).2 m helc)
    · exact old_c helc (h3.safe_next T n hel c m hcT helc)

theorem vote_req_step : ∀ b w, w ∈ versions ((apply s a).nodes b) → ∀ T n, (T, n) ∈ w.votes →
    b = n ∨ ∃ lt li, Msg.reqVote T n lt li ∈ (apply s a).msgs ∧
      ∀ c k i, c < T → (c, k) ∈ w.acks → i ≤ k → ((apply s a).glog c).termAt i = some c →
        Dead c0 (apply s a) c i ∨ c < lt ∨ (lt = c ∧ i ≤ li) := by
  have hext := glog_ext c0 s a hf h1 h2 he
  have hvol : ∀ n, (s.nodes n).vol ∈ versions (s.nodes n) := fun n => by simp [versions]
  -- transfer a statement about the old state
  have transfer_all : ∀ (T lt li : Nat) (acks : List (Nat × Nat)),
      (∀ c k, (c, k) ∈ acks → k ≤ (s.glog c).length) →
      (∀ c k i, c < T → (c, k) ∈ acks → i ≤ k → (s.glog c).termAt i = some c →
          Dead c0 s c i ∨ c < lt ∨ (lt = c ∧ i ≤ li)) →
      ∀ c k i, c < T → (c, k) ∈ acks → i ≤ k → ((apply s a).glog c).termAt i = some c →
          Dead c0 (apply s a) c i ∨ c < lt ∨ (lt = c ∧ i ≤ li) := by
    intro T lt li acks hb hall c k i hc hk hik ht
    have hkb := hb c k hk
    rw [Log.termAt_prefix (hext c) (by omega)] at ht
    exact (hall c k i hc hk hik ht).imp (dead_step hc0 h1 h2 hC h3 he hf hnd) id
  have transfer : ∀ (T n : Nat) (acks : List (Nat × Nat)),
      (∀ c k, (c, k) ∈ acks → k ≤ (s.glog c).length) →
      (∃ lt li, Msg.reqVote T n lt li ∈ s.msgs ∧
        ∀ c k i, c < T → (c, k) ∈ acks → i ≤ k → (s.glog c).termAt i = some c →
          Dead c0 s c i ∨ c < lt ∨ (lt = c ∧ i ≤ li)) →
      ∃ lt li, Msg.reqVote T n lt li ∈ (apply s a).msgs ∧
        ∀ c k i, c < T → (c, k) ∈ acks → i ≤ k → ((apply s a).glog c).termAt i = some c →
          Dead c0 (apply s a) c i ∨ c < lt ∨ (lt = c ∧ i ≤ li) := by
    intro T n acks hb ⟨lt, li, hm, hall⟩
    exact ⟨lt, li, by rw [mem_apply_msgs]; exact Or.inr hm, transfer_all T lt li acks hb hall⟩
  intro b w hw T n hv
  rcases versions_step s a b w hw with hw | ⟨rfl, hst, rfl⟩
  · exact (h3.vote_req b w hw T n hv).imp id (transfer T n w.acks (h3.ack_bound b w hw))
  · have hbound : ∀ c k, (c, k) ∈ (s.nodes a.actor).vol.acks → k ≤ (s.glog c).length :=
      h3.ack_bound _ _ (hvol _)
    by_cases hvs : a.isVoteStep = false
    · -- votes unchanged; new acknowledgements are of the current term
      obtain ⟨hterm, _, hvotes⟩ := volAfter_votes s a hvs
      rw [hvotes] at hv
      have hTle := ((h1.nodes _).vers _ (hvol a.actor)).votes_le _ _ hv
      rcases h3.vote_req _ _ (hvol a.actor) T n hv with hself | hreq
      · exact Or.inl hself
      · right
        obtain ⟨lt, li, hm, hall⟩ := transfer T n _ hbound hreq
        refine ⟨lt, li, hm, fun c k i hc hk hik ht => ?_⟩
        rcases volAfter_acks_old c0 s a (h1.nodes _) he c k hk with h | ⟨h, _⟩
        · exact hall c k i hc h hik ht
        · omega
    · cases a <;> simp [Action.isVoteStep] at hvs <;> simp only [volAfter, Action.actor] at hv hbound ⊢
      case crash => simp [Action.isStorage] at hst
      case updateTerm m t =>
        exact (h3.vote_req _ _ (hvol m) T n hv).imp id (transfer T n _ hbound)
      case campaign m =>
        -- the candidate's own vote: no request needed (none has been sent yet)
        simp only [List.mem_cons, Prod.mk.injEq] at hv
        rcases hv with ⟨_, rfl⟩ | hv
        · exact Or.inl rfl
        · exact (h3.vote_req _ _ (hvol m) T n hv).imp id (transfer T n _ hbound)
      case grant m c' lt li =>
        simp only [List.mem_cons, Prod.mk.injEq] at hv
        rcases hv with ⟨rfl, rfl⟩ | hv
        · right
          apply transfer _ _ _ hbound
          simp only [enabled] at he
          refine ⟨lt, li, he.2.1, fun c k i _ hk hik ht => ?_⟩
          have hu := upToDate_spec he.2.2.2.1
          rcases vol_uptodate hc0 h1 h2 h3 m c k i hk hik ht with h | h | h
          · exact Or.inl h
          · right; omega
          · right; omega
        · exact (h3.vote_req _ _ (hvol m) T n hv).imp id (transfer T n _ hbound)

theorem ver_commit_step : ∀ n w, w ∈ versions ((apply s a).nodes n) →
    PrefixCommitted c0 (apply s a) w.term w.log w.commit := by
  have hvol : ∀ n, (s.nodes n).vol ∈ versions (s.nodes n) := fun n => by simp [versions]
  intro n w hw
  rcases versions_step s a n w hw with hw | ⟨rfl, hst, rfl⟩
  · exact prefixCommitted_step hc0 h1 h2 hC h3 he hf hnd (h3.ver_commit n w hw)
  · by_cases hlc : ∃ n c q, a = .leaderCommit n c q
    · obtain ⟨n, c, q, rfl⟩ := hlc
      simp only [enabled] at he
      obtain ⟨hrole, hlt, hterm, hq, hall⟩ := he
      have hl := h2.leader_log n hrole
      have hg : (apply s (.leaderCommit n c q)).glog = s.glog := by rw [apply_glog]; rfl
      right
      refine ⟨(s.nodes n).vol.term, c, Nat.le_refl _, Nat.le_refl _, ⟨(s.nodes n).applied, ?_⟩, ?_⟩
      · rw [apply_choices]; simp [newChoices]
      · rw [hg]; simp only [volAfter]; rw [hl]
    apply prefixCommitted_step hc0 h1 h2 hC h3 he hf hnd
    have hv := fun n => h3.ver_commit n _ (hvol n)
    cases a <;> simp only [volAfter, Action.actor] <;> try exact hv _
    case crash => simp [Action.isStorage] at hst
    case campaign n => exact (hv n).mono_term (by simp)
    case updateTerm n t => exact (hv n).mono_term (by simp only [enabled] at he; exact Nat.le_of_lt he)
    case leaderAppend n v =>
      apply (hv n).of_take_eq
      exact List.take_append_of_le_length (h2.ver_commit n _ (hvol n))
    case leaderAppendCfg n v cc =>
      apply (hv n).of_take_eq
      exact List.take_append_of_le_length (h2.ver_commit n _ (hvol n))
    case leaderCommit n c q => exact absurd ⟨n, c, q, rfl⟩ hlc
    case handleApp n t prev pt ents cm =>
      cases hr : appendResult (s.nodes n).vol.log prev pt ents with
      | none => exact hv n
      | some lnew =>
        simp only
        have htn : t = (s.nodes n).vol.term := by simp only [enabled] at he; exact he.2.1
        have hkeep : List.take (s.nodes n).vol.commit lnew =
            List.take (s.nodes n).vol.commit (s.nodes n).vol.log := by
          simp only [enabled, keepsCommitted, hr, beq_iff_eq] at he
          exact he.2.2.2
        obtain ⟨hlen, hres⟩ := handleApp_result h2 he hr
        have hmatch : List.take (prev + ents.length) lnew =
            List.take (prev + ents.length) (s.glog t) := by
          rcases hres with ⟨rfl, _, h⟩ | ⟨rfl, _⟩
          · exact h
          · rw [List.take_take, Nat.min_self]
        by_cases hle : min cm (prev + ents.length) ≤ (s.nodes n).vol.commit
        · rw [Nat.max_eq_left hle]
          exact (hv n).of_take_eq hkeep
        · rw [Nat.max_eq_right (by omega)]
          have hmsg := (by simp only [enabled] at he; exact h3.app_commit _ _ _ _ _ he.1)
          rw [← htn]
          apply (hmsg.mono_idx (Nat.min_le_left cm (prev + ents.length))).of_take_eq
          have := congrArg (List.take (min cm (prev + ents.length))) hmatch
          rwa [List.take_take, List.take_take, Nat.min_eq_left (Nat.min_le_right _ _)] at this
    case handleSnap n t pre =>
      have htn : t = (s.nodes n).vol.term := by simp only [enabled] at he; exact he.2.1
      have hsm := (by simp only [enabled] at he; exact h2.snap_msg _ _ he.1)
      have hsc := (by simp only [enabled] at he; exact h3.snap_commit _ _ he.1)
      have hpre : pre = List.take pre.length (s.glog t) := List.prefix_iff_eq_take.mp hsm.2
      split
      · exact hv n
      · split
        · rename_i h1' h2'
          simp only
          rw [← htn]
          apply hsc.of_take_eq
          rw [h2']; exact hpre
        · simp only
          rw [← htn]
          apply hsc.of_take_eq
          rw [List.take_length]; exact hpre
    case handleHb n t c =>
      simp only [enabled] at he
      obtain ⟨hmsg, htn, _, _⟩ := he
      by_cases hle : c ≤ (s.nodes n).vol.commit
      · rw [Nat.max_eq_left hle]; exact hv n
      · rw [Nat.max_eq_right (by omega)]
        rcases h3.hb_commit _ _ _ hmsg with h0 | ⟨hpc, k, hck, hk⟩
        · omega
        · rw [← htn]
          apply hpc.of_take_eq
          have hk' := (h1.nodes n).dur_le_vol.acks_sub _ hk
          rw [htn] at hk'
          have := h3.ack_same n _ (hvol n) k hk'
          rw [← htn] at this
          have := congrArg (List.take c) this
          rwa [List.take_take, List.take_take, Nat.min_eq_left hck] at this

/-- a committed prefix of `glog t` stays one when `glog t` grows -/
theorem prefixCommitted_glog_step {t m : Nat} (h : PrefixCommitted c0 s t (s.glog t) m) :
    PrefixCommitted c0 (apply s a) t ((apply s a).glog t) m := by
  have hext := glog_ext c0 s a hf h1 h2 he
  exact (prefixCommitted_step hc0 h1 h2 hC h3 he hf hnd h).of_take_eq (take_of_prefix (hext t) (h.le_length hC))

theorem app_commit_step : ∀ t prev pt ents cm, Msg.app t prev pt ents cm ∈ (apply s a).msgs →
    PrefixCommitted c0 (apply s a) t ((apply s a).glog t) cm := by
  have hvol : ∀ n, (s.nodes n).vol ∈ versions (s.nodes n) := fun n => by simp [versions]
  intro t prev pt ents cm hm
  apply prefixCommitted_glog_step hc0 h1 h2 hC h3 he hf hnd
  rw [mem_apply_msgs] at hm
  rcases hm with hm | hm
  · obtain ⟨n, cnt, rfl, rfl, rfl, rfl, rfl⟩ := app_mem_newMsgs s a t prev pt ents cm hm
    simp only [enabled] at he
    rw [← h2.leader_log n he.1]
    exact h3.ver_commit n _ (hvol n)
  · exact h3.app_commit t prev pt ents cm hm

theorem snap_commit_step : ∀ t pre, Msg.snap t pre ∈ (apply s a).msgs →
    PrefixCommitted c0 (apply s a) t ((apply s a).glog t) pre.length := by
  have hvol : ∀ n, (s.nodes n).vol ∈ versions (s.nodes n) := fun n => by simp [versions]
  intro t pre hm
  apply prefixCommitted_glog_step hc0 h1 h2 hC h3 he hf hnd
  rw [mem_apply_msgs] at hm
  rcases hm with hm | hm
  · obtain ⟨n, idx, rfl, rfl, rfl⟩ := snap_mem_newMsgs s a t pre hm
    simp only [enabled] at he
    rw [← h2.leader_log n he.1]
    exact (h3.ver_commit n _ (hvol n)).mono_idx
      (by rw [List.length_take]; exact Nat.le_trans (Nat.min_le_left _ _) he.2)
  · exact h3.snap_commit t pre hm

theorem ack_msg_step : ∀ t v k, Msg.ack t v k ∈ (apply s a).msgs →
    k = 0 ∨ (t, k) ∈ ((apply s a).nodes v).dur.acks := by
  intro t v k hm
  have hdur := (dur_step s a v (h1.nodes v)).2
  rw [mem_apply_msgs] at hm
  rcases hm with hm | hm
  · have := ack_mem_newMsgs s a t v k hm
    subst this
    simp only [enabled] at he
    exact he.imp id (hdur.acks_sub _)
  · exact (h3.ack_msg t v k hm).imp id (hdur.acks_sub _)

theorem hb_commit_step : ∀ t to cm, Msg.hb t to cm ∈ (apply s a).msgs → cm = 0 ∨
    (PrefixCommitted c0 (apply s a) t ((apply s a).glog t) cm ∧
      ∃ k, cm ≤ k ∧ (t, k) ∈ ((apply s a).nodes to).dur.acks) := by
  have hvol : ∀ n, (s.nodes n).vol ∈ versions (s.nodes n) := fun n => by simp [versions]
  intro t to cm hm
  have hdur := (dur_step s a to (h1.nodes to)).2
  suffices h : cm = 0 ∨ (PrefixCommitted c0 s t (s.glog t) cm ∧
      ∃ k, cm ≤ k ∧ (t, k) ∈ (s.nodes to).dur.acks) by
    rcases h with h | ⟨hp, k, hk, hk'⟩
    · exact Or.inl h
    · exact Or.inr ⟨prefixCommitted_glog_step hc0 h1 h2 hC h3 he hf hnd hp, k, hk, hdur.acks_sub _ hk'⟩
  rw [mem_apply_msgs] at hm
  rcases hm with hm | hm
  · obtain ⟨n, rfl, rfl⟩ := hb_mem_newMsgs s a t to cm hm
    simp only [enabled] at he
    obtain ⟨hrole, hc, hack⟩ := he
    rcases hack with h0 | hack
    · exact Or.inl h0
    · obtain ⟨k, hk, hck⟩ := hasAck_spec hack
      rcases h3.ack_msg _ _ _ hk with h0 | h0
      · left; omega
      · right
        refine ⟨?_, k, hck, h0⟩
        rw [← h2.leader_log n hrole]
        exact (h3.ver_commit n _ (hvol n)).mono_idx hc
  · exact h3.hb_commit t to cm hm

theorem committed_chosen_step : ∀ i e tc, (i, e, tc) ∈ (apply s a).committed →
    ∃ c j, c ≤ tc ∧ i ≤ j ∧ Chosen c0 (apply s a) c j ∧ ((apply s a).glog c).at? i = some e := by
  have hext := glog_ext c0 s a hf h1 h2 he
  intro i e tc hm
  rw [mem_apply_committed] at hm
  rcases hm with hm | hm
  · -- a new commit record: it lies within the committed prefix of the new volatile version
    have key : a.isStorage = false → (volAfter s a).term = (s.nodes a.actor).vol.term →
        (i, e, tc) ∈ commitRange (volAfter s a).log (s.nodes a.actor).vol.commit
          (volAfter s a).commit (s.nodes a.actor).vol.term →
        ∃ c j, c ≤ tc ∧ i ≤ j ∧ Chosen c0 (apply s a) c j ∧
          ((apply s a).glog c).at? i = some e := by
      intro hst hterm hx
      obtain ⟨i', e', hxe, hlo, hhi, hat⟩ := mem_commitRange hx
      simp only [Prod.mk.injEq] at hxe
      obtain ⟨rfl, rfl, rfl⟩ := hxe
      have hpc := ver_commit_step hc0 h1 h2 hC h3 he hf hnd a.actor _ (volAfter_mem_versions s a hst)
      rcases hpc with h0 | ⟨c, j, hc, hj, hch, heq⟩
      · omega
      · refine ⟨c, j, by omega, by omega, hch, ?_⟩
        rw [← hat, ← Log.at?_take hhi, ← heq, Log.at?_take hhi]
    cases a <;> simp only [newCommitted, List.not_mem_nil] at hm
    case leaderCommit n c q => exact key rfl rfl hm
    case handleApp n t prev pt ents c =>
      exact key rfl (volAfter_votes s _ rfl).1 hm
    case handleSnap n t pre => exact key rfl (volAfter_votes s _ rfl).1 hm
    case handleHb n t c => exact key rfl rfl hm
  · obtain ⟨c, j, hc, hj, hch, hat⟩ := h3.committed_chosen i e tc hm
    refine ⟨c, j, hc, hj, chosen_step hc0 h1 h2 hC h3 he hf hnd hch, ?_⟩
    rw [← hat]
    apply Log.at?_congr
    exact take_of_prefix (hext c) (by have := chosen_le_glog hC hch; omega)

theorem choice_q_step : ∀ c j k, (c, j, k) ∈ (apply s a).choices →
    ∃ Q, (((apply s a).glog c).cfgAt c0 k).isQuorum Q = true ∧
      ∀ b ∈ Q, ∃ k', j ≤ k' ∧ (c, k') ∈ ((apply s a).nodes b).dur.acks := by
  have hext := glog_ext c0 s a hf h1 h2 he
  have hdur : ∀ m, VerLe (s.nodes m).dur ((apply s a).nodes m).dur :=
    fun m => (dur_step s a m (h1.nodes m)).2
  intro c j k hch
  rw [apply_choices, List.mem_append] at hch
  rcases hch with hch | hch
  · cases a <;> simp only [newChoices, List.not_mem_nil] at hch
    case leaderCommit n cc q =>
      simp only [List.mem_cons, Prod.mk.injEq, List.not_mem_nil, or_false] at hch
      obtain ⟨rfl, rfl, rfl⟩ := hch
      simp only [enabled] at he
      obtain ⟨hrole, hlt, hterm, hq, hall⟩ := he
      have hl := h2.leader_log n hrole
      have hg : (apply s (.leaderCommit n j q)).glog = s.glog := by rw [apply_glog]; rfl
      refine ⟨q, by rw [hg, ← hl]; exact hq, fun b hb => ?_⟩
      rcases hall b hb with ⟨rfl, h⟩ | h
      · obtain ⟨k, hk, hck⟩ := hasDurAck_spec h
        exact ⟨k, hck, (hdur _).acks_sub _ hk⟩
      · obtain ⟨k, hk, hck⟩ := hasAck_spec h
        rcases h3.ack_msg _ _ _ hk with h0 | h0
        · omega
        · exact ⟨k, hck, (hdur _).acks_sub _ h0⟩
  · obtain ⟨Q, hQ, hacks⟩ := h3.choice_q c j k hch
    have hok := hC.choice c j k hch
    have hj : j ≤ (s.glog c).length := Log.termAt_le hok.term
    refine ⟨Q, by rw [cfgAt_prefix c0 (hext c) (by have := hok.lt; omega)]; exact hQ, fun b hb => ?_⟩
    obtain ⟨k', hk', hm⟩ := hacks b hb
    exact ⟨k', hk', (hdur b).acks_sub _ hm⟩

theorem elected_quorum_step : ∀ T n, (T, n) ∈ (apply s a).elected →
    ∃ q, (((apply s a).glog T).cfgAt c0 ((apply s a).eapp T)).isQuorum q = true ∧
      ∀ v ∈ q, (T, n) ∈ ((apply s a).nodes v).dur.votes := by
  have hext := glog_ext c0 s a hf h1 h2 he
  have hdur : ∀ m, VerLe (s.nodes m).dur ((apply s a).nodes m).dur :=
    fun m => (dur_step s a m (h1.nodes m)).2
  intro T n hel
  rw [mem_apply_elected] at hel
  rcases hel with hel | hel
  · obtain ⟨q, rfl, rfl⟩ := mem_newElected s _ T n hel
    simp only [enabled] at he
    refine ⟨q, ?_, fun v hv => (hdur v).votes_sub _ ?_⟩
    · simp only [apply_glog, apply_eapp, glogAfter, eappAfter, ↓reduceIte]
      exact he.2.1
    · rcases he.2.2.2.2 v hv with rfl | hv'
      · exact he.2.2.1
      · exact h1.vote_msg _ _ _ hv'
  · obtain ⟨q, hq, hv⟩ := h3.elected_quorum T n hel
    obtain ⟨e1, _, _⟩ := ghost_keep hf hel
    have hE := hC.elect T n hel
    refine ⟨q, ?_, fun v hv' => (hdur v).votes_sub _ (hv v hv')⟩
    rw [e1, cfgAt_prefix c0 (hext T) (by have := hE.app_le; have := hE.commit_le; have := hE.len_le; omega)]
    exact hq

theorem cand_commit_step : ∀ m, ((apply s a).nodes m).role = .candidate →
    PrefixCommitted c0 (apply s a) (((apply s a).nodes m).vol.term - 1) ((apply s a).nodes m).vol.log
      ((apply s a).nodes m).vol.commit := by
  intro m hr
  apply prefixCommitted_step hc0 h1 h2 hC h3 he hf hnd
  rcases cand_cases c0 s a m he hr with rfl | ⟨hr0, hl, ht, hc, _⟩
  · have := h3.ver_commit m _ (show (s.nodes m).vol ∈ versions (s.nodes m) by simp [versions])
    simpa [apply_nodes, Action.actor, nodeAfter, volAfter] using this
  · rw [hl, ht, hc]; exact h3.cand_commit m hr0

theorem elect_commit_step : ∀ T n, (T, n) ∈ (apply s a).elected →
    PrefixCommitted c0 (apply s a) (T - 1) ((apply s a).glog T) ((apply s a).ecommit T) := by
  intro T n hel
  rw [mem_apply_elected] at hel
  rcases hel with hel | hel
  · obtain ⟨q, rfl, rfl⟩ := mem_newElected s _ T n hel
    apply prefixCommitted_step hc0 h1 h2 hC h3 he hf hnd
    simp only [apply_glog, apply_ecommit, glogAfter, ecommitAfter, ↓reduceIte]
    simp only [enabled] at he
    exact h3.cand_commit n he.1
  · rw [(ghost_keep hf hel).2.1]
    have hext := glog_ext c0 s a hf h1 h2 he
    have h := h3.elect_commit T n hel
    exact (prefixCommitted_step hc0 h1 h2 hC h3 he hf hnd h).of_take_eq
      (take_of_prefix (hext T) (h.le_length hC))

theorem inv3_step (hcand : CandOK c0 s a) : Inv3 c0 (apply s a) :=
  { ack_bound := ack_bound_step hc0 h1 h2 hC h3 he hf hnd
    ack_same := ack_same_step hc0 h1 h2 hC h3 he hf hnd
    ack_w := ack_w_step hc0 h1 h2 hC h3 he hf hnd
    safe_at := safe_at_step hc0 h1 h2 hC h3 he hf hnd hcand
    vote_req := vote_req_step hc0 h1 h2 hC h3 he hf hnd
    ver_commit := ver_commit_step hc0 h1 h2 hC h3 he hf hnd
    app_commit := app_commit_step hc0 h1 h2 hC h3 he hf hnd
    snap_commit := snap_commit_step hc0 h1 h2 hC h3 he hf hnd
    hb_commit := hb_commit_step hc0 h1 h2 hC h3 he hf hnd
    ack_msg := ack_msg_step hc0 h1 h2 hC h3 he hf hnd
    committed_chosen := committed_chosen_step hc0 h1 h2 hC h3 he hf hnd
    safe_next := safe_next_step hc0 h1 h2 hC h3 he hf hnd hcand
    choice_q := choice_q_step hc0 h1 h2 hC h3 he hf hnd
    elected_quorum := elected_quorum_step hc0 h1 h2 hC h3 he hf hnd
    cand_commit := cand_commit_step hc0 h1 h2 hC h3 he hf hnd
    elect_commit := elect_commit_step hc0 h1 h2 hC h3 he hf hnd }

end Step

/-- two chosen indexes (possibly of different terms) determine the same entries below them -/
theorem chosen_agree {c0 : Conf} {s : State} (h2 : Inv2 s) (hC : InvC c0 s) (h3 : Inv3 c0 s)
    {c c' j j' i : Nat} (hc : Chosen c0 s c j) (hc' : Chosen c0 s c' j') (hcc : c ≤ c')
    (hi : i ≤ j) : (s.glog c').at? i = (s.glog c).at? i := by
  by_cases heq : c = c'
  · subst heq; rfl
  · obtain ⟨k', _, hok'⟩ := hc'.ok hC
    obtain ⟨n, hn⟩ := hok'.elected
    rcases h3.safe_at c' n hn c j (by omega) (hc.term hC) with h | h
    · rw [← Log.at?_take hi, h, Log.at?_take hi]
    · exact absurd h (fun hd => chosen_not_dead hC h3.choice_q hc (Nat.le_refl _) hd)

end RaftVerif.SpecR
