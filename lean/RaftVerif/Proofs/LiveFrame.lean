import RaftVerif.Proofs.FlowLeader
import RaftVerif.Proofs.StepSpecs
/-!
# Proofs/LiveFrame — the per-peer frame relation `PrKeep` (C15)

`PrKeep r r'`: what all the message-sending functions of raft.go (`send`, `maybeSendAppend`, the
broadcast loops, the heartbeat and read-index helpers, `maybeCommit`) keep of the per-peer `Progress`:
the tracked peers, and for each peer `Match`, `RecentActive`, `IsLearner`; its state is kept or becomes
`StateSnapshot` *together with* a `MsgSnap` for that peer appended to `msgs`.
-/
namespace RaftVerif.Live
open Raft

/-- what every message-sending function keeps of the per-peer progress: the set of tracked peers, and for
each peer `Match`, `RecentActive`, `IsLearner`; the state is kept, or becomes `StateSnapshot` together
with a `MsgSnap` for that peer appended to `msgs`; `msgs` only grows -/
def PrKeep (r r' : Raft) : Prop :=
  ∃ new, r'.msgs = r.msgs ++ new ∧
    ∀ id, (r.trk.getProgress id = none → r'.trk.getProgress id = none) ∧
      ∀ pr, r.trk.getProgress id = some pr → ∃ pr', r'.trk.getProgress id = some pr' ∧
        pr'.match_ = pr.match_ ∧ pr'.recentActive = pr.recentActive ∧ pr'.isLearner = pr.isLearner ∧
        (pr'.state = pr.state ∨ (pr'.state = .snapshot ∧ ∃ x ∈ new, x.typ = .snap ∧ x.to = id))

theorem PrKeep.refl (r : Raft) : PrKeep r r :=
  ⟨[], by simp, fun _ => ⟨fun h => h, fun pr h => ⟨pr, h, rfl, rfl, rfl, Or.inl rfl⟩⟩⟩

theorem PrKeep.trans {a b c : Raft} (h1 : PrKeep a b) (h2 : PrKeep b c) : PrKeep a c := by
  obtain ⟨n1, hm1, k1⟩ := h1
  obtain ⟨n2, hm2, k2⟩ := h2
  refine ⟨n1 ++ n2, by rw [hm2, hm1, List.append_assoc], fun id => ⟨fun h => (k2 id).1 ((k1 id).1 h), ?_⟩⟩
  intro pr hpr
  obtain ⟨pr1, hg1, e1, e2, e3, hs1⟩ := (k1 id).2 pr hpr
  obtain ⟨pr2, hg2, f1, f2, f3, hs2⟩ := (k2 id).2 pr1 hg1
  refine ⟨pr2, hg2, f1.trans e1, f2.trans e2, f3.trans e3, ?_⟩
  rcases hs2 with hs2 | ⟨hs2, x, hx, hx'⟩
  · rcases hs1 with hs1 | ⟨hs1, x, hx, hx'⟩
    · exact Or.inl (hs2.trans hs1)
    · exact Or.inr ⟨hs2.trans hs1, x, List.mem_append_left _ hx, hx'⟩
  · exact Or.inr ⟨hs2, x, List.mem_append_right _ hx, hx'⟩

instance : RelOK PrKeep := ⟨PrKeep.refl, PrKeep.trans⟩

/-- a change that leaves the progress map alone and only appends to `msgs` -/
theorem PrKeep.of_frame {s x : Raft} (hp : x.trk.progress = s.trk.progress) (new : List Message)
    (hm : x.msgs = s.msgs ++ new) : PrKeep s x := by
  refine ⟨new, hm, fun id => ?_⟩
  unfold Tracker.getProgress
  rw [hp]
  exact ⟨fun h => h, fun pr h => ⟨pr, h, rfl, rfl, rfl, Or.inl rfl⟩⟩

theorem PrKeep.of_eq {s x : Raft} (hp : x.trk.progress = s.trk.progress) (hm : x.msgs = s.msgs) : PrKeep s x :=
  PrKeep.of_frame hp [] (by simp [hm])

macro_rules | `(tactic| rel_fields) => `(tactic| exact PrKeep.of_eq rfl rfl)

/-- overwriting the progress of `id` with one that agrees on the kept fields -/
theorem PrKeep.setProgress (r : Raft) (id : Id) (pr0 X : Progress) (hg : r.trk.getProgress id = some pr0)
    (h1 : X.match_ = pr0.match_) (h2 : X.recentActive = pr0.recentActive) (h3 : X.isLearner = pr0.isLearner)
    (h4 : X.state = pr0.state) : PrKeep r { r with trk := r.trk.setProgress id X } := by
  refine ⟨[], by simp, fun id' => ?_⟩
  simp only [getProgress_setProgress]
  by_cases hid : id = id'
  · subst hid
    simp only [↓reduceIte, reduceCtorEq, imp_false, Option.some.injEq]
    refine ⟨fun h => (by rw [hg] at h; cases h), fun pr hpr => ?_⟩
    rw [hg] at hpr; injection hpr with hpr; subst hpr
    exact ⟨X, rfl, h1, h2, h3, Or.inl h4⟩
  · simp only [hid, ↓reduceIte]
    exact ⟨fun h => h, fun pr h => ⟨pr, h, rfl, rfl, rfl, Or.inl rfl⟩⟩

syntax "pk_step" : tactic

theorem send_pk (m : Message) (s : Raft) : Spec (send m) s (fun _ s' => PrKeep s s') := by
  refine (send_spec m s).mono ?_
  rintro _ s' (⟨_, rfl⟩ | ⟨_, rfl⟩)
  · exact PrKeep.of_eq rfl rfl
  · exact PrKeep.of_frame rfl _ rfl
macro_rules | `(tactic| pk_step) => `(tactic| rel_call (send_pk ..))

theorem sentEntries_keeps (pr pr' : Progress) (n b : Nat) (h : pr.sentEntries n b = .ok pr') :
    pr'.match_ = pr.match_ ∧ pr'.recentActive = pr.recentActive ∧ pr'.isLearner = pr.isLearner ∧
    pr'.state = pr.state := by
  cases hs : pr.state with
  | snapshot =>
    obtain ⟨e, he⟩ := Progress.sentEntries_snapshot pr n b hs
    rw [he] at h; cases h
  | probe =>
    rw [Progress.sentEntries_probe pr n b hs] at h
    injection h with h; subst h
    split <;> exact ⟨rfl, rfl, rfl, hs⟩
  | replicate =>
    rcases Nat.eq_zero_or_pos n with h0 | hpos
    · subst h0
      rw [Progress.sentEntries_replicate_zero pr b hs] at h
      injection h with h; subst h
      exact ⟨rfl, rfl, rfl, hs⟩
    · rw [Progress.sentEntries_replicate_pos pr n b hs hpos] at h
      cases ha : pr.inflights.add (pr.next + n - 1) b with
      | error e => rw [ha] at h; cases h
      | ok infl =>
        rw [ha] at h
        simp only [Except.map] at h
        injection h with h; subst h
        exact ⟨rfl, rfl, rfl, hs⟩

theorem maybeSendAppend_pk (to : Id) (b : Bool) (s : Raft) :
    Spec (maybeSendAppend to b) s (fun _ s' => PrKeep s s') := by
  rw [Spec.iff_runs]
  intro res s' h
  obtain ⟨pr, hg, h1 | ⟨_, _, _, h2⟩ | ⟨_, _, _, pt, ents, pr', _, _, _, _, hsent, h2⟩⟩ :=
    maybeSendAppend_outcome to b s s' res h
  · rw [h1.2]; exact PrKeep.refl _
  · subst h2
    refine ⟨[stamp s { to := to, typ := .snap, snapshot := some s.log.snapshot }], rfl, fun id' => ?_⟩
    simp only [afterSnap, getProgress_setProgress]
    by_cases hid : to = id'
    · subst hid
      simp only [↓reduceIte, reduceCtorEq, imp_false, Option.some.injEq]
      refine ⟨fun h => (by rw [hg] at h; cases h), fun pr0 hpr => ?_⟩
      rw [hg] at hpr; injection hpr with hpr; subst hpr
      refine ⟨_, rfl, rfl, rfl, rfl, Or.inr ⟨rfl, _, List.mem_singleton.mpr rfl, by simp, by simp⟩⟩
    · simp only [hid, ↓reduceIte]
      exact ⟨fun h => h, fun pr h => ⟨pr, h, rfl, rfl, rfl, Or.inl rfl⟩⟩
  · subst h2
    obtain ⟨e1, e2, e3, e4⟩ := sentEntries_keeps pr pr' _ _ hsent
    refine ⟨[stamp s (appMsg to s pr pt ents)], rfl, fun id' => ?_⟩
    simp only [afterApp, getProgress_setProgress]
    by_cases hid : to = id'
    · subst hid
      simp only [↓reduceIte, reduceCtorEq, imp_false, Option.some.injEq]
      refine ⟨fun h => (by rw [hg] at h; cases h), fun pr0 hpr => ?_⟩
      rw [hg] at hpr; injection hpr with hpr; subst hpr
      exact ⟨_, rfl, e1, e2, e3, Or.inl e4⟩
    · simp only [hid, ↓reduceIte]
      exact ⟨fun h => h, fun pr h => ⟨pr, h, rfl, rfl, rfl, Or.inl rfl⟩⟩
macro_rules | `(tactic| pk_step) => `(tactic| rel_call (maybeSendAppend_pk ..))

theorem sendAppendLoop_pk (fuel : Nat) (to : Id) (s : Raft) :
    Spec (sendAppendLoop fuel to) s (fun _ s' => PrKeep s s') := by
  induction fuel generalizing s with
  | zero => unfold sendAppendLoop; rel_start; wp_auto [pk_step]
  | succ n ih =>
    unfold sendAppendLoop
    rel_start
    wp_auto [first | pk_step | rel_call (ih ..)]
macro_rules | `(tactic| pk_step) => `(tactic| rel_call (sendAppendLoop_pk ..))

theorem bcastAppend_pk (s : Raft) : Spec bcastAppend s (fun _ s' => PrKeep s s') := by
  unfold bcastAppend
  rel_start
  wp_auto [first | pk_step | rel_loop PrKeep]
macro_rules | `(tactic| pk_step) => `(tactic| rel_call (bcastAppend_pk ..))

theorem sendHeartbeat_pk (to : Id) (ctx : Option Bytes) (s : Raft) :
    Spec (sendHeartbeat to ctx) s (fun _ s' => PrKeep s s') := by
  rw [Spec.iff_runs]
  intro u s' h
  unfold Runs sendHeartbeat at h
  obtain ⟨pr, r1, h1, hA⟩ := bind_ok h
  obtain ⟨e1, hg⟩ := getPr_ok h1; subst e1
  obtain ⟨r0, r2, h2, hB⟩ := bind_ok hA
  obtain ⟨e0, e2⟩ := get_ok h2; subst e0 e2
  obtain ⟨u3, r3, h3, hC⟩ := bind_ok hB
  have f3 := (send_pk _ _).elim h3
  have e4 := setPr_ok hC; subst e4
  refine f3.trans (PrKeep.setProgress _ _ pr _ ?_ rfl rfl rfl rfl)
  rw [(send_keeps _ _ _ _ h3).1]; exact hg
macro_rules | `(tactic| pk_step) => `(tactic| rel_call (sendHeartbeat_pk ..))

theorem bcastHeartbeatWithCtx_pk (ctx : Option Bytes) (s : Raft) :
    Spec (bcastHeartbeatWithCtx ctx) s (fun _ s' => PrKeep s s') := by
  unfold bcastHeartbeatWithCtx
  rel_start
  wp_auto [first | pk_step | rel_loop PrKeep]
macro_rules | `(tactic| pk_step) => `(tactic| rel_call (bcastHeartbeatWithCtx_pk ..))

theorem bcastHeartbeat_pk (s : Raft) : Spec bcastHeartbeat s (fun _ s' => PrKeep s s') := by
  unfold bcastHeartbeat
  rel_start
  wp_auto [pk_step]
macro_rules | `(tactic| pk_step) => `(tactic| rel_call (bcastHeartbeat_pk ..))

theorem maybeCommit_pk (s : Raft) : Spec maybeCommit s (fun _ s' => PrKeep s s') := by
  unfold maybeCommit
  rel_start
  wp_auto [pk_step]
macro_rules | `(tactic| pk_step) => `(tactic| rel_call (maybeCommit_pk ..))

theorem responseToReadIndexReq_pk (req : Message) (i : Nat) (s : Raft) :
    Spec (responseToReadIndexReq req i) s (fun _ s' => PrKeep s s') := by
  unfold responseToReadIndexReq
  rel_start
  wp_auto [pk_step]
macro_rules | `(tactic| pk_step) => `(tactic| rel_call (responseToReadIndexReq_pk ..))

theorem sendReadIndexResp_pk (req : Message) (i : Nat) (s : Raft) :
    Spec (sendReadIndexResp req i) s (fun _ s' => PrKeep s s') := by
  unfold sendReadIndexResp
  rel_start
  wp_auto [pk_step]
macro_rules | `(tactic| pk_step) => `(tactic| rel_call (sendReadIndexResp_pk ..))

theorem sendMsgReadIndexResponse_pk (m : Message) (s : Raft) :
    Spec (sendMsgReadIndexResponse m) s (fun _ s' => PrKeep s s') := by
  unfold sendMsgReadIndexResponse
  rel_start
  wp_auto [pk_step]
macro_rules | `(tactic| pk_step) => `(tactic| rel_call (sendMsgReadIndexResponse_pk ..))

theorem releasePendingReadIndexMessages_pk (s : Raft) :
    Spec releasePendingReadIndexMessages s (fun _ s' => PrKeep s s') := by
  unfold releasePendingReadIndexMessages
  rel_start
  wp_auto [first | pk_step | rel_loop PrKeep]
macro_rules | `(tactic| pk_step) => `(tactic| rel_call (releasePendingReadIndexMessages_pk ..))

end RaftVerif.Live
