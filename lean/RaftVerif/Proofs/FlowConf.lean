import RaftVerif.Proofs.FlowFrame
/-!
# Proofs/FlowConf — every progress map produced by the conf-change machinery (`Changer`,
`confchange.Restore`) keeps well-formed inflight windows.  Core Lean only.
-/
namespace RaftVerif

/-- invariant of a `for` loop in the `Except` monad -/
theorem forIn_except_inv {α β ε : Type} (P : β → Prop) (f : α → β → Except ε (ForInStep β))
    (hstep : ∀ a b s, P b → f a b = .ok s → P (match s with | .done b' => b' | .yield b' => b'))
    (l : List α) (b : β) (res : β) (hb : P b) (h : forIn l b f = .ok res) : P res := by
  induction l generalizing b with
  | nil =>
    simp only [List.forIn_nil, P_pure_eq] at h
    injection h with h; subst h; exact hb
  | cons a t ih =>
    rw [List.forIn_cons] at h
    cases hf : f a b with
    | error e => rw [hf] at h; cases h
    | ok s =>
      rw [hf] at h
      have hs := hstep a b s hb hf
      cases s with
      | done b' =>
        simp only [P_ok_bind, P_pure_eq] at h
        injection h with h; subst h; exact hs
      | yield b' =>
        simp only [P_ok_bind] at h
        exact ih b' hs h

theorem lookup_mapErase {β : Type} (id : Id) (l : List (Id × β)) (k : Id) :
    Quorum.lookup (mapErase id l) k = if k = id then none else Quorum.lookup l k := by
  unfold mapErase
  induction l with
  | nil => simp [Quorum.lookup]
  | cons a t ih =>
    obtain ⟨ka, va⟩ := a
    rw [List.filter_cons]
    by_cases hka : ka = id
    · subst hka
      simp only [bne_self_eq_false, Bool.false_eq_true, ↓reduceIte, ih]
      by_cases hk : k = ka
      · simp [hk]
      · simp only [hk, ↓reduceIte]
        conv => rhs; rw [Quorum.lookup]
        have : (ka == k) = false := by simpa using fun h => hk h.symm
        simp [this]
    · have : (ka != id) = true := by simpa using hka
      simp only [this, ↓reduceIte]
      rw [Quorum.lookup, ih]
      conv => rhs; rw [Quorum.lookup]
      by_cases hk : (ka == k) = true
      · have hk' : ka = k := by simpa using hk
        subst hk'
        simp [hka]
      · simp only [hk, Bool.false_eq_true, ↓reduceIte]

/-- every progress of the map has a well-formed inflight window -/
def AllWF (trk : ProgressMap) : Prop := ∀ id pr, mapGet trk id = some pr → pr.inflights.WF

theorem AllWF.insert {trk : ProgressMap} (h : AllWF trk) (k : Id) (v : Progress) (hv : v.inflights.WF) :
    AllWF (mapInsert k v trk) := by
  intro id pr hg
  rw [mapGet_mapInsert_flow] at hg
  split at hg
  · injection hg with hg; subst hg; exact hv
  · exact h id pr hg

theorem AllWF.erase {trk : ProgressMap} (h : AllWF trk) (k : Id) : AllWF (mapErase k trk) := by
  intro id pr hg
  unfold mapGet at hg
  rw [lookup_mapErase] at hg
  split at hg
  · cases hg
  · exact h id pr hg

namespace Changer

theorem initProgress_AllWF (c : Changer) (cfg : TrackerConfig) (trk : ProgressMap) (id : Id) (l : Bool)
    (h : AllWF trk) : AllWF (c.initProgress cfg trk id l).2 := by
  unfold initProgress
  exact h.insert _ _ (Inflights.WF_of_empty _ rfl)

theorem remove_AllWF (c : Changer) (cfg : TrackerConfig) (trk : ProgressMap) (id : Id)
    (h : AllWF trk) : AllWF (c.remove cfg trk id).2 := by
  unfold remove
  split
  · exact h
  · simp only
    split
    · exact h.erase _
    · exact h

theorem makeVoter_AllWF (c : Changer) (cfg : TrackerConfig) (trk : ProgressMap) (id : Id)
    (h : AllWF trk) : AllWF (c.makeVoter cfg trk id).2 := by
  unfold makeVoter
  split
  · exact initProgress_AllWF c _ _ _ _ h
  · rename_i pr hg
    exact h.insert _ _ (h id pr hg)

theorem makeLearner_AllWF (c : Changer) (cfg : TrackerConfig) (trk : ProgressMap) (id : Id)
    (h : AllWF trk) : AllWF (c.makeLearner cfg trk id).2 := by
  unfold makeLearner
  split
  · exact initProgress_AllWF c _ _ _ _ h
  · rename_i pr hg
    split
    · exact h
    · have hr := remove_AllWF c cfg trk id h
      cases hrm : c.remove cfg trk id with
      | mk cfg' trk' =>
        rw [hrm] at hr
        simp only
        split
        · exact hr.insert _ _ (h id pr hg)
        · exact hr.insert _ _ (h id pr hg)


theorem apply_AllWF (c : Changer) (cfg : TrackerConfig) (trk : ProgressMap) (ccs : List ConfChangeSingle)
    (res : TrackerConfig × ProgressMap) (h : AllWF trk) (hr : c.apply cfg trk ccs = .ok res) : AllWF res.2 := by
  unfold apply at hr
  simp only [bind, Except.bind] at hr
  split at hr
  · cases hr
  · rename_i s hs
    have hP : AllWF s.2 := by
      refine forIn_except_inv (fun st : TrackerConfig × ProgressMap => AllWF st.2) _ ?_ _ _ _ h hs
      intro cc st s' hst hf
      split at hf
      · injection hf with hf; subst hf; exact hst
      · split at hf
        · injection hf with hf; subst hf; exact makeVoter_AllWF c _ _ _ hst
        · injection hf with hf; subst hf; exact makeLearner_AllWF c _ _ _ hst
        · injection hf with hf; subst hf; exact remove_AllWF c _ _ _ hst
        · injection hf with hf; subst hf; exact hst
    split at hr
    · cases hr
    · injection hr with hr; subst hr; exact hP

end Changer

theorem checkAndReturn_snd (cfg : TrackerConfig) (trk : ProgressMap) (res : TrackerConfig × ProgressMap)
    (h : checkAndReturn cfg trk = .ok res) : res.2 = trk := by
  unfold checkAndReturn at h
  simp only [bind, Except.bind] at h
  split at h
  · cases h
  · injection h with h; subst h; rfl

namespace Changer

theorem checkAndCopy_snd (c : Changer) (res : TrackerConfig × ProgressMap) (h : c.checkAndCopy = .ok res) :
    res.2 = c.tracker.progress :=
  checkAndReturn_snd _ _ _ h

theorem simple_AllWF (c : Changer) (ccs : List ConfChangeSingle) (res : TrackerConfig × ProgressMap)
    (h : AllWF c.tracker.progress) (hr : c.simple ccs = .ok res) : AllWF res.2 := by
  unfold simple at hr
  simp only [bind, Except.bind] at hr
  split at hr
  · cases hr
  · rename_i p hp
    have e := checkAndCopy_snd c p hp
    obtain ⟨cfg0, trk0⟩ := p
    simp only at e hr
    subst e
    split at hr
    · cases hr
    · split at hr
      · cases hr
      · rename_i q hq
        have hq' := apply_AllWF c _ _ _ q h hq
        obtain ⟨cfg1, trk1⟩ := q
        simp only at hr hq'
        split at hr
        · cases hr
        · rw [checkAndReturn_snd _ _ _ hr]; exact hq'


theorem enterJoint_AllWF (c : Changer) (al : Bool) (ccs : List ConfChangeSingle)
    (res : TrackerConfig × ProgressMap)
    (h : AllWF c.tracker.progress) (hr : c.enterJoint al ccs = .ok res) : AllWF res.2 := by
  unfold enterJoint at hr
  simp only [bind, Except.bind] at hr
  split at hr
  · cases hr
  · rename_i p hp
    have e := checkAndCopy_snd c p hp
    obtain ⟨cfg0, trk0⟩ := p
    simp only at e hr
    subst e
    split at hr
    · cases hr
    · split at hr
      · cases hr
      · split at hr
        · cases hr
        · rename_i q hq
          have hq' := apply_AllWF c _ _ _ q h hq
          obtain ⟨cfg1, trk1⟩ := q
          simp only at hr hq'
          rw [checkAndReturn_snd _ _ _ hr]; exact hq'

theorem leaveJoint_AllWF (c : Changer) (res : TrackerConfig × ProgressMap)
    (h : AllWF c.tracker.progress) (hr : c.leaveJoint = .ok res) : AllWF res.2 := by
  unfold leaveJoint at hr
  simp only [bind, Except.bind] at hr
  split at hr
  · cases hr
  · rename_i p hp
    have e := checkAndCopy_snd c p hp
    obtain ⟨cfg0, trk0⟩ := p
    simp only at e hr
    subst e
    split at hr
    · cases hr
    · split at hr
      · cases hr
      · rename_i s1 hs1
        have h1 : AllWF s1.2 := by
          refine forIn_except_inv (fun st : TrackerConfig × ProgressMap => AllWF st.2) _ ?_ _ _ _ h hs1
          intro id st s' hst hf
          split at hf
          · rename_i pr hg
            injection hf with hf; subst hf
            exact hst.insert _ _ (hst id pr hg)
          · cases hf
        split at hr
        · cases hr
        · rename_i s2 hs2
          have h2 : AllWF s2 := by
            refine forIn_except_inv AllWF _ ?_ _ _ _ h1 hs2
            intro id st s' hst hf
            split at hf
            · injection hf with hf; subst hf; exact hst.erase _
            · injection hf with hf; subst hf; exact hst
          rw [checkAndReturn_snd _ _ _ hr]; exact h2

end Changer

theorem restoreConf_AllWF (c : Changer) (cs : ConfState) (res : TrackerConfig × ProgressMap)
    (h : AllWF c.tracker.progress) (hr : restoreConf c cs = .ok res) : AllWF res.2 := by
  unfold restoreConf at hr
  simp only [bind, Except.bind] at hr
  split at hr
  · split at hr
    · cases hr
    · rename_i s hs
      injection hr with hr; subst hr
      refine forIn_except_inv (fun ch : Changer => AllWF ch.tracker.progress) _ ?_ _ _ _ h hs
      intro cc ch s' hch hf
      split at hf
      · cases hf
      · rename_i v hv
        injection hf with hf; subst hf
        exact Changer.simple_AllWF ch _ v hch hv
  · split at hr
    · cases hr
    · rename_i s hs
      have h1 : AllWF s.tracker.progress := by
        refine forIn_except_inv (fun ch : Changer => AllWF ch.tracker.progress) _ ?_ _ _ _ h hs
        intro cc ch s' hch hf
        split at hf
        · cases hf
        · rename_i v hv
          injection hf with hf; subst hf
          exact Changer.simple_AllWF ch _ v hch hv
      split at hr
      · cases hr
      · rename_i v hv
        injection hr with hr; subst hr
        exact Changer.enterJoint_AllWF s _ _ v h1 hv

end RaftVerif
