import RaftVerif.Proofs.RefineRLog
/-!
# Proofs/RefineRCampaign — MsgHup against `SpecR.campaign` (item 4)
-/
namespace RaftVerif.RefineR
open RaftVerif.Raft RaftVerif.Refine RaftVerif.Conf10

/-- a promotable node has no pending snapshot -/
theorem promotable_no_snapshot {r : Raft} (hp : Live.promotableB r = true) :
    r.log.unstable.snapshot = none := by
  unfold Live.promotableB at hp
  split at hp
  · cases hp
  · simp only [RaftLog.hasNextOrInProgressSnapshot, Bool.and_eq_true, Bool.not_eq_true',
      Option.isSome_eq_false_iff, Option.isNone_iff_eq_none] at hp
    exact hp.2

/-- `hasUnappliedConfChanges` answers the SpecR guard on the abstraction -/
theorem hasUnapplied_run_R (val : Val) (cf : Entry → SpecR.Conf) (r : Raft) (hwf : r.log.WF)
    (hunc : Uncompacted r.log) (hsn : r.log.unstable.snapshot = none) :
    hasUnappliedConfChanges.run r =
      .ok ((absLogR val cf r).hasCfgIn r.log.applied r.log.committed, r) := by
  classical
  rw [hasUnappliedConfChanges_run r hwf hsn]
  congr 2
  have := hasCfgIn_iff_unappliedCC val cf r.log hunc
  unfold absLogR
  by_cases h : UnappliedCC r.log
  · rw [this.mpr h]; exact decide_eq_true h
  · have hf : (absLogLR val cf r.log).hasCfgIn r.log.applied r.log.committed = false := by
      cases hb : (absLogLR val cf r.log).hasCfgIn r.log.applied r.log.committed
      · rfl
      · exact absurd (this.mp hb) h
    rw [hf]; exact decide_eq_false h

/-- the SpecR guard of `campaign`, given the abstraction -/
theorem campaign_enabled_R_iff (val : Val) (cf : Entry → SpecR.Conf) (c0 : SpecR.Conf) (s : SpecR.State)
    (n : Nat) (r : Raft) (ha : AbsR val cf r (s.nodes n)) :
    SpecR.enabled c0 s (.campaign n) ↔
      r.state ≠ .leader ∧ n ≠ 0 ∧ (absLogR val cf r).hasCfgIn r.log.applied r.log.committed = false := by
  simp only [SpecR.enabled]
  rw [ha.role, ha.log, ha.applied, ha.commit]
  constructor
  · rintro ⟨h1, h2, h3⟩
    exact ⟨fun h => h1 (absRoleR_eq_leader.mpr h), h2, h3⟩
  · rintro ⟨h1, h2, h3⟩
    exact ⟨absRoleR_ne_leader h1, h2, h3⟩

/-- effect of `campaign n` on the abstraction, from the model-side postcondition -/
theorem campaign_abs_node_R (val : Val) (cf : Entry → SpecR.Conf) (s : SpecR.State) (n : Nat)
    (t : CampaignType) (r r' : Raft) (ha : AbsR val cf r (s.nodes n)) (hn : n = r.cfg.id)
    (hp : CampaignPost val t r r') :
    AbsR val cf r' ((SpecR.apply s (.campaign n)).nodes n) := by
  obtain ⟨a1, a2, a3, a4, a5, a6, a7⟩ := ha
  constructor
  · simp only [SpecR.apply, SpecR.setNode, if_true]; rw [a1, hp.term]
  · simp only [SpecR.apply, SpecR.setNode, if_true]; rw [hp.vote, hn]
  · simp only [SpecR.apply, SpecR.setNode, if_true]; rw [a3, hp.log]
  · simp only [SpecR.apply, SpecR.setNode, if_true]; rw [a4, absLogR, absLogR, hp.log]
  · simp only [SpecR.apply, SpecR.setNode, if_true]; rw [hp.state]; rfl
  · simp only [SpecR.apply, SpecR.setNode, if_true]; rw [a6, hp.log]
  · intro hl; rw [hp.state] at hl; cases hl

theorem sendReqVote_enabled_R (c0 : SpecR.Conf) (s : SpecR.State) (n : Nat) :
    SpecR.enabled c0 (SpecR.apply s (.campaign n)) (.sendReqVote n) := by
  simp [SpecR.enabled, SpecR.apply, SpecR.setNode]

theorem apply_sendReqVote_msgs_R (val : Val) (cf : Entry → SpecR.Conf) (s : SpecR.State) (n : Nat) (r : Raft)
    (ha : AbsR val cf r (s.nodes n)) :
    (SpecR.apply (SpecR.apply s (.campaign n)) (.sendReqVote n)).msgs =
      SpecR.Msg.reqVote (r.term + 1) n (absLogR val cf r).lastTerm (absLogR val cf r).length :: s.msgs := by
  simp only [SpecR.apply, SpecR.setNode, if_true]
  rw [ha.term, ha.log]

theorem sendReqVote_abs_R (val : Val) (cf : Entry → SpecR.Conf) (s : SpecR.State) (n : Nat) (r' : Raft)
    (ha : AbsR val cf r' (s.nodes n)) : AbsR val cf r' ((SpecR.apply s (.sendReqVote n)).nodes n) := by
  simpa [SpecR.apply] using ha

end RaftVerif.RefineR
