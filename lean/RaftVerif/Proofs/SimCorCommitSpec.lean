import RaftVerif.Proofs.SpecCommit
/-!
# C06 at protocol level: a committed index is durable on a quorum *now*

From `Inv3.ver_commit` every version's committed prefix is a prefix of `glog c` for a term `c` with
`Chosen c j`: a quorum holds durable acknowledgements `(c, k)`, `j ≤ k`.  A durable acknowledgement
of `c` pins the durable log of its holder to `glog c` up to `k` — by `ack_same` while the holder is
still in term `c`, and by `ack_w` afterwards (the alternative `Dead c j` is impossible for a chosen
index).  Hence the quorum holds the committed entries in its durable logs in the *present* state,
not just at commit time.
-/
namespace RaftVerif.Spec

theorem Log.at?_isSome {l : Log} {i : Nat} (h1 : 1 ≤ i) (h2 : i ≤ l.length) :
    ∃ e, l.at? i = some e := by
  unfold Log.at?
  have : i - 1 < l.length := by omega
  refine ⟨l[i - 1], ?_⟩
  rw [if_neg (by omega)]
  exact List.getElem?_eq_getElem this

/-- holder of a durable ack `(c,k)` for a chosen index `j ≤ k` has `glog c` up to `j` durably -/
theorem chosen_ack_dur_take {cfg : Cfg} (hcfg : cfg.OK) {s : State} (h1 : Inv1 cfg s)
    (h3 : Inv3 cfg s) {c j k : Nat} {v : NodeId} (hch : Chosen cfg s c j) (hjk : j ≤ k)
    (hk : (c, k) ∈ (s.nodes v).dur.acks) :
    List.take j (s.nodes v).dur.log = List.take j (s.glog c) := by
  have hmem : (s.nodes v).dur ∈ versions (s.nodes v) := by simp [versions]
  have hle := ((h1.nodes v).vers _ hmem).acks_le c k hk
  by_cases heq : c = (s.nodes v).dur.term
  · have := h3.ack_same v _ hmem k (heq ▸ hk)
    rw [← heq] at this
    have h' := congrArg (List.take j) this
    rwa [List.take_take, List.take_take, Nat.min_eq_left hjk] at h'
  · rcases h3.ack_w v _ hmem c k j hk (by omega) hjk hch.2.1 with h | h
    · exact h
    · exact absurd h (fun hd => chosen_not_dead hcfg hch (Nat.le_refl _) hd)

/-- every version's committed prefix is held durably by a quorum in the present state -/
theorem ver_committed_durable_on_quorum {cfg : Cfg} (hcfg : cfg.OK) {s : State} (h1 : Inv1 cfg s)
    (h2 : Inv2 s) (h3 : Inv3 cfg s) (n : NodeId) (w : Ver) (hw : w ∈ versions (s.nodes n))
    (hc : 1 ≤ w.commit) :
    ∃ q, cfg.isQuorum q = true ∧ ∀ i, 1 ≤ i → i ≤ w.commit → ∀ v ∈ q,
      (s.nodes v).dur.log.at? i = w.log.at? i ∧ ∃ e, w.log.at? i = some e := by
  rcases h3.ver_commit n w hw with h0 | ⟨c, j, _, hmj, hch, heq⟩
  · omega
  · obtain ⟨_, _, Q, hQ, hq⟩ := id hch
    refine ⟨Q, hQ, fun i hi1 him v hv => ?_⟩
    obtain ⟨k, hjk, hk⟩ := hq v hv
    have ht := chosen_ack_dur_take hcfg h1 h3 hch hjk hk
    refine ⟨?_, Log.at?_isSome hi1 (Nat.le_trans him (h2.ver_commit n w hw))⟩
    rw [← Log.at?_take (Nat.le_trans him hmj), ht, Log.at?_take (Nat.le_trans him hmj),
      ← Log.at?_take him (l := w.log), heq, Log.at?_take him]

/-- **C06, protocol level**: every index at or below any node's (volatile) commit index is held,
with the same entry, in the *durable* log of every member of a quorum, in the present state. -/
theorem committed_durable_on_quorum {cfg : Cfg} (hcfg : cfg.OK) {s : State} (h : Reachable cfg s)
    (n : NodeId) (i : Nat) (hi1 : 1 ≤ i) (hic : i ≤ (s.nodes n).vol.commit) :
    ∃ q, cfg.isQuorum q = true ∧ ∀ v ∈ q,
      (s.nodes v).dur.log.at? i = (s.nodes n).vol.log.at? i ∧
      ∃ e, (s.nodes n).vol.log.at? i = some e := by
  obtain ⟨q, hq, hall⟩ := ver_committed_durable_on_quorum hcfg (inv1_reachable cfg hcfg s h)
    (inv2_reachable cfg hcfg s h) (inv3_reachable cfg hcfg s h) n (s.nodes n).vol
    (by simp [versions]) (by omega)
  exact ⟨q, hq, fun v hv => hall i hi1 hic v hv⟩

/-- one quorum serves the whole committed prefix of `n` -/
theorem committed_prefix_durable_on_quorum {cfg : Cfg} (hcfg : cfg.OK) {s : State}
    (h : Reachable cfg s) (n : NodeId) (hc : 1 ≤ (s.nodes n).vol.commit) :
    ∃ q, cfg.isQuorum q = true ∧ ∀ i, 1 ≤ i → i ≤ (s.nodes n).vol.commit → ∀ v ∈ q,
      (s.nodes v).dur.log.at? i = (s.nodes n).vol.log.at? i ∧
      ∃ e, (s.nodes n).vol.log.at? i = some e :=
  ver_committed_durable_on_quorum hcfg (inv1_reachable cfg hcfg s h)
    (inv2_reachable cfg hcfg s h) (inv3_reachable cfg hcfg s h) n (s.nodes n).vol
    (by simp [versions]) hc

theorem Log.termAt_mono {l : Log} (hs : (l.map (·.term)).Pairwise (· ≤ ·)) {i j a b : Nat}
    (hi : 1 ≤ i) (hij : i ≤ j) (ha : l.termAt i = some a) (hb : l.termAt j = some b) : a ≤ b := by
  have hjl := Log.termAt_le hb
  rw [Log.termAt_pos _ hi] at ha
  rw [Log.termAt_pos _ (Nat.le_trans hi hij)] at hb
  have h1 : i - 1 < l.length := by omega
  have h2 : j - 1 < l.length := by omega
  rw [List.getElem?_eq_getElem h1] at ha
  rw [List.getElem?_eq_getElem h2] at hb
  simp only [Option.map_some, Option.some.injEq] at ha hb
  subst ha hb
  by_cases heq : i = j
  · subst heq; exact Nat.le_refl _
  · have := (List.pairwise_iff_getElem.mp hs) (i - 1) (j - 1) (by simpa using h1) (by simpa using h2) (by omega)
    simpa using this

/-- the commit rule in present-state form: the committed prefix of every version is covered by an index `j` that was
chosen in a term `c ≤` the version's term: the entry at `j` is of term `c` (the committing leader's own term) in the
*durable* log of every member of a quorum, each of which is durably at term `≥ c`; and the members' durable logs agree
with the version's log on its whole committed prefix; `c` is at least the term of the version's entry at its commit index -/
theorem ver_committed_own_term_on_quorum {cfg : Cfg} (hcfg : cfg.OK) {s : State} (h1 : Inv1 cfg s)
    (h2 : Inv2 s) (h3 : Inv3 cfg s) (n : NodeId) (w : Ver) (hw : w ∈ versions (s.nodes n))
    (hc : 1 ≤ w.commit) :
    ∃ c j q, c ≤ w.term ∧ w.commit ≤ j ∧ (∀ b, w.log.termAt w.commit = some b → b ≤ c) ∧
      cfg.isQuorum q = true ∧ ∀ v ∈ q,
      (s.nodes v).dur.log.termAt j = some c ∧ c ≤ (s.nodes v).dur.term ∧
      ∀ i, 1 ≤ i → i ≤ w.commit →
        (s.nodes v).dur.log.at? i = w.log.at? i ∧ ∃ e, w.log.at? i = some e := by
  rcases h3.ver_commit n w hw with h0 | ⟨c, j, hct, hmj, hch, heq⟩
  · omega
  · obtain ⟨_, hterm, Q, hQ, hq⟩ := id hch
    refine ⟨c, j, Q, hct, hmj, fun b hb => ?_, hQ, fun v hv => ?_⟩
    · rw [Log.termAt_congr heq] at hb
      exact Log.termAt_mono (h2.glog_wf c).sorted hc hmj hb hterm
    obtain ⟨k, hjk, hk⟩ := hq v hv
    have ht := chosen_ack_dur_take hcfg h1 h3 hch hjk hk
    have hmem : (s.nodes v).dur ∈ versions (s.nodes v) := by simp [versions]
    refine ⟨?_, ((h1.nodes v).vers _ hmem).acks_le c k hk, fun i hi1 him => ?_⟩
    · rw [Log.termAt_congr ht, hterm]
    · refine ⟨?_, Log.at?_isSome hi1 (Nat.le_trans him (h2.ver_commit n w hw))⟩
      rw [← Log.at?_take (Nat.le_trans him hmj), ht, Log.at?_take (Nat.le_trans him hmj),
        ← Log.at?_take him (l := w.log), heq, Log.at?_take him]

/-- **C06, the commit step**: whenever a leader `n` may advance its commit index to `c` (`leaderCommit n c q` is
enabled in a reachable state) the entry at `c` is of the leader's own term, `c` is within its log, and every member
of the quorum `q` it counted is durably at a term `≥` the leader's and holds the leader's log up to `c` in its
*durable* log -/
theorem leaderCommit_durable_on_quorum {cfg : Cfg} (hcfg : cfg.OK) {s : State} (h : Reachable cfg s)
    {n c : Nat} {q : List NodeId} (hen : enabled cfg s (.leaderCommit n c q)) :
    (s.nodes n).vol.log.termAt c = some (s.nodes n).vol.term ∧ c ≤ (s.nodes n).vol.log.length ∧
    cfg.isQuorum q = true ∧ ∀ v ∈ q, (s.nodes n).vol.term ≤ (s.nodes v).dur.term ∧
      List.take c (s.nodes v).dur.log = List.take c (s.nodes n).vol.log := by
  have h1 := inv1_reachable cfg hcfg s h
  have h2 := inv2_reachable cfg hcfg s h
  have h3 := inv3_reachable cfg hcfg s h
  obtain ⟨hrole, hlt, hterm, hQ, hq⟩ := hen
  have hlog := h2.leader_log n hrole
  have hacks : ∀ v ∈ q, ∃ k, c ≤ k ∧ ((s.nodes n).vol.term, k) ∈ (s.nodes v).dur.acks := by
    intro v hv
    rcases hq v hv with ⟨rfl, hd⟩ | ha
    · obtain ⟨k, hk, hck⟩ := hasDurAck_spec hd
      exact ⟨k, hck, hk⟩
    · obtain ⟨k, hk, hck⟩ := hasAck_spec ha
      rcases h3.ack_msg _ _ _ hk with h0 | hk'
      · omega
      · exact ⟨k, hck, hk'⟩
  have hch : Chosen cfg s (s.nodes n).vol.term c := ⟨by omega, by rw [← hlog]; exact hterm, q, hQ, hacks⟩
  refine ⟨hterm, Log.termAt_le hterm, hQ, fun v hv => ?_⟩
  obtain ⟨k, hck, hk⟩ := hacks v hv
  have hmem : (s.nodes v).dur ∈ versions (s.nodes v) := by simp [versions]
  refine ⟨((h1.nodes v).vers _ hmem).acks_le _ k hk, ?_⟩
  rw [hlog]
  exact chosen_ack_dur_take hcfg h1 h3 hch hck hk

end RaftVerif.Spec
