import RaftVerif.Model.RawNode
import RaftVerif.Proofs.LogStream
import RaftVerif.Proofs.LogMutate
/-!
# Proofs/LogRawNode — how `RawNode.readyWithoutAccept` / `acceptReady` use the apply cursor

Core Lean only.
-/
namespace RaftVerif
namespace RawNode

/-- every successful outcome of a computation satisfies `P` -/
def AllOk {α : Type} (P : α → Prop) (r : Except String α) : Prop := ∀ a, r = .ok a → P a

theorem AllOk.ite {α} {P : α → Prop} {c : Prop} [Decidable c] {a b : Except String α}
    (ha : AllOk P a) (hb : AllOk P b) : AllOk P (if c then a else b) := by split <;> assumption
theorem AllOk.ok {α} {P : α → Prop} {a : α} (h : P a) : AllOk P (.ok a) := by
  intro a' h'; cases h'; exact h
theorem AllOk.pure {α} {P : α → Prop} {a : α} (h : P a) : AllOk P (pure a) := AllOk.ok h
theorem AllOk.err {α} {P : α → Prop} {e : String} : AllOk P (.error e : Except String α) := by
  intro a h; cases h
theorem AllOk.throw {α} {P : α → Prop} {e : String} : AllOk P (throw e : Except String α) := AllOk.err

/-- walk through a tree of `if`/`match` whose leaves are `pure _` / `throw _` -/
local macro "allok_tac" : tactic =>
  `(tactic| repeat' (first | apply AllOk.ite | (apply AllOk.pure; rfl) | (apply AllOk.ok; rfl) | exact AllOk.err | exact AllOk.throw | split))

/-- the `CommittedEntries` of a `Ready` are exactly what `nextCommittedEnts(!async)` returned -/
theorem readyWithoutAccept_committed (rn : RawNode) (rd : Ready) (h : rn.readyWithoutAccept = .ok rd) :
    rn.raft.log.nextCommittedEnts (!rn.async) = .ok rd.committedEntries := by
  unfold RawNode.readyWithoutAccept at h
  simp only [bind, Except.bind, RawNode.applyUnstableEntries] at h
  cases hn : rn.raft.log.nextCommittedEnts (!rn.async) with
  | error e => rw [hn] at h; cases h
  | ok v =>
    rw [hn] at h
    simp only at h
    suffices hq : AllOk (fun r : Ready => r.committedEntries = v) _ from (congrArg Except.ok (hq rd h)).symm
    allok_tac

/-- the `Entries` of a `Ready` are exactly `nextUnstableEnts` -/
theorem readyWithoutAccept_entries (rn : RawNode) (rd : Ready) (h : rn.readyWithoutAccept = .ok rd) :
    rd.entries = rn.raft.log.nextUnstableEnts := by
  unfold RawNode.readyWithoutAccept at h
  simp only [bind, Except.bind, RawNode.applyUnstableEntries] at h
  cases hn : rn.raft.log.nextCommittedEnts (!rn.async) with
  | error e => rw [hn] at h; cases h
  | ok v =>
    rw [hn] at h
    simp only at h
    suffices hq : AllOk (fun r : Ready => r.entries = rn.raft.log.nextUnstableEnts) _ from hq rd h
    allok_tac

/-- `acceptReady` does to the log exactly: `acceptUnstable`, then — if the `Ready` carries committed
entries — `acceptApplying(last index, total size, !async)` -/
theorem acceptReady_log (rn rn' : RawNode) (rd : Ready) (h : rn.acceptReady rd = .ok rn') :
    (match rd.committedEntries.getLast? with
     | some last => rn.raft.log.acceptUnstable.acceptApplying last.index (entsSize rd.committedEntries) (!rn.async)
     | none => .ok rn.raft.log.acceptUnstable) = .ok rn'.raft.log := by
  unfold RawNode.acceptReady at h
  simp only [bind, Except.bind, RawNode.applyUnstableEntries] at h
  cases hg : rd.committedEntries.getLast? with
  | none =>
    simp only [hg] at h ⊢
    suffices hq : AllOk (fun r : RawNode => r.raft.log = rn.raft.log.acceptUnstable) _ from
      congrArg Except.ok (hq rn' h).symm
    allok_tac
  | some last =>
    simp only [hg] at h ⊢
    cases ha : rn.raft.log.acceptUnstable.acceptApplying last.index (entsSize rd.committedEntries) (!rn.async) with
    | error e =>
      simp only [ha] at h
      exfalso
      suffices hq : AllOk (fun _ : RawNode => False) _ from hq rn' h
      allok_tac
    | ok l1 =>
      simp only [ha] at h
      suffices hq : AllOk (fun r : RawNode => r.raft.log = l1) _ from congrArg Except.ok (hq rn' h).symm
      allok_tac

/-- **Ready()** (= `readyWithoutAccept` + `acceptReady`) on a node whose log satisfies the invariant:
the committed entries handed out are `nextBatch(!async)` of the log — contiguous from `applying + 1`,
within commit —, the log's `applying` cursor moves exactly to the end of the batch, `committed`,
`applied`, storage and the abstract log are untouched, and the invariant is kept. -/
theorem ready_apply (rn rn' : RawNode) (rd : Ready) (hwf : rn.raft.log.WF) (h : rn.ready = .ok (rd, rn')) :
    rd.committedEntries = rn.raft.log.nextBatch (!rn.async) ∧
    rd.entries = rn.raft.log.nextUnstableEnts ∧
    rn'.raft.log.WF ∧
    rn'.raft.log.applying = rn.raft.log.applying + rd.committedEntries.length ∧
    rn'.raft.log.committed = rn.raft.log.committed ∧ rn'.raft.log.applied = rn.raft.log.applied ∧
    rn'.raft.log.storage = rn.raft.log.storage ∧ rn'.raft.log.abs = rn.raft.log.abs ∧
    rn'.raft.log.nextUnstableEnts = [] := by
  unfold RawNode.ready at h
  simp only [bind, Except.bind] at h
  cases h1 : rn.readyWithoutAccept with
  | error e => rw [h1] at h; cases h
  | ok rd1 =>
    rw [h1] at h
    simp only at h
    cases h2 : rn.acceptReady rd1 with
    | error e => rw [h2] at h; cases h
    | ok rn1 =>
      rw [h2] at h
      simp only [pure, Except.pure, Except.ok.injEq, Prod.mk.injEq] at h
      obtain ⟨e1, e2⟩ := h
      subst e1 e2
      have hc := readyWithoutAccept_committed rn rd1 h1
      have he := readyWithoutAccept_entries rn rd1 h1
      rw [RaftLog.nextCommittedEnts_eq hwf] at hc
      injection hc with hc
      have hl := acceptReady_log rn rn1 rd1 h2
      obtain ⟨hwfa, habsa, hnua, _⟩ := RaftLog.acceptUnstable_spec hwf
      refine ⟨hc.symm, he, ?_⟩
      cases hg : rd1.committedEntries.getLast? with
      | none =>
        rw [hg] at hl
        simp only at hl
        injection hl with hl
        have hnil : rd1.committedEntries = [] := List.getLast?_eq_none_iff.mp hg
        rw [← hl, hnil]
        exact ⟨hwfa, rfl, rfl, rfl, rfl, habsa, hnua⟩
      | some last =>
        rw [hg] at hl
        simp only at hl
        rw [← hc] at hg
        have hli := RaftLog.nextBatch_getLast hwf (!rn.async) hg
        have haa := hwf.appliedLeApplying
        have hap : rn.raft.log.acceptUnstable.applied = rn.raft.log.applied := rfl
        obtain ⟨hw1, ha1, hap1, hc1, hs1, hu1⟩ := RaftLog.acceptApplying_wf hwfa (by rw [hap]; omega) hl
        refine ⟨hw1, by rw [ha1, hli, hc], hc1, hap1, hs1, ?_, ?_⟩
        · have : rn1.raft.log.abs = rn.raft.log.acceptUnstable.abs := by
            unfold RaftLog.abs; rw [hu1, hs1]
          rw [this, habsa]
        · unfold RaftLog.nextUnstableEnts at hnua ⊢
          rw [hu1]; exact hnua

end RawNode
end RaftVerif
