import RaftVerif.Proofs.StepProp
import RaftVerif.Proofs.StepRestore
/-!
# Proofs/StepElect — the only way a candidate becomes leader (C02)
-/
namespace RaftVerif
set_option linter.unusedSimpArgs false

/-- no new leader: a node that was not leader is still not leader -/
def NL (s s' : Raft) : Prop := s.state ≠ .leader → s'.state ≠ .leader

instance : RelOK NL where
  refl _ := id
  trans h1 h2 := fun h => h2 (h1 h)

theorem NL.of_eq {s x : Raft} (h : x.state = s.state) : NL s x := fun hs => h ▸ hs
theorem SendFrame.nl {s s' : Raft} (h : SendFrame s s') : NL s s' := NL.of_eq h.state

macro_rules | `(tactic| rel_fields) => `(tactic| exact NL.of_eq rfl)

namespace Raft

syntax "nl_step" : tactic

theorem send_nl (m : Message) (s : Raft) : Spec (send m) s (fun _ s' => NL s s') :=
  (send_sf m s).mono fun _ _ h => h.nl
theorem becomeFollower_nl (t l : Nat) (s : Raft) : Spec (becomeFollower t l) s (fun _ s' => NL s s') :=
  (becomeFollower_spec t l s).mono fun _ s' ⟨_, _, _, h, _⟩ => fun _ => by rw [h]; intro h; cases h
theorem restore_nl (snap : Snapshot) (s : Raft) : Spec (restore snap) s (fun _ s' => NL s s') := by
  refine (restore_spec' snap s).mono ?_
  intro ok s' hp hs
  unfold RestorePost at hp
  split at hp
  · rw [hp.2]; exact hs
  · split at hp
    · rw [hp.2.2.2.2.1]; intro h; cases h
    · split at hp
      · rw [hp.2]; exact hs
      · split at hp
        · rw [hp.2.1]; exact hs
        · rw [hp.2.2.2.2.2.1]; intro h; cases h

macro_rules | `(tactic| nl_step) => `(tactic| rel_call (send_nl ..))
macro_rules | `(tactic| nl_step) => `(tactic| rel_call (becomeFollower_nl ..))
macro_rules | `(tactic| nl_step) => `(tactic| rel_call (restore_nl ..))

theorem handleAppendEntries_nl (m : Message) (s : Raft) :
    Spec (handleAppendEntries m) s (fun _ s' => NL s s') := by
  unfold handleAppendEntries
  rel_start
  wp_auto [nl_step]

theorem handleHeartbeat_nl (m : Message) (s : Raft) :
    Spec (handleHeartbeat m) s (fun _ s' => NL s s') := by
  unfold handleHeartbeat
  rel_start
  wp_auto [nl_step]

theorem handleSnapshot_nl (m : Message) (s : Raft) :
    Spec (handleSnapshot m) s (fun _ s' => NL s s') := by
  unfold handleSnapshot
  rel_start
  wp_auto [nl_step]

/-- `campaign(campaignElection)` leaves the node a candidate -/
theorem campaign_election_nl (s : Raft) : Spec (campaign .election) s (fun _ s' => s'.state ≠ .leader) := by
  unfold campaign
  simp (config := {decide := true}) only [wp, beq_iff_eq, reduceCtorEq, false_implies, true_implies, not_false_eq_true,
    true_and]
  refine (becomeCandidate_spec s).mono ?_
  intro _ mid ⟨_, _, _, _, hst, _⟩
  have hmid : mid.state ≠ .leader := by rw [hst]; intro h; cases h
  refine Spec.mono (Q := fun _ s' => NL mid s') ?_ (fun _ s' h => h hmid)
  rel_start
  wp_auto [first | nl_step | rel_loop NL]

/-- `becomeLeader` panics when called on a follower -/
theorem becomeLeader_pre (s : Raft) : Spec becomeLeader s (fun _ _ => s.state ≠ .follower) := by
  by_cases h : s.state = .follower
  · unfold becomeLeader; simp [wp, h]
  · exact (Spec.trivial _ _).mono (fun _ _ _ => h)

/-- the tally after recording the vote carried by `m` -/
def tallyAfter (s : Raft) (m : Message) : Tracker := s.trk.recordVote m.from (!m.reject)

/-- in `stepCandidate` a node that is not leader ends up leader only as a *candidate* (not a
pre-candidate) receiving a MsgVoteResp after which the tally is `won` and its own vote is recorded -/
theorem stepCandidate_leader_spec (fuel : Nat) (m : Message) (s : Raft) (hs : s.state ≠ .leader) :
    Spec (stepCandidate fuel m) s (fun _ s' => s'.state = .leader →
      s.state = .candidate ∧ m.typ = .voteResp ∧ (tallyAfter s m).tallyVotes.2.2 = .won ∧
      (mapGet (tallyAfter s m).votes s.cfg.id).isSome = true) := by
  rw [stepCandidate]
  simp only [wp]
  have hnl : ∀ {act : M Unit} {cur : Raft} {P : Prop}, cur.state ≠ .leader →
      Spec act cur (fun _ s' => NL cur s') → Spec act cur (fun _ s' => s'.state = .leader → P) :=
    fun hc h => h.mono (fun _ s' hn hl => absurd hl (hn hc))
  have hfol : ∀ (cur : Raft) (t l : Nat) (K : Raft → Prop), (∀ mid, mid.state = .follower → K mid) →
      Spec (becomeFollower t l) cur (fun _ mid => K mid) :=
    fun cur t l K hK => (becomeFollower_spec t l cur).mono (fun _ mid h => hK mid h.2.2.2.1)
  have hf : ∀ mid : Raft, mid.state = .follower → mid.state ≠ .leader := fun mid h => by rw [h]; intro h; cases h
  split
  · simp only [wp]; exact fun h => absurd h hs
  · simp only [wp]
    exact hfol _ _ _ _ (fun mid hm => hnl (hf mid hm) (handleAppendEntries_nl m mid))
  · simp only [wp]
    exact hfol _ _ _ _ (fun mid hm => hnl (hf mid hm) (handleHeartbeat_nl m mid))
  · simp only [wp]
    exact hfol _ _ _ _ (fun mid hm => hnl (hf mid hm) (handleSnapshot_nl m mid))
  · simp only [wp]; exact fun h => absurd h hs
  · simp only [wp]
    refine ⟨fun htyp => ⟨fun _ h => absurd h hs, fun hcond => ?_⟩, fun _ h => absurd h hs⟩
    split
    · rename_i hwon
      simp only [wp]
      refine ⟨fun hpre => ?_, fun hpre => ⟨fun _ h => absurd h hs, fun hown => ?_⟩⟩
      · refine (campaign_election_nl _).mono (fun _ s' h => ?_)
        exact fun hl => absurd hl h
      · refine (becomeLeader_pre _).mono (fun _ mid hnf => ?_)
        refine (Spec.trivial _ _).mono (fun _ s' _ => ?_)
        intro _
        simp only at hnf
        have hc : s.state = .candidate := by
          cases hst : s.state <;> simp_all
        have ht : m.typ = .voteResp := by
          simp [hc] at htyp; exact htyp
        refine ⟨hc, ht, hwon, ?_⟩
        cases ho : mapGet (tallyAfter s m).votes s.cfg.id with
        | none => simp [tallyAfter] at ho; simp [ho] at hown
        | some v => rfl
    · simp only [wp]
      exact hfol _ _ _ (fun mid => mid.state = .leader → _) (fun mid hm h => absurd h (hf mid hm))
    · simp only [wp]
      exact fun h => absurd h hs

end Raft
end RaftVerif
