import RaftVerif.Proofs.Monad
import RaftVerif.Proofs.StepLog
import Lean.Elab.Tactic
/-!
# Proofs/StepFrame — state relations kept by the model's functions, and the frame lemmas of the
message-sending primitives

* `isPromise t`    — `t ∈ {MsgAppResp, MsgVoteResp, MsgPreVoteResp}` (the messages `send` withholds)
* `stamped s m`    — the message `send m` queues when called in state `s`
* `ListExt P l l'` — `l'` is `l` followed by elements that all satisfy `P`
* `SendFrame s s'` — only `msgs` / `msgsAfterAppend` / `trk.progress` differ, queues only grow, each
  queue with messages of its own kind
* `Good s s'`      — what every `Step` keeps: `cfg` fixed, term and commit never go back, within a
  term the vote only changes from none to some id, queues only grow with messages of their own kind
-/
namespace RaftVerif

/-! ### relations with reflexivity / transitivity, and the call rule -/

class RelOK (R : Raft → Raft → Prop) : Prop where
  refl : ∀ s, R s s
  trans : ∀ {a b c}, R a b → R b c → R a c

/-- calling `x` (known to keep `R`) in a state `cur` reached from the anchor `a` -/
theorem Spec.call {β : Type} {R : Raft → Raft → Prop} [RelOK R] {x : M β} {a cur : Raft}
    {K : β → Raft → Prop} (hx : Spec x cur (fun _ s' => R cur s')) (ha : R a cur)
    (k : ∀ b mid, R a mid → K b mid) : Spec x cur K :=
  hx.mono (fun b mid h => k b mid (RelOK.trans ha h))

/-- same, the callee's spec carries an extra fact `F` -/
theorem Spec.call' {β : Type} {R : Raft → Raft → Prop} [RelOK R] {x : M β} {a cur : Raft}
    {F : β → Raft → Prop} {K : β → Raft → Prop} (hx : Spec x cur (fun b mid => R cur mid ∧ F b mid))
    (ha : R a cur) (k : ∀ b mid, R a mid → F b mid → K b mid) : Spec x cur K :=
  hx.mono (fun b mid h => k b mid (RelOK.trans ha h.1) h.2)

/-- calling something that does not change the state -/
theorem Spec.call_same {β : Type} {x : M β} {cur : Raft} {K : β → Raft → Prop}
    (hx : Spec x cur (fun _ mid => mid = cur)) (k : ∀ b, K b cur) : Spec x cur K :=
  hx.mono (fun b _ h => h ▸ k b)

/-- `for x in l do body` keeps `R` if every iteration does -/
theorem Spec.forIn_rel {γ β : Type} (R : Raft → Raft → Prop) [RelOK R] (l : List γ) (init : β)
    (body : γ → β → M (ForInStep β)) (s : Raft)
    (hstep : ∀ x b mid, Spec (body x b) mid (fun _ s' => R mid s')) :
    Spec (forIn l init body) s (fun _ s' => R s s') :=
  Spec.forIn_list_rel l init body R RelOK.refl (fun _ _ _ => RelOK.trans) s (fun x _ b mid => hstep x b mid)

/-! ### lists that only grow -/

def ListExt {α : Type} (P : α → Prop) (l l' : List α) : Prop := ∃ suf, l' = l ++ suf ∧ ∀ x ∈ suf, P x

theorem ListExt.refl {α : Type} {P : α → Prop} (l : List α) : ListExt P l l := ⟨[], by simp, by simp⟩

theorem ListExt.trans {α : Type} {P : α → Prop} {a b c : List α} (h1 : ListExt P a b) (h2 : ListExt P b c) :
    ListExt P a c := by
  obtain ⟨s1, rfl, p1⟩ := h1
  obtain ⟨s2, rfl, p2⟩ := h2
  refine ⟨s1 ++ s2, by simp, ?_⟩
  intro x hx
  rcases List.mem_append.1 hx with h | h
  · exact p1 x h
  · exact p2 x h

theorem ListExt.snoc {α : Type} {P : α → Prop} (l : List α) (x : α) (h : P x) : ListExt P l (l ++ [x]) :=
  ⟨[x], rfl, by simpa using h⟩

/-! ### what `send` does -/

/-- the message types whose release is deferred until the state they promise is durable -/
def isPromise (t : MsgType) : Bool := t == .appResp || t == .voteResp || t == .preVoteResp

/-- the message `send m` queues when called in state `s` (sender filled in, term stamped) -/
def stamped (s : Raft) (m : Message) : Message :=
  let m := if m.from == 0 then { m with «from» := s.cfg.id } else m
  if m.typ == .vote || m.typ == .voteResp || m.typ == .preVote || m.typ == .preVoteResp then m
  else if m.typ != .prop && m.typ != .readIndex then { m with term := s.term } else m

theorem stamped_typ (s : Raft) (m : Message) : (stamped s m).typ = m.typ := by
  unfold stamped
  simp only
  split <;> split <;> (try split) <;> rfl

/-- exact effect of `send` -/
theorem send_spec (m : Message) (s : Raft) :
    Spec (Raft.send m) s (fun _ s' =>
      (isPromise m.typ = true ∧ s' = { s with msgsAfterAppend := s.msgsAfterAppend ++ [stamped s m] }) ∨
      (isPromise m.typ = false ∧ s' = { s with msgs := s.msgs ++ [stamped s m] })) := by
  unfold Raft.send
  simp only [wp]
  obtain ⟨typ, to, frm, term, logTerm, index, entries, commit, vote, snapshot, reject, rejectHint, context, responses⟩ := m
  by_cases hf : frm = 0 <;> cases typ <;> simp [stamped, isPromise, hf]

/-! ### `SendFrame` -/

structure SendFrame (s s' : Raft) : Prop where
  cfg : s'.cfg = s.cfg
  term : s'.term = s.term
  vote : s'.vote = s.vote
  readStates : s'.readStates = s.readStates
  log : s'.log = s.log
  state : s'.state = s.state
  isLearner : s'.isLearner = s.isLearner
  lead : s'.lead = s.lead
  leadTransferee : s'.leadTransferee = s.leadTransferee
  pendingConfIndex : s'.pendingConfIndex = s.pendingConfIndex
  uncommittedSize : s'.uncommittedSize = s.uncommittedSize
  readOnly : s'.readOnly = s.readOnly
  electionElapsed : s'.electionElapsed = s.electionElapsed
  heartbeatElapsed : s'.heartbeatElapsed = s.heartbeatElapsed
  randomizedElectionTimeout : s'.randomizedElectionTimeout = s.randomizedElectionTimeout
  pendingReadIndexMessages : s'.pendingReadIndexMessages = s.pendingReadIndexMessages
  draws : s'.draws = s.draws
  trkCfg : s'.trk.cfg = s.trk.cfg
  trkVotes : s'.trk.votes = s.trk.votes
  trkMax : s'.trk.maxInflight = s.trk.maxInflight ∧ s'.trk.maxInflightBytes = s.trk.maxInflightBytes
  msgs : ListExt (fun x => isPromise x.typ = false) s.msgs s'.msgs
  maa : ListExt (fun x => isPromise x.typ = true) s.msgsAfterAppend s'.msgsAfterAppend

theorem SendFrame.refl (s : Raft) : SendFrame s s := by
  constructor <;> first | rfl | exact ⟨rfl, rfl⟩ | exact ListExt.refl _

theorem SendFrame.trans {a b c : Raft} (h1 : SendFrame a b) (h2 : SendFrame b c) : SendFrame a c := by
  constructor
  · exact h2.cfg.trans h1.cfg
  · exact h2.term.trans h1.term
  · exact h2.vote.trans h1.vote
  · exact h2.readStates.trans h1.readStates
  · exact h2.log.trans h1.log
  · exact h2.state.trans h1.state
  · exact h2.isLearner.trans h1.isLearner
  · exact h2.lead.trans h1.lead
  · exact h2.leadTransferee.trans h1.leadTransferee
  · exact h2.pendingConfIndex.trans h1.pendingConfIndex
  · exact h2.uncommittedSize.trans h1.uncommittedSize
  · exact h2.readOnly.trans h1.readOnly
  · exact h2.electionElapsed.trans h1.electionElapsed
  · exact h2.heartbeatElapsed.trans h1.heartbeatElapsed
  · exact h2.randomizedElectionTimeout.trans h1.randomizedElectionTimeout
  · exact h2.pendingReadIndexMessages.trans h1.pendingReadIndexMessages
  · exact h2.draws.trans h1.draws
  · exact h2.trkCfg.trans h1.trkCfg
  · exact h2.trkVotes.trans h1.trkVotes
  · exact ⟨h2.trkMax.1.trans h1.trkMax.1, h2.trkMax.2.trans h1.trkMax.2⟩
  · exact h1.msgs.trans h2.msgs
  · exact h1.maa.trans h2.maa

instance : RelOK SendFrame := ⟨SendFrame.refl, SendFrame.trans⟩

/-- a state that differs from `s` at most in `trk.progress` -/
theorem SendFrame.of_eq {s x : Raft} (h1 : x.cfg = s.cfg) (h2 : x.term = s.term) (h3 : x.vote = s.vote)
    (h4 : x.readStates = s.readStates) (h5 : x.log = s.log) (h6 : x.state = s.state)
    (h7 : x.isLearner = s.isLearner) (h8 : x.lead = s.lead) (h9 : x.leadTransferee = s.leadTransferee)
    (h10 : x.pendingConfIndex = s.pendingConfIndex) (h11 : x.uncommittedSize = s.uncommittedSize)
    (h12 : x.readOnly = s.readOnly) (h13 : x.electionElapsed = s.electionElapsed)
    (h14 : x.heartbeatElapsed = s.heartbeatElapsed)
    (h15 : x.randomizedElectionTimeout = s.randomizedElectionTimeout)
    (h16 : x.pendingReadIndexMessages = s.pendingReadIndexMessages) (h17 : x.draws = s.draws)
    (h18 : x.trk.cfg = s.trk.cfg) (h19 : x.trk.votes = s.trk.votes)
    (h20 : x.trk.maxInflight = s.trk.maxInflight) (h21 : x.trk.maxInflightBytes = s.trk.maxInflightBytes)
    (h22 : x.msgs = s.msgs) (h23 : x.msgsAfterAppend = s.msgsAfterAppend) : SendFrame s x :=
  ⟨h1, h2, h3, h4, h5, h6, h7, h8, h9, h10, h11, h12, h13, h14, h15, h16, h17, h18, h19, ⟨h20, h21⟩,
   h22 ▸ ListExt.refl _, h23 ▸ ListExt.refl _⟩

/-! ### `Good` -/

structure Good (s s' : Raft) : Prop where
  cfg : s'.cfg = s.cfg
  term : s.term ≤ s'.term
  vote : s'.term = s.term → s'.vote = s.vote ∨ s.vote = 0
  commit : s.log.committed ≤ s'.log.committed
  msgs : ListExt (fun x => isPromise x.typ = false) s.msgs s'.msgs
  maa : ListExt (fun x => isPromise x.typ = true) s.msgsAfterAppend s'.msgsAfterAppend

theorem Good.refl (s : Raft) : Good s s :=
  ⟨rfl, Nat.le_refl _, fun _ => Or.inl rfl, Nat.le_refl _, ListExt.refl _, ListExt.refl _⟩

theorem Good.trans {a b c : Raft} (h1 : Good a b) (h2 : Good b c) : Good a c := by
  refine ⟨h2.cfg.trans h1.cfg, Nat.le_trans h1.term h2.term, ?_, Nat.le_trans h1.commit h2.commit,
    h1.msgs.trans h2.msgs, h1.maa.trans h2.maa⟩
  intro h
  have t1 := h1.term
  have t2 := h2.term
  have e1 : b.term = a.term := by omega
  have e2 : c.term = b.term := by omega
  rcases h1.vote e1 with v1 | v1
  · rcases h2.vote e2 with v2 | v2
    · exact Or.inl (v2.trans v1)
    · exact Or.inr (v1 ▸ v2)
  · exact Or.inr v1

instance : RelOK Good := ⟨Good.refl, Good.trans⟩

theorem SendFrame.good {s s' : Raft} (h : SendFrame s s') : Good s s' :=
  ⟨h.cfg, Nat.le_of_eq h.term.symm, fun _ => Or.inl h.vote, Nat.le_of_eq (by rw [h.log]), h.msgs, h.maa⟩

/-- a state that agrees with `s` on everything `Good` talks about -/
theorem Good.of_eq {s x : Raft} (h1 : x.cfg = s.cfg) (h2 : x.term = s.term) (h3 : x.vote = s.vote)
    (h4 : x.log.committed = s.log.committed) (h5 : x.msgs = s.msgs)
    (h6 : x.msgsAfterAppend = s.msgsAfterAppend) : Good s x :=
  ⟨h1, Nat.le_of_eq h2.symm, fun _ => Or.inl h3, Nat.le_of_eq h4.symm, h5 ▸ ListExt.refl _, h6 ▸ ListExt.refl _⟩

/-! ### tactics -/

theorem Spec.start {α : Type} {R : Raft → Raft → Prop} [RelOK R] {act : M α} {s : Raft}
    (h : R s s → Spec act s (fun _ s' => R s s')) : Spec act s (fun _ s' => R s s') := h (RelOK.refl s)

/-- begin a relational proof `Spec act s (fun _ s' => R s s')`: puts the anchor fact `R s s` in the context -/
macro "rel_start" : tactic => `(tactic| (refine Spec.start ?_; intro _))

/-- `R b X` where `X` is `b` or `b` with fields that `R` does not mention updated -/
syntax "rel_fields" : tactic
macro_rules | `(tactic| rel_fields) => `(tactic| first
  | exact RelOK.refl _
  | exact Good.of_eq rfl rfl rfl rfl rfl rfl
  | exact SendFrame.of_eq rfl rfl rfl rfl rfl rfl rfl rfl rfl rfl rfl rfl rfl rfl rfl rfl rfl rfl rfl rfl rfl rfl rfl)

/-- `R a X` from the most recent hypothesis `R a mid`, `X` being `mid` with irrelevant fields updated -/
syntax "rel_acc" : tactic
macro_rules | `(tactic| rel_acc) => `(tactic| first
  | assumption
  | exact RelOK.trans (by assumption) (by rel_fields))

/-- at `Spec x cur K`: use the relation-keeping lemma `t` for the call `x` -/
macro "rel_call " t:term : tactic =>
  `(tactic| (refine Spec.call (by with_reducible exact $t) (by rel_acc) ?_ ; intro _ _ _))
macro "rel_call' " t:term : tactic =>
  `(tactic| (refine Spec.call' (by with_reducible exact $t) (by rel_acc) ?_ ; intro _ _ _ _))
macro "same_call " t:term : tactic =>
  `(tactic| (refine Spec.call_same (by with_reducible exact $t) ?_ ; intro _))

/-- at `Spec (forIn l init body) cur K`: first goal = the body keeps `R`, second = the continuation -/
macro "rel_loop " R:term : tactic =>
  `(tactic| (refine Spec.call (Spec.forIn_rel $R _ _ _ _ (fun _ _ _ => Spec.start ?_)) (by rel_acc) ?_))

open Lean Elab Tactic Meta in
/-- `split`, but only when the goal is `Spec (match … with …) s Q` -/
elab "spec_match" : tactic => do
  let g ← getMainGoal
  let t := (← instantiateMVars (← g.getType)).consumeMData
  unless t.isAppOfArity ``RaftVerif.Spec 4 do throwError "spec_match: not a Spec goal"
  let act := t.getArg! 1
  match act.getAppFn with
  | .const n _ => unless (← isMatcher n) do throwError "spec_match: not a match"
  | _ => throwError "spec_match: not a match"
  evalTactic (← `(tactic| split))

theorem Spec.jp_rule {α β : Type} {cur : Raft} {Q : α → Raft → Prop} (Pre : Raft → Prop) (f : β → M α)
    (body : (β → M α) → M α)
    (hf : ∀ u mid, Pre mid → Spec (f u) mid Q)
    (hb : ∀ jp : β → M α, (∀ u mid, Pre mid → Spec (jp u) mid Q) → Spec (body jp) cur Q) :
    Spec (body f) cur Q := hb f hf

open Lean Elab Tactic Meta in
/-- goal `Spec (have x := v; b) cur Q`: a join point of the `do` notation (`x : β → M α`, with a
relational `Q = fun _ s' => R a s'`) is abstracted — first goal: the join point keeps the relation,
second goal: the body with an opaque `x`; any other `have` is substituted -/
elab "spec_let" : tactic => withMainContext do
  let g ← getMainGoal
  let t := (← instantiateMVars (← g.getType)).consumeMData
  unless t.isAppOfArity ``RaftVerif.Spec 4 do throwError "spec_let: not a Spec goal"
  let act := (t.getArg! 1).consumeMData
  let cur := t.getArg! 2
  let Q := t.getArg! 3
  let .letE n ty v b _ := act | throwError "spec_let: not a let"
  let tryJp : MetaM (Option (List MVarId)) := do
    let .forallE _ _ cod _ := ty | return none
    if cod.hasLooseBVars then return none
    unless cod.isAppOf ``RaftVerif.M || cod.isAppOf ``StateT do return none
    let .lam _ _ (.lam _ _ qb _) _ := Q | return none
    let .app Ra (.bvar 0) := qb | return none
    if Ra.hasLooseBVars then return none
    let body := Expr.lam n ty b .default
    let fn ← mkAppOptM ``RaftVerif.Spec.jp_rule #[none, none, some cur, some Q, some Ra, some v, some body]
    let fnTy ← inferType fn
    let (ms, _, concl) ← forallMetaTelescope fnTy
    unless ms.size == 2 do return none
    unless ← isDefEq concl t do return none
    g.assign (mkAppN fn ms)
    let g1 := ms[0]!.mvarId!
    let g2 := ms[1]!.mvarId!
    let g1 ← g1.replaceTargetDefEq (← Core.betaReduce (← g1.getType))
    let g2 ← g2.replaceTargetDefEq (← Core.betaReduce (← g2.getType))
    return some [g1, g2]
  match ← tryJp with
  | some gs => replaceMainGoal gs
  | none =>
    let t' := mkAppN t.getAppFn #[t.getArg! 0, b.instantiate1 v, cur, Q]
    let g' ← g.replaceTargetDefEq t'
    replaceMainGoal [g']

open Lean Elab Tactic Meta in
/-- goal `Spec (have x := v; b) cur Q`: substitute `v` for `x` -/
elab "spec_zeta" : tactic => withMainContext do
  let g ← getMainGoal
  let t := (← instantiateMVars (← g.getType)).consumeMData
  unless t.isAppOfArity ``RaftVerif.Spec 4 do throwError "spec_zeta: not a Spec goal"
  let act := (t.getArg! 1).consumeMData
  let .letE _ _ v b _ := act | throwError "spec_zeta: not a let"
  let t' := mkAppN t.getAppFn #[t.getArg! 0, b.instantiate1 v, t.getArg! 2, t.getArg! 3]
  let g' ← g.replaceTargetDefEq t'
  replaceMainGoal [g']

open Lean Elab Tactic Meta in
/-- goal `Spec (have jp := f; b) cur Q`: abstract the join point `jp` with the user-supplied
precondition `pre : Raft → Prop` on the states in which it is entered (rule `Spec.jp_rule`) -/
elab "spec_jp " pre:term : tactic => withMainContext do
  let g ← getMainGoal
  let t := (← instantiateMVars (← g.getType)).consumeMData
  unless t.isAppOfArity ``RaftVerif.Spec 4 do throwError "spec_jp: not a Spec goal"
  let act := (t.getArg! 1).consumeMData
  let cur := t.getArg! 2
  let Q := t.getArg! 3
  let .letE n ty v b _ := act | throwError "spec_jp: not a let"
  let preE ← Tactic.elabTermEnsuringType pre (← mkArrow (mkConst ``RaftVerif.Raft) (mkSort Level.zero))
  let body := Expr.lam n ty b .default
  let fn ← mkAppOptM ``RaftVerif.Spec.jp_rule #[none, none, some cur, some Q, some preE, some v, some body]
  let fnTy ← inferType fn
  let (ms, _, concl) ← forallMetaTelescope fnTy
  unless ms.size == 2 do throwError "spec_jp: unexpected shape"
  unless ← isDefEq concl t do throwError "spec_jp: could not match the goal"
  g.assign (mkAppN fn ms)
  let g1 := ms[0]!.mvarId!
  let g2 := ms[1]!.mvarId!
  let g1 ← g1.replaceTargetDefEq (← Core.betaReduce (← g1.getType))
  let g2 ← g2.replaceTargetDefEq (← Core.betaReduce (← g2.getType))
  replaceMainGoal [g1, g2]

/-- a tail call of an abstracted join point -/
macro "jp_use" : tactic => `(tactic| ((with_reducible apply_assumption); rel_acc))

/-- symbolic execution: rewrite with the `wp` rules, split conjunctions and `match`es, introduce
hypotheses, abstract join points, close relation leaves, and use the registered call rule `step` at
calls of model functions -/
macro "wp_auto" "[" step:tactic "]" : tactic =>
  `(tactic| repeat' (first | simp (config := {zeta := false}) only [wp] | refine And.intro ?_ ?_ | trivial | rel_acc
                           | intro _ | spec_match | spec_let | jp_use
                           | ($step:tactic) | fail "wp_auto: stuck"))

end RaftVerif
