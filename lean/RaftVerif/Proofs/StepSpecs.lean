import RaftVerif.Proofs.StepElect
/-!
# Proofs/StepSpecs — remaining exact "spec equations" of primitives
(`maybeCommit`, `increaseUncommittedSize`, `becomeLeader`); the others are `send_spec` (StepFrame),
`reset_spec_st` / `becomeFollower_spec` / `becomeCandidate_spec` / `becomePreCandidate_spec` (StepGood),
`appendEntry_spec_st` (StepProp), `restore_spec'` / `switchToConfig_nonleader_spec` (StepRestore);
`setPr`, `setLog`, `abortLeaderTransfer`, `reduceUncommittedSize`, `getPr`, `lastEntryID`,
`resetRandomizedElectionTimeout` are rewritten away by the `wp` simp set.
-/
namespace RaftVerif
namespace Raft
set_option linter.unusedSimpArgs false

/-- `maybeCommit` changes nothing but `log.committed`, and only upwards -/
theorem maybeCommit_spec (s : Raft) :
    Spec maybeCommit s (fun _ s' =>
      ∃ c, s.log.committed ≤ c ∧ s' = { s with log := { s.log with committed := c } }) := by
  unfold maybeCommit
  simp only [wp]
  split
  · simp only [wp]; exact ⟨s.log.committed, Nat.le_refl _, rfl⟩
  · simp only [wp]
    intro p hp
    unfold RaftLog.maybeCommit at hp
    split at hp
    · obtain ⟨l', hl', hp⟩ := bind_eq_ok.1 hp
      simp only [pure, Except.pure, Except.ok.injEq] at hp
      subst hp
      obtain ⟨rfl, _⟩ := RaftLog.commitTo_spec hl'
      exact ⟨_, Nat.le_max_left _ _, rfl⟩
    · simp only [pure, Except.pure, Except.ok.injEq] at hp
      subst hp
      exact ⟨s.log.committed, Nat.le_refl _, rfl⟩

/-- `increaseUncommittedSize` either refuses (state unchanged) or adds the payload size -/
theorem increaseUncommittedSize_spec_st (es : List Entry) (s : Raft) :
    Spec (increaseUncommittedSize es) s (fun ok s' =>
      (ok = false ∧ s' = s) ∨
      (ok = true ∧ s' = { s with uncommittedSize := s.uncommittedSize + payloadsSize es })) := by
  unfold increaseUncommittedSize
  simp only [wp]
  exact ⟨fun _ => Or.inl ⟨trivial, trivial⟩, fun _ => Or.inr ⟨trivial, trivial⟩⟩

/-- `becomeLeader()`: never from follower; same term, same vote, `lead = id`, role leader; one empty
entry is appended (its self-acknowledgement goes to `msgsAfterAppend`), `msgs` is untouched -/
theorem becomeLeader_spec (s : Raft) :
    Spec becomeLeader s (fun _ s' =>
      s.state ≠ .follower ∧ s'.term = s.term ∧ s'.vote = s.vote ∧ s'.lead = s.cfg.id ∧ s'.state = .leader ∧
      s'.cfg = s.cfg ∧ s'.msgs = s.msgs) := by
  unfold becomeLeader
  simp only [wp]
  refine ⟨fun _ => trivial, fun hne => ?_⟩
  have hne' : s.state ≠ .follower := by
    intro h; rw [h] at hne; exact hne rfl
  refine (reset_spec_st s.term s).mono ?_
  intro _ mid ⟨h1, h2, _, _, _, h4, h5, _⟩
  simp only [if_true] at h2
  intro pr _
  refine (appendEntry_spec_st _ _).mono ?_
  rintro ok s' (⟨rfl, rfl⟩ | ⟨rfl, p, _, rfl⟩)
  · simp only [wp]
    exact ⟨fun _ => trivial, fun h => absurd h (by simp)⟩
  · simp only [wp]
    refine ⟨fun h => absurd h (by simp), fun _ => ?_⟩
    exact ⟨hne', h1, h2, by rw [h4], trivial, h4, h5⟩

end Raft
end RaftVerif
