import RaftVerif.Props.C08
import RaftVerif.Props.C16
import RaftVerif.Props.C11ReadOnly
/-!
# Proofs/C14Sites — exact firing conditions of the `throw` sites of `Model/Log.lean`,
`Model/Tracker.lean` and `ReadOnly` (helper lemmas for `Props/C14.lean`).  Core Lean only.
-/
set_option linter.unusedSimpArgs false
namespace RaftVerif.C14

/-! ## MemoryStorage -/

theorem storage_entries_hi_iff (ms : MemoryStorage) (lo hi m : Nat) :
    ms.entries lo hi m = .error "storage.Entries: hi out of bound" ↔
      ms.offset < lo ∧ ms.lastIndex + 1 < hi := by
  unfold MemoryStorage.entries
  split
  · simp; omega
  · split
    · simp; omega
    · split
      · simp; omega
      · split <;> simp <;> omega

theorem storage_entries_bounds_iff (ms : MemoryStorage) (lo hi m : Nat) :
    ms.entries lo hi m = .error "storage.Entries: slice bounds out of range" ↔
      ms.offset < lo ∧ hi ≤ ms.lastIndex + 1 ∧ ms.ents.length ≠ 1 ∧ hi < lo := by
  unfold MemoryStorage.entries
  split
  · simp; omega
  · split
    · simp; omega
    · split
      · rename_i h; simp at h; simp [h] <;> omega
      · rename_i h; simp at h
        split <;> simp [h] <;> omega

theorem storage_entries_iff (ms : MemoryStorage) (lo hi m : Nat) :
    (∃ e, ms.entries lo hi m = .error e) ↔
      ms.offset < lo ∧ (ms.lastIndex + 1 < hi ∨ (ms.ents.length ≠ 1 ∧ hi < lo)) := by
  unfold MemoryStorage.entries
  split
  · simp; omega
  · split
    · simp; omega
    · split
      · rename_i h; simp at h; simp [h] <;> omega
      · rename_i h; simp at h
        split <;> simp [h] <;> omega

theorem storage_createSnapshot_oob_iff (ms : MemoryStorage) (i : Nat) (cs : Option ConfState) (d : Option Bytes) :
    ms.createSnapshot i cs d = .error "storage.CreateSnapshot: out of bound" ↔
      ms.snapshot.index < i ∧ ms.lastIndex < i := by
  unfold MemoryStorage.createSnapshot
  split
  · simp; omega
  · split
    · simp; omega
    · split <;> simp <;> omega

theorem storage_createSnapshot_range_iff (ms : MemoryStorage) (i : Nat) (cs : Option ConfState) (d : Option Bytes) :
    ms.createSnapshot i cs d = .error "storage.CreateSnapshot: index out of range" ↔
      ms.snapshot.index < i ∧ i ≤ ms.lastIndex ∧ i < ms.offset := by
  unfold MemoryStorage.createSnapshot
  split
  · simp; omega
  · split
    · simp; omega
    · split <;> simp <;> omega

theorem storage_createSnapshot_iff (ms : MemoryStorage) (i : Nat) (cs : Option ConfState) (d : Option Bytes) :
    (∃ e, ms.createSnapshot i cs d = .error e) ↔
      ms.snapshot.index < i ∧ (ms.lastIndex < i ∨ i < ms.offset) := by
  unfold MemoryStorage.createSnapshot
  split
  · simp; omega
  · split
    · simp; omega
    · split <;> simp <;> omega

theorem storage_compact_iff (ms : MemoryStorage) (ci : Nat) :
    ms.compact ci = .error "storage.Compact: out of bound" ↔ ms.offset < ci ∧ ms.lastIndex < ci := by
  unfold MemoryStorage.compact
  split
  · simp; omega
  · split <;> simp <;> omega

theorem storage_compact_any_iff (ms : MemoryStorage) (ci : Nat) :
    (∃ e, ms.compact ci = .error e) ↔ ms.offset < ci ∧ ms.lastIndex < ci := by
  unfold MemoryStorage.compact
  split
  · simp; omega
  · split <;> simp <;> omega


/-- `Append` of a contiguous batch on a well-formed storage panics exactly when the batch is non-empty
and starts beyond `lastIndex + 1` (a gap) -/
theorem storage_append_iff {ms : MemoryStorage} (h : ms.WF) {n : Nat} {es : List Entry} (hc : Contig n es) (e : String) :
    ms.append es = .error e ↔
      e = "storage.Append: missing log entry" ∧ es ≠ [] ∧ ms.lastIndex + 1 < n := by
  rw [MemoryStorage.append_eq h hc, hc.filter_gt]
  obtain ⟨d, rest, he, ho, _, _, _, hl⟩ := h.shape
  cases hd : es.drop (ms.offset + 1 - n) with
  | nil =>
    have hlen := List.drop_eq_nil_iff.mp hd
    simp only [P_pure_eq, reduceCtorEq, false_iff, not_and]
    intro _ hne
    have : 0 < es.length := List.length_pos_iff.mpr hne
    omega
  | cons f0 rest' =>
    have hf : f0.index = n + (ms.offset + 1 - n) := by
      have := hc.drop (ms.offset + 1 - n)
      rw [hd] at this; exact this.head_index
    have hne : es ≠ [] := by intro h0; subst h0; simp at hd
    simp only
    split
    · rename_i hlt
      simp only [P_throw_eq, Except.error.injEq]
      constructor
      · intro h1; exact ⟨h1.symm, hne, by omega⟩
      · intro h1; exact h1.1.symm
    · rename_i hlt
      simp only [P_pure_eq, reduceCtorEq, false_iff, not_and]
      intro _ _; omega

/-! ## unstable -/

theorem unstable_slice_invalid_iff (u : Unstable) (lo hi : Nat) :
    u.slice lo hi = .error "unstable.slice: invalid" ↔ hi < lo := by
  unfold Unstable.slice
  split
  · simp; omega
  · split <;> simp <;> omega

theorem unstable_slice_oob_iff (u : Unstable) (lo hi : Nat) :
    u.slice lo hi = .error "unstable.slice: out of bound" ↔
      lo ≤ hi ∧ (lo < u.offset ∨ u.offset + u.entries.length < hi) := by
  unfold Unstable.slice
  split
  · simp; omega
  · split
    · rename_i h1 h2; simp at h2; simp; omega
    · rename_i h1 h2; simp at h2; simp; omega

theorem unstable_slice_iff (u : Unstable) (lo hi : Nat) :
    (∃ e, u.slice lo hi = .error e) ↔ hi < lo ∨ lo < u.offset ∨ u.offset + u.entries.length < hi := by
  unfold Unstable.slice
  split
  · simp; omega
  · split
    · rename_i h1 h2; simp at h2; simp; omega
    · rename_i h1 h2; simp at h2; simp; omega

theorem unstable_slice_ok_iff (u : Unstable) (lo hi : Nat) (es : List Entry) :
    u.slice lo hi = .ok es ↔
      lo ≤ hi ∧ u.offset ≤ lo ∧ hi ≤ u.offset + u.entries.length ∧
      es = (u.entries.drop (lo - u.offset)).take (hi - lo) := by
  unfold Unstable.slice
  split
  · simp; omega
  · split
    · rename_i h1 h2; simp at h2; simp; omega
    · rename_i h1 h2; simp at h2
      simp only [P_pure_eq, Except.ok.injEq]
      constructor
      · intro h3; exact ⟨by omega, h2.1, h2.2, h3.symm⟩
      · intro h3; exact h3.2.2.2.symm

/-- full case analysis of `truncateAndAppend` (no hypothesis on `u`) -/
theorem unstable_truncateAndAppend_eq (u : Unstable) (e0 : Entry) (rest : List Entry) :
    u.truncateAndAppend (e0 :: rest) =
      if u.offset + u.entries.length < e0.index then .error "unstable.slice: out of bound"
      else if e0.index = u.offset + u.entries.length then .ok { u with entries := u.entries ++ e0 :: rest }
      else if e0.index ≤ u.offset then
        .ok { u with entries := e0 :: rest, offset := e0.index, offsetInProgress := e0.index }
      else .ok { u with entries := (u.entries.drop (u.offset - u.offset)).take (e0.index - u.offset) ++ e0 :: rest,
                        offsetInProgress := min u.offsetInProgress e0.index } := by
  unfold Unstable.truncateAndAppend
  simp only []
  by_cases hA : e0.index = u.offset + u.entries.length
  · rw [if_pos (by simp [hA]), if_neg (by omega), if_pos hA]; rfl
  · rw [if_neg (by simp [hA])]
    by_cases hB : e0.index ≤ u.offset
    · rw [if_pos hB, if_neg (by omega), if_neg hA, if_pos hB]; rfl
    · rw [if_neg hB]
      by_cases hC : u.offset + u.entries.length < e0.index
      · rw [if_pos hC]
        have := (unstable_slice_oob_iff u u.offset e0.index).mpr ⟨by omega, Or.inr hC⟩
        rw [this]; rfl
      · rw [if_neg hC, if_neg hA, if_neg hB]
        have := (unstable_slice_ok_iff u u.offset e0.index _).mpr ⟨by omega, Nat.le_refl _, by omega, rfl⟩
        rw [this]; rfl

theorem unstable_truncateAndAppend_empty_iff (u : Unstable) (ents : List Entry) :
    u.truncateAndAppend ents = .error "unstable.truncateAndAppend: empty" ↔ ents = [] := by
  cases ents with
  | nil => simp [Unstable.truncateAndAppend]
  | cons e0 rest =>
    rw [unstable_truncateAndAppend_eq]
    split
    · simp
    · split
      · simp
      · split <;> simp

theorem unstable_truncateAndAppend_gap_iff (u : Unstable) (ents : List Entry) :
    u.truncateAndAppend ents = .error "unstable.slice: out of bound" ↔
      ∃ e0 rest, ents = e0 :: rest ∧ u.offset + u.entries.length < e0.index := by
  cases ents with
  | nil => simp [Unstable.truncateAndAppend]
  | cons e0 rest =>
    rw [unstable_truncateAndAppend_eq]
    split
    · rename_i h; simp [h]
    · rename_i h
      split
      · simp [h]
      · split <;> simp [h]

theorem unstable_truncateAndAppend_iff (u : Unstable) (ents : List Entry) :
    (∃ e, u.truncateAndAppend ents = .error e) ↔
      ents = [] ∨ ∃ e0 rest, ents = e0 :: rest ∧ u.offset + u.entries.length < e0.index := by
  cases ents with
  | nil => simp [Unstable.truncateAndAppend]
  | cons e0 rest =>
    rw [unstable_truncateAndAppend_eq]
    split
    · rename_i h; simp [h]
    · rename_i h
      split
      · simp [h]
      · split <;> simp [h]

/-! ## raftLog -/

theorem mustCheckOutOfBounds_invalid_iff (l : RaftLog) (lo hi : Nat) :
    l.mustCheckOutOfBounds lo hi = .error "slice: invalid lo > hi" ↔ hi < lo := by
  unfold RaftLog.mustCheckOutOfBounds
  split
  · simp; omega
  · split
    · simp; omega
    · split <;> simp <;> omega

theorem mustCheckOutOfBounds_oob_iff (l : RaftLog) (lo hi : Nat) :
    l.mustCheckOutOfBounds lo hi = .error "slice: out of bound" ↔
      lo ≤ hi ∧ l.firstIndex ≤ lo ∧ l.lastIndex + 1 < hi := by
  unfold RaftLog.mustCheckOutOfBounds
  split
  · simp; omega
  · split
    · simp; omega
    · split <;> simp <;> omega

theorem mustCheckOutOfBounds_iff (l : RaftLog) (lo hi : Nat) :
    (∃ e, l.mustCheckOutOfBounds lo hi = .error e) ↔
      hi < lo ∨ (l.firstIndex ≤ lo ∧ l.lastIndex + 1 < hi) := by
  unfold RaftLog.mustCheckOutOfBounds
  split
  · simp; omega
  · split
    · simp; omega
    · split <;> simp <;> omega

/-- under the invariant the only panics of `slice` are the two argument checks -/
theorem slice_error_iff {l : RaftLog} (h : l.WF) (lo hi m : Nat) (e : String) :
    l.slice lo hi m = .error e ↔
      (e = "slice: invalid lo > hi" ∧ hi < lo) ∨
      (e = "slice: out of bound" ∧ lo ≤ hi ∧ l.firstIndex ≤ lo ∧ l.lastIndex + 1 < hi) := by
  rw [RaftLog.slice_eq h, RaftLog.firstIndex_abs h, RaftLog.lastIndex_abs h]
  unfold ALog.sliceResult
  split
  · rename_i h1
    simp only [P_throw_eq, Except.error.injEq]
    constructor
    · intro h2; exact Or.inl ⟨h2.symm, h1⟩
    · rintro (⟨h2, _⟩ | ⟨_, h3, _⟩)
      · exact h2.symm
      · omega
  · split
    · simp; omega
    · split
      · rename_i h1 h2 h3
        simp only [P_throw_eq, Except.error.injEq]
        constructor
        · intro h4; exact Or.inr ⟨h4.symm, by omega, by omega, h3⟩
        · rintro (⟨_, h5⟩ | ⟨h5, _⟩)
          · omega
          · exact h5.symm
      · simp; omega

theorem lastEntryID_iff (l : RaftLog) :
    l.lastEntryID = .error "lastEntryID: unexpected error" ↔ ∃ e, l.term l.lastIndex = .error e := by
  unfold RaftLog.lastEntryID
  simp only []
  split <;> simp [*]

theorem lastEntryID_any_iff (l : RaftLog) :
    (∃ m, l.lastEntryID = .error m) ↔ ∃ e, l.term l.lastIndex = .error e := by
  unfold RaftLog.lastEntryID
  simp only []
  split <;> simp [*]

theorem commitTo_iff (l : RaftLog) (c : Nat) (e : String) :
    l.commitTo c = .error e ↔ e = "commitTo: tocommit out of range" ∧ l.committed < c ∧ l.lastIndex < c := by
  rw [RaftLog.commitTo_eq]
  split
  · rename_i h; simp [h, eq_comm]
  · rename_i h; simp; intro _; omega

/-- full case analysis of `append` (no hypothesis on `l`) -/
theorem append_error_iff (l : RaftLog) (ents : List Entry) (e : String) :
    l.append ents = .error e ↔ ∃ e0 rest, ents = e0 :: rest ∧
      ((e = "append: after out of range (committed)" ∧ usub e0.index 1 < l.committed) ∨
       (e = "unstable.slice: out of bound" ∧ l.committed ≤ usub e0.index 1 ∧
          l.unstable.offset + l.unstable.entries.length < e0.index)) := by
  cases ents with
  | nil => simp [RaftLog.append]
  | cons e0 rest =>
    unfold RaftLog.append
    simp only []
    split
    · rename_i h1
      simp only [P_throw_eq, Except.error.injEq, List.cons.injEq]
      constructor
      · intro h2; exact ⟨e0, rest, ⟨rfl, rfl⟩, Or.inl ⟨h2.symm, h1⟩⟩
      · rintro ⟨e0', rest', ⟨rfl, rfl⟩, (⟨h2, _⟩ | ⟨_, h3, _⟩)⟩
        · exact h2.symm
        · omega
    · rename_i h1
      rw [unstable_truncateAndAppend_eq]
      split
      · rename_i h2
        simp only [P_error_bind, Except.error.injEq, List.cons.injEq]
        constructor
        · intro h3; exact ⟨e0, rest, ⟨rfl, rfl⟩, Or.inr ⟨h3.symm, by omega, h2⟩⟩
        · rintro ⟨e0', rest', ⟨rfl, rfl⟩, (⟨_, h3⟩ | ⟨h3, _⟩)⟩
          · omega
          · exact h3.symm
      · rename_i h2
        have : ∀ x : P (RaftLog × Nat), (∃ v, x = .ok v) → (x = .error e ↔
            ∃ e0' rest', e0 :: rest = e0' :: rest' ∧
              ((e = "append: after out of range (committed)" ∧ usub e0'.index 1 < l.committed) ∨
               (e = "unstable.slice: out of bound" ∧ l.committed ≤ usub e0'.index 1 ∧
                l.unstable.offset + l.unstable.entries.length < e0'.index))) := by
          rintro x ⟨v, rfl⟩
          simp only [reduceCtorEq, List.cons.injEq, false_iff, not_exists, not_and, not_or]
          rintro e0' rest' ⟨rfl, rfl⟩
          exact ⟨fun _ => h1, fun _ _ => h2⟩
        apply this
        split
        · exact ⟨_, rfl⟩
        · split <;> exact ⟨_, rfl⟩


theorem P_bind_error_iff {α β : Type} (x : P α) (f : α → P β) (e : String) :
    (x >>= f) = .error e ↔ x = .error e ∨ ∃ a, x = .ok a ∧ f a = .error e := by
  cases x <;> simp

/-- full case analysis of `maybeAppend` (no hypothesis on `l`) -/
theorem maybeAppend_eq (l : RaftLog) (prev : EntryID) (ents : List Entry) (c : Nat) :
    l.maybeAppend prev ents c =
      if l.matchTerm prev = false then .ok (l, none)
      else if l.findConflict ents = 0 then
        match l.commitTo (min c (prev.index + ents.length)) with
        | .error e => .error e
        | .ok l' => .ok (l', some (prev.index + ents.length))
      else if l.findConflict ents ≤ l.committed then .error "maybeAppend: conflict with committed entry"
      else if usub (l.findConflict ents) (prev.index + 1) > ents.length then
        .error "maybeAppend: index out of range"
      else match l.append (ents.drop (l.findConflict ents - (prev.index + 1))) with
        | .error e => .error e
        | .ok (l', _) =>
          match l'.commitTo (min c (prev.index + ents.length)) with
          | .error e => .error e
          | .ok l'' => .ok (l'', some (prev.index + ents.length)) := by
  unfold RaftLog.maybeAppend
  simp only []
  by_cases hm : l.matchTerm prev = false
  · rw [if_pos hm, if_pos (by simp [hm])]; rfl
  · rw [if_neg hm, if_neg (by simpa using hm)]
    by_cases h0 : l.findConflict ents = 0
    · rw [if_pos h0, if_pos (by simp [h0])]
      simp only [P_pure_eq, P_ok_bind]
      cases l.commitTo (min c (prev.index + ents.length)) <;> rfl
    · rw [if_neg h0, if_neg (by simpa using h0)]
      by_cases h1 : l.findConflict ents ≤ l.committed
      · rw [if_pos h1, if_pos h1]; rfl
      · rw [if_neg h1, if_neg h1]
        by_cases h2 : usub (l.findConflict ents) (prev.index + 1) > ents.length
        · rw [if_pos h2, if_pos h2]; rfl
        · rw [if_neg h2, if_neg h2]
          cases l.append (ents.drop (l.findConflict ents - (prev.index + 1))) with
          | error e => rfl
          | ok p =>
            obtain ⟨l', n⟩ := p
            simp only [P_pure_eq, P_ok_bind]
            cases l'.commitTo (min c (prev.index + ents.length)) <;> rfl

theorem maybeAppend_conflict_iff (l : RaftLog) (prev : EntryID) (ents : List Entry) (c : Nat) :
    l.maybeAppend prev ents c = .error "maybeAppend: conflict with committed entry" ↔
      l.matchTerm prev = true ∧ l.findConflict ents ≠ 0 ∧ l.findConflict ents ≤ l.committed := by
  rw [maybeAppend_eq]
  split
  · rename_i h; simp [h]
  · rename_i hm
    have hm' : l.matchTerm prev = true := by simpa using hm
    split
    · rename_i h0
      cases hc : l.commitTo (min c (prev.index + ents.length)) with
      | ok l' => simp [h0]
      | error e => have := (commitTo_iff _ _ _).mp hc; simp [h0, this.1]
    · rename_i h0
      split
      · rename_i h1; simp [hm', h0, h1]
      · rename_i h1
        have hne : ¬ (l.matchTerm prev = true ∧ l.findConflict ents ≠ 0 ∧ l.findConflict ents ≤ l.committed) :=
          fun hx => h1 hx.2.2
        split
        · simp [hne]
        · cases ha : l.append (ents.drop (l.findConflict ents - (prev.index + 1))) with
          | error e =>
            obtain ⟨_, _, _, hx⟩ := (append_error_iff _ _ _).mp ha
            rcases hx with ⟨rfl, _⟩ | ⟨rfl, _⟩ <;> simp [hne]
          | ok p =>
            obtain ⟨l', n⟩ := p
            simp only
            cases hc : l'.commitTo (min c (prev.index + ents.length)) with
            | ok l'' => simp [hne]
            | error e => have := (commitTo_iff _ _ _).mp hc; simp [hne, this.1]

theorem maybeAppend_range_iff (l : RaftLog) (prev : EntryID) (ents : List Entry) (c : Nat) :
    l.maybeAppend prev ents c = .error "maybeAppend: index out of range" ↔
      l.matchTerm prev = true ∧ l.findConflict ents ≠ 0 ∧ l.committed < l.findConflict ents ∧
      ents.length < usub (l.findConflict ents) (prev.index + 1) := by
  rw [maybeAppend_eq]
  split
  · rename_i h; simp [h]
  · rename_i hm
    have hm' : l.matchTerm prev = true := by simpa using hm
    split
    · rename_i h0
      cases hc : l.commitTo (min c (prev.index + ents.length)) with
      | ok l' => simp [h0]
      | error e => have := (commitTo_iff _ _ _).mp hc; simp [h0, this.1]
    · rename_i h0
      split
      · rename_i h1; simp; intro _ _ _; omega
      · rename_i h1
        split
        · rename_i h2; simp [hm', h0]; omega
        · rename_i h2
          have hne : ¬ (l.matchTerm prev = true ∧ l.findConflict ents ≠ 0 ∧ l.committed < l.findConflict ents ∧
              ents.length < usub (l.findConflict ents) (prev.index + 1)) := fun hx => h2 hx.2.2.2
          cases ha : l.append (ents.drop (l.findConflict ents - (prev.index + 1))) with
          | error e =>
            obtain ⟨_, _, _, hx⟩ := (append_error_iff _ _ _).mp ha
            rcases hx with ⟨rfl, _⟩ | ⟨rfl, _⟩ <;> simp [hne]
          | ok p =>
            obtain ⟨l', n⟩ := p
            simp only
            cases hc : l'.commitTo (min c (prev.index + ents.length)) with
            | ok l'' => simp [hne]
            | error e => have := (commitTo_iff _ _ _).mp hc; simp [hne, this.1]

/-- under the invariant and for entries contiguous after `prev`, the only panic of `maybeAppend` is the
conflict with a committed entry -/
theorem maybeAppend_error_iff {l : RaftLog} (h : l.WF) (prev : EntryID) (ents : List Entry) (c : Nat)
    (hc : Contig (prev.index + 1) ents) (e : String) :
    l.maybeAppend prev ents c = .error e ↔
      e = "maybeAppend: conflict with committed entry" ∧
      l.matchTerm prev = true ∧ l.findConflict ents ≠ 0 ∧ l.findConflict ents ≤ l.committed := by
  constructor
  · intro he
    have hA : l.maybeAppend prev ents c = .error "maybeAppend: conflict with committed entry" := by
      rcases RaftLog.maybeAppend_spec h prev ents c hc with ⟨_, hr⟩ | ⟨_, ⟨_, hr, _⟩ | ⟨pre, x, post, _, _, _, hx⟩⟩
      · rw [hr] at he; cases he
      · rw [hr] at he; cases he
      · rcases hx with ⟨_, hr⟩ | ⟨_, l', hr, _⟩
        · exact hr
        · rw [hr] at he; cases he
    have : e = "maybeAppend: conflict with committed entry" := by
      rw [hA] at he; injection he with he; exact he.symm
    exact ⟨this, (maybeAppend_conflict_iff _ _ _ _).mp hA⟩
  · rintro ⟨rfl, hx⟩
    exact (maybeAppend_conflict_iff _ _ _ _).mpr hx

theorem allEntries_iff (l : RaftLog) (e : String) :
    l.allEntries = .error e ↔
      l.entries l.firstIndex noLimit = .error e ∨
      (e = "allEntries: unexpected error" ∧ ∃ se, l.entries l.firstIndex noLimit = .ok (.error se)) := by
  unfold RaftLog.allEntries
  cases h : l.entries l.firstIndex noLimit with
  | error e' => simp
  | ok r =>
    cases r with
    | ok es => simp
    | error se =>
      simp only [P_ok_bind, P_throw_eq, Except.error.injEq, reduceCtorEq, Except.ok.injEq, exists_eq', and_true,
        false_or]
      exact eq_comm

theorem allEntries_ok {l : RaftLog} (h : l.WF) : ∃ es, l.allEntries = .ok es := by
  unfold RaftLog.allEntries
  rw [RaftLog.entries_eq h, RaftLog.firstIndex_abs h]
  split
  · exact ⟨_, rfl⟩
  · rw [if_neg (Nat.lt_irrefl _)]; exact ⟨_, rfl⟩

/-! ### nextCommittedEnts -/

/-- the cursor facts of the invariant that `nextCommittedEnts` relies on -/
theorem apply_range_of_wf {l : RaftLog} (h : l.WF) (hsn : l.unstable.snapshot = none) (au : Bool) :
    l.abs.first ≤ l.applying + 1 ∧ l.maxAppliableIndex au ≤ l.abs.last := by
  have hm := RaftLog.maxAppliableIndex_le_committed l au
  have hcl := h.committedLeLast
  rw [RaftLog.lastIndex_abs h] at hcl
  have hso := h.snapOK
  have haa := h.appliedLeApplying
  obtain ⟨pre, he, hlen, hn, hs⟩ := h.shape
  unfold RaftLog.SnapOK at hso
  rw [hsn] at hso
  have := (hn hsn).2.1
  unfold ALog.first
  omega

/-- `nextCommittedEnts` on a log that satisfies the invariant *except possibly its budget clause*
(stated as: the invariant holds once `applyingEntsPaused` is forced to `true`, which makes the budget
clause vacuous and changes nothing else): the only panic is the missing budget -/
theorem nextCommittedEnts_error_iff {l : RaftLog}
    (h : ({ l with applyingEntsPaused := true } : RaftLog).WF) (au : Bool) (e : String) :
    l.nextCommittedEnts au = .error e ↔
      e = "nextCommittedEnts: applying entry size not positive" ∧
      l.applyingEntsPaused = false ∧ l.unstable.snapshot = none ∧ l.applying < l.maxAppliableIndex au ∧
      usub l.maxApplyingEntsSize l.applyingEntsSize = 0 := by
  unfold RaftLog.nextCommittedEnts RaftLog.hasNextOrInProgressSnapshot
  by_cases h1 : l.applyingEntsPaused = true
  · rw [if_pos h1]; simp [h1]
  rw [if_neg h1]
  have h1' : l.applyingEntsPaused = false := by simpa using h1
  by_cases h2 : l.unstable.snapshot.isSome = true
  · rw [if_pos h2]
    have : l.unstable.snapshot ≠ none := by intro hx; rw [hx] at h2; simp at h2
    simp [this]
  rw [if_neg h2]
  have h2' : l.unstable.snapshot = none := by simpa using h2
  simp only []
  by_cases h3 : l.applying + 1 ≥ l.maxAppliableIndex au + 1
  · rw [if_pos h3]; simp; intro _ _ _ _; omega
  rw [if_neg h3]
  by_cases h4 : usub l.maxApplyingEntsSize l.applyingEntsSize = 0
  · rw [if_pos (by simp [h4])]
    simp only [P_throw_eq, P_error_bind, Except.error.injEq]
    constructor
    · intro hx; exact ⟨hx.symm, h1', h2', by omega, h4⟩
    · intro hx; exact hx.1.symm
  · rw [if_neg (by simpa using h4)]
    have hsl : l.slice (l.applying + 1) (l.maxAppliableIndex au + 1)
        (usub l.maxApplyingEntsSize l.applyingEntsSize) =
        ({ l with applyingEntsPaused := true } : RaftLog).slice (l.applying + 1) (l.maxAppliableIndex au + 1)
        (usub l.maxApplyingEntsSize l.applyingEntsSize) := rfl
    have hr := apply_range_of_wf h h2' au
    have hr1 : l.abs.first ≤ l.applying + 1 := hr.1
    have hr2 : l.maxAppliableIndex au ≤ l.abs.last := hr.2
    have habs : ({ l with applyingEntsPaused := true } : RaftLog).abs = l.abs := rfl
    rw [hsl, RaftLog.slice_eq h, habs]
    unfold ALog.sliceResult
    rw [if_neg (by omega), if_neg (by omega), if_neg (by omega)]
    simp only [P_pure_eq, P_ok_bind, reduceCtorEq, false_iff, not_and]
    intro _ _ _ _; exact h4

/-! ### scanAny -/

theorem scanAny_zero (l : RaftLog) (p : Entry → Bool) (ps lo hi : Nat) :
    l.scanAny p ps 0 lo hi = .error "scan: out of fuel" := rfl

/-- with enough fuel (`hi - lo < fuel`, the model always passes `hi - lo + 1`) and under the invariant
the only panics of `scanAny` come from a range that starts in the compacted part or ends beyond the log -/
theorem scanAny_error_iff {l : RaftLog} (h : l.WF) (p : Entry → Bool) (ps : Nat) :
    ∀ (fuel lo hi : Nat), hi - lo < fuel → ∀ e : String,
      (l.scanAny p ps fuel lo hi = .error e ↔ lo < hi ∧
        ((e = "scan: error scanning unapplied entries" ∧ lo < l.firstIndex) ∨
         (e = "slice: out of bound" ∧ l.firstIndex ≤ lo ∧ l.lastIndex + 1 < hi))) := by
  intro fuel
  induction fuel with
  | zero => intro lo hi hf; omega
  | succ fuel ih =>
    intro lo hi hf e
    unfold RaftLog.scanAny
    by_cases hlt : lo < hi
    · rw [if_pos hlt, RaftLog.slice_eq h, RaftLog.firstIndex_abs h, RaftLog.lastIndex_abs h]
      unfold ALog.sliceResult
      rw [if_neg (by omega)]
      by_cases hc : lo < l.abs.first
      · rw [if_pos hc]
        simp only [P_pure_eq, P_ok_bind, P_throw_eq, Except.error.injEq]
        constructor
        · intro hx; exact ⟨hlt, Or.inl ⟨hx.symm, hc⟩⟩
        · rintro ⟨_, (⟨hx, _⟩ | ⟨_, hx, _⟩)⟩
          · exact hx.symm
          · omega
      · rw [if_neg hc]
        by_cases ho : hi > l.abs.last + 1
        · rw [if_pos ho]
          simp only [P_throw_eq, P_error_bind, Except.error.injEq]
          constructor
          · intro hx; exact ⟨hlt, Or.inr ⟨hx.symm, by omega, ho⟩⟩
          · rintro ⟨_, (⟨_, hx⟩ | ⟨hx, _⟩)⟩
            · omega
            · exact hx.symm
        · rw [if_neg ho]
          simp only [P_pure_eq, P_ok_bind]
          have hlen := l.abs.slice_length (lo := lo) (hi := hi) (by omega) (by omega) (by omega)
          have hne : l.abs.slice lo hi ≠ [] := by
            intro h0; rw [h0] at hlen; simp at hlen; omega
          have hne' := limitSize_ne_nil (l.abs.slice lo hi) ps hne
          have hle : (limitSize (l.abs.slice lo hi) ps).length ≤ hi - lo := by
            have := (limitSize_prefix (l.abs.slice lo hi) ps).length_le
            omega
          cases hls : limitSize (l.abs.slice lo hi) ps with
          | nil => exact absurd hls hne'
          | cons x xs =>
            rw [hls] at hle
            simp only [List.length_cons] at hle
            simp only []
            by_cases hany : (x :: xs).any p = true
            · rw [if_pos hany]
              simp only [reduceCtorEq, false_iff, not_and, not_or]
              intro _; exact ⟨fun _ => hc, fun _ _ => ho⟩
            · rw [if_neg hany]
              rw [ih (lo + (x :: xs).length) hi (by simp only [List.length_cons]; omega) e,
                RaftLog.firstIndex_abs h, RaftLog.lastIndex_abs h]
              simp only [List.length_cons]
              constructor
              · rintro ⟨_, (⟨_, hx⟩ | ⟨_, _, hx⟩)⟩ <;> omega
              · rintro ⟨_, (⟨_, hx⟩ | ⟨_, _, hx⟩)⟩ <;> omega
    · rw [if_neg hlt]
      simp only [P_pure_eq, reduceCtorEq, false_iff, not_and]
      intro hx; exact absurd hx hlt

/-! ## tracker -/

theorem inflights_add_iff (i : Inflights) (idx b : Nat) (e : String) :
    i.add idx b = .error e ↔ e = "inflights.Add: cannot add into a Full inflights" ∧ i.full = true := by
  unfold Inflights.add
  cases i.full <;> simp [eq_comm]

theorem sentEntries_iff (pr : Progress) (n b : Nat) (e : String) :
    pr.sentEntries n b = .error e ↔
      (e = "progress.SentEntries: sending append in unhandled state" ∧ pr.state = .snapshot) ∨
      (e = "inflights.Add: cannot add into a Full inflights" ∧ pr.state = .replicate ∧ 0 < n ∧
        pr.inflights.full = true) := by
  cases hs : pr.state with
  | snapshot =>
    unfold Progress.sentEntries
    simp only [hs, P_throw_eq, Except.error.injEq, reduceCtorEq, and_true, false_and, and_false, or_false]
    exact eq_comm
  | probe => simp [Progress.sentEntries_probe pr n b hs]
  | replicate =>
    rcases Nat.eq_zero_or_pos n with h0 | hpos
    · subst h0; simp [Progress.sentEntries_replicate_zero pr b hs]
    · rw [Progress.sentEntries_replicate_pos pr n b hs hpos]
      have := inflights_add_iff pr.inflights (pr.next + n - 1) b e
      cases ha : pr.inflights.add (pr.next + n - 1) b with
      | ok i' =>
        rw [ha] at this
        simp only [reduceCtorEq, false_iff, not_and] at this
        simp [Except.map, hpos]
        simpa using this
      | error e' =>
        rw [ha] at this
        simp only [Except.map, Except.error.injEq, reduceCtorEq, and_false, false_or, true_and, hpos]
        simpa using this

/-! ## ReadOnly -/

theorem recvAck_iff (ro : ReadOnly) (frm : Id) (ctx : Option Bytes) (e : String) :
    ro.recvAck frm ctx = .error e ↔
      e = "readOnly.recvAck: context shorter than 8 bytes" ∧ ∃ b, ctx = some b ∧ 0 < b.length ∧ b.length < 8 := by
  unfold ReadOnly.recvAck
  cases ctx with
  | none => simp
  | some b =>
    cases b with
    | nil => simp
    | cons x t =>
      simp only [decLeUint64]
      by_cases h : (x :: t).length < 8
      · simp only [h, ↓reduceIte]
        constructor
        · intro hx
          injection hx with hx
          exact ⟨hx.symm, _, rfl, by simp, h⟩
        · rintro ⟨rfl, _⟩; rfl
      · simp only [h, ↓reduceIte]
        constructor
        · intro hx; cases hx
        · rintro ⟨_, b, hb, _, hlt⟩
          injection hb with hb; subst hb; exact absurd hlt h

open Quorum in
theorem jointCommitted_none_iff (c0 c1 : List Id) (ack : Id → Option Nat) :
    jointCommitted c0 c1 ack = none ↔ c0 = [] ∧ c1 = [] := by
  constructor
  · intro hn
    have key : c0 ≠ [] ∨ c1 ≠ [] → False := by
      intro h; obtain ⟨r, hr⟩ := jointCommitted_isSome c0 c1 ack h; rw [hr] at hn; cases hn
    exact ⟨Classical.byContradiction fun hx => key (Or.inl hx),
      Classical.byContradiction fun hx => key (Or.inr hx)⟩
  · rintro ⟨rfl, rfl⟩; rfl

open Quorum in
theorem maybeAdvance_iff (ro : ReadOnly) (c0 c1 : List Id) (e : String) :
    ro.maybeAdvance c0 c1 = .error e ↔
      (e = "readOnly.maybeAdvance: slice bounds out of range (empty config)" ∧ c0 = [] ∧ c1 = []) ∨
      (e = "readOnly.maybeAdvance: slice bounds out of range" ∧
        ∃ nc, jointCommitted c0 c1 (mapGet ro.acks) = some nc ∧
          ro.confirmedReads + ro.unconfirmed.length < nc) := by
  cases hj : jointCommitted c0 c1 (mapGet ro.acks) with
  | none =>
    have hcc := (jointCommitted_none_iff _ _ _).mp hj
    unfold ReadOnly.maybeAdvance
    rw [hj]
    simp only [P_throw_eq, Except.error.injEq, reduceCtorEq, false_and, exists_false, and_false, or_false]
    constructor
    · intro hx; exact ⟨hx.symm, hcc⟩
    · intro hx; exact hx.1.symm
  | some nc =>
    have hcc : ¬ (c0 = [] ∧ c1 = []) := by
      intro hx; rw [(jointCommitted_none_iff _ _ _).mpr hx] at hj; cases hj
    rw [ReadOnly.maybeAdvance_eq ro c0 c1 nc hj]
    simp only [Option.some.injEq, exists_eq_left']
    split
    · simp [hcc]; intro _; omega
    · split
      · rename_i h1 h2
        simp only [Except.error.injEq]
        constructor
        · intro hx; exact Or.inr ⟨hx.symm, by omega⟩
        · rintro (⟨_, hx⟩ | ⟨hx, _⟩)
          · exact absurd hx hcc
          · exact hx.symm
      · simp [hcc]; intro _; omega

end RaftVerif.C14
