import RaftVerif.Proofs.LiveStep
import RaftVerif.Props.C18
import RaftVerif.Props.C08
/-!
# Proofs/LiveStorage — storage acknowledgements and `raft.appliedTo` (C15)

* `step_storageAppendResp_run` — a `MsgStorageAppendResp` of the node's own term calls `stableTo`;
* `stableTo_last_empties`      — acknowledging the last unstable entry empties `unstable.entries`;
* `appliedTo_unpauses`         — `raftLog.appliedTo` un-pauses applying once the outstanding size is below the limit;
* `appliedTo_autoleave_run` / `appliedTo_plain_run` — `raft.appliedTo` steps the empty ConfChangeV2 exactly when
  `autoLeave ∧ newApplied ≥ pendingConfIndex ∧ leader`.
-/
namespace RaftVerif.Live
open Raft
set_option linter.unusedSimpArgs false

/-! ### `MsgStorageAppendResp` -/

theorem step_storageAppendResp_run (fuel : Nat) (m : Message) (r : Raft) (ht : m.typ = .storageAppendResp)
    (hterm : m.term = 0 ∨ m.term = r.term) (hs : m.snapshot = none) :
    (step (fuel + 1) m).run r =
      .ok (none, if m.index ≠ 0 then { r with log := r.log.stableTo { term := m.logTerm, index := m.index } }
                 else r) := by
  rw [step]
  simp only [StateT.run_bind, StateT.run_get, P_pure_eq, P_ok_bind]
  have hidx : (m.index != 0) = true ↔ m.index ≠ 0 := by simp
  by_cases h0 : m.term = 0
  · simp only [h0, beq_self_eq_true, ↓reduceIte, StateT.run_pure, P_pure_eq, P_ok_bind, ht, hs]
    by_cases hi : m.index = 0
    · simp only [hi, bne_self_eq_false, Bool.false_eq_true, ↓reduceIte, StateT.run_pure, P_pure_eq, ne_eq,
        not_true_eq_false, StateT.run_bind, P_ok_bind]
    · have hi' : (m.index != 0) = true := hidx.mpr hi
      simp only [hi', hi, ↓reduceIte, StateT.run_bind, StateT.run_modify, StateT.run_pure, P_pure_eq, P_ok_bind,
        ne_eq, not_false_eq_true]
  · have h0' : (m.term == 0) = false := by simpa using h0
    have he : m.term = r.term := by omega
    have h0r : (r.term == 0) = false := by rw [← he]; exact h0'
    simp only [h0', he, h0r, gt_iff_lt, Nat.lt_irrefl, Bool.false_eq_true, ↓reduceIte, StateT.run_pure, P_pure_eq,
      P_ok_bind, ht, hs]
    by_cases hi : m.index = 0
    · simp only [hi, bne_self_eq_false, Bool.false_eq_true, ↓reduceIte, StateT.run_pure, P_pure_eq, ne_eq,
        not_true_eq_false, StateT.run_bind, P_ok_bind]
    · have hi' : (m.index != 0) = true := hidx.mpr hi
      simp only [hi', hi, ↓reduceIte, StateT.run_bind, StateT.run_modify, StateT.run_pure, P_pure_eq, P_ok_bind,
        ne_eq, not_false_eq_true]

/-- acknowledging exactly the last unstable entry empties the unstable entries -/
theorem stableTo_last_empties {u : Unstable} (h : u.WF) {last : Entry} (hl : u.entries.getLast? = some last) :
    (u.stableTo { term := last.term, index := last.index }).entries = [] ∧
    (u.stableTo { term := last.term, index := last.index }).offset = last.index + 1 ∧
    (u.stableTo { term := last.term, index := last.index }).snapshot = u.snapshot := by
  have hmem : last ∈ u.entries := List.mem_of_getLast? hl
  have hm : u.Matches { term := last.term, index := last.index } := ⟨last, hmem, rfl, rfl⟩
  rw [Unstable.stableTo_of_matches h hm]
  refine ⟨?_, rfl, rfl⟩
  simp only [List.filter_eq_nil_iff, decide_eq_true_eq]
  intro e he
  have h1 := h.contig.mem he
  have h2 := h.contig.getLast?_index hl
  omega

/-! ### `raftLog.appliedTo` un-pauses -/

theorem appliedTo_unpauses (l l' : RaftLog) (i size : Nat) (hok : l.appliedTo i size = .ok l')
    (hsz : l.applyingEntsSize < size + l.maxApplyingEntsSize) (hpos : 0 < l.maxApplyingEntsSize) :
    l'.applyingEntsPaused = false ∧ l'.applyingEntsSize + size = max l.applyingEntsSize size ∧
    l'.applied = i ∧ l.applying ≤ l'.applying := by
  unfold RaftLog.appliedTo at hok
  split at hok
  · cases hok
  · injection hok with hok
    subst hok
    refine ⟨?_, ?_, rfl, Nat.le_max_left _ _⟩
    · show decide ((if l.applyingEntsSize > size then l.applyingEntsSize - size else 0) ≥ l.maxApplyingEntsSize) = false
      simp only [ge_iff_le, decide_eq_false_iff_not, Nat.not_le]
      split <;> omega
    · show (if l.applyingEntsSize > size then l.applyingEntsSize - size else 0) + size = max l.applyingEntsSize size
      split <;> omega

/-! ### `raft.appliedTo`: the auto-leave proposal -/

/-- the empty ConfChangeV2 proposal (`confChangeToMsg(nil)`) -/
def leaveJointMsg : Message := { typ := .prop, entries := [{ typ := some .confChangeV2, data := none }] }

theorem appliedTo_autoleave_run (fuel index size : Nat) (r : Raft) (l : RaftLog)
    (hl : r.log.appliedTo (max index r.log.applied) size = .ok l)
    (ha : r.trk.cfg.autoLeave = true) (hs : r.state = .leader)
    (hp : r.pendingConfIndex ≤ max index r.log.applied) :
    (appliedTo fuel index size).run r =
      ((step fuel leaveJointMsg).run { r with log := l } >>= fun p => .ok ((), p.2)) := by
  rw [appliedTo]
  unfold appliedToLog
  have hp' : decide (max index r.log.applied ≥ r.pendingConfIndex) = true := by simpa using hp
  simp only [StateT.run_bind, StateT.run_get, P_pure_eq, P_ok_bind, liftP_run, hl, setLog_run, StateT.run_pure,
    ha, hs, hp', Bool.and_self, beq_self_eq_true, ↓reduceIte]
  rfl

theorem appliedTo_plain_run (fuel index size : Nat) (r : Raft) (l : RaftLog)
    (hl : r.log.appliedTo (max index r.log.applied) size = .ok l)
    (hn : r.trk.cfg.autoLeave = false ∨ r.state ≠ .leader ∨ max index r.log.applied < r.pendingConfIndex) :
    (appliedTo fuel index size).run r = .ok ((), { r with log := l }) := by
  rw [appliedTo]
  unfold appliedToLog
  have hc : (r.trk.cfg.autoLeave && decide (max index r.log.applied ≥ r.pendingConfIndex) &&
      (r.state == .leader)) = false := by
    rcases hn with h | h | h
    · simp [h]
    · have : (r.state == Role.leader) = false := by simpa using h
      simp [this]
    · have : decide (max index r.log.applied ≥ r.pendingConfIndex) = false := by
        simp only [ge_iff_le, decide_eq_false_iff_not]; omega
      simp [this]
  simp only [StateT.run_bind, StateT.run_get, P_pure_eq, P_ok_bind, liftP_run, hl, setLog_run, StateT.run_pure,
    hc, Bool.false_eq_true, ↓reduceIte]

/-- while a leadership transfer is in flight the leader drops the proposal without any effect -/
theorem stepLeader_prop_dropped_transfer (fuel : Nat) (m : Message) (r : Raft) (hm : m.typ = .prop)
    (hne : m.entries ≠ []) (hself : (r.trk.getProgress r.cfg.id).isNone = false)
    (hlt : r.leadTransferee ≠ 0) :
    (stepLeader fuel m).run r = .ok (some .proposalDropped, r) := by
  unfold stepLeader
  have hlen : (m.entries.length == 0) = false := by
    cases h : m.entries with
    | nil => exact absurd h hne
    | cons a t => simp
  have hlt' : (r.leadTransferee != 0) = true := by simpa using hlt
  simp only [hm, StateT.run_bind, StateT.run_get, P_pure_eq, P_ok_bind, hlen, Bool.false_eq_true, ↓reduceIte, hself,
    hlt', StateT.run_pure]

end RaftVerif.Live
