import RaftVerif.Proofs.SimHb
import RaftVerif.Proofs.SimAux
/-!
# Proofs/SimHbAux — the auxiliary (model-only) invariant `AuxInv` across the heartbeat steps

* `aux_hb_same`      — MsgHeartbeat of the node's own term
* `aux_hbResp_same`  — MsgHeartbeatResp of the node's own term (no read-index context)
* `aux_tick_leader`  — tick of a leader
-/
namespace RaftVerif.Sim
open Refine Raft Live
set_option linter.unusedSimpArgs false

/-- the premise of `AuxInv.outFrom` -/
abbrev OutKind (m : Message) : Prop := m.typ = .app ∨ m.typ = .heartbeat ∨ m.typ = .vote

/-- **the auxiliary invariant survives a sending function** whose new messages go from `n` to others -/
theorem AuxInv.of_hbFrame {n : Nat} {r r' : Raft} (h : AuxInv n r) (f : HbFrame r r')
    (hout : ∀ m ∈ r'.msgs, OutKind m → m.from = n ∧ m.to ≠ n) : AuxInv n r' ∧ AuxFrame r r' := by
  have haf : AuxFrame r r' :=
    ⟨Nat.le_of_eq f.term.symm, fun _ hl => ⟨f.state.trans hl, Nat.le_of_eq (by rw [f.log])⟩,
      fun _ hf => f.state.trans hf⟩
  refine ⟨⟨?_, ?_, hout⟩, haf⟩
  · rw [f.state, f.log]
    intro hs pr hp
    obtain ⟨p0, g0, e, _⟩ := f.prm.back hp
    rw [e]; exact h.matchLe hs p0 g0
  · rw [f.maa]
    intro m hm
    exact (h.self m hm).frame haf

/-- extending `msgs` by one message -/
theorem outFrom_snoc {n : Nat} {l : List Message} {x : Message}
    (h : ∀ m ∈ l, OutKind m → m.from = n ∧ m.to ≠ n) (hx : OutKind x → x.from = n ∧ x.to ≠ n) :
    ∀ m ∈ l ++ [x], OutKind m → m.from = n ∧ m.to ≠ n := by
  intro m hm
  rcases List.mem_append.1 hm with hm | hm
  · exact h m hm
  · rw [List.mem_singleton.1 hm]; exact hx

/-! ### MsgHeartbeat -/

theorem aux_hb_same {val : Val} {voters : List Id} {n : Nat} {s : Spec.State} {r r' : Raft} {m : Message}
    {e : Option StepErr} {fuel : Nat} (hinv : RaftInv val voters n r (s.nodes n) s.msgs) (haux : AuxInv n r)
    (ht : m.typ = .heartbeat) (hterm : m.term = r.term) (hfrom : m.from ≠ n)
    (h : (Raft.step (fuel + 1) m).run r = .ok (e, r')) : AuxInv n r' ∧ AuxFrame r r' := by
  have _ := hfrom
  by_cases hs : r.state = .leader
  · have : r' = r := by
      rw [step_same_term_dispatch fuel m r (Or.inr hterm) (by rw [ht]; decide)] at h
      unfold dispatch at h
      rw [hs] at h
      simp only at h
      rw [hb_stepLeader_run fuel m r ht] at h
      injection h with h; injection h with _ h; exact h.symm
    subst this
    exact ⟨haux, AuxFrame.refl _⟩
  · obtain ⟨_, hf, _, _, hmsgs, hmaa⟩ := step_hb_refine fuel m r r' e ht hterm hs hinv.wf h
    have haf : AuxFrame r r' := ⟨Nat.le_of_eq hf.term.symm, fun _ hl => absurd hl hs, fun _ _ => hf.state⟩
    refine ⟨⟨?_, ?_, ?_⟩, haf⟩
    · intro hl; rw [hf.state] at hl; cases hl
    · rw [hmaa]
      intro x hx
      exact (haux.self x hx).frame haf
    · rw [hmsgs]
      refine outFrom_snoc haux.outFrom ?_
      intro hk
      simp [OutKind, hbRespMsg] at hk

/-! ### MsgHeartbeatResp -/

/-- one `maybeSendAppend`: nothing, a snapshot, or a MsgApp from the node to another one -/
theorem aux_maybeSendAppend {val : Val} {n : Nat} {r r' : Raft} {to : Id} {b res : Bool}
    (haux : AuxInv n r) (hid : r.cfg.id = n) (hwf : r.log.WF) (hu : Uncompacted r.log)
    (h : (Raft.maybeSendAppend to b).run r = .ok (res, r')) : AuxInv n r' ∧ AuxFrame r r' := by
  have hsf := (maybeSendAppend_sf to b r).elim h
  have hpk := (maybeSendAppend_pk to b r).elim h
  have hso := (maybeSendAppend_sendsOK val to b r hwf hu).elim h
  have f : HbFrame r r' := HbFrame.of_sf hsf hpk hso.maa
  refine haux.of_hbFrame f ?_
  rcases maybeSendAppend_refine val to b r r' res hwf hu h with hm | ⟨x, hm, hx⟩ | ⟨x, hm, hxto, hne, hx⟩
  · rw [hm]; exact haux.outFrom
  · rw [hm]
    refine outFrom_snoc haux.outFrom ?_
    intro hk
    simp [OutKind, hx] at hk
  · rw [hm]
    refine outFrom_snoc haux.outFrom ?_
    intro _
    exact ⟨hx.frm.trans hid, by rw [hxto, ← hid]; exact hne⟩

theorem aux_hbResp_same {val : Val} {voters : List Id} {n : Nat} {s : Spec.State} {r r' : Raft} {m : Message}
    {e : Option StepErr} {fuel : Nat} (hinv : RaftInv val voters n r (s.nodes n) s.msgs) (haux : AuxInv n r)
    (ht : m.typ = .heartbeatResp) (hterm : m.term = r.term) (hctx : m.context = none)
    (h : (Raft.step (fuel + 1) m).run r = .ok (e, r')) : AuxInv n r' ∧ AuxFrame r r' := by
  have hign : ∀ {x : Option StepErr}, .ok (x, r) = (Except.ok (e, r') : Except String _) →
      AuxInv n r' ∧ AuxFrame r r' := by
    intro x hx
    injection hx with hx; injection hx with _ hx; subst hx
    exact ⟨haux, AuxFrame.refl _⟩
  by_cases hs : r.state = .leader
  · rw [step_leader_dispatch fuel m r hs (Or.inr hterm) (Or.inr (Or.inr (Or.inr (Or.inl ht))))] at h
    cases hg : r.trk.getProgress m.from with
    | none =>
      rw [stepLeader_noProgress_run fuel m r (Or.inr (Or.inr (Or.inl ht))) hg] at h
      exact hign h
    | some pr =>
      have f : HbFrame r (hbMid r m pr) :=
        ⟨rfl, rfl, rfl, rfl, rfl, rfl, rfl, rfl, rfl, rfl, rfl, rfl, PrM.setProgress r m.from pr _ hg rfl rfl⟩
      obtain ⟨hmid, hfmid⟩ := haux.of_hbFrame f haux.outFrom
      rcases hbResp_stepLeader_inv fuel m r r' e pr ht hctx hg h with rfl | ⟨b, hb⟩
      · exact ⟨hmid, hfmid⟩
      · obtain ⟨h1, h2⟩ := aux_maybeSendAppend (val := val) hmid hinv.st.id hinv.wf hinv.unc hb
        exact ⟨h1, hfmid.trans h2⟩
  · rw [step_same_term_dispatch fuel m r (Or.inr hterm) (by rw [ht]; decide)] at h
    unfold dispatch at h
    cases hstt : r.state with
    | leader => exact absurd hstt hs
    | candidate => rw [hstt] at h; simp only at h; rw [hbResp_stepCandidate_run fuel m r ht] at h; exact hign h
    | preCandidate => rw [hstt] at h; simp only at h; rw [hbResp_stepCandidate_run fuel m r ht] at h; exact hign h
    | follower => rw [hstt] at h; simp only at h; rw [hbResp_stepFollower_run fuel m r ht] at h; exact hign h

/-! ### a leader's tick -/

/-- one `sendHeartbeat` to another node -/
theorem aux_sendHeartbeat {n : Nat} {r r' : Raft} {to : Id} (haux : AuxInv n r) (hid : r.cfg.id = n)
    (hto : to ≠ n) (h : (Raft.sendHeartbeat to none).run r = .ok ((), r')) :
    (AuxInv n r' ∧ AuxFrame r r') ∧ r'.cfg = r.cfg := by
  obtain ⟨pr, hg, rfl⟩ := sendHeartbeat_exact h
  refine ⟨?_, rfl⟩
  generalize min pr.match_ r.log.committed = c
  have f : HbFrame r { r with msgs := r.msgs ++ [hbMsgOut r to c],
                              trk := r.trk.setProgress to { pr with sentCommit := c } } :=
    ⟨rfl, rfl, rfl, rfl, rfl, rfl, rfl, rfl, rfl, rfl, rfl, rfl,
     (PrM.setProgress r to pr { pr with sentCommit := c } hg rfl rfl).congr rfl⟩
  refine haux.of_hbFrame f ?_
  exact outFrom_snoc haux.outFrom (fun _ => ⟨hid, hto⟩)

/-- a round of heartbeats -/
theorem aux_bcastHeartbeat {n : Nat} {r : Raft} (haux : AuxInv n r) (hid : r.cfg.id = n)
    (hro : r.readOnly.unconfirmed = []) :
    Spec Raft.bcastHeartbeat r (fun _ r' => AuxInv n r' ∧ AuxFrame r r') := by
  have hctx : r.readOnly.heartbeatCtx = none := by simp [ReadOnly.heartbeatCtx, hro]
  unfold Raft.bcastHeartbeat Raft.bcastHeartbeatWithCtx Raft.progressIds
  simp only [wp]
  rw [hctx]
  refine (Spec.forIn_list _ _ _ (fun _ r1 => (AuxInv n r1 ∧ AuxFrame r r1) ∧ r1.cfg = r.cfg) r
    ⟨⟨haux, AuxFrame.refl _⟩, rfl⟩ ?_).mono (fun _ _ h => h.1)
  intro id _ u mid ⟨⟨ha, hf⟩, hcfg⟩
  simp only [wp]
  refine ⟨fun hne => ?_, fun _ => ⟨⟨ha, hf⟩, hcfg⟩⟩
  have hidn : id ≠ n := by
    rw [← hid]
    simpa using hne
  rw [Spec.iff_runs]
  intro u' r2 hr2
  obtain ⟨⟨h1, h2⟩, h3⟩ := aux_sendHeartbeat ha (by rw [hcfg]; exact hid) hidn hr2
  exact ⟨⟨h1, hf.trans h2⟩, h3.trans hcfg⟩

/-- marking the peers inactive keeps the auxiliary invariant -/
theorem AuxInv.clearRA {n : Nat} {r : Raft} (h : AuxInv n r) : AuxInv n (clearRA r) := by
  refine ⟨fun hl pr hp => ?_, h.self, h.outFrom⟩
  rw [getProgress_clearRA] at hp
  cases hq : r.trk.getProgress n with
  | none => rw [hq] at hp; cases hp
  | some pr0 =>
    rw [hq] at hp
    injection hp with hp
    subst hp
    have := h.matchLe hl pr0 hq
    show (if n = r.cfg.id then pr0 else { pr0 with recentActive := false }).match_ ≤ r.log.lastIndex
    split <;> exact this

/-- tick of a leader (a leader that steps down — CheckQuorum — keeps its term: the pending acknowledgements of its
own stay harmless, `SelfOK`) -/
theorem aux_tick_leader {val : Val} {voters : List Id} {n : Nat} {s : Spec.State} {r r' : Raft}
    (hinv : RaftInv val voters n r (s.nodes n) s.msgs) (haux : AuxInv n r) (hs : r.state = .leader)
    (h : Raft.tick.run r = .ok ((), r')) : AuxInv n r' ∧ r.term ≤ r'.term := by
  rw [tick_leader_run r hs] at h
  obtain ⟨ra, ⟨he, ee, rfl⟩, hcase⟩ := tickHeartbeat_leader_inv r r' hs hinv.st.xfer h
  have hra : AuxInv n { r with heartbeatElapsed := he, electionElapsed := ee } :=
    ⟨haux.matchLe, haux.self, haux.outFrom⟩
  rcases hcase with ⟨rb, hrb, hcase⟩ | ⟨r1, hbf, rfl⟩
  · have hrb' : AuxInv n rb ∧ rb.cfg.id = n ∧ rb.readOnly.unconfirmed = [] ∧ rb.term = r.term := by
      rcases hrb with rfl | rfl
      · exact ⟨hra, hinv.st.id, hinv.st.ro, rfl⟩
      · exact ⟨hra.clearRA, hinv.st.id, hinv.st.ro, rfl⟩
    rcases hcase with rfl | ⟨res, hb⟩
    · exact ⟨hrb'.1, Nat.le_of_eq hrb'.2.2.2.symm⟩
    · obtain ⟨u, hu⟩ := stepLeader_beat_bcast _ _ _ _ _ rfl hb
      obtain ⟨h1, h2⟩ := (aux_bcastHeartbeat hrb'.1 hrb'.2.1 hrb'.2.2.1).elim hu
      exact ⟨h1, hrb'.2.2.2 ▸ h2.term⟩
  · obtain ⟨d, rest, _, rfl⟩ := becomeFollower_run_exact hbf
    refine ⟨AuxInv.clearRA ⟨fun hl => (by cases hl), fun m hm => ?_, haux.outFrom⟩, Nat.le_refl _⟩
    intro hto
    obtain ⟨a1, a2, a3, a4, a5⟩ := haux.self m hm hto
    exact ⟨a1, a2, a3, a4, fun _ _ => Or.inl rfl⟩

end RaftVerif.Sim
