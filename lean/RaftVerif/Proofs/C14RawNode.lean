import RaftVerif.Proofs.C14Raft
/-!
# Proofs/C14RawNode — exact firing conditions of the `throw` sites of `Model/RawNode.lean`, of
`Config.validate` and of `newRaft`.  Helper lemmas for `Props/C14.lean`.  Core Lean only.
-/
set_option linter.unusedSimpArgs false
namespace RaftVerif.C14
open Raft RawNode

theorem P_ite_bind {α β : Type} (c : Prop) [Decidable c] (x y : P α) (f : α → P β) :
    (if c then x else y) >>= f = if c then x >>= f else y >>= f := by split <;> rfl
theorem P_throw_bind {α β : Type} (e : String) (f : α → P β) : (throw e : P α) >>= f = throw e := rfl

/-! ## runM -/

theorem runM_error_iff {α : Type} (rn : RawNode) (draws : List Nat) (act : M α) (e : String) :
    rn.runM draws act = .error e ↔
      act.run { rn.raft with draws := draws } = .error e ∨
      ∃ a r', act.run { rn.raft with draws := draws } = .ok (a, r') ∧ r'.draws ≠ [] ∧
        e = "HARNESS: unused election-timeout draws" := by
  unfold RawNode.runM
  cases hr : act.run { rn.raft with draws := draws } with
  | error e' => simp
  | ok p =>
    obtain ⟨a, r'⟩ := p
    simp only [P_ok_bind, reduceCtorEq, Except.ok.injEq, Prod.mk.injEq, false_or]
    by_cases hd : r'.draws = []
    · simp only [hd, List.isEmpty_nil, Bool.not_true, Bool.false_eq_true, ↓reduceIte, P_pure_eq, P_ok_bind,
        reduceCtorEq, false_iff, not_exists, not_and]
      rintro _ _ ⟨_, rfl⟩ h; exact absurd hd h
    · have hb : (!r'.draws.isEmpty) = true := by
        cases hx : r'.draws with
        | nil => exact absurd hx hd
        | cons _ _ => rfl
      simp only [hb, ↓reduceIte, P_throw_eq, P_error_bind, Except.error.injEq]
      constructor
      · rintro rfl; exact ⟨a, r', ⟨rfl, rfl⟩, hd, rfl⟩
      · rintro ⟨_, _, _, _, rfl⟩; rfl

/-! ## acceptReady -/

/-- the bookkeeping prefix of `acceptReady` (never panics) -/
def arPrefix (rn : RawNode) (rd : Ready) : RawNode :=
  let rn1 : RawNode := match rd.softState with
    | some s => { rn with prevSoft := s }
    | none => rn
  let rn2 : RawNode := match rd.hardState with
    | some h => if !h.isEmpty then { rn1 with prevHard := h } else rn1
    | none => rn1
  if rd.readStates.length != 0 then { rn2 with raft := { rn2.raft with readStates := [] } } else rn2

/-- the synchronous-mode bookkeeping of `acceptReady` -/
def arSoa (rn : RawNode) (rd : Ready) : P RawNode := do
  let mut rn := rn
  if !rn.async then
    if rn.stepsOnAdvance.length != 0 then throw "two accepted Ready structs without call to Advance"
    let mut soa := rn.raft.msgsAfterAppend.filter (fun m => m.to == rn.raft.cfg.id)
    if needStorageAppendRespMsg rn.raft rd then
      soa := soa ++ [← newStorageAppendRespMsg rn.raft rd]
    if rd.committedEntries.length > 0 then
      soa := soa ++ [newStorageApplyRespMsg rn.raft rd.committedEntries]
    rn := { rn with stepsOnAdvance := soa }
  pure rn

/-- the log part of `acceptReady` -/
def arApply (rn : RawNode) (rd : Ready) : P RawNode := do
  let mut r := rn.raft
  r := { r with msgs := [], msgsAfterAppend := [], log := r.log.acceptUnstable }
  match rd.committedEntries.getLast? with
  | some last =>
    let l ← r.log.acceptApplying last.index (entsSize rd.committedEntries) rn.applyUnstableEntries
    r := { r with log := l }
  | none => pure ()
  pure { rn with raft := r }

local macro "ar_fin" : tactic =>
  `(tactic| (simp only [*, Bool.false_eq_true, ↓reduceIte, P_ite_bind, bind_assoc, pure_bind, P_throw_bind]; rfl))

/-- `acceptReady` = bookkeeping prefix, then the synchronous-mode block, then the log part -/
theorem acceptReady_eq (rn : RawNode) (rd : Ready) :
    rn.acceptReady rd = arSoa (arPrefix rn rd) rd >>= fun rn' => arApply rn' rd := by
  unfold RawNode.acceptReady arPrefix arSoa arApply
  cases rd.softState with
  | none =>
    cases hh : rd.hardState with
    | none =>
      simp only []
      by_cases hr : (rd.readStates.length != 0) = true
      · ar_fin
      · ar_fin
    | some h =>
      simp only []
      by_cases hi : (!h.isEmpty) = true <;> by_cases hr : (rd.readStates.length != 0) = true <;> ar_fin
  | some s =>
    cases hh : rd.hardState with
    | none =>
      simp only []
      by_cases hr : (rd.readStates.length != 0) = true
      · ar_fin
      · ar_fin
    | some h =>
      simp only []
      by_cases hi : (!h.isEmpty) = true <;> by_cases hr : (rd.readStates.length != 0) = true <;> ar_fin

theorem arPrefix_frame (rn : RawNode) (rd : Ready) :
    (arPrefix rn rd).async = rn.async ∧ (arPrefix rn rd).stepsOnAdvance = rn.stepsOnAdvance ∧
    (arPrefix rn rd).raft.log = rn.raft.log := by
  unfold arPrefix
  simp only []
  repeat' split
  all_goals exact ⟨rfl, rfl, rfl⟩

theorem newStorageAppendRespMsg_error_iff (r : Raft) (rd : Ready) (e : String) :
    newStorageAppendRespMsg r rd = .error e ↔
      r.log.hasNextOrInProgressUnstableEnts = true ∧ r.log.lastEntryID = .error e := by
  unfold newStorageAppendRespMsg
  by_cases hn : r.log.hasNextOrInProgressUnstableEnts = true
  · simp only [hn, ↓reduceIte, true_and]
    cases r.log.lastEntryID with
    | error e' => simp
    | ok id => simp
  · simp [hn]

theorem arSoa_error_iff (rn : RawNode) (rd : Ready) (e : String) :
    arSoa rn rd = .error e ↔
      rn.async = false ∧
      ((e = "two accepted Ready structs without call to Advance" ∧ rn.stepsOnAdvance ≠ []) ∨
       (rn.stepsOnAdvance = [] ∧ rn.raft.log.hasNextOrInProgressUnstableEnts = true ∧
          rn.raft.log.lastEntryID = .error e)) := by
  unfold arSoa
  by_cases ha : rn.async = true
  · simp only [ha, Bool.not_true, Bool.false_eq_true, ↓reduceIte, P_pure_eq, P_ok_bind, reduceCtorEq, false_and]
  · have ha' : rn.async = false := by simpa using ha
    simp only [ha', Bool.not_false, ↓reduceIte, true_and]
    by_cases hs : rn.stepsOnAdvance = []
    · have hb : (rn.stepsOnAdvance.length != 0) = false := by simp [hs]
      simp only [hb, Bool.false_eq_true, ↓reduceIte, P_pure_eq, P_ok_bind]
      simp only [hs, ne_eq, not_true_eq_false, and_false, false_or, true_and]
      by_cases hn : needStorageAppendRespMsg rn.raft rd = true
      · simp only [hn, ↓reduceIte]
        rw [← newStorageAppendRespMsg_error_iff rn.raft rd e]
        cases newStorageAppendRespMsg rn.raft rd with
        | error e' => simp only [P_error_bind, Except.error.injEq]
        | ok m =>
          simp only [P_ok_bind, reduceCtorEq, iff_false]
          intro h; split at h <;> cases h
      · simp only [hn, Bool.false_eq_true, ↓reduceIte, P_ok_bind]
        have hx : rn.raft.log.hasNextOrInProgressUnstableEnts = false := by
          unfold needStorageAppendRespMsg at hn
          cases hy : rn.raft.log.hasNextOrInProgressUnstableEnts with
          | false => rfl
          | true => rw [hy] at hn; simp at hn
        simp only [hx, Bool.false_eq_true, false_and, iff_false]
        intro h; split at h <;> cases h
    · have hb : (rn.stepsOnAdvance.length != 0) = true := by
        cases hx : rn.stepsOnAdvance with
        | nil => exact absurd hx hs
        | cons _ _ => simp
      simp only [hb, ↓reduceIte, P_throw_eq, P_error_bind, Except.error.injEq]
      simp only [hs, false_and, or_false, ne_eq, not_false_eq_true, and_true]
      exact eq_comm

theorem arSoa_ok_frame (rn rn' : RawNode) (rd : Ready) (h : arSoa rn rd = .ok rn') :
    rn'.raft = rn.raft ∧ rn'.async = rn.async := by
  unfold arSoa at h
  simp only [bind, Except.bind, pure, Except.pure] at h
  split at h
  · split at h
    · cases h
    · split at h
      · split at h
        · cases h
        · split at h <;> (injection h with h; subst h; exact ⟨rfl, rfl⟩)
      · split at h <;> (injection h with h; subst h; exact ⟨rfl, rfl⟩)
  · injection h with h; subst h; exact ⟨rfl, rfl⟩

theorem arApply_error_iff (rn : RawNode) (rd : Ready) (e : String) :
    arApply rn rd = .error e ↔
      e = "acceptApplying: applying out of range" ∧
      ∃ last, rd.committedEntries.getLast? = some last ∧ rn.raft.log.committed < last.index := by
  unfold arApply
  cases hg : rd.committedEntries.getLast? with
  | none => simp
  | some last =>
    simp only [RaftLog.acceptApplying_eq, Option.some.injEq, exists_eq_left']
    have hc : rn.raft.log.acceptUnstable.committed = rn.raft.log.committed := rfl
    rw [hc]
    by_cases hlt : rn.raft.log.committed < last.index
    · simp only [hlt, ↓reduceIte, P_error_bind, Except.error.injEq, and_true]
      exact eq_comm
    · simp [hlt]

/-- **acceptReady**: every panic site, in evaluation order -/
theorem acceptReady_error_iff (rn : RawNode) (rd : Ready) (e : String) :
    rn.acceptReady rd = .error e ↔
      (rn.async = false ∧
        ((e = "two accepted Ready structs without call to Advance" ∧ rn.stepsOnAdvance ≠ []) ∨
         (rn.stepsOnAdvance = [] ∧ rn.raft.log.hasNextOrInProgressUnstableEnts = true ∧
            rn.raft.log.lastEntryID = .error e))) ∨
      ((rn.async = true ∨
          (rn.stepsOnAdvance = [] ∧ (rn.raft.log.hasNextOrInProgressUnstableEnts = false ∨
            ∃ id, rn.raft.log.lastEntryID = .ok id))) ∧
        e = "acceptApplying: applying out of range" ∧
        ∃ last, rd.committedEntries.getLast? = some last ∧ rn.raft.log.committed < last.index) := by
  obtain ⟨hpa, hps, hpl⟩ := arPrefix_frame rn rd
  rw [acceptReady_eq, P_bind_error_iff, arSoa_error_iff, hpa, hps, hpl]
  constructor
  · rintro (h | ⟨a, ha, hb⟩)
    · exact Or.inl h
    · obtain ⟨hr, hasync⟩ := arSoa_ok_frame _ _ _ ha
      have hb' := (arApply_error_iff a rd e).mp hb
      rw [hr, hpl] at hb'
      refine Or.inr ⟨?_, hb'⟩
      -- no error in the synchronous block
      have hne : ∀ e', ¬ arSoa (arPrefix rn rd) rd = .error e' := by
        intro e' he'; rw [ha] at he'; cases he'
      cases hx : rn.async with
      | true => exact Or.inl rfl
      | false =>
        right
        by_cases hs : rn.stepsOnAdvance = []
        · refine ⟨hs, ?_⟩
          cases hn : rn.raft.log.hasNextOrInProgressUnstableEnts with
          | false => exact Or.inl rfl
          | true =>
            right
            cases hl : rn.raft.log.lastEntryID with
            | ok id => exact ⟨id, rfl⟩
            | error e' =>
              exfalso
              exact hne e' ((arSoa_error_iff _ _ _).mpr
                (by rw [hpa, hps, hpl]; exact ⟨hx, Or.inr ⟨hs, hn, hl⟩⟩))
        · exfalso
          exact hne _ ((arSoa_error_iff _ _ _).mpr
            (by rw [hpa, hps]; exact ⟨hx, Or.inl ⟨rfl, hs⟩⟩))
  · rintro (h | ⟨hno, hb⟩)
    · exact Or.inl h
    · right
      cases hr : arSoa (arPrefix rn rd) rd with
      | error e' =>
        exfalso
        have := (arSoa_error_iff _ _ _).mp hr
        rw [hpa, hps, hpl] at this
        obtain ⟨hasync, hcase⟩ := this
        rcases hno with hno | ⟨hs, hno⟩
        · rw [hasync] at hno; cases hno
        · rcases hcase with ⟨_, hne⟩ | ⟨_, hn, hl⟩
          · exact hne hs
          · rcases hno with hno | ⟨id, hid⟩
            · rw [hn] at hno; cases hno
            · rw [hl] at hid; cases hid
      | ok a =>
        refine ⟨a, rfl, ?_⟩
        obtain ⟨hra, _⟩ := arSoa_ok_frame _ _ _ hr
        rw [arApply_error_iff, hra, hpl]
        exact hb

/-! ## advance -/

/-- the loop of `RawNode.Advance` -/
def advanceAct (rn : RawNode) : M Unit := do
  for m in rn.stepsOnAdvance do
    let _ ← Raft.step Raft.stepFuel m

theorem advance_error_iff (rn : RawNode) (draws : List Nat) (e : String) :
    rn.advance draws = .error e ↔
      (rn.async = true ∧ e = "Advance must not be called when using AsyncStorageWrites") ∨
      (rn.async = false ∧ rn.runM draws (advanceAct rn) = .error e) := by
  unfold RawNode.advance advanceAct
  cases ha : rn.async with
  | true =>
    simp only [↓reduceIte, P_throw_eq, P_error_bind, Except.error.injEq, true_and, Bool.true_eq_false,
      false_and, or_false]
    exact eq_comm
  | false =>
    simp only [Bool.false_eq_true, ↓reduceIte, P_pure_eq, P_ok_bind, false_and, true_and, false_or]
    cases rn.runM draws _ with
    | error e' => simp
    | ok p => simp

/-! ## Config.validate -/

/-- the defaults `validate` fills in before the inflight checks -/
def cfgFill0 (c : Config) : Config :=
  let c := if c.maxUncommittedEntriesSize == 0 then { c with maxUncommittedEntriesSize := noLimit } else c
  let c := if c.maxCommittedSizePerReady == 0 then { c with maxCommittedSizePerReady := c.maxSizePerMsg } else c
  if c.maxCommittedSizePerReady == 0 then { c with maxCommittedSizePerReady := 1 } else c

/-- the validated configuration -/
def cfgFill (c : Config) : Config :=
  if (cfgFill0 c).maxInflightBytes == 0 then { cfgFill0 c with maxInflightBytes := noLimit } else cfgFill0 c


local macro "val_simp" : tactic =>
  `(tactic| simp only [Config.validate, *, Bool.false_eq_true, ↓reduceIte, P_throw_bind, pure_bind, bind_assoc,
      P_throw_eq, P_pure_eq, P_error_bind, P_ok_bind,
      apply_ite Config.maxInflightMsgs, apply_ite Config.maxInflightBytes, apply_ite Config.maxSizePerMsg,
      apply_ite Config.readOnlyOption, apply_ite Config.checkQuorum, ite_self])

theorem validate_eq (c : Config) :
    c.validate =
      if c.id = 0 then .error "cannot use none as id"
      else if isLocalMsgTarget c.id = true then .error "cannot use local target as id"
      else if c.heartbeatTick = 0 then .error "heartbeat tick must be greater than 0"
      else if c.electionTick ≤ c.heartbeatTick then .error "election tick must be greater than heartbeat tick"
      else if c.maxInflightMsgs = 0 then .error "max inflight messages must be greater than 0"
      else if c.maxInflightBytes ≠ 0 ∧ c.maxInflightBytes < c.maxSizePerMsg then
        .error "max inflight bytes must be >= max message size"
      else if c.readOnlyOption = 1 ∧ c.checkQuorum = false then
        .error "CheckQuorum must be enabled when ReadOnlyOption is ReadOnlyLeaseBased"
      else .ok (cfgFill c) := by
  by_cases h1 : c.id = 0
  · have h1' : (c.id == 0) = true := by simpa using h1
    rw [if_pos h1]; clear h1; val_simp
  rw [if_neg h1]
  have h1' : (c.id == 0) = false := by simpa using h1
  clear h1
  by_cases h2 : isLocalMsgTarget c.id = true
  · rw [if_pos h2]; val_simp
  rw [if_neg h2]
  have h2' : isLocalMsgTarget c.id = false := by simpa using h2
  clear h2
  by_cases h3 : c.heartbeatTick = 0
  · have h3' : (c.heartbeatTick == 0) = true := by simpa using h3
    rw [if_pos h3]; clear h3; val_simp
  rw [if_neg h3]
  have h3' : (c.heartbeatTick == 0) = false := by simpa using h3
  clear h3
  by_cases h4 : c.electionTick ≤ c.heartbeatTick
  · rw [if_pos h4]; val_simp
  rw [if_neg h4]
  by_cases h5 : c.maxInflightMsgs = 0
  · have h5' : (c.maxInflightMsgs == 0) = true := by simpa using h5
    rw [if_pos h5]; clear h5; val_simp
  rw [if_neg h5]
  have h5' : (c.maxInflightMsgs == 0) = false := by simpa using h5
  clear h5
  by_cases h6 : c.maxInflightBytes = 0
  · have h6' : (c.maxInflightBytes == 0) = true := by simpa using h6
    rw [if_neg (by simp [h6])]
    clear h6
    by_cases h7 : c.readOnlyOption = 1 ∧ c.checkQuorum = false
    · have h7' : (c.readOnlyOption == 1 && !c.checkQuorum) = true := by simpa using h7
      rw [if_pos h7]; clear h7; val_simp
    · have h7' : (c.readOnlyOption == 1 && !c.checkQuorum) = false := by simpa using h7
      rw [if_neg h7]; clear h7; val_simp
      unfold cfgFill cfgFill0
      by_cases a1 : (c.maxUncommittedEntriesSize == 0) = true <;>
      by_cases a2 : (c.maxCommittedSizePerReady == 0) = true <;>
      by_cases a3 : (c.maxSizePerMsg == 0) = true <;>
      simp only [a1, a2, a3, h6', Bool.false_eq_true, ↓reduceIte, beq_self_eq_true]
  · have h6' : (c.maxInflightBytes == 0) = false := by simpa using h6
    by_cases h6b : c.maxInflightBytes < c.maxSizePerMsg
    · rw [if_pos ⟨h6, h6b⟩]; clear h6; val_simp
    · rw [if_neg (by intro hx; exact h6b hx.2)]
      clear h6
      by_cases h7 : c.readOnlyOption = 1 ∧ c.checkQuorum = false
      · have h7' : (c.readOnlyOption == 1 && !c.checkQuorum) = true := by simpa using h7
        rw [if_pos h7]; clear h7; val_simp
      · have h7' : (c.readOnlyOption == 1 && !c.checkQuorum) = false := by simpa using h7
        rw [if_neg h7]; clear h7; val_simp
        unfold cfgFill cfgFill0
        by_cases a1 : (c.maxUncommittedEntriesSize == 0) = true <;>
        by_cases a2 : (c.maxCommittedSizePerReady == 0) = true <;>
        by_cases a3 : (c.maxSizePerMsg == 0) = true <;>
        simp only [a1, a2, a3, h6', Bool.false_eq_true, ↓reduceIte, beq_self_eq_true]

theorem validate_error_iff (c : Config) (e : String) :
    c.validate = .error e ↔
      (e = "cannot use none as id" ∧ c.id = 0) ∨
      (e = "cannot use local target as id" ∧ c.id ≠ 0 ∧ isLocalMsgTarget c.id = true) ∨
      (e = "heartbeat tick must be greater than 0" ∧ c.id ≠ 0 ∧ isLocalMsgTarget c.id = false ∧
        c.heartbeatTick = 0) ∨
      (e = "election tick must be greater than heartbeat tick" ∧ c.id ≠ 0 ∧ isLocalMsgTarget c.id = false ∧
        c.heartbeatTick ≠ 0 ∧ c.electionTick ≤ c.heartbeatTick) ∨
      (e = "max inflight messages must be greater than 0" ∧ c.id ≠ 0 ∧ isLocalMsgTarget c.id = false ∧
        c.heartbeatTick ≠ 0 ∧ c.heartbeatTick < c.electionTick ∧ c.maxInflightMsgs = 0) ∨
      (e = "max inflight bytes must be >= max message size" ∧ c.id ≠ 0 ∧ isLocalMsgTarget c.id = false ∧
        c.heartbeatTick ≠ 0 ∧ c.heartbeatTick < c.electionTick ∧ c.maxInflightMsgs ≠ 0 ∧
        c.maxInflightBytes ≠ 0 ∧ c.maxInflightBytes < c.maxSizePerMsg) ∨
      (e = "CheckQuorum must be enabled when ReadOnlyOption is ReadOnlyLeaseBased" ∧ c.id ≠ 0 ∧
        isLocalMsgTarget c.id = false ∧ c.heartbeatTick ≠ 0 ∧ c.heartbeatTick < c.electionTick ∧
        c.maxInflightMsgs ≠ 0 ∧ (c.maxInflightBytes = 0 ∨ c.maxSizePerMsg ≤ c.maxInflightBytes) ∧
        c.readOnlyOption = 1 ∧ c.checkQuorum = false) := by
  rw [validate_eq]
  by_cases h1 : c.id = 0
  · rw [if_pos h1]; simp only [Except.error.injEq]
    constructor
    · rintro rfl; simp [h1]
    · rintro (⟨rfl, _⟩ | ⟨_, h, _⟩ | ⟨_, h, _⟩ | ⟨_, h, _⟩ | ⟨_, h, _⟩ | ⟨_, h, _⟩ | ⟨_, h, _⟩)
      · rfl
      all_goals exact absurd h1 h
  rw [if_neg h1]
  by_cases h2 : isLocalMsgTarget c.id = true
  · rw [if_pos h2]; simp only [Except.error.injEq]
    constructor
    · rintro rfl; simp [h1, h2]
    · rintro (⟨_, h⟩ | ⟨rfl, _⟩ | ⟨_, _, h, _⟩ | ⟨_, _, h, _⟩ | ⟨_, _, h, _⟩ | ⟨_, _, h, _⟩ | ⟨_, _, h, _⟩)
      · exact absurd h h1
      · rfl
      all_goals (rw [h2] at h; cases h)
  rw [if_neg h2]
  have h2' : isLocalMsgTarget c.id = false := by simpa using h2
  by_cases h3 : c.heartbeatTick = 0
  · rw [if_pos h3]; simp only [Except.error.injEq]
    constructor
    · rintro rfl; simp [h1, h2', h3]
    · rintro (⟨_, h⟩ | ⟨_, _, h⟩ | ⟨rfl, _⟩ | ⟨_, _, _, h, _⟩ | ⟨_, _, _, h, _⟩ | ⟨_, _, _, h, _⟩ | ⟨_, _, _, h, _⟩)
      · exact absurd h h1
      · exact absurd h h2
      · rfl
      all_goals exact absurd h3 h
  rw [if_neg h3]
  by_cases h4 : c.electionTick ≤ c.heartbeatTick
  · rw [if_pos h4]; simp only [Except.error.injEq]
    constructor
    · rintro rfl; simp [h1, h2', h3, h4]
    · rintro (⟨_, h⟩ | ⟨_, _, h⟩ | ⟨_, _, _, h⟩ | ⟨rfl, _⟩ | ⟨_, _, _, _, h, _⟩ | ⟨_, _, _, _, h, _⟩ |
        ⟨_, _, _, _, h, _⟩)
      · exact absurd h h1
      · exact absurd h h2
      · exact absurd h h3
      · rfl
      all_goals omega
  rw [if_neg h4]
  have h4' : c.heartbeatTick < c.electionTick := by omega
  by_cases h5 : c.maxInflightMsgs = 0
  · rw [if_pos h5]; simp only [Except.error.injEq]
    constructor
    · rintro rfl; simp [h1, h2', h3, h4', h5]
    · rintro (⟨_, h⟩ | ⟨_, _, h⟩ | ⟨_, _, _, h⟩ | ⟨_, _, _, _, h⟩ | ⟨rfl, _⟩ | ⟨_, _, _, _, _, h, _⟩ |
        ⟨_, _, _, _, _, h, _⟩)
      · exact absurd h h1
      · exact absurd h h2
      · exact absurd h h3
      · exact absurd h h4
      · rfl
      all_goals exact absurd h5 h
  rw [if_neg h5]
  by_cases h6 : c.maxInflightBytes ≠ 0 ∧ c.maxInflightBytes < c.maxSizePerMsg
  · rw [if_pos h6]; simp only [Except.error.injEq]
    constructor
    · rintro rfl; simp [h1, h2', h3, h4', h5, h6.1, h6.2]
    · rintro (⟨_, h⟩ | ⟨_, _, h⟩ | ⟨_, _, _, h⟩ | ⟨_, _, _, _, h⟩ | ⟨_, _, _, _, _, h⟩ | ⟨rfl, _⟩ |
        ⟨_, _, _, _, _, _, h, _⟩)
      · exact absurd h h1
      · exact absurd h h2
      · exact absurd h h3
      · exact absurd h h4
      · exact absurd h h5
      · rfl
      · omega
  rw [if_neg h6]
  have h6' : c.maxInflightBytes = 0 ∨ c.maxSizePerMsg ≤ c.maxInflightBytes := by omega
  by_cases h7 : c.readOnlyOption = 1 ∧ c.checkQuorum = false
  · rw [if_pos h7]; simp only [Except.error.injEq]
    constructor
    · rintro rfl; simp [h1, h2', h3, h4', h5, h6', h7.1, h7.2]
    · rintro (⟨_, h⟩ | ⟨_, _, h⟩ | ⟨_, _, _, h⟩ | ⟨_, _, _, _, h⟩ | ⟨_, _, _, _, _, h⟩ |
        ⟨_, _, _, _, _, _, h1', h2''⟩ | ⟨rfl, _⟩)
      · exact absurd h h1
      · exact absurd h h2
      · exact absurd h h3
      · exact absurd h h4
      · exact absurd h h5
      · exact absurd ⟨h1', h2''⟩ h6
      · rfl
  rw [if_neg h7]
  simp only [reduceCtorEq, false_iff, not_or, not_and]
  refine ⟨fun _ => h1, fun _ _ => h2, fun _ _ _ => h3, fun _ _ _ _ => h4, fun _ _ _ _ _ => h5,
    fun _ _ _ _ _ _ a b => h6 ⟨a, b⟩, fun _ _ _ _ _ _ _ a b => h7 ⟨a, b⟩⟩

/-! ## newRaft -/

/-- the state `newRaft` starts its initialisation from -/
def newRaftInit (c : Config) (storage : MemoryStorage) (draws : List Nat) : Raft :=
  { cfg := { id := c.id, electionTimeout := c.electionTick, heartbeatTimeout := c.heartbeatTick,
             maxMsgSize := c.maxSizePerMsg, maxUncommittedSize := c.maxUncommittedEntriesSize,
             checkQuorum := c.checkQuorum, preVote := c.preVote,
             disableProposalForwarding := c.disableProposalForwarding,
             disableConfChangeValidation := c.disableConfChangeValidation,
             stepDownOnRemoval := c.stepDownOnRemoval },
    log := RaftLog.new storage c.maxCommittedSizePerReady, trk := Tracker.make c.maxInflightMsgs c.maxInflightBytes,
    readOnly := { option := c.readOnlyOption }, draws := draws }

/-- the initialisation sequence of `newRaft` -/
def newRaftAct (c : Config) (hs : Option HardState) (cs : ConfState) : M Unit := do
  let lastID ← Raft.lastEntryID
  match restoreConf { tracker := (← get).trk, lastIndex := lastID.index } cs with
  | .error e => throw s!"newRaft: {e}"
  | .ok (cfg, trk) =>
    let cs2 ← Raft.switchToConfig cfg trk
    if !cs.equivalent cs2 then throw "ConfStates not equivalent"
  match hs with
  | some h => if !h.isEmpty then Raft.loadState h
  | none => pure ()
  if c.applied > 0 then
    let l ← liftP ((← get).log.appliedTo c.applied 0)
    Raft.setLog l
  Raft.becomeFollower (← get).term 0

theorem newRaft_eq (c : Config) (storage : MemoryStorage) (draws : List Nat) :
    newRaft c storage draws =
      c.validate >>= fun c' =>
        (newRaftAct c' storage.initialState.1 storage.initialState.2).run (newRaftInit c' storage draws) >>=
          fun p => pure p.2 := rfl


/-- the state after `switchToConfig cfg trk` on a node that is not leader -/
def swCfg (r : Raft) (cfg : TrackerConfig) (trk : ProgressMap) : Raft :=
  { r with trk := { r.trk with cfg := cfg, progress := trk },
           isLearner := ((({ r.trk with cfg := cfg, progress := trk } : Tracker).getProgress r.cfg.id).map
             (·.isLearner)).getD false }

theorem switchToConfig_run_nonleader (cfg : TrackerConfig) (trk : ProgressMap) (r : Raft)
    (hs : r.state ≠ .leader) :
    (switchToConfig cfg trk).run r = .ok ((swCfg r cfg trk).trk.confState, swCfg r cfg trk) := by
  unfold switchToConfig
  have hb : (r.state == .leader) = false := by simpa using hs
  have hb' : (r.state != .leader) = true := by simp [hs]
  simp only [StateT.run_bind, StateT.run_get, StateT.run_pure, StateT.run_modify, StateT.run_set, P_pure_eq,
    P_ok_bind, M_run_throw, P_error_bind, hb, hb', Bool.and_false, Bool.false_eq_true, ↓reduceIte, Bool.true_or]
  rfl

theorem becomeFollower_run (t l : Nat) (r : Raft) :
    (becomeFollower t l).run r =
      match r.draws with
      | [] => .error "HARNESS: no election-timeout draw supplied"
      | d :: rest => .ok ((), { resetTo t r d rest with lead := l, state := .follower }) := by
  unfold becomeFollower
  simp only [StateT.run_bind, StateT.run_modify, P_pure_eq, P_ok_bind, reset_run]
  cases r.draws <;> rfl

/-- the tail of `newRaft`'s initialisation: load the HardState, fast-forward `applied`, become follower -/
def nrTail (c : Config) (hs : Option HardState) : M Unit := do
  match hs with
  | some h => if !h.isEmpty then Raft.loadState h
  | none => pure ()
  if c.applied > 0 then
    let l ← liftP ((← get).log.appliedTo c.applied 0)
    Raft.setLog l
  Raft.becomeFollower (← get).term 0

theorem newRaftAct_run (c : Config) (hs : Option HardState) (cs : ConfState) (r0 : Raft) (hst : r0.state ≠ .leader) :
    (newRaftAct c hs cs).run r0 =
      match r0.log.lastEntryID with
      | .error e => .error e
      | .ok id =>
        match restoreConf { tracker := r0.trk, lastIndex := id.index } cs with
        | .error e' => .error (toString "newRaft: " ++ toString e')
        | .ok (cfg, trk) =>
          if cs.equivalent (swCfg r0 cfg trk).trk.confState = false then .error "ConfStates not equivalent"
          else (nrTail c hs).run (swCfg r0 cfg trk) := by
  unfold newRaftAct Raft.lastEntryID
  simp only [StateT.run_bind, StateT.run_get, StateT.run_pure, StateT.run_modify, StateT.run_set, P_pure_eq, P_ok_bind, M_run_throw, P_error_bind, liftP_run]
  cases r0.log.lastEntryID with
  | error e => rfl
  | ok id =>
    simp only [P_ok_bind]
    cases restoreConf { tracker := r0.trk, lastIndex := id.index } cs with
    | error e' => simp only [StateT.run_bind, M_run_throw, P_error_bind]
    | ok p =>
      obtain ⟨cfg, trk⟩ := p
      simp only [StateT.run_bind, switchToConfig_run_nonleader cfg trk r0 hst, P_ok_bind]
      cases heq : cs.equivalent (swCfg r0 cfg trk).trk.confState with
      | false => simp only [Bool.not_false, ↓reduceIte, StateT.run_bind, M_run_throw, P_error_bind]
      | true =>
        simp only [Bool.not_true, Bool.false_eq_true, ↓reduceIte]
        rfl

/-- phase 3 of `newRaft`: load a non-empty HardState -/
def nrLoad (hs : Option HardState) (r : Raft) : Except String Raft :=
  match hs with
  | some h =>
    if h.isEmpty = true then .ok r
    else if h.commit < r.log.committed ∨ r.log.lastIndex < h.commit then
      .error "loadState: state.commit out of range"
    else .ok { r with log := { r.log with committed := h.commit }, term := h.term, vote := h.vote }
  | none => .ok r

/-- phase 4 of `newRaft`: `Config.Applied` -/
def nrApplied (c : Config) (r : Raft) : Except String Raft :=
  if c.applied = 0 then .ok r
  else match r.log.appliedTo c.applied 0 with
    | .error e => .error e
    | .ok l => .ok { r with log := l }

theorem nrTail_run (c : Config) (hs : Option HardState) (r : Raft) :
    (nrTail c hs).run r =
      match nrLoad hs r with
      | .error e => .error e
      | .ok r2 =>
        match nrApplied c r2 with
        | .error e => .error e
        | .ok r3 => (becomeFollower r3.term 0).run r3 := by
  have tail : ∀ r2 : Raft,
      (do
        if c.applied > 0 then
          let l ← liftP ((← get).log.appliedTo c.applied 0)
          Raft.setLog l
        Raft.becomeFollower (← get).term 0 : M Unit).run r2 =
      match nrApplied c r2 with
      | .error e => .error e
      | .ok r3 => (becomeFollower r3.term 0).run r3 := by
    intro r2
    unfold nrApplied
    by_cases ha : c.applied = 0
    · have ha' : ¬ c.applied > 0 := by omega
      rw [if_pos ha]
      simp only [ha', ↓reduceIte, StateT.run_bind, StateT.run_get, StateT.run_pure, P_pure_eq, P_ok_bind]
    · have ha' : c.applied > 0 := by omega
      rw [if_neg ha]
      simp only [ha', ↓reduceIte, StateT.run_bind, StateT.run_get, StateT.run_pure, P_pure_eq, P_ok_bind,
        liftP_run]
      cases r2.log.appliedTo c.applied 0 with
      | error e => rfl
      | ok l => rfl
  unfold nrTail nrLoad
  cases hs with
  | none => exact tail r
  | some h =>
    by_cases he : h.isEmpty = true
    · simp only [he, Bool.not_true, Bool.false_eq_true, ↓reduceIte]
      exact tail r
    · have he' : h.isEmpty = false := by simpa using he
      simp only [he', Bool.not_false, Bool.false_eq_true, ↓reduceIte, StateT.run_bind, loadState_run]
      by_cases hc : h.commit < r.log.committed ∨ r.log.lastIndex < h.commit
      · simp only [hc, ↓reduceIte, P_error_bind]
      · simp only [hc, ↓reduceIte, P_ok_bind]
        exact tail _

theorem nrLoad_error_iff (hs : Option HardState) (r : Raft) (e : String) :
    nrLoad hs r = .error e ↔
      e = "loadState: state.commit out of range" ∧
      ∃ h, hs = some h ∧ h.isEmpty = false ∧ (h.commit < r.log.committed ∨ r.log.lastIndex < h.commit) := by
  unfold nrLoad
  cases hs with
  | none => simp
  | some h =>
    simp only [Option.some.injEq, exists_eq_left']
    by_cases he : h.isEmpty = true
    · simp [he]
    · have he' : h.isEmpty = false := by simpa using he
      simp only [he', Bool.false_eq_true, ↓reduceIte, true_and]
      by_cases hc : h.commit < r.log.committed ∨ r.log.lastIndex < h.commit
      · simp only [hc, ↓reduceIte, Except.error.injEq, and_true]; exact eq_comm
      · simp [hc]

theorem nrLoad_ok_frame (hs : Option HardState) (r r2 : Raft) (h : nrLoad hs r = .ok r2) :
    r2.draws = r.draws ∧ r2.log.applied = r.log.applied ∧ r2.log.lastIndex = r.log.lastIndex ∧
    r2.log.committed =
      (match hs with | some h => if h.isEmpty = true then r.log.committed else h.commit | none => r.log.committed) := by
  unfold nrLoad at h
  cases hs with
  | none => injection h with h; subst h; exact ⟨rfl, rfl, rfl, rfl⟩
  | some hh =>
    simp only at h ⊢
    split at h
    · rename_i he; injection h with h; subst h; simp [he]
    · rename_i he
      split at h
      · cases h
      · injection h with h; subst h; simp [he]; rfl

theorem nrApplied_error_iff (c : Config) (r : Raft) (e : String) :
    nrApplied c r = .error e ↔
      e = "appliedTo: applied out of range" ∧ c.applied ≠ 0 ∧
      (r.log.committed < c.applied ∨ c.applied < r.log.applied) := by
  unfold nrApplied
  by_cases ha : c.applied = 0
  · simp [ha]
  · simp only [ha, ↓reduceIte, ne_eq, not_false_eq_true, true_and, RaftLog.appliedTo_eq]
    by_cases hc : r.log.committed < c.applied ∨ c.applied < r.log.applied
    · simp only [hc, ↓reduceIte, Except.error.injEq, and_true]; exact eq_comm
    · simp [hc]

theorem nrApplied_ok_frame (c : Config) (r r3 : Raft) (h : nrApplied c r = .ok r3) : r3.draws = r.draws := by
  unfold nrApplied at h
  split at h
  · injection h with h; subst h; rfl
  · split at h
    · cases h
    · injection h with h; subst h; rfl

theorem nrTail_error_iff (c : Config) (hs : Option HardState) (r : Raft) (e : String) :
    (nrTail c hs).run r = .error e ↔
      nrLoad hs r = .error e ∨
      ∃ r2, nrLoad hs r = .ok r2 ∧
        (nrApplied c r2 = .error e ∨
         ((∃ r3, nrApplied c r2 = .ok r3) ∧ r.draws = [] ∧
            e = "HARNESS: no election-timeout draw supplied")) := by
  rw [nrTail_run]
  cases h1 : nrLoad hs r with
  | error e1 => simp
  | ok r2 =>
    have hd2 := (nrLoad_ok_frame hs r r2 h1).1
    simp only [reduceCtorEq, Except.ok.injEq, exists_eq_left', false_or]
    cases h2 : nrApplied c r2 with
    | error e2 => simp
    | ok r3 =>
      have hd3 := nrApplied_ok_frame c r2 r3 h2
      simp only [reduceCtorEq, Except.ok.injEq, exists_eq', true_and, false_or, becomeFollower_run]
      rw [← hd2, ← hd3]
      cases r3.draws with
      | nil => simp [eq_comm]
      | cons d rest => simp

theorem newRaftInit_state (c : Config) (storage : MemoryStorage) (draws : List Nat) :
    (newRaftInit c storage draws).state ≠ .leader := by
  unfold newRaftInit; simp

/-- **newRaft**: every panic site, in evaluation order (`nrLoad`, `nrApplied` are characterised by
`nrLoad_error_iff`, `nrApplied_error_iff`) -/
theorem newRaft_error_iff (c : Config) (storage : MemoryStorage) (draws : List Nat) (e : String) :
    newRaft c storage draws = .error e ↔
      c.validate = .error e ∨
      ∃ c', c.validate = .ok c' ∧
        ((RaftLog.new storage c'.maxCommittedSizePerReady).lastEntryID = .error e ∨
         ∃ id, (RaftLog.new storage c'.maxCommittedSizePerReady).lastEntryID = .ok id ∧
           ((∃ e', restoreConf { tracker := Tracker.make c'.maxInflightMsgs c'.maxInflightBytes,
                                 lastIndex := id.index } storage.snapshot.conf = .error e' ∧
                e = "newRaft: " ++ e') ∨
            ∃ cfg trk, restoreConf { tracker := Tracker.make c'.maxInflightMsgs c'.maxInflightBytes,
                                     lastIndex := id.index } storage.snapshot.conf = .ok (cfg, trk) ∧
              ((storage.snapshot.conf.equivalent
                    (swCfg (newRaftInit c' storage draws) cfg trk).trk.confState = false ∧
                  e = "ConfStates not equivalent") ∨
               (storage.snapshot.conf.equivalent
                    (swCfg (newRaftInit c' storage draws) cfg trk).trk.confState = true ∧
                  (nrTail c' storage.hardState).run (swCfg (newRaftInit c' storage draws) cfg trk) =
                    .error e)))) := by
  rw [newRaft_eq]
  cases hv : c.validate with
  | error e1 => simp
  | ok c' =>
    simp only [P_ok_bind, reduceCtorEq, Except.ok.injEq, exists_eq_left', false_or]
    rw [newRaftAct_run _ _ _ _ (newRaftInit_state c' storage draws)]
    have hlog : (newRaftInit c' storage draws).log = RaftLog.new storage c'.maxCommittedSizePerReady := rfl
    have htrk : (newRaftInit c' storage draws).trk = Tracker.make c'.maxInflightMsgs c'.maxInflightBytes := rfl
    have hcs : storage.initialState.2 = storage.snapshot.conf := rfl
    have hhs : storage.initialState.1 = storage.hardState := rfl
    rw [hlog, htrk, hcs, hhs]
    cases hl : (RaftLog.new storage c'.maxCommittedSizePerReady).lastEntryID with
    | error e1 => simp
    | ok id =>
      simp only [reduceCtorEq, Except.ok.injEq, exists_eq_left', false_or]
      cases hr : restoreConf { tracker := Tracker.make c'.maxInflightMsgs c'.maxInflightBytes,
                               lastIndex := id.index } storage.snapshot.conf with
      | error e' =>
        simp only [P_error_bind, Except.error.injEq, exists_eq_left', reduceCtorEq, false_and, exists_false,
          or_false]
        constructor
        · intro h; rw [← h]; rfl
        · intro h; rw [h]; rfl
      | ok p =>
        obtain ⟨cfg, trk⟩ := p
        simp only [reduceCtorEq, false_and, exists_false, Except.ok.injEq, Prod.mk.injEq, false_or]
        constructor
        · intro h
          refine ⟨cfg, trk, ⟨rfl, rfl⟩, ?_⟩
          cases heq : storage.snapshot.conf.equivalent (swCfg (newRaftInit c' storage draws) cfg trk).trk.confState with
          | false =>
            rw [heq] at h
            simp only [↓reduceIte, P_error_bind, Except.error.injEq] at h
            exact Or.inl ⟨rfl, h.symm⟩
          | true =>
            rw [heq] at h
            simp only [Bool.true_eq_false, ↓reduceIte] at h
            refine Or.inr ⟨rfl, ?_⟩
            cases ht : (nrTail c' storage.hardState).run (swCfg (newRaftInit c' storage draws) cfg trk) with
            | error e2 => rw [ht] at h; simpa using h
            | ok q => rw [ht] at h; cases h
        · rintro ⟨cfg', trk', ⟨rfl, rfl⟩, h⟩
          rcases h with ⟨heq, rfl⟩ | ⟨heq, ht⟩
          · rw [heq]; rfl
          · rw [heq, ht]; rfl

end RaftVerif.C14
