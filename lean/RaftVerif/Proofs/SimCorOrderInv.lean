import RaftVerif.Proofs.SimCorOrderCluster
import RaftVerif.Proofs.SimInit
/-!
# Proofs/SimCorOrderInv — in a reachable cluster `applied = applying` at every node (between rounds)
-/
namespace RaftVerif.SimCorP
open Sim Refine Simulation

/-- a node built by `RawNode.new` with `cfg.applied = 0` has both cursors at the offset of its storage -/
theorem new_cursors {cfg : Config} {storage : MemoryStorage} {draws : List Nat} {rn : RawNode}
    (hs : storage.WF) (happ : cfg.applied = 0) (h : RawNode.new cfg storage draws = .ok rn) :
    cursors rn = (storage.offset, storage.offset) := by
  obtain ⟨_, _, _, h0, h1, h2, _⟩ := C08R.restart_first_range cfg storage draws rn hs h
  have := (h0 happ).1
  simp only [cursors, h1, h2, this]

theorem setNode_get {c : Cluster} {n k : Nat} {rk' rn : RawNode} (h : (c.setNode k rk').nodes n = some rn) :
    (n = k ∧ rn = rk') ∨ (n ≠ k ∧ c.nodes n = some rn) := by
  by_cases hk : n = k
  · left; subst hk
    simp only [Cluster.setNode, if_true] at h
    exact ⟨rfl, (Option.some.inj h).symm⟩
  · right
    simp only [Cluster.setNode, hk, if_false] at h
    exact ⟨hk, h⟩

/-- the round, for a node of a reachable cluster -/
theorem round_cursors_views {voters : List Id} {c0 c : Cluster} (S : Setting voters c0 c)
    {n : Nat} {rn rn' : RawNode} (hn : c.nodes n = some rn) {rd : Ready} {draws : List Nat}
    (hr : syncRound rn draws = .ok (rd, rn')) :
    (rd.committedEntries = [] → cursors rn' = cursors rn) ∧
    (∀ last, rd.committedEntries.getLast? = some last → cursors rn' = (last.index, last.index)) := by
  obtain ⟨s, _, hR⟩ := S.related (fun _ _ => 0)
  have hnode := hR.rs.ra.base.nodes n rn hn
  exact round_cursors hnode.sync hnode.adv hnode.inv.wf (hR.rs.settled n rn hn).1 (hR.rs.prom n rn hn) hr

theorem cursors_eq {voters : List Id} {c0 c : Cluster} (S : Setting voters c0 c)
    {n : Nat} {rn : RawNode} (hn : c.nodes n = some rn) : rn.raft.log.applied = rn.raft.log.applying := by
  obtain ⟨hs, h0, hne, hc, hr⟩ := S
  have key : ∀ {a b : RawNode}, cursors b = cursors a → a.raft.log.applied = a.raft.log.applying →
      b.raft.log.applied = b.raft.log.applying := by
    intro a b h e
    have h1 := congrArg Prod.fst h
    have h2 := congrArg Prod.snd h
    simp only [cursors] at h1 h2
    omega
  have pair : ∀ {b : RawNode} {x : Nat}, cursors b = (x, x) → b.raft.log.applied = b.raft.log.applying := by
    intro b x h
    have h1 := congrArg Prod.fst h
    have h2 := congrArg Prod.snd h
    simp only [cursors] at h1 h2
    omega
  induction hr generalizing n rn with
  | init =>
    obtain ⟨_, cfg, draws, _, _, _, happ, hnew⟩ := hc.2 n rn hn
    exact pair (new_cursors (initStorage_wf voters) happ hnew)
  | step hprev hstep ih =>
    have S' : Setting voters c0 _ := ⟨hs, h0, hne, hc, hprev⟩
    cases hstep with
    | deliver k rk rk' draws m e a b c d e' =>
      rcases setNode_get hn with ⟨rfl, rfl⟩ | ⟨_, h⟩
      · exact key (rawstep_cursors (covered_not_storage d).1 (covered_not_storage d).2 e') (ih a)
      · exact ih h
    | tick k rk rk' draws a b =>
      rcases setNode_get hn with ⟨rfl, rfl⟩ | ⟨_, h⟩
      · exact key (rawtick_cursors b) (ih a)
      · exact ih h
    | propose k rk rk' draws data e a b =>
      rcases setNode_get hn with ⟨rfl, rfl⟩ | ⟨_, h⟩
      · exact key (rstep_cursors (by simp) (by simp) b) (ih a)
      · exact ih h
    | campaign k rk rk' draws e a b =>
      rcases setNode_get hn with ⟨rfl, rfl⟩ | ⟨_, h⟩
      · exact key (rstep_cursors (by simp) (by simp) b) (ih a)
      · exact ih h
    | sync k rk rk' draws rd a b =>
      rcases setNode_get (c := _) hn with ⟨rfl, rfl⟩ | ⟨_, h⟩
      · obtain ⟨r1, r2⟩ := round_cursors_views S' a b
        cases hl : rd.committedEntries.getLast? with
        | none => exact key (r1 (List.getLast?_eq_none_iff.mp hl)) (ih a)
        | some last => exact pair (r2 last hl)
      · exact ih h
    | crash k rk rk' cfg draws a b c d e f g =>
      rcases setNode_get hn with ⟨rfl, rfl⟩ | ⟨_, h⟩
      · obtain ⟨s, _, hR⟩ := S'.related (fun _ _ => 0)
        exact pair (new_cursors (hR.rs.ra.base.nodes _ rk a).inv.wf.storage f g)
      · exact ih h

end RaftVerif.SimCorP
