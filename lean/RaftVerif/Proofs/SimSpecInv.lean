import RaftVerif.Props.SpecSafety
/-!
# A small invariant of the abstract protocol: term 0 means "nothing happened yet"

A version whose term is 0 has not voted and has committed nothing; every vote request in the soup
carries a term ≥ 1.
-/
namespace RaftVerif.Sim

open RaftVerif

/-- the new volatile version of the acting node: if its term is 0 then it has not voted -/
theorem volAfter_term_zero (cfg : Spec.Cfg) (s : Spec.State) (a : Spec.Action)
    (he : Spec.enabled cfg s a)
    (hv : ∀ v, v ∈ Spec.versions (s.nodes a.actor) → v.term = 0 → v.vote = 0)
    (hm : ∀ t c lt li, Spec.Msg.reqVote t c lt li ∈ s.msgs → 1 ≤ t)
    (h0 : (Spec.volAfter s a).term = 0) : (Spec.volAfter s a).vote = 0 := by
  have hvol := hv (s.nodes a.actor).vol (by simp [Spec.versions])
  have hdur := hv (s.nodes a.actor).dur (by simp [Spec.versions])
  cases a <;> simp only [Spec.volAfter, Spec.Action.actor] at h0 hvol hdur ⊢
  case campaign n => omega
  case grant n c lt li =>
    have := hm _ _ _ _ he.2.1
    omega
  case crash n => exact hdur h0
  case handleApp n t prev pt ents c =>
    cases hr : Spec.appendResult (s.nodes n).vol.log prev pt ents <;> rw [hr] at h0 <;>
      exact hvol h0
  case handleSnap n t pre =>
    by_cases h1 : pre.length ≤ (s.nodes n).vol.commit
    · simp only [h1, ↓reduceIte] at h0 ⊢; exact hvol h0
    · by_cases h2 : List.take pre.length (s.nodes n).vol.log = pre <;>
        simp only [h1, h2, ↓reduceIte] at h0 ⊢ <;> exact hvol h0
  all_goals exact hvol h0

/-- the step invariant: term 0 ⇒ no vote, and every vote request carries a term ≥ 1 -/
theorem spec_term_zero_vote {cfg : Spec.Cfg} (hcfg : cfg.OK) {s : Spec.State}
    (h : Spec.Reachable cfg s) :
    (∀ n v, v ∈ Spec.versions (s.nodes n) → v.term = 0 → v.vote = 0) ∧
    (∀ t c lt li, Spec.Msg.reqVote t c lt li ∈ s.msgs → 1 ≤ t) := by
  induction h with
  | init =>
    refine ⟨?_, ?_⟩
    · intro n v hv _
      simp only [Spec.State.init, Spec.versions, List.mem_cons, List.not_mem_nil, or_false,
        or_self] at hv
      subst hv; rfl
    · intro t c lt li hmem
      simp [Spec.State.init] at hmem
  | step s a hs he ih =>
    have hi := Spec.inv1_reachable cfg hcfg s hs
    refine ⟨?_, ?_⟩
    · intro n v hv h0
      rcases Spec.versions_step s a n v hv with hold | ⟨hn, _, hnew⟩
      · exact ih.1 n v hold h0
      · subst hnew
        exact volAfter_term_zero cfg s a he (ih.1 a.actor) ih.2 h0
    · intro t c lt li hmem
      rcases (Spec.mem_apply_msgs s a _).mp hmem with hnew | hold
      · cases a <;> simp only [Spec.newMsgs, List.mem_cons, List.not_mem_nil, or_false,
          Spec.Msg.reqVote.injEq, reduceCtorEq] at hnew
        case sendReqVote n =>
          have hc : (s.nodes n).role = .candidate := he
          have := (hi.nodes n).active_term (by rw [hc]; intro hx; cases hx)
          omega
      · exact ih.2 t c lt li hold

/-- a version whose term is 0 has not voted and has committed nothing; every vote request carries a term ≥ 1 -/
theorem spec_term_zero {cfg : Spec.Cfg} (hcfg : cfg.OK) {s : Spec.State} (h : Spec.Reachable cfg s) :
    (∀ n v, v ∈ Spec.versions (s.nodes n) → v.term = 0 → v.vote = 0 ∧ v.commit = 0) ∧
    (∀ t c lt li, Spec.Msg.reqVote t c lt li ∈ s.msgs → 1 ≤ t) := by
  have hz := spec_term_zero_vote hcfg h
  refine ⟨?_, hz.2⟩
  intro n v hv h0
  refine ⟨hz.1 n v hv h0, ?_⟩
  have hlog : v.log = [] := by
    cases hl : v.log with
    | nil => rfl
    | cons e es =>
      have := ((Spec.terms_monotone cfg hcfg s h n v hv).2 e (by rw [hl]; simp))
      omega
  have hc := Spec.commit_within_log cfg hcfg s h n v hv
  rw [hlog] at hc
  simpa using hc

end RaftVerif.Sim
