import RaftVerif.Proofs.RefineAbs
import RaftVerif.Proofs.StepSpecs
import RaftVerif.Proofs.LiveHup
/-!
# Proofs/RefineStep — how `Raft.step` is factored (used by every refinement lemma)

`Step` (raft.go:1085-1260) first compares `m.Term` with `r.Term`, then handles the message:

* `m.term > r.term`: for every message kind but the ones listed in `RaisesTerm` the node first becomes a
  follower of `m.term` (`becomeFollower(m.Term, lead)`, `lead = m.From` for MsgApp / MsgHeartbeat / MsgSnap,
  `None` otherwise) and then handles the message *exactly as a node whose term already is `m.term`*:
  `step_higher_term` / `step_higher_term_runs`.
* `m.term = r.term` (or the local term 0): every message type except MsgHup, MsgStorageAppendResp,
  MsgStorageApplyResp, MsgVote, MsgPreVote is dispatched on the role: `step_same_term_dispatch`.
-/
namespace RaftVerif.Refine
open Raft
set_option linter.unusedSimpArgs false

/-- the leader `Step` records when a message of a higher term makes the node a follower -/
def leadOf (m : Message) : Nat :=
  if m.typ = .app ∨ m.typ = .heartbeat ∨ m.typ = .snap then m.from else 0

/-- with CheckQuorum: the node heard from a leader within the last election timeout (raft.go:1097) -/
def inLease (r : Raft) : Bool :=
  r.cfg.checkQuorum && r.lead != 0 && decide (r.electionElapsed < r.cfg.electionTimeout)

/-- **the messages of a higher term for which `Step` calls `becomeFollower(m.Term, …)`**: every type except
* MsgPreVote (never changes the receiver's term),
* a granted MsgPreVoteResp (the term is raised only when the pre-election is won),
* a MsgVote received while in a leader's lease and not forced by a leadership transfer (ignored). -/
structure RaisesTerm (r : Raft) (m : Message) : Prop where
  gt : m.term > r.term
  notPreVote : m.typ ≠ .preVote
  notGrantedPreVoteResp : ¬ (m.typ = .preVoteResp ∧ m.reject = false)
  notInLease : m.typ = .vote → m.context = some campaignTransferCtx ∨ inLease r = false

instance (r : Raft) (m : Message) : Decidable (RaisesTerm r m) :=
  decidable_of_iff (m.term > r.term ∧ m.typ ≠ .preVote ∧ ¬ (m.typ = .preVoteResp ∧ m.reject = false) ∧
      (m.typ = .vote → m.context = some campaignTransferCtx ∨ inLease r = false))
    ⟨fun ⟨a, b, c, d⟩ => ⟨a, b, c, d⟩, fun ⟨a, b, c, d⟩ => ⟨a, b, c, d⟩⟩

/-- `Step` of a term-raising message = `becomeFollower(m.term, leadOf m)` followed by `Step` of the same
message in the resulting state (whose term is `m.term`) -/
theorem step_higher_term (fuel : Nat) (m : Message) (r : Raft) (hk : RaisesTerm r m)
    (Q : Option StepErr → Raft → Prop)
    (hQ : ∀ r1 e r', Runs (becomeFollower m.term (leadOf m)) r () r1 → Runs (step (fuel + 1) m) r1 e r' → Q e r') :
    Spec (step (fuel + 1) m) r Q := by
  rw [step]
  simp (config := {zeta := false}) only [wp]
  spec_jp (fun mid => Runs (becomeFollower m.term (leadOf m)) r () mid)
  · intro u mid hpre
    rw [Spec.iff_runs]
    intro e r' hr
    refine hQ mid e r' hpre ?_
    have hterm : mid.term = m.term := ((becomeFollower_spec _ _ r).elim hpre).1
    have h0 : (m.term == 0) = false := by
      have := hk.gt; simp; omega
    unfold Runs at hr ⊢
    rw [step]
    simp only [StateT.run_bind, StateT.run_get, P_pure_eq, P_ok_bind, h0, hterm, gt_iff_lt, Nat.lt_irrefl,
      Bool.false_eq_true, ↓reduceIte]
    exact hr
  · intro jp hjp
    have h0 : ¬ (m.term == 0) = true := by
      have := hk.gt; simp; omega
    have hgt := hk.gt
    have hbf : ∀ l, l = leadOf m → Spec (becomeFollower m.term l) r (fun u mid => Spec (jp u) mid Q) := by
      intro l hl; subst hl
      exact (Spec.runs _ _).mono (fun u mid h => hjp u mid h)
    simp only [wp, h0, hgt, false_implies, true_implies, not_false_eq_true, true_and, not_true_eq_false, and_true]
    have hpv : (m.typ == MsgType.preVote) = false := by simpa using hk.notPreVote
    have hpr : (m.typ == MsgType.preVoteResp && !m.reject) = false := by
      have := hk.notGrantedPreVoteResp
      cases hr : m.reject <;> simp_all
    have fin : ((m.typ == MsgType.app || m.typ == MsgType.heartbeat || m.typ == MsgType.snap) = true →
          Spec (becomeFollower m.term m.from) r fun b mid => Spec (jp b) mid Q) ∧
        (¬(m.typ == MsgType.app || m.typ == MsgType.heartbeat || m.typ == MsgType.snap) = true →
          Spec (becomeFollower m.term 0) r fun b mid => Spec (jp b) mid Q) := by
      refine ⟨fun ha => hbf _ ?_, fun ha => hbf _ ?_⟩
      · simp only [Bool.or_eq_true, beq_iff_eq] at ha
        unfold leadOf; rw [if_pos (by rcases ha with (h | h) | h <;> simp [h])]
      · simp only [Bool.or_eq_true, beq_iff_eq] at ha
        unfold leadOf; rw [if_neg (by intro h; exact ha (by rcases h with h | h | h <;> simp [h]))]
    simp only [hpv, hpr, Bool.false_eq_true, false_implies, true_and, not_false_eq_true, true_implies, Bool.or_false]
    refine ⟨fun hv => ⟨fun hl => ?_, fun _ => fin⟩, fun _ => fin⟩
    exfalso
    have hv' : m.typ = .vote := by simpa using hv
    simp only [Bool.and_eq_true, Bool.not_eq_true', beq_eq_false_iff_ne, ne_eq] at hl
    rcases hk.notInLease hv' with h | h
    · exact hl.1 h
    · unfold inLease at h
      obtain ⟨_, ⟨a, b⟩, c⟩ := hl
      rw [a, b, c] at h
      cases h

/-- what `becomeFollower(t, l)` with a *different* term leaves behind -/
structure FollowerOf (t l : Nat) (r r1 : Raft) : Prop where
  term : r1.term = t
  vote : r1.vote = 0
  lead : r1.lead = l
  state : r1.state = .follower
  log : r1.log = r.log
  cfg : r1.cfg = r.cfg
  msgs : r1.msgs = r.msgs
  maa : r1.msgsAfterAppend = r.msgsAfterAppend

theorem becomeFollower_higher {t l : Nat} {r r1 : Raft} (hne : r.term ≠ t)
    (h : (becomeFollower t l).run r = .ok ((), r1)) : FollowerOf t l r r1 := by
  obtain ⟨h1, h2, h3, h4, h5, h6, h7, h8⟩ := (becomeFollower_spec t l r).elim h
  rw [if_neg hne] at h2
  exact ⟨h1, h2, h3, h4, h5, h6, h7, h8⟩

/-- relational form of `step_higher_term` -/
theorem step_higher_term_runs (fuel : Nat) (m : Message) (r r' : Raft) (e : Option StepErr)
    (hk : RaisesTerm r m) (h : (step (fuel + 1) m).run r = .ok (e, r')) :
    ∃ r1, (becomeFollower m.term (leadOf m)).run r = .ok ((), r1) ∧ FollowerOf m.term (leadOf m) r r1 ∧
      (step (fuel + 1) m).run r1 = .ok (e, r') := by
  have hgt := hk.gt
  exact (step_higher_term fuel m r hk
    (fun e r' => ∃ r1, (becomeFollower m.term (leadOf m)).run r = .ok ((), r1) ∧
      FollowerOf m.term (leadOf m) r r1 ∧ (step (fuel + 1) m).run r1 = .ok (e, r'))
    (fun r1 _ _ h1 h2 => ⟨r1, h1, becomeFollower_higher (by omega) h1, h2⟩)).elim h

/-! ### dispatch at the node's own term -/

/-- the role-specific step function -/
def dispatch (fuel : Nat) (m : Message) (r : Raft) : M (Option StepErr) :=
  match r.state with
  | .leader => stepLeader fuel m
  | .candidate => stepCandidate fuel m
  | .preCandidate => stepCandidate fuel m
  | .follower => stepFollower fuel m

/-- the message types `Step` hands to `stepLeader` / `stepCandidate` / `stepFollower` -/
def Dispatched (t : MsgType) : Prop :=
  t ≠ .hup ∧ t ≠ .storageAppendResp ∧ t ≠ .storageApplyResp ∧ t ≠ .vote ∧ t ≠ .preVote

instance (t : MsgType) : Decidable (Dispatched t) := by unfold Dispatched; infer_instance

theorem step_same_term_dispatch (fuel : Nat) (m : Message) (r : Raft)
    (hterm : m.term = 0 ∨ m.term = r.term) (ht : Dispatched m.typ) :
    (step (fuel + 1) m).run r = (dispatch fuel m r).run r := by
  obtain ⟨t1, t2, t3, t4, t5⟩ := ht
  rw [step]
  unfold dispatch
  simp only [StateT.run_bind, StateT.run_get, P_pure_eq, P_ok_bind]
  by_cases h0 : m.term = 0
  · simp only [h0, beq_self_eq_true, ↓reduceIte, StateT.run_pure, P_pure_eq, P_ok_bind]
    cases hty : m.typ <;> simp only [hty, ne_eq, not_true_eq_false, reduceCtorEq] at t1 t2 t3 t4 t5 <;>
      simp only [StateT.run_bind, StateT.run_get, P_pure_eq, P_ok_bind] <;>
      cases r.state <;> rfl
  · have h0' : (m.term == 0) = false := by simpa using h0
    have he : m.term = r.term := by omega
    have h0r : (r.term == 0) = false := by rw [← he]; exact h0'
    simp only [h0', he, h0r, gt_iff_lt, Nat.lt_irrefl, Bool.false_eq_true, ↓reduceIte, StateT.run_pure,
      P_pure_eq, P_ok_bind]
    cases hty : m.typ <;> simp only [hty, ne_eq, not_true_eq_false, reduceCtorEq] at t1 t2 t3 t4 t5 <;>
      simp only [StateT.run_bind, StateT.run_get, P_pure_eq, P_ok_bind] <;>
      cases r.state <;> rfl

/-- a granted MsgPreVoteResp of a higher term is dispatched without touching the term -/
theorem step_granted_preVoteResp_dispatch (fuel : Nat) (m : Message) (r : Raft) (ht : m.typ = .preVoteResp)
    (hrej : m.reject = false) (hgt : m.term > r.term) :
    (step (fuel + 1) m).run r = (dispatch fuel m r).run r := by
  have h0 : (m.term == 0) = false := by simp; omega
  have hv : (MsgType.preVoteResp == MsgType.vote) = false := by decide
  have hp : (MsgType.preVoteResp == MsgType.preVote) = false := by decide
  rw [step]
  unfold dispatch
  simp only [StateT.run_bind, StateT.run_get, P_pure_eq, P_ok_bind, h0, ht, hrej, hgt, hv, hp, Bool.false_eq_true,
    ↓reduceIte, beq_self_eq_true, Bool.not_false, Bool.and_self, Bool.or_self]
  cases r.state <;> rfl

/-! ### small facts about `stamped` -/

theorem stamped_appResp (s : Raft) (to index : Nat) (reject : Bool) (hint lt : Nat) :
    stamped s { to := to, typ := .appResp, index := index, reject := reject, rejectHint := hint, logTerm := lt } =
      { typ := .appResp, to := to, «from» := s.cfg.id, term := s.term, index := index, reject := reject,
        rejectHint := hint, logTerm := lt } := by
  simp [stamped]

end RaftVerif.Refine
