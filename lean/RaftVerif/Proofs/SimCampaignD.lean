import RaftVerif.Proofs.SimCampaign
import RaftVerif.Proofs.SimDur
/-!
# Proofs/SimCampaignD — MsgHup / the election timer with the durable frame exposed (`RaftSimC`)

Unlike `sim_campaign`, the Spec's `sendReqVote n` is performed only when a MsgVote was actually queued (there is
another voter): every vote request of `n` that appears in the soup is backed by a queued MsgVote.
-/
namespace RaftVerif.Sim
open Refine Raft

/-- the invariant of the new candidate, for a Spec node `nd'` = node after Spec `campaign n` and a soup `msgs'` that
is the old one, possibly extended by the candidate's request (necessarily so when a MsgVote was queued) -/
theorem campaign_inv {val : Val} {voters : List Id} {n : Nat} {nd nd' : Spec.Node} {msgs msgs' : List Spec.Msg}
    {r r' : Raft} (hinv : RaftInv val voters n r nd msgs)
    (hp : CampaignPost val .election r r') (hst : StatPost r r') (habs : Abs val r' nd')
    (hpend : nd'.pending = nd.pending) (hdur : nd'.dur = nd.dur)
    (hvotes : nd'.vol.votes = (nd.vol.term + 1, n) :: nd.vol.votes) (hacks : nd'.vol.acks = nd.vol.acks)
    (hsub : ∀ x ∈ msgs, x ∈ msgs')
    (hnew : ∀ x ∈ msgs', x ∈ msgs ∨
      x = Spec.Msg.reqVote (r.term + 1) n (absLog val r).lastTerm (absLog val r).length)
    (hreq : voteReqs val .election r ≠ [] →
      Spec.Msg.reqVote (r.term + 1) n (absLog val r).lastTerm (absLog val r).length ∈ msgs') :
    RaftInv val voters n r' nd' msgs' := by
  have hn : n = r.cfg.id := hinv.st.id.symm
  have hl : absLog val r' = absLog val r := by unfold absLog; rw [hp.log]
  have hnl : r'.state ≠ .leader := by rw [hp.state]; simp
  exact {
    abs := habs
    st := hinv.st.campaign hp hst
    wf := by rw [hp.log]; exact hinv.wf
    unc := by rw [hp.log]; exact hinv.unc
    leadInv := fun h => absurd h hnl
    candVote := fun _ => hp.vote.trans hinv.st.id
    termPos := fun _ => by rw [hp.term]; exact Nat.succ_ne_zero _
    logLe := fun e he => by rw [hl] at he; rw [hp.term]; exact Nat.le_succ_of_le (hinv.logLe e he)
    candLt := fun _ e he => by rw [hl] at he; rw [hp.term]; exact Nat.lt_succ_of_le (hinv.logLe e he)
    pend := hpend.trans hinv.pend
    durV := fun p hp' => by
      rw [hvotes]; rw [hdur] at hp'
      exact List.mem_cons_of_mem _ (hinv.durV p hp')
    durA := fun p hp' => by
      rw [hacks]; rw [hdur] at hp'
      exact hinv.durA p hp'
    out := fun x hx => by
      rw [hp.msgs] at hx
      rcases List.mem_append.1 hx with hx | hx
      · exact (hinv.out x hx).mono hsub
      · have hne : voteReqs val .election r ≠ [] := fun h0 => by rw [h0] at hx; cases hx
        obtain ⟨h1, h2, h3, _, h5, h6, h7, _⟩ := mem_voteReqs hx
        unfold NetOK
        simp only [h1]
        refine ⟨by rw [h5]; exact Nat.succ_ne_zero _, by rw [h2, ← hn]; exact hinv.st.idnz,
          by rw [h2]; exact fun h => h3 h.symm, ?_⟩
        rw [h5, h2, h6, h7, ← hn]
        exact hreq hne
    prom := fun x hx => by
      rw [hp.maa] at hx
      rcases List.mem_append.1 hx with hx | hx
      · exact (hinv.prom x hx).mono (fun p h => by rw [hvotes]; exact List.mem_cons_of_mem _ h)
          (fun p h => by rw [hacks]; exact h)
      · obtain ⟨h1, h2, h3, h4, _⟩ := mem_ownVotes hx
        refine ⟨h2.trans hn.symm, by rw [h4]; exact Nat.succ_ne_zero _, ?_⟩
        simp only [h1]
        intro _
        rw [hvotes, h4, h3, ← hn, hinv.abs.term]
        exact List.mem_cons_self
    rvTerm := fun t lt li hx => by
      rw [hp.term]
      rcases hnew _ hx with hx | hx
      · exact Nat.le_succ_of_le (hinv.rvTerm t lt li hx)
      · injection hx with h1
        omega
    rvCov := fun _ => by
      unfold Spec.reqVotesCovered
      rw [List.all_eq_true]
      intro x hx
      cases x with
      | reqVote t' c' lt li =>
        rcases hnew _ hx with hx2 | hx1
        · by_cases hc : c' = n
          · rw [hc] at hx2
            have hle := hinv.rvTerm t' lt li hx2
            have : (t' == r'.term) = false := by
              rw [hp.term]
              simp only [beq_eq_false_iff_ne, ne_eq]
              omega
            simp [this]
          · have : (c' == n) = false := by simpa using hc
            simp [this]
        · injection hx1 with _ _ h3 h4
          subst h3 h4
          rw [hl]
          simp
      | _ => rfl
    votes := fun _ v hv => by
      rw [hp.votes] at hv
      simp [mapGet, Quorum.lookup] at hv
    selfVote := fun _ => by
      rw [hp.votes]
      simp [mapGet, Quorum.lookup]
    matchO := fun h => absurd h hnl
    matchS := fun h => absurd h hnl }

/-- the Spec node of `n` after `campaign n` alone -/
theorem campaign_node1 (s : Spec.State) (n : Nat) :
    let nd' := (Spec.apply s (.campaign n)).nodes n
    nd'.pending = (s.nodes n).pending ∧ nd'.dur = (s.nodes n).dur ∧
    nd'.vol.votes = ((s.nodes n).vol.term + 1, n) :: (s.nodes n).vol.votes ∧
    nd'.vol.acks = (s.nodes n).vol.acks := by
  simp [Spec.apply, Spec.setNode]

/-- **a real election** with the durable frame: Spec `campaign n`, followed by `sendReqVote n` iff a MsgVote
was queued -/
theorem simC_campaign {val : Val} {voters : List Id} {n : Nat} {s : Spec.State} {r r' : Raft}
    (hinv : RaftInv val voters n r (s.nodes n) s.msgs)
    (hp : CampaignPost val .election r r') (hst : StatPost r r') : RaftSimC val voters n s r' := by
  have hn : n = r.cfg.id := hinv.st.id.symm
  obtain ⟨hen, habs1, hen2, habs, hmsgs, _⟩ :=
    campaign_abs val (cfgOf voters) s n .election r r' hinv.abs hn hp
  have hen1 := hen (by rw [← hn]; exact hinv.st.idnz)
  by_cases hv : voteReqs val .election r = []
  · -- sole voter: no request leaves
    obtain ⟨hpend, hdur, hvotes, hacks⟩ := campaign_node1 s n
    have hm : (Spec.apply s (.campaign n)).msgs = s.msgs := (apply_campaign_rest s n).1
    refine ⟨[.campaign n], _, .single hen1, by simp [Spec.Action.actor], ?_, hdur, ?_⟩
    · rw [hm]
      exact campaign_inv hinv hp hst habs1 hpend hdur hvotes hacks (fun _ h => h) (fun _ h => Or.inl h)
        (fun h => absurd hv h)
    · intro t lt li hx
      rw [hm] at hx
      exact Or.inl hx
  · obtain ⟨hpend, hdur, hvotes, hacks⟩ := campaign_node s n
    refine ⟨[.campaign n, .sendReqVote n], _, .cons hen1 (.single hen2), by simp [Spec.Action.actor], ?_, hdur, ?_⟩
    · rw [hmsgs]
      exact campaign_inv hinv hp hst habs hpend hdur hvotes hacks (fun _ h => List.mem_cons_of_mem _ h)
        (fun x h => (List.mem_cons.1 h).symm) (fun _ => List.mem_cons_self)
    · intro t lt li hx
      rw [hmsgs] at hx
      rcases List.mem_cons.1 hx with hx | hx
      · right
        obtain ⟨x, hxm⟩ := List.exists_mem_of_ne_nil _ hv
        obtain ⟨h1, _, _, _, h5, _⟩ := mem_voteReqs hxm
        refine ⟨x, by rw [hp.msgs]; exact List.mem_append_right _ hxm, h1, ?_⟩
        injection hx with ht
        rw [h5, ht]
      · exact Or.inl hx

set_option linter.unusedVariables false in
/-- **MsgHup** (`RawNode.campaign`): a real election (no PreVote), or nothing -/
theorem simC_hup {val : Val} {voters : List Id} {n : Nat} {s : Spec.State} {r r' : Raft} {m : Message}
    {e : Option StepErr} {fuel : Nat} (hinv : RaftInv val voters n r (s.nodes n) s.msgs)
    (hreach : Spec.Reachable (cfgOf voters) s)
    (ht : m.typ = .hup) (h0 : m.term = 0)
    (h : (Raft.step (fuel + 1) m).run r = .ok (e, r')) : RaftSimC val voters n s r' := by
  by_cases hl : r.state = .leader
  · obtain ⟨rfl, _⟩ := step_hup_noop fuel m r r' e ht h0 (Or.inl hl) h
    exact (RaftSimD.refl hinv).toC
  cases hpb : Live.promotableB r with
  | false =>
    obtain ⟨rfl, _⟩ := step_hup_noop fuel m r r' e ht h0 (Or.inr (Or.inl hpb)) h
    exact (RaftSimD.refl hinv).toC
  | true =>
    cases hu : hasUnappliedConfChanges.run r with
    | error err =>
      rw [Live.step_hup_run fuel m r ht h0, Live.hup_run, if_neg hl, if_neg (by rw [hpb]; simp), hu] at h
      simp [bind, Except.bind] at h
    | ok p =>
      obtain ⟨b, r1⟩ := p
      have hr1 : r1 = r := (hasUnappliedConfChanges_same r).elim hu
      subst hr1
      cases b with
      | true =>
        obtain ⟨rfl, _⟩ := step_hup_noop fuel m r1 r' e ht h0 (Or.inr (Or.inr hu)) h
        exact (RaftSimD.refl hinv).toC
      | false =>
        obtain ⟨_, hp⟩ := step_hup_refine val fuel m r1 r' e ht h0 hinv.st.pv hl hpb hu hinv.wf hinv.unc h
        rw [Live.step_hup_run fuel m r1 ht h0, hinv.st.pv, if_neg (by simp), hup_run_campaign _ r1 hl hpb hu] at h
        obtain ⟨p, hc, h'⟩ := bind_eq_ok.1 h
        injection h' with h'
        injection h' with _ e2
        subst e2
        exact simC_campaign hinv hp ((campaign_stat .election (by simp) r1).elim hc)

/-- **tick of a non-leader** (`tickElection`): idle, or the election timer fires = MsgHup -/
theorem simC_tick_nonleader {val : Val} {voters : List Id} {n : Nat} {s : Spec.State} {r r' : Raft}
    (hinv : RaftInv val voters n r (s.nodes n) s.msgs)
    (hreach : Spec.Reachable (cfgOf voters) s) (hs : r.state ≠ .leader)
    (h : Raft.tick.run r = .ok ((), r')) : RaftSimC val voters n s r' := by
  rw [Next.tick_run_nonleader r hs] at h
  by_cases hf : Live.promotableB r = true ∧ r.randomizedElectionTimeout ≤ r.electionElapsed + 1
  · rw [Live.tickElection_run_fire r hf.1 hf.2] at h
    obtain ⟨p, hc, h'⟩ := bind_eq_ok.1 h
    obtain ⟨e, r2⟩ := p
    injection h' with h'
    injection h' with _ e2
    subst e2
    have hinv0 : RaftInv val voters n { r with electionElapsed := 0 } (s.nodes n) s.msgs :=
      hinv.congr rfl rfl rfl rfl rfl rfl rfl rfl rfl rfl rfl rfl
    exact simC_hup (fuel := 2) hinv0 hreach rfl rfl hc
  · have hidle : Live.promotableB r = false ∨ r.electionElapsed + 1 < r.randomizedElectionTimeout := by
      cases hpb : Live.promotableB r with
      | false => exact Or.inl rfl
      | true =>
        right
        have : ¬ r.randomizedElectionTimeout ≤ r.electionElapsed + 1 := fun h2 => hf ⟨hpb, h2⟩
        omega
    rw [Live.tickElection_run_idle r hidle] at h
    injection h with h
    injection h with _ e2
    subst e2
    have hinv1 : RaftInv val voters n { r with electionElapsed := r.electionElapsed + 1 } (s.nodes n) s.msgs :=
      hinv.congr rfl rfl rfl rfl rfl rfl rfl rfl rfl rfl rfl rfl
    exact (RaftSimD.refl hinv1).toC

end RaftVerif.Sim
