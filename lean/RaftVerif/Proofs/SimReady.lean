import RaftVerif.Proofs.SimRound
import RaftVerif.Proofs.SimStorage
/-!
# Proofs/SimReady — the environment step `syncRound` (sync-mode `Ready`; persist; `Advance`) is simulated by
Spec `write; persist`, one `sendVote` / `sendAck` per released promise, and the actions of the node's own
promises stepped by `Advance`.
-/
namespace RaftVerif.Sim
open Refine
set_option linter.unusedSimpArgs false

/-! ### the durable version only grows -/

theorem nodeOK_reachable {cfg : Spec.Cfg} {s : Spec.State} (h : Spec.Reachable cfg s) :
    ∀ n, Spec.NodeOK (s.nodes n) := by
  induction h with
  | init => exact (Spec.inv1_init cfg).nodes
  | step s a _ he ih =>
    intro n
    by_cases hn : n = a.actor
    · subst hn; rw [Spec.apply_nodes_self]; exact Spec.nodeOK_step cfg s a (ih _) he
    · rw [Spec.apply_nodes_ne _ _ _ hn]; exact ih n

theorem RunL.dur_le {cfg : Spec.Cfg} {s s' : Spec.State} {as : List Spec.Action} (h : RunL cfg s as s')
    (hs : Spec.Reachable cfg s) (m : Nat) : Spec.VerLe (s.nodes m).dur (s'.nodes m).dur := by
  induction h with
  | nil s => exact Spec.VerLe.refl _
  | cons he _ ih =>
    exact (Spec.dur_step _ _ m (nodeOK_reachable hs m)).2.trans (ih (.step _ _ hs he))

theorem hasDurAck_of_mem {acks : List (Nat × Nat)} {t k : Nat} (h : (t, k) ∈ acks) :
    Spec.hasDurAck acks t k = true := by
  unfold Spec.hasDurAck
  rw [List.any_eq_true]
  exact ⟨(t, k), h, by simp⟩

theorem hasDurAck_mono {acks acks' : List (Nat × Nat)} (hsub : ∀ p ∈ acks, p ∈ acks') {t k : Nat}
    (h : Spec.hasDurAck acks t k = true) : Spec.hasDurAck acks' t k = true := by
  unfold Spec.hasDurAck at h ⊢
  rw [List.any_eq_true] at h ⊢
  obtain ⟨x, hx, hp⟩ := h
  exact ⟨x, hsub x hx, hp⟩

/-! ### Spec `write; persist` -/

/-- making the volatile version durable keeps the invariant -/
theorem RaftInv.persisted {val : Val} {voters : List Id} {n : Nat} {r : Raft} {nd : Spec.Node}
    {msgs : List Spec.Msg} (h : RaftInv val voters n r nd msgs) :
    RaftInv val voters n r { nd with dur := nd.vol, pending := [] } msgs where
  abs := ⟨h.abs.term, h.abs.vote, h.abs.commit, h.abs.log, h.abs.role⟩
  st := h.st
  wf := h.wf
  unc := h.unc
  leadInv := h.leadInv
  candVote := h.candVote
  termPos := h.termPos
  logLe := h.logLe
  candLt := h.candLt
  pend := rfl
  durV := fun _ hp => hp
  durA := fun _ hp => hp
  out := h.out
  prom := h.prom
  rvTerm := h.rvTerm
  rvCov := h.rvCov
  votes := fun hc v hv => (h.votes hc v hv).imp (fun h' => ⟨h'.1, h.durV _ h'.2⟩) id
  selfVote := h.selfVote
  matchO := h.matchO
  matchS := fun hl pr c hp hc ht => hasDurAck_mono h.durA (h.matchS hl pr c hp hc ht)

theorem write_persist_run (cfg : Spec.Cfg) (s : Spec.State) (n : Nat) (hp : (s.nodes n).pending = []) :
    ∃ s1, RunL cfg s [.write n, .persist n] s1 ∧
      s1.nodes n = { s.nodes n with dur := (s.nodes n).vol, pending := [] } ∧ s1.msgs = s.msgs := by
  refine ⟨_, .cons (a := .write n) trivial (.single (a := .persist n) ?_), ?_, ?_⟩
  · simp [Spec.enabled, Spec.apply, Spec.setNode, hp]
  · simp [Spec.apply, Spec.setNode, hp]
  · simp [Spec.apply, Spec.setNode, hp]

/-! ### releasing the promises: Spec `sendVote` / `sendAck` -/

/-- the promise queue holds only promises; the self-addressed ones are the node's own granted vote (`campaign`)
and its acknowledgements of its own entries (`appendEntry`) -/
def MaaOK (n : Nat) (r : Raft) : Prop :=
  ∀ m ∈ r.msgsAfterAppend, isPromise m.typ = true ∧
    (m.to = n → (m.typ = .voteResp ∨ m.typ = .appResp) ∧ m.reject = false)

/-- a run of node `n` that leaves all nodes alone and adds no vote request -/
def Released (cfg : Spec.Cfg) (n : Nat) (s s' : Spec.State) : Prop :=
  ∃ as, RunL cfg s as s' ∧ (∀ a ∈ as, a.actor = n) ∧ s'.nodes = s.nodes ∧
    (∀ x ∈ s.msgs, x ∈ s'.msgs) ∧
    (∀ t c lt li, Spec.Msg.reqVote t c lt li ∈ s'.msgs → Spec.Msg.reqVote t c lt li ∈ s.msgs)

theorem Released.refl (cfg : Spec.Cfg) (n : Nat) (s : Spec.State) : Released cfg n s s :=
  ⟨[], .nil s, by simp, rfl, fun _ h => h, fun _ _ _ _ h => h⟩

theorem Released.trans {cfg : Spec.Cfg} {n : Nat} {a b c : Spec.State} (h1 : Released cfg n a b)
    (h2 : Released cfg n b c) : Released cfg n a c := by
  obtain ⟨as, r1, a1, n1, m1, v1⟩ := h1
  obtain ⟨bs, r2, a2, n2, m2, v2⟩ := h2
  refine ⟨as ++ bs, r1.append r2, ?_, n2.trans n1, fun x hx => m2 x (m1 x hx),
    fun t c lt li hx => v1 t c lt li (v2 t c lt li hx)⟩
  intro x hx
  rcases List.mem_append.1 hx with h | h
  · exact a1 x h
  · exact a2 x h

theorem release_one {val : Val} (cfg : Spec.Cfg) (s : Spec.State) (n : Nat) (p : Message)
    (hp : PromOK n (s.nodes n).dur p) (hpt : isPromise p.typ = true) (hto : p.to ≠ n) :
    ∃ s', Released cfg n s s' ∧ NetOK val s'.msgs p := by
  obtain ⟨hfrom, hterm, hprom⟩ := hp
  have hft : p.from ≠ p.to := by rw [hfrom]; exact fun h => hto h.symm
  cases ht : p.typ <;> simp [isPromise, ht] at hpt
  case voteResp =>
    simp only [ht] at hprom
    by_cases hr : p.reject = false
    · have hen : Spec.enabled cfg s (.sendVote n p.term p.to) := hprom hr
      refine ⟨_, ⟨[.sendVote n p.term p.to], .single hen, by simp [Spec.Action.actor], rfl,
        fun x hx => List.mem_cons_of_mem _ hx, ?_⟩, ?_⟩
      · intro t c lt li hx
        simpa [Spec.apply] using hx
      · unfold NetOK
        simp only [ht]
        exact ⟨hterm, hft, fun _ => by rw [hfrom]; exact List.mem_cons_self⟩
    · refine ⟨s, Released.refl cfg n s, ?_⟩
      unfold NetOK
      simp only [ht]
      exact ⟨hterm, hft, fun h => absurd h hr⟩
  case appResp =>
    simp only [ht] at hprom
    by_cases hr : p.reject = false
    · have hen : Spec.enabled cfg s (.sendAck n p.term p.index) := hprom hr
      refine ⟨_, ⟨[.sendAck n p.term p.index], .single hen, by simp [Spec.Action.actor], rfl,
        fun x hx => List.mem_cons_of_mem _ hx, ?_⟩, ?_⟩
      · intro t c lt li hx
        simpa [Spec.apply] using hx
      · unfold NetOK
        simp only [ht]
        refine ⟨hterm, hft, fun _ => Or.inr ?_⟩
        unfold Spec.hasAck
        rw [List.any_eq_true]
        exact ⟨.ack p.term n p.index, List.mem_cons_self, by simp [hfrom]⟩
    · refine ⟨s, Released.refl cfg n s, ?_⟩
      unfold NetOK
      simp only [ht]
      exact ⟨hterm, hft, fun h => absurd h hr⟩
  case preVoteResp =>
    refine ⟨s, Released.refl cfg n s, ?_⟩
    unfold NetOK
    simp only [ht]

theorem Released.nodes {cfg : Spec.Cfg} {n : Nat} {s s' : Spec.State} (h : Released cfg n s s') :
    s'.nodes = s.nodes := by
  obtain ⟨_, _, _, h3, _⟩ := h; exact h3

theorem Released.sub {cfg : Spec.Cfg} {n : Nat} {s s' : Spec.State} (h : Released cfg n s s') :
    ∀ x ∈ s.msgs, x ∈ s'.msgs := by
  obtain ⟨_, _, _, _, h4, _⟩ := h; exact h4

/-- one `sendVote` / `sendAck` per non-rejecting durable promise addressed to another node -/
theorem release_all {val : Val} (cfg : Spec.Cfg) (n : Nat) (ps : List Message) (s : Spec.State)
    (hp : ∀ p ∈ ps, PromOK n (s.nodes n).dur p ∧ isPromise p.typ = true) :
    ∃ s', Released cfg n s s' ∧ ∀ p ∈ ps, p.to ≠ n → NetOK val s'.msgs p := by
  induction ps generalizing s with
  | nil => exact ⟨s, Released.refl cfg n s, by simp⟩
  | cons p ps ih =>
    have hps : ∀ s1 : Spec.State, s1.nodes = s.nodes →
        ∀ q ∈ ps, PromOK n (s1.nodes n).dur q ∧ isPromise q.typ = true := by
      intro s1 h1 q hq
      rw [h1]; exact hp q (List.mem_cons_of_mem _ hq)
    by_cases hto : p.to = n
    · obtain ⟨s', hrel, hok⟩ := ih s (hps s rfl)
      refine ⟨s', hrel, ?_⟩
      intro q hq hqn
      rcases List.mem_cons.1 hq with rfl | hq
      · exact absurd hto hqn
      · exact hok q hq hqn
    · obtain ⟨hpp, hpt⟩ := hp p List.mem_cons_self
      obtain ⟨s1, hrel1, hok1⟩ := release_one (val := val) cfg s n p hpp hpt hto
      obtain ⟨s', hrel, hok⟩ := ih s1 (hps s1 hrel1.nodes)
      refine ⟨s', hrel1.trans hrel, ?_⟩
      intro q hq hqn
      rcases List.mem_cons.1 hq with rfl | hq
      · exact hok1.mono hrel.sub
      · exact hok q hq hqn

/-! ### the node's own promises, stepped by `Advance` -/

/-- what the step of a node's own promise leaves alone: the term, storage, the cursors of `unstable` (entries may
be appended: `becomeLeader`); new self-addressed promises are again own votes / acknowledgements -/
structure SelfFrame (n : Nat) (r r' : Raft) : Prop where
  term : r'.term = r.term
  storage : r'.log.storage = r.log.storage
  snap : r'.log.unstable.snapshot = r.log.unstable.snapshot
  offset : r'.log.unstable.offset = r.log.unstable.offset
  oip : r'.log.unstable.offsetInProgress = r.log.unstable.offsetInProgress
  ents : ∃ extra, r'.log.unstable.entries = r.log.unstable.entries ++ extra
  maa : MaaOK n r → MaaOK n r'

theorem SelfFrame.refl (n : Nat) (r : Raft) : SelfFrame n r r :=
  ⟨rfl, rfl, rfl, rfl, rfl, ⟨[], by simp⟩, id⟩

theorem SelfFrame.trans {n : Nat} {a b c : Raft} (h1 : SelfFrame n a b) (h2 : SelfFrame n b c) : SelfFrame n a c := by
  obtain ⟨x1, hx1⟩ := h1.ents
  obtain ⟨x2, hx2⟩ := h2.ents
  exact ⟨h2.term.trans h1.term, h2.storage.trans h1.storage, h2.snap.trans h1.snap, h2.offset.trans h1.offset,
    h2.oip.trans h1.oip, ⟨x1 ++ x2, by rw [hx2, hx1, List.append_assoc]⟩, fun h => h2.maa (h1.maa h)⟩

/-- frame companion of `SelfStepOK`: the same steps leave the storage side of the node alone (`SelfFrame`) -/
def SelfStepFrame (val : Val) (voters : List Id) (n : Nat) : Prop :=
  ∀ (s : Spec.State) (r r' : Raft) (m : Message) (e : Option StepErr),
    RaftInv val voters n r (s.nodes n) s.msgs → Spec.Reachable (cfgOf voters) s →
    (m.typ = .voteResp ∨ m.typ = .appResp) → m.from = n → m.to = n → m.reject = false →
    InOK val n (s.nodes n) s.msgs m →
    (Raft.step Raft.stepFuel m).run r = .ok (e, r') → SelfFrame n r r'

/-- a self-addressed promise recorded in a version below the durable one may be stepped -/
theorem inOK_of_prom {val : Val} {n : Nat} {nd : Spec.Node} {msgs : List Spec.Msg} {m : Message} {dur0 : Spec.Ver}
    (ht : m.typ = .voteResp ∨ m.typ = .appResp) (hto : m.to = n) (hp : PromOK n dur0 m)
    (hd : Spec.VerLe dur0 nd.dur) : InOK val n nd msgs m := by
  obtain ⟨hfrom, hterm, hprom⟩ := hp
  unfold InOK
  rcases ht with ht | ht
  · simp only [ht] at hprom ⊢
    exact ⟨hterm, fun hr => Or.inl ⟨hfrom, hd.votes_sub _ (by rw [← hto]; exact hprom hr)⟩⟩
  · simp only [ht] at hprom ⊢
    exact ⟨hterm, fun hr => (hprom hr).imp id fun h => Or.inl ⟨hfrom, hasDurAck_of_mem (hd.acks_sub _ h)⟩⟩

theorem runSteps_append (as bs : List Message) (r : Raft) :
    Next.runSteps (as ++ bs) r = Next.runSteps as r >>= Next.runSteps bs := by
  induction as generalizing r with
  | nil => rfl
  | cons a as ih =>
    simp only [List.cons_append, Next.runSteps]
    cases (Raft.step Raft.stepFuel a).run r with
    | error e => rfl
    | ok p => simp only [P_ok_bind]; exact ih p.2

/-- **the self-addressed promises** of a `Ready`, stepped one after the other by `Advance` -/
theorem self_steps {val : Val} {voters : List Id} {n : Nat} (hself : SelfStepOK val voters n)
    (hframe : SelfStepFrame val voters n) (dur0 : Spec.Ver) (ms : List Message)
    (hms : ∀ m ∈ ms, (m.typ = .voteResp ∨ m.typ = .appResp) ∧ m.to = n ∧ m.reject = false ∧ PromOK n dur0 m)
    (s : Spec.State) (r r' : Raft) (hinv : RaftInv val voters n r (s.nodes n) s.msgs)
    (hreach : Spec.Reachable (cfgOf voters) s) (hdur : Spec.VerLe dur0 (s.nodes n).dur)
    (hrun : Next.runSteps ms r = .ok r') :
    ∃ as s', RunL (cfgOf voters) s as s' ∧ (∀ a ∈ as, a.actor = n) ∧
      RaftInv val voters n r' (s'.nodes n) s'.msgs ∧ SelfFrame n r r' := by
  induction ms generalizing s r with
  | nil =>
    simp only [Next.runSteps, Except.ok.injEq] at hrun
    subst hrun
    exact ⟨[], s, .nil s, by simp, hinv, SelfFrame.refl n r⟩
  | cons m ms ih =>
    simp only [Next.runSteps] at hrun
    obtain ⟨⟨e, r1⟩, hstep, hrest⟩ := bind_eq_ok.1 hrun
    obtain ⟨ht, hto, hrej, hprom⟩ := hms m List.mem_cons_self
    have hin : InOK val n (s.nodes n) s.msgs m := inOK_of_prom ht hto hprom hdur
    obtain ⟨as1, s1, hrun1, hact1, hinv1⟩ := hself s r r1 m e hinv hreach ht hprom.1 hto hrej hin hstep
    have hfr1 := hframe s r r1 m e hinv hreach ht hprom.1 hto hrej hin hstep
    obtain ⟨as2, s2, hrun2, hact2, hinv2, hfr2⟩ := ih (fun x hx => hms x (List.mem_cons_of_mem _ hx)) s1 r1 hinv1
      (hrun1.reachable hreach) (hdur.trans (hrun1.dur_le hreach n)) hrest
    refine ⟨as1 ++ as2, s2, hrun1.append hrun2, ?_, hinv2, hfr1.trans hfr2⟩
    intro a ha
    rcases List.mem_append.1 ha with h | h
    · exact hact1 a h
    · exact hact2 a h

/-! ### the round -/

/-- the invariant of a node between two rounds of the sync-mode application loop: `NodeInv`, nothing pending in
`unstable`, and a well-formed promise queue -/
structure SyncInv (val : Val) (voters : List Id) (n : Nat) (rn : RawNode) (nd : Spec.Node)
    (msgs : List Spec.Msg) : Prop where
  node : NodeInv val voters n rn nd msgs
  settled : LogSettled rn.raft.log
  maa : MaaOK n rn.raft

/-- **the model side of `syncRound`**: the `Ready`, the node `r2` after the storage write (same as before up to the
emptied queues and the log cursors), and the run of `stepsOnAdvance` -/
theorem syncRound_model {val : Val} {voters : List Id} {n : Nat} {rn rn' : RawNode} {rd : Ready}
    {draws : List Nat} {nd0 : Spec.Node} {msgs0 : List Spec.Msg} (hnode : NodeInv val voters n rn nd0 msgs0)
    (hset : LogSettled rn.raft.log) (h : syncRound rn draws = .ok (rd, rn')) :
    ∃ eid r2 r3,
      Next.runSteps (Next.soaOf rn.raft eid rd.committedEntries) r2 = .ok r3 ∧
      rd.messages = rn.raft.msgs ++ rn.raft.msgsAfterAppend.filter (fun m => m.to != rn.raft.cfg.id) ∧
      (rn.raft.log.hasNextOrInProgressUnstableEnts = true → rn.raft.log.lastEntryID = .ok eid) ∧
      Persisted rn.raft.log r2.log ∧ r2.term = rn.raft.term ∧ r2.msgsAfterAppend = [] ∧
      (r2.state = rn.raft.state ∧ r2.trk = rn.raft.trk ∧ r2.msgs = [] ∧ r2.cfg = rn.raft.cfg) ∧
      (∀ nd msgs, RaftInv val voters n rn.raft nd msgs → RaftInv val voters n r2 nd msgs) ∧
      rn'.raft = r3 ∧ rn'.async = false ∧ rn'.stepsOnAdvance = [] := by
  have hI := hnode.inv
  unfold syncRound at h
  obtain ⟨⟨rd0, rn1⟩, hready, h⟩ := bind_eq_ok.1 h
  dsimp only at h
  obtain ⟨rn2, hpers, h⟩ := bind_eq_ok.1 h
  obtain ⟨rn3, hadv, h⟩ := bind_eq_ok.1 h
  simp only [pure, Except.pure, Except.ok.injEq, Prod.mk.injEq] at h
  obtain ⟨e1, e2⟩ := h
  subst e1 e2
  obtain ⟨eid, l2, hlast, hmsgs, hent, hasy1, hsoa1, hraft1, hrl⟩ :=
    ready_sync_inv hnode.sync hnode.adv hI.wf hset.1 hready
  obtain ⟨ms, ms', happ, hms', hrn2⟩ := persistReady_inv hpers
  rw [hraft1] at happ
  have hP : Persisted rn.raft.log { l2 with storage := ms' } :=
    persisted_of_ready hI.wf hset hrl (by rw [← hent]; exact happ) hms'
  obtain ⟨r3, hsteps, hrn3⟩ := advance_inv hadv
  subst hrn2
  simp only [hraft1, hsoa1] at hsteps
  subst hrn3
  refine ⟨eid, _, r3, hsteps, hmsgs, hlast, hP, rfl, rfl, ⟨rfl, rfl, rfl, rfl⟩, ?_, rfl, hasy1, rfl⟩
  intro nd msgs hinv
  exact hinv.congrLog hP.wf hP.abs hP.committed rfl rfl rfl rfl rfl (fun _ hm => nomatch hm)
    (fun _ hm => nomatch hm) rfl rfl rfl rfl

/-- **`syncRound` is simulated** and keeps `SyncInv`; the released messages are justified by the new soup -/
theorem sim_syncRound_inv {val : Val} {voters : List Id} {n : Nat} {s : Spec.State} {rn rn' : RawNode} {rd : Ready}
    {draws : List Nat} (hself : SelfStepOK val voters n) (hframe : SelfStepFrame val voters n)
    (hinv : SyncInv val voters n rn (s.nodes n) s.msgs) (hreach : Spec.Reachable (cfgOf voters) s)
    (h : syncRound rn draws = .ok (rd, rn')) :
    ∃ as s', RunL (cfgOf voters) s as s' ∧ (∀ a ∈ as, a.actor = n) ∧
      SyncInv val voters n rn' (s'.nodes n) s'.msgs ∧ ∀ m ∈ rd.messages, NetOK val s'.msgs m := by
  obtain ⟨hnode, hset, hmaa⟩ := hinv
  have hI := hnode.inv
  obtain ⟨eid, r2, r3, hsteps, hmsgs, hlast, hP, hterm2, hmaa2, _, hinv2, hraft', hasy', hsoa'⟩ :=
    syncRound_model hnode hset h
  -- Spec: `write; persist`, then the release of the promises
  obtain ⟨s1, hrun1, hn1, hm1⟩ := write_persist_run (cfgOf voters) s n hI.pend
  have hI1 : RaftInv val voters n rn.raft (s1.nodes n) s1.msgs := by rw [hn1, hm1]; exact hI.persisted
  have hdur1 : (s1.nodes n).dur = (s.nodes n).vol := by rw [hn1]
  obtain ⟨s2, hrel, hnet⟩ := release_all (val := val) (cfgOf voters) n rn.raft.msgsAfterAppend s1
    (fun p hp => ⟨by rw [hdur1]; exact hI.prom p hp, (hmaa p hp).1⟩)
  obtain ⟨as2, hrun2, hact2, hnodes2, hsub2, hrv2⟩ := hrel
  have hI2 : RaftInv val voters n r2 (s2.nodes n) s2.msgs := by
    rw [hnodes2]; exact hinv2 _ _ (hI1.frame hsub2 (fun t lt li hx => hrv2 t n lt li hx))
  have hreach2 := hrun2.reachable (hrun1.reachable hreach)
  have hdur2 : Spec.VerLe (s.nodes n).vol (s2.nodes n).dur := by
    rw [hnodes2, hdur1]; exact Spec.VerLe.refl _
  -- the node's own promises
  unfold Next.soaOf at hsteps
  rw [runSteps_append, runSteps_append] at hsteps
  obtain ⟨rb, hsteps, hstepC⟩ := bind_eq_ok.1 hsteps
  obtain ⟨ra, hstepA, hstepB⟩ := bind_eq_ok.1 hsteps
  have hms : ∀ m ∈ rn.raft.msgsAfterAppend.filter (fun m => m.to == rn.raft.cfg.id),
      (m.typ = .voteResp ∨ m.typ = .appResp) ∧ m.to = n ∧ m.reject = false ∧ PromOK n (s.nodes n).vol m := by
    intro m hm
    obtain ⟨hm1, hm2⟩ := List.mem_filter.1 hm
    have hto : m.to = n := by rw [← hI.st.id]; simpa using hm2
    obtain ⟨h1, h2⟩ := (hmaa m hm1).2 hto
    exact ⟨h1, hto, h2, hI.prom m hm1⟩
  obtain ⟨as3, s3, hrun3, hact3, hI3, hfr3⟩ :=
    self_steps hself hframe (s.nodes n).vol _ hms s2 r2 ra hI2 hreach2 hdur2 hstepA
  -- the two storage acknowledgements
  obtain ⟨hIb, hsetb, hmaab⟩ := appendResp_phase hI.wf hset.1 hP hI3 (hfr3.term.trans hterm2) hfr3.storage hfr3.snap
    hfr3.offset hfr3.oip hfr3.ents eid hlast hstepB
  obtain ⟨hIc, hsetc, hmaac⟩ := applyResp_phase hIb hsetb rd.committedEntries hstepC
  have hmaa3 : MaaOK n r3 := by
    have h0 : MaaOK n r2 := by intro m hm; rw [hmaa2] at hm; cases hm
    have := hfr3.maa h0
    unfold MaaOK at this ⊢
    rw [hmaac.maa, hmaab.maa]; exact this
  refine ⟨[.write n, .persist n] ++ (as2 ++ as3), s3, hrun1.append (hrun2.append hrun3), ?_,
    ⟨⟨hasy', hsoa', by rw [hraft']; exact hIc⟩, by rw [hraft']; exact hsetc, by rw [hraft']; exact hmaa3⟩, ?_⟩
  · intro a ha
    rcases List.mem_append.1 ha with h1 | h1
    · simp only [List.mem_cons, List.not_mem_nil, or_false] at h1
      rcases h1 with rfl | rfl <;> rfl
    · rcases List.mem_append.1 h1 with h2 | h2
      · exact hact2 a h2
      · exact hact3 a h2
  · intro m hm
    rw [hmsgs] at hm
    have hsub3 : ∀ x ∈ s2.msgs, x ∈ s3.msgs := fun x hx => hrun3.msgs_mono x hx
    rcases List.mem_append.1 hm with h1 | h1
    · exact (hI.out m h1).mono (fun x hx => hsub3 x (hsub2 x (by rw [hm1]; exact hx)))
    · obtain ⟨h2, h3⟩ := List.mem_filter.1 h1
      have hto : m.to ≠ n := by rw [← hI.st.id]; simpa using h3
      exact (hnet m h2 hto).mono hsub3

/-- **the environment step `syncRound`** in the shape used by `R.lift`.  Extra hypotheses (not part of `NodeInv`):
`hframe` (frame companion of `SelfStepOK`), `hset` (no pending snapshot, nothing in progress in `unstable`) and
`hmaa` (shape of the promise queue); `sim_syncRound_inv` shows that the last two hold again after the round. -/
theorem sim_syncRound {val : Val} {voters : List Id} {n : Nat} {s : Spec.State} {rn rn' : RawNode} {rd : Ready}
    {draws : List Nat} (hself : SelfStepOK val voters n) (hframe : SelfStepFrame val voters n)
    (hinv : NodeInv val voters n rn (s.nodes n) s.msgs) (hset : LogSettled rn.raft.log) (hmaa : MaaOK n rn.raft)
    (hreach : Spec.Reachable (cfgOf voters) s) (h : syncRound rn draws = .ok (rd, rn')) :
    ∃ as s', RunL (cfgOf voters) s as s' ∧ (∀ a ∈ as, a.actor = n) ∧
      NodeInv val voters n rn' (s'.nodes n) s'.msgs ∧ ∀ m ∈ rd.messages, NetOK val s'.msgs m := by
  obtain ⟨as, s', h1, h2, h3, h4⟩ := sim_syncRound_inv hself hframe ⟨hinv, hset, hmaa⟩ hreach h
  exact ⟨as, s', h1, h2, h3.node, h4⟩

end RaftVerif.Sim
