import RaftVerif.Proofs.LiveHup
import RaftVerif.Proofs.NextReady
import RaftVerif.Proofs.LogMutate
/-!
# Proofs/NextSolo — run equations for a single-voter group (C15)

Exact results (`.run s = .ok …`, so also *totality*: no panic) of the model functions on the path
follower → candidate → leader → commit of a node that is the only voter of its configuration.
-/
namespace RaftVerif.Next
open Raft Live
set_option linter.unusedSimpArgs false

/-! ### run equations of the primitives -/

/-- the state after `reset(t)` when the next election-timeout draw is `d` -/
def resetSt (s : Raft) (t d : Nat) (rest : List Nat) : Raft :=
  { s with
    term := t, vote := if s.term = t then s.vote else 0,
    lead := 0, electionElapsed := 0, heartbeatElapsed := 0,
    randomizedElectionTimeout := s.cfg.electionTimeout + d, draws := rest, leadTransferee := 0,
    trk := { s.trk.resetVotes with progress := s.trk.progress.map fun (id, pr) =>
      (id, ({ match_ := if id == s.cfg.id then s.log.lastIndex else 0, next := s.log.lastIndex + 1,
              inflights := { size := s.trk.maxInflight, maxBytes := s.trk.maxInflightBytes },
              isLearner := pr.isLearner } : Progress)) },
    pendingConfIndex := 0, uncommittedSize := 0, readOnly := { option := s.readOnly.option } }

theorem reset_run (t : Nat) (s : Raft) (d : Nat) (rest : List Nat) (hd : s.draws = d :: rest) :
    (reset t).run s = .ok ((), resetSt s t d rest) := by
  unfold reset resetRandomizedElectionTimeout abortLeaderTransfer
  by_cases ht : s.term = t
  · subst ht
    simp [StateT.run_bind, StateT.run_modify, StateT.run_get, StateT.run_set, hd, resetSt, Tracker.resetVotes]
  · have : (s.term != t) = true := by simpa using ht
    simp [StateT.run_bind, StateT.run_modify, StateT.run_get, StateT.run_set, hd, resetSt, Tracker.resetVotes, this, ht]

end RaftVerif.Next
namespace RaftVerif.Next
open Raft Live
set_option linter.unusedSimpArgs false

theorem becomeCandidate_run (s : Raft) (d : Nat) (rest : List Nat) (hs : s.state ≠ .leader)
    (hd : s.draws = d :: rest) :
    becomeCandidate.run s =
      .ok ((), { resetSt s (s.term + 1) d rest with vote := s.cfg.id, state := .candidate }) := by
  unfold becomeCandidate
  have h1 : (s.state == Role.leader) = false := by simpa using hs
  simp only [StateT.run_bind, StateT.run_get, P_pure_eq, P_ok_bind, h1, Bool.false_eq_true, ↓reduceIte,
    StateT.run_pure, reset_run _ s d rest hd, StateT.run_modify]
  rfl

/-- `send` of a vote response (`MsgVoteResp` / `MsgPreVoteResp`) with a non-zero term: queued behind the
next storage write, sender filled in -/
theorem send_run_voteResp (m : Message) (s : Raft) (ht : m.typ = .voteResp ∨ m.typ = .preVoteResp)
    (h0 : m.term ≠ 0) :
    (send m).run s = .ok ((), { s with msgsAfterAppend := s.msgsAfterAppend ++
      [if m.from = 0 then { m with «from» := s.cfg.id } else m] }) := by
  unfold send
  have h0' : (m.term == 0) = false := by simpa using h0
  by_cases hf : m.from = 0 <;> rcases ht with ht | ht <;>
    simp [StateT.run_bind, StateT.run_get, StateT.run_modify, hf, ht, h0']

/-- a node that is the only voter of its configuration (no joint configuration) and tracks only itself -/
structure Solo (id : Id) (s : Raft) : Prop where
  cid : s.cfg.id = id
  idNZ : id ≠ 0
  voters : s.trk.cfg.voters = [id]
  outgoing : s.trk.cfg.outgoing = none
  prog : ∃ pr, s.trk.progress = [(id, pr)] ∧ pr.isLearner = false

theorem Solo.voterNodes {id : Id} {s : Raft} (h : Solo id s) : s.trk.voterNodes = [id] := by
  unfold Tracker.voterNodes Tracker.outgoingL
  rw [h.outgoing, h.voters]
  rfl

theorem Solo.getProgress {id : Id} {s : Raft} (h : Solo id s) :
    ∃ pr, s.trk.getProgress id = some pr ∧ s.trk.progress = [(id, pr)] ∧ pr.isLearner = false := by
  obtain ⟨pr, hp, hl⟩ := h.prog
  refine ⟨pr, ?_, hp, hl⟩
  unfold Tracker.getProgress mapGet
  rw [hp]
  simp [Quorum.lookup]

/-- the own vote a campaigning node sends to itself -/
def selfVote (id t : Nat) : Message := { typ := .voteResp, to := id, «from» := id, term := t }

/-- the state of a sole voter right after `campaign(campaignElection)` -/
def soloCandidate (s : Raft) (d : Nat) : Raft :=
  { resetSt s (s.term + 1) d [] with
    vote := s.cfg.id, state := .candidate,
    msgsAfterAppend := s.msgsAfterAppend ++ [selfVote s.cfg.id (s.term + 1)] }

theorem campaign_election_solo_run {id : Id} (s : Raft) (d : Nat) (h : Solo id s) (hs : s.state ≠ .leader)
    (hd : s.draws = [d]) :
    (campaign .election).run s = .ok ((), soloCandidate s d) := by
  unfold campaign
  simp only [StateT.run_bind, StateT.run_get, P_pure_eq, P_ok_bind, beq_iff_eq, reduceCtorEq, ↓reduceIte,
    becomeCandidate_run s d [] hs hd, StateT.run_pure]
  have hv : ({ resetSt s (s.term + 1) d [] with vote := s.cfg.id, state := Role.candidate } : Raft).trk.voterNodes = [id] := by
    have := h.voterNodes
    unfold Tracker.voterNodes Tracker.outgoingL at this ⊢
    exact this
  simp only [hv, List.forIn_cons, List.forIn_nil, StateT.run_bind]
  rw [if_pos (show id = (resetSt s (s.term + 1) d []).cfg.id from h.cid.symm)]
  simp only [StateT.run_bind]
  rw [send_run_voteResp _ _ (Or.inl (by simp [voteRespMsgType])) (by simp [resetSt])]
  simp only [P_ok_bind, StateT.run_pure, P_pure_eq]
  simp [soloCandidate, selfVote, resetSt, voteRespMsgType, h.cid, h.idNZ]

end RaftVerif.Next
namespace RaftVerif.Next
open Raft Live
set_option linter.unusedSimpArgs false

/-! ### `RawNode.tick` -/

theorem runM_ok {α : Type} (rn : RawNode) (draws : List Nat) (act : M α) (a : α) (r' : Raft)
    (h : act.run { rn.raft with draws := draws } = .ok (a, r')) (hd : r'.draws = []) :
    rn.runM draws act = .ok (a, { rn with raft := r' }) := by
  unfold RawNode.runM
  simp [h, hd, bind, Except.bind, pure, Except.pure]

theorem tick_run_nonleader (s : Raft) (hs : s.state ≠ .leader) : Raft.tick.run s = tickElection.run s := by
  unfold Raft.tick
  have h1 : (s.state == Role.leader) = false := by simpa using hs
  simp only [StateT.run_bind, StateT.run_get, P_pure_eq, P_ok_bind, h1, Bool.false_eq_true, ↓reduceIte]

/-- a tick that does not fire only advances `electionElapsed` -/
theorem rawnode_tick_idle (rn : RawNode) (hs : rn.raft.state ≠ .leader) (hd : rn.raft.draws = [])
    (h : rn.raft.electionElapsed + 1 < rn.raft.randomizedElectionTimeout) :
    rn.tick [] = .ok { rn with raft := { rn.raft with electionElapsed := rn.raft.electionElapsed + 1 } } := by
  unfold RawNode.tick
  have e : ({ rn.raft with draws := [] } : Raft) = rn.raft := by rw [← hd]
  rw [runM_ok rn [] Raft.tick () { rn.raft with electionElapsed := rn.raft.electionElapsed + 1 }]
  · rfl
  · rw [e, tick_run_nonleader _ hs, tickElection_run_idle _ (Or.inr h)]
  · exact hd

/-- `k` ticks in a row, none of which fires -/
def idleTicks : Nat → RawNode → Except String RawNode
  | 0, rn => .ok rn
  | k + 1, rn => rn.tick [] >>= idleTicks k

theorem idleTicks_run (k : Nat) (rn : RawNode) (hs : rn.raft.state ≠ .leader) (hd : rn.raft.draws = [])
    (h : k = 0 ∨ rn.raft.electionElapsed + k < rn.raft.randomizedElectionTimeout) :
    idleTicks k rn = .ok { rn with raft := { rn.raft with electionElapsed := rn.raft.electionElapsed + k } } := by
  induction k generalizing rn with
  | zero => rfl
  | succ k ih =>
    have h : rn.raft.electionElapsed + (k + 1) < rn.raft.randomizedElectionTimeout := by omega
    unfold idleTicks
    rw [rawnode_tick_idle rn hs hd (by omega)]
    simp only [bind, Except.bind]
    have hih := ih { rn with raft := { rn.raft with electionElapsed := rn.raft.electionElapsed + 1 } } hs hd
      (by simp only; omega)
    rw [hih]
    simp only [Nat.add_assoc, Nat.add_comm 1 k]

theorem Solo.promotable {id : Id} {s : Raft} (h : Solo id s) (hsn : s.log.unstable.snapshot = none) :
    promotableB s = true := by
  obtain ⟨pr, hg, _, hl⟩ := h.getProgress
  unfold promotableB
  rw [h.cid, hg]
  simp [hl, RaftLog.hasNextOrInProgressSnapshot, hsn]

/-- **the firing tick of a sole voter without PreVote**: it becomes candidate of the next term and sends
itself its vote -/
theorem rawnode_tick_fire {id : Id} (rn : RawNode) (d : Nat) (h : Solo id rn.raft)
    (hs : rn.raft.state ≠ .leader) (hsn : rn.raft.log.unstable.snapshot = none)
    (hpv : rn.raft.cfg.preVote = false) (hca : rn.raft.log.committed ≤ rn.raft.log.applied)
    (ht : rn.raft.randomizedElectionTimeout ≤ rn.raft.electionElapsed + 1) :
    rn.tick [d] = .ok { rn with raft := soloCandidate { rn.raft with draws := [d], electionElapsed := 0 } d } := by
  unfold RawNode.tick
  rw [runM_ok rn [d] Raft.tick () (soloCandidate { rn.raft with draws := [d], electionElapsed := 0 } d)]
  · rfl
  · have hs0 : Solo id { rn.raft with draws := [d] } := ⟨h.cid, h.idNZ, h.voters, h.outgoing, h.prog⟩
    have hs1 : Solo id { rn.raft with draws := [d], electionElapsed := 0 } := ⟨h.cid, h.idNZ, h.voters, h.outgoing, h.prog⟩
    rw [tick_run_nonleader { rn.raft with draws := [d] } hs,
      tickElection_run_fire { rn.raft with draws := [d] } (hs0.promotable hsn) ht]
    have := step_hup_run 2 (hupMsg { rn.raft with draws := [d] }) { rn.raft with draws := [d], electionElapsed := 0 } rfl rfl
    rw [show stepFuel = 2 + 1 from rfl, this]
    simp only [hpv, Bool.false_eq_true, ↓reduceIte]
    rw [hup_run, if_neg hs, if_neg (by rw [hs1.promotable hsn]; simp),
      hasUnappliedConfChanges_none { rn.raft with draws := [d], electionElapsed := 0 } hca]
    simp only [P_ok_bind, Bool.false_eq_true, ↓reduceIte]
    rw [campaign_election_solo_run _ d hs1 hs rfl]
    rfl
  · rfl
end RaftVerif.Next

namespace RaftVerif.Next
open Raft Live
set_option linter.unusedSimpArgs false

/-! ### `RawNode.advance` as a fold of `step` -/

/-- step the messages one after the other -/
def runSteps : List Message → Raft → Except String Raft
  | [], s => .ok s
  | m :: ms, s => (step stepFuel m).run s >>= fun p => runSteps ms p.2

theorem forIn_steps_run (ms : List Message) (s : Raft) :
    (forIn ms PUnit.unit (fun m _ => do let _ ← step stepFuel m; pure (ForInStep.yield PUnit.unit)) : M PUnit).run s =
      (runSteps ms s >>= fun r => .ok (PUnit.unit, r)) := by
  induction ms generalizing s with
  | nil => rfl
  | cons m ms ih =>
    simp only [List.forIn_cons, StateT.run_bind, runSteps]
    cases hm : (step stepFuel m).run s with
    | error e => rfl
    | ok p =>
      simp only [P_ok_bind, StateT.run_pure, P_pure_eq]
      exact ih p.2

theorem advance_run (rn : RawNode) (draws : List Nat) (ha : rn.async = false) (r' : Raft)
    (h : runSteps rn.stepsOnAdvance { rn.raft with draws := draws } = .ok r') (hd : r'.draws = []) :
    rn.advance draws = .ok { rn with raft := r', stepsOnAdvance := [] } := by
  unfold RawNode.advance
  rw [if_neg (by simp [ha])]
  dsimp only
  rw [runM_ok rn draws _ () r' _ hd]
  · rfl
  · have := forIn_steps_run rn.stepsOnAdvance { rn.raft with draws := draws }
    rw [h] at this
    simp only [P_ok_bind] at this
    simp only [StateT.run_bind]
    rw [this]
    rfl

/-! ### a sole voter: `bcastAppend`, the tally, `becomeLeader` -/

theorem bcastAppend_solo_run {id : Id} (s : Raft) (h : Solo id s) : bcastAppend.run s = .ok ((), s) := by
  obtain ⟨pr, hp, _⟩ := h.prog
  unfold bcastAppend progressIds
  simp [StateT.run_bind, StateT.run_get, hp, h.cid]

theorem solo_tally_won {id : Id} (t : Tracker) (hv : t.cfg.voters = [id]) (ho : t.cfg.outgoing = none)
    (hvotes : t.votes = []) : (t.recordVote id true).tallyVotes.2.2 = .won := by
  unfold Tracker.recordVote
  rw [hvotes]
  simp [mapGet, Quorum.lookup, Tracker.tallyVotes, Tracker.outgoingL, hv, ho, mapInsert, Quorum.jointVote,
    Quorum.majorityVote, Quorum.yesCount, Quorum.quorumSize]

end RaftVerif.Next
namespace RaftVerif.Next
open Raft Live
set_option linter.unusedSimpArgs false

/-- the progress `reset` installs for the node itself -/
def selfProgress (s : Raft) : Progress :=
  { match_ := s.log.lastIndex, next := s.log.lastIndex + 1,
    inflights := { size := s.trk.maxInflight, maxBytes := s.trk.maxInflightBytes }, isLearner := false }

/-- the acknowledgement of its own append a leader sends to itself -/
def selfAck (id t i : Nat) : Message := { to := id, «from» := id, typ := .appResp, index := i, term := t }

/-- the empty entry a new leader appends -/
def noopEntry (s : Raft) : Entry := { term := s.term, index := s.log.lastIndex + 1 }

/-- the state of a sole voter right after `becomeLeader` (`L'` = the log with the empty entry appended) -/
def soloLeader (s : Raft) (d : Nat) (L' : RaftLog) : Raft :=
  { resetSt s s.term d [] with
    lead := s.cfg.id, state := .leader,
    trk := (resetSt s s.term d []).trk.setProgress s.cfg.id
      { (selfProgress s).becomeReplicate with recentActive := true },
    pendingConfIndex := s.log.lastIndex, log := L',
    msgsAfterAppend := s.msgsAfterAppend ++ [selfAck s.cfg.id s.term (s.log.lastIndex + 1)] }

theorem becomeLeader_solo_run {id : Id} (s : Raft) (d : Nat) (L' : RaftLog) (h : Solo id s)
    (hs : s.state ≠ .follower) (hd : s.draws = [d])
    (happ : s.log.append [noopEntry s] = .ok (L', s.log.lastIndex + 1)) :
    becomeLeader.run s = .ok ((), soloLeader s d L') := by
  obtain ⟨pr, hg, hp, hl⟩ := h.getProgress
  unfold becomeLeader
  have h1 : (s.state == Role.follower) = false := by simpa using hs
  simp only [StateT.run_bind, StateT.run_get, P_pure_eq, P_ok_bind, h1, Bool.false_eq_true, ↓reduceIte,
    StateT.run_pure, reset_run _ s d [] hd, StateT.run_modify]
  have hgp : ({ resetSt s s.term d [] with lead := (resetSt s s.term d []).cfg.id, state := Role.leader } : Raft).trk.getProgress
      (resetSt s s.term d []).cfg.id = some (selfProgress s) := by
    simp [resetSt, Tracker.getProgress, mapGet, hp, Quorum.lookup, h.cid, selfProgress, hl, Tracker.resetVotes]
  rw [getPr_run_some _ _ _ hgp]
  simp only [P_ok_bind, setPr_run, StateT.run_bind, StateT.run_modify, P_pure_eq]
  rw [appendEntry_run]
  have hcl : cloneEntries
      { resetSt s s.term d [] with
        lead := (resetSt s s.term d []).cfg.id, state := Role.leader,
        trk := Tracker.setProgress (resetSt s s.term d []).trk (resetSt s s.term d []).cfg.id
          { (selfProgress s).becomeReplicate with recentActive := true },
        pendingConfIndex := (resetSt s s.term d []).log.lastIndex } [{}] = [noopEntry s] := by
    simp [cloneEntries, noopEntry, resetSt]
  simp only at hcl ⊢
  rw [hcl]
  have hlog : (resetSt s s.term d []).log = s.log := rfl
  simp only [hlog, happ, resetSt, Nat.lt_irrefl, false_and, ↓reduceIte, gt_iff_lt, P_ok_bind, StateT.run_pure,
    P_pure_eq, Bool.not_true, Bool.false_eq_true, payloadsSize]
  simp [soloLeader, resetSt, selfAck, Entry.dataLen]
end RaftVerif.Next
namespace RaftVerif.Next
open Raft Live
set_option linter.unusedSimpArgs false

theorem Solo.recordVote {id : Id} {s : Raft} (h : Solo id s) (v : Id) (b : Bool) :
    Solo id { s with trk := s.trk.recordVote v b } := by
  have hc : (s.trk.recordVote v b).cfg = s.trk.cfg := by unfold Tracker.recordVote; split <;> rfl
  have hp : (s.trk.recordVote v b).progress = s.trk.progress := by unfold Tracker.recordVote; split <;> rfl
  exact ⟨h.cid, h.idNZ, by simp only [hc]; exact h.voters, by simp only [hc]; exact h.outgoing,
    by simp only [hp]; exact h.prog⟩

theorem Solo.leader {id : Id} {s : Raft} (h : Solo id s) (d : Nat) (L' : RaftLog) :
    Solo id (soloLeader s d L') := by
  obtain ⟨pr, hp, hl⟩ := h.prog
  refine ⟨h.cid, h.idNZ, h.voters, h.outgoing, ⟨{ (selfProgress s).becomeReplicate with recentActive := true }, ?_, rfl⟩⟩
  simp [soloLeader, resetSt, Tracker.setProgress, hp, mapInsert, h.cid, Tracker.resetVotes]

/-- **a sole candidate receives its own vote**: it wins, becomes leader of the same term and appends the
empty entry (nothing is sent: there are no peers) -/
theorem step_selfVote_run {id : Id} (fuel : Nat) (c : Raft) (d : Nat) (L' : RaftLog) (h : Solo id c)
    (hst : c.state = .candidate) (ht : c.term ≠ 0) (hvotes : c.trk.votes = []) (hd : c.draws = [d])
    (happ : c.log.append [noopEntry c] = .ok (L', c.log.lastIndex + 1)) :
    (step (fuel + 1) (selfVote id c.term)).run c =
      .ok (none, soloLeader { c with trk := c.trk.recordVote id true } d L') := by
  have hwon := solo_tally_won c.trk h.voters h.outgoing hvotes
  have h1 := h.recordVote id true
  have hisSome : (mapGet (c.trk.recordVote id true).votes c.cfg.id).isNone = false := by
    unfold Tracker.recordVote
    rw [hvotes]
    simp [mapGet, Quorum.lookup, mapInsert, h.cid]
  have hbl := becomeLeader_solo_run { c with trk := c.trk.recordVote id true } d L' h1
    (by simp [hst]) hd happ
  have hbc := bcastAppend_solo_run _ (h1.leader d L')
  have h0 : (c.term == 0) = false := by simpa using ht
  generalize hR : soloLeader { c with trk := c.trk.recordVote id true } d L' = R at hbl hbc ⊢
  rw [step]
  simp only [selfVote, StateT.run_bind, StateT.run_get, P_pure_eq, P_ok_bind, h0, Bool.false_eq_true, ↓reduceIte,
    gt_iff_lt, Nat.lt_irrefl, StateT.run_pure, hst]
  rw [stepCandidate]
  have hb : (Role.candidate == Role.preCandidate) = false := by decide
  simp (config := {decide := true}) only [hb, StateT.run_bind, StateT.run_get, P_pure_eq, P_ok_bind, hst, beq_iff_eq,
    reduceCtorEq, ↓reduceIte, Bool.false_and, Bool.false_eq_true, poll, StateT.run_modify, StateT.run_pure, BEq.rfl,
    Bool.not_false, hwon, hisSome]
  simp only [hst] at hbl
  rw [hbl]
  simp only [P_ok_bind, StateT.run_bind, hbc, StateT.run_pure, P_pure_eq]
end RaftVerif.Next

namespace RaftVerif.Next
open Raft Live
set_option linter.unusedSimpArgs false

/-- nothing committed waits to be applied: `nextCommittedEnts` hands out nothing -/
theorem nextCommittedEnts_nil (l : RaftLog) (au : Bool) (h : l.committed ≤ l.applying) :
    l.nextCommittedEnts au = .ok [] := by
  unfold RaftLog.nextCommittedEnts
  have := RaftLog.maxAppliableIndex_le_committed l au
  have hge : l.applying + 1 ≥ l.maxAppliableIndex au + 1 := by omega
  by_cases h1 : l.applyingEntsPaused = true
  · simp [h1, pure, Except.pure]
  · by_cases h2 : l.hasNextOrInProgressSnapshot = true
    · simp [h1, h2, pure, Except.pure]
    · simp [h1, h2, hge, pure, Except.pure]

theorem Solo.resetSt {id : Id} {s : Raft} (h : Solo id s) (t d : Nat) (rest : List Nat) :
    Solo id (resetSt s t d rest) := by
  obtain ⟨pr, hp, hl⟩ := h.prog
  refine ⟨h.cid, h.idNZ, h.voters, h.outgoing, ?_⟩
  simp only [Next.resetSt, hp, List.map_cons, List.map_nil]
  exact ⟨_, rfl, hl⟩

theorem Solo.candidate {id : Id} {s : Raft} (h : Solo id s) (d : Nat) : Solo id (soloCandidate s d) := by
  have := h.resetSt (s.term + 1) d []
  exact ⟨this.cid, this.idNZ, this.voters, this.outgoing, this.prog⟩

theorem soloLeader_selfMatch {id : Id} {s : Raft} (h : Solo id s) (d : Nat) (L' : RaftLog) :
    ∃ pr, (soloLeader s d L').trk.progress = [(id, pr)] ∧ pr.match_ = s.log.lastIndex ∧ pr.state = .replicate ∧
      pr.isLearner = false := by
  obtain ⟨pr, hp, hl⟩ := h.prog
  refine ⟨{ (selfProgress s).becomeReplicate with recentActive := true }, ?_, rfl, rfl, rfl⟩
  simp [soloLeader, Next.resetSt, Tracker.setProgress, hp, mapInsert, h.cid, Tracker.resetVotes]

/-- the candidate after its first `Ready` was accepted, about to step its own vote with draw `d2` -/
def soloCandidateAcc (s : Raft) (d1 d2 : Nat) : Raft :=
  { soloCandidate s d1 with
    readStates := [], msgs := [], msgsAfterAppend := [], log := s.log.acceptUnstable, draws := [d2] }

/-- the hypotheses of the single-voter liveness theorems on the initial node -/
structure SoloStart (id : Id) (rn : RawNode) : Prop where
  sync : rn.async = false
  advanced : rn.stepsOnAdvance = []
  solo : Solo id rn.raft
  follower : rn.raft.state = .follower
  noPreVote : rn.raft.cfg.preVote = false
  wf : rn.raft.log.WF
  noSnap : rn.raft.log.unstable.snapshot = none
  noUnstable : rn.raft.log.unstable.entries = []
  applied : rn.raft.log.committed ≤ rn.raft.log.applied
  msgs : rn.raft.msgs = []
  maa : rn.raft.msgsAfterAppend = []
  draws : rn.raft.draws = []

/-- the election schedule: `k` idle ticks, the firing tick (draw `d1`), one `Ready`, `Advance` (draw `d2`) -/
def electSchedule (rn : RawNode) (k d1 d2 : Nat) : Except String RawNode :=
  idleTicks k rn >>= fun a => a.tick [d1] >>= fun b => b.ready >>= fun p => p.2.advance [d2]

/-- a sole voter that has just become leader of term `T`: the empty entry of term `T` is the last entry
(index `li + 1`), unstable and not yet committed; its self-acknowledgement waits in `msgsAfterAppend` -/
structure SoloLeaderFresh (id T li : Nat) (rn0 rn : RawNode) : Prop where
  sync : rn.async = false
  advanced : rn.stepsOnAdvance = []
  solo : Solo id rn.raft
  leader : rn.raft.state = .leader
  term : rn.raft.term = T
  lead : rn.raft.lead = id
  vote : rn.raft.vote = id
  noTransfer : rn.raft.leadTransferee = 0
  cfg : rn.raft.cfg = rn0.raft.cfg
  trkCfg : rn.raft.trk.cfg = rn0.raft.trk.cfg
  msgs : rn.raft.msgs = []
  maa : rn.raft.msgsAfterAppend = [selfAck id T (li + 1)]
  draws : rn.raft.draws = []
  usize : rn.raft.uncommittedSize = 0
  pri : rn.raft.pendingReadIndexMessages = rn0.raft.pendingReadIndexMessages
  selfMatch : ∃ pr, rn.raft.trk.progress = [(id, pr)] ∧ pr.match_ = li ∧ pr.state = .replicate ∧ pr.isLearner = false
  log : rn0.raft.log.acceptUnstable.append [{ term := T, index := li + 1 }] = .ok (rn.raft.log, li + 1)
  logWF : rn.raft.log.WF
  lastIndex : rn.raft.log.lastIndex = li + 1

theorem solo_elects_run {id : Id} (rn : RawNode) (k d1 d2 : Nat) (h : SoloStart id rn)
    (hk : k = 0 ∨ rn.raft.electionElapsed + k < rn.raft.randomizedElectionTimeout)
    (hk' : rn.raft.randomizedElectionTimeout ≤ rn.raft.electionElapsed + k + 1) :
    ∃ rnL, electSchedule rn k d1 d2 = .ok rnL ∧
      SoloLeaderFresh id (rn.raft.term + 1) rn.raft.log.lastIndex rn rnL := by
  have hnl : rn.raft.state ≠ .leader := by rw [h.follower]; intro h; cases h
  -- the log after `acceptUnstable` and the append of the empty entry
  obtain ⟨hwf1, habs1, _, _⟩ := RaftLog.acceptUnstable_spec h.wf
  have hli1 : rn.raft.log.acceptUnstable.lastIndex = rn.raft.log.lastIndex := by
    rw [RaftLog.lastIndex_abs hwf1, RaftLog.lastIndex_abs h.wf, habs1]
  have hcom1 : rn.raft.log.acceptUnstable.committed = rn.raft.log.committed := rfl
  have happ := RaftLog.append_spec hwf1 { term := rn.raft.term + 1, index := rn.raft.log.lastIndex + 1 } []
    (by simp [Contig]) (by simp)
  have hcl := h.wf.committedLeLast
  rcases happ with ⟨hbad, _⟩ | ⟨_, hbad, _⟩ | ⟨_, _, L', hL', hwfL, _, hliL, _⟩
  · simp only at hbad; rw [hcom1] at hbad; omega
  · simp only at hbad; rw [← RaftLog.lastIndex_abs hwf1, hli1] at hbad; omega
  simp only [List.length_nil, Nat.add_zero] at hL' hliL
  -- idle ticks
  have e1 := idleTicks_run k rn hnl h.draws hk
  -- the firing tick
  have e2 := rawnode_tick_fire (id := id)
    { rn with raft := { rn.raft with electionElapsed := rn.raft.electionElapsed + k } } d1
    ⟨h.solo.cid, h.solo.idNZ, h.solo.voters, h.solo.outgoing, h.solo.prog⟩ hnl h.noSnap h.noPreVote h.applied
    (by simp only; omega)
  -- the Ready of the candidate
  have hapl : rn.raft.log.committed ≤ rn.raft.log.applying := Nat.le_trans h.applied h.wf.appliedLeApplying
  have hnu : rn.raft.log.hasNextOrInProgressUnstableEnts = false := by
    simp [RaftLog.hasNextOrInProgressUnstableEnts, h.noUnstable]
  obtain ⟨rd, rn2, e3, _, _, h2a, h2s, h2r⟩ := ready_sync
    { rn with raft := soloCandidate { rn.raft with draws := [d1], electionElapsed := 0 } d1 }
    h.sync h.advanced h.noSnap [] (nextCommittedEnts_nil _ true hapl) ⟨0, 0⟩
    (fun hu => by
      rw [show (soloCandidate { rn.raft with draws := [d1], electionElapsed := 0 } d1).log = rn.raft.log from rfl] at hu
      rw [hnu] at hu; cases hu)
    rn.raft.log.acceptUnstable rfl
  -- Advance: the own vote is stepped
  have hsoa : rn2.stepsOnAdvance = [selfVote id (rn.raft.term + 1)] := by
    rw [h2s]
    simp [soaOf, soloCandidate, resetSt, h.maa, selfVote, h.solo.cid, RaftLog.hasNextOrInProgressUnstableEnts,
      h.noUnstable]
  have hr2 : ({ rn2.raft with draws := [d2] } : Raft) =
      soloCandidateAcc { rn.raft with draws := [d1], electionElapsed := 0 } d1 d2 := by
    rw [h2r]; rfl
  have hsC : Solo id (soloCandidate { rn.raft with draws := [d1], electionElapsed := 0 } d1) :=
    Solo.candidate ⟨h.solo.cid, h.solo.idNZ, h.solo.voters, h.solo.outgoing, h.solo.prog⟩ d1
  have hsA : Solo id (soloCandidateAcc { rn.raft with draws := [d1], electionElapsed := 0 } d1 d2) :=
    ⟨hsC.cid, hsC.idNZ, hsC.voters, hsC.outgoing, hsC.prog⟩
  have hstep := step_selfVote_run 2 (soloCandidateAcc { rn.raft with draws := [d1], electionElapsed := 0 } d1 d2) d2 L'
    hsA rfl (by simp [soloCandidateAcc, soloCandidate, resetSt]) rfl rfl
    (by
      have e1 : (soloCandidateAcc { rn.raft with draws := [d1], electionElapsed := 0 } d1 d2).log =
          rn.raft.log.acceptUnstable := rfl
      simp only [noopEntry, e1, hli1]
      exact hL')
  have hsL := (hsA.recordVote id true).leader d2 L'
  obtain ⟨R, hR⟩ : ∃ R, R = soloLeader
      { soloCandidateAcc { rn.raft with draws := [d1], electionElapsed := 0 } d1 d2 with
        trk := (soloCandidateAcc { rn.raft with draws := [d1], electionElapsed := 0 } d1 d2).trk.recordVote id true }
      d2 L' := ⟨_, rfl⟩
  rw [← hR] at hstep hsL
  have e4 : rn2.advance [d2] = .ok { rn2 with raft := R, stepsOnAdvance := [] } := advance_run rn2 [d2] h2a R
    (by
      rw [hsoa, hr2]
      simp only [runSteps]
      have : (soloCandidateAcc { rn.raft with draws := [d1], electionElapsed := 0 } d1 d2).term = rn.raft.term + 1 := rfl
      rw [← this, show stepFuel = 2 + 1 from rfl, hstep]
      rfl)
    (by rw [hR]; rfl)
  refine ⟨{ rn2 with raft := R, stepsOnAdvance := [] }, ?_, ?_⟩
  · unfold electSchedule
    rw [e1]
    simp only [bind, Except.bind]
    rw [e2]
    simp only
    rw [e3]
    simp only
    exact e4
  · subst hR
    refine ⟨h2a, rfl, hsL, rfl, rfl, h.solo.cid, ?_, rfl, rfl, ?_, ?_, ?_, rfl, rfl, rfl, ?_, ?_, hwfL, hliL⟩
    · simp [soloLeader, resetSt, soloCandidateAcc, soloCandidate, h.solo.cid]
    · simp only [soloLeader, resetSt, soloCandidateAcc, soloCandidate, Tracker.setProgress, Tracker.resetVotes,
        Tracker.recordVote]
      split <;> rfl
    · simp [soloLeader, resetSt, soloCandidateAcc, soloCandidate, h.msgs]
    · simp [soloLeader, resetSt, soloCandidateAcc, soloCandidate, selfAck, h.solo.cid, hli1, h.maa]
    · obtain ⟨pr, hp1, hp2, hp3, hp4⟩ := soloLeader_selfMatch (hsA.recordVote id true) d2 L'
      exact ⟨pr, hp1, hp2.trans hli1, hp3, hp4⟩
    · exact hL'
end RaftVerif.Next
