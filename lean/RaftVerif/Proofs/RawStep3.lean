import RaftVerif.Proofs.RawStep2
/-!
# Proofs/RawStep3 — `Raft.step` (any fuel) and `Raft.tick` keep `Prom`, hence the C05 invariant
`PromisesWithinLog`
-/
namespace RaftVerif.Raw
open RaftVerif Raft

/-- a MsgStorageAppendResp acknowledges only what the storage really holds: marking the acknowledged
entries / snapshot stable does not change `lastIndex` (otherwise `lastIndex` falls back to
`storage.lastIndex`) -/
structure AckOK (l : RaftLog) (m : Message) : Prop where
  ents : (l.stableTo ⟨m.logTerm, m.index⟩).lastIndex = l.lastIndex
  snap : ∀ sn, m.snapshot = some sn →
    (l.stableSnapTo sn.index).lastIndex = l.lastIndex ∧
    ((l.stableTo ⟨m.logTerm, m.index⟩).stableSnapTo sn.index).lastIndex = l.lastIndex

theorem LogGrow.of_stable {l l' : RaftLog} (hc : l'.committed = l.committed) (hl : l'.lastIndex = l.lastIndex) :
    LogGrow l l' := ⟨Nat.le_of_eq hc.symm, Nat.le_of_eq hl.symm, fun h => by omega⟩

/-- the hypotheses on the message under which `step` keeps `Prom` -/
structure StepHyp (s : Raft) (m : Message) : Prop where
  term : TermOK m
  agrees : MsgAgrees s.log s.msgsAfterAppend m
  ack : m.typ = .storageAppendResp → AckOK s.log m

abbrev StepPromAt (fuel : Nat) : Prop :=
  ∀ (m : Message) (s : Raft), StepHyp s m → Spec (step fuel m) s (fun _ s' => Prom s s')

theorem StepHyp.of_prop (s : Raft) (m : Message) (h : m.typ = .prop) : StepHyp s m :=
  ⟨fun _ => by simp [AppLike, h], MsgAgrees.of_typ (by simp [h]) (by simp [h]), fun h' => by simp [h] at h'⟩

theorem appliedTo_prom (fuel : Nat) (ih : StepPromAt fuel) (i sz : Nat) (s : Raft) :
    Spec (appliedTo fuel i sz) s (fun _ s' => Prom s s') := by
  rw [appliedTo]
  rel_start
  wp_auto [first | prom_step | rel_call (ih _ _ (StepHyp.of_prop _ _ rfl))]

theorem appliedSnap_prom (fuel : Nat) (ih : StepPromAt fuel) (snap : Snapshot) (s : Raft)
    (h : (s.log.stableSnapTo snap.index).lastIndex = s.log.lastIndex) :
    Spec (appliedSnap fuel snap) s (fun _ s' => Prom s s') := by
  rw [appliedSnap]
  rel_start
  have h0 : Prom s { s with log := s.log.stableSnapTo snap.index } :=
    Prom.of_log rfl rfl rfl rfl rfl (LogGrow.of_stable rfl h)
  wp_auto [first | prom_step | rel_call (appliedTo_prom _ ih ..)]


/-- what holds when the body of `step` (after the term comparison) is entered -/
structure Pre (s : Raft) (m : Message) (mid : Raft) : Prop where
  prom : Prom s mid
  log : mid.log = s.log
  maa : mid.msgsAfterAppend = s.msgsAfterAppend
  term : m.term ≠ 0 → mid.term = m.term ∨ m.typ = .preVote ∨ (m.typ = .preVoteResp ∧ m.reject = false)

/-- granting a vote: the MsgVoteResp is queued *before* `vote := from`; fine once the vote is recorded -/
theorem grant_prom (frm t : Nat) (cur : Raft) (hv : cur.vote = frm ∨ cur.vote = 0) (ht : t ≠ 0 → cur.term = t) :
    Spec (send { typ := .voteResp, to := frm, term := t }) cur
      (fun _ s' => ∀ ee, Prom cur { s' with electionElapsed := ee, vote := frm }) := by
  by_cases h0 : t = 0
  · subst h0
    unfold send
    simp [wp]
  · have hT := ht h0
    refine (send_spec _ cur).mono ?_
    rintro _ s' (⟨_, rfl⟩ | ⟨hp, _⟩)
    · intro ee
      obtain ⟨f1, f2, f3, f4, f5, f6⟩ := stamped_fields cur { typ := .voteResp, to := frm, term := t }
      refine ⟨⟨rfl, Nat.le_refl _, fun _ => ?_, Nat.le_refl _, ListExt.refl _, ListExt.snoc _ _ (by rw [f1]; rfl)⟩,
        id, fun _ _ _ _ _ h => h, ?_, ?_⟩
      · rcases hv with h | h
        · exact Or.inl h.symm
        · exact Or.inr h
      · intro _ x hx ⟨hx1, _⟩
        simp only [added, List.drop_left, List.mem_singleton] at hx
        subst hx
        rw [f1] at hx1; cases hx1
      · intro x hx _
        simp only [added, List.drop_left, List.mem_singleton] at hx
        subst hx
        unfold VoteFine
        rw [f5 (Or.inl rfl), f4]
        exact ⟨Nat.le_of_eq hT.symm, fun _ => Or.inl rfl⟩
    · simp [isPromise] at hp

theorem step_prom_succ (fuel : Nat) (ih : StepPromAt fuel) : StepPromAt (fuel + 1) := by
  intro m s hH
  rw [step]
  rel_start
  simp (config := {zeta := false}) only [wp]
  spec_jp (Pre s m)
  · intro u mid hpre
    obtain ⟨hP, hL, hM, hT⟩ := hpre
    have hAm : MsgAgrees mid.log mid.msgsAfterAppend m := by rw [hL, hM]; exact hH.agrees
    have hTm : AppLike m → mid.term = m.term := by
      intro ha
      have h0 : m.term ≠ 0 := fun h => hH.term h ha
      rcases hT h0 with h | h | h
      · exact h
      · rcases ha with a | a | a <;> rw [h] at a <;> cases a
      · rcases ha with a | a | a <;> rw [h.1] at a <;> cases a
    spec_match
    · -- MsgHup
      wp_auto [prom_step]
    · -- MsgStorageAppendResp
      rename_i htyp
      have hK := hH.ack htyp
      rw [← hL] at hK
      spec_zeta
      simp (config := {zeta := false}) only [wp]
      refine ⟨fun _ => ?_, fun _ => ?_⟩
      · have hX : Prom s { mid with log := mid.log.stableTo { term := m.logTerm, index := m.index } } :=
          hP.trans (Prom.of_log rfl rfl rfl rfl rfl (LogGrow.of_stable rfl hK.ents))
        wp_auto [first
          | rel_call (appliedSnap_prom _ ih _ _ ((hK.snap _ (by assumption)).2.trans hK.ents.symm))
          | prom_step]
      · wp_auto [first
          | rel_call (appliedSnap_prom _ ih _ _ (hK.snap _ (by assumption)).1)
          | prom_step]
    · -- MsgStorageApplyResp
      wp_auto [first | rel_call (appliedTo_prom _ ih ..) | prom_step]
    · -- MsgVote
      rename_i htyp
      have e1 : (MsgType.vote == MsgType.vote) = true := by decide
      have e2 : (MsgType.vote == MsgType.preVote) = false := by decide
      simp (config := {zeta := false}) only [htyp, e1, e2, voteRespMsgType, if_true, Bool.false_and, Bool.or_false]
      have hv : ∀ up : Bool, ((mid.vote == m.from || mid.vote == 0 && mid.lead == 0) && up) = true →
          mid.vote = m.from ∨ mid.vote = 0 := by
        intro up h
        simp only [Bool.and_eq_true, Bool.or_eq_true, beq_iff_eq] at h
        rcases h.1 with h | h
        · exact Or.inl h
        · exact Or.inr h.1
      have ht : m.term ≠ 0 → mid.term = m.term := by
        intro h
        rcases hT h with h | h | h
        · exact h
        · rw [htyp] at h; cases h
        · rw [htyp] at h; cases h.1
      wp_auto [first
        | prom_step
        | (refine (grant_prom _ _ _ (hv _ (by assumption)) ht).mono ?_; intro _ _ hg)
        | (apply_assumption; exact hP.trans (hg 0))]
    · -- MsgPreVote
      rename_i htyp
      have e1 : (MsgType.preVote == MsgType.vote) = false := by decide
      simp (config := {zeta := false}) only [htyp, e1, voteRespMsgType, if_false, Bool.false_eq_true]
      wp_auto [prom_step]
    · wp_auto [first
        | rel_call (stepLeader_prom ..)
        | rel_call (stepFollower_prom _ _ _ hTm hAm)
        | rel_call (stepCandidate_prom _ _ _ (fun h => Nat.le_of_eq (hTm h)) hAm)
        | prom_step]
  · intro body hbody
    have hb : ∀ cur, Pre s m cur → Spec (body ()) cur (fun _ s' => Prom s s') := fun cur h => hbody () cur h
    simp (config := {zeta := false}) only [wp]
    refine ⟨fun h0 => ?_, fun h0 => ⟨fun hgt => ?_, fun hgt => ⟨fun hlt => ?_, fun hlt => ?_⟩⟩⟩
    · have : m.term = 0 := by simpa using h0
      exact hb _ ⟨by assumption, rfl, rfl, fun h => absurd this h⟩
    · -- higher term
      spec_jp (fun mid => mid = s)
      · intro _ mid hmid
        subst hmid
        wp_auto [first
          | rel_call' (becomeFollower_prom _ _ _ (by pre_tac))
          | prom_step]
        all_goals first
          | (rename_i hP hF; exact hbody _ _ ⟨hP, hF.2.2.1, hF.2.2.2, fun _ => Or.inl hF.1⟩)
          | (rename_i hp; exact hbody _ _ ⟨by assumption, rfl, rfl, fun _ => Or.inr (Or.inl (by simpa using hp))⟩)
          | (rename_i hp; exact hbody _ _ ⟨by assumption, rfl, rfl, fun _ => Or.inr (Or.inr (by simpa using hp))⟩)
      · intro jp1 hjp1
        wp_auto [first | exact hjp1 _ _ rfl | prom_step]
    · -- lower term
      have hsn : ∀ sn, (m.typ == MsgType.storageAppendResp) = true → m.snapshot = some sn →
          (s.log.stableSnapTo sn.index).lastIndex = s.log.lastIndex :=
        fun sn ht h => ((hH.ack (by simpa using ht)).snap sn h).1
      wp_auto [first
        | rel_call (appliedSnap_prom _ ih _ _ (hsn _ (by assumption) (by assumption)))
        | prom_step]
    · exact hb _ ⟨by assumption, rfl, rfl, fun _ => Or.inl (by omega)⟩

/-- **`Step` keeps `Prom`** for every fuel, state and message satisfying `StepHyp` -/
theorem step_prom : ∀ fuel, StepPromAt fuel
  | 0 => by
    intro m s _
    rw [step]
    simp only [wp]
  | fuel + 1 => step_prom_succ fuel (step_prom fuel)

/-- a message that is neither MsgApp / MsgHeartbeat / MsgSnap nor MsgStorageAppendResp needs no hypothesis -/
theorem StepHyp.of_typ (s : Raft) (m : Message) (h1 : m.typ ≠ .app) (h2 : m.typ ≠ .heartbeat) (h3 : m.typ ≠ .snap)
    (h4 : m.typ ≠ .storageAppendResp) : StepHyp s m :=
  ⟨fun _ h => by rcases h with h | h | h <;> contradiction, MsgAgrees.of_typ h1 h3, fun h => absurd h h4⟩

theorem StepHyp.of_local (s : Raft) (m : Message) (h : m.typ = .hup ∨ m.typ = .beat ∨ m.typ = .checkQuorum) :
    StepHyp s m := by
  apply StepHyp.of_typ <;> rcases h with h | h | h <;> rw [h] <;> decide

macro "local_typ" : tactic => `(tactic| with_unfolding_all first
  | exact Or.inl rfl | exact Or.inr (Or.inl rfl) | exact Or.inr (Or.inr rfl))

theorem tickElection_prom (s : Raft) : Spec tickElection s (fun _ s' => Prom s s') := by
  unfold tickElection
  rel_start
  wp_auto [first
    | rel_call (step_prom _ _ _ (StepHyp.of_local _ _ (by local_typ)))
    | prom_step]

theorem tickHeartbeat_prom (s : Raft) : Spec tickHeartbeat s (fun _ s' => Prom s s') := by
  unfold tickHeartbeat
  rel_start
  wp_auto [first
    | rel_call (step_prom _ _ _ (StepHyp.of_local _ _ (by local_typ)))
    | prom_step]

theorem tick_prom (s : Raft) : Spec tick s (fun _ s' => Prom s s') := by
  unfold tick
  rel_start
  wp_auto [first | rel_call (tickElection_prom ..) | rel_call (tickHeartbeat_prom ..)]

end RaftVerif.Raw
