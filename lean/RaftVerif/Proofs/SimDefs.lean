import RaftVerif.Props.Refinement
import RaftVerif.Props.SpecSafety
/-!
# Proofs/SimDefs — definitions for the simulation theorem (cluster of model nodes ⊑ Spec)

* `RunL cfg s as s'`     — the Spec executes the list of actions `as` (each enabled) from `s` to `s'`
* `NetOK val msgs m`     — the model message `m` (on the network or queued in `Raft.msgs`) is justified by
                           the Spec soup `msgs`
* `InOK val n nd msgs m` — `m` may be stepped into node `n` (network message, or a self-addressed durable promise)
* `PromOK n v m`         — the promise `m` queued in `msgsAfterAppend` is recorded in the Spec version `v`
* `RaftInv …`            — the node-local simulation invariant (on `Raft`; independent of `draws`, timers)
* `RaftSim …`            — a model transition `r → r'` of node `n` is matched by Spec actions of node `n`
-/
namespace RaftVerif.Sim
open Refine

/-! ### runs of the Spec -/

/-- the Spec performs the actions `as` in order, each one enabled -/
inductive RunL (cfg : Spec.Cfg) : Spec.State → List Spec.Action → Spec.State → Prop where
  | nil (s : Spec.State) : RunL cfg s [] s
  | cons {s s' : Spec.State} {a : Spec.Action} {as : List Spec.Action} :
      Spec.enabled cfg s a → RunL cfg (Spec.apply s a) as s' → RunL cfg s (a :: as) s'

theorem RunL.single {cfg : Spec.Cfg} {s : Spec.State} {a : Spec.Action} (h : Spec.enabled cfg s a) :
    RunL cfg s [a] (Spec.apply s a) := .cons h (.nil _)

theorem RunL.append {cfg : Spec.Cfg} {s1 s2 s3 : Spec.State} {as bs : List Spec.Action}
    (h1 : RunL cfg s1 as s2) (h2 : RunL cfg s2 bs s3) : RunL cfg s1 (as ++ bs) s3 := by
  induction h1 with
  | nil s => exact h2
  | cons he _ ih => exact .cons he (ih h2)

theorem RunL.snoc {cfg : Spec.Cfg} {s1 s2 : Spec.State} {as : List Spec.Action} {a : Spec.Action}
    (h1 : RunL cfg s1 as s2) (h2 : Spec.enabled cfg s2 a) : RunL cfg s1 (as ++ [a]) (Spec.apply s2 a) :=
  h1.append (.single h2)

theorem RunL.reachable {cfg : Spec.Cfg} {s s' : Spec.State} {as : List Spec.Action}
    (h : RunL cfg s as s') (hs : Spec.Reachable cfg s) : Spec.Reachable cfg s' := by
  induction h with
  | nil s => exact hs
  | cons he _ ih => exact ih (.step _ _ hs he)

/-- nodes other than the actors are untouched -/
theorem RunL.nodes_ne {cfg : Spec.Cfg} {s s' : Spec.State} {as : List Spec.Action}
    (h : RunL cfg s as s') (m : Nat) (hm : ∀ a ∈ as, a.actor ≠ m) : s'.nodes m = s.nodes m := by
  induction h with
  | nil s => rfl
  | cons he _ ih =>
    rw [ih (fun a ha => hm a (List.mem_cons_of_mem _ ha))]
    exact Spec.apply_nodes_ne _ _ _ (fun h => hm _ List.mem_cons_self h.symm)

/-- the soup only grows -/
theorem RunL.msgs_mono {cfg : Spec.Cfg} {s s' : Spec.State} {as : List Spec.Action}
    (h : RunL cfg s as s') (x : Spec.Msg) (hx : x ∈ s.msgs) : x ∈ s'.msgs := by
  induction h with
  | nil s => exact hx
  | cons he _ ih => exact ih ((Spec.mem_apply_msgs _ _ _).2 (Or.inr hx))

/-- a vote request that appears during the run is one of an actor -/
theorem RunL.reqVote_new {cfg : Spec.Cfg} {s s' : Spec.State} {as : List Spec.Action}
    (h : RunL cfg s as s') (t c lt li : Nat) (hx : Spec.Msg.reqVote t c lt li ∈ s'.msgs) :
    Spec.Msg.reqVote t c lt li ∈ s.msgs ∨ ∃ a ∈ as, a.actor = c := by
  induction h with
  | nil s => exact Or.inl hx
  | @cons s0 s1 a as0 he _ ih =>
    rcases ih hx with h1 | ⟨b, hb, hbc⟩
    · rcases (Spec.mem_apply_msgs _ _ _).1 h1 with h2 | h2
      · right
        refine ⟨a, List.mem_cons_self, ?_⟩
        cases a <;> simp [Spec.newMsgs] at h2
        simp [Spec.Action.actor, h2.2.1]
      · exact Or.inl h2
    · exact Or.inr ⟨b, List.mem_cons_of_mem _ hb, hbc⟩

/-! ### messages -/

/-- the model message `m` — on the network, or queued in `Raft.msgs` — is justified by the Spec soup.
Only the kinds the environment delivers are constrained. -/
def NetOK (val : Val) (msgs : List Spec.Msg) (m : Message) : Prop :=
  match m.typ with
  | .vote => m.term ≠ 0 ∧ m.from ≠ 0 ∧ m.from ≠ m.to ∧ Spec.Msg.reqVote m.term m.from m.logTerm m.index ∈ msgs
  | .voteResp => m.term ≠ 0 ∧ m.from ≠ m.to ∧ (m.reject = false → Spec.Msg.vote m.term m.from m.to ∈ msgs)
  | .app => m.term ≠ 0 ∧ absApp val m ∈ msgs ∧ Contig (m.index + 1) m.entries ∧ ∀ e ∈ m.entries, e.term ≤ m.term
  | .appResp => m.term ≠ 0 ∧ m.from ≠ m.to ∧
      (m.reject = false → m.index = 0 ∨ Spec.hasAck msgs m.term m.from m.index = true)
  | .heartbeat => m.term ≠ 0 ∧ m.context = none ∧ Spec.Msg.hb m.term m.to m.commit ∈ msgs
  | .heartbeatResp => m.term ≠ 0 ∧ m.context = none
  | .prop => m.term = 0
  | _ => True

/-- `m` may be stepped into node `n` whose Spec node is `nd`: a network message, or (from `n` itself, replayed by
`Advance`) a promise that is durable -/
def InOK (val : Val) (n : Nat) (nd : Spec.Node) (msgs : List Spec.Msg) (m : Message) : Prop :=
  match m.typ with
  | .voteResp => m.term ≠ 0 ∧ (m.reject = false →
      (m.from = n ∧ (m.term, n) ∈ nd.dur.votes) ∨ (m.from ≠ n ∧ Spec.Msg.vote m.term m.from n ∈ msgs))
  | .appResp => m.term ≠ 0 ∧ (m.reject = false → m.index = 0 ∨
      (m.from = n ∧ Spec.hasDurAck nd.dur.acks m.term m.index = true) ∨
      (m.from ≠ n ∧ Spec.hasAck msgs m.term m.from m.index = true))
  | _ => NetOK val msgs m

/-- the promise `m` queued in `msgsAfterAppend` of node `n` is recorded in the Spec version `v` -/
def PromOK (n : Nat) (v : Spec.Ver) (m : Message) : Prop :=
  m.from = n ∧ m.term ≠ 0 ∧
  match m.typ with
  | .voteResp => m.reject = false → (m.term, m.to) ∈ v.votes
  | .appResp => m.reject = false → m.index = 0 ∨ (m.term, m.index) ∈ v.acks
  | _ => True

theorem hasAck_mono {msgs msgs' : List Spec.Msg} (hsub : ∀ x ∈ msgs, x ∈ msgs') {t v c : Nat}
    (ha : Spec.hasAck msgs t v c = true) : Spec.hasAck msgs' t v c = true := by
  unfold Spec.hasAck at ha ⊢
  rw [List.any_eq_true] at ha ⊢
  obtain ⟨x, hx, hp⟩ := ha
  exact ⟨x, hsub x hx, hp⟩

theorem NetOK.mono {val : Val} {msgs msgs' : List Spec.Msg} {m : Message} (h : NetOK val msgs m)
    (hsub : ∀ x ∈ msgs, x ∈ msgs') : NetOK val msgs' m := by
  revert h
  unfold NetOK
  split
  · exact fun h => ⟨h.1, h.2.1, h.2.2.1, hsub _ h.2.2.2⟩
  · exact fun h => ⟨h.1, h.2.1, fun hr => hsub _ (h.2.2 hr)⟩
  · exact fun h => ⟨h.1, hsub _ h.2.1, h.2.2⟩
  · exact fun h => ⟨h.1, h.2.1, fun hr => (h.2.2 hr).imp id (hasAck_mono hsub)⟩
  · exact fun h => ⟨h.1, h.2.1, hsub _ h.2.2⟩
  · exact id
  · exact id
  · exact id

theorem InOK.mono {val : Val} {n : Nat} {nd : Spec.Node} {msgs msgs' : List Spec.Msg} {m : Message}
    (h : InOK val n nd msgs m) (hsub : ∀ x ∈ msgs, x ∈ msgs') : InOK val n nd msgs' m := by
  revert h
  unfold InOK
  split
  · exact fun h => ⟨h.1, fun hr => (h.2 hr).imp id fun h' => ⟨h'.1, hsub _ h'.2⟩⟩
  · exact fun h => ⟨h.1, fun hr => (h.2 hr).imp id fun h' => h'.imp id fun h'' => ⟨h''.1, hasAck_mono hsub h''.2⟩⟩
  · exact fun h => h.mono hsub

/-- a network message addressed to `n` may be stepped into `n` -/
theorem NetOK.inOK {val : Val} {n : Nat} {nd : Spec.Node} {msgs : List Spec.Msg} {m : Message}
    (h : NetOK val msgs m) (hto : m.to = n) : InOK val n nd msgs m := by
  unfold InOK
  split
  · rename_i ht
    unfold NetOK at h
    simp only [ht] at h
    exact ⟨h.1, fun hr => Or.inr ⟨hto ▸ h.2.1, hto ▸ h.2.2 hr⟩⟩
  · rename_i ht
    unfold NetOK at h
    simp only [ht] at h
    exact ⟨h.1, fun hr => (h.2.2 hr).imp id fun h' => Or.inr ⟨hto ▸ h.2.1, h'⟩⟩
  · exact h

/-- `InOK` looks only at the durable version of the Spec node -/
theorem InOK.congr {val : Val} {n : Nat} {nd nd' : Spec.Node} {msgs : List Spec.Msg} {m : Message}
    (h : InOK val n nd msgs m) (hd : nd'.dur = nd.dur) : InOK val n nd' msgs m := by
  unfold InOK at h ⊢
  rw [hd]
  exact h

end RaftVerif.Sim
