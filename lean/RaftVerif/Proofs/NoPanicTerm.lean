import RaftVerif.Proofs.NoPanicRaw
/-!
# Proofs/NoPanicTerm — `Raft.step` of a delivered message by term: lower (ignored), higher (`becomeFollower` first)
-/
set_option linter.unusedSimpArgs false
namespace RaftVerif.NoPanicP
open Raft C14 Sim Refine

/-- `becomeFollower` as a run equation -/
theorem becomeFollower_run (t l : Nat) (r : Raft) (d : Nat) (rest : List Nat) (hd : r.draws = d :: rest) :
    (becomeFollower t l).run r = .ok ((), { Next.resetSt r t d rest with lead := l, state := .follower }) := by
  unfold becomeFollower
  simp only [StateT.run_bind, Next.reset_run t r d rest hd, P_ok_bind, StateT.run_modify, P_pure_eq]

theorem term_noErr_becomeFollower (t l : Nat) (r : Raft) (hd : r.draws ≠ []) : NoErr (becomeFollower t l) r := by
  cases h : r.draws with
  | nil => exact absurd h hd
  | cons d rest => exact NoErr.of_ok (becomeFollower_run t l r d rest h)

/-- a message of a lower term is ignored (no CheckQuorum, no PreVote) -/
theorem step_lower_run (fuel : Nat) (m : Message) (r : Raft) (hcq : r.cfg.checkQuorum = false)
    (hpv : r.cfg.preVote = false) (h0 : m.term ≠ 0) (hlt : m.term < r.term) (hty : Deliverable m.typ) :
    (Raft.step (fuel + 1) m).run r = .ok (none, r) := by
  have h0' : (m.term == 0) = false := by simpa using h0
  have h1 : ¬ (m.term > r.term) := by omega
  rw [Raft.step]
  rcases hty with ht | ht | ht | ht | ht | ht <;>
    simp [StateT.run_bind, StateT.run_get, P_pure_eq, P_ok_bind, h0', h1, hlt, ht, hcq, hpv, StateT.run_pure]

/-- a message of a higher term: `becomeFollower`, then the step of a node that already has the term -/
theorem step_higher_run (fuel : Nat) (m : Message) (r : Raft) (hcq : r.cfg.checkQuorum = false)
    (hgt : r.term < m.term) (hty : Deliverable m.typ) (d : Nat) (rest : List Nat) (hd : r.draws = d :: rest) :
    (Raft.step (fuel + 1) m).run r =
      (Raft.step (fuel + 1) m).run
        { Next.resetSt r m.term d rest with lead := leadOf m, state := .follower } := by
  have h0' : (m.term == 0) = false := by simp; omega
  have h1 : ¬ (m.term < r.term) := by omega
  have hl : (Next.resetSt r m.term d rest).term = m.term := rfl
  rw [Raft.step]
  rcases hty with ht | ht | ht | ht | ht | ht <;>
    simp [StateT.run_bind, StateT.run_get, P_pure_eq, P_ok_bind, h0', h1, hgt, ht, hcq, StateT.run_pure,
      becomeFollower_run _ _ r d rest hd, leadOf, Nat.lt_irrefl, hl]

/-- **lifting by term**: a delivered message (non-zero term) does not throw if the step of a node that already has
the message's term does not; `s1`, `r1` are the Spec state / node state after the `updateTerm` (or the original
ones).  One election-timeout draw must be available. -/
theorem noErr_by_term {val : Val} {voters : List Id} {n : Nat} {s : Spec.State} {r : Raft} {m : Message}
    {fuel : Nat} (hinv : RaftInv val voters n r (s.nodes n) s.msgs)
    (hreach : Spec.Reachable (cfgOf voters) s) (hty : Deliverable m.typ) (h0 : m.term ≠ 0) (hd : r.draws ≠ [])
    (hsame : ∀ s1 r1, Spec.Reachable (cfgOf voters) s1 → s1.msgs = s.msgs →
      (s1.nodes n).dur = (s.nodes n).dur → RaftInv val voters n r1 (s1.nodes n) s1.msgs → r1.term = m.term →
      (r1.state ≠ .follower → r1.draws ≠ []) → r1.log = r.log → (r1 = r ∨ r1.state = .follower) →
      NoErr (Raft.step (fuel + 1) m) r1) :
    NoErr (Raft.step (fuel + 1) m) r := by
  rcases Nat.lt_trichotomy m.term r.term with hlt | heq | hgt
  · exact NoErr.of_ok (step_lower_run fuel m r hinv.st.cq hinv.st.pv h0 hlt hty)
  · exact hsame s r hreach rfl rfl hinv heq.symm (fun _ => hd) rfl (Or.inl rfl)
  · cases hdr : r.draws with
    | nil => exact absurd hdr hd
    | cons d rest =>
      intro e he
      rw [step_higher_run fuel m r hinv.st.cq hgt hty d rest hdr] at he
      obtain ⟨s1, hrun, hmsgs, hdur, hinv1, ht1, hst1, _, hlog, _, _⟩ :=
        sim_raise_term' hinv hgt (becomeFollower_run m.term (leadOf m) r d rest hdr)
      exact hsame s1 _ (hrun.reachable hreach) hmsgs hdur hinv1 ht1
        (fun hc => absurd hst1 hc) hlog (Or.inr hst1) e he

/-- **lifting by term, partial correctness**: a property `Q` of the state after the step of a delivered message
holds if it holds for the unchanged state (lower term) and after the step of a node that already has the term -/
theorem spec_by_term {val : Val} {voters : List Id} {n : Nat} {s : Spec.State} {r : Raft} {m : Message}
    {fuel : Nat} {Q : Raft → Prop} (hinv : RaftInv val voters n r (s.nodes n) s.msgs)
    (hreach : Spec.Reachable (cfgOf voters) s) (hty : Deliverable m.typ) (h0 : m.term ≠ 0) (hlow : Q r)
    (hsame : ∀ s1 r1, Spec.Reachable (cfgOf voters) s1 → s1.msgs = s.msgs →
      (s1.nodes n).dur = (s.nodes n).dur → RaftInv val voters n r1 (s1.nodes n) s1.msgs → r1.term = m.term →
      r1.log = r.log → (r1 = r ∨ r1.state = .follower) →
      Spec (Raft.step (fuel + 1) m) r1 (fun _ r' => Q r')) :
    Spec (Raft.step (fuel + 1) m) r (fun _ r' => Q r') := by
  rw [Spec.iff_runs]
  intro e r' hrun
  unfold Runs at hrun
  rcases Nat.lt_trichotomy m.term r.term with hlt | heq | hgt
  · rw [step_lower_run fuel m r hinv.st.cq hinv.st.pv h0 hlt hty] at hrun
    injection hrun with hrun; injection hrun with _ hrun
    rw [← hrun]; exact hlow
  · exact (hsame s r hreach rfl rfl hinv heq.symm rfl (Or.inl rfl)).elim hrun
  · obtain ⟨r1, hbf, hrun1⟩ := raise_term_run hinv hgt hty hrun
    obtain ⟨s1, hrun', hmsgs, hdur, hinv1, ht1, hst1, _, hlog, _, _⟩ := sim_raise_term' hinv hgt hbf
    exact (hsame s1 r1 (hrun'.reachable hreach) hmsgs hdur hinv1 ht1 hlog (Or.inr hst1)).elim hrun1

end RaftVerif.NoPanicP
