import RaftVerif.Proofs.NoPanicRaw
/-!
# Proofs/NoPanicTerm — `Raft.step` of a delivered message by term: lower (ignored), higher (`becomeFollower` first)
-/
set_option linter.unusedSimpArgs false
namespace RaftVerif.NoPanicP
open Raft C14 Sim Refine

/-- `becomeFollower` as a run equation -/
theorem becomeFollower_run (t l : Nat) (r : Raft) (d : Nat) (rest : List Nat) (hd : r.draws = d :: rest) :
    (becomeFollower t l).run r = .ok ((), { Next.resetSt r t d rest with lead := l, state := .follower }) := by
  unfold becomeFollower
  simp only [StateT.run_bind, Next.reset_run t r d rest hd, P_ok_bind, StateT.run_modify, P_pure_eq]

theorem term_noErr_becomeFollower (t l : Nat) (r : Raft) (hd : r.draws ≠ []) : NoErr (becomeFollower t l) r := by
  cases h : r.draws with
  | nil => exact absurd h hd
  | cons d rest => exact NoErr.of_ok (becomeFollower_run t l r d rest h)

/-- a message of a lower term is ignored, or (CheckQuorum / PreVote; a stale leader's MsgApp / MsgHeartbeat) answered
by an empty MsgAppResp -/
theorem step_lower_run_cases (fuel : Nat) (m : Message) (r : Raft)
    (h0 : m.term ≠ 0) (hlt : m.term < r.term) (hty : Deliverable m.typ) :
    (Raft.step (fuel + 1) m).run r = .ok (none, r) ∨
      ((m.typ = .app ∨ m.typ = .heartbeat) ∧
        (Raft.step (fuel + 1) m).run r = .ok (none, pushMaa r (staleResp r m))) := by
  have h0' : (m.term == 0) = false := by simpa using h0
  have h1 : ¬ (m.term > r.term) := by omega
  have ht0 : r.term ≠ 0 := by omega
  cases hq : (r.cfg.checkQuorum || r.cfg.preVote) with
  | false =>
    left
    have hq1 : ¬ (r.cfg.checkQuorum = true ∨ r.cfg.preVote = true) := by simpa using hq
    rw [Raft.step]
    rcases hty with ht | ht | ht | ht | ht | ht <;>
      simp [StateT.run_bind, StateT.run_get, P_pure_eq, P_ok_bind, h0', h1, hlt, ht, hq1, StateT.run_pure]
  | true =>
    have hq1 : r.cfg.checkQuorum = true ∨ r.cfg.preVote = true := by simpa using hq
    by_cases hk : m.typ = .app ∨ m.typ = .heartbeat
    · right
      refine ⟨hk, ?_⟩
      rw [Raft.step]
      rcases hk with ht | ht <;>
        simp [StateT.run_bind, StateT.run_get, P_pure_eq, P_ok_bind, h0', h1, hlt, ht, hq1, StateT.run_pure,
          Raft.send, StateT.run_modify, StateT.run_map, pushMaa, staleResp, ht0] <;> rfl
    · left
      rw [Raft.step]
      rcases hty with ht | ht | ht | ht | ht | ht <;>
        first
        | (exfalso; simp [ht] at hk; done)
        | simp [StateT.run_bind, StateT.run_get, P_pure_eq, P_ok_bind, h0', h1, hlt, ht, hq1, StateT.run_pure]

/-- a message of a lower term that is no MsgApp / MsgHeartbeat is ignored -/
theorem step_lower_run (fuel : Nat) (m : Message) (r : Raft)
    (h0 : m.term ≠ 0) (hlt : m.term < r.term) (hty : Deliverable m.typ)
    (hk : m.typ ≠ .app ∧ m.typ ≠ .heartbeat) :
    (Raft.step (fuel + 1) m).run r = .ok (none, r) := by
  rcases step_lower_run_cases fuel m r h0 hlt hty with h | ⟨h | h, _⟩
  · exact h
  · exact absurd h hk.1
  · exact absurd h hk.2

/-- a message of a higher term (no MsgVote inside the leader lease): `becomeFollower`, then the step of a node that
already has the term -/
theorem step_higher_run (fuel : Nat) (m : Message) (r : Raft)
    (hnl : m.typ = .vote → m.context = some campaignTransferCtx ∨ r.cfg.checkQuorum = false ∨ r.lead = 0 ∨
      ¬ r.electionElapsed < r.cfg.electionTimeout)
    (hgt : r.term < m.term) (hty : Deliverable m.typ) (d : Nat) (rest : List Nat) (hd : r.draws = d :: rest) :
    (Raft.step (fuel + 1) m).run r =
      (Raft.step (fuel + 1) m).run
        { Next.resetSt r m.term d rest with lead := leadOf m, state := .follower } := by
  have h0' : (m.term == 0) = false := by simp; omega
  have h1 : ¬ (m.term < r.term) := by omega
  have hl : (Next.resetSt r m.term d rest).term = m.term := rfl
  rw [Raft.step]
  rcases hty with ht | ht | ht | ht | ht | ht
  · rcases hnl ht with hc | hc | hc | hc <;>
      simp [StateT.run_bind, StateT.run_get, P_pure_eq, P_ok_bind, h0', h1, hgt, ht, hc, StateT.run_pure,
        becomeFollower_run _ _ r d rest hd, leadOf, Nat.lt_irrefl, hl]
  all_goals
    simp [StateT.run_bind, StateT.run_get, P_pure_eq, P_ok_bind, h0', h1, hgt, ht, StateT.run_pure,
      becomeFollower_run _ _ r d rest hd, leadOf, Nat.lt_irrefl, hl]

/-- outside the leader lease -/
theorem not_lease_cases {r : Raft} (h : inLease r ≠ true) :
    r.cfg.checkQuorum = false ∨ r.lead = 0 ∨ ¬ r.electionElapsed < r.cfg.electionTimeout := by
  unfold inLease at h
  cases hcq : r.cfg.checkQuorum with
  | false => exact Or.inl rfl
  | true =>
    right
    by_cases hl : r.lead = 0
    · exact Or.inl hl
    · right
      intro hlt
      apply h
      simp [hcq, hl, hlt]

/-- **lifting by term**: a delivered message (non-zero term) does not throw if the step of a node that already has
the message's term does not; `s1`, `r1` are the Spec state / node state after the `updateTerm` (or the original
ones).  One election-timeout draw must be available. -/
theorem noErr_by_term {val : Val} {voters : List Id} {n : Nat} {s : Spec.State} {r : Raft} {m : Message}
    {fuel : Nat} (hinv : RaftInv val voters n r (s.nodes n) s.msgs)
    (hreach : Spec.Reachable (cfgOf voters) s) (hty : Deliverable m.typ) (h0 : m.term ≠ 0) (hd : r.draws ≠ [])
    (hsame : ∀ s1 r1, Spec.Reachable (cfgOf voters) s1 → s1.msgs = s.msgs →
      (s1.nodes n).dur = (s.nodes n).dur → RaftInv val voters n r1 (s1.nodes n) s1.msgs → r1.term = m.term →
      (r1.state ≠ .follower → r1.draws ≠ []) → r1.log = r.log → (r1 = r ∨ r1.state = .follower) →
      NoErr (Raft.step (fuel + 1) m) r1) :
    NoErr (Raft.step (fuel + 1) m) r := by
  rcases Nat.lt_trichotomy m.term r.term with hlt | heq | hgt
  · rcases step_lower_run_cases fuel m r h0 hlt hty with h | ⟨_, h⟩
    · exact NoErr.of_ok h
    · exact NoErr.of_ok h
  · exact hsame s r hreach rfl rfl hinv heq.symm (fun _ => hd) rfl (Or.inl rfl)
  · by_cases hl : m.typ = .vote ∧ m.context ≠ some campaignTransferCtx ∧ inLease r = true
    · exact NoErr.of_ok (Refinement.inLease_vote_ignored fuel m r (Or.inl hl.1) hgt hl.2.2 hl.2.1)
    have hnl : m.typ = .vote → m.context = some campaignTransferCtx ∨ r.cfg.checkQuorum = false ∨ r.lead = 0 ∨
        ¬ r.electionElapsed < r.cfg.electionTimeout := by
      intro hv
      by_cases hc : m.context = some campaignTransferCtx
      · exact Or.inl hc
      · exact Or.inr (not_lease_cases (fun hi => hl ⟨hv, hc, hi⟩))
    cases hdr : r.draws with
    | nil => exact absurd hdr hd
    | cons d rest =>
      intro e he
      rw [step_higher_run fuel m r hnl hgt hty d rest hdr] at he
      obtain ⟨s1, hrun, hmsgs, hdur, hinv1, ht1, hst1, _, hlog, _, _⟩ :=
        sim_raise_term' hinv hgt (becomeFollower_run m.term (leadOf m) r d rest hdr)
      exact hsame s1 _ (hrun.reachable hreach) hmsgs hdur hinv1 ht1
        (fun hc => absurd hst1 hc) hlog (Or.inr hst1) e he

/-- **lifting by term, partial correctness**: a property `Q` of the state after the step of a delivered message
holds if it holds for the unchanged state (lower term) and after the step of a node that already has the term -/
theorem spec_by_term {val : Val} {voters : List Id} {n : Nat} {s : Spec.State} {r : Raft} {m : Message}
    {fuel : Nat} {Q : Raft → Prop} (hinv : RaftInv val voters n r (s.nodes n) s.msgs)
    (hreach : Spec.Reachable (cfgOf voters) s) (hty : Deliverable m.typ) (h0 : m.term ≠ 0) (hlow : Q r)
    (hlow2 : ∀ x, Q (pushMaa r x))
    (hsame : ∀ s1 r1, Spec.Reachable (cfgOf voters) s1 → s1.msgs = s.msgs →
      (s1.nodes n).dur = (s.nodes n).dur → RaftInv val voters n r1 (s1.nodes n) s1.msgs → r1.term = m.term →
      r1.log = r.log → (r1 = r ∨ r1.state = .follower) →
      Spec (Raft.step (fuel + 1) m) r1 (fun _ r' => Q r')) :
    Spec (Raft.step (fuel + 1) m) r (fun _ r' => Q r') := by
  rw [Spec.iff_runs]
  intro e r' hrun
  unfold Runs at hrun
  rcases Nat.lt_trichotomy m.term r.term with hlt | heq | hgt
  · rcases lower_term_cases h0 hlt hty hrun with rfl | ⟨_, _, rfl⟩
    · exact hlow
    · exact hlow2 _
  · exact (hsame s r hreach rfl rfl hinv heq.symm rfl (Or.inl rfl)).elim hrun
  · rcases raise_term_run hinv hgt hty hrun with rfl | ⟨r1, hbf, hrun1⟩
    · exact hlow
    obtain ⟨s1, hrun', hmsgs, hdur, hinv1, ht1, hst1, _, hlog, _, _⟩ := sim_raise_term' hinv hgt hbf
    exact (hsame s1 r1 (hrun'.reachable hreach) hmsgs hdur hinv1 ht1 hlog (Or.inr hst1)).elim hrun1

end RaftVerif.NoPanicP
