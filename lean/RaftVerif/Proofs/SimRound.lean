import RaftVerif.Proofs.SimCluster
/-!
# Proofs/SimRound — one iteration of the application loop in sync mode: `Ready`; persist; `Advance`
-/
namespace RaftVerif.Sim

/-- the application persists a `Ready` (sync mode): `MemoryStorage.Append(rd.Entries)`, then
`MemoryStorage.SetHardState(rd.HardState)` if the `Ready` carries one -/
def persistReady (rn : RawNode) (rd : Ready) : Except String RawNode := do
  let ms ← rn.raft.log.storage.append rd.entries
  let ms := match rd.hardState with
    | some hs => ms.setHardState hs
    | none => ms
  pure { rn with raft := { rn.raft with log := { rn.raft.log with storage := ms } } }

/-- `Ready`; persist entries and hard state into the node's storage; `Advance`. The messages of the `Ready`
(`rd.messages`) are handed to the network by the environment. -/
def syncRound (rn : RawNode) (draws : List Nat) : Except String (Ready × RawNode) := do
  let (rd, rn1) ← rn.ready
  let rn2 ← persistReady rn1 rd
  let rn3 ← rn2.advance draws
  pure (rd, rn3)

/-- what the round needs from the step lemmas: a node's own promise (its vote for itself, the leader's
acknowledgement of its own entries), durable by now, can be stepped into it -/
def SelfStepOK (val : Refine.Val) (voters : List Id) (n : Nat) : Prop :=
  ∀ (s : Spec.State) (r r' : Raft) (m : Message) (e : Option StepErr),
    RaftInv val voters n r (s.nodes n) s.msgs → Spec.Reachable (cfgOf voters) s →
    (m.typ = .voteResp ∨ m.typ = .appResp) → m.from = n → m.to = n → m.reject = false →
    InOK val n (s.nodes n) s.msgs m →
    (Raft.step Raft.stepFuel m).run r = .ok (e, r') → RaftSim val voters n s r'

end RaftVerif.Sim
