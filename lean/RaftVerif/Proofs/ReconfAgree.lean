import RaftVerif.Proofs.ReconfAll
/-!
# Agreement of committed prefixes and of the configurations computed from them (helpers)
-/
namespace RaftVerif.SpecR

/-- two chosen indexes determine the same prefix below both of them (prefix form of `chosen_agree`) -/
theorem chosen_take_agree {c0 : Conf} {s : State} (hC : InvC c0 s) (h3 : Inv3 c0 s)
    {c c' j j' i : Nat} (hc : Chosen c0 s c j) (hc' : Chosen c0 s c' j') (hcc : c ≤ c')
    (hi : i ≤ j) : List.take i (s.glog c') = List.take i (s.glog c) := by
  by_cases heq : c = c'
  · subst heq; rfl
  · obtain ⟨k', _, hok'⟩ := hc'.ok hC
    obtain ⟨n, hn⟩ := hok'.elected
    rcases h3.safe_at c' n hn c j (by omega) (hc.term hC) with h | h
    · have := congrArg (List.take i) h
      simpa [List.take_take, Nat.min_eq_left hi] using this
    · exact absurd h (fun hd => chosen_not_dead hC h3.choice_q hc (Nat.le_refl _) hd)

/-- two prefixes that are both committed agree up to the smaller of the two bounds -/
theorem prefixCommitted_agree {c0 : Conf} {s : State} (hC : InvC c0 s) (h3 : Inv3 c0 s)
    {τ τ' : Nat} {L L' : Log} {m m' i : Nat} (h : PrefixCommitted c0 s τ L m)
    (h' : PrefixCommitted c0 s τ' L' m') (hi : i ≤ m) (hi' : i ≤ m') :
    List.take i L = List.take i L' := by
  rcases h with h | ⟨c, j, _, hmj, hch, ht⟩
  · have : i = 0 := by omega
    subst this; simp
  rcases h' with h' | ⟨c', j', _, hmj', hch', ht'⟩
  · have : i = 0 := by omega
    subst this; simp
  have e1 : List.take i L = List.take i (s.glog c) := by
    have := congrArg (List.take i) ht
    simpa [List.take_take, Nat.min_eq_left hi] using this
  have e2 : List.take i L' = List.take i (s.glog c') := by
    have := congrArg (List.take i) ht'
    simpa [List.take_take, Nat.min_eq_left hi'] using this
  rw [e1, e2]
  rcases Nat.le_total c c' with hcc | hcc
  · exact (chosen_take_agree hC h3 hch hch' hcc (by omega)).symm
  · exact chosen_take_agree hC h3 hch' hch hcc (by omega)

end RaftVerif.SpecR
