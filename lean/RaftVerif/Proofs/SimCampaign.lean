import RaftVerif.Proofs.SimInv
import RaftVerif.Proofs.NextSolo
/-!
# Proofs/SimCampaign — MsgHup / the election timer: Spec `campaign n ; sendReqVote n`, or nothing
-/
namespace RaftVerif.Sim
open Refine Raft
set_option linter.unusedSimpArgs false

/-! ### the static part of the state across `campaign` -/

/-- the progress map after `reset` (keys and `isLearner` flags kept) -/
def resetProg (s : Raft) : List (Id × Progress) :=
  s.trk.progress.map fun (id, pr) =>
    (id, ({ match_ := if id == s.cfg.id then s.log.lastIndex else 0, next := s.log.lastIndex + 1,
            inflights := { size := s.trk.maxInflight, maxBytes := s.trk.maxInflightBytes },
            isLearner := pr.isLearner } : Progress))

theorem mapGet_map_snd {β γ : Type} (f : Id → β → γ) (l : List (Id × β)) (k : Id) :
    mapGet (l.map fun (p : Id × β) => (p.1, f p.1 p.2)) k = (mapGet l k).map (f k) := by
  unfold mapGet
  induction l with
  | nil => rfl
  | cons p rest ih =>
    obtain ⟨a, b⟩ := p
    simp only [List.map_cons, Quorum.lookup]
    by_cases h : a = k
    · subst h; simp
    · have : (a == k) = false := by simpa using h
      simp only [this, Bool.false_eq_true, ↓reduceIte]
      exact ih

theorem mapGet_resetProg (s : Raft) (k : Id) :
    (mapGet (resetProg s) k).isSome = (mapGet s.trk.progress k).isSome ∧
    ∀ pr, mapGet (resetProg s) k = some pr → ∃ pr0, mapGet s.trk.progress k = some pr0 ∧
      pr.isLearner = pr0.isLearner := by
  have h := mapGet_map_snd (fun id (pr : Progress) =>
    ({ match_ := if id == s.cfg.id then s.log.lastIndex else 0, next := s.log.lastIndex + 1,
       inflights := { size := s.trk.maxInflight, maxBytes := s.trk.maxInflightBytes },
       isLearner := pr.isLearner } : Progress)) s.trk.progress k
  have h' : mapGet (resetProg s) k = _ := h
  rw [h']
  cases mapGet s.trk.progress k with
  | none => simp
  | some pr0 =>
    refine ⟨rfl, fun pr hpr => ⟨pr0, rfl, ?_⟩⟩
    simp only [Option.map_some, Option.some.injEq] at hpr
    rw [← hpr]

/-- what `RaftStatic` needs to know about the state after `reset` / `becomeCandidate` / `campaign` -/
structure StatPost (s s' : Raft) : Prop where
  xfer : s'.leadTransferee = 0
  pri : s'.pendingReadIndexMessages = s.pendingReadIndexMessages
  ro : s'.readOnly.unconfirmed = []
  prog : s'.trk.progress = resetProg s

theorem reset_stat (t : Nat) (s : Raft) : Spec (reset t) s (fun _ s' => StatPost s s') := by
  unfold reset
  simp only [wp]
  intro d rest _
  by_cases h : s.term = t <;> constructor <;> simp [h, Tracker.resetVotes, resetProg]

theorem becomeCandidate_stat (s : Raft) : Spec becomeCandidate s (fun _ s' => StatPost s s') := by
  unfold becomeCandidate
  simp only [wp]
  refine ⟨fun _ => trivial, fun _ => (reset_stat (s.term + 1) s).mono ?_⟩
  intro _ s' h
  exact ⟨h.xfer, h.pri, h.ro, h.prog⟩

/-- `send` keeps the static part -/
def StatKeep (a b : Raft) : Prop :=
  b.trk.progress = a.trk.progress ∧ b.leadTransferee = a.leadTransferee ∧
  b.pendingReadIndexMessages = a.pendingReadIndexMessages ∧ b.readOnly = a.readOnly

theorem send_statKeep (m : Message) (s : Raft) : Spec (send m) s (fun _ s' => StatKeep s s') := by
  refine (send_spec m s).mono ?_
  rintro _ s' (⟨_, rfl⟩ | ⟨_, rfl⟩) <;> exact ⟨rfl, rfl, rfl, rfl⟩

theorem campaign_stat (t : CampaignType) (ht : t ≠ .preElection) (s : Raft) :
    Spec (campaign t) s (fun _ s' => StatPost s s') := by
  unfold campaign
  have hb : (t == CampaignType.preElection) = false := by simpa using ht
  simp only [wp, hb, Bool.false_eq_true, false_implies, true_implies, not_false_eq_true, true_and]
  refine (becomeCandidate_stat s).mono ?_
  intro _ mid hmid
  refine (Spec.forIn_list_rel mid.trk.voterNodes PUnit.unit _ StatKeep (fun _ => ⟨rfl, rfl, rfl, rfl⟩)
    (fun a b c h1 h2 => ⟨h2.1.trans h1.1, h2.2.1.trans h1.2.1, h2.2.2.1.trans h1.2.2.1,
      h2.2.2.2.trans h1.2.2.2⟩) mid ?_).mono ?_
  · intro x _ _ cur
    simp only [wp]
    refine ⟨fun _ => (send_statKeep _ cur).mono (fun _ _ h => h), fun _ => ?_⟩
    intro last _
    exact (send_statKeep _ cur).mono (fun _ _ h => h)
  · intro _ s' h
    exact ⟨h.2.1.trans hmid.xfer, h.2.2.1.trans hmid.pri, by rw [h.2.2.2]; exact hmid.ro, h.1.trans hmid.prog⟩

theorem RaftStatic.campaign {val : Val} {voters : List Id} {n : Nat} {t : CampaignType} {r r' : Raft}
    (h : RaftStatic voters n r) (hp : CampaignPost val t r r') (hs : StatPost r r') :
    RaftStatic voters n r' := by
  have hg : ∀ v, r'.trk.getProgress v = mapGet (resetProg r) v := fun v => by
    unfold Tracker.getProgress; rw [hs.prog]
  exact {
    id := by rw [hp.cfg]; exact h.id
    idnz := h.idnz
    pv := by rw [hp.cfg]; exact h.pv
    xfer := hs.xfer
    pri := hs.pri.trans h.pri
    ro := hs.ro
    tvoters := by rw [hp.trkCfg]; exact h.tvoters
    tout := by rw [hp.trkCfg]; exact h.tout
    tauto := by rw [hp.trkCfg]; exact h.tauto
    prog := fun v => by
      rw [hg, (mapGet_resetProg r v).1]
      exact h.prog v
    nolearn := fun v pr hpr => by
      rw [hg] at hpr
      obtain ⟨pr0, h0, hl⟩ := (mapGet_resetProg r v).2 pr hpr
      rw [hl]
      exact h.nolearn v pr0 h0
    self := h.self }

/-- the Spec node of `n` after `campaign n ; sendReqVote n` -/
theorem campaign_node (s : Spec.State) (n : Nat) :
    let nd' := (Spec.apply (Spec.apply s (.campaign n)) (.sendReqVote n)).nodes n
    nd'.pending = (s.nodes n).pending ∧ nd'.dur = (s.nodes n).dur ∧
    nd'.vol.votes = ((s.nodes n).vol.term + 1, n) :: (s.nodes n).vol.votes ∧
    nd'.vol.acks = (s.nodes n).vol.acks := by
  simp [Spec.apply, Spec.setNode]

theorem PromOK.mono {n : Nat} {v v' : Spec.Ver} {m : Message} (h : PromOK n v m)
    (hv : ∀ p ∈ v.votes, p ∈ v'.votes) (ha : ∀ p ∈ v.acks, p ∈ v'.acks) : PromOK n v' m := by
  obtain ⟨a, b, c⟩ := h
  refine ⟨a, b, ?_⟩
  revert c
  split
  · exact fun c hr => hv _ (c hr)
  · exact fun c hr => (c hr).imp id (ha _)
  · exact id

/-- **a real election** (`campaign(campaignElection)`): Spec `campaign n ; sendReqVote n` -/
theorem sim_campaign {val : Val} {voters : List Id} {n : Nat} {s : Spec.State} {r r' : Raft}
    (hinv : RaftInv val voters n r (s.nodes n) s.msgs)
    (hp : CampaignPost val .election r r') (hst : StatPost r r') : RaftSim val voters n s r' := by
  have hn : n = r.cfg.id := hinv.st.id.symm
  obtain ⟨hen, _, hen2, habs, hmsgs, _⟩ := campaign_abs val (cfgOf voters) s n .election r r' hinv.abs hn hp
  have hen1 := hen (by rw [← hn]; exact hinv.st.idnz)
  obtain ⟨hpend, hdur, hvotes, hacks⟩ := campaign_node s n
  have hl : absLog val r' = absLog val r := by unfold absLog; rw [hp.log]
  have hnl : r'.state ≠ .leader := by rw [hp.state]; simp
  refine ⟨[.campaign n, .sendReqVote n], _, .cons hen1 (.single hen2), by simp [Spec.Action.actor], ?_⟩
  rw [hmsgs]
  exact {
    abs := habs
    st := hinv.st.campaign hp hst
    wf := by rw [hp.log]; exact hinv.wf
    unc := by rw [hp.log]; exact hinv.unc
    leadInv := fun h => absurd h hnl
    candVote := fun _ => hp.vote.trans hinv.st.id
    termPos := fun _ => by rw [hp.term]; exact Nat.succ_ne_zero _
    logLe := fun e he => by rw [hl] at he; rw [hp.term]; exact Nat.le_succ_of_le (hinv.logLe e he)
    candLt := fun _ e he => by rw [hl] at he; rw [hp.term]; exact Nat.lt_succ_of_le (hinv.logLe e he)
    pend := hpend.trans hinv.pend
    durV := fun p hp' => by
      rw [hvotes]; rw [hdur] at hp'
      exact List.mem_cons_of_mem _ (hinv.durV p hp')
    durA := fun p hp' => by
      rw [hacks]; rw [hdur] at hp'
      exact hinv.durA p hp'
    out := fun x hx => by
      rw [hp.msgs] at hx
      rcases List.mem_append.1 hx with hx | hx
      · exact (hinv.out x hx).mono (fun y hy => List.mem_cons_of_mem _ hy)
      · obtain ⟨h1, h2, h3, _, h5, h6, h7, _⟩ := mem_voteReqs hx
        unfold NetOK
        simp only [h1]
        refine ⟨by rw [h5]; exact Nat.succ_ne_zero _, by rw [h2, ← hn]; exact hinv.st.idnz,
          by rw [h2]; exact fun h => h3 h.symm, ?_⟩
        rw [h5, h2, h6, h7, ← hn]
        exact List.mem_cons_self
    prom := fun x hx => by
      rw [hp.maa] at hx
      rcases List.mem_append.1 hx with hx | hx
      · exact (hinv.prom x hx).mono (fun p h => by rw [hvotes]; exact List.mem_cons_of_mem _ h)
          (fun p h => by rw [hacks]; exact h)
      · obtain ⟨h1, h2, h3, h4, _⟩ := mem_ownVotes hx
        refine ⟨h2.trans hn.symm, by rw [h4]; exact Nat.succ_ne_zero _, ?_⟩
        simp only [h1]
        intro _
        rw [hvotes, h4, h3, ← hn, hinv.abs.term]
        exact List.mem_cons_self
    rvTerm := fun t lt li hx => by
      rw [hp.term]
      rcases List.mem_cons.1 hx with hx | hx
      · injection hx with h1
        omega
      · exact Nat.le_succ_of_le (hinv.rvTerm t lt li hx)
    rvCov := fun _ => by
      unfold Spec.reqVotesCovered
      rw [List.all_eq_true]
      intro x hx
      cases x with
      | reqVote t' c' lt li =>
        rcases List.mem_cons.1 hx with hx1 | hx2
        · injection hx1 with _ _ h3 h4
          subst h3 h4
          rw [hl]
          simp
        · by_cases hc : c' = n
          · rw [hc] at hx2
            have hle := hinv.rvTerm t' lt li hx2
            have : (t' == r'.term) = false := by
              rw [hp.term]
              simp only [beq_eq_false_iff_ne, ne_eq]
              omega
            simp [this]
          · have : (c' == n) = false := by simpa using hc
            simp [this]
      | _ => rfl
    votes := fun _ v hv => by
      rw [hp.votes] at hv
      simp [mapGet, Quorum.lookup] at hv
    selfVote := fun _ => by
      rw [hp.votes]
      simp [mapGet, Quorum.lookup]
    matchO := fun h => absurd h hnl
    matchS := fun h => absurd h hnl }

set_option linter.unusedVariables false in
/-- **MsgHup** (`RawNode.campaign`): a real election (no PreVote), or nothing -/
theorem sim_hup {val : Val} {voters : List Id} {n : Nat} {s : Spec.State} {r r' : Raft} {m : Message}
    {e : Option StepErr} {fuel : Nat} (hinv : RaftInv val voters n r (s.nodes n) s.msgs)
    (hreach : Spec.Reachable (cfgOf voters) s)
    (ht : m.typ = .hup) (h0 : m.term = 0)
    (h : (Raft.step (fuel + 1) m).run r = .ok (e, r')) : RaftSim val voters n s r' := by
  by_cases hl : r.state = .leader
  · obtain ⟨rfl, _⟩ := step_hup_noop fuel m r r' e ht h0 (Or.inl hl) h
    exact RaftSim.refl hinv
  cases hpb : Live.promotableB r with
  | false =>
    obtain ⟨rfl, _⟩ := step_hup_noop fuel m r r' e ht h0 (Or.inr (Or.inl hpb)) h
    exact RaftSim.refl hinv
  | true =>
    cases hu : hasUnappliedConfChanges.run r with
    | error err =>
      rw [Live.step_hup_run fuel m r ht h0, Live.hup_run, if_neg hl, if_neg (by rw [hpb]; simp), hu] at h
      simp [bind, Except.bind] at h
    | ok p =>
      obtain ⟨b, r1⟩ := p
      have hr1 : r1 = r := (hasUnappliedConfChanges_same r).elim hu
      subst hr1
      cases b with
      | true =>
        obtain ⟨rfl, _⟩ := step_hup_noop fuel m r1 r' e ht h0 (Or.inr (Or.inr hu)) h
        exact RaftSim.refl hinv
      | false =>
        obtain ⟨_, hp⟩ := step_hup_refine val fuel m r1 r' e ht h0 hinv.st.pv hl hpb hu hinv.wf hinv.unc h
        rw [Live.step_hup_run fuel m r1 ht h0, hinv.st.pv, if_neg (by simp), hup_run_campaign _ r1 hl hpb hu] at h
        obtain ⟨p, hc, h'⟩ := bind_eq_ok.1 h
        injection h' with h'
        injection h' with _ e2
        subst e2
        exact sim_campaign hinv hp ((campaign_stat .election (by simp) r1).elim hc)

/-- **tick of a non-leader** (`tickElection`): idle, or the election timer fires = MsgHup -/
theorem sim_tick_nonleader {val : Val} {voters : List Id} {n : Nat} {s : Spec.State} {r r' : Raft}
    (hinv : RaftInv val voters n r (s.nodes n) s.msgs)
    (hreach : Spec.Reachable (cfgOf voters) s) (hs : r.state ≠ .leader)
    (h : Raft.tick.run r = .ok ((), r')) : RaftSim val voters n s r' := by
  rw [Next.tick_run_nonleader r hs] at h
  by_cases hf : Live.promotableB r = true ∧ r.randomizedElectionTimeout ≤ r.electionElapsed + 1
  · rw [Live.tickElection_run_fire r hf.1 hf.2] at h
    obtain ⟨p, hc, h'⟩ := bind_eq_ok.1 h
    obtain ⟨e, r2⟩ := p
    injection h' with h'
    injection h' with _ e2
    subst e2
    have hinv0 : RaftInv val voters n { r with electionElapsed := 0 } (s.nodes n) s.msgs :=
      hinv.congr rfl rfl rfl rfl rfl rfl rfl rfl rfl rfl rfl rfl
    exact sim_hup (fuel := 2) hinv0 hreach rfl rfl hc
  · have hidle : Live.promotableB r = false ∨ r.electionElapsed + 1 < r.randomizedElectionTimeout := by
      cases hpb : Live.promotableB r with
      | false => exact Or.inl rfl
      | true =>
        right
        have : ¬ r.randomizedElectionTimeout ≤ r.electionElapsed + 1 := fun h2 => hf ⟨hpb, h2⟩
        omega
    rw [Live.tickElection_run_idle r hidle] at h
    injection h with h
    injection h with _ e2
    subst e2
    exact RaftSim.refl (hinv.congr rfl rfl rfl rfl rfl rfl rfl rfl rfl rfl rfl rfl)

end RaftVerif.Sim
