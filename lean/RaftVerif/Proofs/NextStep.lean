import RaftVerif.Proofs.NextTerm
import RaftVerif.Proofs.StepElect
/-!
# Proofs/NextStep — the sites at which `Raft.step` changes the term (C17)
-/
namespace RaftVerif.Next
open Raft
set_option linter.unusedSimpArgs false

/-- a local MsgProp (term 0) keeps the term whatever the role -/
theorem step_prop_te (fuel : Nat) (m : Message) (s : Raft) (ht : m.typ = .prop) (h0 : m.term = 0) :
    Spec (step fuel m) s (fun _ s' => TE s s') := by
  cases fuel with
  | zero => rw [step]; simp only [wp]
  | succ fuel =>
    refine step_prop_local fuel m s _ ht h0 (fun _ => stepLeader_te ..) (fun _ => ?_)
      (fun hs => stepFollower_te _ _ _ hs (by rw [ht]; intro h; cases h))
    exact (stepCandidate_prop_spec fuel m s ht).mono (fun _ _ h => by rw [h.2]; exact TE.refl _)

theorem appliedTo_te (fuel i sz : Nat) (s : Raft) : Spec (appliedTo fuel i sz) s (fun _ s' => TE s s') := by
  rw [appliedTo]
  rel_start
  wp_auto [first | te_step | rel_call (step_prop_te _ _ _ rfl rfl)]

theorem appliedSnap_te (fuel : Nat) (snap : Snapshot) (s : Raft) :
    Spec (appliedSnap fuel snap) s (fun _ s' => TE s s') := by
  rw [appliedSnap]
  rel_start
  wp_auto [first | te_step | rel_call (appliedTo_te ..)]

/-- the tracker after recording the vote carried by `m` -/
abbrev afterVote (s : Raft) (m : Message) : Tracker := s.trk.recordVote m.from (!m.reject)

/-- **the one site at which a node raises its own term in `stepCandidate`**: a pre-candidate receives a
MsgPreVoteResp — a granting one only if it was issued for `term + 1` — after which the joint tally of
the recorded votes is `won`; it then becomes candidate of `term + 1` and votes for itself -/
def PreVoteWin (s : Raft) (m : Message) (s' : Raft) : Prop :=
  s.state = .preCandidate ∧ m.typ = .preVoteResp ∧ (m.reject = false → m.term = s.term + 1) ∧
  (afterVote s m).tallyVotes.2.2 = .won ∧
  s'.term = s.term + 1 ∧ s'.state = .candidate ∧ s'.vote = s.cfg.id

/-- `stepCandidate`: the term is kept, or becomes the message's (MsgApp / MsgHeartbeat / MsgSnap), or
`PreVoteWin` -/
theorem stepCandidate_sites (fuel : Nat) (m : Message) (s : Raft) :
    Spec (stepCandidate fuel m) s (fun _ s' => TE s s' ∨ s'.term = m.term ∨ PreVoteWin s m s') := by
  rw [stepCandidate]
  simp only [wp]
  have hfol : ∀ (act : M Unit), (∀ mid, mid.state = .follower → Spec act mid (fun _ s' => TE mid s')) →
      Spec (becomeFollower m.term m.from) s (fun _ mid =>
        Spec act mid (fun _ s' => TE s s' ∨ s'.term = m.term ∨ PreVoteWin s m s')) := by
    intro act hact
    refine (becomeFollower_spec m.term m.from s).mono ?_
    intro _ mid ⟨h1, _, _, h4, _⟩
    refine (hact mid h4).mono ?_
    intro _ s' hte
    exact Or.inr (Or.inl (hte.term.trans h1))
  split
  · simp only [wp]; exact Or.inl (TE.refl _)
  · simp only [wp]
    exact hfol _ (fun mid _ => handleAppendEntries_te m mid)
  · simp only [wp]
    exact hfol _ (fun mid _ => handleHeartbeat_te m mid)
  · simp only [wp]
    exact hfol _ (fun mid hm => handleSnapshot_te m mid hm)
  · simp only [wp]; exact Or.inl (TE.refl _)
  · simp only [wp]
    refine ⟨fun htyp => ⟨fun _ => Or.inl (TE.refl _), fun hcond => ?_⟩, fun _ => Or.inl (TE.refl _)⟩
    split
    · rename_i hwon
      simp only [wp]
      refine ⟨fun hpre => ?_, fun hpre => ⟨fun _ => Or.inl ⟨rfl, rfl⟩, fun hown => ?_⟩⟩
      · refine (Live.campaign_election_spec _).mono (fun _ s' h => ?_)
        obtain ⟨h1, h2, h3, _, _⟩ := h
        have hpc : s.state = .preCandidate := by simpa using hpre
        refine Or.inr (Or.inr ⟨hpc, ?_, ?_, hwon, h2, h1, h3⟩)
        · simpa [hpc] using htyp
        · intro hrej
          simp only [hpc, hrej, Bool.and_eq_true, beq_iff_eq, Bool.not_eq_true', bne_iff_ne, ne_eq, not_and,
            Decidable.not_not, beq_self_eq_true, true_and, Bool.not_false, forall_const] at hcond
          exact hcond
      · refine (becomeLeader_te _).mono (fun _ mid hte => ?_)
        refine (bcastAppend_te _).mono (fun _ s' hte' => ?_)
        exact Or.inl ⟨hte'.term.trans hte.term, hte'.cfg.trans hte.cfg⟩
    · simp only [wp]
      exact (becomeFollower_te s.term 0 { s with trk := s.trk.recordVote m.from (!m.reject) } rfl).mono
        (fun _ s' hte => Or.inl (TE.mk hte.term hte.cfg))
    · simp only [wp]
      exact Or.inl ⟨rfl, rfl⟩

/-- what `step` does to the term -/
abbrev TermPost (r : Raft) (m : Message) (r' : Raft) : Prop :=
  r'.term = r.term ∨ r'.term = m.term ∨ PreVoteWin r m r'

theorem step_sites_succ (fuel : Nat) (m : Message) (r : Raft) (hpv : r.cfg.preVote = true)
    (hm : m.typ ≠ .timeoutNow) :
    Spec (step (fuel + 1) m) r (fun _ r' => TermPost r m r') := by
  rw [step]
  simp (config := {zeta := false}) only [wp]
  spec_jp (fun mid => mid.cfg.preVote = true ∧ (mid = r ∨ (mid.term = m.term ∧ mid.state = .follower)))
  · intro u mid hpre
    obtain ⟨hpv', hmid⟩ := hpre
    refine Spec.mono (Q := fun _ s' => TE mid s' ∨ s'.term = m.term ∨ PreVoteWin mid m s') ?_ ?_
    · have hte : ∀ {act : M (Option StepErr)}, Spec act mid (fun _ s' => TE mid s') →
          Spec act mid (fun _ s' => TE mid s' ∨ s'.term = m.term ∨ PreVoteWin mid m s') :=
        fun h => h.mono (fun _ _ h => Or.inl h)
      split
      · refine hte ?_
        rel_start
        wp_auto [first | te_step | rel_call (hup_preElection_te ..) | exact absurd hpv' (by assumption)]
      · refine hte ?_
        rel_start
        wp_auto [first | te_step | rel_call (appliedSnap_te ..)]
      · refine hte ?_
        rel_start
        wp_auto [first | te_step | rel_call (appliedTo_te ..)]
      · refine hte ?_
        rel_start
        wp_auto [first | te_step]
      · refine hte ?_
        rel_start
        wp_auto [first | te_step]
      · simp only [wp]
        split
        · exact hte (stepLeader_te ..)
        · exact stepCandidate_sites ..
        · exact stepCandidate_sites ..
        · exact hte (stepFollower_te _ _ _ (by assumption) hm)
    · intro _ s' h
      rcases hmid with rfl | ⟨ht, hs⟩
      · rcases h with h | h | h
        · exact Or.inl h.term
        · exact Or.inr (Or.inl h)
        · exact Or.inr (Or.inr h)
      · rcases h with h | h | h
        · exact Or.inr (Or.inl (h.term.trans ht))
        · exact Or.inr (Or.inl h)
        · exact absurd (h.1.symm.trans hs) (by intro h; cases h)
  · intro body hbody
    simp (config := {zeta := false}) only [wp]
    refine ⟨fun h0 => ?_, fun h0 => ⟨fun hgt => ?_, fun hgt => ⟨fun hlt => ?_, fun hlt => ?_⟩⟩⟩
    · exact hbody () r ⟨hpv, Or.inl rfl⟩
    · spec_jp (fun mid => mid = r)
      · intro _ mid hmid
        subst hmid
        simp only [wp]
        refine ⟨fun _ => hbody _ _ ⟨hpv, Or.inl rfl⟩, fun _ => ⟨fun _ => hbody _ _ ⟨hpv, Or.inl rfl⟩, fun _ => ⟨fun _ => ?_, fun _ => ?_⟩⟩⟩
        all_goals (
          refine (becomeFollower_spec _ _ _).mono ?_
          intro _ mid2 ⟨h1, _, _, h4, _, h6, _⟩
          exact hbody _ _ ⟨by rw [h6]; exact hpv, Or.inr ⟨h1, h4⟩⟩)
      · intro jp1 hjp1
        simp (config := {zeta := false}) only [wp]
        refine ⟨fun _ => ?_, fun _ => hjp1 _ _ rfl⟩
        spec_zeta
        spec_zeta
        simp (config := {zeta := false}) only [wp]
        exact ⟨fun _ => Or.inl rfl, fun _ => hjp1 _ _ rfl⟩
    · refine Spec.mono (Q := fun _ s' => TE r s') ?_ (fun _ _ h => Or.inl h.term)
      rel_start
      wp_auto [first | te_step | rel_call (appliedSnap_te ..)]
    · exact hbody () r ⟨hpv, Or.inl rfl⟩

/-- **`Step` at a node with PreVote** (any role, any fuel, any message but MsgTimeoutNow): the term is
kept, or becomes the message's term, or `PreVoteWin` -/
theorem step_sites (fuel : Nat) (m : Message) (r : Raft) (hpv : r.cfg.preVote = true)
    (hm : m.typ ≠ .timeoutNow) : Spec (step fuel m) r (fun _ r' => TermPost r m r') := by
  cases fuel with
  | zero => rw [step]; simp only [wp]
  | succ fuel => exact step_sites_succ fuel m r hpv hm

end RaftVerif.Next
