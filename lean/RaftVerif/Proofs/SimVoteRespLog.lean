import RaftVerif.Proofs.SimVoteRespAux
import RaftVerif.Proofs.SimLog
/-!
# Proofs/SimVoteRespLog — a same-term MsgVoteResp keeps the log `Settled`
-/
namespace RaftVerif.Sim
open Refine Raft

/-- `becomeLeader` appends one entry to the log: the log stays settled -/
theorem vrl_becomeLeader_settled (p : Raft) :
    Spec Raft.becomeLeader p (fun _ s1 => LSettled p.log → LSettled s1.log) := by
  unfold Raft.becomeLeader
  simp only [wp]
  refine ⟨fun _ => trivial, fun _ => ?_⟩
  refine (Spec.runs (Raft.reset p.term) p).mono ?_
  intro _ mid hrun
  obtain ⟨d, rest, _, rfl⟩ := vr_reset_run_exact hrun
  intro pr _
  refine (appendEntry_spec_st _ _).mono ?_
  rintro ok s' (⟨rfl, rfl⟩ | ⟨rfl, q, hq, rfl⟩)
  · exact ⟨fun _ => trivial, fun h => absurd h (by simp)⟩
  · refine ⟨fun h => absurd h (by simp), fun _ hs => ?_⟩
    exact append_settled (l := p.log) (li := q.2) hs hq

/-- a same-term MsgVoteResp keeps the log settled -/
theorem settled_voteResp_same {val : Val} {voters : List Id} {n : Nat} {s : Spec.State} {r r' : Raft} {m : Message}
    {e : Option StepErr} {fuel : Nat} (hinv : RaftInv val voters n r (s.nodes n) s.msgs) (hs : Settled r)
    (ht : m.typ = .voteResp) (hterm : m.term = r.term)
    (h : (Raft.step (fuel + 1) m).run r = .ok (e, r')) : Settled r' := by
  by_cases hc : r.state = .candidate
  · rw [step_same_term_dispatch fuel m r (Or.inr hterm) (by rw [ht]; decide)] at h
    have hd : dispatch fuel m r = Raft.stepCandidate fuel m := by unfold dispatch; rw [hc]
    rw [hd] at h
    rcases (vr_stepCandidate_cases fuel m r hc ht).elim h with rfl | hlost | ⟨_, _, s1, h1, h2⟩
    · exact hs
    · obtain ⟨d, rest, _, rfl⟩ := vr_becomeFollower_run_exact hlost
      exact hs
    · have hp := (becomeLeader_refine val (polled r m) hinv.wf hinv.unc).elim h1
      have h3 : LSettled s1.log := (vrl_becomeLeader_settled (polled r m)).elim h1 hs
      have hok := (bcastAppend_sendsOK val s1 hp.wf hp.unc).elim h2
      show LSettled r'.log
      rw [hok.log]; exact h3
  · have := vr_ignored fuel m r r' e hc ht hterm h
    subst this
    exact hs

end RaftVerif.Sim
