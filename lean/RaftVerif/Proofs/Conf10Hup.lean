import RaftVerif.Proofs.LogSlice
import RaftVerif.Proofs.StepGood
import RaftVerif.Proofs.FlowMonad
/-!
# Proofs/Conf10Hup — `hup` does not campaign over a committed, unapplied configuration change

* `scanAny_eq` — `raftLog.scan` (specialised, paginated) is correct w.r.t. the abstract log
* `UnappliedCC`, `hasUnappliedConfChanges_run` — what `hasUnappliedConfChanges` answers
* `hup_refuses`, `hup_run` — `hup` in all cases
Core Lean only.
-/
namespace RaftVerif.Conf10
open Raft

/-- **`scanAny` is correct** (with pagination): for a range `[lo, hi)` inside a well-formed log and enough
fuel (one page per entry always suffices), it never panics and answers whether some entry of the
abstract slice satisfies `p` -/
theorem scanAny_eq {l : RaftLog} (h : l.WF) (p : Entry → Bool) (pageSize : Nat) :
    ∀ (fuel lo hi : Nat), l.abs.first ≤ lo → hi ≤ l.abs.last + 1 → hi - lo < fuel →
      l.scanAny p pageSize fuel lo hi = .ok ((l.abs.slice lo hi).any p) := by
  intro fuel
  induction fuel with
  | zero => intro lo hi _ _ hf; omega
  | succ fuel ih =>
    intro lo hi h1 h3 hf
    unfold RaftLog.scanAny
    by_cases hlt : lo < hi
    · rw [if_pos hlt, RaftLog.slice_eq h]
      unfold ALog.sliceResult
      rw [if_neg (by omega), if_neg (by omega), if_neg (by omega)]
      have hlen := l.abs.slice_length h1 (Nat.le_of_lt hlt) h3
      have hne : l.abs.slice lo hi ≠ [] := by
        intro h0; rw [h0] at hlen; simp at hlen; omega
      have hpre := limitSize_prefix (l.abs.slice lo hi) pageSize
      have hpne := limitSize_ne_nil (l.abs.slice lo hi) pageSize hne
      generalize hpg : limitSize (l.abs.slice lo hi) pageSize = page at hpre hpne
      have hn : page.length ≤ hi - lo := by rw [← hlen]; exact hpre.length_le
      have hpos : 0 < page.length := List.length_pos_iff.mpr hpne
      have hpage : page = l.abs.slice lo (lo + page.length) := by
        have e1 := List.prefix_iff_eq_take.mp hpre
        rw [← l.abs.slice_append h1 (Nat.le_add_right lo page.length) (show lo + page.length ≤ hi by omega)] at e1
        rw [List.take_append_of_le_length (by
          rw [l.abs.slice_length h1 (Nat.le_add_right _ _) (by omega)]; omega)] at e1
        rw [List.take_of_length_le (by
          rw [l.abs.slice_length h1 (Nat.le_add_right _ _) (by omega)]; omega)] at e1
        exact e1
      have hsplit := l.abs.slice_append h1 (Nat.le_add_right lo page.length) (show lo + page.length ≤ hi by omega)
      cases page with
      | nil => exact absurd rfl hpne
      | cons x xs =>
        simp only [P_pure_eq, P_ok_bind]
        by_cases hany : (x :: xs).any p = true
        · rw [if_pos hany]
          rw [← hsplit, List.any_append, ← hpage, hany]
          rfl
        · rw [if_neg hany]
          rw [ih (lo + (x :: xs).length) hi (by omega) h3 (by omega)]
          rw [← hsplit, List.any_append, ← hpage]
          have : (x :: xs).any p = false := by simpa using hany
          rw [this, Bool.false_or]
    · rw [if_neg hlt]
      have : l.abs.slice lo hi = [] := by
        unfold ALog.slice
        have : hi - lo = 0 := by omega
        rw [this, List.take_zero]
      rw [this]; rfl


/-- the visitor of `hasUnappliedConfChanges` -/
def isConfChange (e : Entry) : Bool := e.getType == .confChange || e.getType == .confChangeV2

theorem isConfChange_iff (e : Entry) :
    isConfChange e = true ↔ e.getType = .confChange ∨ e.getType = .confChangeV2 := by
  simp [isConfChange]

/-- some committed but not yet applied entry of the logical log is a configuration change -/
def UnappliedCC (l : RaftLog) : Prop :=
  ∃ i e, l.applied < i ∧ i ≤ l.committed ∧ l.abs.entry? i = some e ∧
    (e.getType = .confChange ∨ e.getType = .confChangeV2)

theorem base_le_applied {l : RaftLog} (h : l.WF) (hsn : l.unstable.snapshot = none) : l.abs.base ≤ l.applied := by
  obtain ⟨_, _, _, hn, _⟩ := h.shape
  have hs := h.snapOK
  unfold RaftLog.SnapOK at hs
  rw [hsn] at hs
  rw [(hn hsn).2.1]
  exact hs.2.2.2

theorem slice_any_iff (l : RaftLog) (h : l.WF) (hb : l.abs.base ≤ l.applied) :
    (l.abs.slice (l.applied + 1) (l.committed + 1)).any isConfChange = true ↔ UnappliedCC l := by
  have hcl : l.committed ≤ l.abs.last := by rw [← RaftLog.lastIndex_abs h]; exact h.committedLeLast
  have hac : l.applied ≤ l.committed := Nat.le_trans h.appliedLeApplying h.applyingLeCommitted
  have h1 : l.abs.first ≤ l.applied + 1 := by unfold ALog.first; omega
  rw [List.any_eq_true]
  constructor
  · rintro ⟨e, he, hp⟩
    obtain ⟨k, hk⟩ := List.getElem?_of_mem he
    have hlen := l.abs.slice_length h1 (by omega) (by omega : l.committed + 1 ≤ l.abs.last + 1)
    have hk' : k < l.committed + 1 - (l.applied + 1) := by
      rw [← hlen]; exact (List.getElem?_eq_some_iff.mp hk).1
    rw [l.abs.slice_getElem? h1 k hk'] at hk
    exact ⟨l.applied + 1 + k, e, by omega, by omega, hk, (isConfChange_iff e).1 hp⟩
  · rintro ⟨i, e, hi1, hi2, hie, hp⟩
    have hk' : i - (l.applied + 1) < l.committed + 1 - (l.applied + 1) := by omega
    have := l.abs.slice_getElem? (hi := l.committed + 1) h1 (i - (l.applied + 1)) hk'
    have e1 : l.applied + 1 + (i - (l.applied + 1)) = i := by omega
    rw [e1, hie] at this
    exact ⟨e, List.mem_of_getElem? this, (isConfChange_iff e).2 hp⟩

/-- **`hasUnappliedConfChanges`** on a well-formed log without pending snapshot (the situation in which
`hup` calls it, after `promotable`): never panics, leaves the state alone, and answers `UnappliedCC` -/
theorem hasUnappliedConfChanges_run (r : Raft) (hwf : r.log.WF) (hsn : r.log.unstable.snapshot = none)
    [Decidable (UnappliedCC r.log)] :
    hasUnappliedConfChanges.run r = .ok (decide (UnappliedCC r.log), r) := by
  have hb := base_le_applied hwf hsn
  unfold hasUnappliedConfChanges
  simp only [StateT.run_bind, StateT.run_get, P_pure_eq, P_ok_bind]
  by_cases hge : r.log.applied ≥ r.log.committed
  · rw [if_pos hge]
    have : ¬ UnappliedCC r.log := by
      rintro ⟨i, _, h1, h2, _⟩; omega
    simp only [this, decide_false]
    rfl
  · rw [if_neg hge]
    have hcl : r.log.committed ≤ r.log.abs.last := by
      rw [← RaftLog.lastIndex_abs hwf]; exact hwf.committedLeLast
    have hsc := scanAny_eq hwf isConfChange r.log.maxApplyingEntsSize
      (r.log.committed + 1 - (r.log.applied + 1) + 1) (r.log.applied + 1) (r.log.committed + 1)
      (by unfold ALog.first; omega) (by omega) (by omega)
    have : (fun e : Entry => e.getType == EntryType.confChange || e.getType == EntryType.confChangeV2) = isConfChange := rfl
    rw [this, hsc]
    have hd : (r.log.abs.slice (r.log.applied + 1) (r.log.committed + 1)).any isConfChange =
        decide (UnappliedCC r.log) := by
      rw [Bool.eq_iff_iff, slice_any_iff r.log hwf hb]; simp
    rw [hd]
    rfl

/-- **`hup` refuses to campaign** while a committed configuration change is unapplied -/
theorem hup_refuses (t : CampaignType) (r : Raft) (h : hasUnappliedConfChanges.run r = .ok (true, r)) :
    (hup t).run r = .ok ((), r) := by
  unfold hup
  simp only [StateT.run_bind, StateT.run_get, P_pure_eq, P_ok_bind]
  by_cases hl : (r.state == Role.leader) = true
  · simp only [hl, ↓reduceIte]; rfl
  · simp only [hl, Bool.false_eq_true, ↓reduceIte]
    unfold promotable
    simp only [StateT.run_bind, StateT.run_get, P_pure_eq, P_ok_bind]
    cases hp : r.trk.getProgress r.cfg.id with
    | none => rfl
    | some pr =>
      simp only [StateT.run_pure, P_pure_eq, P_ok_bind]
      by_cases hq : (!(!pr.isLearner && !r.log.hasNextOrInProgressSnapshot)) = true
      · rw [if_pos hq]; rfl
      · rw [if_neg hq]
        simp only [StateT.run_bind, h, P_ok_bind, ↓reduceIte]
        rfl


/-- **`hup`, all cases** (well-formed log): a leader, a node without own progress entry, a learner, a
node with a pending snapshot, and a node that knows of a committed but unapplied configuration change
do nothing; every other node campaigns -/
theorem hup_run (t : CampaignType) (r : Raft) (hwf : r.log.WF) [Decidable (UnappliedCC r.log)] :
    (hup t).run r =
      if r.state = .leader then .ok ((), r)
      else match r.trk.getProgress r.cfg.id with
        | none => .ok ((), r)
        | some pr =>
          if pr.isLearner = true ∨ r.log.unstable.snapshot.isSome = true then .ok ((), r)
          else if UnappliedCC r.log then .ok ((), r)
          else (campaign t).run r := by
  unfold hup
  simp only [StateT.run_bind, StateT.run_get, P_pure_eq, P_ok_bind]
  by_cases hl : r.state = .leader
  · simp only [hl, beq_self_eq_true, ↓reduceIte]; rfl
  · have hl' : (r.state == Role.leader) = false := by simpa using hl
    simp only [hl', Bool.false_eq_true, ↓reduceIte, hl]
    unfold promotable
    simp only [StateT.run_bind, StateT.run_get, P_pure_eq, P_ok_bind]
    cases hp : r.trk.getProgress r.cfg.id with
    | none => rfl
    | some pr =>
      simp only [StateT.run_pure, P_pure_eq, P_ok_bind]
      by_cases hq : pr.isLearner = true ∨ r.log.unstable.snapshot.isSome = true
      · rw [if_pos hq, if_pos (by
          unfold RaftLog.hasNextOrInProgressSnapshot
          rcases hq with h | h <;> simp [h])]
        rfl
      · rw [if_neg hq, if_neg (by
          unfold RaftLog.hasNextOrInProgressSnapshot
          have h1 : pr.isLearner = false := by simpa using fun h => hq (Or.inl h)
          have h2 : r.log.unstable.snapshot.isSome = false := by simpa using fun h => hq (Or.inr h)
          simp [h1, h2])]
        have hsn : r.log.unstable.snapshot = none := by
          cases h : r.log.unstable.snapshot with
          | none => rfl
          | some s => exact absurd (Or.inr (by rw [h]; rfl)) hq
        simp only [StateT.run_bind, hasUnappliedConfChanges_run r hwf hsn, P_ok_bind]
        by_cases hu : UnappliedCC r.log
        · simp only [hu, decide_true, ↓reduceIte]; rfl
        · simp only [hu, decide_false, Bool.false_eq_true, ↓reduceIte]

end RaftVerif.Conf10
