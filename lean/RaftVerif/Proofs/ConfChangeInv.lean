import RaftVerif.Proofs.ConfChangeEqs
/-!
# Proofs/ConfChangeInv — invariants of the configuration algebra and their preservation

* `ConfWF`, `KeysExact`, `SemInv`, `StagedDisjoint`, `ConfInvStrong`
* case-by-case results of `remove / makeVoter / makeLearner` and preservation of the invariants
-/
namespace RaftVerif

/-- representation facts of a configuration: every set strictly ascending, optional sets never `some []` -/
structure ConfWF (cfg : TrackerConfig) : Prop where
  voters : Sorted cfg.voters
  outgoing : OptWF cfg.outgoing
  learners : OptWF cfg.learners
  learnersNext : OptWF cfg.learnersNext

/-- the progress map has exactly the members as keys -/
def KeysExact (cfg : TrackerConfig) (trk : ProgressMap) : Prop :=
  ∀ id, id ∈ keys trk ↔ cfgMember cfg id

/-! ### WF preservation -/

theorem remove_wf (c : Changer) (cfg : TrackerConfig) (trk : ProgressMap) (id : Id)
    (h : ConfWF cfg) (hk : Sorted (keys trk)) :
    ConfWF (c.remove cfg trk id).1 ∧ Sorted (keys (c.remove cfg trk id).2) := by
  unfold Changer.remove
  split
  · exact ⟨h, hk⟩
  · simp only []
    split
    · exact ⟨⟨sorted_setErase h.voters, h.outgoing, optWF_nilDelete _ h.learners, optWF_nilDelete _ h.learnersNext⟩,
        by rw [keys_mapErase]; exact sorted_setErase hk⟩
    · exact ⟨⟨sorted_setErase h.voters, h.outgoing, optWF_nilDelete _ h.learners, optWF_nilDelete _ h.learnersNext⟩, hk⟩

theorem initProgress_wf (c : Changer) (cfg : TrackerConfig) (trk : ProgressMap) (id : Id) (b : Bool)
    (h : ConfWF cfg) (hk : Sorted (keys trk)) :
    ConfWF (c.initProgress cfg trk id b).1 ∧ Sorted (keys (c.initProgress cfg trk id b).2) := by
  unfold Changer.initProgress
  simp only [keys_mapInsert]
  refine ⟨?_, sorted_setInsert hk⟩
  cases b
  · exact ⟨sorted_setInsert h.voters, h.outgoing, h.learners, h.learnersNext⟩
  · exact ⟨h.voters, h.outgoing, optWF_nilAdd _ h.learners, h.learnersNext⟩

theorem makeVoter_wf (c : Changer) (cfg : TrackerConfig) (trk : ProgressMap) (id : Id)
    (h : ConfWF cfg) (hk : Sorted (keys trk)) :
    ConfWF (c.makeVoter cfg trk id).1 ∧ Sorted (keys (c.makeVoter cfg trk id).2) := by
  unfold Changer.makeVoter
  split
  · exact initProgress_wf c cfg trk id false h hk
  · simp only [keys_mapInsert]
    exact ⟨⟨sorted_setInsert h.voters, h.outgoing, optWF_nilDelete _ h.learners, optWF_nilDelete _ h.learnersNext⟩,
      sorted_setInsert hk⟩

theorem makeLearner_wf (c : Changer) (cfg : TrackerConfig) (trk : ProgressMap) (id : Id)
    (h : ConfWF cfg) (hk : Sorted (keys trk)) :
    ConfWF (c.makeLearner cfg trk id).1 ∧ Sorted (keys (c.makeLearner cfg trk id).2) := by
  unfold Changer.makeLearner
  split
  · exact initProgress_wf c cfg trk id true h hk
  · split
    · exact ⟨h, hk⟩
    · obtain ⟨h1, h2⟩ := remove_wf c cfg trk id h hk
      generalize c.remove cfg trk id = r at h1 h2
      obtain ⟨cfg1, trk1⟩ := r
      simp only [] at h1 h2 ⊢
      split
      · simp only [keys_mapInsert]
        exact ⟨⟨h1.voters, h1.outgoing, h1.learners, optWF_nilAdd _ h1.learnersNext⟩, sorted_setInsert h2⟩
      · simp only [keys_mapInsert]
        exact ⟨⟨h1.voters, h1.outgoing, optWF_nilAdd _ h1.learners, h1.learnersNext⟩, sorted_setInsert h2⟩


theorem mem_keys_iff {β : Type} (m : List (Id × β)) (j : Id) : j ∈ keys m ↔ ∃ v, mapGet m j = some v :=
  ⟨exists_mapGet_of_mem_keys, fun ⟨_, h⟩ => mapGet_some_mem_keys h⟩


/-! ### explicit results of the three primitive operations, case by case -/

/-- configuration after `remove` of an id that has a progress record -/
def removedCfg (cfg : TrackerConfig) (id : Id) : TrackerConfig :=
  { cfg with voters := setErase id cfg.voters, learners := nilDelete cfg.learners id,
             learnersNext := nilDelete cfg.learnersNext id }

/-- the progress record created by `initProgress` -/
def freshProgress (c : Changer) (isLearner : Bool) : Progress :=
  { match_ := 0, next := max c.lastIndex 1,
    inflights := { size := c.tracker.maxInflight, maxBytes := c.tracker.maxInflightBytes },
    isLearner := isLearner, recentActive := true }

theorem remove_none (c : Changer) {cfg : TrackerConfig} {trk : ProgressMap} {id : Id}
    (h : mapGet trk id = none) : c.remove cfg trk id = (cfg, trk) := by
  unfold Changer.remove; rw [h]

theorem remove_some_out (c : Changer) {cfg : TrackerConfig} {trk : ProgressMap} {id : Id} {pr : Progress}
    (h : mapGet trk id = some pr) (ho : id ∈ cfg.outgoing.getD []) :
    c.remove cfg trk id = (removedCfg cfg id, trk) := by
  unfold Changer.remove; rw [h]
  have : optContains cfg.outgoing id = true := optContains_iff.mpr ho
  simp [this, removedCfg]

theorem remove_some_not_out (c : Changer) {cfg : TrackerConfig} {trk : ProgressMap} {id : Id} {pr : Progress}
    (h : mapGet trk id = some pr) (ho : id ∉ cfg.outgoing.getD []) :
    c.remove cfg trk id = (removedCfg cfg id, mapErase id trk) := by
  unfold Changer.remove; rw [h]
  have : optContains cfg.outgoing id = false := by
    cases hc : optContains cfg.outgoing id with
    | false => rfl
    | true => exact absurd (optContains_iff.mp hc) ho
  simp [this, removedCfg]

theorem makeVoter_none (c : Changer) {cfg : TrackerConfig} {trk : ProgressMap} {id : Id}
    (h : mapGet trk id = none) :
    c.makeVoter cfg trk id =
      ({ cfg with voters := setInsert id cfg.voters }, mapInsert id (freshProgress c false) trk) := by
  unfold Changer.makeVoter; rw [h]; rfl

theorem makeVoter_some (c : Changer) {cfg : TrackerConfig} {trk : ProgressMap} {id : Id} {pr : Progress}
    (h : mapGet trk id = some pr) :
    c.makeVoter cfg trk id =
      ({ cfg with learners := nilDelete cfg.learners id, learnersNext := nilDelete cfg.learnersNext id,
                  voters := setInsert id cfg.voters },
       mapInsert id { pr with isLearner := false } trk) := by
  unfold Changer.makeVoter; rw [h]

theorem makeLearner_none (c : Changer) {cfg : TrackerConfig} {trk : ProgressMap} {id : Id}
    (h : mapGet trk id = none) :
    c.makeLearner cfg trk id =
      ({ cfg with learners := nilAdd cfg.learners id }, mapInsert id (freshProgress c true) trk) := by
  unfold Changer.makeLearner; rw [h]; rfl

theorem makeLearner_learner (c : Changer) {cfg : TrackerConfig} {trk : ProgressMap} {id : Id} {pr : Progress}
    (h : mapGet trk id = some pr) (hl : pr.isLearner = true) :
    c.makeLearner cfg trk id = (cfg, trk) := by
  unfold Changer.makeLearner; rw [h]; simp [hl]

theorem makeLearner_out (c : Changer) {cfg : TrackerConfig} {trk : ProgressMap} {id : Id} {pr : Progress}
    (h : mapGet trk id = some pr) (hl : pr.isLearner = false) (ho : id ∈ cfg.outgoing.getD []) :
    c.makeLearner cfg trk id =
      ({ removedCfg cfg id with learnersNext := nilAdd (nilDelete cfg.learnersNext id) id },
       mapInsert id pr trk) := by
  unfold Changer.makeLearner; rw [h]
  simp only [hl, Bool.false_eq_true, ↓reduceIte, remove_some_out c h ho]
  have : optContains (removedCfg cfg id).outgoing id = true := optContains_iff.mpr ho
  rw [if_pos this]; rfl

theorem makeLearner_not_out (c : Changer) {cfg : TrackerConfig} {trk : ProgressMap} {id : Id} {pr : Progress}
    (h : mapGet trk id = some pr) (hl : pr.isLearner = false) (ho : id ∉ cfg.outgoing.getD []) :
    c.makeLearner cfg trk id =
      ({ removedCfg cfg id with learners := nilAdd (nilDelete cfg.learners id) id },
       mapInsert id { pr with isLearner := true } (mapErase id trk)) := by
  unfold Changer.makeLearner; rw [h]
  simp only [hl, Bool.false_eq_true, ↓reduceIte, remove_some_not_out c h ho]
  have : ¬ optContains (removedCfg cfg id).outgoing id = true := fun hc => ho (optContains_iff.mp hc)
  rw [if_neg this]; rfl


set_option linter.unusedSimpArgs false
set_option linter.unusedVariables false

/-- the semantic content that is threaded through the fold (everything except WF/sortedness), in a
form convenient for automation: `ConfInv` plus "only members have a progress record" -/
structure SemInv (cfg : TrackerConfig) (trk : ProgressMap) : Prop where
  prog : ∀ id, cfgMember cfg id → mapGet trk id ≠ none
  lnOut : ∀ id ∈ cfg.learnersNext.getD [], id ∈ cfg.outgoing.getD []
  lnFlag : ∀ id ∈ cfg.learnersNext.getD [], ∀ pr, mapGet trk id = some pr → pr.isLearner = false
  lOut : ∀ id ∈ cfg.learners.getD [], id ∉ cfg.outgoing.getD []
  lVoter : ∀ id ∈ cfg.learners.getD [], id ∉ cfg.voters
  lFlag : ∀ id ∈ cfg.learners.getD [], ∀ pr, mapGet trk id = some pr → pr.isLearner = true
  nonJoint : cfg.outgoing.getD [] = [] → cfg.outgoing = none ∧ cfg.learnersNext = none ∧ cfg.autoLeave = false
  keys : ∀ id, mapGet trk id ≠ none → cfgMember cfg id

theorem semInv_iff (cfg : TrackerConfig) (trk : ProgressMap) :
    SemInv cfg trk ↔ ConfInv cfg trk ∧ ∀ id, id ∈ keys trk → cfgMember cfg id := by
  constructor
  · intro h
    have ex : ∀ id, cfgMember cfg id → ∃ pr, mapGet trk id = some pr := by
      intro id hm
      have := h.prog id hm
      cases hg : mapGet trk id with
      | none => exact absurd hg this
      | some pr => exact ⟨pr, rfl⟩
    refine ⟨⟨ex, ?_, ?_, h.nonJoint⟩, ?_⟩
    · intro id hid
      obtain ⟨pr, hpr⟩ := ex id (Or.inr (Or.inr (Or.inr hid)))
      exact ⟨h.lnOut id hid, pr, hpr, h.lnFlag id hid pr hpr⟩
    · intro id hid
      obtain ⟨pr, hpr⟩ := ex id (Or.inr (Or.inr (Or.inl hid)))
      exact ⟨h.lOut id hid, h.lVoter id hid, pr, hpr, h.lFlag id hid pr hpr⟩
    · intro id hid
      apply h.keys
      obtain ⟨pr, hpr⟩ := exists_mapGet_of_mem_keys hid
      rw [hpr]; simp
  · rintro ⟨h, hk⟩
    refine ⟨?_, ?_, ?_, ?_, ?_, ?_, h.nonJoint, ?_⟩
    · intro id hm; obtain ⟨pr, hpr⟩ := h.progress id hm; rw [hpr]; simp
    · intro id hid; exact (h.learnersNext id hid).1
    · intro id hid pr hpr
      obtain ⟨_, pr', hpr', hl⟩ := h.learnersNext id hid
      rw [hpr] at hpr'; cases hpr'; exact hl
    · intro id hid; exact (h.learners id hid).1
    · intro id hid; exact (h.learners id hid).2.1
    · intro id hid pr hpr
      obtain ⟨_, _, pr', hpr', hl⟩ := h.learners id hid
      rw [hpr] at hpr'; cases hpr'; exact hl
    · intro id hne
      apply hk
      rw [← mapGet_isSome_iff]
      cases hg : mapGet trk id with
      | none => exact absurd hg hne
      | some pr => rfl

macro "conf_norm" : tactic =>
  `(tactic| simp only [cfgMember, removedCfg, mem_setErase, mem_setInsert, mem_nilDelete, mem_nilAdd,
      mapGet_mapInsert, mapGet_mapErase, nilDelete_none] at *)


@[simp] theorem freshProgress_isLearner (c : Changer) (b : Bool) : (freshProgress c b).isLearner = b := rfl

/-- staged learners are not incoming voters (not checked by `checkInvariants`, but preserved by
every operation and needed for `Restore` to round-trip) -/
def StagedDisjoint (cfg : TrackerConfig) : Prop := ∀ id ∈ cfg.learnersNext.getD [], id ∉ cfg.voters

macro "sem_case" : tactic =>
  `(tactic| (refine ⟨?_, ?_, ?_, ?_, ?_, ?_, ?_, ?_⟩ <;> first
      | (intro x hx; conf_norm; grind [freshProgress_isLearner])
      | (intro x hx pr hpr; conf_norm; grind [freshProgress_isLearner])
      | (intro hj; conf_norm; grind [freshProgress_isLearner])
      | (intro hj; obtain ⟨a, b, c⟩ := ‹_ → _ ∧ _ ∧ _› hj; simp only [removedCfg] at *; simp [a, b, c, nilDelete_none])))

theorem remove_some_out_sem {cfg : TrackerConfig} {trk : ProgressMap} {id : Id} {pr : Progress}
    (h : mapGet trk id = some pr) (ho : id ∈ cfg.outgoing.getD [])
    (hi : SemInv cfg trk) : SemInv (removedCfg cfg id) trk := by
  obtain ⟨h1, h2, h3, h4, h5, h6, h7, h8⟩ := hi
  have hne : cfg.outgoing.getD [] ≠ [] := fun e => by rw [e] at ho; simp at ho
  sem_case

theorem remove_some_not_out_sem {cfg : TrackerConfig} {trk : ProgressMap} {id : Id} {pr : Progress}
    (h : mapGet trk id = some pr) (ho : id ∉ cfg.outgoing.getD [])
    (hi : SemInv cfg trk) : SemInv (removedCfg cfg id) (mapErase id trk) := by
  obtain ⟨h1, h2, h3, h4, h5, h6, h7, h8⟩ := hi
  sem_case

theorem makeVoter_none_sem (c : Changer) {cfg : TrackerConfig} {trk : ProgressMap} {id : Id}
    (h : mapGet trk id = none) (hi : SemInv cfg trk) :
    SemInv { cfg with voters := setInsert id cfg.voters } (mapInsert id (freshProgress c false) trk) := by
  obtain ⟨h1, h2, h3, h4, h5, h6, h7, h8⟩ := hi
  sem_case

theorem makeVoter_some_sem {cfg : TrackerConfig} {trk : ProgressMap} {id : Id} {pr : Progress}
    (h : mapGet trk id = some pr) (hi : SemInv cfg trk) :
    SemInv { cfg with learners := nilDelete cfg.learners id, learnersNext := nilDelete cfg.learnersNext id,
                      voters := setInsert id cfg.voters }
      (mapInsert id { pr with isLearner := false } trk) := by
  obtain ⟨h1, h2, h3, h4, h5, h6, h7, h8⟩ := hi
  sem_case

theorem makeLearner_none_sem (c : Changer) {cfg : TrackerConfig} {trk : ProgressMap} {id : Id}
    (h : mapGet trk id = none) (hi : SemInv cfg trk) :
    SemInv { cfg with learners := nilAdd cfg.learners id } (mapInsert id (freshProgress c true) trk) := by
  obtain ⟨h1, h2, h3, h4, h5, h6, h7, h8⟩ := hi
  sem_case

theorem makeLearner_out_sem {cfg : TrackerConfig} {trk : ProgressMap} {id : Id} {pr : Progress}
    (h : mapGet trk id = some pr) (hl : pr.isLearner = false) (ho : id ∈ cfg.outgoing.getD [])
    (hi : SemInv cfg trk) :
    SemInv ({ removedCfg cfg id with learnersNext := nilAdd (nilDelete cfg.learnersNext id) id })
       (mapInsert id pr trk) := by
  obtain ⟨h1, h2, h3, h4, h5, h6, h7, h8⟩ := hi
  have hne : cfg.outgoing.getD [] ≠ [] := fun e => by rw [e] at ho; simp at ho
  sem_case

theorem makeLearner_not_out_sem {cfg : TrackerConfig} {trk : ProgressMap} {id : Id} {pr : Progress}
    (h : mapGet trk id = some pr) (hl : pr.isLearner = false) (ho : id ∉ cfg.outgoing.getD [])
    (hi : SemInv cfg trk) :
    SemInv ({ removedCfg cfg id with learners := nilAdd (nilDelete cfg.learners id) id })
       (mapInsert id { pr with isLearner := true } (mapErase id trk)) := by
  obtain ⟨h1, h2, h3, h4, h5, h6, h7, h8⟩ := hi
  sem_case

end RaftVerif
