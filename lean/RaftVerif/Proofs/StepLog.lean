import RaftVerif.Model.Log
/-!
# Proofs/StepLog — the `committed` index never goes back (facts about `Model/Log.lean` used by the
step-level theorems C07 / C09)
-/
namespace RaftVerif

theorem bind_eq_ok {ε α β : Type} {x : Except ε α} {f : α → Except ε β} {b : β} :
    (x >>= f) = .ok b ↔ ∃ a, x = .ok a ∧ f a = .ok b := by
  cases x with
  | error e => simp [bind, Except.bind]
  | ok a => simp [bind, Except.bind]

end RaftVerif

namespace RaftVerif.RaftLog

theorem commitTo_spec {l l' : RaftLog} {t : Nat} (h : l.commitTo t = .ok l') :
    l' = { l with committed := max l.committed t } ∧ (l.committed < t → t ≤ l.lastIndex) := by
  unfold commitTo at h
  by_cases h1 : l.committed < t
  · by_cases h2 : l.lastIndex < t
    · simp [h1, h2, throw, throwThe, MonadExceptOf.throw] at h
    · simp only [h1, h2, if_true, if_false, pure, Except.pure, Except.ok.injEq] at h
      subst h
      refine ⟨?_, fun _ => by omega⟩
      have : max l.committed t = t := by omega
      rw [this]
  · simp only [h1, if_false, pure, Except.pure, Except.ok.injEq] at h
    subst h
    refine ⟨?_, fun h => absurd h h1⟩
    have : max l.committed t = l.committed := by omega
    rw [this]

theorem commitTo_committed {l l' : RaftLog} {t : Nat} (h : l.commitTo t = .ok l') :
    l.committed ≤ l'.committed := by
  obtain ⟨rfl, _⟩ := commitTo_spec h
  simp only; omega

theorem commitTo_unstable {l l' : RaftLog} {t : Nat} (h : l.commitTo t = .ok l') :
    l'.unstable = l.unstable ∧ l'.storage = l.storage := by
  obtain ⟨rfl, _⟩ := commitTo_spec h
  exact ⟨rfl, rfl⟩

theorem append_committed {l l' : RaftLog} {ents : List Entry} {li : Nat} (h : l.append ents = .ok (l', li)) :
    l'.committed = l.committed := by
  unfold append at h
  cases ents with
  | nil => simp only [pure, Except.pure, Except.ok.injEq, Prod.mk.injEq] at h; rw [← h.1]
  | cons e0 rest =>
    simp only at h
    split at h
    · simp [throw, throwThe, MonadExceptOf.throw] at h
    · cases hu : l.unstable.truncateAndAppend (e0 :: rest) with
      | error e => simp [hu, bind, Except.bind] at h
      | ok u =>
        simp only [hu, bind, Except.bind, pure, Except.pure, Except.ok.injEq, Prod.mk.injEq] at h
        rw [← h.1]

theorem maybeAppend_committed {l l' : RaftLog} {prev : EntryID} {ents : List Entry} {c : Nat} {res : Option Nat}
    (h : l.maybeAppend prev ents c = .ok (l', res)) : l.committed ≤ l'.committed := by
  unfold maybeAppend at h
  by_cases hm : (!l.matchTerm prev) = true
  · simp only [hm, if_true, pure, Except.pure, Except.ok.injEq, Prod.mk.injEq] at h
    rw [← h.1]; exact Nat.le_refl _
  · rw [if_neg hm] at h
    by_cases hc : (l.findConflict ents == 0) = true
    · rw [if_pos hc] at h
      obtain ⟨l1, hl1, h⟩ := bind_eq_ok.1 h
      obtain ⟨l2, hl2, h⟩ := bind_eq_ok.1 h
      simp only [pure, Except.pure, Except.ok.injEq, Prod.mk.injEq] at h hl1
      rw [← h.1, hl1]; exact commitTo_committed hl2
    · rw [if_neg hc] at h
      by_cases hc2 : l.findConflict ents ≤ l.committed
      · rw [if_pos hc2] at h
        obtain ⟨l1, hl1, h⟩ := bind_eq_ok.1 h
        simp [throw, throwThe, MonadExceptOf.throw] at hl1
      · rw [if_neg hc2] at h
        by_cases hc3 : usub (l.findConflict ents) (prev.index + 1) > ents.length
        · rw [if_pos hc3] at h
          obtain ⟨l1, hl1, h⟩ := bind_eq_ok.1 h
          simp [throw, throwThe, MonadExceptOf.throw] at hl1
        · rw [if_neg hc3] at h
          obtain ⟨⟨l3, li⟩, hp, h⟩ := bind_eq_ok.1 h
          obtain ⟨l1, hl1, h⟩ := bind_eq_ok.1 h
          obtain ⟨l2, hl2, h⟩ := bind_eq_ok.1 h
          simp only [pure, Except.pure, Except.ok.injEq, Prod.mk.injEq] at h hl1
          have := append_committed hp
          have := commitTo_committed hl2
          rw [← h.1]; rw [← hl1] at *; omega

theorem maybeCommit_committed {l l' : RaftLog} {at_ : EntryID} {ok : Bool}
    (h : l.maybeCommit at_ = .ok (l', ok)) : l.committed ≤ l'.committed := by
  unfold maybeCommit at h
  split at h
  · simp only [bind, Except.bind] at h
    split at h
    · simp at h
    · rename_i l1 hl1
      simp only [pure, Except.pure, Except.ok.injEq, Prod.mk.injEq] at h
      rw [← h.1]; exact commitTo_committed hl1
  · simp only [pure, Except.pure, Except.ok.injEq, Prod.mk.injEq] at h
    rw [← h.1]; exact Nat.le_refl _

theorem appliedTo_committed {l l' : RaftLog} {i size : Nat} (h : l.appliedTo i size = .ok l') :
    l'.committed = l.committed ∧ l'.unstable = l.unstable ∧ l'.storage = l.storage := by
  unfold appliedTo at h
  split at h
  · simp [throw, throwThe, MonadExceptOf.throw] at h
  · simp only [pure, Except.pure, Except.ok.injEq] at h
    subst h; exact ⟨rfl, rfl, rfl⟩

@[simp] theorem stableTo_committed (l : RaftLog) (id : EntryID) : (l.stableTo id).committed = l.committed := rfl
@[simp] theorem stableSnapTo_committed (l : RaftLog) (i : Nat) : (l.stableSnapTo i).committed = l.committed := rfl
@[simp] theorem restore_committed (l : RaftLog) (s : Snapshot) : (l.restore s).committed = s.index := rfl

/-- `raftLog.restore` under the guard of `raft.restore` (`s.index > committed`) does not lower `committed` -/
theorem restore_committed_mono (l : RaftLog) (s : Snapshot) (h : l.committed < s.index) :
    l.committed ≤ (l.restore s).committed := by
  rw [restore_committed]; omega

end RaftVerif.RaftLog

namespace RaftVerif.RaftLog
/-! pair-valued forms (the do-notation binds the whole pair) -/
theorem append_committed' {l : RaftLog} {ents : List Entry} {p : RaftLog × Nat} (h : l.append ents = .ok p) :
    l.committed ≤ p.1.committed := Nat.le_of_eq (append_committed (l' := p.1) (li := p.2) h).symm
theorem maybeAppend_committed' {l : RaftLog} {prev : EntryID} {ents : List Entry} {c : Nat}
    {p : RaftLog × Option Nat} (h : l.maybeAppend prev ents c = .ok p) : l.committed ≤ p.1.committed :=
  maybeAppend_committed (l' := p.1) (res := p.2) h
theorem maybeCommit_committed' {l : RaftLog} {at_ : EntryID} {p : RaftLog × Bool}
    (h : l.maybeCommit at_ = .ok p) : l.committed ≤ p.1.committed :=
  maybeCommit_committed (l' := p.1) (ok := p.2) h
theorem appliedTo_committed' {l l' : RaftLog} {i size : Nat} (h : l.appliedTo i size = .ok l') :
    l.committed ≤ l'.committed := Nat.le_of_eq (appliedTo_committed h).1.symm
end RaftVerif.RaftLog
