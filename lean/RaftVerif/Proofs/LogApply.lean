import RaftVerif.Proofs.LogSlice
/-!
# Proofs/LogApply — the apply cursor: `nextCommittedEnts`, `acceptApplying`, `appliedTo`, `commitTo`

Helper lemmas for C08.  Core Lean only.
-/
namespace RaftVerif

theorem ALog.slice_take (a : ALog) (lo hi n : Nat) (h : lo + n ≤ hi) :
    (a.slice lo hi).take n = a.slice lo (lo + n) := by
  unfold ALog.slice
  rw [List.take_take]
  congr 1; omega

namespace RaftLog

theorem maxAppliableIndex_le_committed (l : RaftLog) (au : Bool) : l.maxAppliableIndex au ≤ l.committed := by
  unfold maxAppliableIndex
  split
  · exact Nat.le_refl _
  · exact Nat.min_le_left _ _

theorem maxAppliableIndex_true (l : RaftLog) : l.maxAppliableIndex true = l.committed := rfl

theorem usub_one_of_pos {n : Nat} (h : 0 < n) : usub n 1 = n - 1 := by
  unfold usub; rw [if_pos (by omega)]

theorem maxAppliableIndex_false {l : RaftLog} (h : l.WF) :
    l.maxAppliableIndex false = min l.committed (l.unstable.offset - 1) := by
  have := abs_base_lt_offset h
  unfold maxAppliableIndex
  rw [usub_one_of_pos (by omega)]; rfl

/-- with `allowUnstable = false` nothing at or above `unstable.offset` is appliable -/
theorem maxAppliableIndex_false_lt_offset {l : RaftLog} (h : l.WF) :
    l.maxAppliableIndex false < l.unstable.offset := by
  have := abs_base_lt_offset h
  rw [maxAppliableIndex_false h]; omega

/-- the remaining size budget -/
def applyBudget (l : RaftLog) : Nat := l.maxApplyingEntsSize - l.applyingEntsSize

/-- the batch `nextCommittedEnts` hands out, in terms of the abstract log -/
def nextBatch (l : RaftLog) (au : Bool) : List Entry :=
  if l.applyingEntsPaused = true ∨ l.unstable.snapshot.isSome = true ∨ l.maxAppliableIndex au ≤ l.applying then []
  else limitSize (l.abs.slice (l.applying + 1) (l.maxAppliableIndex au + 1)) l.applyBudget

/-- **nextCommittedEnts never panics under the invariant** and returns `nextBatch`.
Which hypothesis excludes which panic site:
* "applying entry size not positive": `WF.budget` (not paused ⇒ `applyingEntsSize < maxApplyingEntsSize`);
* `slice` "invalid lo > hi": excluded by the code's own `lo ≥ hi` check;
* `slice` returning `ErrCompacted` ("unexpected error when getting unapplied entries"): `WF.snapOK`
  (`storage.firstIndex ≤ applied + 1`) with `WF.appliedLeApplying`;
* `slice` "out of bound": `WF.committedLeLast` (and `maxAppliableIndex ≤ committed`);
* `unstable.slice` / `storage.Entries` panics and `ErrUnavailable`: `WF.unstable`, `WF.storage`, and
  `unstable.offset ≤ storage.lastIndex + 1` from `WF.snapOK`. -/
theorem nextCommittedEnts_eq {l : RaftLog} (h : l.WF) (au : Bool) :
    l.nextCommittedEnts au = .ok (l.nextBatch au) := by
  unfold nextCommittedEnts nextBatch
  by_cases h1 : l.applyingEntsPaused = true
  · rw [if_pos h1, if_pos (Or.inl h1)]; rfl
  rw [if_neg h1]
  unfold hasNextOrInProgressSnapshot
  by_cases h2 : l.unstable.snapshot.isSome = true
  · rw [if_pos h2, if_pos (Or.inr (Or.inl h2))]; rfl
  rw [if_neg h2]
  simp only
  by_cases h3 : l.applying + 1 ≥ l.maxAppliableIndex au + 1
  · rw [if_pos h3, if_pos (Or.inr (Or.inr (by omega)))]; rfl
  have hnc : ¬(l.applyingEntsPaused = true ∨ l.unstable.snapshot.isSome = true ∨ l.maxAppliableIndex au ≤ l.applying) := by
    intro hx
    rcases hx with hx | hx | hx
    · exact h1 hx
    · exact h2 hx
    · omega
  rw [if_neg h3, if_neg hnc]
  have hb := h.budget (by simpa using h1)
  have hus : usub l.maxApplyingEntsSize l.applyingEntsSize = l.applyBudget := by
    unfold usub applyBudget; rw [if_pos (by omega)]
  have hbne : ¬ ((l.applyBudget == 0) = true) := by
    simp only [applyBudget, beq_iff_eq]; omega
  rw [hus, if_neg hbne]
  rw [slice_eq h]
  unfold ALog.sliceResult
  have hm := maxAppliableIndex_le_committed l au
  have hcl := h.committedLeLast
  rw [lastIndex_abs h] at hcl
  have hfirst : l.abs.first ≤ l.applying + 1 := by
    have hso := h.snapOK
    have haa := h.appliedLeApplying
    obtain ⟨pre, he, hlen, hn, hs⟩ := h.shape
    unfold SnapOK at hso
    cases hsn : l.unstable.snapshot with
    | some s => rw [hsn] at h2; simp at h2
    | none =>
      rw [hsn] at hso
      have := (hn hsn).2.1
      unfold ALog.first
      omega
  rw [if_neg (by omega), if_neg (by omega), if_neg (by omega)]
  rfl

theorem nextBatch_eq_nil_iff {l : RaftLog} (h : l.WF) (au : Bool) :
    l.nextBatch au = [] ↔
      (l.applyingEntsPaused = true ∨ l.unstable.snapshot.isSome = true ∨ l.maxAppliableIndex au ≤ l.applying) := by
  unfold nextBatch
  constructor
  · intro hnil
    by_cases hc : l.applyingEntsPaused = true ∨ l.unstable.snapshot.isSome = true ∨ l.maxAppliableIndex au ≤ l.applying
    · exact hc
    · exfalso
      rw [if_neg hc] at hnil
      have hm := maxAppliableIndex_le_committed l au
      have hcl := h.committedLeLast
      rw [lastIndex_abs h] at hcl
      have hlen : (l.abs.slice (l.applying + 1) (l.maxAppliableIndex au + 1)).length =
          (l.maxAppliableIndex au + 1) - (l.applying + 1) := by
        unfold ALog.slice
        have hfirst : l.abs.base ≤ l.applying := by
          have hso := h.snapOK
          have haa := h.appliedLeApplying
          obtain ⟨pre, he, hlen, hn, hs⟩ := h.shape
          unfold SnapOK at hso
          cases hsn : l.unstable.snapshot with
          | some s => rw [hsn] at hc; simp at hc
          | none =>
            rw [hsn] at hso
            have := (hn hsn).2.1
            omega
        unfold ALog.last at hcl
        simp only [List.length_take, List.length_drop]; omega
      have hne : l.abs.slice (l.applying + 1) (l.maxAppliableIndex au + 1) ≠ [] := by
        intro h0; rw [h0] at hlen; simp at hlen; omega
      exact limitSize_ne_nil _ _ hne hnil
  · intro hc; rw [if_pos hc]

/-- **hasNextCommittedEnts** tells exactly whether `nextCommittedEnts` would return something -/
theorem hasNextCommittedEnts_iff {l : RaftLog} (h : l.WF) (au : Bool) :
    l.hasNextCommittedEnts au = true ↔ l.nextBatch au ≠ [] := by
  rw [Ne, nextBatch_eq_nil_iff h]
  unfold hasNextCommittedEnts hasNextOrInProgressSnapshot
  by_cases h1 : l.applyingEntsPaused = true
  · simp [h1]
  · by_cases h2 : l.unstable.snapshot.isSome = true
    · simp [h1, h2]
    · simp only [h1, h2, Bool.false_eq_true, ↓reduceIte, decide_eq_true_eq, false_or]
      omega

/-- the abstract log is not compacted at the apply cursor (when no snapshot is pending) -/
theorem abs_base_le_applying {l : RaftLog} (h : l.WF) (hsn : l.unstable.snapshot = none) :
    l.abs.base ≤ l.applying := by
  have hso := h.snapOK
  have haa := h.appliedLeApplying
  obtain ⟨pre, he, hlen, hn, hs⟩ := h.shape
  unfold SnapOK at hso
  rw [hsn] at hso
  have := (hn hsn).2.1
  omega

/-- **shape of the batch**: if not empty, it is exactly the entries at indexes `applying+1 … k` of the
abstract log, for `k = applying + length ≤ maxAppliableIndex ≤ committed` -/
theorem nextBatch_slice {l : RaftLog} (h : l.WF) (au : Bool) (hne : l.nextBatch au ≠ []) :
    l.applying + (l.nextBatch au).length ≤ l.maxAppliableIndex au ∧
    l.nextBatch au = l.abs.slice (l.applying + 1) (l.applying + (l.nextBatch au).length + 1) := by
  have hc := (not_congr (nextBatch_eq_nil_iff h au)).mp hne
  have hm := maxAppliableIndex_le_committed l au
  have hcl := h.committedLeLast
  rw [lastIndex_abs h] at hcl
  have hsn : l.unstable.snapshot = none := by
    cases hs : l.unstable.snapshot with
    | none => rfl
    | some s => exfalso; apply hc; right; left; simp [hs]
  have hba := abs_base_le_applying h hsn
  have hlen : (l.abs.slice (l.applying + 1) (l.maxAppliableIndex au + 1)).length =
      (l.maxAppliableIndex au + 1) - (l.applying + 1) :=
    ALog.slice_length _ (by unfold ALog.first; omega) (by omega) (by omega)
  have hpre : l.nextBatch au <+: l.abs.slice (l.applying + 1) (l.maxAppliableIndex au + 1) := by
    unfold nextBatch; rw [if_neg hc]; exact limitSize_prefix _ _
  have hle := hpre.length_le
  refine ⟨by omega, ?_⟩
  have := List.prefix_iff_eq_take.mp hpre
  rw [ALog.slice_take _ _ _ _ (by omega)] at this
  have e : l.applying + 1 + (l.nextBatch au).length = l.applying + (l.nextBatch au).length + 1 := by omega
  rw [e] at this
  exact this

/-- the batch is contiguous, ascending, and starts right after `applying` -/
theorem nextBatch_contig {l : RaftLog} (h : l.WF) (au : Bool) : Contig (l.applying + 1) (l.nextBatch au) := by
  by_cases hne : l.nextBatch au = []
  · rw [hne]; exact Contig.nil _
  · have hc := (not_congr (nextBatch_eq_nil_iff h au)).mp hne
    have hsn : l.unstable.snapshot = none := by
      cases hs : l.unstable.snapshot with
      | none => rfl
      | some s => exfalso; apply hc; right; left; simp [hs]
    have hba := abs_base_le_applying h hsn
    rw [(nextBatch_slice h au hne).2]
    exact ALog.slice_contig h.abs_wf (by unfold ALog.first; omega)

/-- the batch respects the remaining size budget, unless it is a single entry -/
theorem nextBatch_size (l : RaftLog) (au : Bool) :
    entsSize (l.nextBatch au) ≤ l.applyBudget ∨ (l.nextBatch au).length = 1 := by
  unfold nextBatch
  split
  · left; simp
  · exact limitSize_size _ _

/-- the batch is maximal: if an appliable entry was left out, adding it would exceed the budget -/
theorem nextBatch_maximal {l : RaftLog} (h : l.WF) (au : Bool) (hne : l.nextBatch au ≠ [])
    (hlt : l.applying + (l.nextBatch au).length < l.maxAppliableIndex au) :
    l.applyBudget < entsSize (l.abs.slice (l.applying + 1) (l.applying + (l.nextBatch au).length + 2)) := by
  have hc := (not_congr (nextBatch_eq_nil_iff h au)).mp hne
  have hm := maxAppliableIndex_le_committed l au
  have hcl := h.committedLeLast
  rw [lastIndex_abs h] at hcl
  have hsn : l.unstable.snapshot = none := by
    cases hs : l.unstable.snapshot with
    | none => rfl
    | some s => exfalso; apply hc; right; left; simp [hs]
  have hba := abs_base_le_applying h hsn
  have hlen : (l.abs.slice (l.applying + 1) (l.maxAppliableIndex au + 1)).length =
      (l.maxAppliableIndex au + 1) - (l.applying + 1) :=
    ALog.slice_length _ (by unfold ALog.first; omega) (by omega) (by omega)
  have hb : l.nextBatch au =
      limitSize (l.abs.slice (l.applying + 1) (l.maxAppliableIndex au + 1)) l.applyBudget := by
    unfold nextBatch; rw [if_neg hc]
  have := limitSize_maximal (l.abs.slice (l.applying + 1) (l.maxAppliableIndex au + 1)) l.applyBudget
    (by rw [← hb]; omega)
  rw [← hb, ALog.slice_take _ _ _ _ (by omega)] at this
  have e : l.applying + 1 + ((l.nextBatch au).length + 1) = l.applying + (l.nextBatch au).length + 2 := by omega
  rw [e] at this
  exact this

/-- with `allowUnstable = false` every returned entry is below `unstable.offset` (already in storage) -/
theorem nextBatch_stable {l : RaftLog} (h : l.WF) (e : Entry) (he : e ∈ l.nextBatch false) :
    e.index < l.unstable.offset := by
  have hne : l.nextBatch false ≠ [] := by intro h0; rw [h0] at he; simp at he
  have h1 := (nextBatch_slice h false hne).1
  have h2 := (nextBatch_contig h false).mem he
  have h3 := maxAppliableIndex_false_lt_offset h
  omega

/-- every returned entry is committed -/
theorem nextBatch_committed {l : RaftLog} (h : l.WF) (au : Bool) (e : Entry) (he : e ∈ l.nextBatch au) :
    l.applying < e.index ∧ e.index ≤ l.committed := by
  have hne : l.nextBatch au ≠ [] := by intro h0; rw [h0] at he; simp at he
  have h1 := (nextBatch_slice h au hne).1
  have h2 := (nextBatch_contig h au).mem he
  have h3 := maxAppliableIndex_le_committed l au
  omega

/-- the last entry of a non-empty batch has index `applying + length` -/
theorem nextBatch_getLast {l : RaftLog} (h : l.WF) (au : Bool) {last : Entry}
    (hl : (l.nextBatch au).getLast? = some last) : last.index = l.applying + (l.nextBatch au).length := by
  have := (nextBatch_contig h au).getLast?_index hl
  omega

/-! ### acceptApplying, appliedTo, commitTo -/

theorem acceptApplying_eq (l : RaftLog) (i size : Nat) (au : Bool) :
    l.acceptApplying i size au =
      if l.committed < i then .error "acceptApplying: applying out of range"
      else .ok { l with applying := i, applyingEntsSize := l.applyingEntsSize + size,
                        applyingEntsPaused := decide (l.applyingEntsSize + size ≥ l.maxApplyingEntsSize) ||
                          decide (i < l.maxAppliableIndex au) } := rfl

theorem lastIndex_congr {l l' : RaftLog} (hu : l'.unstable = l.unstable) (hs : l'.storage = l.storage) :
    l'.lastIndex = l.lastIndex := by unfold lastIndex; rw [hu, hs]

/-- **acceptApplying** keeps the invariant when the new cursor is between `applied` and `committed` -/
theorem acceptApplying_wf {l : RaftLog} (h : l.WF) {i size : Nat} {au : Bool} {l' : RaftLog}
    (hi : l.applied ≤ i) (hok : l.acceptApplying i size au = .ok l') :
    l'.WF ∧ l'.applying = i ∧ l'.applied = l.applied ∧ l'.committed = l.committed ∧
      l'.storage = l.storage ∧ l'.unstable = l.unstable := by
  rw [acceptApplying_eq] at hok
  split at hok
  · cases hok
  · rename_i hc
    injection hok with hok
    subst hok
    refine ⟨⟨h.storage, h.unstable, ?_, hi, by simp only; omega, ?_, ?_⟩, rfl, rfl, rfl, rfl, rfl⟩
    · have := h.snapOK; unfold SnapOK at this ⊢; exact this
    · have := h.committedLeLast; exact this
    · simp only [Bool.or_eq_false_iff, decide_eq_false_iff_not]
      intro ⟨hh, _⟩; omega

theorem appliedTo_eq (l : RaftLog) (i size : Nat) :
    l.appliedTo i size =
      if l.committed < i ∨ i < l.applied then .error "appliedTo: applied out of range"
      else .ok { l with applied := i, applying := max l.applying i,
                        applyingEntsSize := l.applyingEntsSize - size,
                        applyingEntsPaused := decide (l.applyingEntsSize - size ≥ l.maxApplyingEntsSize) } := by
  unfold appliedTo
  by_cases hc : l.committed < i ∨ i < l.applied
  · rw [if_pos hc, if_pos (by simpa using hc)]; rfl
  · rw [if_neg hc, if_neg (by simpa using hc)]
    have : (if l.applyingEntsSize > size then l.applyingEntsSize - size else 0) = l.applyingEntsSize - size := by
      split <;> omega
    simp only [this]; rfl

/-- **appliedTo** keeps the invariant, never moves `applying` backwards, and un-pauses exactly when the
remaining in-flight size drops below the limit -/
theorem appliedTo_wf {l : RaftLog} (h : l.WF) {i size : Nat} {l' : RaftLog}
    (hok : l.appliedTo i size = .ok l') :
    l'.WF ∧ l'.applied = i ∧ l'.applying = max l.applying i ∧ l.applying ≤ l'.applying ∧
      l'.committed = l.committed ∧ l'.storage = l.storage ∧ l'.unstable = l.unstable ∧
      l'.applyingEntsSize = l.applyingEntsSize - size ∧
      (l'.applyingEntsPaused = true ↔ l.maxApplyingEntsSize ≤ l.applyingEntsSize - size) := by
  rw [appliedTo_eq] at hok
  split at hok
  · cases hok
  · rename_i hc
    injection hok with hok
    subst hok
    have h1 := h.appliedLeApplying
    have h2 := h.applyingLeCommitted
    refine ⟨⟨h.storage, h.unstable, ?_, by simp only; omega, by simp only; omega, ?_, ?_⟩,
      rfl, rfl, by simp only; omega, rfl, rfl, rfl, rfl, by simp⟩
    · have := h.snapOK
      unfold SnapOK at this ⊢
      simp only
      split
      · rename_i s hs; rw [hs] at this; exact this
      · rename_i hs; rw [hs] at this; simp only at this
        exact ⟨this.1, this.2.1, this.2.2.1, by omega⟩
    · have := h.committedLeLast; exact this
    · simp only [decide_eq_false_iff_not]
      intro hh; omega

theorem appliedTo_panics_iff (l : RaftLog) (i size : Nat) :
    (∃ m, l.appliedTo i size = .error m) ↔ (l.committed < i ∨ i < l.applied) := by
  rw [appliedTo_eq]
  split <;> simp [*]

theorem acceptApplying_panics_iff (l : RaftLog) (i size : Nat) (au : Bool) :
    (∃ m, l.acceptApplying i size au = .error m) ↔ l.committed < i := by
  rw [acceptApplying_eq]
  split <;> simp [*]

/-- **commitTo** never decreases `committed`, panics iff asked to commit beyond the last index -/
theorem commitTo_eq (l : RaftLog) (c : Nat) :
    l.commitTo c =
      if l.committed < c ∧ l.lastIndex < c then .error "commitTo: tocommit out of range"
      else .ok { l with committed := max l.committed c } := by
  unfold commitTo
  by_cases h1 : l.committed < c
  · rw [if_pos h1]
    by_cases h2 : l.lastIndex < c
    · rw [if_pos h2, if_pos ⟨h1, h2⟩]; rfl
    · rw [if_neg h2, if_neg (by omega)]
      have : max l.committed c = c := by omega
      rw [this]; rfl
  · rw [if_neg h1, if_neg (by omega)]
    have : max l.committed c = l.committed := by omega
    rw [this]; rfl

theorem commitTo_wf {l : RaftLog} (h : l.WF) {c : Nat} {l' : RaftLog} (hok : l.commitTo c = .ok l') :
    l'.WF ∧ l'.committed = max l.committed c ∧ l'.applying = l.applying ∧ l'.applied = l.applied ∧
      l'.storage = l.storage ∧ l'.unstable = l.unstable := by
  rw [commitTo_eq] at hok
  split at hok
  · cases hok
  · rename_i hc
    injection hok with hok
    subst hok
    have h1 := h.applyingLeCommitted
    have h3 := h.committedLeLast
    refine ⟨⟨h.storage, h.unstable, ?_, h.appliedLeApplying, by simp only; omega, ?_, h.budget⟩,
      rfl, rfl, rfl, rfl, rfl⟩
    · have := h.snapOK
      unfold SnapOK at this ⊢
      simp only
      split
      · rename_i s hs; rw [hs] at this; simp only at this; omega
      · rename_i hs; rw [hs] at this; exact this
    · show max l.committed c ≤ l.lastIndex
      omega

end RaftLog
end RaftVerif
