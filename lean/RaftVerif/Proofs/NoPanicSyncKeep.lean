import RaftVerif.Proofs.NoPanicSync
/-!
# Proofs/NoPanicSyncKeep — the side invariant `J` across a successful `syncRound`, without any hypothesis on draws

`syncRound_keeps'`: partial-correctness companion of `syncRound_done` for ANY draw list (as `EnvStep.sync` allows).
-/
namespace RaftVerif.NoPanicP
open Raft C14 Sim Refine
set_option linter.unusedSimpArgs false

/-- stepping a node's own durable promise keeps `J` (partial correctness, no draws) -/
def SelfStepKeep (val : Val) (voters : List Id) (n : Nat) (J : Raft → Prop) : Prop :=
  ∀ (s : Spec.State) (r : Raft) (m : Message),
    RaftInv val voters n r (s.nodes n) s.msgs → Spec.Reachable (cfgOf voters) s →
    (m.typ = .voteResp ∨ m.typ = .appResp) → m.from = n → m.to = n → m.reject = false →
    InOK val n (s.nodes n) s.msgs m → m.term ≤ r.term → AuxInv n r → SelfOK n r m → J r →
    Spec (Raft.step Raft.stepFuel m) r (fun _ r' => J r')

/-- **the self-addressed promises** of a `Ready`, stepped successfully one after the other, keep `J` -/
theorem selfSteps_keep {val : Val} {voters : List Id} {n : Nat} {J : Raft → Prop} (hk : SelfStepKeep val voters n J)
    (dur0 : Spec.Ver) (ms : List Message) (hms : ∀ m ∈ ms, m.to = n ∧ PromOK n dur0 m)
    (s : Spec.State) (r r' : Raft) (hinv : RaftInv val voters n r (s.nodes n) s.msgs) (haux : AuxInv n r)
    (hok : ∀ m ∈ ms, SelfOK n r m)
    (hreach : Spec.Reachable (cfgOf voters) s) (hdur : Spec.VerLe dur0 (s.nodes n).dur)
    (hJ : J r) (hrun : Next.runSteps ms r = .ok r') : J r' := by
  induction ms generalizing s r with
  | nil =>
    simp only [Next.runSteps, Except.ok.injEq] at hrun
    subst hrun; exact hJ
  | cons m ms ih =>
    simp only [Next.runSteps] at hrun
    obtain ⟨⟨e, r1⟩, hstep, hrest⟩ := bind_eq_ok.1 hrun
    obtain ⟨hto, hprom⟩ := hms m List.mem_cons_self
    have hself := hok m List.mem_cons_self
    obtain ⟨ht, hrej, hfrom, hle, _⟩ := hself hto
    have hin : InOK val n (s.nodes n) s.msgs m := inOK_of_prom ht hto hprom hdur
    have hJ1 : J r1 := (hk s r m hinv hreach ht hfrom hto hrej hin hle haux hself hJ).elim hstep
    obtain ⟨⟨as1, s1, hrun1, hact1, hinv1⟩, haux1, hfr1⟩ :=
      selfStepOK2 val voters n s r r1 m e hinv haux hreach ht hfrom hto hin hself hstep
    exact ih (fun x hx => hms x (List.mem_cons_of_mem _ hx)) s1 r1 hinv1 haux1
      (fun x hx => (hok x (List.mem_cons_of_mem _ hx)).frame hfr1)
      (hrun1.reachable hreach) (hdur.trans (hrun1.dur_le hreach n)) hJ1 hrest

/-- inversion of a successful round along the (deterministic) `Ready` and storage write of `ready_persist_ok` -/
theorem syncRound_inv' {rn rn' rn1 : RawNode} {rd rd0 : Ready} {ms' : MemoryStorage} {draws : List Nat}
    (hready : rn.ready = .ok (rd0, rn1))
    (hpers : persistReady rn1 rd0 =
      .ok { rn1 with raft := { rn1.raft with log := { rn1.raft.log with storage := ms' } } })
    (h : syncRound rn draws = .ok (rd, rn')) :
    rd = rd0 ∧ Next.runSteps rn1.stepsOnAdvance (afterPersist rn1 ms' draws) = .ok rn'.raft := by
  unfold syncRound at h
  simp only [hready, hpers, bind, Except.bind] at h
  split at h
  · cases h
  · rename_i rn3 hadv
    obtain ⟨r', hr', hrn3⟩ := advance_inv hadv
    simp only [pure, Except.pure, Except.ok.injEq, Prod.mk.injEq] at h
    refine ⟨h.1.symm, ?_⟩
    rw [← h.2, hrn3]
    exact hr'

/-- **`J` after a successful `syncRound`**, for any draw list -/
theorem syncRound_keeps' {val : Val} {voters : List Id} {n : Nat} {s : Spec.State} {rn rn' : RawNode} {rd : Ready}
    (J : Raft → Prop)
    (hk : SelfStepKeep val voters n J) (hnode : NodeInv val voters n rn (s.nodes n) s.msgs)
    (haux : AuxInv n rn.raft) (hset : Settled rn.raft) (hprom : MaaProm rn.raft)
    (hreach : Spec.Reachable (cfgOf voters) s)
    (hJ : ∀ r2, r2.state = rn.raft.state → r2.trk = rn.raft.trk → r2.cfg = rn.raft.cfg → r2.lead = rn.raft.lead →
      r2.term = rn.raft.term → r2.msgs = [] → r2.msgsAfterAppend = [] →
      r2.log.lastIndex = rn.raft.log.lastIndex → J r2)
    (hJframe : ∀ r r', r'.state = r.state → r'.trk = r.trk → r'.log.lastIndex = r.log.lastIndex → J r → J r')
    (draws : List Nat) (h : syncRound rn draws = .ok (rd, rn')) : J rn'.raft := by
  have hI := hnode.inv
  obtain ⟨rd0, rn1, eid, l2, ms', hready, hpers, hlast, hasy1, hsoa1, hraft1, hP, hce⟩ :=
    ready_persist_ok hnode.sync hnode.adv hI.wf hset
  obtain ⟨hrd, hsteps⟩ := syncRound_inv' hready hpers h
  subst hrd
  generalize rn'.raft = r3 at hsteps ⊢
  -- the state `r2` in which the replay starts
  have hr2 : afterPersist rn1 ms' draws =
      { rn.raft with readStates := [], msgs := [], msgsAfterAppend := [], log := { l2 with storage := ms' },
                     draws := draws } := by
    unfold afterPersist; rw [hraft1]
  generalize afterPersist rn1 ms' draws = r2 at hr2 hsteps
  have hst2 : r2.state = rn.raft.state := by rw [hr2]
  have htrk2 : r2.trk = rn.raft.trk := by rw [hr2]
  have hterm2 : r2.term = rn.raft.term := by rw [hr2]
  have hmsgs2 : r2.msgs = [] := by rw [hr2]
  have hmaa2 : r2.msgsAfterAppend = [] := by rw [hr2]
  have hlog2 : r2.log = { l2 with storage := ms' } := by rw [hr2]
  have hinv2 : ∀ nd msgs, RaftInv val voters n rn.raft nd msgs → RaftInv val voters n r2 nd msgs := by
    intro nd msgs hinv
    rw [hr2]
    exact hinv.congrLog hP.wf hP.abs hP.committed rfl rfl rfl rfl rfl (fun _ hm => nomatch hm)
      (fun _ hm => nomatch hm) rfl rfl rfl rfl
  have hP2 : Persisted rn.raft.log r2.log := by rw [hlog2]; exact hP
  -- Spec: `write; persist`, then the release of the promises
  obtain ⟨s1, hrun1, hn1, hm1⟩ := write_persist_run (cfgOf voters) s n hI.pend
  have hI1 : RaftInv val voters n rn.raft (s1.nodes n) s1.msgs := by rw [hn1, hm1]; exact hI.persisted
  have hdur1 : (s1.nodes n).dur = (s.nodes n).vol := by rw [hn1]
  obtain ⟨s2, hrel, _⟩ := release_all (val := val) (cfgOf voters) n rn.raft.msgsAfterAppend s1
    (fun p hp => ⟨by rw [hdur1]; exact hI.prom p hp, hprom p hp⟩)
  obtain ⟨as2, hrun2, hact2, hnodes2, hsub2, hrv2⟩ := hrel
  have hI1' : RaftInv val voters n rn.raft (s2.nodes n) s2.msgs := by
    rw [hnodes2]; exact hI1.frame hsub2 (fun t lt li hx => hrv2 t n lt li hx)
  have hI2 : RaftInv val voters n r2 (s2.nodes n) s2.msgs := hinv2 _ _ hI1'
  have hlast2 : r2.log.lastIndex = rn.raft.log.lastIndex := lastIndex_of_inv hI1' hI2
  have haux2 : AuxInv n r2 := haux.transfer hst2 htrk2 hterm2 hlast2
    (by rw [hmsgs2]; exact fun _ hm => nomatch hm) (by rw [hmaa2]; exact fun _ hm => nomatch hm)
  have hreach2 := hrun2.reachable (hrun1.reachable hreach)
  have hdur2 : Spec.VerLe (s.nodes n).vol (s2.nodes n).dur := by
    rw [hnodes2, hdur1]; exact Spec.VerLe.refl _
  have hself : ∀ m ∈ rn.raft.msgsAfterAppend.filter (fun m => m.to == rn.raft.cfg.id),
      m.to = n ∧ PromOK n (s.nodes n).vol m ∧ SelfOK n r2 m := by
    intro m hm
    obtain ⟨hm1, hm2⟩ := List.mem_filter.1 hm
    have hto : m.to = n := by rw [← hI.st.id]; simpa using hm2
    exact ⟨hto, hI.prom m hm1, (haux.self m hm1).transfer hst2 hterm2 hlast2⟩
  have hJ2 : J r2 := hJ r2 hst2 htrk2 (by rw [hr2]) (by rw [hr2]) hterm2 hmsgs2 hmaa2 hlast2
  -- split the successful replay
  rw [hsoa1] at hsteps
  unfold Next.soaOf at hsteps
  rw [runSteps_append, runSteps_append] at hsteps
  obtain ⟨rb, hsteps, hstepC⟩ := bind_eq_ok.1 hsteps
  obtain ⟨ra, hstepA, hstepB⟩ := bind_eq_ok.1 hsteps
  -- the node's own promises
  have hJa : J ra := selfSteps_keep hk (s.nodes n).vol _
    (fun m hm => ⟨(hself m hm).1, (hself m hm).2.1⟩) s2 r2 ra hI2 haux2 (fun m hm => (hself m hm).2.2) hreach2 hdur2
    hJ2 hstepA
  obtain ⟨as3, s3, hrun3, hact3, hI3, haux3, hg3, ht3⟩ :=
    self_steps2 (s.nodes n).vol _ (fun m hm => ⟨(hself m hm).1, (hself m hm).2.1⟩) s2 r2 ra hI2 haux2
      (fun m hm => (hself m hm).2.2) hreach2 hdur2 hstepA
  -- the two storage acknowledgements
  obtain ⟨hIb, hsetb, hsameb⟩ := appendResp_phase hI.wf hset.1 hP2 hI3 (ht3.trans hterm2) hg3.storage hg3.snap
    hg3.offset hg3.oip hg3.ents eid hlast hstepB
  have hJb : J rb := hJframe ra rb hsameb.state hsameb.trk (lastIndex_of_inv hI3 hIb) hJa
  obtain ⟨hIc, hsetc, hsamec⟩ := applyResp_phase hIb hsetb rd.committedEntries hstepC
  exact hJframe rb r3 hsamec.state hsamec.trk (lastIndex_of_inv hIb hIc) hJb

end RaftVerif.NoPanicP
