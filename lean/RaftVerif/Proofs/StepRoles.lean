import RaftVerif.Proofs.StepGood
/-!
# Proofs/StepRoles — `stepFollower`, `stepCandidate`, `stepLeader` keep `Good`

These three functions sit in the mutual block of `step` but never recurse, so their lemmas hold for
every `fuel` and need no induction.
-/
namespace RaftVerif
namespace Raft

theorem stepFollower_good (fuel : Nat) (m : Message) (s : Raft) :
    Spec (stepFollower fuel m) s (fun _ s' => Good s s') := by
  rw [stepFollower]
  rel_start
  wp_auto [good_step]

/-- `stepCandidate` calls `becomeFollower(m.Term, …)` for MsgApp / MsgHeartbeat / MsgSnap: this keeps the
term only when `m.term` is not behind (guaranteed by the preamble of `Step` unless `m.term = 0`) -/
theorem stepCandidate_good (fuel : Nat) (m : Message) (s : Raft)
    (hm : m.typ = .app ∨ m.typ = .heartbeat ∨ m.typ = .snap → s.term ≤ m.term) :
    Spec (stepCandidate fuel m) s (fun _ s' => Good s s') := by
  rw [stepCandidate]
  have h1 : m.typ = .app → s.term ≤ m.term := fun e => hm (Or.inl e)
  have h2 : m.typ = .heartbeat → s.term ≤ m.term := fun e => hm (Or.inr (Or.inl e))
  have h3 : m.typ = .snap → s.term ≤ m.term := fun e => hm (Or.inr (Or.inr e))
  rel_start
  wp_auto [first
    | rel_call' (becomeFollower_good _ _ _ (by first | exact h1 (by assumption) | exact h2 (by assumption) | exact h3 (by assumption)))
    | good_step]

theorem stepLeader_good (fuel : Nat) (m : Message) (s : Raft) :
    Spec (stepLeader fuel m) s (fun _ s' => Good s s') := by
  rw [stepLeader]
  rel_start
  wp_auto [first | good_step | rel_loop Good]

end Raft
end RaftVerif
