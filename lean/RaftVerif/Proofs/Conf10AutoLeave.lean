import RaftVerif.Proofs.Conf10Apply
import RaftVerif.Proofs.Conf10Closed
/-!
# Proofs/Conf10AutoLeave — `appliedTo` proposes the empty ConfChangeV2 for an auto-leave joint
configuration (raft.go:737-764)

* `appliedTo_run` — run equation of `Raft.appliedTo`
* `step_prop_leader_run`, `gate_autoLeave`, `checkConfChange_leave`, `autoLeave_joint`
* `appliedTo_autoLeave_run` — the resulting state
Core Lean only.
-/
namespace RaftVerif.Conf10
open Raft

/-- the proposal `appliedTo` steps to leave an auto-leave joint configuration: `confChangeToMsg(nil)`,
an empty ConfChangeV2 -/
def autoLeaveEntry : Entry := { typ := some .confChangeV2, data := none }
def autoLeaveMsg : Message := { typ := .prop, entries := [autoLeaveEntry] }

/-- the empty ConfChangeV2 (`LeaveJoint() = true`) -/
def leaveCC : ConfChangeV2 := { transition := .auto, changes := [] }

theorem ccDecode_autoLeaveEntry : ccDecode autoLeaveEntry = .ok (some leaveCC) := by rfl

theorem appliedToLog_run (index size : Nat) (r : Raft) :
    (appliedToLog index size).run r =
      match r.log.appliedTo (max index r.log.applied) size with
      | .error e => .error e
      | .ok l => .ok (max index r.log.applied, { r with log := l }) := by
  unfold appliedToLog
  simp only [StateT.run_bind, StateT.run_get, P_pure_eq, P_ok_bind, liftP_run]
  cases r.log.appliedTo (max index r.log.applied) size with
  | error e => rfl
  | ok l => rfl

/-- **`appliedTo`**: advance the applied cursor; if the configuration is an auto-leave joint one, the
new applied index has reached `pendingConfIndex` and the node is leader, `Step` is called with the empty
ConfChangeV2 proposal -/
theorem appliedTo_run (fuel index size : Nat) (r : Raft) :
    (appliedTo fuel index size).run r =
      match r.log.appliedTo (max index r.log.applied) size with
      | .error e => .error e
      | .ok l =>
        if r.trk.cfg.autoLeave = true ∧ r.pendingConfIndex ≤ max index r.log.applied ∧ r.state = .leader
        then (do let _ ← step fuel autoLeaveMsg; pure () : M Unit).run { r with log := l }
        else .ok ((), { r with log := l }) := by
  rw [appliedTo]
  simp only [StateT.run_bind, appliedToLog_run]
  cases r.log.appliedTo (max index r.log.applied) size with
  | error e => rfl
  | ok l =>
    simp only [P_ok_bind, StateT.run_get, P_pure_eq]
    by_cases hc : r.trk.cfg.autoLeave = true ∧ r.pendingConfIndex ≤ max index r.log.applied ∧ r.state = .leader
    · rw [if_pos hc, if_pos (by
        obtain ⟨h1, h2, h3⟩ := hc
        simp [h1, h2, h3])]
      rfl
    · rw [if_neg hc, if_neg (by
        intro h
        apply hc
        simpa [and_assoc] using h)]
      rfl


/-- a MsgProp with term 0 at a leader goes straight to `stepLeader` -/
theorem step_prop_leader_run (fuel : Nat) (m : Message) (r : Raft) (ht : m.typ = .prop) (h0 : m.term = 0)
    (hl : r.state = .leader) : (step (fuel + 1) m).run r = (stepLeader fuel m).run r := by
  obtain ⟨typ, to, frm, term, logTerm, index, entries, commit, vote, snapshot, reject, rejectHint, context, responses⟩ := m
  simp only at ht h0
  subst ht; subst h0
  rw [step]
  simp only [StateT.run_bind, StateT.run_get, P_pure_eq, P_ok_bind, beq_self_eq_true, ↓reduceIte, hl]

/-- the gate on the auto-leave proposal: kept (and `pendingConfIndex := lastIndex + 1`) iff no change is
pending, the configuration is joint and the Changer would accept `LeaveJoint` -/
theorem gate_autoLeave (r : Raft) (hval : r.cfg.disableConfChangeValidation = false) :
    gate r r.pendingConfIndex [autoLeaveEntry].zipIdx =
      if r.pendingConfIndex ≤ r.log.applied ∧ 0 < r.trk.outgoingL.length ∧ r.checkConfChange leaveCC = true
      then .ok ([autoLeaveEntry], r.log.lastIndex + 1)
      else .ok ([neutral], r.pendingConfIndex) := by
  have hacc : gateAccepts r r.pendingConfIndex leaveCC ↔
      (r.pendingConfIndex ≤ r.log.applied ∧ 0 < r.trk.outgoingL.length ∧ r.checkConfChange leaveCC = true) := by
    unfold gateAccepts leaveCC
    simp
  simp only [List.zipIdx_cons, List.zipIdx_nil, gate, gateStep, ccDecode_autoLeaveEntry, hval, Bool.not_false,
    Bool.and_true]
  by_cases h : gateAccepts r r.pendingConfIndex leaveCC
  · rw [if_neg (by rw [(gateRefuses_eq_false_iff _ _ _).2 h]; simp), if_pos (hacc.1 h)]
  · have : gateRefuses r r.pendingConfIndex leaveCC = true := by
      cases hr : gateRefuses r r.pendingConfIndex leaveCC
      · exact absurd ((gateRefuses_eq_false_iff _ _ _).1 hr) h
      · rfl
    rw [if_pos this, if_neg (fun h' => h (hacc.2 h'))]

/-- in a valid (`ConfReach`) joint configuration the Changer accepts `LeaveJoint` -/
theorem checkConfChange_leave (r : Raft) (hreach : ConfReach r.trk.cfg r.trk.progress)
    (hj : r.trk.cfg.outgoing ≠ none) : r.checkConfChange leaveCC = true := by
  rw [checkConfChange_iff]
  refine ⟨leaveJointResult (changerOf r), ?_⟩
  have : applyV2 (changerOf r) leaveCC = (changerOf r).leaveJoint := rfl
  rw [this]
  exact (leaveJoint_accepts_iff_aux (changerOf r) _ hreach.strong hreach.staged).mpr ⟨hj, rfl⟩

/-- an auto-leave configuration is joint (`checkInvariants`: "AutoLeave must be false when not joint") -/
theorem autoLeave_joint {cfg : TrackerConfig} {trk : ProgressMap} (h : ConfInv cfg trk)
    (ha : cfg.autoLeave = true) : cfg.outgoing ≠ none ∧ 0 < (cfg.outgoing.getD []).length := by
  have : cfg.outgoing.getD [] ≠ [] := by
    intro h0
    have := (h.nonJoint h0).2.2
    rw [ha] at this; cases this
  refine ⟨?_, List.length_pos_iff.mpr this⟩
  intro h0
  rw [h0] at this
  exact this rfl


theorem discard_result (A : M Bool) (s : Raft) :
    (do let _ ← (do let ok ← A
                    if (!ok) = true then pure (some StepErr.proposalDropped)
                    else do
                      bcastAppend
                      pure none : M (Option StepErr))
        pure () : M Unit).run s =
    (do let ok ← A
        if (!ok) = true then pure () else bcastAppend : M Unit).run s := by
  simp only [StateT.run_bind]
  cases A.run s with
  | error e => rfl
  | ok q =>
    obtain ⟨ok, s2⟩ := q
    cases ok with
    | false => rfl
    | true =>
      simp only [P_ok_bind, Bool.not_true, Bool.false_eq_true, ↓reduceIte, StateT.run_bind]
      cases bcastAppend.run s2 with
      | error e => rfl
      | ok q2 => rfl

/-- **auto-leave is proposed** (raft.go:737-764): a leader (own progress entry, no leadership transfer,
validation enabled) whose configuration is an auto-leave joint one (valid: `ConfReach`) and whose applied
index reaches `pendingConfIndex` proposes the empty ConfChangeV2 by itself: the state after
`appliedTo` is the result of `appendEntry [empty ConfChangeV2]` + `bcastAppend` started from the state with
the advanced applied cursor and `pendingConfIndex := lastIndex + 1` -/
theorem appliedTo_autoLeave_run (fuel index size : Nat) (r : Raft) (l : RaftLog)
    (hal : r.trk.cfg.autoLeave = true) (hpci : r.pendingConfIndex ≤ max index r.log.applied)
    (hl : r.state = .leader) (happ : r.log.appliedTo (max index r.log.applied) size = .ok l)
    (hself : (r.trk.getProgress r.cfg.id).isNone = false) (hlt : r.leadTransferee = 0)
    (hval : r.cfg.disableConfChangeValidation = false)
    (hreach : ConfReach r.trk.cfg r.trk.progress) :
    (appliedTo (fuel + 1) index size).run r =
      (do let ok ← appendEntry [autoLeaveEntry]
          if (!ok) = true then pure () else bcastAppend : M Unit).run
        { r with log := l, pendingConfIndex := l.lastIndex + 1 } := by
  rw [appliedTo_run, happ]
  simp only
  rw [if_pos ⟨hal, hpci, hl⟩]
  have hla : l.applied = max index r.log.applied := by
    unfold RaftLog.appliedTo at happ
    split at happ
    · cases happ
    · simp only [pure, Except.pure, Except.ok.injEq] at happ
      rw [← happ]
  obtain ⟨hj, hjl⟩ := autoLeave_joint hreach.strong.inv hal
  have hg := gate_autoLeave { r with log := l } hval
  rw [if_pos ⟨by show r.pendingConfIndex ≤ l.applied; omega, hjl,
    checkConfChange_leave { r with log := l } hreach hj⟩] at hg
  have hm : autoLeaveMsg.entries = [autoLeaveEntry] := rfl
  have h1 : (step (fuel + 1) autoLeaveMsg).run { r with log := l } =
      (do let ok ← appendEntry [autoLeaveEntry]
          if (!ok) = true then pure (some StepErr.proposalDropped)
          else do
            bcastAppend
            pure none : M (Option StepErr)).run (withPCI { r with log := l } (l.lastIndex + 1)) := by
    rw [step_prop_leader_run fuel autoLeaveMsg { r with log := l } rfl rfl hl,
      stepLeader_prop_gate_run fuel autoLeaveMsg { r with log := l } rfl (by simp [autoLeaveMsg]) hself hlt,
      hm, hg]
  rw [StateT.run_bind, h1]
  have d := discard_result (appendEntry [autoLeaveEntry]) (withPCI { r with log := l } (l.lastIndex + 1))
  rw [StateT.run_bind] at d
  exact d

end RaftVerif.Conf10
