import RaftVerif.Proofs.SimDefs
/-!
# Proofs/SimInv — the node-local simulation invariant `RaftInv` and the notion `RaftSim`
-/
namespace RaftVerif.Sim
open Refine

/-- the Spec configuration of a cluster with the static voter list `voters` -/
abbrev cfgOf (voters : List Id) : Spec.Cfg := Spec.jointCfg voters []

/-- the part of the invariant that concerns the immutable configuration and the features that are switched off
(no PreVote / leadership transfer / ReadIndex; CheckQuorum is free; static membership `voters`, no learners) -/
structure RaftStatic (voters : List Id) (n : Nat) (r : Raft) : Prop where
  id : r.cfg.id = n
  idnz : n ≠ 0
  pv : r.cfg.preVote = false
  xfer : r.leadTransferee = 0
  pri : r.pendingReadIndexMessages = []
  ro : r.readOnly.unconfirmed = []
  tvoters : r.trk.cfg.voters = voters
  tout : r.trk.cfg.outgoing = none
  tauto : r.trk.cfg.autoLeave = false
  prog : ∀ v, v ∈ voters ↔ (r.trk.getProgress v).isSome = true
  nolearn : ∀ v pr, r.trk.getProgress v = some pr → pr.isLearner = false
  self : n ∈ voters

/-- `RaftStatic` only looks at `cfg`, `leadTransferee`, `pendingReadIndexMessages`, `readOnly`, `trk.cfg` and
`trk.progress` -/
theorem RaftStatic.congr {voters : List Id} {n : Nat} {r r' : Raft} (h : RaftStatic voters n r)
    (h1 : r'.cfg = r.cfg) (h2 : r'.leadTransferee = r.leadTransferee)
    (h3 : r'.pendingReadIndexMessages = r.pendingReadIndexMessages) (h4 : r'.readOnly.unconfirmed = r.readOnly.unconfirmed)
    (h5 : r'.trk.cfg = r.trk.cfg) (h6 : r'.trk.progress = r.trk.progress) : RaftStatic voters n r' := by
  have hg : ∀ v, r'.trk.getProgress v = r.trk.getProgress v := fun v => by unfold Tracker.getProgress; rw [h6]
  exact ⟨by rw [h1]; exact h.id, h.idnz, by rw [h1]; exact h.pv, h2.trans h.xfer,
    h3.trans h.pri, h4.trans h.ro, by rw [h5]; exact h.tvoters, by rw [h5]; exact h.tout, by rw [h5]; exact h.tauto,
    fun v => by rw [hg]; exact h.prog v, fun v pr hp => h.nolearn v pr (by rw [← hg]; exact hp), h.self⟩

/-- **node-local simulation invariant**: the model state `r` of node `n`, its Spec node `nd` and the soup `msgs`.
The restrictions of the theorem are in `st`. -/
structure RaftInv (val : Val) (voters : List Id) (n : Nat) (r : Raft) (nd : Spec.Node)
    (msgs : List Spec.Msg) : Prop where
  abs : Abs val r nd
  st : RaftStatic voters n r
  wf : r.log.WF
  unc : Uncompacted r.log
  /-- a leader knows itself as leader and voted for itself -/
  leadInv : r.state = .leader → r.lead = n ∧ r.vote = n
  candVote : r.state = .candidate → r.vote = n
  termPos : r.state ≠ .follower → r.term ≠ 0
  /-- every entry has a term ≤ the node's term; a candidate's log has no entry of its own term -/
  logLe : ∀ e ∈ absLog val r, e.term ≤ r.term
  candLt : r.state = .candidate → ∀ e ∈ absLog val r, e.term < r.term
  /-- Spec bookkeeping: sync mode, nothing handed out; durable promises are volatile promises -/
  pend : nd.pending = []
  durV : ∀ p ∈ nd.dur.votes, p ∈ nd.vol.votes
  durA : ∀ p ∈ nd.dur.acks, p ∈ nd.vol.acks
  /-- queued messages are justified by the soup; queued promises are recorded -/
  out : ∀ m ∈ r.msgs, NetOK val msgs m
  prom : ∀ m ∈ r.msgsAfterAppend, PromOK n nd.vol m
  /-- vote requests of `n` in the soup -/
  rvTerm : ∀ t lt li, Spec.Msg.reqVote t n lt li ∈ msgs → t ≤ r.term
  rvCov : r.state = .candidate → Spec.reqVotesCovered msgs r.term n (absLog val r) = true
  /-- recorded votes are backed by released votes (the own one: durable) -/
  votes : r.state = .candidate → ∀ v, mapGet r.trk.votes v = some true →
    (v = n ∧ (r.term, n) ∈ nd.dur.votes) ∨ (v ≠ n ∧ Spec.Msg.vote r.term v n ∈ msgs)
  selfVote : r.state = .candidate → mapGet r.trk.votes n ≠ some false
  /-- `Progress.Match` is backed by released acknowledgements (the own one: durable) -/
  matchO : r.state = .leader → ∀ v pr c, v ≠ n → r.trk.getProgress v = some pr → 0 < c → c ≤ pr.match_ →
    Spec.hasAck msgs r.term v c = true
  matchS : r.state = .leader → ∀ pr c, r.trk.getProgress n = some pr → c ≤ pr.match_ →
    (absLog val r).termAt c = some r.term → Spec.hasDurAck nd.dur.acks r.term c = true

/-- the model state `r'` of node `n` is reached, on the Spec side, by actions of node `n` from `s` -/
def RaftSim (val : Val) (voters : List Id) (n : Nat) (s : Spec.State) (r' : Raft) : Prop :=
  ∃ as s', RunL (cfgOf voters) s as s' ∧ (∀ a ∈ as, a.actor = n) ∧
    RaftInv val voters n r' (s'.nodes n) s'.msgs

theorem RaftSim.refl {val : Val} {voters : List Id} {n : Nat} {s : Spec.State} {r : Raft}
    (h : RaftInv val voters n r (s.nodes n) s.msgs) : RaftSim val voters n s r :=
  ⟨[], s, .nil s, by simp, h⟩

theorem RaftSim.trans {val : Val} {voters : List Id} {n : Nat} {s s1 : Spec.State} {r' : Raft}
    {as : List Spec.Action} (h1 : RunL (cfgOf voters) s as s1) (ha : ∀ a ∈ as, a.actor = n)
    (h2 : RaftSim val voters n s1 r') : RaftSim val voters n s r' := by
  obtain ⟨bs, s2, hr, hb, hi⟩ := h2
  refine ⟨as ++ bs, s2, h1.append hr, ?_, hi⟩
  intro a ha'
  rcases List.mem_append.1 ha' with h | h
  · exact ha a h
  · exact hb a h

/-- **frame**: the invariant of node `n` survives a growth of the soup that adds no vote request of `n` -/
theorem RaftInv.frame {val : Val} {voters : List Id} {n : Nat} {r : Raft} {nd : Spec.Node}
    {msgs msgs' : List Spec.Msg} (h : RaftInv val voters n r nd msgs) (hsub : ∀ x ∈ msgs, x ∈ msgs')
    (hnew : ∀ t lt li, Spec.Msg.reqVote t n lt li ∈ msgs' → Spec.Msg.reqVote t n lt li ∈ msgs) :
    RaftInv val voters n r nd msgs' where
  abs := h.abs
  st := h.st
  wf := h.wf
  unc := h.unc
  leadInv := h.leadInv
  candVote := h.candVote
  termPos := h.termPos
  logLe := h.logLe
  candLt := h.candLt
  pend := h.pend
  durV := h.durV
  durA := h.durA
  out := fun m hm => (h.out m hm).mono hsub
  prom := h.prom
  rvTerm := fun t lt li hx => h.rvTerm t lt li (hnew t lt li hx)
  rvCov := by
    intro hc
    have h0 := h.rvCov hc
    unfold Spec.reqVotesCovered at h0 ⊢
    rw [List.all_eq_true] at h0 ⊢
    intro x hx
    cases x with
    | reqVote t' c' lt li =>
      by_cases hk : t' = r.term ∧ c' = n
      · obtain ⟨rfl, rfl⟩ := hk
        exact h0 _ (hnew _ _ _ hx)
      · have : (t' == r.term && c' == n) = false := by
          simp only [Bool.and_eq_false_iff, beq_eq_false_iff_ne, ne_eq]
          by_cases h1 : t' = r.term
          · exact Or.inr (fun h2 => hk ⟨h1, h2⟩)
          · exact Or.inl h1
        simp [this]
    | _ => rfl
  votes := fun hc v hv => (h.votes hc v hv).imp id fun h' => ⟨h'.1, hsub _ h'.2⟩
  selfVote := h.selfVote
  matchO := fun hl v pr c hv hp h0 hc => hasAck_mono hsub (h.matchO hl v pr c hv hp h0 hc)
  matchS := h.matchS

/-- `RaftInv` does not look at timers, draws, read states, … -/
theorem RaftInv.congr {val : Val} {voters : List Id} {n : Nat} {r r' : Raft} {nd : Spec.Node}
    {msgs : List Spec.Msg} (h : RaftInv val voters n r nd msgs)
    (h1 : r'.cfg = r.cfg) (h2 : r'.term = r.term) (h3 : r'.vote = r.vote) (h4 : r'.log = r.log)
    (h5 : r'.trk = r.trk) (h6 : r'.state = r.state) (h7 : r'.msgs = r.msgs)
    (h8 : r'.msgsAfterAppend = r.msgsAfterAppend) (h9 : r'.lead = r.lead)
    (h10 : r'.leadTransferee = r.leadTransferee)
    (h11 : r'.pendingReadIndexMessages = r.pendingReadIndexMessages)
    (h12 : r'.readOnly.unconfirmed = r.readOnly.unconfirmed) : RaftInv val voters n r' nd msgs := by
  have hl : absLog val r' = absLog val r := by unfold absLog; rw [h4]
  exact {
    abs := h.abs.congr h2 h3 h4 (by rw [h6])
    st := h.st.congr h1 h10 h11 h12 (by rw [h5]) (by rw [h5])
    wf := by rw [h4]; exact h.wf
    unc := by rw [h4]; exact h.unc
    leadInv := by rw [h6, h9, h3]; exact h.leadInv
    candVote := by rw [h6, h3]; exact h.candVote
    termPos := by rw [h6, h2]; exact h.termPos
    logLe := by rw [hl, h2]; exact h.logLe
    candLt := by rw [hl, h2, h6]; exact h.candLt
    pend := h.pend
    durV := h.durV
    durA := h.durA
    out := by rw [h7]; exact h.out
    prom := by rw [h8]; exact h.prom
    rvTerm := by rw [h2]; exact h.rvTerm
    rvCov := by rw [hl, h2, h6]; exact h.rvCov
    votes := by rw [h6, h5, h2]; exact h.votes
    selfVote := by rw [h6, h5]; exact h.selfVote
    matchO := by rw [h6, h5, h2]; exact h.matchO
    matchS := by rw [h6, h5, h2, hl]; exact h.matchS }

end RaftVerif.Sim
