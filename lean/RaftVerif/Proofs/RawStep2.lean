import RaftVerif.Proofs.RawStep
/-!
# Proofs/RawStep2 — the handlers that may shrink the log (`handleAppendEntries`, `restore`,
`handleSnapshot`) keep `Prom` when the message agrees with the log below the pending promises
-/
namespace RaftVerif.Raw
open RaftVerif Raft

/-- a MsgApp `m` (entries contiguous from `m.index + 1`) does not contradict what this node has already
acknowledged in term `m.term`: below every pending same-term promise its entries agree with the log -/
structure AppAgrees (l : RaftLog) (maa : List Message) (m : Message) : Prop where
  contig : Contig (m.index + 1) m.entries
  agree : ∀ x ∈ maa, PendApp x → x.term = m.term → x.index ≤ l.lastIndex →
    ∀ e ∈ m.entries, e.index ≤ x.index → l.matchTerm ⟨e.term, e.index⟩ = true

/-- a MsgSnap `m` does not discard what this node has acknowledged in term `m.term`: a snapshot that gets
installed (beyond `committed`, not matching the log) lies beyond every pending same-term promise -/
def SnapAgrees (l : RaftLog) (maa : List Message) (m : Message) : Prop :=
  ∀ x ∈ maa, PendApp x → x.term = m.term → x.index ≤ l.lastIndex →
    x.index ≤ (m.snapshot.getD {}).index ∨ (m.snapshot.getD {}).index ≤ l.committed ∨
    l.matchTerm ⟨(m.snapshot.getD {}).term, (m.snapshot.getD {}).index⟩ = true

theorem handleAppendEntries_prom (m : Message) (s : Raft) (hT : s.term = m.term)
    (hA : AppAgrees s.log s.msgsAfterAppend m) :
    Spec (handleAppendEntries m) s (fun _ s' => Prom s s') := by
  unfold handleAppendEntries
  rel_start
  simp (config := {zeta := false}) only [wp]
  refine ⟨fun _ => ?_, fun _ => ?_⟩
  · wp_auto [prom_step]
  · intro p hp
    -- the state after `setLog`
    have key : Prom s { s with log := p.1 } ∧ (∀ i, p.2 = some i → i ≤ p.1.lastIndex) := by
      rcases maybeAppend_last hA.contig hp with ⟨h1, h2⟩ | ⟨h1, h2, h3, h4⟩
      · rw [h2]; exact ⟨Prom.refl _, fun i hi => by rw [h1] at hi; cases hi⟩
      · refine ⟨⟨Good.of_commit rfl rfl rfl (RaftLog.maybeAppend_committed' hp) rfl rfl, h3,
          ?_, ?_, ?_⟩, fun i hi => ?_⟩
        · intro _ x hx hpx hxt hxi
          exact h4 x.index (fun e he hle => hA.agree x hx hpx (hxt.trans hT) hxi e he hle) hxi
        · intro _ y hy; simp [added] at hy
        · intro y hy; simp [added] at hy
        · rw [h1] at hi; cases hi; exact h2
    obtain ⟨k1, k2⟩ := key
    cases hp2 : p.2 with
    | none =>
      simp (config := {zeta := false}) only []
      wp_auto [prom_step]
    | some i =>
      simp (config := {zeta := false}) only []
      rel_call (send_prom _ _ (by intro _ _ _; exact k2 i hp2) (by send_side))
      rel_acc


/-! ### `restore` / `handleSnapshot` -/

theorem restore_lastIndex (l : RaftLog) (snap : Snapshot) : (l.restore snap).lastIndex = snap.index := by
  simp [RaftLog.restore, RaftLog.lastIndex, Unstable.restore, Unstable.maybeLastIndex]

/-- installing a snapshot that lies beyond every pending same-term promise -/
theorem Prom.of_restore {s x : Raft} {snap : Snapshot}
    (hS : ∀ y ∈ s.msgsAfterAppend, PendApp y → y.term = s.term → y.index ≤ s.log.lastIndex →
      y.index ≤ snap.index ∨ snap.index ≤ s.log.committed ∨ s.log.matchTerm ⟨snap.term, snap.index⟩ = true)
    (hc : ¬ snap.index ≤ s.log.committed) (hm : ¬ s.log.matchTerm ⟨snap.term, snap.index⟩ = true)
    (h1 : x.cfg = s.cfg) (h2 : x.term = s.term) (h3 : x.vote = s.vote)
    (h5 : x.msgs = s.msgs) (h6 : x.msgsAfterAppend = s.msgsAfterAppend) (hl : x.log = s.log.restore snap) :
    Prom s x := by
  have hli : x.log.lastIndex = snap.index := by rw [hl]; exact restore_lastIndex _ _
  have hci : x.log.committed = snap.index := by rw [hl]; rfl
  refine ⟨Good.of_commit h1 h2 h3 (by omega) h5 h6, fun _ => by unfold CL; omega, ?_, ?_, ?_⟩
  · intro _ y hy hpy hyt hyi
    rw [hli]
    rcases hS y hy hpy hyt hyi with h | h | h
    · exact h
    · exact absurd h hc
    · exact absurd h hm
  · intro _ y hy; rw [added_of_eq h6] at hy; cases hy
  · intro y hy; rw [added_of_eq h6] at hy; cases hy

macro "restore_fields" : tactic =>
  `(tactic| exact Prom.of_restore (by assumption) (by assumption) (by assumption) rfl rfl rfl rfl rfl rfl)
macro_rules | `(tactic| rel_fields) => `(tactic| restore_fields)

theorem restore_prom (snap : Snapshot) (s : Raft)
    (hS : ∀ y ∈ s.msgsAfterAppend, PendApp y → y.term = s.term → y.index ≤ s.log.lastIndex →
      y.index ≤ snap.index ∨ snap.index ≤ s.log.committed ∨ s.log.matchTerm ⟨snap.term, snap.index⟩ = true) :
    Spec (restore snap) s (fun _ s' => Prom s s') := by
  unfold restore
  rel_start
  wp_auto [prom_step]


theorem handleSnapshot_prom (m : Message) (s : Raft) (hT : s.term = m.term)
    (hS : SnapAgrees s.log s.msgsAfterAppend m) :
    Spec (handleSnapshot m) s (fun _ s' => Prom s s') := by
  unfold handleSnapshot
  rel_start
  have hS' : ∀ y ∈ s.msgsAfterAppend, PendApp y → y.term = s.term → y.index ≤ s.log.lastIndex →
      y.index ≤ (m.snapshot.getD {}).index ∨ (m.snapshot.getD {}).index ≤ s.log.committed ∨
      s.log.matchTerm ⟨(m.snapshot.getD {}).term, (m.snapshot.getD {}).index⟩ = true :=
    fun y hy hp ht hi => hS y hy hp (ht.trans hT) hi
  wp_auto [first | rel_call (restore_prom _ _ hS') | prom_step]

/-- what the message handlers need from a message: nothing unless it is a MsgApp or a MsgSnap -/
structure MsgAgrees (l : RaftLog) (maa : List Message) (m : Message) : Prop where
  app : m.typ = .app → AppAgrees l maa m
  snap : m.typ = .snap → SnapAgrees l maa m

theorem MsgAgrees.of_typ {l : RaftLog} {maa : List Message} {m : Message} (h1 : m.typ ≠ .app) (h2 : m.typ ≠ .snap) :
    MsgAgrees l maa m := ⟨fun h => absurd h h1, fun h => absurd h h2⟩

theorem stepFollower_prom (fuel : Nat) (m : Message) (s : Raft) (hT : AppLike m → s.term = m.term)
    (hA : MsgAgrees s.log s.msgsAfterAppend m) :
    Spec (stepFollower fuel m) s (fun _ s' => Prom s s') := by
  rw [stepFollower]
  rel_start
  wp_auto [first
    | rel_call (handleAppendEntries_prom _ _ (hT (Or.inl (by assumption))) (hA.app (by assumption)))
    | rel_call (handleSnapshot_prom _ _ (hT (Or.inr (Or.inr (by assumption)))) (hA.snap (by assumption)))
    | prom_step]


/-- the facts `becomeFollower_prom` leaves behind -/
abbrev BF (mid : Raft) (t : Nat) (l : RaftLog) (maa : List Message) : Prop :=
  mid.term = t ∧ mid.state = .follower ∧ mid.log = l ∧ mid.msgsAfterAppend = maa

theorem BF.term {mid : Raft} {t : Nat} {l : RaftLog} {maa : List Message} (h : BF mid t l maa) : mid.term = t := h.1
theorem BF.app {mid : Raft} {t : Nat} {l : RaftLog} {maa : List Message} {m : Message} (h : BF mid t l maa)
    (hA : AppAgrees l maa m) : AppAgrees mid.log mid.msgsAfterAppend m := by
  obtain ⟨_, _, h3, h4⟩ := h; rw [h3, h4]; exact hA
theorem BF.snap {mid : Raft} {t : Nat} {l : RaftLog} {maa : List Message} {m : Message} (h : BF mid t l maa)
    (hA : SnapAgrees l maa m) : SnapAgrees mid.log mid.msgsAfterAppend m := by
  obtain ⟨_, _, h3, h4⟩ := h; rw [h3, h4]; exact hA

theorem stepCandidate_prom (fuel : Nat) (m : Message) (s : Raft) (hT : AppLike m → s.term ≤ m.term)
    (hA : MsgAgrees s.log s.msgsAfterAppend m) :
    Spec (stepCandidate fuel m) s (fun _ s' => Prom s s') := by
  rw [stepCandidate]
  have h1 : m.typ = .app → s.term ≤ m.term := fun e => hT (Or.inl e)
  have h2 : m.typ = .heartbeat → s.term ≤ m.term := fun e => hT (Or.inr (Or.inl e))
  have h3 : m.typ = .snap → s.term ≤ m.term := fun e => hT (Or.inr (Or.inr e))
  rel_start
  wp_auto [first
    | rel_call' (becomeFollower_prom _ _ _ (by first | exact h1 (by assumption) | exact h2 (by assumption) | exact h3 (by assumption)))
    | rel_call (handleAppendEntries_prom _ _ (BF.term (by assumption)) (BF.app (by assumption) (hA.app (by assumption))))
    | rel_call (handleSnapshot_prom _ _ (BF.term (by assumption)) (BF.snap (by assumption) (hA.snap (by assumption))))
    | prom_step]

theorem stepLeader_prom (fuel : Nat) (m : Message) (s : Raft) :
    Spec (stepLeader fuel m) s (fun _ s' => Prom s s') := by
  rw [stepLeader]
  rel_start
  wp_auto [first | prom_step | rel_loop Prom]

end RaftVerif.Raw
