import RaftVerif.Proofs.SimRound
import RaftVerif.Proofs.NextSoloLog
import RaftVerif.Proofs.LogStorageOps
/-!
# Proofs/SimStorage — model-level lemmas for the sync-mode round `Ready; persist; Advance`

* `RaftInv.congrLog`        — `RaftInv` only looks at `log.WF`, `log.abs` and `log.committed` of the log
* `LogSettled`              — between two rounds nothing is pending in `unstable` (no snapshot, nothing in progress)
* `ready_sync_inv`          — inversion of `RawNode.ready` in sync mode
* `persistReady_inv`        — inversion of `persistReady`; storage then holds all unstable entries
* `step_storageAppendResp_inv`, `step_storageApplyResp_inv` — the two storage acknowledgements keep `RaftInv`
-/
namespace RaftVerif.Sim
open Refine
set_option linter.unusedSimpArgs false

/-- `RaftInv` looks at the log only through `WF`, `abs` and `committed` -/
theorem RaftInv.congrLog {val : Val} {voters : List Id} {n : Nat} {r r' : Raft} {nd : Spec.Node}
    {msgs : List Spec.Msg} (h : RaftInv val voters n r nd msgs)
    (hwf : r'.log.WF) (habs : r'.log.abs = r.log.abs) (hcom : r'.log.committed = r.log.committed)
    (h1 : r'.cfg = r.cfg) (h2 : r'.term = r.term) (h3 : r'.vote = r.vote)
    (h5 : r'.trk = r.trk) (h6 : r'.state = r.state) (h7 : ∀ m ∈ r'.msgs, m ∈ r.msgs)
    (h8 : ∀ m ∈ r'.msgsAfterAppend, m ∈ r.msgsAfterAppend) (h9 : r'.lead = r.lead)
    (h10 : r'.leadTransferee = r.leadTransferee)
    (h11 : r'.pendingReadIndexMessages = r.pendingReadIndexMessages)
    (h12 : r'.readOnly.unconfirmed = r.readOnly.unconfirmed) : RaftInv val voters n r' nd msgs := by
  have hl : absLog val r' = absLog val r := by unfold absLog absLogL; rw [habs]
  exact {
    abs := ⟨by rw [h2]; exact h.abs.term, by rw [h3]; exact h.abs.vote, by rw [hcom]; exact h.abs.commit,
      by rw [hl]; exact h.abs.log, by rw [h6]; exact h.abs.role⟩
    st := h.st.congr h1 h10 h11 h12 (by rw [h5]) (by rw [h5])
    wf := hwf
    unc := h.unc.of_abs (by rw [habs]) (by rw [habs])
    leadInv := by rw [h6, h9, h3]; exact h.leadInv
    candVote := by rw [h6, h3]; exact h.candVote
    termPos := by rw [h6, h2]; exact h.termPos
    logLe := by rw [hl, h2]; exact h.logLe
    candLt := by rw [hl, h2, h6]; exact h.candLt
    pend := h.pend
    durV := h.durV
    durA := h.durA
    out := fun m hm => h.out m (h7 m hm)
    prom := fun m hm => h.prom m (h8 m hm)
    rvTerm := by rw [h2]; exact h.rvTerm
    rvCov := by rw [hl, h2, h6]; exact h.rvCov
    votes := by rw [h6, h5, h2]; exact h.votes
    selfVote := by rw [h6, h5]; exact h.selfVote
    matchO := by rw [h6, h5, h2]; exact h.matchO
    matchS := by rw [h6, h5, h2, hl]; exact h.matchS }

/-- between two rounds of the sync-mode application loop nothing is pending in `unstable`: no snapshot, and no
entry has been handed out without having been acknowledged (`offsetInProgress = offset`) -/
def LogSettled (l : RaftLog) : Prop :=
  l.unstable.snapshot = none ∧ l.unstable.offsetInProgress = l.unstable.offset

/-! ### the last entry id when `unstable` is not empty -/

/-- with unstable entries, `lastEntryID()` is the id of the last unstable entry -/
theorem lastEntryID_of_unstable {l : RaftLog} (h : l.WF) {last : Entry}
    (hl : l.unstable.entries.getLast? = some last) :
    l.lastEntryID = .ok { term := last.term, index := last.index } := by
  obtain ⟨t, ht, he⟩ := RaftLog.lastEntryID_spec h
  have hidx := h.unstable.contig.getLast?_index hl
  have hls := RaftLog.abs_last_succ h
  unfold Unstable.next at hls
  have hmem : last ∈ l.unstable.entries := List.mem_of_getLast? hl
  have hrange := h.unstable.contig.mem hmem
  have hlast : l.abs.last = last.index := by omega
  have hent : l.abs.entry? last.index = some last := by
    rw [RaftLog.abs_entry?_of_ge h hrange.1, Unstable.entry?_eq_some_iff h.unstable]
    exact ⟨hmem, rfl⟩
  obtain ⟨pre, hpe, hlen, _, _⟩ := h.shape
  have hne : last.index ≠ l.abs.base := by omega
  have : t = last.term := by
    rw [hlast] at ht
    unfold ALog.term? at ht
    rw [if_neg hne, hent] at ht
    simpa using ht.symm
  rw [he, this, hlast]

theorem acceptApplying_unstable {l l' : RaftLog} {i sz : Nat} {au : Bool}
    (hok : l.acceptApplying i sz au = .ok l') : l'.unstable = l.unstable ∧ l'.storage = l.storage := by
  rw [RaftLog.acceptApplying_eq] at hok
  split at hok
  · cases hok
  · injection hok with hok
    subst hok
    exact ⟨rfl, rfl⟩

/-! ### inversion of `RawNode.ready` (sync mode) -/

/-- what `ready` does to the log: only the cursors `offsetInProgress` / `applying` move -/
structure ReadyLog (l l2 : RaftLog) : Prop where
  wf : l2.WF
  abs : l2.abs = l.abs
  committed : l2.committed = l.committed
  storage : l2.storage = l.storage
  unstable : l2.unstable = l.unstable.acceptInProgress

/-- **inversion of `ready` in sync mode** (previous `Ready` advanced, no pending snapshot) -/
theorem ready_sync_inv {rn rn1 : RawNode} {rd : Ready} (ha : rn.async = false) (hso : rn.stepsOnAdvance = [])
    (hwf : rn.raft.log.WF) (hsn : rn.raft.log.unstable.snapshot = none) (h : rn.ready = .ok (rd, rn1)) :
    ∃ eid l2,
      (rn.raft.log.hasNextOrInProgressUnstableEnts = true → rn.raft.log.lastEntryID = .ok eid) ∧
      rd.messages = rn.raft.msgs ++ rn.raft.msgsAfterAppend.filter (fun m => m.to != rn.raft.cfg.id) ∧
      rd.entries = rn.raft.log.nextUnstableEnts ∧
      rn1.async = false ∧ rn1.stepsOnAdvance = Next.soaOf rn.raft eid rd.committedEntries ∧
      rn1.raft = { rn.raft with readStates := [], msgs := [], msgsAfterAppend := [], log := l2 } ∧
      ReadyLog rn.raft.log l2 := by
  have h0 := h
  unfold RawNode.ready at h0
  obtain ⟨rd1, h1, h0⟩ := bind_eq_ok.1 h0
  obtain ⟨rnx, h2, h0⟩ := bind_eq_ok.1 h0
  simp only [pure, Except.pure, Except.ok.injEq, Prod.mk.injEq] at h0
  obtain ⟨e1, e2⟩ := h0
  subst e1 e2
  obtain ⟨_, hmsgs, _⟩ := Next.readyWithoutAccept_core rn rd1 h1
  have hc := RawNode.readyWithoutAccept_committed rn rd1 h1
  have hl := RawNode.acceptReady_log rn rnx rd1 h2
  simp only [ha, Bool.not_false] at hc hl
  obtain ⟨t, _, hlast⟩ := RaftLog.lastEntryID_spec hwf
  obtain ⟨_, hent, hwf2, _, hcom2, _, hsto2, habs2, _⟩ := RawNode.ready_apply rn rnx rd1 hwf h
  have hl2 : match rd1.committedEntries.getLast? with
      | some last => rn.raft.log.acceptUnstable.acceptApplying last.index (entsSize rd1.committedEntries) true
          = .ok rnx.raft.log
      | none => rnx.raft.log = rn.raft.log.acceptUnstable := by
    cases hg : rd1.committedEntries.getLast? with
    | none => rw [hg] at hl; simp only at hl ⊢; injection hl with hl; exact hl.symm
    | some last => rw [hg] at hl; exact hl
  have hun : rnx.raft.log.unstable = rn.raft.log.unstable.acceptInProgress := by
    cases hg : rd1.committedEntries.getLast? with
    | none => rw [hg] at hl2; simp only at hl2; rw [hl2]; rfl
    | some last => rw [hg] at hl2; simp only at hl2; rw [(acceptApplying_unstable hl2).1]; rfl
  obtain ⟨rd', rn', hr', _, hce, hasy, hsoa, hraft⟩ :=
    Next.ready_sync rn ha hso hsn rd1.committedEntries hc _ (fun _ => hlast) rnx.raft.log hl2
  rw [h] at hr'
  simp only [Except.ok.injEq, Prod.mk.injEq] at hr'
  obtain ⟨e1, e2⟩ := hr'
  subst e1 e2
  exact ⟨_, rnx.raft.log, fun _ => hlast, hmsgs ha, hent, hasy, hsoa, hraft, hwf2, habs2, hcom2, hsto2, hun⟩

/-! ### persisting the unstable entries -/

/-- **`MemoryStorage.Append` of all unstable entries** (no snapshot pending): the combined view is unchanged, and
storage then holds every unstable entry and ends with the last one -/
theorem storage_append_all {l : RaftLog} (h : l.WF) (hsn : l.unstable.snapshot = none) {ms : MemoryStorage}
    (hok : l.storage.append l.unstable.entries = .ok ms) :
    ({ l with storage := ms } : RaftLog).WF ∧ ({ l with storage := ms } : RaftLog).abs = l.abs ∧
    (∀ e ∈ l.unstable.entries, ms.abs.entry? e.index = some e) ∧
    (l.unstable.entries ≠ [] → ms.lastIndex + 1 = l.unstable.next) := by
  cases hes : l.unstable.entries with
  | nil =>
    rw [hes] at hok
    simp only [MemoryStorage.append, pure, Except.pure, Except.ok.injEq] at hok
    subst hok
    exact ⟨h, rfl, by simp, fun hne => absurd rfl hne⟩
  | cons e0 rest =>
    have hc := h.unstable.contig
    have hso := h.snapOK
    unfold RaftLog.SnapOK at hso
    rw [hsn] at hso
    simp only at hso
    obtain ⟨hs1, hs2, _, _⟩ := hso
    have hin : ∀ e ∈ l.unstable.entries, l.abs.entry? e.index = some e := by
      intro e he
      rw [RaftLog.abs_entry?_of_ge h (hc.mem he).1, Unstable.entry?_eq_some_iff h.unstable]
      exact ⟨he, rfl⟩
    obtain ⟨ms', hms', hwf', habs', hlast'⟩ := RaftLog.storage_append_log h hsn hc (by rw [hes]; simp) hin hs2
      (Nat.le_add_right _ _)
    rw [hok] at hms'
    injection hms' with hms'
    subst hms'
    rw [← hes]
    refine ⟨hwf', habs', ?_, fun _ => hlast'⟩
    have habs0 := MemoryStorage.append_abs h.storage hc
    rw [hok] at habs0
    have h0 : e0.index = l.unstable.offset := by rw [hes] at hc; exact hc.head_index
    have hfilter : l.unstable.entries.filter (fun e => decide (l.storage.abs.base < e.index)) = e0 :: rest := by
      rw [List.filter_eq_self.mpr, hes]
      intro e he
      have := (hc.mem he).1
      have hlt : l.storage.offset < e.index := by omega
      exact decide_eq_true hlt
    have hsl := MemoryStorage.lastIndex_abs h.storage
    simp only [Except.map, ALog.storeAppend, hfilter] at habs0
    rw [if_neg (by rw [h0, ← hsl]; omega)] at habs0
    injection habs0 with habs0
    intro e he
    obtain ⟨k, hk, rfl⟩ := List.getElem_of_mem he
    have hidx := hc k hk
    rw [habs0, hidx, ← h0, ALog.overwrite_entry?_ge _ e0 rest (by rw [h0, MemoryStorage.abs_base]; exact hs1)
      (by rw [h0, ← hsl]; exact hs2) k]
    simp only [hes] at hk ⊢
    exact List.getElem?_eq_getElem hk

theorem nextEntries_settled (u : Unstable) (h : u.offsetInProgress = u.offset) : u.nextEntries = u.entries := by
  unfold Unstable.nextEntries
  simp only [h, Nat.sub_self, List.drop_zero]
  split
  · rename_i h0
    have : u.entries.length = 0 := by simpa using h0
    exact (List.length_eq_zero_iff.mp this).symm
  · rfl

/-- `SetHardState` is invisible to `raftLog` -/
theorem log_setHardState_wf {l : RaftLog} {ms : MemoryStorage} (hs : HardState)
    (h : ({ l with storage := ms } : RaftLog).WF) : ({ l with storage := ms.setHardState hs } : RaftLog).WF :=
  ⟨h.storage, h.unstable, h.snapOK, h.appliedLeApplying, h.applyingLeCommitted, h.committedLeLast, h.budget⟩

theorem log_setHardState_abs (l : RaftLog) (ms : MemoryStorage) (hs : HardState) :
    ({ l with storage := ms.setHardState hs } : RaftLog).abs = ({ l with storage := ms } : RaftLog).abs := rfl

/-- inversion of `persistReady` -/
theorem persistReady_inv {rn1 rn2 : RawNode} {rd : Ready} (h : persistReady rn1 rd = .ok rn2) :
    ∃ ms ms', rn1.raft.log.storage.append rd.entries = .ok ms ∧ (ms' = ms ∨ ∃ hs, ms' = ms.setHardState hs) ∧
      rn2 = { rn1 with raft := { rn1.raft with log := { rn1.raft.log with storage := ms' } } } := by
  unfold persistReady at h
  obtain ⟨ms, hms, h⟩ := bind_eq_ok.1 h
  simp only [pure, Except.pure, Except.ok.injEq] at h
  refine ⟨ms, _, hms, ?_, h.symm⟩
  cases rd.hardState with
  | none => exact Or.inl rfl
  | some hs => exact Or.inr ⟨hs, rfl⟩

/-- the log after `ready` and the storage write, seen from the settled log `l` at the start of the round -/
structure Persisted (l l3 : RaftLog) : Prop where
  wf : l3.WF
  abs : l3.abs = l.abs
  committed : l3.committed = l.committed
  snap : l3.unstable.snapshot = none
  entries : l3.unstable.entries = l.unstable.entries
  offset : l3.unstable.offset = l.unstable.offset
  oip : l3.unstable.offsetInProgress = l.unstable.next
  holds : ∀ e ∈ l.unstable.entries, l3.storage.abs.entry? e.index = some e
  last : l.unstable.entries ≠ [] → l3.storage.lastIndex + 1 = l.unstable.next

theorem persisted_of_ready {l l2 : RaftLog} (hwf : l.WF) (hset : LogSettled l) (hr : ReadyLog l l2)
    {ms ms' : MemoryStorage} (happ : l2.storage.append l.nextUnstableEnts = .ok ms)
    (hms : ms' = ms ∨ ∃ hs, ms' = ms.setHardState hs) : Persisted l { l2 with storage := ms' } := by
  have hu := hr.unstable
  rw [Unstable.acceptInProgress_eq hwf.unstable] at hu
  have hsn2 : l2.unstable.snapshot = none := by rw [hu]; exact hset.1
  have hent : l2.unstable.entries = l.unstable.entries := by rw [hu]
  have hnext : l.nextUnstableEnts = l2.unstable.entries := by
    rw [hent]; exact nextEntries_settled _ hset.2
  rw [hnext] at happ
  obtain ⟨h1, h2, h3, h4⟩ := storage_append_all hr.wf hsn2 happ
  have key : Persisted l { l2 with storage := ms } :=
    ⟨h1, h2.trans hr.abs, hr.committed, hsn2, hent, by rw [hu], by rw [hu],
      fun e he => h3 e (by rw [hent]; exact he),
      fun hne => by
        have := h4 (by rw [hent]; exact hne)
        rw [this, hu]; rfl⟩
  rcases hms with rfl | ⟨hs, rfl⟩
  · exact key
  · exact ⟨log_setHardState_wf hs key.wf, key.abs, key.committed, key.snap, key.entries, key.offset, key.oip,
      key.holds, key.last⟩

/-! ### the two storage acknowledgements -/

/-- everything but the log (and sizes, timers, …) is the same -/
structure Same (r r' : Raft) : Prop where
  state : r'.state = r.state
  trk : r'.trk = r.trk
  term : r'.term = r.term
  msgs : r'.msgs = r.msgs
  maa : r'.msgsAfterAppend = r.msgsAfterAppend

theorem Same.refl (r : Raft) : Same r r := ⟨rfl, rfl, rfl, rfl, rfl⟩

/-- **MsgStorageAppendResp of the node's own term** (no snapshot, storage holds what it acknowledges): `stableTo`;
the invariant is kept (no Spec action) -/
theorem step_storageAppendResp_inv {val : Val} {voters : List Id} {n : Nat} {r r' : Raft} {nd : Spec.Node}
    {msgs : List Spec.Msg} {m : Message} {e : Option StepErr}
    (hinv : RaftInv val voters n r nd msgs) (ht : m.typ = .storageAppendResp) (hterm : m.term = r.term)
    (hs : m.snapshot = none) (hsn : r.log.unstable.snapshot = none)
    (hh : r.log.unstable.Matches { term := m.logTerm, index := m.index } → r.log.StorageHolds m.index)
    (hrun : (Raft.step Raft.stepFuel m).run r = .ok (e, r')) :
    RaftInv val voters n r' nd msgs ∧
    r' = (if m.index ≠ 0 then { r with log := r.log.stableTo { term := m.logTerm, index := m.index } } else r) := by
  have hrun' := Live.step_storageAppendResp_run 2 m r ht (Or.inr hterm) hs
  rw [show Raft.stepFuel = 2 + 1 from rfl, hrun'] at hrun
  simp only [Except.ok.injEq, Prod.mk.injEq] at hrun
  obtain ⟨_, hr'⟩ := hrun
  refine ⟨?_, hr'.symm⟩
  subst hr'
  by_cases hi : m.index = 0
  · rw [if_neg (by simpa using hi)]; exact hinv
  · rw [if_pos hi]
    obtain ⟨hno, hyes⟩ := RaftLog.stableTo_spec hinv.wf { term := m.logTerm, index := m.index }
    by_cases hm : r.log.unstable.Matches { term := m.logTerm, index := m.index }
    · obtain ⟨hwf', habs', _⟩ := hyes hm hsn (hh hm)
      exact hinv.congrLog hwf' habs' rfl rfl rfl rfl rfl rfl (fun _ h => h) (fun _ h => h) rfl rfl rfl rfl
    · rw [hno hm]; exact hinv

/-- **MsgStorageApplyResp** (term 0) at a node without auto-leave: only the apply cursors of the log and
`uncommittedSize` change; the invariant is kept (no Spec action) -/
theorem step_storageApplyResp_inv {val : Val} {voters : List Id} {n : Nat} {r r' : Raft} {nd : Spec.Node}
    {msgs : List Spec.Msg} {m : Message} {e : Option StepErr}
    (hinv : RaftInv val voters n r nd msgs) (ht : m.typ = .storageApplyResp) (hterm : m.term = 0)
    (hrun : (Raft.step Raft.stepFuel m).run r = .ok (e, r')) :
    RaftInv val voters n r' nd msgs ∧ r'.log.unstable = r.log.unstable ∧ r'.log.storage = r.log.storage ∧
      Same r r' := by
  rw [show Raft.stepFuel = 2 + 1 from rfl, Raft.step] at hrun
  simp only [hterm, ht, StateT.run_bind, StateT.run_get, P_pure_eq, P_ok_bind, beq_self_eq_true, ↓reduceIte,
    StateT.run_pure] at hrun
  cases hg : m.entries.getLast? with
  | none =>
    simp only [hg, StateT.run_pure, P_pure_eq, P_ok_bind, Except.ok.injEq, Prod.mk.injEq] at hrun
    obtain ⟨_, rfl⟩ := hrun
    exact ⟨hinv, rfl, rfl, Same.refl _⟩
  | some last =>
    simp only [hg, StateT.run_bind] at hrun
    cases hl : r.log.appliedTo (max last.index r.log.applied) (entsSize m.entries) with
    | error err =>
      rw [Raft.appliedTo] at hrun
      unfold Raft.appliedToLog at hrun
      simp only [StateT.run_bind, StateT.run_get, P_pure_eq, P_ok_bind, liftP_run, hl, P_error_bind] at hrun
      cases hrun
    | ok l =>
      rw [Live.appliedTo_plain_run 2 last.index (entsSize m.entries) r l hl (Or.inl hinv.st.tauto)] at hrun
      simp only [P_ok_bind, StateT.run_get, P_pure_eq, Raft.reduceUncommittedSize_run, StateT.run_pure, Except.ok.injEq,
        Prod.mk.injEq] at hrun
      obtain ⟨_, rfl⟩ := hrun
      obtain ⟨hwf', _, _, _, hcom', hsto', hun', _⟩ := RaftLog.appliedTo_wf hinv.wf hl
      have habs' : l.abs = r.log.abs := by unfold RaftLog.abs; rw [hun', hsto']
      exact ⟨hinv.congrLog hwf' habs' hcom' rfl rfl rfl rfl rfl (fun _ h => h) (fun _ h => h) rfl rfl rfl rfl, hun', hsto',
        ⟨rfl, rfl, rfl, rfl, rfl⟩⟩

/-! ### inversion of `advance` -/

theorem advance_inv {rn rn' : RawNode} {draws : List Nat} (h : rn.advance draws = .ok rn') :
    ∃ r', Next.runSteps rn.stepsOnAdvance { rn.raft with draws := draws } = .ok r' ∧
      rn' = { rn with raft := r', stepsOnAdvance := [] } := by
  unfold RawNode.advance at h
  by_cases ha : rn.async = true
  · simp [ha, throw, throwThe, MonadExceptOf.throw, bind, Except.bind] at h
  · simp only [ha, Bool.false_eq_true, if_false] at h
    obtain ⟨⟨u, rn1⟩, hrun, h⟩ := bind_eq_ok.1 h
    simp only [pure, Except.pure, Except.ok.injEq] at h
    subst h
    unfold RawNode.runM at hrun
    obtain ⟨⟨a', r'⟩, hact, hrun⟩ := bind_eq_ok.1 hrun
    by_cases hd : (!r'.draws.isEmpty) = true
    · simp [hd, throw, throwThe, MonadExceptOf.throw, bind, Except.bind] at hrun
    · simp only [hd, bind, Except.bind, pure, Except.pure] at hrun
      simp only [Bool.false_eq_true, if_false, Except.ok.injEq, Prod.mk.injEq] at hrun
      obtain ⟨_, rfl⟩ := hrun
      refine ⟨r', ?_, rfl⟩
      simp only [StateT.run_bind] at hact
      rw [Next.forIn_steps_run] at hact
      cases hs : Next.runSteps rn.stepsOnAdvance { rn.raft with draws := draws } with
      | error err => rw [hs] at hact; cases hact
      | ok r'' =>
        rw [hs] at hact
        simp only [P_ok_bind, StateT.run_pure, P_pure_eq, Except.ok.injEq, Prod.mk.injEq] at hact
        rw [hact.2]

/-- after the storage write, and whatever the node's own promises appended to `unstable`, storage holds everything
up to the last entry of the `Ready`, which is still in `unstable` -/
theorem holds_after_self {l l3 lk : RaftLog} (hp : Persisted l l3) (hwfk : lk.WF)
    (hsto : lk.storage = l3.storage) (hoff : lk.unstable.offset = l3.unstable.offset)
    (hents : ∃ extra, lk.unstable.entries = l3.unstable.entries ++ extra)
    {last : Entry} (hl : l.unstable.entries.getLast? = some last) :
    lk.StorageHolds last.index ∧ lk.unstable.Matches { term := last.term, index := last.index } := by
  obtain ⟨extra, hex⟩ := hents
  rw [hp.entries] at hex
  have hc := hwfk.unstable.contig
  rw [hex, contig_append, hoff, hp.offset] at hc
  obtain ⟨hc0, hc1⟩ := hc
  have hidx := hc0.getLast?_index hl
  have hmem : last ∈ l.unstable.entries := List.mem_of_getLast? hl
  have hne : l.unstable.entries ≠ [] := List.ne_nil_of_mem hmem
  have hlast := hp.last hne
  unfold Unstable.next at hlast
  refine ⟨⟨?_, fun _ => by rw [hsto]; omega⟩, last, by rw [hex]; exact List.mem_append_left _ hmem, rfl, rfl⟩
  intro e he hle
  rw [hex] at he
  rcases List.mem_append.1 he with h | h
  · rw [hsto]; exact hp.holds e h
  · have := (hc1.mem h).1
    omega

theorem settled_after_stableTo {lk : RaftLog} (hwf : lk.WF) {id : EntryID} (hm : lk.unstable.Matches id)
    (hsn : lk.unstable.snapshot = none) (hoip : lk.unstable.offsetInProgress = id.index + 1) :
    LogSettled (lk.stableTo id) := by
  unfold LogSettled RaftLog.stableTo
  rw [Unstable.stableTo_of_matches hwf.unstable hm]
  simp only [hsn, hoip, Nat.max_self, and_self]

theorem runSteps_single {m : Message} {r r' : Raft} (h : Next.runSteps [m] r = .ok r') :
    ∃ e, (Raft.step Raft.stepFuel m).run r = .ok (e, r') := by
  simp only [Next.runSteps] at h
  obtain ⟨⟨e, r1⟩, hstep, h⟩ := bind_eq_ok.1 h
  simp only [Except.ok.injEq] at h
  subst h
  exact ⟨e, hstep⟩

/-- **the acknowledgement of the storage write** (if the `Ready` had unstable entries), stepped after the node's
own promises: everything handed out becomes stable, the log is settled again -/
theorem appendResp_phase {val : Val} {voters : List Id} {n : Nat} {l l3 : RaftLog} {r0 ra rb : Raft}
    {nd : Spec.Node} {msgs : List Spec.Msg} (hwf0 : l.WF) (hsn0 : l.unstable.snapshot = none)
    (hP : Persisted l l3) (hI : RaftInv val voters n ra nd msgs) (hterm : ra.term = r0.term)
    (hsto : ra.log.storage = l3.storage) (hsn : ra.log.unstable.snapshot = l3.unstable.snapshot)
    (hoff : ra.log.unstable.offset = l3.unstable.offset)
    (hoip : ra.log.unstable.offsetInProgress = l3.unstable.offsetInProgress)
    (hents : ∃ extra, ra.log.unstable.entries = l3.unstable.entries ++ extra)
    (eid : EntryID) (hlast : l.hasNextOrInProgressUnstableEnts = true → l.lastEntryID = .ok eid)
    (hrun : Next.runSteps (if l.hasNextOrInProgressUnstableEnts = true then [Next.storageResp r0 eid] else []) ra
      = .ok rb) :
    RaftInv val voters n rb nd msgs ∧ LogSettled rb.log ∧ Same ra rb := by
  have hsnA : ra.log.unstable.snapshot = none := hsn.trans hP.snap
  cases hu : l.hasNextOrInProgressUnstableEnts with
  | false =>
    simp only [hu, Bool.false_eq_true, ↓reduceIte, Next.runSteps, Except.ok.injEq] at hrun
    subst hrun
    refine ⟨hI, ⟨hsnA, ?_⟩, Same.refl _⟩
    have hnil : l.unstable.entries = [] := by
      have : ¬ (l.unstable.entries.length > 0) := by simpa [RaftLog.hasNextOrInProgressUnstableEnts] using hu
      exact List.length_eq_zero_iff.mp (by omega)
    rw [hoip, hP.oip, hoff, hP.offset]
    unfold Unstable.next
    simp [hnil]
  | true =>
    simp only [hu, ↓reduceIte] at hrun
    obtain ⟨e, hstep⟩ := runSteps_single hrun
    have hpos : l.unstable.entries.length > 0 := by simpa [RaftLog.hasNextOrInProgressUnstableEnts] using hu
    obtain ⟨last, hl⟩ : ∃ last, l.unstable.entries.getLast? = some last := by
      cases hg : l.unstable.entries.getLast? with
      | none => rw [List.getLast?_eq_none_iff.mp hg] at hpos; simp at hpos
      | some x => exact ⟨x, rfl⟩
    have heid : eid = { term := last.term, index := last.index } := by
      have h1 := hlast hu
      rw [lastEntryID_of_unstable hwf0 hl] at h1
      injection h1 with h1; exact h1.symm
    subst heid
    obtain ⟨hholds, hmatch⟩ := holds_after_self hP hI.wf hsto hoff hents hl
    obtain ⟨hIb, hrb⟩ := step_storageAppendResp_inv
      (m := Next.storageResp r0 { term := last.term, index := last.index }) hI rfl hterm.symm rfl hsnA
      (fun _ => hholds) hstep
    have hidx := hwf0.unstable.contig.getLast?_index hl
    have hso := hwf0.snapOK
    unfold RaftLog.SnapOK at hso
    rw [hsn0] at hso
    have hne : (Next.storageResp r0 { term := last.term, index := last.index }).index ≠ 0 := by
      show last.index ≠ 0
      have := (hwf0.unstable.contig.mem (List.mem_of_getLast? hl)).1
      have := hso.1
      omega
    rw [if_pos hne] at hrb
    subst hrb
    refine ⟨hIb, ?_, ⟨rfl, rfl, rfl, rfl, rfl⟩⟩
    apply settled_after_stableTo hI.wf hmatch hsnA
    show ra.log.unstable.offsetInProgress = last.index + 1
    rw [hoip, hP.oip]
    unfold Unstable.next
    omega

/-- **the acknowledgement of the applied entries** (if the `Ready` had committed entries) -/
theorem applyResp_phase {val : Val} {voters : List Id} {n : Nat} {r0 rb rc : Raft} {nd : Spec.Node}
    {msgs : List Spec.Msg} (hI : RaftInv val voters n rb nd msgs) (hset : LogSettled rb.log) (cents : List Entry)
    (hrun : Next.runSteps (if cents.length > 0 then [RawNode.newStorageApplyRespMsg r0 cents] else []) rb = .ok rc) :
    RaftInv val voters n rc nd msgs ∧ LogSettled rc.log ∧ Same rb rc := by
  by_cases hc : cents.length > 0
  · rw [if_pos hc] at hrun
    obtain ⟨e, hstep⟩ := runSteps_single hrun
    obtain ⟨hIc, hun, _, hmaa⟩ := step_storageApplyResp_inv (m := RawNode.newStorageApplyRespMsg r0 cents) hI rfl rfl hstep
    exact ⟨hIc, by unfold LogSettled; rw [hun]; exact hset, hmaa⟩
  · rw [if_neg hc] at hrun
    simp only [Next.runSteps, Except.ok.injEq] at hrun
    subst hrun
    exact ⟨hI, hset, Same.refl _⟩

end RaftVerif.Sim
