import RaftVerif.Proofs.SimDeliver
import RaftVerif.Proofs.SimTermAux
import RaftVerif.Proofs.SimVoteAux
import RaftVerif.Proofs.SimAppAux
import RaftVerif.Proofs.SimAppRespAux
import RaftVerif.Proofs.SimHbAux
import RaftVerif.Proofs.SimVoteRespAux
import RaftVerif.Proofs.SimRound
/-!
# Proofs/SimBoth — the simulation invariant and the auxiliary model invariant together
-/
namespace RaftVerif.Sim
open Refine

/-- result of a step of node `n`: Spec actions re-establishing `RaftInv`, and the auxiliary invariant -/
def BothSim (val : Val) (voters : List Id) (n : Nat) (s : Spec.State) (r r' : Raft) : Prop :=
  RaftSim val voters n s r' ∧ AuxInv n r' ∧ AuxFrame r r'

/-- a handler for messages `m` at the node's own term (both invariants). A message from the node itself must be
addressed to itself and satisfy `SelfOK`. -/
def SameTermOK2 (val : Val) (voters : List Id) (n : Nat) (m : Message) (e : Option StepErr) (r' : Raft)
    (fuel : Nat) : Prop :=
  ∀ (s : Spec.State) (r : Raft), RaftInv val voters n r (s.nodes n) s.msgs → AuxInv n r →
    Spec.Reachable (cfgOf voters) s → m.term = r.term → InOK val n (s.nodes n) s.msgs m →
    ((m.typ = .voteResp ∨ m.typ = .appResp) → m.from = n → m.to = n ∧ SelfOK n r m) →
    (Raft.step (fuel + 1) m).run r = .ok (e, r') → BothSim val voters n s r r'

/-- **term case split** for both invariants -/
theorem sim_by_term2 {val : Val} {voters : List Id} {n : Nat} {s : Spec.State} {r r' : Raft} {m : Message}
    {e : Option StepErr} {fuel : Nat} (H : SameTermOK2 val voters n m e r' fuel)
    (hinv : RaftInv val voters n r (s.nodes n) s.msgs) (haux : AuxInv n r)
    (hreach : Spec.Reachable (cfgOf voters) s)
    (hty : Deliverable m.typ) (h0 : m.term ≠ 0) (hin : InOK val n (s.nodes n) s.msgs m)
    (hself : (m.typ = .voteResp ∨ m.typ = .appResp) → m.from = n → m.to = n ∧ SelfOK n r m)
    (hfrom : m.typ = .app ∨ m.typ = .heartbeat → m.from ≠ n)
    (h : (Raft.step (fuel + 1) m).run r = .ok (e, r')) : BothSim val voters n s r r' := by
  rcases Nat.lt_trichotomy m.term r.term with hlt | heq | hgt
  · obtain ⟨a1, a2⟩ := aux_lower_term haux h0 hlt hty hfrom h
    exact ⟨RaftSim.refl (hinv.lower_term h0 hlt hty h), a1, a2⟩
  · exact H s r hinv haux hreach heq hin hself h
  · rcases raise_term_run hinv hgt hty h with rfl | ⟨r1, hbf, h1⟩
    · exact ⟨RaftSim.refl hinv, haux, AuxFrame.refl _⟩
    obtain ⟨s1, hrun, hmsgs, hdur, hinv1, ht1, _⟩ := sim_raise_term' hinv hgt hbf
    obtain ⟨haux1, hfr1⟩ := aux_becomeFollower haux (Nat.le_of_lt hgt) (fun _ => hgt) hbf
    have hact : ∀ a ∈ [Spec.Action.updateTerm n m.term], a.actor = n := by simp [Spec.Action.actor]
    obtain ⟨hsim, haux', hfr'⟩ := H s1 r1 hinv1 haux1 (hrun.reachable hreach) ht1.symm
      (by rw [hmsgs]; exact hin.congr hdur) (fun hk hf => ⟨(hself hk hf).1, (hself hk hf).2.frame hfr1⟩) h1
    exact ⟨RaftSim.trans hrun hact hsim, haux', hfr1.trans hfr'⟩

theorem sameTerm2_vote {val : Val} {voters : List Id} {n : Nat} {m : Message} {e : Option StepErr} {r' : Raft}
    {fuel : Nat} (ht : m.typ = .vote) (hto : m.to = n) : SameTermOK2 val voters n m e r' fuel := by
  intro s r hinv haux hreach hterm hin _ h
  have hin' : NetOK val s.msgs m := by
    unfold InOK at hin
    simpa only [ht] using hin
  have hfrom : m.from ≠ n := by
    unfold NetOK at hin'
    simp only [ht] at hin'
    rw [← hto]; exact hin'.2.2.1
  exact ⟨sameTerm_vote ht hto s r hinv hreach hterm hin h, aux_vote_same hinv haux ht hterm hfrom h⟩

/-- MsgApp: the sender must be another node (`hfrom`; network messages have `from ≠ to`) -/
theorem sameTerm2_app {val : Val} {voters : List Id} {n : Nat} {m : Message} {e : Option StepErr} {r' : Raft}
    {fuel : Nat} (ht : m.typ = .app) (hfrom : m.from ≠ n) : SameTermOK2 val voters n m e r' fuel := by
  intro s r hinv haux hreach hterm hin _ h
  exact ⟨sameTerm_app ht s r hinv hreach hterm hin h, aux_app_same hinv haux ht hterm hfrom h⟩

theorem sameTerm2_appResp {val : Val} {voters : List Id} {n : Nat} {m : Message} {e : Option StepErr} {r' : Raft}
    {fuel : Nat} (ht : m.typ = .appResp) : SameTermOK2 val voters n m e r' fuel := by
  intro s r hinv haux hreach hterm hin hself h
  exact ⟨sim_appResp_same hinv hreach ht hterm hin h, aux_appResp_same hinv haux ht hterm (hself (Or.inr ht)) h⟩

theorem sameTerm2_hb {val : Val} {voters : List Id} {n : Nat} {m : Message} {e : Option StepErr} {r' : Raft}
    {fuel : Nat} (ht : m.typ = .heartbeat) (hto : m.to = n) (hfrom : m.from ≠ n) :
    SameTermOK2 val voters n m e r' fuel := by
  intro s r hinv haux hreach hterm hin _ h
  have hin' : NetOK val s.msgs m := by
    unfold InOK at hin
    simpa only [ht] using hin
  exact ⟨sim_hb_same hinv hreach ht hterm hto hin' h, aux_hb_same hinv haux ht hterm hfrom h⟩

theorem sameTerm2_hbResp {val : Val} {voters : List Id} {n : Nat} {m : Message} {e : Option StepErr} {r' : Raft}
    {fuel : Nat} (ht : m.typ = .heartbeatResp) : SameTermOK2 val voters n m e r' fuel := by
  intro s r hinv haux hreach hterm hin _ h
  have hin' : NetOK val s.msgs m := by
    unfold InOK at hin
    simpa only [ht] using hin
  have hctx : m.context = none := by
    unfold NetOK at hin'
    simp only [ht] at hin'
    exact hin'.2
  exact ⟨sim_hbResp_same hinv hreach ht hterm hin' h, aux_hbResp_same hinv haux ht hterm hctx h⟩

/-- MsgVoteResp: the node's own response must be a grant -/
theorem sameTerm2_voteResp {val : Val} {voters : List Id} {n : Nat} {m : Message} {e : Option StepErr} {r' : Raft}
    {fuel : Nat} (ht : m.typ = .voteResp) : SameTermOK2 val voters n m e r' fuel := by
  intro s r hinv haux hreach hterm hin hself h
  have hs : m.from = n → m.reject = false := fun hf => ((hself (Or.inl ht) hf).2 (hself (Or.inl ht) hf).1).2.1
  exact ⟨sim_voteResp_same hinv hreach ht hterm hin hs h, aux_voteResp_same hinv haux ht hterm h⟩

/-- what `syncRound` needs (both invariants): a node's own durable promise can be stepped into it -/
def SelfStepOK2 (val : Val) (voters : List Id) (n : Nat) : Prop :=
  ∀ (s : Spec.State) (r r' : Raft) (m : Message) (e : Option StepErr),
    RaftInv val voters n r (s.nodes n) s.msgs → AuxInv n r → Spec.Reachable (cfgOf voters) s →
    (m.typ = .voteResp ∨ m.typ = .appResp) → m.from = n → m.to = n →
    InOK val n (s.nodes n) s.msgs m → SelfOK n r m →
    (Raft.step Raft.stepFuel m).run r = .ok (e, r') → BothSim val voters n s r r'

theorem inOK_term_ne {val : Val} {n : Nat} {nd : Spec.Node} {msgs : List Spec.Msg} {m : Message}
    (hk : m.typ = .voteResp ∨ m.typ = .appResp) (h : InOK val n nd msgs m) : m.term ≠ 0 := by
  unfold InOK at h
  rcases hk with hk | hk <;> (simp only [hk] at h; exact h.1)

theorem selfStepOK2 (val : Val) (voters : List Id) (n : Nat) : SelfStepOK2 val voters n := by
  intro s r r' m e hinv haux hreach hk _ hto hin hself h
  have hty : Deliverable m.typ := by
    unfold Deliverable
    rcases hk with hk | hk <;> simp [hk]
  have H : SameTermOK2 val voters n m e r' 2 := by
    rcases hk with hk | hk
    · exact sameTerm2_voteResp hk
    · exact sameTerm2_appResp hk
  exact sim_by_term2 H hinv haux hreach hty (inOK_term_ne hk hin) hin (fun _ _ => ⟨hto, hself⟩)
    (fun hx => by rcases hk with hk | hk <;> rcases hx with hx | hx <;> rw [hk] at hx <;> cases hx) h

end RaftVerif.Sim
