import RaftVerif.Props.C08
import RaftVerif.Proofs.LiveReady
import RaftVerif.Proofs.C14Restore
/-!
# Proofs/RawApply — the apply stream at the level of `RawNode` (helpers for `Props/C08Raw.lean`)

* `apply_rwa_async`: shape of `rd.messages` in async mode: the messages already queued, at most one
  `MsgStorageAppend`, and — iff `committedEntries ≠ []` — exactly one `MsgStorageApply` at the very end;
* `apply_ready_*`: `RawNode.ready` lifted through `acceptReady`;
* `apply_new_log`: the log of a freshly (re)started node.

Core Lean only.
-/
set_option linter.unusedSimpArgs false
namespace RaftVerif.Raw
open RaftVerif RawNode

/-- the `MsgStorageApply` that `readyWithoutAccept` builds for the committed entries `cents` -/
def ApplyMsgOf (r : Raft) (cents : List Entry) : Message :=
  { typ := .storageApply, to := localApplyThread, «from» := r.cfg.id, term := 0,
    entries := cents, responses := [newStorageApplyRespMsg r cents] }

/-- what precedes the `MsgStorageApply` in `rd.messages` (async mode): the queued messages and at most one
`MsgStorageAppend` -/
def ApplyPre (rn : RawNode) (pre : List Message) : Prop :=
  pre = rn.raft.msgs ∨ ∃ m, pre = rn.raft.msgs ++ [m] ∧ m.typ = .storageAppend ∧ m.to = localAppendThread

/-- the optional trailing `MsgStorageApply` -/
def ApplyTail (r : Raft) (cents : List Entry) : List Message :=
  if cents = [] then [] else [ApplyMsgOf r cents]

theorem apply_rwa_async (rn : RawNode) (rd : Ready) (ha : rn.async = true) (h : rn.readyWithoutAccept = .ok rd) :
    ∃ pre, ApplyPre rn pre ∧ rd.messages = pre ++ ApplyTail rn.raft rd.committedEntries := by
  unfold RawNode.readyWithoutAccept at h
  obtain ⟨cents, hc, h⟩ := bind_eq_ok.1 h
  extract_lets rd0 jEnd jApply jAsync jRS jSnap jHard at h
  obtain ⟨x1, hx1, h⟩ := Live.ite_same_fn (f := jHard ())
    (fun x => x.messages = rn.raft.msgs ∧ x.committedEntries = cents) h ⟨rfl, rfl⟩ ⟨rfl, rfl⟩
  simp only [jHard] at h
  obtain ⟨x2, hx2, h⟩ := Live.ite_same_fn (f := jSnap ())
    (fun x => x.messages = rn.raft.msgs ∧ x.committedEntries = cents) h hx1 hx1
  simp only [jSnap] at h
  obtain ⟨x3, hx3, h⟩ := Live.ite_same_fn (f := jRS ())
    (fun x => x.messages = rn.raft.msgs ∧ x.committedEntries = cents) h hx2 hx2
  simp only [jRS] at h
  obtain ⟨x4, ⟨hx4, hx4c⟩, h⟩ := Live.ite_same_fn (f := jAsync ())
    (fun x => x.messages = rn.raft.msgs ∧ x.committedEntries = cents) h hx3 hx3
  have hfin : ∀ y : Ready, jApply () y = .ok rd → ApplyPre rn y.messages → y.committedEntries = cents →
      ∃ pre, ApplyPre rn pre ∧ rd.messages = pre ++ ApplyTail rn.raft rd.committedEntries := by
    intro y hj hy hyc
    simp only [jApply, jEnd] at hj
    split at hj
    · rename_i hpos
      injection hj with hj
      subst hj
      have hne : y.committedEntries ≠ [] := by
        intro h0; rw [h0] at hpos; simp at hpos
      refine ⟨y.messages, hy, ?_⟩
      simp only [ApplyTail, hne, ↓reduceIte, ApplyMsgOf]
    · rename_i hpos
      injection hj with hj
      subst hj
      have hnil : y.committedEntries = [] := by
        cases hyy : y.committedEntries with
        | nil => rfl
        | cons a t => rw [hyy] at hpos; simp at hpos
      refine ⟨y.messages, hy, ?_⟩
      simp only [ApplyTail, hnil, ↓reduceIte, List.append_nil]
  simp only [jAsync, ha, ↓reduceIte] at h
  repeat' (split at h)
  all_goals (
    first
      | (obtain ⟨resp, hresp, h⟩ := bind_eq_ok.1 h
         refine hfin _ h ?_ hx4c
         exact Or.inr ⟨_, by rw [hx4], rfl, rfl⟩)
      | (refine hfin _ h ?_ hx4c
         first
           | exact Or.inl hx4
           | exact Or.inr ⟨_, by rw [hx4], rfl, rfl⟩))

/-! ## the new messages of a `Ready` and the `MsgStorageApply` among them -/

theorem apply_drop_pre (rn : RawNode) (pre : List Message) (hp : ApplyPre rn pre) :
    ∀ m ∈ pre.drop rn.raft.msgs.length, m.typ = .storageAppend := by
  intro m hm
  rcases hp with rfl | ⟨x, rfl, hx, _⟩
  · simp at hm
  · simp only [List.drop_left, List.mem_singleton] at hm
    subst hm; exact hx

theorem apply_pre_length (rn : RawNode) (pre : List Message) (hp : ApplyPre rn pre) :
    rn.raft.msgs.length ≤ pre.length := by
  rcases hp with rfl | ⟨x, rfl, _, _⟩
  · exact Nat.le_refl _
  · simp

/-- `ready = readyWithoutAccept ; acceptReady` -/
theorem apply_ready_split (rn rn' : RawNode) (rd : Ready) (h : rn.ready = .ok (rd, rn')) :
    rn.readyWithoutAccept = .ok rd ∧ rn.acceptReady rd = .ok rn' := by
  unfold RawNode.ready at h
  simp only [bind, Except.bind] at h
  cases h1 : rn.readyWithoutAccept with
  | error e => rw [h1] at h; cases h
  | ok rd1 =>
    rw [h1] at h
    simp only at h
    cases h2 : rn.acceptReady rd1 with
    | error e => rw [h2] at h; cases h
    | ok rn1 =>
      rw [h2] at h
      simp only [pure, Except.pure, Except.ok.injEq, Prod.mk.injEq] at h
      obtain ⟨e1, e2⟩ := h
      subst e1 e2
      exact ⟨rfl, h2⟩

theorem apply_ready_join (rn rn' : RawNode) (rd : Ready) (h1 : rn.readyWithoutAccept = .ok rd)
    (h2 : rn.acceptReady rd = .ok rn') : rn.ready = .ok (rd, rn') := by
  unfold RawNode.ready
  simp only [bind, Except.bind, h1, h2, pure, Except.pure]

local macro "apply_allok" : tactic =>
  `(tactic| repeat' (first | apply AllOk.ite | (apply AllOk.pure; rfl) | (apply AllOk.ok; rfl) | exact AllOk.err | exact AllOk.throw | split))

/-- `acceptReady` keeps the storage mode -/
theorem apply_acceptReady_async (rn rn' : RawNode) (rd : Ready) (h : rn.acceptReady rd = .ok rn') :
    rn'.async = rn.async := by
  unfold RawNode.acceptReady at h
  simp only [bind, Except.bind, RawNode.applyUnstableEntries] at h
  suffices hq : AllOk (fun r : RawNode => r.async = rn.async) _ from hq rn' h
  apply_allok

/-! ## the batch, entry by entry -/

/-- every entry of a non-empty batch is the log's entry at its index, and the indexes are exactly
`applying + 1 … applying + length` -/
theorem apply_batch_entries {l : RaftLog} (h : l.WF) (au : Bool) {es : List Entry}
    (hok : l.nextCommittedEnts au = .ok es) :
    (∀ k (hk : k < es.length), es[k].index = l.applying + 1 + k ∧ l.abs.entry? (l.applying + 1 + k) = some es[k]) ∧
    (∀ e ∈ es, l.applying < e.index ∧ e.index ≤ l.applying + es.length ∧ e.index ≤ l.maxAppliableIndex au ∧
      e.index ≤ l.committed ∧ l.abs.entry? e.index = some e) := by
  by_cases hne : es = []
  · subst hne
    exact ⟨fun k hk => by simp at hk, fun e he => by simp at he⟩
  obtain ⟨h1, h2, h3, h4, h5, h6⟩ := C08.nextCommittedEnts_batch h au hok hne
  have hk : ∀ k (hk : k < es.length), es[k].index = l.applying + 1 + k ∧
      l.abs.entry? (l.applying + 1 + k) = some es[k] := by
    intro k hk
    refine ⟨h4 k hk, ?_⟩
    have := ALog.slice_getElem? l.abs (lo := l.applying + 1) (hi := l.applying + es.length + 1) h5 k (by omega)
    rw [← this, ← h3, List.getElem?_eq_getElem hk]
  refine ⟨hk, ?_⟩
  intro e he
  obtain ⟨k, hkl, rfl⟩ := List.getElem_of_mem he
  obtain ⟨a, b⟩ := hk k hkl
  rw [a]
  exact ⟨by omega, by omega, by omega, by omega, b⟩

/-- first and last index of a non-empty batch -/
theorem apply_batch_ends {l : RaftLog} (h : l.WF) (au : Bool) {es : List Entry}
    (hok : l.nextCommittedEnts au = .ok es) (hne : es ≠ []) :
    (∃ e rest, es = e :: rest ∧ e.index = l.applying + 1) ∧
    (∃ last, es.getLast? = some last ∧ last.index = l.applying + es.length) := by
  obtain ⟨hk, _⟩ := apply_batch_entries h au hok
  constructor
  · cases es with
    | nil => exact absurd rfl hne
    | cons e rest => exact ⟨e, rest, rfl, (hk 0 (by simp)).1⟩
  · have hpos : 0 < es.length := List.length_pos_iff.mpr hne
    refine ⟨es[es.length - 1], ?_, ?_⟩
    · rw [List.getLast?_eq_getElem?, List.getElem?_eq_getElem (by omega)]
    · rw [(hk (es.length - 1) (by omega)).1]; omega

/-- a non-empty batch means: not paused, no snapshot pending -/
theorem apply_batch_nonempty {l : RaftLog} (h : l.WF) (au : Bool) {es : List Entry}
    (hok : l.nextCommittedEnts au = .ok es) (hne : es ≠ []) :
    l.applyingEntsPaused = false ∧ l.unstable.snapshot = none ∧ l.applying < l.maxAppliableIndex au := by
  have hiff := (C08.nextCommittedEnts_empty_iff h au).1
  have hno : ¬ (l.applyingEntsPaused = true ∨ l.unstable.snapshot.isSome = true ∨
      l.maxAppliableIndex au ≤ l.applying) := by
    intro hc
    have := hiff.mpr hc
    rw [hok] at this
    injection this with this
    exact hne this
  refine ⟨?_, ?_, ?_⟩
  · cases hp : l.applyingEntsPaused with
    | false => rfl
    | true => exact absurd (Or.inl hp) hno
  · cases hs : l.unstable.snapshot with
    | none => rfl
    | some s => exact absurd (Or.inr (Or.inl (by simp [hs]))) hno
  · have : ¬ l.maxAppliableIndex au ≤ l.applying := fun hc => hno (Or.inr (Or.inr hc))
    omega

/-- **where a handed-out entry lives**: in stable storage (below `unstable.offset`), or among the
unstable entries already handed to storage by an earlier `Ready` (in progress: `offset ≤ index <
offsetInProgress`), or among the unstable entries handed out by this very `Ready` (`nextUnstableEnts`) -/
theorem apply_batch_where {l : RaftLog} (h : l.WF) (au : Bool) {es : List Entry}
    (hok : l.nextCommittedEnts au = .ok es) (e : Entry) (he : e ∈ es) :
    (e.index < l.unstable.offset ∧ l.storage.abs.entry? e.index = some e) ∨
    (l.unstable.offset ≤ e.index ∧ e.index < l.unstable.offsetInProgress ∧ e ∈ l.unstable.entries ∧
      e ∉ l.nextUnstableEnts) ∨
    (l.unstable.offsetInProgress ≤ e.index ∧ e ∈ l.nextUnstableEnts) := by
  have hne : es ≠ [] := by intro h0; rw [h0] at he; simp at he
  obtain ⟨_, hsn, _⟩ := apply_batch_nonempty h au hok hne
  obtain ⟨_, hm⟩ := apply_batch_entries h au hok
  obtain ⟨_, _, _, _, hent⟩ := hm e he
  by_cases hlt : e.index < l.unstable.offset
  · left
    rw [RaftLog.abs_entry?_of_lt h hsn hlt] at hent
    exact ⟨hlt, hent⟩
  · right
    have hge : l.unstable.offset ≤ e.index := by omega
    rw [RaftLog.abs_entry?_of_ge h hge] at hent
    have hmem := ((Unstable.entry?_eq_some_iff h.unstable e.index e).mp hent).1
    have hnx : l.nextUnstableEnts = l.unstable.entries.filter (fun x => decide (l.unstable.offsetInProgress ≤ x.index)) :=
      Unstable.nextEntries_eq h.unstable
    by_cases hip : e.index < l.unstable.offsetInProgress
    · left
      refine ⟨hge, hip, hmem, ?_⟩
      rw [hnx, List.mem_filter]
      intro hc
      have := hc.2
      simp only [decide_eq_true_eq] at this
      omega
    · right
      refine ⟨by omega, ?_⟩
      rw [hnx, List.mem_filter]
      exact ⟨hmem, by simp only [decide_eq_true_eq]; omega⟩

/-! ## restart: the log of a freshly created node -/

open C14 in
theorem apply_validate_ok (c c' : Config) (h : c.validate = .ok c') : c' = cfgFill c := by
  rw [validate_eq] at h
  repeat' (split at h)
  all_goals first | (cases h; done) | (injection h with h; exact h.symm)

open C14 in
theorem apply_cfgFill_facts (c : Config) :
    (cfgFill c).applied = c.applied ∧ (cfgFill c).asyncStorageWrites = c.asyncStorageWrites ∧
    0 < (cfgFill c).maxCommittedSizePerReady ∧
    (c.maxCommittedSizePerReady ≠ 0 → (cfgFill c).maxCommittedSizePerReady = c.maxCommittedSizePerReady) := by
  unfold cfgFill cfgFill0
  simp only [beq_iff_eq]
  repeat' split
  all_goals simp_all <;> omega

open C14 in
/-- `newRaft` does to the log exactly: `newLog`, load the `HardState` (`nrLoad`), fast-forward to
`Config.Applied` (`nrApplied`) -/
theorem apply_newRaft_phases (c : Config) (storage : MemoryStorage) (draws : List Nat) (r : Raft)
    (h : newRaft c storage draws = .ok r) :
    ∃ r1 r2 r3 : Raft, r1.log = RaftLog.new storage (cfgFill c).maxCommittedSizePerReady ∧
      nrLoad storage.hardState r1 = .ok r2 ∧ nrApplied (cfgFill c) r2 = .ok r3 ∧ r.log = r3.log := by
  rw [newRaft_eq] at h
  cases hv : c.validate with
  | error e => rw [hv] at h; cases h
  | ok c' =>
    have hc' := apply_validate_ok c c' hv
    subst hc'
    rw [hv] at h
    simp only [P_ok_bind] at h
    rw [newRaftAct_run _ _ _ _ (newRaftInit_state (cfgFill c) storage draws)] at h
    have hhs : storage.initialState.1 = storage.hardState := rfl
    rw [hhs] at h
    cases hl : (newRaftInit (cfgFill c) storage draws).log.lastEntryID with
    | error e => rw [hl] at h; cases h
    | ok id =>
      rw [hl] at h
      simp only at h
      cases hr : restoreConf { tracker := (newRaftInit (cfgFill c) storage draws).trk, lastIndex := id.index }
          storage.initialState.2 with
      | error e => rw [hr] at h; cases h
      | ok p =>
        obtain ⟨cfg, trk⟩ := p
        rw [hr] at h
        simp only at h
        split at h
        · cases h
        · rw [nrTail_run] at h
          cases h1 : nrLoad storage.hardState (swCfg (newRaftInit (cfgFill c) storage draws) cfg trk) with
          | error e => rw [h1] at h; cases h
          | ok r2 =>
            rw [h1] at h
            simp only at h
            cases h2 : nrApplied (cfgFill c) r2 with
            | error e => rw [h2] at h; cases h
            | ok r3 =>
              rw [h2] at h
              simp only [becomeFollower_run] at h
              refine ⟨_, r2, r3, rfl, h1, h2, ?_⟩
              cases hd : r3.draws with
              | nil => rw [hd] at h; cases h
              | cons d rest =>
                rw [hd] at h
                simp only [P_ok_bind, pure, Except.pure, Except.ok.injEq] at h
                rw [← h]
                exact resetTo_log r3.term r3 d rest

/-- the commit index a restarted node starts from: `HardState.Commit` if a non-empty `HardState` was
persisted, else the compaction point of the storage -/
def ApplyRestartCommit (storage : MemoryStorage) : Nat :=
  match storage.hardState with
  | some h => if h.isEmpty = true then storage.offset else h.commit
  | none => storage.offset

theorem apply_setCommitted_wf {l : RaftLog} (h : l.WF) {c : Nat} (h1 : l.committed ≤ c) (h2 : c ≤ l.lastIndex) :
    ({ l with committed := c } : RaftLog).WF := by
  have he := RaftLog.commitTo_eq l c
  rw [if_neg (by omega)] at he
  have hm : max l.committed c = c := by omega
  rw [hm] at he
  exact (RaftLog.commitTo_wf h he).1

/-- the fresh log: cursors at the compaction point, nothing unstable, nothing in flight -/
theorem apply_newLog_fields (storage : MemoryStorage) (n : Nat) :
    (RaftLog.new storage n).committed = storage.offset ∧ (RaftLog.new storage n).applying = storage.offset ∧
    (RaftLog.new storage n).applied = storage.offset ∧ (RaftLog.new storage n).storage = storage ∧
    (RaftLog.new storage n).unstable = { offset := storage.lastIndex + 1, offsetInProgress := storage.lastIndex + 1 } ∧
    (RaftLog.new storage n).applyingEntsPaused = false ∧ (RaftLog.new storage n).applyingEntsSize = 0 ∧
    (RaftLog.new storage n).maxApplyingEntsSize = n := by
  simp [RaftLog.new, MemoryStorage.firstIndex]

open C14 in
/-- **the log of a restarted node** (`newRaft` succeeded on a well-formed storage): the invariant holds,
nothing is unstable or in flight, `committed` is `ApplyRestartCommit`, and the apply cursors sit
* at the compaction point of the storage if `Config.Applied = 0`,
* at `Config.Applied` otherwise — which then necessarily lies in `[storage.offset, committed]`
  (`appliedTo` panics otherwise). -/
theorem apply_newRaft_log (c : Config) (storage : MemoryStorage) (draws : List Nat) (r : Raft)
    (hs : storage.WF) (h : newRaft c storage draws = .ok r) :
    r.log.WF ∧ r.log.storage = storage ∧
    r.log.unstable = { offset := storage.lastIndex + 1, offsetInProgress := storage.lastIndex + 1 } ∧
    r.log.applyingEntsPaused = false ∧ r.log.applyingEntsSize = 0 ∧
    r.log.maxApplyingEntsSize = (cfgFill c).maxCommittedSizePerReady ∧
    r.log.committed = ApplyRestartCommit storage ∧
    storage.offset ≤ r.log.committed ∧
    (c.applied = 0 → r.log.applied = storage.offset ∧ r.log.applying = storage.offset) ∧
    (c.applied ≠ 0 → storage.offset ≤ c.applied ∧ c.applied ≤ r.log.committed ∧
      r.log.applied = c.applied ∧ r.log.applying = c.applied) := by
  obtain ⟨r1, r2, r3, hl1, hload, happ, hlog⟩ := apply_newRaft_phases c storage draws r h
  obtain ⟨fa, _, fpos, _⟩ := apply_cfgFill_facts c
  obtain ⟨n1, n2, n3, n4, n5, n6, n7, n8⟩ := apply_newLog_fields storage (cfgFill c).maxCommittedSizePerReady
  have hw1 : r1.log.WF := by rw [hl1]; exact (C08.newLog_wf hs _).mpr fpos
  rw [← hl1] at n1 n2 n3 n4 n5 n6 n7 n8
  -- phase: HardState
  have h2 : r2.log.WF ∧ r2.log.storage = storage ∧ r2.log.unstable = r1.log.unstable ∧
      r2.log.applyingEntsPaused = false ∧ r2.log.applyingEntsSize = 0 ∧
      r2.log.maxApplyingEntsSize = (cfgFill c).maxCommittedSizePerReady ∧
      r2.log.committed = ApplyRestartCommit storage ∧ storage.offset ≤ r2.log.committed ∧
      r2.log.applied = storage.offset ∧ r2.log.applying = storage.offset := by
    unfold nrLoad at hload
    unfold ApplyRestartCommit
    cases hh : storage.hardState with
    | none =>
      rw [hh] at hload
      injection hload with hload
      subst hload
      exact ⟨hw1, n4, rfl, n6, n7, n8, n1, by omega, n3, n2⟩
    | some hd =>
      rw [hh] at hload
      simp only at hload ⊢
      split at hload
      · rename_i he
        injection hload with hload
        subst hload
        rw [if_pos he]
        exact ⟨hw1, n4, rfl, n6, n7, n8, n1, by omega, n3, n2⟩
      · rename_i he
        split at hload
        · cases hload
        · rename_i hc
          injection hload with hload
          subst hload
          rw [if_neg he]
          exact ⟨apply_setCommitted_wf hw1 (by omega) (by omega), n4, rfl, n6, n7, n8, rfl,
            by simp only; omega, n3, n2⟩
  obtain ⟨hw2, s2, u2, p2, z2, m2, c2, o2, ad2, ag2⟩ := h2
  -- phase: Config.Applied
  unfold nrApplied at happ
  rw [fa] at happ
  by_cases ha : c.applied = 0
  · rw [if_pos ha] at happ
    injection happ with happ
    subst happ
    rw [hlog]
    exact ⟨hw2, s2, by rw [u2, n5], p2, z2, m2, c2, o2, fun _ => ⟨ad2, ag2⟩, fun hn => absurd ha hn⟩
  · rw [if_neg ha] at happ
    cases hat : r2.log.appliedTo c.applied 0 with
    | error e => rw [hat] at happ; cases happ
    | ok l3 =>
      rw [hat] at happ
      injection happ with happ
      subst happ
      rw [hlog]
      simp only
      have hrange : ¬ (r2.log.committed < c.applied ∨ c.applied < r2.log.applied) := by
        intro hc
        obtain ⟨m, hm⟩ := (RaftLog.appliedTo_panics_iff r2.log c.applied 0).mpr hc
        rw [hm] at hat; cases hat
      obtain ⟨w3, a3, g3, _, c3, s3, u3, z3, p3⟩ := RaftLog.appliedTo_wf hw2 hat
      refine ⟨w3, by rw [s3, s2], by rw [u3, u2, n5], ?_, by rw [z3, z2], ?_, by rw [c3, c2], by rw [c3]; exact o2,
        fun h0 => absurd h0 ha, fun _ => ⟨by omega, by omega, a3, by rw [g3]; omega⟩⟩
      · cases hp : l3.applyingEntsPaused with
        | false => rfl
        | true =>
          have := p3.mp hp
          omega
      · rw [RaftLog.appliedTo_eq] at hat
        rw [if_neg hrange] at hat
        injection hat with hat
        subst hat
        exact m2

/-- `RawNode.new` is `newRaft` plus the storage mode of the configuration -/
theorem apply_new (c : Config) (storage : MemoryStorage) (draws : List Nat) (rn : RawNode)
    (h : RawNode.new c storage draws = .ok rn) :
    newRaft c storage draws = .ok rn.raft ∧ rn.async = c.asyncStorageWrites ∧ rn.stepsOnAdvance = [] := by
  unfold RawNode.new at h
  simp only [bind, Except.bind] at h
  cases hr : newRaft c storage draws with
  | error e => rw [hr] at h; cases h
  | ok r =>
    rw [hr] at h
    simp only [pure, Except.pure, Except.ok.injEq] at h
    subst h
    exact ⟨rfl, rfl, rfl⟩

/-- the first index of the batch handed out by a `Ready` on a log whose `applying` cursor is `a` -/
theorem apply_first_index {rn rn' : RawNode} {rd : Ready} (hwf : rn.raft.log.WF) (h : rn.ready = .ok (rd, rn'))
    (hne : rd.committedEntries ≠ []) :
    ∃ e rest, rd.committedEntries = e :: rest ∧ e.index = rn.raft.log.applying + 1 := by
  have hc := (C08.rawnode_ready rn rn' rd hwf h).1
  exact (apply_batch_ends hwf _ hc hne).1

/-- among the messages a `Ready` adds (async mode), a `MsgStorageApply` can only be the trailing one -/
theorem apply_newmsgs (rn : RawNode) (pre : List Message) (cents : List Entry) (hp : ApplyPre rn pre) :
    (∀ m ∈ (pre ++ ApplyTail rn.raft cents).drop rn.raft.msgs.length, m.typ = .storageApply →
      cents ≠ [] ∧ m = ApplyMsgOf rn.raft cents) ∧
    (cents ≠ [] → ApplyMsgOf rn.raft cents ∈ (pre ++ ApplyTail rn.raft cents).drop rn.raft.msgs.length ∧
      (pre ++ ApplyTail rn.raft cents).getLast? = some (ApplyMsgOf rn.raft cents)) := by
  have hlen := apply_pre_length rn pre hp
  have hd := apply_drop_pre rn pre hp
  rw [List.drop_append_of_le_length hlen]
  constructor
  · intro m hm ht
    rcases List.mem_append.mp hm with hm | hm
    · have := hd m hm
      rw [this] at ht; cases ht
    · unfold ApplyTail at hm
      split at hm
      · simp at hm
      · rename_i hne
        simp only [List.mem_singleton] at hm
        exact ⟨hne, hm⟩
  · intro hne
    unfold ApplyTail
    rw [if_neg hne]
    exact ⟨List.mem_append_right _ (List.mem_singleton.mpr rfl), by simp⟩

/-- where the apply cursors of a restarted node sit: `Config.Applied`, or the compaction point of the
storage (`firstIndex - 1`) if `Config.Applied = 0` -/
def ApplyRestartCursor (c : Config) (storage : MemoryStorage) : Nat :=
  if c.applied = 0 then storage.offset else c.applied

/-- on a freshly restarted node every committed entry is appliable in both storage modes (nothing is
unstable) and nothing blocks the stream -/
theorem apply_new_first_ready (c : Config) (storage : MemoryStorage) (draws : List Nat) (rn : RawNode)
    (hs : storage.WF) (h : RawNode.new c storage draws = .ok rn) :
    ∃ rd rn', rn.ready = .ok (rd, rn') ∧
      (rd.committedEntries ≠ [] ↔ ApplyRestartCursor c storage < rn.raft.log.committed) := by
  obtain ⟨hn, ha, hso⟩ := apply_new c storage draws rn h
  obtain ⟨w, s, u, p, _, _, _, _, a0, a1⟩ := apply_newRaft_log c storage draws rn.raft hs hn
  have hso' : rn.async = true ∨ rn.stepsOnAdvance = [] := Or.inr hso
  obtain ⟨rd, rn', hr⟩ := C14.ready_no_panic rn w hso'
  refine ⟨rd, rn', hr, ?_⟩
  have hc := (C08.rawnode_ready rn rn' rd w hr).1
  have hiff := (C08.nextCommittedEnts_empty_iff w (!rn.async)).1
  rw [hc] at hiff
  have hcur : rn.raft.log.applying = ApplyRestartCursor c storage := by
    unfold ApplyRestartCursor
    split
    · rename_i h0; exact (a0 h0).2
    · rename_i h0; exact (a1 h0).2.2.2
  have hmax : rn.raft.log.maxAppliableIndex (!rn.async) = rn.raft.log.committed := by
    cases hasync : rn.async with
    | false => rfl
    | true =>
      simp only [Bool.not_true]
      rw [RaftLog.maxAppliableIndex_false w, u]
      have hcl := w.committedLeLast
      have : rn.raft.log.lastIndex = storage.lastIndex := by
        simp [RaftLog.lastIndex, Unstable.maybeLastIndex, u, s]
      simp only
      omega
  have hsn : rn.raft.log.unstable.snapshot.isSome = false := by rw [u]; rfl
  rw [← hcur]
  constructor
  · intro hne
    have hno : ¬ (rn.raft.log.applyingEntsPaused = true ∨ rn.raft.log.unstable.snapshot.isSome = true ∨
        rn.raft.log.maxAppliableIndex (!rn.async) ≤ rn.raft.log.applying) := by
      intro hx
      have := hiff.mpr hx
      injection this with this
      exact hne this
    rw [hmax] at hno
    have : ¬ rn.raft.log.committed ≤ rn.raft.log.applying := fun hx => hno (Or.inr (Or.inr hx))
    omega
  · intro hlt h0
    rw [h0] at hiff
    rcases hiff.mp rfl with hx | hx | hx
    · rw [p] at hx; cases hx
    · rw [hsn] at hx; cases hx
    · rw [hmax] at hx; omega

/-! ## right after a `Ready` the stream is blocked -/

/-- the three reasons for `nextCommittedEnts` to return nothing -/
def ApplyBlocked (l : RaftLog) (au : Bool) : Prop :=
  l.applyingEntsPaused = true ∨ l.unstable.snapshot.isSome = true ∨ l.maxAppliableIndex au ≤ l.applying

theorem apply_acceptUnstable_frame {l : RaftLog} (h : l.WF) :
    l.acceptUnstable.applyingEntsPaused = l.applyingEntsPaused ∧
    l.acceptUnstable.unstable.snapshot = l.unstable.snapshot ∧
    l.acceptUnstable.unstable.offset = l.unstable.offset ∧
    l.acceptUnstable.committed = l.committed ∧ l.acceptUnstable.applying = l.applying := by
  unfold RaftLog.acceptUnstable
  simp [Unstable.acceptInProgress_eq h.unstable]

theorem apply_maxAppliable_congr {l l' : RaftLog} (hc : l'.committed = l.committed)
    (ho : l'.unstable.offset = l.unstable.offset) (au : Bool) :
    l'.maxAppliableIndex au = l.maxAppliableIndex au := by
  unfold RaftLog.maxAppliableIndex; rw [hc, ho]

/-- after `acceptReady` nothing more can be handed out until something else happens (an apply
acknowledgement un-pauses, the commit index or the stable prefix grows, the snapshot is installed) -/
theorem apply_ready_then_blocked (rn rn' : RawNode) (rd : Ready) (hwf : rn.raft.log.WF)
    (h : rn.ready = .ok (rd, rn')) : ApplyBlocked rn'.raft.log (!rn.async) := by
  obtain ⟨h1, h2⟩ := apply_ready_split rn rn' rd h
  have hc := RawNode.readyWithoutAccept_committed rn rd h1
  have hl := RawNode.acceptReady_log rn rn' rd h2
  obtain ⟨f1, f2, f3, f4, f5⟩ := apply_acceptUnstable_frame hwf
  have hmax := apply_maxAppliable_congr f4 f3 (!rn.async)
  cases hg : rd.committedEntries.getLast? with
  | none =>
    rw [hg] at hl
    simp only at hl
    injection hl with hl
    have hnil : rd.committedEntries = [] := List.getLast?_eq_none_iff.mp hg
    rw [hnil] at hc
    have hb := ((C08.nextCommittedEnts_empty_iff hwf (!rn.async)).1).mp hc
    unfold ApplyBlocked
    rw [← hl, f1, f2, hmax, f5]
    exact hb
  | some last =>
    rw [hg] at hl
    simp only at hl
    rw [RaftLog.acceptApplying_eq] at hl
    split at hl
    · cases hl
    · injection hl with hl
      unfold ApplyBlocked
      rw [← hl]
      by_cases hlt : last.index < rn.raft.log.acceptUnstable.maxAppliableIndex (!rn.async)
      · left
        simp [hlt]
      · right; right
        have : ({ rn.raft.log.acceptUnstable with
            applying := last.index,
            applyingEntsSize := rn.raft.log.acceptUnstable.applyingEntsSize + entsSize rd.committedEntries,
            applyingEntsPaused :=
              decide (rn.raft.log.acceptUnstable.applyingEntsSize + entsSize rd.committedEntries ≥
                rn.raft.log.acceptUnstable.maxApplyingEntsSize) ||
              decide (last.index < rn.raft.log.acceptUnstable.maxAppliableIndex (!rn.async)) } : RaftLog).maxAppliableIndex
              (!rn.async) = rn.raft.log.acceptUnstable.maxAppliableIndex (!rn.async) :=
          apply_maxAppliable_congr rfl rfl _
        rw [this]
        simp only
        omega

end RaftVerif.Raw
