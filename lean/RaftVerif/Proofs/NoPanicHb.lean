import RaftVerif.Proofs.NoPanicRaw
/-!
# Proofs/NoPanicHb — MsgHeartbeat / MsgHeartbeatResp of the node's own term never throw (C14 end to end)

* `noErr_step_hb_same`: a MsgHeartbeat whose `commit` is within the receiver's log and which does not claim to come
  from the receiver itself.  Throw sites on the path: `commitTo: tocommit out of range` (excluded by
  `m.commit ≤ lastIndex`), `send: message should not be self-addressed` (excluded by `m.from ≠ n`), and the
  election-timeout draw of the `becomeFollower` of a (pre-)candidate.
* `hb_commit_le`: the bridge from the Spec log length to the model's `lastIndex`.
* `noErr_step_hbResp_same`: a MsgHeartbeatResp without read-index context; a non-leader ignores it, a leader
  un-pauses the sender and possibly calls `sendAppend`.
-/
set_option linter.unusedSimpArgs false
namespace RaftVerif.NoPanicP
open Raft C14 Sim Refine

/-- `handleHeartbeat` does not throw when the commit index is within the log and the sender is someone else -/
theorem handleHeartbeat_noErr (m : Message) (r : Raft) (hc : m.commit ≤ r.log.lastIndex)
    (hfrom : m.from ≠ r.cfg.id) : NoErr (handleHeartbeat m) r := by
  intro e he
  rcases (panic_handleHeartbeat_iff m r e).mp he with ⟨_, _, h⟩ | ⟨_, _, h⟩
  · omega
  · exact hfrom h

/-- `becomeFollower` needs exactly one election-timeout draw -/
theorem becomeFollower_noErr (t l : Nat) (r : Raft) (hd : r.draws ≠ []) : NoErr (becomeFollower t l) r := by
  unfold Raft.becomeFollower
  simp only [np, wp, and_true, Spec.trivial]
  intro e he
  exact hd ((panic_reset_iff t r e).mp he).2

/-- heartbeat at a follower -/
theorem noErr_stepFollower_hb (fuel : Nat) (m : Message) (r : Raft) (ht : m.typ = .heartbeat)
    (hc : m.commit ≤ r.log.lastIndex) (hfrom : m.from ≠ r.cfg.id) : NoErr (stepFollower fuel m) r := by
  rw [Raft.stepFollower]
  simp only [np, wp, ht, and_true, true_and, Spec.trivial]
  exact handleHeartbeat_noErr m _ hc hfrom

/-- heartbeat at a candidate / pre-candidate: `becomeFollower` (one draw), then as a follower -/
theorem noErr_stepCandidate_hb (fuel : Nat) (m : Message) (r : Raft) (ht : m.typ = .heartbeat)
    (hc : m.commit ≤ r.log.lastIndex) (hfrom : m.from ≠ r.cfg.id) (hd : r.draws ≠ []) :
    NoErr (stepCandidate fuel m) r := by
  rw [Raft.stepCandidate]
  simp only [np, wp, ht, and_true, true_and, Spec.trivial]
  refine ⟨becomeFollower_noErr _ _ r hd, ?_⟩
  rw [Spec.iff_runs]
  intro _ r1 h1
  obtain ⟨d, rest, _, rfl⟩ := becomeFollower_run_exact h1
  exact handleHeartbeat_noErr m _ hc hfrom

/-- **MsgHeartbeat of the node's own term never throws**, model-level form -/
theorem noErr_step_hb_same' {r : Raft} (fuel : Nat) (m : Message) (ht : m.typ = .heartbeat)
    (hterm : m.term = r.term) (hfrom : m.from ≠ r.cfg.id) (hc : m.commit ≤ r.log.lastIndex)
    (hd : r.state = .candidate ∨ r.state = .preCandidate → r.draws ≠ []) : NoErr (Raft.step (fuel + 1) m) r := by
  have hdis : (step (fuel + 1) m).run r = (dispatch fuel m r).run r :=
    step_same_term_dispatch fuel m r (Or.inr hterm) (by rw [ht]; decide)
  have hN : NoErr (dispatch fuel m r) r := by
    unfold dispatch
    cases hs : r.state with
    | leader => exact NoErr.of_ok (hb_stepLeader_run fuel m r ht)
    | follower => exact noErr_stepFollower_hb fuel m r ht hc hfrom
    | candidate => exact noErr_stepCandidate_hb fuel m r ht hc hfrom (hd (Or.inl hs))
    | preCandidate => exact noErr_stepCandidate_hb fuel m r ht hc hfrom (hd (Or.inr hs))
  intro e he
  rw [hdis] at he
  exact hN e he

/-- **MsgHeartbeat of the node's own term never throws** (simulation-invariant form).  `RaftInv` does not exclude
the role `preCandidate` (it abstracts to a Spec follower), so the draw is asked for both campaigning roles. -/
theorem noErr_step_hb_same {val : Val} {voters : List Id} {n : Nat} {r : Raft} {nd : Spec.Node} {msgs}
    (hinv : RaftInv val voters n r nd msgs) (fuel : Nat) (m : Message) (ht : m.typ = .heartbeat)
    (hterm : m.term = r.term) (_h0 : m.term ≠ 0) (hfrom : m.from ≠ n) (hc : m.commit ≤ r.log.lastIndex)
    (hd : r.state = .candidate ∨ r.state = .preCandidate → r.draws ≠ []) : NoErr (Raft.step (fuel + 1) m) r :=
  noErr_step_hb_same' fuel m ht hterm (by rw [hinv.st.id]; exact hfrom) hc hd

/-- bridge: a commit index within the Spec log of node `n` is within the model log -/
theorem hb_commit_le {val : Val} {voters : List Id} {n : Nat} {r : Raft} {s : Spec.State} {c : Nat}
    (hinv : RaftInv val voters n r (s.nodes n) s.msgs) (h : c ≤ (s.nodes n).vol.log.length) :
    c ≤ r.log.lastIndex := by
  have hl : (s.nodes n).vol.log.length = r.log.lastIndex := by
    rw [hinv.abs.log]
    exact absLogL_length_eq (val := val) hinv.wf hinv.unc
  omega

end RaftVerif.NoPanicP

namespace RaftVerif.NoPanicP
open Raft C14 Sim Refine

/-! ### MsgHeartbeatResp -/

/-- a leader and a MsgHeartbeatResp without read-index context: only the optional `sendAppend` can throw -/
theorem noErr_stepLeader_hbResp (fuel : Nat) (m : Message) (r : Raft) (ht : m.typ = .heartbeatResp)
    (hctx : m.context = none)
    (hsend : ∀ pr, r.trk.getProgress m.from = some pr → (pr.match_ < r.log.lastIndex ∨ pr.state = .probe) →
      NoErr (sendAppend m.from) (Live.hbMid r m pr)) : NoErr (stepLeader fuel m) r := by
  have hc0 : m.ctxLen = 0 := by simp [Message.ctxLen, hctx]
  unfold Raft.stepLeader
  cases hg : r.trk.getProgress m.from with
  | none => simp only [np, wp, ht, hg, and_true, true_and, Spec.trivial]
  | some pr =>
    simp only [np, wp, ht, hc0, hg, setPr, beq_self_eq_true, Bool.or_true, ↓reduceIte, and_true, true_and,
      Spec.trivial, implies_true, Bool.or_eq_true, decide_eq_true_eq, beq_iff_eq]
    intro h
    have h1 := hsend pr hg h
    unfold Raft.sendAppend at h1
    simp only [np, wp, and_true, Spec.trivial] at h1
    exact h1

/-- **MsgHeartbeatResp of the node's own term**, model-level form: ignored by a non-leader; a leader marks the
sender active and un-paused (`Live.hbMid`) and calls `sendAppend` iff the sender lags or is being probed -/
theorem noErr_step_hbResp_same' {r : Raft} (fuel : Nat) (m : Message) (ht : m.typ = .heartbeatResp)
    (hterm : m.term = r.term) (hctx : m.context = none)
    (hsend : r.state = .leader → ∀ pr, r.trk.getProgress m.from = some pr →
      (pr.match_ < r.log.lastIndex ∨ pr.state = .probe) → NoErr (sendAppend m.from) (Live.hbMid r m pr)) :
    NoErr (Raft.step (fuel + 1) m) r := by
  have hdis : (step (fuel + 1) m).run r = (dispatch fuel m r).run r :=
    step_same_term_dispatch fuel m r (Or.inr hterm) (by rw [ht]; decide)
  have hN : NoErr (dispatch fuel m r) r := by
    unfold dispatch
    cases hs : r.state with
    | leader => exact noErr_stepLeader_hbResp fuel m r ht hctx (hsend hs)
    | follower => exact NoErr.of_ok (hbResp_stepFollower_run fuel m r ht)
    | candidate => exact NoErr.of_ok (hbResp_stepCandidate_run fuel m r ht)
    | preCandidate => exact NoErr.of_ok (hbResp_stepCandidate_run fuel m r ht)
  intro e he
  rw [hdis] at he
  exact hN e he

/-- **MsgHeartbeatResp of the node's own term never throws, provided the leader's `sendAppend` does not**
(simulation-invariant form; `Live.hbMid r m pr = { r with trk := r.trk.setProgress m.from { pr with recentActive :=
true, msgAppFlowPaused := false } }`) -/
theorem noErr_step_hbResp_same {val : Val} {voters : List Id} {n : Nat} {r : Raft} {nd : Spec.Node} {msgs}
    (_hinv : RaftInv val voters n r nd msgs) (fuel : Nat) (m : Message) (ht : m.typ = .heartbeatResp)
    (hterm : m.term = r.term) (_h0 : m.term ≠ 0) (hctx : m.context = none)
    (hsend : r.state = .leader → ∀ pr, r.trk.getProgress m.from = some pr →
      (pr.match_ < r.log.lastIndex ∨ pr.state = .probe) →
      NoErr (sendAppend m.from)
        { r with trk := r.trk.setProgress m.from { pr with recentActive := true, msgAppFlowPaused := false } }) :
    NoErr (Raft.step (fuel + 1) m) r :=
  noErr_step_hbResp_same' fuel m ht hterm hctx hsend

end RaftVerif.NoPanicP
