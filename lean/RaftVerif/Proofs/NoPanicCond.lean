import RaftVerif.Proofs.NoPanicInv
import RaftVerif.Proofs.NoPanicProp
import RaftVerif.Proofs.NoPanicAppResp
/-!
# Proofs/NoPanicCond — the leader-side operations are total in a cluster that satisfies the additional invariant `NPC`
-/
set_option linter.unusedSimpArgs false
namespace RaftVerif.NoPanicP
open Raft C14 Sim Refine Simulation

theorem NPInv.follLead {n : Nat} {r : Raft} (h : NPInv n r) : r.state = .follower → r.lead ≠ n := by
  intro hf hl
  have := h.lead hl
  rw [hf] at this; cases this

/-- `RawNode.propose` under `NPInv` -/
theorem propose_done_np {val : Val} {voters : List Id} {n : Nat} {rn : RawNode} {nd : Spec.Node}
    {msgs : List Spec.Msg} (hnode : NodeInv val voters n rn nd msgs) (hnp : NPInv n rn.raft)
    (draws : List Nat) (data : Option Bytes) : Done (rn.propose draws data) :=
  propose_done hnode draws data hnp.follLead (fun hl => (hnp.prog hl).ok)

/-- a forwarded proposal delivered from the network -/
theorem noErr_deliver_prop {val : Val} {voters : List Id} {n : Nat} {s : Spec.State} {r : Raft} {m : Message}
    {fuel : Nat} (hinv : RaftInv val voters n r (s.nodes n) s.msgs) (ht : m.typ = .prop)
    (hnet : NetOK val s.msgs m) (hshape : PropEntries m) (hnp : NPInv n r) :
    NoErr (Raft.step (fuel + 1) m) r := by
  have h0 : m.term = 0 := by
    unfold NetOK at hnet; simp only [ht] at hnet; exact hnet
  exact noErr_step_prop hinv fuel m ht h0 (hshape ht) hnp.follLead (fun hl => (hnp.prog hl).ok)

/-- **MsgAppResp** (any term) never throws at a node whose progress table is well-formed (if it leads):
acknowledgements justified by the Spec soup are honest (`inOK_ack_le`) -/
theorem noErr_deliver_appResp {val : Val} {voters : List Id} {n : Nat} {s : Spec.State} {r : Raft} {m : Message}
    {fuel : Nat} (hinv : RaftInv val voters n r (s.nodes n) s.msgs) (hreach : Spec.Reachable (cfgOf voters) s)
    (hcfg : (cfgOf voters).OK) (ht : m.typ = .appResp) (hnet : NetOK val s.msgs m) (hto : m.to = n)
    (hfrom : m.from ≠ n) (hprog : KeepsProg r) (hd : r.draws ≠ []) : NoErr (Raft.step (fuel + 1) m) r := by
  have hc : Deliverable m.typ := Or.inr (Or.inr (Or.inr (Or.inl ht)))
  have h0 := netOK_term_ne hc hnet
  refine noErr_by_term hinv hreach hc h0 hd (fun s1 r1 hreach1 hmsgs _ hinv1 ht1 _ _ hr1 => ?_)
  have hp1 : KeepsProg r1 := by
    rcases hr1 with rfl | hf
    · exact hprog
    · intro hl; rw [hf] at hl; cases hl
  have hin : InOK val n (s1.nodes n) s1.msgs m := by rw [hmsgs]; exact hnet.inOK hto
  exact noErr_step_appResp_same hinv1 fuel m ht ht1.symm h0 hp1
    (fun hl hrej => inOK_ack_le hinv1 hreach1 hcfg ht hin ht1.symm hl hrej) (fun _ _ => hfrom)

end RaftVerif.NoPanicP
