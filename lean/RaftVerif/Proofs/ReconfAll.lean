import RaftVerif.Proofs.ReconfCand
/-!
# The joint invariant of the protocol with membership changes

`Inv1`, `ElectedNodup`, `Inv2`, `InvC`, `Inv3` together are inductive: the hypotheses `Fresh` (no
term is won twice) and `CandOK` (a winning candidate is safe) that the individual step lemmas need
are provided, for a `becomeLeader` step, by `Proofs/ReconfCand.lean` from the invariants of the
pre-state.
-/
namespace RaftVerif.SpecR

structure InvAll (c0 : Conf) (s : State) : Prop where
  h1 : Inv1 c0 s
  hnd : ElectedNodup s
  h2 : Inv2 s
  hC : InvC c0 s
  h3 : Inv3 c0 s

theorem invAll_init (c0 : Conf) : InvAll c0 State.init :=
  ⟨inv1_init c0, electedNodup_init, inv2_init, invC_init c0, inv3_init c0⟩

/-- election safety as a property of every enabled step -/
theorem fresh_of_inv {c0 : Conf} (hc0 : c0.wf) {s : State} (h : InvAll c0 s) {a : Action}
    (he : enabled c0 s a) : Fresh s a := by
  intro n q ha n'
  subst ha
  exact cand_fresh hc0 h.h1 h.h2 h.hC h.h3 he n'

theorem candOK_of_inv {c0 : Conf} (hc0 : c0.wf) {s : State} (h : InvAll c0 s) {a : Action}
    (he : enabled c0 s a) : CandOK c0 s a := by
  intro n q ha
  subst ha
  exact ⟨cand_safe hc0 h.h1 h.h2 h.hC h.h3 he, cand_late hc0 h.h1 h.h2 h.hC h.h3 he⟩

theorem invAll_step {c0 : Conf} (hc0 : c0.wf) {s : State} (h : InvAll c0 s) {a : Action}
    (he : enabled c0 s a) : InvAll c0 (apply s a) := by
  have hf := fresh_of_inv hc0 h he
  have hcand := candOK_of_inv hc0 h he
  exact ⟨inv1_step c0 s a h.h1 he, electedNodup_step s a h.hnd hf,
    inv2_step c0 s a hf h.hnd h.h1 h.h2 he, invC_step h.h1 h.h2 h.hC he hf h.hnd,
    inv3_step hc0 h.h1 h.h2 h.hC h.h3 he hf h.hnd hcand⟩

theorem invAll_reachable {c0 : Conf} (hc0 : c0.wf) {s : State} (h : Reachable c0 s) : InvAll c0 s := by
  induction h with
  | init => exact invAll_init c0
  | step s a _ he ih => exact invAll_step hc0 ih he

end RaftVerif.SpecR
