import RaftVerif.Proofs.NoPanicKeeps
/-!
# Proofs/NoPanicSyncLP — the `lead` / `props` / `hbr` part of `NPInv` through a successful sync round, and the shape
of the messages a `Ready` hands to the network
-/
set_option linter.unusedSimpArgs false
namespace RaftVerif.NoPanicP
open Raft C14 Sim Refine Simulation

theorem promise_kind {t : MsgType} (h : isPromise t = true) :
    t ≠ .prop ∧ t ≠ .heartbeatResp ∧ t ≠ .app ∧ t ≠ .heartbeat ∧ t ≠ .snap := by
  cases t <;> simp [isPromise] at h ⊢

/-- **the sync round and the model-only part of `NPInv`** -/
theorem sync_lp {val : Val} {voters : List Id} {n : Nat} {nd : Spec.Node} {msgs : List Spec.Msg}
    {rn rn' : RawNode} {rd : Ready} {draws : List Nat} (hnode : NodeInv val voters n rn nd msgs)
    (hset : Settled rn.raft) (hprom : MaaProm rn.raft) (hnp : NPInv n rn.raft)
    (h : syncRound rn draws = .ok (rd, rn')) :
    (rn'.raft.lead = n → rn'.raft.state = .leader) ∧ (∀ x ∈ rn'.raft.msgs, PropEntries x) ∧
    (∀ x ∈ rn'.raft.msgs, x.typ = .heartbeatResp → x.from = n ∧ x.to ≠ n) ∧
    ∀ x ∈ rd.messages, PropEntries x ∧ HbRespFrom x := by
  unfold syncRound at h
  obtain ⟨⟨rd0, rn1⟩, hready, h⟩ := bind_eq_ok.1 h
  dsimp only at h
  obtain ⟨rn2, hpers, h⟩ := bind_eq_ok.1 h
  obtain ⟨rn3, hadv, h⟩ := bind_eq_ok.1 h
  simp only [pure, Except.pure, Except.ok.injEq, Prod.mk.injEq] at h
  obtain ⟨e1, e2⟩ := h
  subst e1 e2
  obtain ⟨eid, l2, _, hmsgs, _, _, hsoa1, hraft1, _⟩ :=
    ready_sync_inv hnode.sync hnode.adv hnode.inv.wf hset.1 hready
  -- the node after the storage write
  unfold persistReady at hpers
  obtain ⟨ms, _, hpers⟩ := bind_eq_ok.1 hpers
  simp only [pure, Except.pure, Except.ok.injEq] at hpers
  have hsoa2 : rn2.stepsOnAdvance = Next.soaOf rn.raft eid rd0.committedEntries := by rw [← hpers]; exact hsoa1
  have hlead2 : rn2.raft.lead = rn.raft.lead := by rw [← hpers, hraft1]
  have hstate2 : rn2.raft.state = rn.raft.state := by rw [← hpers, hraft1]
  have hmsgs2 : rn2.raft.msgs = [] := by rw [← hpers, hraft1]
  have hcfg2 : rn2.raft.cfg = rn.raft.cfg := by rw [← hpers, hraft1]
  have hsoa : ∀ m ∈ rn2.stepsOnAdvance,
      (m.typ = .app ∨ m.typ = .heartbeat ∨ m.typ = .snap → m.from ≠ n) ∧ m.typ ≠ .prop := by
    intro m hm
    rw [hsoa2] at hm
    unfold Next.soaOf at hm
    rcases List.mem_append.1 hm with hm | hm
    · rcases List.mem_append.1 hm with hm | hm
      · have hk := promise_kind (hprom m (List.mem_filter.1 hm).1)
        exact ⟨fun hx => by rcases hx with hx | hx | hx <;> simp [hx] at hk, hk.1⟩
      · split at hm
        · simp only [List.mem_singleton] at hm; subst hm; simp [Next.storageResp]
        · cases hm
    · split at hm
      · simp only [List.mem_singleton] at hm; subst hm; simp [RawNode.newStorageApplyRespMsg]
      · cases hm
  obtain ⟨_, hl, hm⟩ := advance_lp n hnode.inv.st.idnz rn2 rn3 draws hsoa hadv
  have hid : rn2.raft.cfg.id = n := by rw [hcfg2]; exact hnode.inv.st.id
  refine ⟨hl (fun h => by rw [hstate2]; exact hnp.lead (hlead2 ▸ h)), fun x hx => ?_, fun x hx => ?_,
    fun x hx => ?_⟩
  · rcases hm x hx with h1 | h1
    · rw [hmsgs2] at h1; cases h1
    · exact fun hp => absurd hp h1.1
  · rcases hm x hx with h1 | h1
    · rw [hmsgs2] at h1; cases h1
    · intro hp; rw [hid] at h1; exact h1.2 hp
  · rw [hmsgs] at hx
    rcases List.mem_append.1 hx with h1 | h1
    · exact ⟨hnp.props x h1, fun hp => by obtain ⟨a, b⟩ := hnp.hbr x h1 hp; rw [a]; exact fun e => b e.symm⟩
    · have hk := promise_kind (hprom x (List.mem_filter.1 h1).1)
      exact ⟨fun hp => absurd hp hk.1, fun hp => absurd hp hk.2.1⟩

end RaftVerif.NoPanicP
