import RaftVerif.Proofs.RefineRLeader
/-!
# Proofs/RefineRPci — the MsgAppResp handler never touches `pendingConfIndex`

`PC s s'` — `pendingConfIndex` is what it was.  Mirrors the `LS` / `CK` development of
`Proofs/NextCommit.lean` for this one field (needed because `SpecR.leaderCommit` keeps `pendingConf`).
-/
namespace RaftVerif.RefineR
open RaftVerif.Raft RaftVerif.Live RaftVerif.Next

/-- `pendingConfIndex` is what it was -/
def PC (s s' : Raft) : Prop := s'.pendingConfIndex = s.pendingConfIndex

instance : RelOK PC where
  refl _ := rfl
  trans h1 h2 := Eq.trans h2 h1

theorem sf_pc {s s' : Raft} (h : SendFrame s s') : PC s s' := h.pendingConfIndex

macro_rules | `(tactic| rel_fields) => `(tactic| exact (rfl : PC _ _))

syntax "pc_step" : tactic

theorem send_pc (m : Message) (s : Raft) : Spec (send m) s (fun _ s' => PC s s') :=
  (send_sf _ s).mono fun _ _ h => sf_pc h
macro_rules | `(tactic| pc_step) => `(tactic| rel_call (send_pc ..))
theorem maybeSendAppend_pc (to : Id) (b : Bool) (s : Raft) :
    Spec (maybeSendAppend to b) s (fun _ s' => PC s s') :=
  (maybeSendAppend_sf _ _ s).mono fun _ _ h => sf_pc h
macro_rules | `(tactic| pc_step) => `(tactic| rel_call (maybeSendAppend_pc ..))
theorem sendAppendLoop_pc (n : Nat) (to : Id) (s : Raft) : Spec (sendAppendLoop n to) s (fun _ s' => PC s s') :=
  (sendAppendLoop_sf _ _ s).mono fun _ _ h => sf_pc h
macro_rules | `(tactic| pc_step) => `(tactic| rel_call (sendAppendLoop_pc ..))
theorem bcastAppend_pc (s : Raft) : Spec bcastAppend s (fun _ s' => PC s s') :=
  (bcastAppend_sf s).mono fun _ _ h => sf_pc h
macro_rules | `(tactic| pc_step) => `(tactic| rel_call (bcastAppend_pc ..))
theorem bcastHeartbeat_pc (s : Raft) : Spec bcastHeartbeat s (fun _ s' => PC s s') :=
  (bcastHeartbeat_sf s).mono fun _ _ h => sf_pc h
macro_rules | `(tactic| pc_step) => `(tactic| rel_call (bcastHeartbeat_pc ..))

theorem responseToReadIndexReq_pc (req : Message) (i : Nat) (s : Raft) :
    Spec (responseToReadIndexReq req i) s (fun _ s' => PC s s') := by
  unfold responseToReadIndexReq
  rel_start
  wp_auto [pc_step]
macro_rules | `(tactic| pc_step) => `(tactic| rel_call (responseToReadIndexReq_pc ..))

theorem sendReadIndexResp_pc (req : Message) (i : Nat) (s : Raft) :
    Spec (sendReadIndexResp req i) s (fun _ s' => PC s s') := by
  unfold sendReadIndexResp
  rel_start
  wp_auto [pc_step]
macro_rules | `(tactic| pc_step) => `(tactic| rel_call (sendReadIndexResp_pc ..))

theorem sendMsgReadIndexResponse_pc (m : Message) (s : Raft) :
    Spec (sendMsgReadIndexResponse m) s (fun _ s' => PC s s') := by
  unfold sendMsgReadIndexResponse
  rel_start
  wp_auto [pc_step]
macro_rules | `(tactic| pc_step) => `(tactic| rel_call (sendMsgReadIndexResponse_pc ..))

theorem releasePendingReadIndexMessages_pc (s : Raft) :
    Spec releasePendingReadIndexMessages s (fun _ s' => PC s s') := by
  unfold releasePendingReadIndexMessages
  rel_start
  wp_auto [first | pc_step | rel_loop PC]

theorem sendTimeoutNow_pc (to : Id) (s : Raft) : Spec (sendTimeoutNow to) s (fun _ s' => PC s s') := by
  unfold sendTimeoutNow
  exact send_pc _ _

theorem sendAppend_pc (to : Id) (s : Raft) : Spec (sendAppend to) s (fun _ s' => PC s s') := by
  unfold sendAppend
  rel_start
  wp_auto [pc_step]

theorem pc_step_and {cur mid r' : Raft} {P : Prop} (h1 : PC cur mid) (h2 : P ∧ PC mid r') :
    P ∧ PC cur r' := ⟨h2.1, RelOK.trans h1 h2.2⟩

/-- the common tail of the `MsgAppResp` handler: maybe tell the transferee to campaign -/
macro "pc_tl1 " h:ident : tactic => `(tactic| (
  obtain ⟨_, _, hq1, hq2⟩ := bind_ok $h
  obtain ⟨eq0, eq1⟩ := get_ok hq1; subst eq0 eq1
  obtain ⟨_, _, hq3, hq4⟩ := bind_ok hq2
  obtain ⟨eq2, _⟩ := getPr_ok hq3; subst eq2
  split at hq4
  · obtain ⟨_, _, hq5, hq6⟩ := bind_ok hq4
    obtain ⟨eq3a, eq3⟩ := pure_ok hq6; subst eq3
    exact ⟨eq3a, (sendTimeoutNow_pc _ _).elim hq5⟩
  · obtain ⟨eq3a, eq3⟩ := pure_ok hq4; subst eq3; exact ⟨eq3a, RelOK.refl _⟩))

macro "pc_tl2 " h:ident : tactic => `(tactic| (
  split at $h:ident
  · obtain ⟨_, _, hp1, hp2⟩ := bind_ok $h
    obtain ⟨ep0, ep1⟩ := get_ok hp1; subst ep0 ep1
    obtain ⟨_, _, hp3, hp4⟩ := bind_ok hp2
    refine pc_step_and ((sendAppendLoop_pc _ _ _).elim hp3) ?_
    pc_tl1 hp4
  · pc_tl1 $h))

/-- **acknowledging `MsgAppResp`**: when the acknowledgement is processed further (`ackCond`),
`pendingConfIndex` is untouched -/
theorem stepLeader_appResp_ack_pc (fuel : Nat) (m : Message) (r r' : Raft) (res : Option StepErr)
    (pr : Progress) (hm : m.typ = .appResp) (hg : r.trk.getProgress m.from = some pr)
    (hrej : m.reject = false) (hc : ackCond pr m.index) (h : (stepLeader fuel m).run r = .ok (res, r')) :
    PC r r' := by
  unfold stepLeader at h
  simp only [hm] at h
  obtain ⟨r0, r1, h1, hA⟩ := bind_ok h
  obtain ⟨e0, e1⟩ := get_ok h1; subst r0 r1
  split at hA
  case h_2 hnone => rw [hg] at hnone; cases hnone
  rename_i pr' hg'
  have epr : pr' = pr := by rw [hg] at hg'; injection hg' with hg'; exact hg'.symm
  subst pr'
  obtain ⟨pr'', r2, h2, hB⟩ := bind_ok hA
  obtain ⟨e0, e1⟩ := pure_ok h2; subst pr'' r2
  obtain ⟨u3, r3, h3, hC⟩ := bind_ok hB
  have e := setPr_ok h3; subst r3
  simp only [hrej, Bool.false_eq_true, ↓reduceIte] at hC
  obtain ⟨u4, r4, h4, hD⟩ := bind_ok hC
  have e := setPr_ok h4; subst r4
  split at hD
  case isFalse hcond =>
    exact absurd (by simpa [ackCond, ackUpd] using hc) hcond
  obtain ⟨r0, r5, h5, hE⟩ := bind_ok hD
  obtain ⟨e0, e1⟩ := get_ok h5; subst r0 r5
  obtain ⟨u6, r6, h6, hF⟩ := bind_ok hE
  have e := setPr_ok h6; subst r6
  obtain ⟨b7, r7, h7, hG⟩ := bind_ok hF
  have h07 : PC r r7 := by
    rcases (Next.maybeCommit_exact _).elim h7 with ⟨_, rfl⟩ | ⟨_, idx, _, _, _, _, _, rfl⟩ <;> rfl
  suffices hk : res = none ∧ PC r7 r' from RelOK.trans h07 hk.2
  split at hG
  · obtain ⟨u8, r8, h8, hH⟩ := bind_ok hG
    refine pc_step_and ((releasePendingReadIndexMessages_pc _).elim h8) ?_
    obtain ⟨u9, r9, h9, hI⟩ := bind_ok hH
    refine pc_step_and ((bcastAppend_pc _).elim h9) ?_
    pc_tl2 hI
  · obtain ⟨pr8, r8, h8, hH⟩ := bind_ok hG
    obtain ⟨e8, _⟩ := getPr_ok h8; subst e8
    obtain ⟨r0, r9, h9, hI⟩ := bind_ok hH
    obtain ⟨e0, e1⟩ := get_ok h9; subst e0 e1
    split at hI
    · obtain ⟨u10, r10, h10, hJ⟩ := bind_ok hI
      refine pc_step_and ((sendAppend_pc _ _).elim h10) ?_
      pc_tl2 hJ
    · pc_tl2 hI

theorem stepLeader_appResp_commit_pc (fuel : Nat) (m : Message) (r r' : Raft) (res : Option StepErr)
    (hm : m.typ = .appResp) (h : (stepLeader fuel m).run r = .ok (res, r'))
    (hadv : r.log.committed < r'.log.committed) : r'.pendingConfIndex = r.pendingConfIndex := by
  cases hg : r.trk.getProgress m.from with
  | none =>
    rw [Live.stepLeader_noProgress_run fuel m r (Or.inr (Or.inr (Or.inr (Or.inl hm)))) hg] at h
    injection h with h; injection h with _ h; subst h
    rfl
  | some pr =>
    cases hrej : m.reject with
    | true =>
      have := (Next.stepLeader_commit fuel m r).elim h
      rcases this with h1 | ⟨_, _, _, _, _, h2⟩
      · unfold CmE at h1; omega
      · rw [hrej] at h2; cases h2
    | false =>
      by_cases hc : Live.ackCond pr m.index
      · exact stepLeader_appResp_ack_pc fuel m r r' res pr hm hg hrej hc h
      · have := (Live.stepLeader_appResp_ack_inv fuel m r r' res pr hm hg hrej h).2.2 hc
        subst this
        rfl

/-- a leader's `Step` that advances the commit index in its own term leaves `pendingConfIndex` alone -/
theorem step_leaderCommit_pc (fuel : Nat) (m : Message) (r r' : Raft) (e : Option StepErr)
    (hs : r.state = .leader) (h : (step fuel m).run r = .ok (e, r'))
    (hadv : r.log.committed < r'.log.committed) (ht : r'.term = r.term) :
    r'.pendingConfIndex = r.pendingConfIndex := by
  obtain ⟨_, _, _, _, _, htyp, _⟩ := C06L.leader_commit_rule fuel m r r' e hs h hadv ht
  cases fuel with
  | zero => exact (C17Q.fuel_pos h).elim
  | succ fuel =>
    by_cases hterm : m.term = 0 ∨ m.term = r.term
    · rw [Live.step_leader_dispatch fuel m r hs hterm (Or.inr (Or.inr (Or.inl htyp)))] at h
      exact stepLeader_appResp_commit_pc fuel m r r' e htyp h hadv
    · by_cases hlt : m.term < r.term
      · rw [Refine.step_stale_appResp_run fuel m r (by omega) hlt htyp] at h
        injection h with h; injection h with _ h; subst h
        rfl
      · rw [Live.step_higher_term_resp_run fuel m r (by omega) (Or.inl htyp)] at h
        obtain ⟨p, hp, h⟩ := bind_eq_ok.1 h
        injection h with h; injection h with _ h; subst h
        have := ((becomeFollower_spec m.term 0 r).elim hp).1
        omega

end RaftVerif.RefineR
