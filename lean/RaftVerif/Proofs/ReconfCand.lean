import RaftVerif.Proofs.ReconfCommit
/-!
# The cross-configuration argument: a candidate that satisfies the guard of `becomeLeader`

From the invariants of the pre-state (`Inv1`, `Inv2`, `InvC`, `Inv3`) and the guard of
`becomeLeader n q` we derive
* `CandSafe`: the candidate's log contains whatever any lower term filled itself, unless dead;
* `CandLate`: if a higher term was already won, the candidate's term is blocked;
* `Fresh`: nobody was elected in the candidate's term.
The quorum of the candidate is a quorum of its *own* active configuration; the point is to show
that this configuration is equal or adjacent to the configurations the other leader can use.
-/
namespace RaftVerif.SpecR

theorem cfgAt_wf {c0 : Conf} (hc0 : c0.wf) {l : Log} (hch : CfgChain c0 l) (k : Nat) :
    (l.cfgAt c0 k).wf := by
  induction k with
  | zero => rw [cfgAt_zero]; exact hc0
  | succ k ih =>
    by_cases hk : k < l.length
    · rw [cfgAt_succ c0 l hk]
      unfold Ent.upd
      cases hc : (l[k]).cfg with
      | none => exact ih
      | some c => exact Conf.allowed_wf ih (hch k hk c hc)
    · rw [cfgAt_ge_length c0 l (by omega : l.length ≤ k + 1), ← cfgAt_ge_length c0 l (by omega : l.length ≤ k)]
      exact ih

theorem take_le_of_take {L G : Log} {m i : Nat} (h : List.take m L = List.take m G) (hi : i ≤ m) :
    List.take i L = List.take i G := by
  have := congrArg (List.take i) h
  rwa [List.take_take, List.take_take, Nat.min_eq_left hi] at this

/-- Two logs that contain each other's committed prefix: the configuration at the applied index of
the first (no configuration entry in `(A, Cx]`, at most one above `Cx`) and the configuration at
the applied index of the second (none in `(A', C']`, at most one in `(C', E]`) are equal or
adjacent. -/
theorem near_elect {c0 : Conf} {L G : Log} (hL : CfgChain c0 L) {A Cx A' C' E : Nat}
    (hA : A ≤ Cx) (hA' : A' ≤ C')
    (hx1 : NoCfgIn L A Cx) (hx2 : AtMostOneCfg L Cx L.length)
    (hy1 : NoCfgIn G A' C') (hy2 : AtMostOneCfg G C' E)
    (H1 : List.take Cx L = List.take Cx G) (hCxE : Cx ≤ E)
    (H2 : List.take C' G = List.take C' L) (hC'L : C' ≤ L.length) :
    (L.cfgAt c0 A).near (G.cfgAt c0 A') := by
  rcases Nat.le_total Cx C' with hle | hle
  · -- the logs agree up to `C'`
    have hG : G.cfgAt c0 A' = L.cfgAt c0 A' := cfgAt_congr c0 (take_le_of_take H2 hA')
    rw [hG]
    apply near_of_atMostOne_both hL (m := C') _ _ (by omega) hA'
    · intro i j hi hij hj hci hcj
      rcases Nat.lt_or_ge Cx i with h | h
      · exact hx2 i j h hij (by omega) hci hcj
      · exact hx1 i hi h hci
    · intro i j hi hij hj hci _
      exact hy1 i hi (by omega) ((isCfg_congr (take_le_of_take H2 (by omega))).mpr hci)
  · -- the logs agree up to `Cx`
    have hG : G.cfgAt c0 A' = L.cfgAt c0 A' := (cfgAt_congr c0 (take_le_of_take H1 (by omega))).symm
    rw [hG]
    apply near_of_atMostOne_both hL (m := Cx) _ _ hA (by omega)
    · exact hx1.atMostOne
    · intro i j hi hij hj hci hcj
      have hgi := (isCfg_congr (take_le_of_take H1 (by omega : i ≤ Cx))).mp hci
      have hgj := (isCfg_congr (take_le_of_take H1 hj)).mp hcj
      rcases Nat.lt_or_ge C' i with h | h
      · exact hy2 i j h hij (by omega) hgi hgj
      · exact hy1 i hi h hgi

set_option linter.unusedSectionVars false
set_option linter.unusedVariables false

section Cand
variable {c0 : Conf} (hc0 : c0.wf) {s : State} (h1 : Inv1 c0 s) (h2 : Inv2 s) (hC : InvC c0 s)
  (h3 : Inv3 c0 s) {n : NodeId} {q : List NodeId} (he : enabled c0 s (.becomeLeader n q))
include hc0 h1 h2 hC h3 he

/-- every member of the election quorum holds the durable vote -/
theorem cand_votes : ∀ b ∈ q, ((s.nodes n).vol.term, n) ∈ (s.nodes b).dur.votes := by
  simp only [enabled] at he
  intro b hb
  rcases he.2.2.2.2 b hb with rfl | hm
  · exact he.2.2.1
  · exact h1.vote_msg _ _ _ hm

/-- every member of the election quorum is durably in the candidate's term or beyond -/
theorem cand_voter_term : ∀ b ∈ q, (s.nodes n).vol.term ≤ (s.nodes b).dur.term := by
  intro b hb
  exact ((h1.nodes b).vers _ (by simp [versions])).votes_le _ _ (cand_votes hc0 h1 h2 hC h3 he b hb)

/-- what an acknowledgement `(c, k)` of a voter (in any version) says about the candidate's log -/
theorem cand_ack_uptodate {b : NodeId} (hb : b ∈ q) {w : Ver} (hw : w ∈ versions (s.nodes b))
    {c k i : Nat} (hcT : c < (s.nodes n).vol.term) (hk : (c, k) ∈ w.acks) (hik : i ≤ k)
    (ht : (s.glog c).termAt i = some c) :
    Dead c0 s c i ∨ c < (s.nodes n).vol.log.lastTerm ∨
      ((s.nodes n).vol.log.lastTerm = c ∧ i ≤ (s.nodes n).vol.log.length) := by
  have hwv := ((h1.nodes b).dur_le w hw).votes_sub _ (cand_votes hc0 h1 h2 hC h3 he b hb)
  simp only [enabled] at he
  obtain ⟨hrole, hq, hself, hreq, hvotes⟩ := he
  rcases h3.vote_req b w hw _ _ hwv with hbn | ⟨lt, li, hmsg, hall⟩
  · rw [hbn] at hw
    exact vol_uptodate hc0 h1 h2 h3 n c k i (((h1.nodes n).le_vol w hw).acks_sub _ hk) hik ht
  · have hcov := reqVotesCovered_spec hreq hmsg
    rcases hall c k i hcT hk hik ht with h | h | ⟨h, hli⟩
    · exact Or.inl h
    · right; omega
    · right; omega

theorem cand_chain : CfgChain c0 (s.nodes n).vol.log :=
  chain_of_logwf hC.glog_chain (h2.ver_log n _ (by simp [versions]))

theorem cand_active_wf : ((s.nodes n).active c0).wf :=
  cfgAt_wf hc0 (cand_chain hc0 h1 h2 hC h3 he) _

/-- the election quorum witnesses that term `c` is dead from `i0` on, provided no voter acknowledged
`(c, ≥ i0)` and every configuration term `c` could use is equal or adjacent to the candidate's -/
theorem dead_of_q {c i0 : Nat} {m : NodeId} (hcT : c < (s.nodes n).vol.term)
    (hel : (c, m) ∈ s.elected) (hlo : s.elen c < i0) (hhi : i0 ≤ (s.glog c).length + 1)
    (hno : ∀ b ∈ q, ∀ w ∈ versions (s.nodes b), ∀ k, (c, k) ∈ w.acks → k < i0)
    (hnear : ∀ k, Use s c i0 k → ((s.glog c).cfgAt c0 k).near ((s.nodes n).active c0)) :
    Dead c0 s c i0 := by
  refine ⟨i0, q, Nat.le_refl _, ⟨m, hel⟩, hlo, hhi, fun b hb => ⟨?_, hno b hb⟩, ?_⟩
  · exact Nat.lt_of_lt_of_le hcT (cand_voter_term hc0 h1 h2 hC h3 he b hb)
  · intro k hu Q2 hQ2
    have hq : ((s.nodes n).active c0).isQuorum q = true := by simp only [enabled] at he; exact he.2.1
    obtain ⟨v, hv2, hvq⟩ := Conf.quorums_meet_near (cfgAt_wf hc0 (hC.glog_chain c) k)
      (cand_active_wf hc0 h1 h2 hC h3 he) (hnear k hu) hQ2 hq
    exact ⟨v, hvq, hv2⟩

/-- a non-empty candidate log is a prefix of the ghost log of its last term, which was elected -/
theorem cand_last (hne : (s.nodes n).vol.log ≠ []) :
    (s.nodes n).vol.log =
      List.take (s.nodes n).vol.log.length (s.glog (s.nodes n).vol.log.lastTerm) ∧
    (s.nodes n).vol.log.termAt (s.nodes n).vol.log.length = some (s.nodes n).vol.log.lastTerm ∧
    (s.nodes n).vol.log.lastTerm < (s.nodes n).vol.term ∧
    ∃ n', ((s.nodes n).vol.log.lastTerm, n') ∈ s.elected := by
  have hwf := h2.ver_log n _ (show (s.nodes n).vol ∈ versions (s.nodes n) by simp [versions])
  have hlast := Log.termAt_length _ hne
  have hmpos : 1 ≤ (s.nodes n).vol.log.length := by
    have := List.length_pos_iff.mpr hne; omega
  have htk := hwf.ok _ _ hmpos hlast
  rw [List.take_length] at htk
  obtain ⟨e, heL, hee⟩ := Log.termAt_mem hmpos hlast
  have hrole : (s.nodes n).role = .candidate := by simp only [enabled] at he; exact he.1
  have hlt := hC.cand_terms n hrole e heL
  rw [hee] at hlt
  have hgne : s.glog (s.nodes n).vol.log.lastTerm ≠ [] := by
    intro h0; rw [h0] at htk; simp at htk; exact hne htk
  exact ⟨htk, hlast, hlt, elected_of_glog_ne_nil h2 hgne⟩

/-- case: the candidate's last term is above `c` — inherit everything from that term's leader -/
theorem cand_case_gt {c : Nat} (hc : c < (s.nodes n).vol.log.lastTerm) :
    (∀ i, (s.glog c).termAt i = some c →
      List.take i (s.nodes n).vol.log = List.take i (s.glog c) ∨ Dead c0 s c i) ∧
    (∀ m, (c, m) ∈ s.elected → Dead c0 s c ((s.glog c).length + 1)) := by
  have hne : (s.nodes n).vol.log ≠ [] := by
    intro h0; rw [h0, Log.lastTerm_nil] at hc; omega
  obtain ⟨htk, hlast, hltT, n', hn'⟩ := cand_last hc0 h1 h2 hC h3 he hne
  have hmpos : 1 ≤ (s.nodes n).vol.log.length := by
    have := List.length_pos_iff.mpr hne; omega
  refine ⟨fun i ht => ?_, fun m hm => h3.safe_next _ n' hn' c m hc hm⟩
  rcases h3.safe_at _ n' hn' c i hc ht with h' | h'
  · by_cases him : i ≤ (s.nodes n).vol.log.length
    · left
      rw [← h']
      conv => lhs; rw [htk]
      rw [List.take_take, Nat.min_eq_left him]
    · exfalso
      have e1 : (s.nodes n).vol.log = List.take (s.nodes n).vol.log.length (s.glog c) := by
        conv => lhs; rw [htk]
        have := congrArg (List.take (s.nodes n).vol.log.length) h'
        rwa [List.take_take, List.take_take, Nat.min_eq_left (by omega)] at this
      have e2 : (s.glog c).termAt (s.nodes n).vol.log.length =
          some (s.nodes n).vol.log.lastTerm := by
        rw [← hlast]
        apply Log.termAt_congr
        rw [List.take_length]
        exact e1.symm
      obtain ⟨e', he'c, he't⟩ := Log.termAt_mem hmpos e2
      have := ((h2.glog_wf c).terms e' he'c).2
      omega
  · exact Or.inr h'

theorem cand_role : (s.nodes n).role = .candidate := by simp only [enabled] at he; exact he.1

/-- at most one configuration entry above the candidate's applied index -/
theorem cand_atMostOne :
    AtMostOneCfg (s.nodes n).vol.log (s.nodes n).applied (s.nodes n).vol.log.length := by
  have hg := hC.cand_guard n (cand_role hc0 h1 h2 hC h3 he)
  have hp2 := hC.p2 n _ (show (s.nodes n).vol ∈ versions (s.nodes n) by simp [versions])
  intro i j hi hij _ hci hcj
  exact hg i hi (hp2 i j hij hci hcj) hci

/-- case: the candidate's last term is `c` — its log is a prefix of `glog c`, and every
configuration term `c` can use below the end of that prefix is one of the last two of this log -/
theorem cand_case_eq {c : Nat} (hc : (s.nodes n).vol.log.lastTerm = c)
    (hne : (s.nodes n).vol.log ≠ []) :
    List.take (s.nodes n).vol.log.length (s.glog c) = (s.nodes n).vol.log ∧
      Dead c0 s c ((s.nodes n).vol.log.length + 1) := by
  obtain ⟨htk, hlast, hltT, m, hm⟩ := cand_last hc0 h1 h2 hC h3 he hne
  rw [hc] at htk hlast hltT hm
  have hE := hC.elect c m hm
  have hmpos : 1 ≤ (s.nodes n).vol.log.length := by
    have := List.length_pos_iff.mpr hne; omega
  have hlen : (s.nodes n).vol.log.length ≤ (s.glog c).length := by
    have := congrArg List.length htk
    rw [List.length_take] at this; omega
  have hagree : ∀ i, i ≤ (s.nodes n).vol.log.length →
      List.take i (s.nodes n).vol.log = List.take i (s.glog c) := by
    intro i hi
    conv => lhs; rw [htk]
    rw [List.take_take, Nat.min_eq_left hi]
  have htc : (s.glog c).termAt (s.nodes n).vol.log.length = some c := by
    rw [← hlast]; exact (Log.termAt_congr (hagree _ (Nat.le_refl _))).symm
  have hlo : s.elen c < (s.nodes n).vol.log.length := by
    rcases Nat.lt_or_ge (s.elen c) (s.nodes n).vol.log.length with h | h
    · exact h
    · exact absurd htc (hE.terms _ hmpos h)
  refine ⟨htk.symm, ?_⟩
  by_cases hex : ∃ b, b ∈ q ∧ ∃ w, w ∈ versions (s.nodes b) ∧ ∃ k, (c, k) ∈ w.acks ∧
      (s.nodes n).vol.log.length + 1 ≤ k
  · obtain ⟨b, hb, w, hw, k, hk, hik⟩ := hex
    have hkb := h3.ack_bound b w hw c k hk
    have ht := hE.own ((s.nodes n).vol.log.length + 1) (by omega) (by omega)
    rcases cand_ack_uptodate hc0 h1 h2 hC h3 he hb hw hltT hk hik ht with h | h | ⟨_, h⟩
    · exact h
    · omega
    · omega
  · apply dead_of_q hc0 h1 h2 hC h3 he hltT hm (by omega) (by omega)
    · intro b hb w hw k hk
      rcases Nat.lt_or_ge k ((s.nodes n).vol.log.length + 1) with h | h
      · exact h
      · exact absurd ⟨b, hb, w, hw, k, hk, h⟩ hex
    · intro k ⟨_, hk2, hk3, _⟩
      have hkl : k ≤ (s.nodes n).vol.log.length := by omega
      rw [cfgAt_congr c0 (hagree k hkl).symm]
      apply near_of_atMostOne_both (cand_chain hc0 h1 h2 hC h3 he)
        (m := (s.nodes n).vol.log.length) _ (cand_atMostOne hc0 h1 h2 hC h3 he) hkl
        (Nat.le_trans (hC.applied_le n) (h2.ver_commit n _ (by simp [versions])))
      intro i j hi hij hj hci hcj
      simp only [Nat.add_sub_cancel] at hk3
      exact hk3 i j hi hij hj ((isCfg_congr (hagree i (by omega))).mp hci)
        ((isCfg_congr (hagree j hj)).mp hcj)

omit hc0 he in
/-- the ghost log of an elected term contains whatever a lower term has chosen -/
theorem chosen_in_glog {c c3 j3 : Nat} {m : NodeId} (hm : (c, m) ∈ s.elected) (hlt : c3 < c)
    (hch : Chosen c0 s c3 j3) : List.take j3 (s.glog c) = List.take j3 (s.glog c3) := by
  rcases h3.safe_at c m hm c3 j3 hlt (hch.term hC) with h | h
  · exact h
  · exact absurd h (fun hd => chosen_not_dead hC h3.choice_q hch (Nat.le_refl _) hd)

omit hc0 he in
/-- a prefix of `glog c` all of whose entries have terms below `c` ends at or before the point
where the leader of `c` started appending -/
theorem prefix_below_elen {c : Nat} {m : NodeId} (hm : (c, m) ∈ s.elected) {L : Log} {x : Nat}
    (hterms : ∀ e ∈ L, e.term < c) (hx : x ≤ L.length)
    (heq : List.take x L = List.take x (s.glog c)) : x ≤ s.elen c := by
  have hE := hC.elect c m hm
  rcases Nat.lt_or_ge (s.elen c) x with h | h
  · exfalso
    have hxG : x ≤ (s.glog c).length := by
      have := congrArg List.length heq
      rw [List.length_take, List.length_take] at this; omega
    have ht := hE.own (s.elen c + 1) (by omega) (by omega)
    rw [← Log.termAt_congr (take_le_of_take heq (by omega : s.elen c + 1 ≤ x))] at ht
    obtain ⟨e, heL, het⟩ := Log.termAt_mem (by omega) ht
    have := hterms e heL
    omega
  · exact h

/-- the candidate's configuration is equal or adjacent to the one the winner of `c` was elected
with, as soon as each of the two logs contains the other's committed prefix -/
theorem cand_near {c : Nat} {m : NodeId} (hm : (c, m) ∈ s.elected)
    (hterms : ∀ e ∈ (s.nodes n).vol.log, e.term < c)
    (H1 : List.take (s.nodes n).vol.commit (s.nodes n).vol.log =
      List.take (s.nodes n).vol.commit (s.glog c))
    (H2 : List.take (s.ecommit c) (s.glog c) = List.take (s.ecommit c) (s.nodes n).vol.log) :
    ((s.nodes n).active c0).near ((s.glog c).cfgAt c0 (s.eapp c)) := by
  have hE := hC.elect c m hm
  have hvol : (s.nodes n).vol ∈ versions (s.nodes n) := by simp [versions]
  have hcl := h2.ver_commit n _ hvol
  have hC'L : s.ecommit c ≤ (s.nodes n).vol.log.length := by
    have := congrArg List.length H2
    rw [List.length_take, List.length_take] at this
    have := hE.commit_le; have := hE.len_le
    omega
  apply near_elect (cand_chain hc0 h1 h2 hC h3 he) (hC.applied_le n) hE.app_le
    (hC.cand_guard n (cand_role hc0 h1 h2 hC h3 he)) _ hE.no_cfg hE.one_cfg H1
    (prefix_below_elen h1 h2 hC h3 hm hterms hcl H1) H2 hC'L
  intro i j hi hij _ hci hcj
  have := hC.p2 n _ hvol i j hij hci hcj
  omega

omit hc0 he in
theorem chosen_term_pos {c j : Nat} (hch : Chosen c0 s c j) : 1 ≤ c := by
  obtain ⟨k, _, hok⟩ := hch.ok hC
  obtain ⟨e, he', het⟩ := Log.termAt_mem (by have := hok.lt; omega) hok.term
  have := ((h2.glog_wf c).terms e he').1
  omega

/-- the committed prefix of the winner of `c` (at its election) lies in the candidate's log, given
that the candidate's log contains whatever the terms below `c` have chosen -/
theorem cand_H2 {c : Nat} {m : NodeId} (hm : (c, m) ∈ s.elected)
    (IH : ∀ c5, c5 < c → (∃ m5, (c5, m5) ∈ s.elected) → ∀ i, (s.glog c5).termAt i = some c5 →
      List.take i (s.nodes n).vol.log = List.take i (s.glog c5) ∨ Dead c0 s c5 i) :
    List.take (s.ecommit c) (s.glog c) = List.take (s.ecommit c) (s.nodes n).vol.log := by
  rcases h3.elect_commit c m hm with h0 | ⟨c5, j5, hc5, hj5, hch5, heq5⟩
  · rw [h0]; simp
  · have hpos := chosen_term_pos h1 h2 hC h3 hch5
    obtain ⟨k5, _, hok5⟩ := hch5.ok hC
    rcases IH c5 (by omega) hok5.elected j5 (hch5.term hC) with h | h
    · rw [heq5]; exact (take_le_of_take h hj5).symm
    · exact absurd h (fun hd => chosen_not_dead hC h3.choice_q hch5 (Nat.le_refl _) hd)

/-- the candidate's committed prefix lies in `glog c` (for an elected `c` above the candidate's
last term), unless term `c` is already dead from its first own index on -/
theorem cand_H1_or_dead {c : Nat} {m : NodeId} (hm : (c, m) ∈ s.elected)
    (hcT : c < (s.nodes n).vol.term) (hterms : ∀ e ∈ (s.nodes n).vol.log, e.term < c) :
    List.take (s.nodes n).vol.commit (s.nodes n).vol.log =
      List.take (s.nodes n).vol.commit (s.glog c) ∨ Dead c0 s c (s.elen c + 1) := by
  have hE := hC.elect c m hm
  rcases h3.cand_commit n (cand_role hc0 h1 h2 hC h3 he) with h0 | ⟨c3, j3, hc3, hj3, hch3, heq3⟩
  · left; rw [h0]; simp
  · rcases Nat.lt_trichotomy c3 c with hlt | heq | hgt
    · left
      rw [heq3]
      exact (take_le_of_take (chosen_in_glog h1 h2 hC h3 hm hlt hch3) hj3).symm
    · left; rw [← heq]; exact heq3
    · obtain ⟨k3, _, hok3⟩ := hch3.ok hC
      obtain ⟨n3, hn3⟩ := hok3.elected
      by_cases hlen : (s.glog c).length = s.elen c
      · right
        have := h3.safe_next c3 n3 hn3 c m hgt hm
        rwa [hlen] at this
      · have hle := hE.len_le
        have ht := hE.own (s.elen c + 1) (by omega) (by omega)
        rcases h3.safe_at c3 n3 hn3 c _ hgt ht with hag | hd
        · left
          -- the candidate's commit index lies below the first own index of `c`
          have hcx : (s.nodes n).vol.commit ≤ s.elen c := by
            rcases Nat.lt_or_ge (s.elen c) (s.nodes n).vol.commit with h | h
            · exfalso
              have e1 := take_le_of_take heq3 (by omega : s.elen c + 1 ≤ (s.nodes n).vol.commit)
              have e2 : (s.nodes n).vol.log.termAt (s.elen c + 1) = some c := by
                rw [Log.termAt_congr (e1.trans hag)]; exact ht
              obtain ⟨e, heL, het⟩ := Log.termAt_mem (by omega) e2
              have := hterms e heL
              omega
            · exact h
          rw [heq3]
          exact take_le_of_take hag (by omega)
        · exact Or.inr hd

/-- case: the candidate's last term is below `c` — term `c` is dead from its first own index on -/
theorem cand_case_lt {c : Nat} {m : NodeId} (hm : (c, m) ∈ s.elected)
    (hcT : c < (s.nodes n).vol.term) (hlt : (s.nodes n).vol.log.lastTerm < c)
    (IH : ∀ c5, c5 < c → ∀ i, (s.glog c5).termAt i = some c5 →
      List.take i (s.nodes n).vol.log = List.take i (s.glog c5) ∨ Dead c0 s c5 i) :
    Dead c0 s c (s.elen c + 1) := by
  have hE := hC.elect c m hm
  have hwf := h2.ver_log n _ (show (s.nodes n).vol ∈ versions (s.nodes n) by simp [versions])
  have hterms : ∀ e ∈ (s.nodes n).vol.log, e.term < c := fun e he' =>
    Nat.lt_of_le_of_lt (hwf.le_lastTerm e he') hlt
  by_cases hex : ∃ b, b ∈ q ∧ ∃ w, w ∈ versions (s.nodes b) ∧ ∃ k, (c, k) ∈ w.acks ∧ s.elen c + 1 ≤ k
  · obtain ⟨b, hb, w, hw, k, hk, hik⟩ := hex
    have hkb := h3.ack_bound b w hw c k hk
    have ht := hE.own (s.elen c + 1) (by omega) (by omega)
    rcases cand_ack_uptodate hc0 h1 h2 hC h3 he hb hw hcT hk hik ht with h | h | ⟨h, _⟩
    · exact h
    · omega
    · omega
  · rcases cand_H1_or_dead hc0 h1 h2 hC h3 he hm hcT hterms with H1 | hd
    · have H2 := cand_H2 hc0 h1 h2 hC h3 he hm (fun c5 h5 _ => IH c5 h5)
      have hnear := cand_near hc0 h1 h2 hC h3 he hm hterms H1 H2
      apply dead_of_q hc0 h1 h2 hC h3 he hcT hm (Nat.lt_succ_self _)
        (Nat.succ_le_succ hE.len_le)
      · intro b hb w hw k hk
        rcases Nat.lt_or_ge k (s.elen c + 1) with h | h
        · exact h
        · exact absurd ⟨b, hb, w, hw, k, hk, h⟩ hex
      · intro k ⟨hk1, _, _, hk4⟩
        have hk' : k ≤ s.ecommit c := by omega
        rw [cfgAt_eq_of_noCfg c0 _ hk1 (hE.no_cfg.mono (Nat.le_refl _) hk')]
        exact Conf.near_symm hnear
    · exact hd

/-- **the candidate is safe**: by strong induction on the lower term `c` -/
theorem cand_safe : CandSafe c0 s n := by
  intro c
  induction c using Nat.strongRecOn with
  | _ c ih =>
    intro hcT
    have IH : ∀ c5, c5 < c → ∀ i, (s.glog c5).termAt i = some c5 →
        List.take i (s.nodes n).vol.log = List.take i (s.glog c5) ∨ Dead c0 s c5 i :=
      fun c5 h5 => (ih c5 h5 (by omega)).1
    by_cases hel : ∃ m, (c, m) ∈ s.elected
    · obtain ⟨m, hm⟩ := hel
      have hE := hC.elect c m hm
      rcases Nat.lt_trichotomy (s.nodes n).vol.log.lastTerm c with hlt | heq | hgt
      · have hd := cand_case_lt hc0 h1 h2 hC h3 he hm hcT hlt IH
        refine ⟨fun i ht => ?_, fun _ _ => hd.mono_idx (Nat.succ_le_succ hE.len_le)⟩
        right
        apply hd.mono_idx
        rcases Nat.lt_or_ge (s.elen c) i with h | h
        · exact h
        · exfalso
          by_cases hi0 : i = 0
          · subst hi0
            rw [Log.termAt_zero] at ht
            have := hE.pos
            simp at ht; omega
          · exact hE.terms i (by omega) h ht
      · have hne : (s.nodes n).vol.log ≠ [] := by
          intro h0; rw [h0, Log.lastTerm_nil] at heq
          have := hE.pos; omega
        obtain ⟨hpre, hd⟩ := cand_case_eq hc0 h1 h2 hC h3 he heq hne
        have hlen : (s.nodes n).vol.log.length ≤ (s.glog c).length := by
          have := congrArg List.length hpre
          rw [List.length_take] at this; omega
        refine ⟨fun i _ => ?_, fun _ _ => hd.mono_idx (Nat.succ_le_succ hlen)⟩
        by_cases hi : i ≤ (s.nodes n).vol.log.length
        · left
          conv => lhs; rw [← hpre]
          rw [List.take_take, Nat.min_eq_left hi]
        · exact Or.inr (hd.mono_idx (by omega))
      · exact cand_case_gt hc0 h1 h2 hC h3 he hgt
    · have hg0 : s.glog c = [] := h2.glog_unelected c (fun m hm => hel ⟨m, hm⟩)
      refine ⟨fun i ht => ?_, fun m hm => absurd ⟨m, hm⟩ hel⟩
      left
      have := Log.termAt_le ht
      rw [hg0] at this
      simp at this
      subst this
      simp

/-- the candidate's committed prefix lies in the ghost log of every elected term at or above the
candidate's own -/
theorem cand_H1_ge {c : Nat} {m : NodeId} (hm : (c, m) ∈ s.elected)
    (hTc : (s.nodes n).vol.term ≤ c) :
    List.take (s.nodes n).vol.commit (s.nodes n).vol.log =
      List.take (s.nodes n).vol.commit (s.glog c) := by
  rcases h3.cand_commit n (cand_role hc0 h1 h2 hC h3 he) with h0 | ⟨c3, j3, hc3, hj3, hch3, heq3⟩
  · rw [h0]; simp
  · have hpos := chosen_term_pos h1 h2 hC h3 hch3
    rw [heq3]
    exact (take_le_of_take (chosen_in_glog h1 h2 hC h3 hm (by omega) hch3) hj3).symm

/-- **election safety**: nobody was elected in the candidate's term -/
theorem cand_fresh : ∀ y, ((s.nodes n).vol.term, y) ∉ s.elected := by
  intro y hy
  have hrole := cand_role hc0 h1 h2 hC h3 he
  have hsafe := cand_safe hc0 h1 h2 hC h3 he
  have H1 := cand_H1_ge hc0 h1 h2 hC h3 he hy (Nat.le_refl _)
  have H2 := cand_H2 hc0 h1 h2 hC h3 he hy (fun c5 h5 _ => (hsafe c5 h5).1)
  have hnear := cand_near hc0 h1 h2 hC h3 he hy (hC.cand_terms n hrole) H1 H2
  obtain ⟨Q, hQ, hQv⟩ := h3.elected_quorum _ y hy
  have hq : ((s.nodes n).active c0).isQuorum q = true := by simp only [enabled] at he; exact he.2.1
  obtain ⟨v, hvq, hvQ⟩ := Conf.quorums_meet_near (cand_active_wf hc0 h1 h2 hC h3 he)
    (cfgAt_wf hc0 (hC.glog_chain _) _) hnear hq hQ
  have hv1 := cand_votes hc0 h1 h2 hC h3 he v hvq
  have hv2 := hQv v hvQ
  have hok : VerOK (s.nodes v).dur := (h1.nodes v).vers _ (by simp [versions])
  have : n = y := hok.votes_uniq _ _ _ hv1 hv2
  subst this
  exact h1.elected_notcand _ _ hy rfl hrole

omit hc0 h1 h2 hC h3 he in
/-- the smallest elected term above `T` -/
theorem min_elected_above (s : State) (T : Nat) (h : ∃ T' y, (T', y) ∈ s.elected ∧ T < T') :
    ∃ T' y, (T', y) ∈ s.elected ∧ T < T' ∧ ∀ T'' y', (T'', y') ∈ s.elected → T < T'' → T' ≤ T'' := by
  obtain ⟨T', y, hy, hT⟩ := h
  induction T' using Nat.strongRecOn generalizing y with
  | _ T' ih =>
    by_cases hmin : ∀ T'' y', (T'', y') ∈ s.elected → T < T'' → T' ≤ T''
    · exact ⟨T', y, hy, hT, hmin⟩
    · have : ∃ T'' y', (T'', y') ∈ s.elected ∧ T < T'' ∧ T'' < T' := by
        apply Classical.byContradiction
        intro hne
        apply hmin
        intro T'' y' h1 h2
        rcases Nat.lt_or_ge T'' T' with h | h
        · exact absurd ⟨T'', y', h1, h2, h⟩ hne
        · exact h
      obtain ⟨T'', y', h1, h2, h3⟩ := this
      exact ih T'' h3 y' h1 h2

/-- a candidate that wins below an already elected term: the election quorum of the smallest
elected term above blocks it -/
theorem cand_late : CandLate c0 s n := by
  intro hex
  obtain ⟨Ts, ys, hys, hTs, hmin⟩ := min_elected_above s _ hex
  have hrole := cand_role hc0 h1 h2 hC h3 he
  have hsafe := cand_safe hc0 h1 h2 hC h3 he
  have hfresh := cand_fresh hc0 h1 h2 hC h3 he
  have hterms : ∀ e ∈ (s.nodes n).vol.log, e.term < Ts := fun e he' =>
    Nat.lt_trans (hC.cand_terms n hrole e he') hTs
  have H1 := cand_H1_ge hc0 h1 h2 hC h3 he hys (Nat.le_of_lt hTs)
  have H2 := cand_H2 hc0 h1 h2 hC h3 he hys (fun c5 h5 ⟨m5, hm5⟩ => by
    have hlt : c5 < (s.nodes n).vol.term := by
      rcases Nat.lt_trichotomy c5 (s.nodes n).vol.term with h | h | h
      · exact h
      · exact absurd (h ▸ hm5) (hfresh m5)
      · have := hmin c5 m5 hm5 h; omega
    exact (hsafe c5 hlt).1)
  have hnear := cand_near hc0 h1 h2 hC h3 he hys hterms H1 H2
  obtain ⟨Q, hQ, hQv⟩ := h3.elected_quorum Ts ys hys
  refine ⟨Q, fun a ha => ?_, fun Q2 hQ2 => ?_⟩
  · have := ((h1.nodes a).vers _ (by simp [versions])).votes_le _ _ (hQv a ha)
    omega
  · obtain ⟨v, hv2, hvQ⟩ := Conf.quorums_meet_near (cand_active_wf hc0 h1 h2 hC h3 he)
      (cfgAt_wf hc0 (hC.glog_chain _) _) hnear hQ2 hQ
    exact ⟨v, hvQ, hv2⟩

end Cand

end RaftVerif.SpecR
