import RaftVerif.Model.RawNode
import RaftVerif.Proofs.WpAttr
/-!
# Proofs/Monad — reasoning about `M = StateT Raft (Except String)`

* `Runs act r a r'`   — `act` started in `r` terminates normally with result `a` in state `r'`.
* `Spec act s Q`      — partial correctness: every normal run of `act` from `s` ends in `Q`.
  (`throw` = Go panic: never `Runs`, so `Spec (throw e) s Q` is trivially true.)
* the `wp` simp set turns `Spec (do …) s Q` into a formula over the primitive operations
  (`pure`, `bind`, `get`, `set`, `modify`, `throw`, `liftP`, `if`), calls to model functions stay as
  `Spec (f args) mid Q'` and are discharged with `Spec.mono (f_spec …)`.
* `forIn` over a list: invariant rule `Spec.forIn_list`.

Core Lean only.
-/
namespace RaftVerif

/-- `act` started in `r` returns `a` and leaves state `r'` (no panic) -/
def Runs {α : Type} (act : M α) (r : Raft) (a : α) (r' : Raft) : Prop := act.run r = .ok (a, r')

/-- partial-correctness triple with an explicit start state -/
def Spec {α : Type} (act : M α) (s : Raft) (Q : α → Raft → Prop) : Prop :=
  ∀ a s', act.run s = .ok (a, s') → Q a s'

theorem Spec.iff_runs {α} (act : M α) (s : Raft) (Q : α → Raft → Prop) :
    Spec act s Q ↔ ∀ a s', Runs act s a s' → Q a s' := Iff.rfl

theorem Spec.elim {α} {act : M α} {s : Raft} {Q : α → Raft → Prop} (h : Spec act s Q)
    {a : α} {s' : Raft} (hr : act.run s = .ok (a, s')) : Q a s' := h a s' hr

theorem Spec.mono {α} {act : M α} {s : Raft} {Q Q' : α → Raft → Prop} (h : Spec act s Q)
    (hq : ∀ a s', Q a s' → Q' a s') : Spec act s Q' := fun a s' hr => hq a s' (h a s' hr)

theorem Spec.and {α} {act : M α} {s : Raft} {Q Q' : α → Raft → Prop} (h : Spec act s Q)
    (h' : Spec act s Q') : Spec act s (fun a s' => Q a s' ∧ Q' a s') :=
  fun a s' hr => ⟨h a s' hr, h' a s' hr⟩

theorem Spec.trivial {α} (act : M α) (s : Raft) : Spec act s (fun _ _ => True) := fun _ _ _ => True.intro

/-- the exact outcome of a run is itself a postcondition -/
theorem Spec.runs {α} (act : M α) (s : Raft) : Spec act s (fun a s' => Runs act s a s') := fun _ _ h => h

/-! ### primitives -/

@[wp] theorem Spec.pure_iff {α} (a : α) (s : Raft) (Q : α → Raft → Prop) :
    Spec (pure a : M α) s Q ↔ Q a s := by
  constructor
  · intro h; exact h a s rfl
  · intro h a' s' e
    simp [StateT.run, pure, StateT.pure, Except.pure] at e
    obtain ⟨rfl, rfl⟩ := e; exact h

@[wp] theorem Spec.bind_iff {α β} (x : M β) (f : β → M α) (s : Raft) (Q : α → Raft → Prop) :
    Spec (x >>= f) s Q ↔ Spec x s (fun b mid => Spec (f b) mid Q) := by
  unfold Spec
  simp only [StateT.run_bind]
  constructor
  · intro h b mid hx a s' hf
    apply h
    simp [hx, bind, Except.bind]
    exact hf
  · intro h a s' e
    cases hx : x.run s with
    | error e' => simp [hx, bind, Except.bind] at e
    | ok p =>
      obtain ⟨b, mid⟩ := p
      simp [hx, bind, Except.bind] at e
      exact h b mid hx a s' e

@[wp] theorem Spec.get_iff (s : Raft) (Q : Raft → Raft → Prop) : Spec (get : M Raft) s Q ↔ Q s s := by
  constructor
  · intro h; exact h s s rfl
  · intro h a' s' e
    simp [StateT.run, get, getThe, MonadStateOf.get, StateT.get, pure, Except.pure] at e
    obtain ⟨rfl, rfl⟩ := e; exact h

@[wp] theorem Spec.set_iff (x s : Raft) (Q : PUnit → Raft → Prop) :
    Spec (set x : M PUnit) s Q ↔ Q ⟨⟩ x := by
  constructor
  · intro h; exact h ⟨⟩ x rfl
  · intro h a' s' e
    simp [StateT.run, set, MonadStateOf.set, StateT.set, pure, Except.pure] at e
    obtain ⟨_, rfl⟩ := e; exact h

@[wp] theorem Spec.modify_iff (g : Raft → Raft) (s : Raft) (Q : PUnit → Raft → Prop) :
    Spec (modify g : M PUnit) s Q ↔ Q ⟨⟩ (g s) := by
  constructor
  · intro h; exact h ⟨⟩ (g s) rfl
  · intro h a' s' e
    simp [StateT.run, modify, modifyGet, MonadStateOf.modifyGet, StateT.modifyGet, pure, Except.pure] at e
    obtain ⟨_, rfl⟩ := e; exact h

@[wp] theorem Spec.throw_iff {α} (e : String) (s : Raft) (Q : α → Raft → Prop) :
    Spec (throw e : M α) s Q ↔ True := by
  simp [Spec, StateT.run, throw, throwThe, MonadExceptOf.throw, StateT.lift, Except.bind, bind]

@[wp] theorem Spec.liftP_iff {α} (x : P α) (s : Raft) (Q : α → Raft → Prop) :
    Spec (liftP x) s Q ↔ ∀ a, x = .ok a → Q a s := by
  cases x with
  | error e => simp [liftP, Spec.throw_iff]
  | ok a => simp [liftP, Spec.pure_iff]

@[wp] theorem Spec.ite_iff {α} (c : Prop) [Decidable c] (x y : M α) (s : Raft) (Q : α → Raft → Prop) :
    Spec (if c then x else y) s Q ↔ (c → Spec x s Q) ∧ (¬ c → Spec y s Q) := by
  by_cases h : c <;> simp [h]

theorem Spec.map_iff {α β} (g : β → α) (x : M β) (s : Raft) (Q : α → Raft → Prop) :
    Spec (g <$> x) s Q ↔ Spec x s (fun b mid => Q (g b) mid) := by
  rw [map_eq_pure_bind, Spec.bind_iff]
  simp only [Spec.pure_iff]

/-- sequencing with a known postcondition of the first action -/
theorem Spec.bind_of {α β} {x : M β} {f : β → M α} {s : Raft} {P : β → Raft → Prop}
    {Q : α → Raft → Prop} (hx : Spec x s P) (hf : ∀ b mid, P b mid → Spec (f b) mid Q) :
    Spec (x >>= f) s Q := (Spec.bind_iff x f s Q).2 (hx.mono hf)

/-! ### `Runs` view of the same facts (for readers who prefer the relational form) -/

theorem Runs.pure_iff {α} (a b : α) (s s' : Raft) : Runs (pure a : M α) s b s' ↔ b = a ∧ s' = s := by
  simp [Runs, StateT.run, pure, StateT.pure, Except.pure, eq_comm]

theorem Runs.bind_iff {α β} (x : M β) (f : β → M α) (s s' : Raft) (a : α) :
    Runs (x >>= f) s a s' ↔ ∃ b mid, Runs x s b mid ∧ Runs (f b) mid a s' := by
  unfold Runs
  simp only [StateT.run_bind]
  cases hx : x.run s with
  | error e' => simp [bind, Except.bind]
  | ok p =>
    obtain ⟨b, mid⟩ := p
    simp only [bind, Except.bind, Except.ok.injEq, Prod.mk.injEq]
    constructor
    · intro h; exact ⟨b, mid, ⟨rfl, rfl⟩, h⟩
    · rintro ⟨_, _, ⟨rfl, rfl⟩, h⟩; exact h

theorem Runs.throw_iff {α} (e : String) (s s' : Raft) (a : α) : Runs (throw e : M α) s a s' ↔ False := by
  simp [Runs, StateT.run, throw, throwThe, MonadExceptOf.throw, StateT.lift, Except.bind, bind]

theorem Runs.get_iff (s s' a : Raft) : Runs (get : M Raft) s a s' ↔ a = s ∧ s' = s := by
  simp [Runs, StateT.run, get, getThe, MonadStateOf.get, StateT.get, pure, Except.pure, eq_comm]

theorem Runs.set_iff (x s s' : Raft) (a : PUnit) : Runs (set x : M PUnit) s a s' ↔ s' = x := by
  simp [Runs, StateT.run, set, MonadStateOf.set, StateT.set, pure, Except.pure, eq_comm]

theorem Runs.modify_iff (g : Raft → Raft) (s s' : Raft) (a : PUnit) :
    Runs (modify g : M PUnit) s a s' ↔ s' = g s := by
  simp [Runs, StateT.run, modify, modifyGet, MonadStateOf.modifyGet, StateT.modifyGet, pure, Except.pure, eq_comm]

/-! ### `for x in l do …` -/

/-- generic loop rule: an invariant over (loop variable, state) established at entry and kept by
every iteration (whether the body `yield`s or `done`s) holds at exit -/
theorem Spec.forIn_list {γ β : Type} (l : List γ) (init : β) (body : γ → β → M (ForInStep β))
    (Inv : β → Raft → Prop) (s : Raft) (h0 : Inv init s)
    (hstep : ∀ x, x ∈ l → ∀ b mid, Inv b mid → Spec (body x b) mid (fun st s' => Inv st.value s')) :
    Spec (forIn l init body) s (fun b s' => Inv b s') := by
  induction l generalizing init s with
  | nil => simp only [List.forIn_nil, Spec.pure_iff]; exact h0
  | cons x xs ih =>
    simp only [List.forIn_cons, Spec.bind_iff]
    refine (hstep x (List.mem_cons_self) init s h0).mono ?_
    intro st mid hst
    cases st with
    | done b => simp only [Spec.pure_iff]; exact hst
    | yield b =>
      exact ih b mid hst (fun y hy => hstep y (List.mem_cons_of_mem _ hy))

/-- loop rule for a state relation `R` (reflexive, transitive) kept by every iteration -/
theorem Spec.forIn_list_rel {γ β : Type} (l : List γ) (init : β) (body : γ → β → M (ForInStep β))
    (R : Raft → Raft → Prop) (hrefl : ∀ s, R s s) (htrans : ∀ a b c, R a b → R b c → R a c) (s : Raft)
    (hstep : ∀ x, x ∈ l → ∀ b mid, Spec (body x b) mid (fun _ s' => R mid s')) :
    Spec (forIn l init body) s (fun _ s' => R s s') :=
  Spec.forIn_list l init body (fun _ s' => R s s') s (hrefl s)
    (fun x hx b mid hmid => (hstep x hx b mid).mono (fun _ _ h => htrans _ _ _ hmid h))

end RaftVerif

namespace RaftVerif

/-! ### total correctness: `Tot act s Q` — `act` runs normally from `s` and ends in `Q` -/

def Tot {α : Type} (act : M α) (s : Raft) (Q : α → Raft → Prop) : Prop :=
  ∃ a s', act.run s = .ok (a, s') ∧ Q a s'

theorem Tot.run_eq {α} {act : M α} {s s' : Raft} {a : α} (h : Tot act s (fun b t => b = a ∧ t = s')) :
    act.run s = .ok (a, s') := by
  obtain ⟨b, t, hr, rfl, rfl⟩ := h; exact hr

@[tot] theorem Tot.pure_iff {α} (a : α) (s : Raft) (Q : α → Raft → Prop) : Tot (pure a : M α) s Q ↔ Q a s := by
  constructor
  · rintro ⟨b, t, hr, hq⟩
    simp [StateT.run, pure, StateT.pure, Except.pure] at hr
    obtain ⟨rfl, rfl⟩ := hr; exact hq
  · intro h; exact ⟨a, s, rfl, h⟩

@[tot] theorem Tot.bind_iff {α β} (x : M β) (f : β → M α) (s : Raft) (Q : α → Raft → Prop) :
    Tot (x >>= f) s Q ↔ Tot x s (fun b mid => Tot (f b) mid Q) := by
  unfold Tot
  simp only [StateT.run_bind]
  constructor
  · rintro ⟨a, s', hr, hq⟩
    cases hx : x.run s with
    | error e => simp [hx, bind, Except.bind] at hr
    | ok p =>
      obtain ⟨b, mid⟩ := p
      simp [hx, bind, Except.bind] at hr
      exact ⟨b, mid, rfl, a, s', hr, hq⟩
  · rintro ⟨b, mid, hx, a, s', hf, hq⟩
    refine ⟨a, s', ?_, hq⟩
    simp [hx, bind, Except.bind]
    exact hf

@[tot] theorem Tot.get_iff (s : Raft) (Q : Raft → Raft → Prop) : Tot (get : M Raft) s Q ↔ Q s s := by
  constructor
  · rintro ⟨b, t, hr, hq⟩
    simp [StateT.run, get, getThe, MonadStateOf.get, StateT.get, pure, Except.pure] at hr
    obtain ⟨rfl, rfl⟩ := hr; exact hq
  · intro h; exact ⟨s, s, rfl, h⟩

@[tot] theorem Tot.set_iff (x s : Raft) (Q : PUnit → Raft → Prop) : Tot (set x : M PUnit) s Q ↔ Q ⟨⟩ x := by
  constructor
  · rintro ⟨b, t, hr, hq⟩
    simp [StateT.run, set, MonadStateOf.set, StateT.set, pure, Except.pure] at hr
    obtain ⟨_, rfl⟩ := hr; exact hq
  · intro h; exact ⟨⟨⟩, x, rfl, h⟩

@[tot] theorem Tot.modify_iff (g : Raft → Raft) (s : Raft) (Q : PUnit → Raft → Prop) :
    Tot (modify g : M PUnit) s Q ↔ Q ⟨⟩ (g s) := by
  constructor
  · rintro ⟨b, t, hr, hq⟩
    simp [StateT.run, modify, modifyGet, MonadStateOf.modifyGet, StateT.modifyGet, pure, Except.pure] at hr
    obtain ⟨_, rfl⟩ := hr; exact hq
  · intro h; exact ⟨⟨⟩, g s, rfl, h⟩

@[tot] theorem Tot.throw_iff {α} (e : String) (s : Raft) (Q : α → Raft → Prop) : Tot (throw e : M α) s Q ↔ False := by
  simp [Tot, StateT.run, throw, throwThe, MonadExceptOf.throw, StateT.lift, Except.bind, bind]

@[tot] theorem Tot.liftP_iff {α} (x : P α) (s : Raft) (Q : α → Raft → Prop) :
    Tot (liftP x) s Q ↔ ∃ a, x = .ok a ∧ Q a s := by
  cases x with
  | error e => simp [liftP, Tot.throw_iff]
  | ok a => simp [liftP, Tot.pure_iff]

@[tot] theorem Tot.ite_iff {α} (c : Prop) [Decidable c] (x y : M α) (s : Raft) (Q : α → Raft → Prop) :
    Tot (if c then x else y) s Q ↔ (c ∧ Tot x s Q) ∨ (¬ c ∧ Tot y s Q) := by
  by_cases h : c <;> simp [h]

/-- a total run satisfies every partial-correctness postcondition -/
theorem Tot.of_spec {α} {act : M α} {s : Raft} {Q Q' : α → Raft → Prop} (ht : Tot act s Q) (hs : Spec act s Q') :
    Tot act s (fun a s' => Q a s' ∧ Q' a s') := by
  obtain ⟨a, s', hr, hq⟩ := ht
  exact ⟨a, s', hr, hq, hs a s' hr⟩

end RaftVerif

namespace RaftVerif
-- from here on `Spec` is opaque to `intro`/`simp`; use `Spec.iff_runs` to open it
attribute [irreducible] Spec
end RaftVerif
