import RaftVerif.Proofs.NoPanicStep
import RaftVerif.Proofs.NoPanicCond
import RaftVerif.Proofs.NoPanicLead
/-!
# Proofs/NoPanicKeeps — `NPInv` is preserved by delivery, `campaign`, `tick`, `propose` (four of the five fields of
`NPKeeps`; the sync round is missing)
-/
set_option linter.unusedSimpArgs false
namespace RaftVerif.NoPanicP
open Raft C14 Sim Refine Simulation

/-- from the relation `LPRel` and `KeepsProg` of the new state to `NPInv` -/
theorem npinv_of_lp {n : Nat} {ents : List Entry} {r r' : Raft} (hid : r.cfg.id = n) (h : LPRel n ents r r')
    (hnp : NPInv n r) (hents : ∃ d, ents = [{ data := d }]) (hprog : KeepsProg r') : NPInv n r' := by
  refine ⟨h.lead hnp.lead, fun x hx => ?_, fun x hx => ?_, hprog⟩
  · rcases h.mem_msgs x hx with h1 | h1
    · exact hnp.props x h1
    · intro hp; obtain ⟨d, hd⟩ := hents; exact ⟨d, by rw [h1.1 hp, hd]⟩
  · rcases h.mem_msgs x hx with h1 | h1
    · exact hnp.hbr x h1
    · intro hp; rw [hid] at h1; exact h1.2 hp

theorem npinv_tick {val : Val} {voters : List Id} {n : Nat} {s : Spec.State} {r r' : Raft}
    (hinv : RaftInv val voters n r (s.nodes n) s.msgs) (hnp : NPInv n r)
    (h : Raft.tick.run r = .ok ((), r')) : NPInv n r' :=
  npinv_of_lp hinv.st.id ((tick_lp n hinv.st.idnz [{}] r).elim h) hnp ⟨none, rfl⟩
    ((tick_keeps_prog hinv hnp.prog).elim h)

theorem npinv_hup {val : Val} {voters : List Id} {n : Nat} {s : Spec.State} {r r' : Raft} {e : Option StepErr}
    (hinv : RaftInv val voters n r (s.nodes n) s.msgs) (hnp : NPInv n r)
    (h : (Raft.step Raft.stepFuel { typ := .hup }).run r = .ok (e, r')) : NPInv n r' :=
  npinv_of_lp hinv.st.id
    ((step_lp n hinv.st.idnz Raft.stepFuel { typ := .hup } [{}] r (by simp) (by simp)).elim h) hnp ⟨none, rfl⟩
    ((hup_keeps_prog hinv 2 { typ := .hup } rfl rfl hnp.prog).elim h)

theorem npinv_propose {val : Val} {voters : List Id} {n : Nat} {s : Spec.State} {r r' : Raft}
    {e : Option StepErr} (data : Option Bytes)
    (hinv : RaftInv val voters n r (s.nodes n) s.msgs) (hnp : NPInv n r)
    (h : (Raft.step Raft.stepFuel { typ := .prop, «from» := r.cfg.id, entries := [{ data := data }] }).run r =
      .ok (e, r')) : NPInv n r' :=
  npinv_of_lp hinv.st.id
    ((step_lp n hinv.st.idnz Raft.stepFuel _ [{ data := data }] r (by simp) (fun _ => rfl)).elim h) hnp
    ⟨data, rfl⟩
    (((prop_frame hinv 2 _ rfl rfl ⟨data, rfl⟩ hnp.follLead hnp.prog).elim h).2.2.1)

theorem npinv_deliver {val : Val} {voters : List Id} {n : Nat} {s : Spec.State} {r r' : Raft} {m : Message}
    {e : Option StepErr} (hcfg : (cfgOf voters).OK) (hinv : RaftInv val voters n r (s.nodes n) s.msgs)
    (reach : Spec.Reachable (cfgOf voters) s) (hc : Covered m.typ) (hnet : NetOK val s.msgs m) (hto : m.to = n)
    (hnf : NetFrom m) (hpe : PropEntries m) (hnp : NPInv n r)
    (h : (Raft.step Raft.stepFuel m).run r = .ok (e, r')) : NPInv n r' := by
  have hfrom : m.typ = .app ∨ m.typ = .heartbeat ∨ m.typ = .snap → m.from ≠ n := by
    intro hk
    rcases hk with hk | hk | hk
    · exact covered_from_ne hto hnet hnf (Or.inr (Or.inl hk))
    · exact covered_from_ne hto hnet hnf (Or.inr (Or.inr (Or.inr (Or.inl hk))))
    · exfalso; rcases hc with hd | hd
      · unfold Deliverable at hd; rw [hk] at hd; simp at hd
      · rw [hk] at hd; cases hd
  rcases hc with hdel | hp
  · have h0 := netOK_term_ne hdel hnet
    have hents : m.typ = .prop → m.entries = [({} : Entry)] := by
      intro hk; exfalso; unfold Deliverable at hdel; rw [hk] at hdel; simp at hdel
    refine npinv_of_lp hinv.st.id ((step_lp n hinv.st.idnz Raft.stepFuel m [{}] r hfrom hents).elim h) hnp
      ⟨none, rfl⟩ ?_
    refine (keepsProg_by_term (fuel := 2) hinv reach hdel h0 hnp.prog
      (fun s1 r1 hreach1 hmsgs hinv1 ht1 hp1 => ?_)).elim h
    rcases hdel with ht | ht | ht | ht | ht | ht
    · exact vote_keeps_prog hinv1 2 m ht ht1.symm h0 hp1
    · exact voteResp_keeps_prog hinv1 2 m ht ht1.symm hp1
    · exact app_keeps_prog hinv1 2 m ht ht1.symm hp1
    · have hin : InOK val n (s1.nodes n) s1.msgs m := by rw [hmsgs]; exact hnet.inOK hto
      exact appResp_keeps_prog hinv1 2 m ht ht1.symm h0 hp1
        (fun hl hr => inOK_ack_le hinv1 hreach1 hcfg ht hin ht1.symm hl hr)
        (fun _ _ => covered_from_ne hto hnet hnf (Or.inr (Or.inr (Or.inl ht))))
    · exact hb_keeps_prog hinv1 2 m ht ht1.symm hp1
    · have hctx : m.context = none := by
        have := hnet; unfold NetOK at this; simp only [ht] at this; exact this.2
      exact hbResp_keeps_prog hinv1 2 m ht ht1.symm hctx hp1
  · have h0 : m.term = 0 := by
      have := hnet; unfold NetOK at this; simp only [hp] at this; exact this
    obtain ⟨d, hd⟩ := hpe hp
    exact npinv_of_lp hinv.st.id
      ((step_lp n hinv.st.idnz Raft.stepFuel m m.entries r hfrom (fun _ => rfl)).elim h) hnp ⟨d, hd⟩
      (((prop_frame hinv 2 m hp h0 ⟨d, hd⟩ hnp.follLead hnp.prog).elim h).2.2.1)

end RaftVerif.NoPanicP
