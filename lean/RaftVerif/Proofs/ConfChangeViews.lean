import RaftVerif.Proofs.ConfChangeAccept
/-!
# Proofs/ConfChangeViews — effect of each operation (and of folds of one operation type) on the
voter / learner / staged-learner sets, as membership statements.  Used by the `Restore` round trip.
-/
namespace RaftVerif
set_option linter.unusedSimpArgs false
set_option linter.unusedVariables false

/-- `SemInv` plus: only members of `learners` carry the `isLearner` flag -/
structure RSem (cfg : TrackerConfig) (trk : ProgressMap) : Prop where
  sem : SemInv cfg trk
  flag : ∀ x pr, mapGet trk x = some pr → pr.isLearner = true → x ∈ cfg.learners.getD []

theorem op_rsem (c : Changer) (cfg : TrackerConfig) (trk : ProgressMap) (id : Id) (h : RSem cfg trk) :
    let Q : CS → Prop := fun r => RSem r.1 r.2
    Q (c.remove cfg trk id) ∧ Q (c.makeVoter cfg trk id) ∧ Q (c.makeLearner cfg trk id) := by
  intro Q
  have hflag : (let Q : CS → Prop := fun r =>
      ∀ x pr, mapGet r.2 x = some pr → pr.isLearner = true → x ∈ r.1.learners.getD []
    Q (c.remove cfg trk id) ∧ Q (c.makeVoter cfg trk id) ∧ Q (c.makeLearner cfg trk id)) := by
    intro Q
    obtain ⟨⟨h1, h2, h3, h4, h5, h6, h7, h8⟩, h9⟩ := h
    apply op_cases c cfg trk id Q <;> intros <;> simp only [Q] <;>
      first | exact h9 | (intro x pr hx hl; conf_norm; grind [freshProgress_isLearner])
  exact ⟨⟨remove_sem c id h.sem, hflag.1⟩, ⟨makeVoter_sem c id h.sem, hflag.2.1⟩,
    ⟨makeLearner_sem c id h.sem, hflag.2.2⟩⟩

/-! ### effect of each operation on the three sets, as membership statements -/

theorem remove_view (c : Changer) {cfg : TrackerConfig} {trk : ProgressMap} (id : Id) (h : RSem cfg trk) (x : Id) :
    (x ∈ (c.remove cfg trk id).1.voters ↔ x ∈ cfg.voters ∧ x ≠ id) ∧
    (x ∈ (c.remove cfg trk id).1.learners.getD [] ↔ x ∈ cfg.learners.getD [] ∧ x ≠ id) ∧
    (x ∈ (c.remove cfg trk id).1.learnersNext.getD [] ↔ x ∈ cfg.learnersNext.getD [] ∧ x ≠ id) := by
  obtain ⟨⟨h1, h2, h3, h4, h5, h6, h7, h8⟩, h9⟩ := h
  cases hg : mapGet trk id with
  | none => rw [remove_none c hg]; conf_norm; grind
  | some pr =>
    by_cases ho : id ∈ cfg.outgoing.getD []
    · rw [remove_some_out c hg ho]; conf_norm; grind
    · rw [remove_some_not_out c hg ho]; conf_norm; grind

theorem makeVoter_view (c : Changer) {cfg : TrackerConfig} {trk : ProgressMap} (id : Id) (h : RSem cfg trk) (x : Id) :
    (x ∈ (c.makeVoter cfg trk id).1.voters ↔ x = id ∨ x ∈ cfg.voters) ∧
    (x ∈ (c.makeVoter cfg trk id).1.learners.getD [] ↔ x ∈ cfg.learners.getD [] ∧ x ≠ id) ∧
    (x ∈ (c.makeVoter cfg trk id).1.learnersNext.getD [] ↔ x ∈ cfg.learnersNext.getD [] ∧ x ≠ id) := by
  obtain ⟨⟨h1, h2, h3, h4, h5, h6, h7, h8⟩, h9⟩ := h
  cases hg : mapGet trk id with
  | none => rw [makeVoter_none c hg]; conf_norm; grind
  | some pr => rw [makeVoter_some c hg]; conf_norm; grind

theorem makeLearner_view_not_out (c : Changer) {cfg : TrackerConfig} {trk : ProgressMap} (id : Id)
    (h : RSem cfg trk) (ho : id ∉ cfg.outgoing.getD []) (x : Id) :
    (x ∈ (c.makeLearner cfg trk id).1.voters ↔ x ∈ cfg.voters ∧ x ≠ id) ∧
    (x ∈ (c.makeLearner cfg trk id).1.learners.getD [] ↔ x = id ∨ x ∈ cfg.learners.getD []) ∧
    (x ∈ (c.makeLearner cfg trk id).1.learnersNext.getD [] ↔ x ∈ cfg.learnersNext.getD []) := by
  obtain ⟨⟨h1, h2, h3, h4, h5, h6, h7, h8⟩, h9⟩ := h
  cases hg : mapGet trk id with
  | none => rw [makeLearner_none c hg]; conf_norm; grind
  | some pr =>
    cases hl : pr.isLearner with
    | true => rw [makeLearner_learner c hg hl]; conf_norm; grind
    | false => rw [makeLearner_not_out c hg hl ho]; conf_norm; grind

theorem makeLearner_view_out (c : Changer) {cfg : TrackerConfig} {trk : ProgressMap} (id : Id)
    (h : RSem cfg trk) (ho : id ∈ cfg.outgoing.getD []) (hnl : id ∉ cfg.learners.getD []) (x : Id) :
    (x ∈ (c.makeLearner cfg trk id).1.voters ↔ x ∈ cfg.voters ∧ x ≠ id) ∧
    (x ∈ (c.makeLearner cfg trk id).1.learners.getD [] ↔ x ∈ cfg.learners.getD []) ∧
    (x ∈ (c.makeLearner cfg trk id).1.learnersNext.getD [] ↔ x = id ∨ x ∈ cfg.learnersNext.getD []) := by
  obtain ⟨⟨h1, h2, h3, h4, h5, h6, h7, h8⟩, h9⟩ := h
  cases hg : mapGet trk id with
  | none => exact absurd hg (h1 id (Or.inr (Or.inl ho)))
  | some pr =>
    cases hl : pr.isLearner with
    | true => exact absurd (h9 id pr hg hl) hnl
    | false => rw [makeLearner_out c hg hl ho]; conf_norm; grind

/-! ### folds over lists of changes of one type -/

def mkCC (t : ConfChangeType) (id : Id) : ConfChangeSingle := { typ := t, nodeId := id }

theorem applyStep_remove (c : Changer) (s : CS) {id : Id} (h0 : id ≠ 0) :
    applyStep c s (mkCC .removeNode id) = c.remove s.1 s.2 id := by
  unfold applyStep mkCC; simp [h0]
theorem applyStep_add (c : Changer) (s : CS) {id : Id} (h0 : id ≠ 0) :
    applyStep c s (mkCC .addNode id) = c.makeVoter s.1 s.2 id := by
  unfold applyStep mkCC; simp [h0]
theorem applyStep_learner (c : Changer) (s : CS) {id : Id} (h0 : id ≠ 0) :
    applyStep c s (mkCC .addLearnerNode id) = c.makeLearner s.1 s.2 id := by
  unfold applyStep mkCC; simp [h0]

theorem fold_removes (c : Changer) (l : List Id) (s : CS) (h : RSem s.1 s.2) (hz : ∀ id ∈ l, id ≠ 0) :
    RSem ((l.map (mkCC .removeNode)).foldl (applyStep c) s).1 ((l.map (mkCC .removeNode)).foldl (applyStep c) s).2 ∧
    ∀ x, (x ∈ ((l.map (mkCC .removeNode)).foldl (applyStep c) s).1.voters ↔ x ∈ s.1.voters ∧ x ∉ l) ∧
      (x ∈ ((l.map (mkCC .removeNode)).foldl (applyStep c) s).1.learners.getD [] ↔ x ∈ s.1.learners.getD [] ∧ x ∉ l) ∧
      (x ∈ ((l.map (mkCC .removeNode)).foldl (applyStep c) s).1.learnersNext.getD [] ↔
        x ∈ s.1.learnersNext.getD [] ∧ x ∉ l) := by
  induction l generalizing s with
  | nil => simp; exact h
  | cons a t ih =>
    have ha : a ≠ 0 := hz a (by simp)
    simp only [List.map_cons, List.foldl_cons, applyStep_remove c s ha]
    have h' := (op_rsem c s.1 s.2 a h).1
    obtain ⟨i1, i2⟩ := ih (c.remove s.1 s.2 a) h' (fun id hid => hz id (List.mem_cons_of_mem _ hid))
    refine ⟨i1, fun x => ?_⟩
    have v := remove_view c a h x
    have := i2 x
    simp only [List.mem_cons]
    grind

theorem fold_adds (c : Changer) (l : List Id) (s : CS) (h : RSem s.1 s.2) (hz : ∀ id ∈ l, id ≠ 0) :
    RSem ((l.map (mkCC .addNode)).foldl (applyStep c) s).1 ((l.map (mkCC .addNode)).foldl (applyStep c) s).2 ∧
    ∀ x, (x ∈ ((l.map (mkCC .addNode)).foldl (applyStep c) s).1.voters ↔ x ∈ l ∨ x ∈ s.1.voters) ∧
      (x ∈ ((l.map (mkCC .addNode)).foldl (applyStep c) s).1.learners.getD [] ↔ x ∈ s.1.learners.getD [] ∧ x ∉ l) ∧
      (x ∈ ((l.map (mkCC .addNode)).foldl (applyStep c) s).1.learnersNext.getD [] ↔
        x ∈ s.1.learnersNext.getD [] ∧ x ∉ l) := by
  induction l generalizing s with
  | nil => simp; exact h
  | cons a t ih =>
    have ha : a ≠ 0 := hz a (by simp)
    simp only [List.map_cons, List.foldl_cons, applyStep_add c s ha]
    have h' := (op_rsem c s.1 s.2 a h).2.1
    obtain ⟨i1, i2⟩ := ih (c.makeVoter s.1 s.2 a) h' (fun id hid => hz id (List.mem_cons_of_mem _ hid))
    refine ⟨i1, fun x => ?_⟩
    have v := makeVoter_view c a h x
    have := i2 x
    simp only [List.mem_cons]
    grind

theorem makeLearner_outgoing (c : Changer) (cfg : TrackerConfig) (trk : ProgressMap) (id : Id) :
    (c.makeLearner cfg trk id).1.outgoing = cfg.outgoing := (op_outgoing c cfg trk id).2.2.1

theorem fold_learners_not_out (c : Changer) (l : List Id) (s : CS) (h : RSem s.1 s.2) (hz : ∀ id ∈ l, id ≠ 0)
    (ho : ∀ id ∈ l, id ∉ s.1.outgoing.getD []) :
    RSem ((l.map (mkCC .addLearnerNode)).foldl (applyStep c) s).1
      ((l.map (mkCC .addLearnerNode)).foldl (applyStep c) s).2 ∧
    ∀ x, (x ∈ ((l.map (mkCC .addLearnerNode)).foldl (applyStep c) s).1.voters ↔ x ∈ s.1.voters ∧ x ∉ l) ∧
      (x ∈ ((l.map (mkCC .addLearnerNode)).foldl (applyStep c) s).1.learners.getD [] ↔
        x ∈ l ∨ x ∈ s.1.learners.getD []) ∧
      (x ∈ ((l.map (mkCC .addLearnerNode)).foldl (applyStep c) s).1.learnersNext.getD [] ↔
        x ∈ s.1.learnersNext.getD []) := by
  induction l generalizing s with
  | nil => simp; exact h
  | cons a t ih =>
    have ha : a ≠ 0 := hz a (by simp)
    simp only [List.map_cons, List.foldl_cons, applyStep_learner c s ha]
    have h' := (op_rsem c s.1 s.2 a h).2.2
    have ho' : ∀ id ∈ t, id ∉ (c.makeLearner s.1 s.2 a).1.outgoing.getD [] := by
      intro id hid; rw [makeLearner_outgoing]; exact ho id (List.mem_cons_of_mem _ hid)
    obtain ⟨i1, i2⟩ := ih (c.makeLearner s.1 s.2 a) h' (fun id hid => hz id (List.mem_cons_of_mem _ hid)) ho'
    refine ⟨i1, fun x => ?_⟩
    have v := makeLearner_view_not_out c a h (ho a (by simp)) x
    have := i2 x
    simp only [List.mem_cons]
    grind

theorem fold_learners_out (c : Changer) (l : List Id) (s : CS) (h : RSem s.1 s.2) (hz : ∀ id ∈ l, id ≠ 0)
    (ho : ∀ id ∈ l, id ∈ s.1.outgoing.getD [] ∧ id ∉ s.1.learners.getD []) :
    RSem ((l.map (mkCC .addLearnerNode)).foldl (applyStep c) s).1
      ((l.map (mkCC .addLearnerNode)).foldl (applyStep c) s).2 ∧
    ∀ x, (x ∈ ((l.map (mkCC .addLearnerNode)).foldl (applyStep c) s).1.voters ↔ x ∈ s.1.voters ∧ x ∉ l) ∧
      (x ∈ ((l.map (mkCC .addLearnerNode)).foldl (applyStep c) s).1.learners.getD [] ↔
        x ∈ s.1.learners.getD []) ∧
      (x ∈ ((l.map (mkCC .addLearnerNode)).foldl (applyStep c) s).1.learnersNext.getD [] ↔
        x ∈ l ∨ x ∈ s.1.learnersNext.getD []) := by
  induction l generalizing s with
  | nil => simp; exact h
  | cons a t ih =>
    have ha : a ≠ 0 := hz a (by simp)
    simp only [List.map_cons, List.foldl_cons, applyStep_learner c s ha]
    have h' := (op_rsem c s.1 s.2 a h).2.2
    obtain ⟨hao, hal⟩ := ho a (by simp)
    have ho' : ∀ id ∈ t, id ∈ (c.makeLearner s.1 s.2 a).1.outgoing.getD [] ∧
        id ∉ (c.makeLearner s.1 s.2 a).1.learners.getD [] := by
      intro id hid
      rw [makeLearner_outgoing, (makeLearner_view_out c a h hao hal id).2.1]
      exact ho id (List.mem_cons_of_mem _ hid)
    obtain ⟨i1, i2⟩ := ih (c.makeLearner s.1 s.2 a) h' (fun id hid => hz id (List.mem_cons_of_mem _ hid)) ho'
    refine ⟨i1, fun x => ?_⟩
    have v := makeLearner_view_out c a h hao hal x
    have := i2 x
    simp only [List.mem_cons]
    grind

end RaftVerif
