import RaftVerif.Proofs.SimCorLeader
/-!
# Proofs/SimCorDur — promises on the network are covered by the sender's stable storage
-/
namespace RaftVerif.SimCorP
open Sim Refine Simulation

/-- `hasAck` unfolded -/
theorem hasAck_elim {msgs : List Spec.Msg} {t v c : Nat} (h : Spec.hasAck msgs t v c = true) :
    ∃ k, c ≤ k ∧ Spec.Msg.ack t v k ∈ msgs := by
  unfold Spec.hasAck at h
  rw [List.any_eq_true] at h
  obtain ⟨x, hx, hp⟩ := h
  cases x with
  | ack t' v' k =>
    simp only [Bool.and_eq_true, beq_iff_eq, decide_eq_true_eq] at hp
    obtain ⟨⟨rfl, rfl⟩, hk⟩ := hp
    exact ⟨k, hk, hx⟩
  | _ => simp at hp

/-- **vote durability**: a granting `MsgVoteResp` on the network is covered by the stored hard state of its sender -/
theorem vote_durable_net {voters : List Id} {c0 c : Cluster} (h : Setting voters c0 c)
    {m : Message} (hm : m ∈ c.net) (hty : m.typ = .voteResp) (hrej : m.reject = false)
    {rn : RawNode} (hv : c.nodes m.from = some rn) :
    (hsOf rn true).term > m.term ∨ ((hsOf rn true).term = m.term ∧ (hsOf rn true).vote = m.to) := by
  obtain ⟨s, hs, hR⟩ := h.related (fun _ _ => 0)
  have hnet := hR.rs.ra.base.net m hm
  unfold NetOK at hnet
  simp only [hty] at hnet
  have V := viewOK hR hv true
  have := Spec.vote_durable _ h.cfgOK s hs m.term m.from m.to (hnet.2.2 hrej)
  rw [← V.term, ← V.vote]
  exact this

/-- **ack durability**: an accepting `MsgAppResp` with index `≥ 1` on the network: the sender's stored term is at
least the term of the message; if it is equal, the storage holds the acknowledged prefix, and that prefix is the
prefix of the log of the Spec leader of that term -/
theorem ack_durable_abs {val : Val} {voters : List Id} {c0 c : Cluster} (h : Setting voters c0 c)
    {s : Spec.State} (hs : Spec.Reachable (cfgOf voters) s) (hR : RSD val voters c s)
    {m : Message} (hm : m ∈ c.net) (hty : m.typ = .appResp) (hrej : m.reject = false) (hi : 1 ≤ m.index)
    {rn : RawNode} (hv : c.nodes m.from = some rn) :
    m.term ≤ (hsOf rn true).term ∧ ((hsOf rn true).term = m.term →
      m.index ≤ (entsOf rn true).length ∧
      ((entsOf rn true).map (absEnt val)).take m.index = (s.glog m.term).take m.index) := by
  have hnet := hR.rs.ra.base.net m hm
  unfold NetOK at hnet
  simp only [hty] at hnet
  have V := viewOK hR hv true
  rcases hnet.2.2 hrej with h0 | hack
  · omega
  obtain ⟨k, hk, hmem⟩ := hasAck_elim hack
  have hdur := Spec.ack_durable _ h.cfgOK s hs m.term m.from k hmem (by omega)
  have Vt : (s.nodes m.from).dur.term = (hsOf rn true).term := V.term
  have Vl : (s.nodes m.from).dur.log = (entsOf rn true).map (absEnt val) := V.log
  refine ⟨by rw [← Vt]; exact hdur, fun heq => ?_⟩
  have hi3 := Spec.inv3_reachable _ h.cfgOK s hs
  rcases hi3.ack_msg m.term m.from k hmem with h0 | hacks
  · omega
  have hterm : (s.nodes m.from).dur.term = m.term := by rw [Vt]; exact heq
  have hsame := hi3.ack_same m.from _ (by simp [Spec.versions] : (s.nodes m.from).dur ∈ _) k (by rw [hterm]; exact hacks)
  have hbound := hi3.ack_bound m.from _ (by simp [Spec.versions] : (s.nodes m.from).dur ∈ _) m.term k hacks
  rw [hterm, Vl] at hsame
  have hlen : k ≤ (entsOf rn true).length := by
    have := congrArg List.length hsame
    simp only [List.length_take, List.length_map] at this
    omega
  refine ⟨by omega, ?_⟩
  have := congrArg (List.take m.index) hsame
  rwa [List.take_take, List.take_take, Nat.min_eq_left hk] at this

/-- **ack durability, concrete form** -/
theorem ack_durable_net {voters : List Id} {c0 c : Cluster} (h : Setting voters c0 c)
    {m : Message} (hm : m ∈ c.net) (hty : m.typ = .appResp) (hrej : m.reject = false) (hi : 1 ≤ m.index)
    {rn : RawNode} (hv : c.nodes m.from = some rn) :
    m.term ≤ (hsOf rn true).term ∧ ((hsOf rn true).term = m.term → m.index ≤ (entsOf rn true).length) := by
  obtain ⟨s, hs, hR⟩ := h.related (fun _ _ => 0)
  obtain ⟨h1, h2⟩ := ack_durable_abs h hs hR hm hty hrej hi hv
  exact ⟨h1, fun heq => (h2 heq).1⟩

/-- **an acknowledgement means a match with the leader**: while the sender's stored term is still the term of the
acknowledgement and a leader of that term is alive, the sender's storage agrees with the leader's log on the
acknowledged prefix -/
theorem ack_matches_leader {voters : List Id} {c0 c : Cluster} (h : Setting voters c0 c)
    {m : Message} (hm : m ∈ c.net) (hty : m.typ = .appResp) (hrej : m.reject = false)
    {rn : RawNode} (hv : c.nodes m.from = some rn) (hst : (hsOf rn true).term = m.term)
    {l : Nat} {rl : RawNode} (hl : c.nodes l = some rl) (hlead : rl.raft.state = .leader)
    (hlt : rl.raft.term = m.term) {j : Nat} (hj : 1 ≤ j) (hjm : j ≤ m.index) :
    ∃ x y, rl.raft.log.abs.ents[j - 1]? = some x ∧ (entsOf rn true)[j - 1]? = some y ∧
      x.term = y.term ∧ x.typ = y.typ ∧ x.data = y.data ∧ x.index = j ∧ y.index = j := by
  have hi : 1 ≤ m.index := by omega
  have hlen := ((ack_durable_net h hm hty hrej hi hv).2 hst)
  have hlb : j - 1 < (entsOf rn true).length := by omega
  obtain ⟨y, hy⟩ : ∃ y, (entsOf rn true)[j - 1]? = some y := ⟨_, List.getElem?_eq_getElem hlb⟩
  obtain ⟨s, hs, hR⟩ := h.related (valFor y)
  obtain ⟨_, h2⟩ := ack_durable_abs h hs hR hm hty hrej hi hv
  have htk := (h2 hst).2
  obtain ⟨_, hglog⟩ := leader_facts h hs hR hl hlead
  rw [← hlt, hglog] at htk
  have key := take_getElem htk (k := j - 1) (by omega)
  rw [hy] at key
  cases hx : (entsOf rl false)[j - 1]? with
  | none => rw [hx] at key; simp at key
  | some x =>
    rw [hx] at key
    simp only [Option.map_some, Option.some.injEq] at key
    obtain ⟨k1, k2, k3⟩ := valFor_sep key
    have ix := ents_index hR hl false hx
    have iy := ents_index hR hv true hy
    exact ⟨x, y, hx, hy, k1.symm, k2.symm, k3.symm, by omega, by omega⟩

end RaftVerif.SimCorP
