import RaftVerif.Proofs.SimAppResp
import RaftVerif.Proofs.SimAux
/-!
# Proofs/SimAppRespAux — a same-term MsgAppResp keeps the auxiliary invariant `AuxInv`

* `ToOK s s'` — `cfg` fixed and every message appended to `msgs` is addressed to another node (`send` panics on a
  self-addressed non-promise message); kept by all the sending functions and by `stepLeader` on MsgAppResp.
* `appResp_leader_shape` — the leader's handler: one progress overwritten (`Match` old, or the acknowledged index),
  maybe the commit index moved, then only sends (`Sends`).
* `aux_appResp_same`.
-/
namespace RaftVerif.Sim
open Refine
open Raft
set_option linter.unusedSimpArgs false
set_option linter.unusedVariables false

/-- `cfg` is what it was and every message appended to `msgs` is addressed to another node -/
structure ToOK (s s' : Raft) : Prop where
  cfg : s'.cfg = s.cfg
  msgs : ∃ added, s'.msgs = s.msgs ++ added ∧ ∀ x ∈ added, x.to ≠ s.cfg.id

theorem ToOK.refl (s : Raft) : ToOK s s := ⟨rfl, [], by simp, by simp⟩

theorem ToOK.trans {a b c : Raft} (h1 : ToOK a b) (h2 : ToOK b c) : ToOK a c := by
  obtain ⟨ad1, m1, p1⟩ := h1.msgs
  obtain ⟨ad2, m2, p2⟩ := h2.msgs
  refine ⟨h2.cfg.trans h1.cfg, ad1 ++ ad2, by rw [m2, m1, List.append_assoc], ?_⟩
  intro x hx
  rcases List.mem_append.1 hx with hx | hx
  · exact p1 x hx
  · rw [← h1.cfg]; exact p2 x hx

instance : RelOK ToOK := ⟨ToOK.refl, ToOK.trans⟩

theorem ToOK.of_eq {s x : Raft} (h1 : x.cfg = s.cfg) (h2 : x.msgs = s.msgs) : ToOK s x :=
  ⟨h1, [], by simp [h2], by simp⟩

macro_rules | `(tactic| rel_fields) => `(tactic| exact ToOK.of_eq rfl rfl)

/-- registered `ToOK` call rules -/
syntax "to_step" : tactic

theorem send_toOK (m : Message) (s : Raft) : Spec (send m) s (fun _ s' => ToOK s s') := by
  unfold Raft.send
  simp only [wp]
  obtain ⟨typ, to, frm, term, logTerm, index, entries, commit, vote, snapshot, reject, rejectHint, context, responses⟩ := m
  by_cases hf : frm = 0 <;> cases typ <;> simp [hf]
  all_goals first
    | (intros; exact ToOK.of_eq rfl rfl)
    | (intros
       refine ⟨rfl, [_], rfl, ?_⟩
       intro x hx
       simp only [List.mem_singleton] at hx
       subst hx
       assumption)

macro_rules | `(tactic| to_step) => `(tactic| rel_call (send_toOK ..))

theorem maybeSendSnapshot_toOK (to : Id) (pr : Progress) (s : Raft) :
    Spec (maybeSendSnapshot to pr) s (fun _ s' => ToOK s s') := by
  unfold maybeSendSnapshot
  rel_start
  wp_auto [to_step]
macro_rules | `(tactic| to_step) => `(tactic| rel_call (maybeSendSnapshot_toOK ..))

theorem maybeSendAppend_toOK (to : Id) (b : Bool) (s : Raft) :
    Spec (maybeSendAppend to b) s (fun _ s' => ToOK s s') := by
  unfold maybeSendAppend
  rel_start
  wp_auto [to_step]
macro_rules | `(tactic| to_step) => `(tactic| rel_call (maybeSendAppend_toOK ..))

theorem sendAppendLoop_toOK (fuel : Nat) (to : Id) (s : Raft) :
    Spec (sendAppendLoop fuel to) s (fun _ s' => ToOK s s') := by
  induction fuel generalizing s with
  | zero => unfold sendAppendLoop; rel_start; wp_auto [to_step]
  | succ n ih =>
    unfold sendAppendLoop
    rel_start
    wp_auto [first | to_step | rel_call (ih ..)]
macro_rules | `(tactic| to_step) => `(tactic| rel_call (sendAppendLoop_toOK ..))

theorem bcastAppend_toOK (s : Raft) : Spec bcastAppend s (fun _ s' => ToOK s s') := by
  unfold bcastAppend
  rel_start
  wp_auto [first | to_step | rel_loop ToOK]
macro_rules | `(tactic| to_step) => `(tactic| rel_call (bcastAppend_toOK ..))

theorem maybeCommit_toOK (s : Raft) : Spec maybeCommit s (fun _ s' => ToOK s s') := by
  unfold maybeCommit
  rel_start
  wp_auto [to_step]
macro_rules | `(tactic| to_step) => `(tactic| rel_call (maybeCommit_toOK ..))

theorem responseToReadIndexReq_toOK (req : Message) (i : Nat) (s : Raft) :
    Spec (responseToReadIndexReq req i) s (fun _ s' => ToOK s s') := by
  unfold responseToReadIndexReq
  rel_start
  wp_auto [to_step]
macro_rules | `(tactic| to_step) => `(tactic| rel_call (responseToReadIndexReq_toOK ..))

theorem sendReadIndexResp_toOK (req : Message) (i : Nat) (s : Raft) :
    Spec (sendReadIndexResp req i) s (fun _ s' => ToOK s s') := by
  unfold sendReadIndexResp
  rel_start
  wp_auto [to_step]
macro_rules | `(tactic| to_step) => `(tactic| rel_call (sendReadIndexResp_toOK ..))

theorem sendHeartbeat_toOK (to : Id) (ctx : Option Bytes) (s : Raft) :
    Spec (sendHeartbeat to ctx) s (fun _ s' => ToOK s s') := by
  unfold sendHeartbeat
  rel_start
  wp_auto [to_step]
macro_rules | `(tactic| to_step) => `(tactic| rel_call (sendHeartbeat_toOK ..))

theorem bcastHeartbeatWithCtx_toOK (ctx : Option Bytes) (s : Raft) :
    Spec (bcastHeartbeatWithCtx ctx) s (fun _ s' => ToOK s s') := by
  unfold bcastHeartbeatWithCtx
  rel_start
  wp_auto [first | to_step | rel_loop ToOK]
macro_rules | `(tactic| to_step) => `(tactic| rel_call (bcastHeartbeatWithCtx_toOK ..))

theorem bcastHeartbeat_toOK (s : Raft) : Spec bcastHeartbeat s (fun _ s' => ToOK s s') := by
  unfold bcastHeartbeat
  rel_start
  wp_auto [to_step]
macro_rules | `(tactic| to_step) => `(tactic| rel_call (bcastHeartbeat_toOK ..))

theorem sendMsgReadIndexResponse_toOK (m : Message) (s : Raft) :
    Spec (sendMsgReadIndexResponse m) s (fun _ s' => ToOK s s') := by
  unfold sendMsgReadIndexResponse
  rel_start
  wp_auto [to_step]
macro_rules | `(tactic| to_step) => `(tactic| rel_call (sendMsgReadIndexResponse_toOK ..))

theorem releasePendingReadIndexMessages_toOK (s : Raft) :
    Spec releasePendingReadIndexMessages s (fun _ s' => ToOK s s') := by
  unfold releasePendingReadIndexMessages
  rel_start
  wp_auto [first | to_step | rel_loop ToOK]
macro_rules | `(tactic| to_step) => `(tactic| rel_call (releasePendingReadIndexMessages_toOK ..))

/-- **`stepLeader` on a MsgAppResp** addresses everything it queues in `msgs` to other nodes -/
theorem stepLeader_appResp_toOK (fuel : Nat) (m : Message) (s : Raft) (hm : m.typ = .appResp) :
    Spec (stepLeader fuel m) s (fun _ s' => ToOK s s') := by
  rw [stepLeader]
  simp only [hm]
  rel_start
  wp_auto [first | to_step | rel_loop ToOK]

/-- **the leader's MsgAppResp handler, shape**: the sender's progress is overwritten (`Match` is the old one, or — for
an acknowledgement — `m.index`), the commit index may move, and the rest only sends -/
theorem appResp_leader_shape (val : Val) {r r' : Raft} {m : Message} {e : Option StepErr} {fuel : Nat}
    {pr : Progress} (hwf : r.log.WF) (hu : Uncompacted r.log) (hpri : r.pendingReadIndexMessages = [])
    (ht : m.typ = .appResp) (hg : r.trk.getProgress m.from = some pr)
    (h : (stepLeader fuel m).run r = .ok (e, r')) :
    ∃ X a, (X.match_ = pr.match_ ∨ (m.reject = false ∧ X.match_ = m.index)) ∧
      (a = { r with trk := r.trk.setProgress m.from X } ∨
        ∃ idx, a = Next.committedAt { r with trk := r.trk.setProgress m.from X } idx) ∧ Sends val a r' := by
  cases hrej : m.reject with
  | true =>
    rw [Live.stepLeader_appResp_reject_run fuel m r pr ht hg hrej] at h
    split at h
    · obtain ⟨p, hp, h⟩ := bind_eq_ok.1 h
      injection h with h; injection h with _ h; subst h
      obtain ⟨b, s1⟩ := p
      exact ⟨Live.afterReject pr m.index (Live.probeHint r m), _,
        Or.inl (afterReject_facts pr m.index (Live.probeHint r m)).2, Or.inl rfl,
        (maybeSendAppend_sends val m.from true
          { r with trk := r.trk.setProgress m.from (Live.afterReject pr m.index (Live.probeHint r m)) }
          hwf hu).elim hp⟩
    · injection h with h; injection h with _ h; subst h
      exact ⟨{ pr with recentActive := true }, _, Or.inl rfl, Or.inl rfl, Sends.refl val _⟩
  | false =>
    have hm1 : ∀ Y : Progress, Y.match_ = (Live.ackUpd pr m.index).1.match_ →
        Y.match_ = pr.match_ ∨ (false = false ∧ Y.match_ = m.index) := fun Y hY => by
      rcases (ackUpd_facts pr m.index).2 with h1 | h1
      · exact Or.inl (hY.trans h1)
      · exact Or.inr ⟨rfl, hY.trans h1⟩
    by_cases hc : Live.ackCond pr m.index
    · obtain ⟨b, mid, hmc, hsp⟩ := stepLeader_appResp_ack_sends val fuel m r r' e pr ht hg hrej hc h
      have k1 := (Live.ackTransition_keeps (Live.ackUpd pr m.index).1 r.log.firstIndex m.index).1
      rcases (Next.maybeCommit_exact _).elim hmc with ⟨_, rfl⟩ | ⟨_, idx, h1, h2, h3, h4, _, rfl⟩
      · exact ⟨_, Live.ackMid r m pr, hm1 _ k1, Or.inl rfl, hsp hwf hu hpri⟩
      · exact ⟨_, _, hm1 _ k1, Or.inr ⟨idx, rfl⟩,
          hsp (wf_commit (l := r.log) hwf (Nat.le_of_lt h2) h3) (hu.of_abs rfl rfl) hpri⟩
    · have := (Live.stepLeader_appResp_ack_inv fuel m r r' e pr ht hg hrej h).2.2 hc
      subst this
      exact ⟨(Live.ackUpd pr m.index).1, _, hm1 _ rfl, Or.inl rfl, Sends.refl val _⟩

/-- a same-term MsgAppResp (from another node, or the node's own one satisfying `SelfOK`) keeps the auxiliary invariant -/
theorem aux_appResp_same {val : Val} {voters : List Id} {n : Nat} {s : Spec.State} {r r' : Raft} {m : Message}
    {e : Option StepErr} {fuel : Nat} (hinv : RaftInv val voters n r (s.nodes n) s.msgs) (haux : AuxInv n r)
    (ht : m.typ = .appResp) (hterm : m.term = r.term) (hself : m.from = n → m.to = n ∧ SelfOK n r m)
    (h : (Raft.step (fuel + 1) m).run r = .ok (e, r')) : AuxInv n r' ∧ AuxFrame r r' := by
  by_cases hl : r.state = .leader
  · rw [Live.step_leader_dispatch fuel m r hl (Or.inr hterm) (Or.inr (Or.inr (Or.inl ht)))] at h
    cases hg : r.trk.getProgress m.from with
    | none =>
      rw [Live.stepLeader_noProgress_run fuel m r (Or.inr (Or.inr (Or.inr (Or.inl ht)))) hg] at h
      injection h with h; injection h with _ h; subst h
      exact ⟨haux, AuxFrame.refl r⟩
    | some pr =>
      have hto := (stepLeader_appResp_toOK fuel m r ht).elim h
      obtain ⟨X, a, hX, ha, hs⟩ := appResp_leader_shape val hinv.wf hinv.unc hinv.st.pri ht hg h
      have ha1 : a.term = r.term ∧ a.state = r.state ∧ a.log.lastIndex = r.log.lastIndex ∧
          a.msgsAfterAppend = r.msgsAfterAppend ∧ a.msgs = r.msgs ∧ a.cfg = r.cfg ∧
          a.trk = r.trk.setProgress m.from X := by
        rcases ha with rfl | ⟨idx, rfl⟩ <;> exact ⟨rfl, rfl, rfl, rfl, rfl, rfl, rfl⟩
      obtain ⟨a1, a2, a3, a4, a5, a6, a7⟩ := ha1
      have sf := hs.sf
      have hframe : AuxFrame r r' :=
        ⟨by rw [sf.term, a1]; exact Nat.le_refl _,
         fun _ _ => ⟨by rw [sf.state, a2]; exact hl, by rw [sf.log, a3]; exact Nat.le_refl _⟩,
         fun _ hf => by rw [hl] at hf; cases hf⟩
      refine ⟨⟨?_, ?_, ?_⟩, hframe⟩
      · intro _ pr' hp
        obtain ⟨p, hga, e1, _⟩ := prKeep_back hs.pk hp
        rw [a7, getProgress_setProgress] at hga
        rw [sf.log, a3, e1]
        by_cases hf : m.from = n
        · rw [if_pos hf] at hga
          injection hga with hga
          subst hga
          rcases hX with hX | ⟨_, hX⟩
          · rw [hX]; exact haux.matchLe hl pr (hf ▸ hg)
          · rw [hX]
            obtain ⟨hto', hso⟩ := hself hf
            rcases (hso hto').2.2.2.2 ht hterm with hfo | hle
            · rw [hl] at hfo; cases hfo
            · exact hle.2
        · rw [if_neg hf] at hga
          exact haux.matchLe hl p hga
      · intro x hx
        rw [hs.maa, a4] at hx
        exact (haux.self x hx).frame hframe
      · intro x hx htyp
        obtain ⟨added, hm, hadd⟩ := hs.out
        obtain ⟨added', hm', hadd'⟩ := hto.msgs
        rw [a5] at hm
        have heq : added' = added := List.append_cancel_left (hm'.symm.trans hm)
        subst heq
        rw [hm] at hx
        rcases List.mem_append.1 hx with hx | hx
        · exact haux.outFrom x hx htyp
        · have hto2 := hadd' x hx
          rw [hinv.st.id] at hto2
          refine ⟨?_, hto2⟩
          rcases hadd x hx with h1 | h1 | h1
          · rw [h1] at htyp; simp at htyp
          · rw [h1] at htyp; simp at htyp
          · rw [h1.frm, a6]; exact hinv.st.id
  · rw [step_appResp_nonleader_run fuel m r ht hterm hl] at h
    injection h with h; injection h with _ h; subst h
    exact ⟨haux, AuxFrame.refl r⟩

end RaftVerif.Sim
