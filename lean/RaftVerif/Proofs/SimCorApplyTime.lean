import RaftVerif.Proofs.SimCorApplySpec
/-!
# Proofs/SimCorApplyTime — committed entries agree across time

`Reaches c c'`: `c'` is reached from `c` by zero or more environment steps.  What a view (current or stored) of a node
holds at or below its commit index in `c` is what any view of any node holds there, at or below its commit index, in
any later cluster `c'` — whatever happened in between (crashes included).
-/
namespace RaftVerif.SimCorP
open Sim Refine Simulation

/-- zero or more environment steps -/
inductive Reaches (c : Cluster) : Cluster → Prop where
  | refl : Reaches c c
  | step {c1 c2 : Cluster} : Reaches c c1 → EnvStep c1 c2 → Reaches c c2

theorem Reaches.creachable {c0 c c' : Cluster} (h : CReachable c0 c) (hr : Reaches c c') : CReachable c0 c' := by
  induction hr with
  | refl => exact h
  | step _ hs ih => exact .step ih hs

theorem Reaches.trans {a b c : Cluster} (h1 : Reaches a b) (h2 : Reaches b c) : Reaches a c := by
  induction h2 with
  | refl => exact h1
  | step _ hs ih => exact .step ih hs

theorem Reaches.of_creachable {c0 c : Cluster} (h : CReachable c0 c) : Reaches c0 c := by
  induction h with
  | init => exact .refl
  | step _ hs ih => exact .step ih hs

/-- the Spec state follows -/
theorem Reaches.related {val : Val} {voters : List Id} {c c' : Cluster} {s : Spec.State}
    (hsorted : voters.Pairwise (· < ·)) (h0 : 0 ∉ voters) (hR : RSD val voters c s) (hr : Reaches c c') :
    ∃ s', Steps (cfgOf voters) s s' ∧ RSD val voters c' s' := by
  induction hr with
  | refl => exact ⟨s, Steps.refl _ _, hR⟩
  | step _ hs ih =>
    obtain ⟨s1, h1, hR1⟩ := ih
    obtain ⟨s2, h2, hR2⟩ := cluster_simulates hsorted h0 hR1 hs
    exact ⟨s2, h1.trans h2, hR2⟩

/-- a view's entry at or below the view's commit index is chosen -/
theorem view_chosenAt {val : Val} {voters : List Id} {c0 c : Cluster} (h : Setting voters c0 c)
    {s : Spec.State} (hs : Spec.Reachable (cfgOf voters) s) (hR : RSD val voters c s)
    {a : Nat} {ra : RawNode} (ha : c.nodes a = some ra) (sa : Bool) {i : Nat} (hi : 1 ≤ i)
    (hic : i ≤ (hsOf ra sa).commit) {x : Entry} (hx : (entsOf ra sa)[i - 1]? = some x) :
    Spec.ChosenAt (cfgOf voters) s i (absEnt val x) := by
  have VA := viewOK hR ha sa
  refine Spec.chosenAt_of_ver (Spec.inv3_reachable _ h.cfgOK s hs) (verOf_mem (s.nodes a) sa) hi
    (by rw [VA.commit]; exact hic) ?_
  rw [VA.log, at?_map hi, hx]
  rfl

/-- **committed entries agree across time**, for the views -/
theorem commit_agree_views_time {voters : List Id} {c0 c c' : Cluster} (h : Setting voters c0 c)
    (hr : Reaches c c') {a b : Nat} {ra rb : RawNode} (ha : c.nodes a = some ra) (hb : c'.nodes b = some rb)
    (sa sb : Bool) {i : Nat} (hi : 1 ≤ i) (h1 : i ≤ (hsOf ra sa).commit) (h2 : i ≤ (hsOf rb sb).commit) :
    ∃ x y, (entsOf ra sa)[i - 1]? = some x ∧ (entsOf rb sb)[i - 1]? = some y ∧
      x.term = y.term ∧ x.typ = y.typ ∧ x.data = y.data ∧ x.index = i ∧ y.index = i := by
  have h' : Setting voters c0 c' := ⟨h.sorted, h.nz, h.ne, h.init, hr.creachable h.reach⟩
  have hla := commit_within_views h ha sa
  have hlb := commit_within_views h' hb sb
  obtain ⟨x, hx⟩ : ∃ x, (entsOf ra sa)[i - 1]? = some x :=
    ⟨_, List.getElem?_eq_getElem (by omega : i - 1 < (entsOf ra sa).length)⟩
  obtain ⟨y, hy⟩ : ∃ y, (entsOf rb sb)[i - 1]? = some y :=
    ⟨_, List.getElem?_eq_getElem (by omega : i - 1 < (entsOf rb sb).length)⟩
  obtain ⟨s, hs, hR⟩ := h.related (valFor x)
  obtain ⟨s', ⟨as, hrun⟩, hR'⟩ := hr.related h.sorted h.nz hR
  have hs' := hrun.reachable hs
  have cx := chosenAt_runL h.cfgOK hrun hs (view_chosenAt h hs hR ha sa hi h1 hx)
  have cy := view_chosenAt h' hs' hR' hb sb hi h2 hy
  obtain ⟨k1, k2, k3⟩ := valFor_sep (Spec.chosenAt_agree h.cfgOK hs' cx cy)
  have ix := ents_index hR ha sa hx
  have iy := ents_index hR' hb sb hy
  exact ⟨x, y, hx, hy, k1, k2, k3, by omega, by omega⟩

end RaftVerif.SimCorP
