import RaftVerif.Proofs.NoPanicVoteResp
/-!
# Proofs/NoPanicVoteRespDraws — a same-term MsgVoteResp step that ends in the candidate role started in it and
consumed no election-timeout draw
-/
set_option linter.unusedSimpArgs false
namespace RaftVerif.NoPanicP
open Raft C14 Sim Refine

theorem voteResp_cand_draws (fuel : Nat) (m : Message) (r : Raft) (ht : m.typ = .voteResp)
    (hterm : m.term = r.term) :
    Spec (Raft.step (fuel + 1) m) r (fun _ r' => r'.state = .candidate → r'.state = r.state ∧ r'.draws = r.draws) := by
  rw [Spec.iff_runs]
  intro e r' h hc
  unfold Runs at h
  rw [step_same_term_dispatch fuel m r (Or.inr hterm) (by rw [ht]; decide)] at h
  by_cases hs : r.state = .candidate
  · have hdd : dispatch fuel m r = Raft.stepCandidate fuel m := by unfold dispatch; rw [hs]
    rw [hdd] at h
    rcases (vr_stepCandidate_cases fuel m r hs ht).elim h with rfl | hlost | ⟨_, _, s1, h1, h2⟩
    · exact ⟨rfl, rfl⟩
    · have := ((becomeFollower_spec _ _ _).elim hlost).2.2.2.1
      rw [this] at hc; cases hc
    · have hl := ((becomeLeader_spec _).elim h1).2.2.2.2.1
      have hf := ((bcastAppend_sf s1).elim h2).state
      rw [hf, hl] at hc; cases hc
  · rw [dispatch_voteResp_ignored fuel m r hs ht] at h
    injection h with h; injection h with _ h
    subst h
    exact ⟨rfl, rfl⟩

end RaftVerif.NoPanicP
