import RaftVerif.Proofs.RefineLeader
/-!
# Proofs/RefineLeader2 — the leader's actions, continued: `leaderCommit`, `leaderAppend` (MsgProp)

* (g) a leader's `Step` that advances the commit index in its own term refines Spec `leaderCommit n c q`:
  `step_leaderCommit_refine`, `leaderCommit_abs`, `leaderCommit_guard_local`, `leaderCommit_enabled`;
* (h) a leader accepting a local MsgProp refines one Spec `leaderAppend` per entry: `step_prop_refine`,
  `prop_abs`, `prop_enabled`;
* non-vacuity of (f), (g), (h) on concrete states with a non-empty uncompacted log.
-/
namespace RaftVerif.Refine
open Raft
set_option linter.unusedSimpArgs false

/-! ### (g) `leaderCommit` -/

/-- the recorded vote is what it was -/
def VoteE (s s' : Raft) : Prop := s'.vote = s.vote

instance : RelOK VoteE where
  refl _ := rfl
  trans h1 h2 := Eq.trans h2 h1


macro_rules | `(tactic| rel_fields) => `(tactic| exact (rfl : VoteE _ _))

syntax "ve_step" : tactic

theorem send_ve (m : Message) (s : Raft) : Spec (send m) s (fun _ s' => VoteE s s') :=
  (send_sf m s).mono fun _ _ h => h.vote
theorem maybeSendAppend_ve (to : Id) (b : Bool) (s : Raft) :
    Spec (maybeSendAppend to b) s (fun _ s' => VoteE s s') := (maybeSendAppend_sf to b s).mono fun _ _ h => h.vote
theorem sendAppendLoop_ve (n : Nat) (to : Id) (s : Raft) :
    Spec (sendAppendLoop n to) s (fun _ s' => VoteE s s') := (sendAppendLoop_sf n to s).mono fun _ _ h => h.vote
theorem sendHeartbeat_ve (to : Id) (c : Option Bytes) (s : Raft) :
    Spec (sendHeartbeat to c) s (fun _ s' => VoteE s s') := (sendHeartbeat_sf to c s).mono fun _ _ h => h.vote
theorem bcastAppend_ve (s : Raft) : Spec bcastAppend s (fun _ s' => VoteE s s') :=
  (bcastAppend_sf s).mono fun _ _ h => h.vote
theorem bcastHeartbeat_ve (s : Raft) : Spec bcastHeartbeat s (fun _ s' => VoteE s s') :=
  (bcastHeartbeat_sf s).mono fun _ _ h => h.vote
theorem becomeFollower_ve (t l : Nat) (s : Raft) (ht : t = s.term) :
    Spec (becomeFollower t l) s (fun _ s' => VoteE s s') :=
  (becomeFollower_spec t l s).mono fun _ _ h => by unfold VoteE; rw [h.2.1, if_pos ht.symm]

macro_rules | `(tactic| ve_step) => `(tactic| rel_call (send_ve ..))
macro_rules | `(tactic| ve_step) => `(tactic| rel_call (maybeSendAppend_ve ..))
macro_rules | `(tactic| ve_step) => `(tactic| rel_call (sendAppendLoop_ve ..))
macro_rules | `(tactic| ve_step) => `(tactic| rel_call (sendHeartbeat_ve ..))
macro_rules | `(tactic| ve_step) => `(tactic| rel_call (bcastAppend_ve ..))
macro_rules | `(tactic| ve_step) => `(tactic| rel_call (bcastHeartbeat_ve ..))
macro_rules | `(tactic| ve_step) => `(tactic| rel_call (becomeFollower_ve _ _ _ (by first | rfl | assumption | (simp only []; done))))
macro_rules | `(tactic| ve_step) => `(tactic| same_call (hasUnappliedConfChanges_same ..))
macro_rules | `(tactic| ve_step) => `(tactic| same_call (decodeCC_same ..))

theorem maybeCommit_ve (s : Raft) : Spec maybeCommit s (fun _ s' => VoteE s s') :=
  (maybeCommit_spec s).mono fun _ _ ⟨_, _, h⟩ => by rw [h]; rfl
macro_rules | `(tactic| ve_step) => `(tactic| rel_call (maybeCommit_ve ..))

theorem appendEntry_ve (es : List Entry) (s : Raft) : Spec (appendEntry es) s (fun _ s' => VoteE s s') := by
  refine (appendEntry_spec_st es s).mono ?_
  rintro ok s' (⟨_, rfl⟩ | ⟨_, p, _, rfl⟩) <;> rfl
macro_rules | `(tactic| ve_step) => `(tactic| rel_call (appendEntry_ve ..))

theorem responseToReadIndexReq_ve (req : Message) (i : Nat) (s : Raft) :
    Spec (responseToReadIndexReq req i) s (fun _ s' => VoteE s s') := by
  unfold responseToReadIndexReq
  rel_start
  wp_auto [ve_step]
macro_rules | `(tactic| ve_step) => `(tactic| rel_call (responseToReadIndexReq_ve ..))

theorem sendReadIndexResp_ve (req : Message) (i : Nat) (s : Raft) :
    Spec (sendReadIndexResp req i) s (fun _ s' => VoteE s s') := by
  unfold sendReadIndexResp
  rel_start
  wp_auto [ve_step]
macro_rules | `(tactic| ve_step) => `(tactic| rel_call (sendReadIndexResp_ve ..))

theorem sendMsgReadIndexResponse_ve (m : Message) (s : Raft) :
    Spec (sendMsgReadIndexResponse m) s (fun _ s' => VoteE s s') := by
  unfold sendMsgReadIndexResponse
  rel_start
  wp_auto [ve_step]
macro_rules | `(tactic| ve_step) => `(tactic| rel_call (sendMsgReadIndexResponse_ve ..))

theorem releasePendingReadIndexMessages_ve (s : Raft) :
    Spec releasePendingReadIndexMessages s (fun _ s' => VoteE s s') := by
  unfold releasePendingReadIndexMessages
  rel_start
  wp_auto [first | ve_step | rel_loop VoteE]
macro_rules | `(tactic| ve_step) => `(tactic| rel_call (releasePendingReadIndexMessages_ve ..))

/-- **`stepLeader` never touches the recorded vote** (every message type) -/
theorem stepLeader_ve (fuel : Nat) (m : Message) (s : Raft) :
    Spec (stepLeader fuel m) s (fun _ s' => VoteE s s') := by
  rw [stepLeader]
  rel_start
  wp_auto [first | ve_step | rel_loop VoteE]

/-- a MsgAppResp of a lower term is ignored -/
theorem step_stale_appResp_run (fuel : Nat) (m : Message) (r : Raft) (h0 : m.term ≠ 0) (hlt : m.term < r.term)
    (ht : m.typ = .appResp) : (step (fuel + 1) m).run r = .ok (none, r) := by
  rw [step]
  have h0' : (m.term == 0) = false := by simpa using h0
  have h1 : ¬ (m.term > r.term) := by omega
  have e1 : (MsgType.appResp == MsgType.heartbeat) = false := rfl
  have e2 : (MsgType.appResp == MsgType.app) = false := rfl
  have e3 : (MsgType.appResp == MsgType.preVote) = false := rfl
  have e4 : (MsgType.appResp == MsgType.storageAppendResp) = false := rfl
  simp only [StateT.run_bind, StateT.run_get, P_pure_eq, P_ok_bind, h0', h1, hlt, ht, Bool.false_eq_true,
    ↓reduceIte, StateT.run_pure, e1, e2, e3, e4, Bool.or_self, Bool.and_false]

/-- **the MsgAppResp handler and the log**: if the commit index moved, the log is the old one with the new
commit index (nothing else of the `raftLog` changed) -/
theorem stepLeader_appResp_commit_log (fuel : Nat) (m : Message) (r r' : Raft) (res : Option StepErr)
    (hm : m.typ = .appResp) (h : (stepLeader fuel m).run r = .ok (res, r'))
    (hadv : r.log.committed < r'.log.committed) :
    r'.log = { r.log with committed := r'.log.committed } := by
  cases hg : r.trk.getProgress m.from with
  | none =>
    rw [Live.stepLeader_noProgress_run fuel m r (Or.inr (Or.inr (Or.inr (Or.inl hm)))) hg] at h
    injection h with h; injection h with _ h; subst h
    omega
  | some pr =>
    cases hrej : m.reject with
    | true =>
      have := (Next.stepLeader_commit fuel m r).elim h
      rcases this with h1 | ⟨_, _, _, _, _, h2⟩
      · unfold CmE at h1; omega
      · rw [hrej] at h2; cases h2
    | false =>
      by_cases hc : Live.ackCond pr m.index
      · obtain ⟨b, mid, hmc, hck⟩ := Next.stepLeader_appResp_ack_commit fuel m r r' res pr hm hg hrej hc h
        rcases (Next.maybeCommit_exact _).elim hmc with ⟨_, rfl⟩ | ⟨_, idx, _, _, _, _, _, rfl⟩
        · have := hck.ls.log
          have e : (Live.ackMid r m pr).log = r.log := rfl
          rw [e] at this
          rw [this] at hadv; omega
        · have hlog : r'.log = { r.log with committed := idx } := hck.ls.log
          rw [hlog]
      · have := (Live.stepLeader_appResp_ack_inv fuel m r r' res pr hm hg hrej h).2.2 hc
        subst this
        have e : (Live.ackSkip r m pr).log = r.log := rfl
        rw [e] at hadv; omega

/-- **a leader's `Step` that advances the commit index in its own term**: the `raftLog` is the old one with
the new commit index, and the recorded vote is untouched -/
theorem step_leaderCommit_frame (fuel : Nat) (m : Message) (r r' : Raft) (e : Option StepErr)
    (hs : r.state = .leader) (h : (step fuel m).run r = .ok (e, r'))
    (hadv : r.log.committed < r'.log.committed) (ht : r'.term = r.term) :
    r'.log = { r.log with committed := r'.log.committed } ∧ r'.vote = r.vote := by
  obtain ⟨_, _, _, _, _, htyp, _⟩ := C06L.leader_commit_rule fuel m r r' e hs h hadv ht
  cases fuel with
  | zero => exact (C17Q.fuel_pos h).elim
  | succ fuel =>
    by_cases hterm : m.term = 0 ∨ m.term = r.term
    · rw [Live.step_leader_dispatch fuel m r hs hterm (Or.inr (Or.inr (Or.inl htyp)))] at h
      exact ⟨stepLeader_appResp_commit_log fuel m r r' e htyp h hadv, (stepLeader_ve fuel m r).elim h⟩
    · by_cases hlt : m.term < r.term
      · rw [step_stale_appResp_run fuel m r (by omega) hlt htyp] at h
        injection h with h; injection h with _ h; subst h
        omega
      · rw [Live.step_higher_term_resp_run fuel m r (by omega) (Or.inl htyp)] at h
        obtain ⟨p, hp, h⟩ := bind_eq_ok.1 h
        injection h with h; injection h with _ h; subst h
        have := ((becomeFollower_spec m.term 0 r).elim hp).1
        omega

/-- moving the commit index inside the log keeps the invariant -/
theorem wf_commit {l : RaftLog} (h : l.WF) {c : Nat} (h1 : l.committed ≤ c) (h2 : c ≤ l.lastIndex) :
    ({ l with committed := c } : RaftLog).WF := by
  refine ⟨h.storage, h.unstable, ?_, h.appliedLeApplying, Nat.le_trans h.applyingLeCommitted h1, h2, h.budget⟩
  have hs := h.snapOK
  unfold RaftLog.SnapOK at hs ⊢
  simp only
  split
  · rename_i sn hsn
    rw [hsn] at hs
    exact Nat.le_trans hs h1
  · rename_i hsn
    rw [hsn] at hs
    exact hs

/-- the voters (of either half) whose `Progress.Match`, as seen by the leader, is at least `c` -/
def ackedBy (r : Raft) (c : Nat) : List Id :=
  (r.trk.cfg.voters ++ r.trk.outgoingL).filter
    (fun id => match C06L.matchOf r id with | some k => decide (c ≤ k) | none => false)

theorem mem_ackedBy {r : Raft} {c : Nat} {v : Id} :
    v ∈ ackedBy r c ↔ (v ∈ r.trk.cfg.voters ∨ v ∈ r.trk.outgoingL) ∧
      ∃ pr, r.trk.getProgress v = some pr ∧ c ≤ pr.match_ := by
  simp only [ackedBy, List.mem_filter, List.mem_append, C06L.matchOf, Tracker.getProgress]
  cases mapGet r.trk.progress v <;> simp

/-- for `c ≥ 1` "acknowledged at least `c`" does not depend on the default for an untracked voter -/
theorem ackedAtLeast_eq (c : List Id) (ack : Id → Option Nat) (k : Nat) (hk : 0 < k) :
    Quorum.ackedAtLeast c ack k =
      c.countP (fun id => match ack id with | some j => decide (k ≤ j) | none => false) := by
  unfold Quorum.ackedAtLeast Quorum.ackOr0
  apply List.countP_congr
  intro x _
  cases ack x with
  | none => simp; omega
  | some j => simp

/-- what a leader's `Step` that advances the commit index in its own term does -/
structure CommitPost (val : Val) (r : Raft) (m : Message) (r' : Raft) : Prop where
  leader : r.state = .leader
  term : r'.term = r.term
  typ : m.typ = .appResp
  accept : m.reject = false
  state : r'.state = .leader
  vote : r'.vote = r.vote
  /-- nothing of the `raftLog` but `committed` changed -/
  logEq : r'.log = { r.log with committed := r'.log.committed }
  wf : r'.log.WF
  unc : Uncompacted r'.log
  log : absLog val r' = absLog val r
  /-- the entry at the new commit index has the leader's own term -/
  termAt : (absLog val r').termAt r'.log.committed = some r.term
  inLog : r'.log.committed ≤ (absLog val r).length
  termPos : r.term ≠ 0
  /-- the peers with `Match ≥` the new commit index are a quorum of the (final) configuration -/
  quorum : (Spec.jointCfg r'.trk.cfg.voters r'.trk.outgoingL).isQuorum (ackedBy r' r'.log.committed) = true

/-- **(g)** a leader's `Step` (any message, any fuel) after which the commit index is higher and the term the same -/
theorem step_leaderCommit_refine (val : Val) (fuel : Nat) (m : Message) (r r' : Raft) (e : Option StepErr)
    (hs : r.state = .leader) (hwf : r.log.WF) (hu : Uncompacted r.log)
    (h : (step fuel m).run r = .ok (e, r')) (hadv : r.log.committed < r'.log.committed)
    (ht : r'.term = r.term) : CommitPost val r m r' := by
  obtain ⟨_, c2, c3, c4, c5, c6, c7⟩ := C06L.leader_commit_rule fuel m r r' e hs h hadv ht
  obtain ⟨b0, b1, bpos⟩ := C06L.leader_commit_quorum_backed fuel m r r' e hs h hadv ht
  obtain ⟨hlog, hvote⟩ := step_leaderCommit_frame fuel m r r' e hs h hadv ht
  have hli : r'.log.lastIndex = r.log.lastIndex := by rw [hlog]; rfl
  have hwf' : r'.log.WF := by
    rw [hlog]; exact wf_commit hwf (Nat.le_of_lt hadv) (by rw [← hli]; exact c3)
  have habs : r'.log.abs = r.log.abs := by rw [hlog]; rfl
  have hu' : Uncompacted r'.log := hu.of_abs (by rw [habs]) (by rw [habs])
  have hal : absLog val r' = absLog val r := by unfold absLog absLogL; rw [habs]
  refine ⟨hs, ht, c6, c7, c5, hvote, hlog, hwf', hu', hal, ?_, ?_, c4, ?_⟩
  · exact (term_ok_iff_termAt val hwf' hu' _ _).1 c2
  · rw [absLog, absLogL_length_eq val hwf hu, ← hli]; exact c3
  · rw [Spec.jointCfg_isQuorum_iff]
    unfold ackedBy
    rw [countP_filter_contains _ _ _ (fun x hx => List.mem_append_left _ hx),
      countP_filter_contains _ _ _ (fun x hx => List.mem_append_right _ hx),
      ← ackedAtLeast_eq _ _ _ bpos, ← ackedAtLeast_eq _ _ _ bpos]
    refine ⟨?_, ?_⟩
    · by_cases h0 : r'.trk.cfg.voters = []
      · exact Or.inl h0
      · exact Or.inr (b0 h0)
    · by_cases h0 : r'.trk.outgoingL = []
      · exact Or.inl h0
      · exact Or.inr (b1 h0)

/-! ### (g) the Spec side -/

theorem leaderCommit_nodes (s : Spec.State) (n c : Nat) (q : List Nat) :
    (Spec.apply s (.leaderCommit n c q)).nodes n =
      { (s.nodes n) with vol := { (s.nodes n).vol with commit := c } } := by
  simp [Spec.apply, Spec.setNode]

/-- the new state is described by Spec `leaderCommit n c q`, `c` the new commit index -/
theorem leaderCommit_abs (val : Val) {r r' : Raft} {m : Message} {s : Spec.State} {n : Nat} (q : List Nat)
    (hp : CommitPost val r m r') (ha : Abs val r (s.nodes n)) :
    Abs val r' ((Spec.apply s (.leaderCommit n r'.log.committed q)).nodes n) := by
  rw [leaderCommit_nodes]
  refine ⟨?_, ?_, rfl, ?_, ?_⟩
  · simp only; rw [hp.term]; exact ha.term
  · simp only; rw [hp.vote]; exact ha.vote
  · simp only; rw [hp.log]; exact ha.log
  · simp only; rw [hp.state, ← hp.leader]; exact ha.role

/-- the local conjuncts of the guard of Spec `leaderCommit n c q` -/
theorem leaderCommit_guard_local (val : Val) {r r' : Raft} {m : Message} {s : Spec.State} {n : Nat}
    (hp : CommitPost val r m r') (hadv : r.log.committed < r'.log.committed) (ha : Abs val r (s.nodes n)) :
    (s.nodes n).role = .leader ∧ (s.nodes n).vol.commit < r'.log.committed ∧
    (s.nodes n).vol.log.termAt r'.log.committed = some (s.nodes n).vol.term ∧
    (Spec.jointCfg r'.trk.cfg.voters r'.trk.outgoingL).isQuorum (ackedBy r' r'.log.committed) = true := by
  refine ⟨?_, ?_, ?_, hp.quorum⟩
  · rw [ha.role, hp.leader]; rfl
  · rw [ha.commit]; exact hadv
  · rw [ha.log, ha.term, ← hp.log]; exact hp.termAt

/-- the guard of Spec `leaderCommit n c q`; the last conjunct — every member of `q` released an
acknowledgement covering `c` (the leader itself: holds it durably) — is a fact about the environment -/
theorem leaderCommit_enabled (val : Val) (cfg : Spec.Cfg) {r r' : Raft} {m : Message} {s : Spec.State} {n : Nat}
    {q : List Nat} (hp : CommitPost val r m r') (hadv : r.log.committed < r'.log.committed)
    (ha : Abs val r (s.nodes n)) (hq : cfg.isQuorum q = true)
    (hsoup : ∀ v ∈ q, (v = n ∧ Spec.hasDurAck (s.nodes n).dur.acks r.term r'.log.committed = true) ∨
      Spec.hasAck s.msgs r.term v r'.log.committed = true) :
    Spec.enabled cfg s (.leaderCommit n r'.log.committed q) := by
  obtain ⟨g1, g2, g3, _⟩ := leaderCommit_guard_local val hp hadv ha
  refine ⟨g1, g2, g3, hq, ?_⟩
  rw [ha.term]; exact hsoup

/-! ### (h) MsgProp -/

/-- `stepLeader_prop_spec` with the additional fact that the broadcast leaves `msgsAfterAppend` alone -/
theorem stepLeader_prop_spec_maa (fuel : Nat) (m : Message) (s : Raft) (ht : m.typ = .prop) :
    Spec (stepLeader fuel m) s (fun e s' =>
      (e = some .proposalDropped ∧ OnlyPCI s s') ∨
      (e = none ∧ ∃ s1 ents p, OnlyPCI s s1 ∧ Pairwise2 PropRel m.entries.zipIdx ents ∧
        s1.log.append (cloned s1 ents) = .ok p ∧ SendFrame (afterAppend s1 ents p) s' ∧
        MaaE (afterAppend s1 ents p) s' ∧ bcastAppend.run (afterAppend s1 ents p) = .ok ((), s'))) := by
  obtain ⟨typ, to, frm, term, logTerm, index, entries, commit, vote, snapshot, reject, rejectHint, context, responses⟩ := m
  simp only at ht
  subst ht
  rw [stepLeader]
  simp only [wp]
  refine ⟨fun _ => trivial, fun _ => ⟨fun _ => Or.inl ⟨trivial, rfl⟩, fun _ => ⟨fun _ => Or.inl ⟨trivial, rfl⟩, fun _ => ?_⟩⟩⟩
  refine (Spec.forIn_acc OnlyPCI PropRel _ _ _ _ ?_).mono ?_
  · intro x acc mid
    simp only [wp]
    refine (decodeCC_spec x.1 mid).mono ?_
    rintro r _ ⟨rfl, hr⟩
    cases r with
    | none =>
      simp only [wp]
      exact ⟨rfl, x.1, rfl, Or.inl rfl⟩
    | some cc =>
      have hne := hr rfl
      simp only [wp]
      refine ⟨fun _ => ⟨rfl, _, rfl, Or.inr ⟨hne, rfl⟩⟩, fun _ => ⟨rfl, x.1, rfl, Or.inl rfl⟩⟩
  · rintro _ s1 ⟨h1, ys, rfl, hys⟩
    refine (appendEntry_spec_st _ s1).mono ?_
    rintro ok s2 (⟨rfl, rfl⟩ | ⟨rfl, p, hp, rfl⟩)
    · simp only [Bool.not_false, true_implies, Bool.false_eq_true, not_true_eq_false, false_implies, and_true,
        true_and]
      exact Or.inl h1
    · simp only [Bool.not_true, Bool.false_eq_true, false_implies, not_false_eq_true, true_implies, true_and]
      refine (((bcastAppend_sf _).and (bcastAppend_maae _)).and (Spec.runs bcastAppend _)).mono ?_
      intro _ s' hsf
      exact Or.inr ⟨s1, _, p, h1, hys, hp, hsf.1.1, hsf.1.2, hsf.2⟩

/-- what a leader's accepted MsgProp does -/
structure PropPost (val : Val) (r : Raft) (m : Message) (ents : List Entry) (r' : Raft) : Prop where
  /-- the appended entries are the proposal's, configuration changes possibly neutralized -/
  rel : Pairwise2 PropRel m.entries.zipIdx ents
  log : absLog val r' = absLog val r ++ ents.map (fun e => ({ term := r.term, val := val e.typ e.data } : Spec.Ent))
  term : r'.term = r.term
  vote : r'.vote = r.vote
  state : r'.state = .leader
  commit : r'.log.committed = r.log.committed
  wf : r'.log.WF
  unc : Uncompacted r'.log
  lastIndex : r'.log.lastIndex = r.log.lastIndex + ents.length
  /-- exactly one promise is queued: the self-acknowledgement of the new last index -/
  maa : r'.msgsAfterAppend = r.msgsAfterAppend ++ [leaderAck r ((absLog val r).length + ents.length)]
  msgs : ListExt (fun x => isPromise x.typ = false) r.msgs r'.msgs
  /-- more precisely: snapshots, and MsgApp that are Spec `sendApp` messages of the **new** log -/
  sends : ∃ added, r'.msgs = r.msgs ++ added ∧ ∀ x ∈ added, x.typ = .snap ∨ SendAppOK val r' x

theorem stepLeader_prop_refine (val : Val) (fuel : Nat) (m : Message) (s : Raft) (ht : m.typ = .prop)
    (hwf : s.log.WF) (hu : Uncompacted s.log) (hs : s.state = .leader) :
    Spec (stepLeader fuel m) s (fun e s' => e = none → ∃ ents, PropPost val s m ents s') := by
  refine (stepLeader_prop_spec_maa fuel m s ht).mono ?_
  rintro e s' (⟨rfl, _⟩ | ⟨_, s1, ents, p, h1, hp, happ, hsf, hmaa, hbc⟩)
  · intro h; cases h
  · intro _
    unfold OnlyPCI at h1
    have hlog : s1.log = s.log := by rw [h1]
    have hterm : s1.term = s.term := by rw [h1]
    have hcl : cloned s1 ents = cloned s ents := by unfold cloned; rw [hlog, hterm]
    rw [hcl, hlog] at happ
    obtain ⟨a1, a2, a3, a4, a5, a6⟩ := append_at_end val hwf hu _ (cloned_contig s ents) happ
    rw [cloned_length] at a4 a5
    rw [cloned_abs] at a6
    have hl' : s'.log = p.1 := hsf.log
    refine ⟨ents, hp, ?_, ?_, ?_, ?_, ?_, ?_, ?_, ?_, ?_, ?_, ?_⟩
    · unfold absLog; rw [hl']; exact a6
    · rw [hsf.term]; exact hterm
    · rw [hsf.vote, h1]; rfl
    · rw [hsf.state, h1]; exact hs
    · rw [hl']; exact a3
    · rw [hl']; exact a1
    · rw [hl']; exact a2
    · rw [hl']; exact a5
    · have e : (afterAppend s1 ents p).msgsAfterAppend =
          s.msgsAfterAppend ++ [leaderAck s ((absLog val s).length + ents.length)] := by
        simp only [afterAppend, stamped_appResp, leaderAck, absLog, absLogL_length_eq val hwf hu, a4]
        rw [h1]
      rw [hmaa]; exact e
    · have := hsf.msgs
      have e : (afterAppend s1 ents p).msgs = s.msgs := by simp only [afterAppend]; rw [h1]
      rw [e] at this; exact this
    · have e : (afterAppend s1 ents p).msgs = s.msgs := by simp only [afterAppend]; rw [h1]
      obtain ⟨b1, b2, b3, _, _, added, b6, b7⟩ :=
        (bcastAppend_sendsOK val (afterAppend s1 ents p) a1 a2).elim hbc
      refine ⟨added, by rw [b6, e], fun x hx => (b7 x hx).imp id (fun hok => ?_)⟩
      exact hok.congr b1.symm b2.symm b3.symm

/-- **(h)** a leader accepts a local MsgProp -/
theorem step_prop_refine (val : Val) (fuel : Nat) (m : Message) (r r' : Raft)
    (ht : m.typ = .prop) (h0 : m.term = 0) (hs : r.state = .leader) (hwf : r.log.WF) (hu : Uncompacted r.log)
    (h : (step (fuel + 1) m).run r = .ok (none, r')) : ∃ ents, PropPost val r m ents r' :=
  (step_prop_local fuel m r _ ht h0
    (fun _ => stepLeader_prop_refine val fuel m r ht hwf hu hs)
    (fun hC => by rw [hs] at hC; rcases hC with hC | hC <;> cases hC)
    (fun hF => by rw [hs] at hF; cases hF)).elim h rfl

/-! ### (h) the Spec side -/

/-- one Spec `leaderAppend` per entry -/
def appendAll (val : Val) (n : Nat) (ents : List Entry) (s : Spec.State) : Spec.State :=
  ents.foldl (fun st e => Spec.apply st (.leaderAppend n (val e.typ e.data))) s

theorem appendAll_nodes (val : Val) (n : Nat) (ents : List Entry) (s : Spec.State) :
    ((appendAll val n ents s).nodes n).vol.term = (s.nodes n).vol.term ∧
    ((appendAll val n ents s).nodes n).vol.vote = (s.nodes n).vol.vote ∧
    ((appendAll val n ents s).nodes n).vol.commit = (s.nodes n).vol.commit ∧
    ((appendAll val n ents s).nodes n).role = (s.nodes n).role ∧
    ((appendAll val n ents s).nodes n).vol.log = (s.nodes n).vol.log ++
      ents.map (fun e => ({ term := (s.nodes n).vol.term, val := val e.typ e.data } : Spec.Ent)) := by
  induction ents generalizing s with
  | nil => simp [appendAll]
  | cons e rest ih =>
    have := ih (Spec.apply s (.leaderAppend n (val e.typ e.data)))
    simp only [appendAll, List.foldl_cons] at this ⊢
    rw [leaderAppend_nodes] at this
    obtain ⟨t1, t2, t3, t4, t5⟩ := this
    refine ⟨t1, t2, t3, t4, ?_⟩
    rw [t5]; simp

/-- the new state is described by one Spec `leaderAppend` per appended entry -/
theorem prop_abs (val : Val) {r r' : Raft} {m : Message} {ents : List Entry} {s : Spec.State} {n : Nat}
    (hp : PropPost val r m ents r') (hs : r.state = .leader) (ha : Abs val r (s.nodes n)) :
    Abs val r' ((appendAll val n ents s).nodes n) := by
  obtain ⟨t1, t2, t3, t4, t5⟩ := appendAll_nodes val n ents s
  refine ⟨?_, ?_, ?_, ?_, ?_⟩
  · rw [t1, hp.term]; exact ha.term
  · rw [t2, hp.vote]; exact ha.vote
  · rw [t3, hp.commit]; exact ha.commit
  · rw [t5, hp.log, ha.log, ha.term]
  · rw [t4, hp.state, ← hs]; exact ha.role

/-- every one of these `leaderAppend`s is enabled: the node is leader throughout -/
theorem prop_enabled (val : Val) (cfg : Spec.Cfg) {r : Raft} {s : Spec.State} {n : Nat}
    (hs : r.state = .leader) (ha : Abs val r (s.nodes n)) (pre : List Entry) (v : Nat) :
    Spec.enabled cfg (appendAll val n pre s) (.leaderAppend n v) := by
  show ((appendAll val n pre s).nodes n).role = .leader
  rw [(appendAll_nodes val n pre s).2.2.2.1, ha.role, hs]; rfl

theorem appendAll_append (val : Val) (n : Nat) (pre post : List Entry) (s : Spec.State) :
    appendAll val n (pre ++ post) s = appendAll val n post (appendAll val n pre s) := by
  simp [appendAll, List.foldl_append]

/-! ### non-vacuity -/

/-- candidate 1 of {1, 2, 3} in term 2 with one (unstable) entry of term 1 in its uncompacted log; its own
vote is recorded -/
def exCand : Raft :=
  { cfg := { id := 1 }, term := 2, vote := 1, state := .candidate, draws := [0],
    log := { (RaftLog.new {} 1000) with
             unstable := { offset := 1, offsetInProgress := 2, entries := [{ term := 1, index := 1 }] } },
    trk := { cfg := { voters := [1, 2, 3] }, maxInflight := 16, votes := [(1, true)],
             progress := [(1, { match_ := 0, next := 1 }), (2, { match_ := 0, next := 1 }),
                          (3, { match_ := 0, next := 1 })] } }

/-- the grant of voter 2 -/
def exGrant : Message := { typ := .voteResp, «from» := 2, to := 1, term := 2 }

/-- the hypotheses of `step_voteResp_leader_refine` about the state hold -/
example : exGrant.typ = .voteResp ∧ exGrant.term = exCand.term ∧ exCand.state = .candidate ∧ exCand.log.WF ∧
    Uncompacted exCand.log ∧ exCand.log.lastIndex = 1 := by decide

/-- … and the step succeeds and makes the node leader -/
theorem exCand_becomes_leader :
    ((step 3 exGrant).run exCand).toOption.map
      (fun p => p.1 == none && p.2.state == .leader && p.2.term == 2 && p.2.log.lastIndex == 2 &&
        p.2.msgsAfterAppend.map (fun x => (x.typ, x.to, x.term, x.index)) == [(.appResp, 1, 2, 2)] &&
        p.2.msgs.map (fun x => (x.typ, x.to)) == [(.app, 2), (.app, 3)]) = some true := by
  rw [step, stepCandidate]; decide +kernel

theorem exCand_run : ∃ e r', (step 3 exGrant).run exCand = .ok (e, r') ∧ r'.state = .leader := by
  have h := exCand_becomes_leader
  cases hr : (step 3 exGrant).run exCand with
  | error e => rw [hr] at h; cases h
  | ok p =>
    rw [hr] at h
    simp only [Except.toOption, Option.map_some, Option.some.injEq, Bool.and_eq_true, beq_iff_eq] at h
    exact ⟨p.1, p.2, rfl, h.1.1.1.1.2⟩

/-- `step_voteResp_leader_refine` applies to it: for every payload encoding the ghost log becomes
`[(1, ·), (2, val none none)]` and the quorum is `{1, 2}` -/
example (val : Val) : ∃ e r', (step 3 exGrant).run exCand = .ok (e, r') ∧ WonPost val exCand exGrant r' ∧
    absLog val r' = [{ term := 1, val := val none none }, { term := 2, val := val none none }] ∧
    grantedBy (tallyAfter exCand exGrant) = [1, 2] := by
  obtain ⟨e, r', hr, hl⟩ := exCand_run
  have hp := (step_voteResp_leader_refine val 2 exGrant exCand r' e rfl (Or.inr rfl) rfl (by decide) (by decide) hr hl).2
  refine ⟨e, r', hr, hp, ?_, by decide⟩
  rw [hp.log]; rfl

/-- the hypotheses of `step_leaderCommit_refine` / `step_prop_refine` about the state hold for `C06L.exLead3`
(leader 1 of {1, 2, 3}, term 2, one entry of term 2) -/
example : C06L.exLead3.state = .leader ∧ C06L.exLead3.log.WF ∧ Uncompacted C06L.exLead3.log ∧
    C06L.exLead3.log.lastIndex = 1 := by decide

/-- the acknowledgement of voter 2 for index 1 -/
def exLeadAck : Message := { typ := .appResp, «from» := 2, to := 1, term := 2, index := 1 }

theorem exLead3_run : ∃ e r', (step 3 exLeadAck).run C06L.exLead3 = .ok (e, r') ∧ r'.log.committed = 1 ∧ r'.term = 2 := by
  have h : ((step 3 exLeadAck).run C06L.exLead3).toOption.map _ = some true := C06L.leader_commit_example
  cases hr : (step 3 exLeadAck).run C06L.exLead3 with
  | error e => rw [hr] at h; cases h
  | ok p =>
    rw [hr] at h
    simp only [Except.toOption, Option.map_some, Option.some.injEq, Bool.and_eq_true, beq_iff_eq] at h
    exact ⟨p.1, p.2, rfl, h.1.1.1.1.1, h.1.1.1.2⟩

/-- a local proposal of one entry -/
def exLeadProp : Message := { typ := .prop, entries := [{ data := some [7] }] }

theorem exLead3_prop_run : ∃ r', (step 3 exLeadProp).run C06L.exLead3 = .ok (none, r') := by
  have h : ((step 3 exLeadProp).run C06L.exLead3).toOption.map (fun p => p.1 == none) = some true := by
    rw [step, stepLeader]; decide +kernel
  cases hr : (step 3 exLeadProp).run C06L.exLead3 with
  | error e => rw [hr] at h; cases h
  | ok p =>
    rw [hr] at h
    simp only [Except.toOption, Option.map_some, Option.some.injEq, beq_iff_eq] at h
    obtain ⟨e, r'⟩ := p
    simp only at h
    subst h
    exact ⟨r', rfl⟩

/-- `step_leaderCommit_refine` applies to the acknowledgement of voter 2 (`C06L.leader_commit_example`): commit
0 → 1 on the strength of the quorum `{1, 2}` -/
example (val : Val) : ∃ e r', (step 3 exLeadAck).run C06L.exLead3 = .ok (e, r') ∧ CommitPost val C06L.exLead3 exLeadAck r' ∧
    r'.log.committed = 1 := by
  obtain ⟨e, r', hr, hc, ht⟩ := exLead3_run
  exact ⟨e, r', hr, step_leaderCommit_refine val 3 exLeadAck C06L.exLead3 r' e rfl (by decide) (by decide) hr
    (by rw [hc]; decide) ht, hc⟩

/-- `step_prop_refine` applies to a local proposal at the same leader: one entry is appended to the ghost log -/
example (val : Val) : ∃ r' ents, (step 3 exLeadProp).run C06L.exLead3 = .ok (none, r') ∧
    PropPost val C06L.exLead3 exLeadProp ents r' ∧ ents.length = 1 := by
  obtain ⟨r', hr⟩ := exLead3_prop_run
  obtain ⟨ents, hp⟩ := step_prop_refine val 2 exLeadProp C06L.exLead3 r' rfl rfl rfl (by decide) (by decide) hr
  exact ⟨r', ents, hr, hp, hp.rel.length_eq.symm⟩

end RaftVerif.Refine
