import RaftVerif.Proofs.SimCorDur
import RaftVerif.Props.LocalStep
/-!
# Proofs/SimCorHard — the hard state along environment steps (C07)

`HSMono r r'` : term does not decrease, the vote only changes within a term from none to some id, commit does not
decrease.  Every environment step except `crash` is `HSMono` on the node that takes it; `crash` resumes from the
stored hard state; the stored hard state is never ahead of the current one (`StoredBehind`).
-/
namespace RaftVerif.SimCorP
open Sim Refine Simulation

/-- the hard state `(term, vote, commit)` of `r'` is a legal successor of that of `r` -/
structure HSMono (r r' : Raft) : Prop where
  term : r.term ≤ r'.term
  vote : r'.term = r.term → r'.vote = r.vote ∨ r.vote = 0
  commit : r.log.committed ≤ r'.log.committed

theorem HSMono.refl (r : Raft) : HSMono r r := ⟨Nat.le_refl _, fun _ => Or.inl rfl, Nat.le_refl _⟩

theorem HSMono.of_good {r r' : Raft} (h : Good r r') : HSMono r r' := ⟨h.term, h.vote, h.commit⟩

theorem HSMono.trans {a b c : Raft} (h1 : HSMono a b) (h2 : HSMono b c) : HSMono a c := by
  refine ⟨Nat.le_trans h1.term h2.term, ?_, Nat.le_trans h1.commit h2.commit⟩
  intro h
  have t1 := h1.term
  have t2 := h2.term
  have e1 : b.term = a.term := by omega
  have e2 : c.term = b.term := by omega
  rcases h1.vote e1 with v1 | v1
  · rcases h2.vote e2 with v2 | v2
    · exact Or.inl (v2.trans v1)
    · exact Or.inr (v1 ▸ v2)
  · exact Or.inr v1

/-- `HSMono` only looks at term, vote and commit index -/
theorem HSMono.congr_left {r0 r r' : Raft} (h : HSMono r r') (h1 : r0.term = r.term) (h2 : r0.vote = r.vote)
    (h3 : r0.log.committed = r.log.committed) : HSMono r0 r' :=
  ⟨by rw [h1]; exact h.term, by rw [h1, h2]; exact h.vote, by rw [h3]; exact h.commit⟩

/-- a `Step` of a message that is `TermOK` -/
theorem hsMono_step {fuel : Nat} {m : Message} {r r' : Raft} {e : Option StepErr} (hm : Raft.TermOK m)
    (h : (Raft.step fuel m).run r = .ok (e, r')) : HSMono r r' :=
  ⟨LocalStep.step_term_mono fuel m r r' e hm h, LocalStep.step_vote_once fuel m r r' e hm h,
   LocalStep.step_commit_mono fuel m r r' e hm h⟩

theorem hsMono_tick {r r' : Raft} (h : Raft.tick.run r = .ok ((), r')) : HSMono r r' :=
  ⟨LocalStep.tick_term_mono r r' h, LocalStep.tick_vote_once r r' h, LocalStep.tick_commit_mono r r' h⟩

/-- a covered network message is `TermOK` -/
theorem covered_termOK {val : Val} {msgs : List Spec.Msg} {m : Message} (hc : Covered m.typ)
    (hnet : NetOK val msgs m) : Raft.TermOK m := by
  intro h0 hal
  rcases hc with hc | hp
  · exact netOK_term_ne hc hnet h0
  · rcases hal with h | h | h <;> rw [hp] at h <;> cases h

/-- a promise is not a MsgApp / MsgHeartbeat / MsgSnap -/
theorem promise_termOK {m : Message} (h : isPromise m.typ = true) : Raft.TermOK m := by
  intro _ hal
  unfold isPromise at h
  rcases hal with h' | h' | h' <;> rw [h'] at h <;> simp at h

/-- the messages replayed by `Advance` after a sync-mode `Ready` are `TermOK` -/
theorem soaOf_termOK {r : Raft} (hprom : MaaProm r) (eid : EntryID) (cents : List Entry) :
    ∀ m ∈ Next.soaOf r eid cents, Raft.TermOK m := by
  intro m hm
  unfold Next.soaOf at hm
  rcases List.mem_append.1 hm with hm | hm
  · rcases List.mem_append.1 hm with hm | hm
    · exact promise_termOK (hprom m (List.mem_filter.1 hm).1)
    · split at hm
      · rw [List.mem_singleton.1 hm]
        intro _ hal
        rcases hal with h' | h' | h' <;> cases h'
      · cases hm
  · split at hm
    · rw [List.mem_singleton.1 hm]
      intro _ hal
      rcases hal with h' | h' | h' <;> cases h'
    · cases hm

/-- **`syncRound` (Ready / persist / Advance) is `HSMono`** -/
theorem syncRound_hsMono {val : Val} {voters : List Id} {n : Nat} {rn rn' : RawNode} {rd : Ready}
    {draws : List Nat} {nd : Spec.Node} {msgs : List Spec.Msg} (hnode : NodeInv val voters n rn nd msgs)
    (hset : Settled rn.raft) (hprom : MaaProm rn.raft) (h : syncRound rn draws = .ok (rd, rn')) :
    HSMono rn.raft rn'.raft := by
  unfold syncRound at h
  obtain ⟨⟨rd0, rn1⟩, hready, h⟩ := bind_eq_ok.1 h
  dsimp only at h
  obtain ⟨rn2, hpers, h⟩ := bind_eq_ok.1 h
  obtain ⟨rn3, hadv, h⟩ := bind_eq_ok.1 h
  simp only [pure, Except.pure, Except.ok.injEq, Prod.mk.injEq] at h
  obtain ⟨e1, e2⟩ := h
  subst e1 e2
  obtain ⟨eid, l2, _, _, _, _, hsoa1, hraft1, hrl⟩ :=
    ready_sync_inv hnode.sync hnode.adv hnode.inv.wf hset.1 hready
  obtain ⟨ms, ms', _, _, hrn2⟩ := persistReady_inv hpers
  subst hrn2
  have hg := RawNode.advance_good _ rn3 draws
    (by rw [hsoa1]; exact soaOf_termOK hprom eid rd0.committedEntries) hadv
  refine (HSMono.of_good hg).congr_left ?_ ?_ ?_
  · show rn.raft.term = rn1.raft.term
    rw [hraft1]
  · show rn.raft.vote = rn1.raft.vote
    rw [hraft1]
  · show rn.raft.log.committed = rn1.raft.log.committed
    rw [hraft1]; exact hrl.committed.symm

end RaftVerif.SimCorP
