import RaftVerif.Proofs.FlowMonad
import RaftVerif.Proofs.FlowLog
/-!
# Proofs/FlowSend — run-equations for `maybeSendSnapshot` and `maybeSendAppend` (raft.go).
Core Lean only.
-/
namespace RaftVerif
namespace Raft

theorem stamp_congr (r r' : Raft) (m : Message) (h1 : r'.cfg = r.cfg) (h2 : r'.term = r.term) :
    stamp r' m = stamp r m := by
  unfold stamp; rw [h1, h2]

theorem maybeSendSnapshot_run (to : Id) (pr : Progress) (r : Raft) :
    (maybeSendSnapshot to pr).run r =
      if pr.recentActive = false then .ok (false, r)
      else if r.log.snapshot.index = 0 then .error "need non-empty snapshot"
      else if to = r.cfg.id then .error "send: message should not be self-addressed"
      else .ok (true, { r with
        trk := r.trk.setProgress to (pr.becomeSnapshot r.log.snapshot.index),
        msgs := r.msgs ++ [stamp r { to := to, typ := .snap, snapshot := some r.log.snapshot }] }) := by
  unfold maybeSendSnapshot
  cases hra : pr.recentActive
  · simp only [Bool.not_false, ↓reduceIte]; rfl
  · simp only [Bool.not_true, Bool.false_eq_true, ↓reduceIte, StateT.run_bind, StateT.run_get, P_pure_eq,
      P_ok_bind]
    by_cases hs : r.log.snapshot.index = 0
    · simp only [hs, beq_self_eq_true, ↓reduceIte, StateT.run_bind, M_run_throw, P_error_bind,
        Bool.true_eq_false]
    · have hs' : (r.log.snapshot.index == 0) = false := by simpa using hs
      simp only [hs', Bool.false_eq_true, ↓reduceIte, hs, StateT.run_bind, StateT.run_pure, P_pure_eq, P_ok_bind,
        setPr_run]
      rw [send_run_nonvote _ _ (by simp) (by simp) (by simp) (by simp) rfl]
      simp only [reduceCtorEq, ↓reduceIte]
      by_cases hto : to = r.cfg.id
      · simp only [hto, ↓reduceIte, P_error_bind]
      · simp only [hto, ↓reduceIte, P_ok_bind]
        rfl


/-- the `MsgApp` built by `maybeSendAppend` (before `send` stamps sender and term) -/
def appMsg (to : Id) (r : Raft) (pr : Progress) (prevTerm : Nat) (ents : List Entry) : Message :=
  { to := to, typ := .app, index := usub pr.next 1, logTerm := prevTerm, entries := ents,
    commit := r.log.committed }

/-- result of the tail of `maybeSendAppend` once the entries (or the failure to fetch them) are known -/
def appTail (to : Id) (sendIfEmpty : Bool) (r : Raft) (pr : Progress) (prevTerm : Nat)
    (ents : List Entry) (err : Bool) : Except String (Bool × Raft) :=
  if (ents.length == 0 && !sendIfEmpty) = true then .ok (false, r)
  else if err = true then (maybeSendSnapshot to pr).run r
  else if to = r.cfg.id then .error "send: message should not be self-addressed"
  else match pr.sentEntries ents.length (payloadsSize ents) with
    | .error e => .error e
    | .ok pr' => .ok (true, { r with
        msgs := r.msgs ++ [stamp r (appMsg to r pr prevTerm ents)],
        trk := r.trk.setProgress to { pr' with sentCommit := r.log.committed } })

/-- the monadic tail of `maybeSendAppend` when the entries were fetched successfully -/
def appTailM (to : Id) (sendIfEmpty : Bool) (r : Raft) (pr : Progress) (prevTerm : Nat)
    (ents : List Entry) : M Bool :=
  if (ents.length == 0 && !sendIfEmpty) = true then pure false
  else do
    send (appMsg to r pr prevTerm ents)
    let pr ← liftP (pr.sentEntries ents.length (payloadsSize ents))
    setPr to { pr with sentCommit := r.log.committed }
    pure true

theorem appTailM_run (to : Id) (sendIfEmpty : Bool) (r : Raft) (pr : Progress) (prevTerm : Nat)
    (ents : List Entry) :
    (appTailM to sendIfEmpty r pr prevTerm ents).run r = appTail to sendIfEmpty r pr prevTerm ents false := by
  unfold appTailM appTail
  by_cases hc : (ents.length == 0 && !sendIfEmpty) = true
  · simp only [hc, ↓reduceIte]; rfl
  · simp only [hc, ↓reduceIte, Bool.false_eq_true, StateT.run_bind]
    rw [send_run_nonvote _ _ (by simp [appMsg]) (by simp [appMsg]) (by simp [appMsg]) (by simp [appMsg]) rfl]
    have hty : (appMsg to r pr prevTerm ents).typ ≠ MsgType.appResp := by simp [appMsg]
    have hto : (appMsg to r pr prevTerm ents).to = to := rfl
    simp only [hty, ↓reduceIte, hto]
    by_cases hid : to = r.cfg.id
    · simp only [hid, ↓reduceIte, P_error_bind]
    · simp only [hid, ↓reduceIte, P_ok_bind, liftP_run]
      cases pr.sentEntries ents.length (payloadsSize ents) with
      | error e => rfl
      | ok pr' => rfl

theorem maybeSendAppend_run (to : Id) (sendIfEmpty : Bool) (r : Raft) :
    (maybeSendAppend to sendIfEmpty).run r =
      match r.trk.getProgress to with
      | none => .error "nil Progress dereference"
      | some pr =>
        if pr.isPaused = true then .ok (false, r)
        else match r.log.term (usub pr.next 1) with
          | .error _ => (maybeSendSnapshot to pr).run r
          | .ok prevTerm =>
            if (pr.state != .replicate || !pr.inflights.full) = true then
              match r.log.entries pr.next r.cfg.maxMsgSize with
              | .error e => .error e
              | .ok (.ok es) => appTail to sendIfEmpty r pr prevTerm es false
              | .ok (.error _) => appTail to sendIfEmpty r pr prevTerm [] true
            else appTail to sendIfEmpty r pr prevTerm [] false := by
  unfold maybeSendAppend
  simp only [StateT.run_bind, getPr_run]
  cases hg : r.trk.getProgress to with
  | none => rfl
  | some pr =>
    simp only [P_ok_bind]
    by_cases hp : pr.isPaused = true
    · simp only [hp, ↓reduceIte]; rfl
    · simp only [hp, ↓reduceIte, StateT.run_bind, StateT.run_get, P_pure_eq, P_ok_bind, Bool.false_eq_true]
      cases hterm : r.log.term (usub pr.next 1) with
      | error e => rfl
      | ok prevTerm =>
        simp only [pure_bind]
        by_cases hc : (pr.state != ProgressState.replicate || !pr.inflights.full) = true
        · simp only [hc, ↓reduceIte, StateT.run_bind, liftP_run]
          cases hents : r.log.entries pr.next r.cfg.maxMsgSize with
          | error e => rfl
          | ok res =>
            cases res with
            | ok es => exact appTailM_run to sendIfEmpty r pr prevTerm es
            | error e =>
              simp only [P_ok_bind, appTail]
              by_cases hb : sendIfEmpty = true
              · simp [hb]
              · simp [hb]
        · simp only [hc, ↓reduceIte, Bool.false_eq_true]
          exact appTailM_run to sendIfEmpty r pr prevTerm []

/-- state after a snapshot was sent to `to` -/
def afterSnap (to : Id) (r : Raft) (pr : Progress) : Raft :=
  { r with
    trk := r.trk.setProgress to (pr.becomeSnapshot r.log.snapshot.index),
    msgs := r.msgs ++ [stamp r { to := to, typ := .snap, snapshot := some r.log.snapshot }] }

/-- state after a `MsgApp` with `ents` was sent to `to` -/
def afterApp (to : Id) (r : Raft) (pr pr' : Progress) (prevTerm : Nat) (ents : List Entry) : Raft :=
  { r with
    msgs := r.msgs ++ [stamp r (appMsg to r pr prevTerm ents)],
    trk := r.trk.setProgress to { pr' with sentCommit := r.log.committed } }

theorem maybeSendSnapshot_outcome (to : Id) (pr : Progress) (r r' : Raft) (res : Bool)
    (h : (maybeSendSnapshot to pr).run r = .ok (res, r')) :
    (res = false ∧ r' = r) ∨ (res = true ∧ to ≠ r.cfg.id ∧ r' = afterSnap to r pr) := by
  rw [maybeSendSnapshot_run] at h
  split at h
  · injection h with h; injection h with h1 h2; exact Or.inl ⟨h1.symm, h2.symm⟩
  · split at h
    · cases h
    · split at h
      · cases h
      · rename_i hto
        injection h with h; injection h with h1 h2
        exact Or.inr ⟨h1.symm, hto, h2.symm⟩

theorem appTail_outcome (to : Id) (b : Bool) (r r' : Raft) (pr : Progress) (prevTerm : Nat)
    (ents : List Entry) (res : Bool) (h : appTail to b r pr prevTerm ents false = .ok (res, r')) :
    (res = false ∧ r' = r) ∨
    (res = true ∧ to ≠ r.cfg.id ∧ (ents = [] → b = true) ∧
      ∃ pr', pr.sentEntries ents.length (payloadsSize ents) = .ok pr' ∧
        r' = afterApp to r pr pr' prevTerm ents) := by
  unfold appTail at h
  split at h
  · injection h with h; injection h with h1 h2; exact Or.inl ⟨h1.symm, h2.symm⟩
  · rename_i hc
    simp only [Bool.false_eq_true, ↓reduceIte] at h
    split at h
    · cases h
    · rename_i hto
      cases hs : pr.sentEntries ents.length (payloadsSize ents) with
      | error e => rw [hs] at h; cases h
      | ok pr' =>
        rw [hs] at h
        injection h with h; injection h with h1 h2
        refine Or.inr ⟨h1.symm, hto, ?_, pr', rfl, h2.symm⟩
        intro he
        subst he
        cases b <;> simp_all

theorem appTail_err_outcome (to : Id) (b : Bool) (r r' : Raft) (pr : Progress) (prevTerm : Nat)
    (res : Bool) (h : appTail to b r pr prevTerm [] true = .ok (res, r')) :
    (res = false ∧ r' = r) ∨ (res = true ∧ to ≠ r.cfg.id ∧ r' = afterSnap to r pr) := by
  unfold appTail at h
  split at h
  · injection h with h; injection h with h1 h2; exact Or.inl ⟨h1.symm, h2.symm⟩
  · simp only [↓reduceIte] at h
    exact maybeSendSnapshot_outcome to pr r r' res h

/-- every way `maybeSendAppend` can return without panicking -/
theorem maybeSendAppend_outcome (to : Id) (b : Bool) (r r' : Raft) (res : Bool)
    (h : (maybeSendAppend to b).run r = .ok (res, r')) :
    ∃ pr, r.trk.getProgress to = some pr ∧
      ((res = false ∧ r' = r) ∨
       (res = true ∧ pr.isPaused = false ∧ to ≠ r.cfg.id ∧ r' = afterSnap to r pr) ∨
       (res = true ∧ pr.isPaused = false ∧ to ≠ r.cfg.id ∧
         ∃ prevTerm ents pr', r.log.term (usub pr.next 1) = .ok prevTerm ∧
           SizeOK r.cfg.maxMsgSize ents ∧
           (pr.state = .replicate → pr.inflights.full = true → ents = []) ∧
           (ents = [] → b = true) ∧
           pr.sentEntries ents.length (payloadsSize ents) = .ok pr' ∧
           r' = afterApp to r pr pr' prevTerm ents)) := by
  rw [maybeSendAppend_run] at h
  cases hg : r.trk.getProgress to with
  | none => rw [hg] at h; cases h
  | some pr =>
    rw [hg] at h
    refine ⟨pr, rfl, ?_⟩
    simp only at h
    split at h
    · injection h with h; injection h with h1 h2; exact Or.inl ⟨h1.symm, h2.symm⟩
    · rename_i hp
      have hp : pr.isPaused = false := by simpa using hp
      cases hterm : r.log.term (usub pr.next 1) with
      | error e =>
        rw [hterm] at h
        rcases maybeSendSnapshot_outcome to pr r r' res h with h' | ⟨h1, h2, h3⟩
        · exact Or.inl h'
        · exact Or.inr (Or.inl ⟨h1, hp, h2, h3⟩)
      | ok prevTerm =>
        rw [hterm] at h
        simp only at h
        split at h
        · cases hents : r.log.entries pr.next r.cfg.maxMsgSize with
          | error e => rw [hents] at h; cases h
          | ok v =>
            rw [hents] at h
            cases v with
            | error e =>
              rcases appTail_err_outcome to b r r' pr prevTerm res h with h' | ⟨h1, h2, h3⟩
              · exact Or.inl h'
              · exact Or.inr (Or.inl ⟨h1, hp, h2, h3⟩)
            | ok es =>
              rename_i hc
              rcases appTail_outcome to b r r' pr prevTerm es res h with h' | ⟨h1, h2, h3, pr', h4, h5⟩
              · exact Or.inl h'
              · refine Or.inr (Or.inr ⟨h1, hp, h2, prevTerm, es, pr', rfl,
                  RaftLog.entries_size_bound _ _ _ _ hents, ?_, h3, h4, h5⟩)
                intro hs hf
                simp [hs, hf] at hc
        · rcases appTail_outcome to b r r' pr prevTerm [] res h with h' | ⟨h1, h2, h3, pr', h4, h5⟩
          · exact Or.inl h'
          · exact Or.inr (Or.inr ⟨h1, hp, h2, prevTerm, [], pr', rfl, Or.inl (by simp),
              fun _ _ => rfl, h3, h4, h5⟩)

/-- every follower's inflight window is well-formed (`count ≤ size` and the byte rule) -/
def WindowsOK (r : Raft) : Prop := ∀ id pr, r.trk.getProgress id = some pr → pr.inflights.WF

/-- what a sequence of append attempts may do to the state: the configuration is untouched, messages
are only added, every added `MsgApp` respects the size limit, and the window invariant is kept -/
def AppStep (r r' : Raft) : Prop :=
  (r'.cfg = r.cfg ∧ r'.log = r.log ∧ r'.term = r.term ∧ r'.uncommittedSize = r.uncommittedSize ∧
    r'.msgsAfterAppend = r.msgsAfterAppend) ∧
  (∃ new, r'.msgs = r.msgs ++ new ∧
    ∀ m ∈ new, m.typ = .app → entsSize m.entries ≤ r.cfg.maxMsgSize ∨ m.entries.length ≤ 1) ∧
  (WindowsOK r → WindowsOK r')

theorem AppStep.refl (r : Raft) : AppStep r r :=
  ⟨⟨rfl, rfl, rfl, rfl, rfl⟩, ⟨[], by simp, by simp⟩, fun h => h⟩

theorem AppStep.trans {r1 r2 r3 : Raft} (h12 : AppStep r1 r2) (h23 : AppStep r2 r3) : AppStep r1 r3 := by
  obtain ⟨c1, ⟨n1, hm1, hs1⟩, w1⟩ := h12
  obtain ⟨c2, ⟨n2, hm2, hs2⟩, w2⟩ := h23
  refine ⟨⟨c2.1.trans c1.1, c2.2.1.trans c1.2.1, c2.2.2.1.trans c1.2.2.1, c2.2.2.2.1.trans c1.2.2.2.1,
    c2.2.2.2.2.trans c1.2.2.2.2⟩, ⟨n1 ++ n2, by rw [hm2, hm1, List.append_assoc], ?_⟩, fun h => w2 (w1 h)⟩
  intro m hm
  rcases List.mem_append.mp hm with h | h
  · exact hs1 m h
  · rw [c1.1] at hs2; exact hs2 m h

end Raft
end RaftVerif
