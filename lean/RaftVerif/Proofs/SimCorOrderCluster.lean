import RaftVerif.Proofs.SimCorOrderRound
import RaftVerif.Proofs.SimCorApplyTime
/-!
# Proofs/SimCorOrderCluster — the apply cursors of one node along environment steps
-/
namespace RaftVerif.SimCorP
open Sim Refine Simulation

/-- **environment steps other than a round of node `n` and a crash of node `n`**: every `deliver`, `tick`, `propose`,
`campaign` (of any node, `n` included), and the rounds and crashes of the other nodes -/
inductive OtherStep (n : Nat) (c : Cluster) : Cluster → Prop where
  | deliver (k : Nat) (rn rn' : RawNode) (draws : List Nat) (m : Message) (e : Option ApiErr) :
      c.nodes k = some rn → m ∈ c.net → m.to = k → Covered m.typ →
      rn.step draws m = .ok (e, rn') → OtherStep n c (c.setNode k rn')
  | tick (k : Nat) (rn rn' : RawNode) (draws : List Nat) :
      c.nodes k = some rn → rn.tick draws = .ok rn' → OtherStep n c (c.setNode k rn')
  | propose (k : Nat) (rn rn' : RawNode) (draws : List Nat) (data : Option Bytes) (e : Option ApiErr) :
      c.nodes k = some rn → rn.propose draws data = .ok (e, rn') → OtherStep n c (c.setNode k rn')
  | campaign (k : Nat) (rn rn' : RawNode) (draws : List Nat) (e : Option ApiErr) :
      c.nodes k = some rn → rn.campaign draws = .ok (e, rn') → OtherStep n c (c.setNode k rn')
  | sync (k : Nat) (rn rn' : RawNode) (draws : List Nat) (rd : Ready) : k ≠ n →
      c.nodes k = some rn → syncRound rn draws = .ok (rd, rn') →
      OtherStep n c { (c.setNode k rn') with net := c.net ++ rd.messages }
  | crash (k : Nat) (rn rn' : RawNode) (cfg : Config) (draws : List Nat) : k ≠ n →
      c.nodes k = some rn → (∀ m ∈ rn.raft.msgs, m.typ ≠ .vote) →
      cfg.id = k → cfg.preVote = false → cfg.asyncStorageWrites = false →
      cfg.applied = 0 → RawNode.new cfg rn.raft.log.storage draws = .ok rn' → OtherStep n c (c.setNode k rn')

theorem OtherStep.envStep {n : Nat} {c c' : Cluster} (h : OtherStep n c c') : EnvStep c c' := by
  cases h with
  | deliver k rn rn' draws m e a b c d e' => exact .deliver k rn rn' draws m e a b c d e'
  | tick k rn rn' draws a b => exact .tick k rn rn' draws a b
  | propose k rn rn' draws data e a b => exact .propose k rn rn' draws data e a b
  | campaign k rn rn' draws e a b => exact .campaign k rn rn' draws e a b
  | sync k rn rn' draws rd _ a b => exact .sync k rn rn' draws rd a b
  | crash k rn rn' cfg draws _ a b c d e f g => exact .crash k rn rn' cfg draws a b c d e f g

theorem setNode_keeps {c : Cluster} {n k : Nat} {rk rk' rn : RawNode} (hk : c.nodes k = some rk)
    (hc : cursors rk' = cursors rk) (hn : c.nodes n = some rn) :
    ∃ rn', (c.setNode k rk').nodes n = some rn' ∧ cursors rn' = cursors rn := by
  by_cases h : n = k
  · subst h
    rw [hk] at hn; injection hn with hn; subst hn
    exact ⟨rk', by simp [Cluster.setNode], hc⟩
  · exact ⟨rn, by simp [Cluster.setNode, h, hn], rfl⟩

/-- such a step leaves both apply cursors of node `n` where they are -/
theorem OtherStep.cursors {n : Nat} {c c' : Cluster} (h : OtherStep n c c') {rn : RawNode}
    (hn : c.nodes n = some rn) : ∃ rn', c'.nodes n = some rn' ∧ cursors rn' = cursors rn := by
  cases h with
  | deliver k rk rk' draws m e a b c d e' =>
    exact setNode_keeps a (rawstep_cursors (covered_not_storage d).1 (covered_not_storage d).2 e') hn
  | tick k rk rk' draws a b => exact setNode_keeps a (rawtick_cursors b) hn
  | propose k rk rk' draws data e a b =>
    exact setNode_keeps a (rstep_cursors (by simp) (by simp) b) hn
  | campaign k rk rk' draws e a b =>
    exact setNode_keeps a (rstep_cursors (by simp) (by simp) b) hn
  | sync k rk rk' draws rd hk a b =>
    exact ⟨rn, by simp [Cluster.setNode, Ne.symm hk, hn], rfl⟩
  | crash k rk rk' cfg draws hk a b c d e f g =>
    exact ⟨rn, by simp [Cluster.setNode, Ne.symm hk, hn], rfl⟩

/-- zero or more such steps -/
inductive QuietOf (n : Nat) (c : Cluster) : Cluster → Prop where
  | refl : QuietOf n c c
  | step {c1 c2 : Cluster} : QuietOf n c c1 → OtherStep n c1 c2 → QuietOf n c c2

theorem QuietOf.reaches {n : Nat} {c c' : Cluster} (h : QuietOf n c c') : Reaches c c' := by
  induction h with
  | refl => exact .refl
  | step _ hs ih => exact .step ih hs.envStep

theorem QuietOf.cursors {n : Nat} {c c' : Cluster} (h : QuietOf n c c') {rn : RawNode}
    (hn : c.nodes n = some rn) : ∃ rn', c'.nodes n = some rn' ∧ cursors rn' = cursors rn := by
  induction h with
  | refl => exact ⟨rn, hn, rfl⟩
  | step _ hs ih =>
    obtain ⟨r1, h1, e1⟩ := ih
    obtain ⟨r2, h2, e2⟩ := hs.cursors h1
    exact ⟨r2, h2, e2.trans e1⟩

end RaftVerif.SimCorP
