import RaftVerif.Proofs.SimHbAux
import RaftVerif.Proofs.SimLog
/-!
# Proofs/SimHbLog — `Settled` across the heartbeat steps (they never touch `log.unstable`)
-/
namespace RaftVerif.Sim
open Refine Raft Live
set_option linter.unusedSimpArgs false

/-- a MsgHeartbeat of the own term changes at most `log.committed` -/
theorem hb_same_unstable {fuel : Nat} {m : Message} {r r' : Raft} {e : Option StepErr} (hwf : r.log.WF)
    (ht : m.typ = .heartbeat) (hterm : m.term = r.term)
    (h : (Raft.step (fuel + 1) m).run r = .ok (e, r')) : r'.log.unstable = r.log.unstable := by
  by_cases hs : r.state = .leader
  · have : r' = r := by
      rw [step_same_term_dispatch fuel m r (Or.inr hterm) (by rw [ht]; decide)] at h
      unfold dispatch at h
      rw [hs] at h
      simp only at h
      rw [hb_stepLeader_run fuel m r ht] at h
      injection h with h; injection h with _ h; exact h.symm
    rw [this]
  · obtain ⟨_, _, _, hl, _, _⟩ := step_hb_refine fuel m r r' e ht hterm hs hwf h
    rw [hl]

/-- a MsgHeartbeatResp of the own term (no read-index context) keeps the log -/
theorem hbResp_same_log {fuel : Nat} {m : Message} {r r' : Raft} {e : Option StepErr}
    (ht : m.typ = .heartbeatResp) (hterm : m.term = r.term) (hctx : m.context = none)
    (h : (Raft.step (fuel + 1) m).run r = .ok (e, r')) : r'.log = r.log := by
  have hign : ∀ {x : Option StepErr}, .ok (x, r) = (Except.ok (e, r') : Except String _) → r'.log = r.log := by
    intro x hx
    injection hx with hx; injection hx with _ hx; subst hx; rfl
  by_cases hs : r.state = .leader
  · rw [step_leader_dispatch fuel m r hs (Or.inr hterm) (Or.inr (Or.inr (Or.inr (Or.inl ht))))] at h
    cases hg : r.trk.getProgress m.from with
    | none =>
      rw [stepLeader_noProgress_run fuel m r (Or.inr (Or.inr (Or.inl ht))) hg] at h
      exact hign h
    | some pr =>
      rcases hbResp_stepLeader_inv fuel m r r' e pr ht hctx hg h with rfl | ⟨b, hb⟩
      · rfl
      · exact ((maybeSendAppend_sf m.from true (hbMid r m pr)).elim hb).log
  · rw [step_same_term_dispatch fuel m r (Or.inr hterm) (by rw [ht]; decide)] at h
    unfold dispatch at h
    cases hstt : r.state with
    | leader => exact absurd hstt hs
    | candidate => rw [hstt] at h; simp only at h; rw [hbResp_stepCandidate_run fuel m r ht] at h; exact hign h
    | preCandidate => rw [hstt] at h; simp only at h; rw [hbResp_stepCandidate_run fuel m r ht] at h; exact hign h
    | follower => rw [hstt] at h; simp only at h; rw [hbResp_stepFollower_run fuel m r ht] at h; exact hign h

/-- a leader's tick (no leadership transfer) keeps the log -/
theorem tick_leader_log {r r' : Raft} (hl : r.state = .leader)
    (hx : r.leadTransferee = 0) (h : Raft.tick.run r = .ok ((), r')) : r'.log = r.log := by
  rw [tick_leader_run r hl] at h
  obtain ⟨ra, ⟨he, ee, rfl⟩, hcase⟩ := tickHeartbeat_leader_inv r r' hl hx h
  rcases hcase with ⟨rb, hrb, hcase⟩ | ⟨r1, hbf, rfl⟩
  · have hrb' : rb.log = r.log := by rcases hrb with rfl | rfl <;> rfl
    rcases hcase with rfl | ⟨res, hb⟩
    · exact hrb'
    · obtain ⟨u, hu⟩ := stepLeader_beat_bcast _ _ _ _ _ rfl hb
      exact (((bcastHeartbeat_sf _).elim hu).log).trans hrb'
  · obtain ⟨d, rest, _, rfl⟩ := becomeFollower_run_exact hbf
    rfl

theorem settled_hb_same {val : Val} {voters : List Id} {n : Nat} {s : Spec.State} {r r' : Raft} {m : Message}
    {e : Option StepErr} {fuel : Nat} (hinv : RaftInv val voters n r (s.nodes n) s.msgs) (hs : Settled r)
    (ht : m.typ = .heartbeat) (hterm : m.term = r.term)
    (h : (Raft.step (fuel + 1) m).run r = .ok (e, r')) : Settled r' :=
  hs.congr (hb_same_unstable hinv.wf ht hterm h)

theorem settled_hbResp_same {val : Val} {voters : List Id} {n : Nat} {s : Spec.State} {r r' : Raft} {m : Message}
    {e : Option StepErr} {fuel : Nat} (hinv : RaftInv val voters n r (s.nodes n) s.msgs) (hs : Settled r)
    (ht : m.typ = .heartbeatResp) (hterm : m.term = r.term) (hctx : m.context = none)
    (h : (Raft.step (fuel + 1) m).run r = .ok (e, r')) : Settled r' := by
  have _ := hinv
  exact hs.congr (by rw [hbResp_same_log ht hterm hctx h])

theorem settled_tick_leader {val : Val} {voters : List Id} {n : Nat} {s : Spec.State} {r r' : Raft}
    (hinv : RaftInv val voters n r (s.nodes n) s.msgs) (hs : Settled r) (hl : r.state = .leader)
    (h : Raft.tick.run r = .ok ((), r')) : Settled r' :=
  hs.congr (by rw [tick_leader_log hl hinv.st.xfer h])

end RaftVerif.Sim
