import RaftVerif.Proofs.SimReadyAll
import RaftVerif.Proofs.SimDur
import RaftVerif.Proofs.SimVoteRespD
import RaftVerif.Proofs.SimStoreFrame
/-!
# Proofs/SimReadyD — `syncRound` with the durable frame: the Spec run makes the volatile version durable and adds no
vote request of the node; the self steps keep it (`RaftSimD`)
-/
namespace RaftVerif.Sim
open Refine Raft
set_option linter.unusedSimpArgs false

/-- what is needed from `SimAppRespD.lean`: the `RaftSimD` version of `sim_appResp_same` -/
def AppRespDOK (val : Val) (voters : List Id) (n : Nat) : Prop :=
  ∀ (s : Spec.State) (r r' : Raft) (m : Message) (e : Option StepErr),
    RaftInv val voters n r (s.nodes n) s.msgs → Spec.Reachable (cfgOf voters) s →
    m.typ = .appResp → m.term = r.term → InOK val n (s.nodes n) s.msgs m →
    (Raft.step Raft.stepFuel m).run r = .ok (e, r') → RaftSimD val voters n s r'

/-- **a node's own durable promise** (term not ahead of the node), with the durable frame and both invariants -/
theorem self_stepD {val : Val} {voters : List Id} {n : Nat} (happ : AppRespDOK val voters n)
    {s : Spec.State} {r r' : Raft} {m : Message} {e : Option StepErr}
    (hinv : RaftInv val voters n r (s.nodes n) s.msgs) (haux : AuxInv n r)
    (hreach : Spec.Reachable (cfgOf voters) s) (hk : m.typ = .voteResp ∨ m.typ = .appResp)
    (hto : m.to = n) (hin : InOK val n (s.nodes n) s.msgs m) (hself : SelfOK n r m)
    (h : (Raft.step Raft.stepFuel m).run r = .ok (e, r')) :
    RaftSimD val voters n s r' ∧ AuxInv n r' ∧ AuxFrame r r' := by
  obtain ⟨_, hrej, _, hle, _⟩ := hself hto
  have h0 : m.term ≠ 0 := inOK_term_ne hk hin
  have h' : (Raft.step (2 + 1) m).run r = .ok (e, r') := h
  rcases Nat.lt_or_ge m.term r.term with hlt | hge
  · have hty : Deliverable m.typ := by
      unfold Deliverable
      rcases hk with hk | hk <;> simp [hk]
    have := sim_lower_term h0 hlt hty (by rcases hk with hk | hk <;> simp [hk]) h'
    subst this
    exact ⟨RaftSimD.refl hinv, haux, AuxFrame.refl _⟩
  · have hterm : m.term = r.term := Nat.le_antisymm hle hge
    rcases hk with hk | hk
    · exact ⟨simD_voteResp_same hinv hreach hk hterm hin (fun _ => hrej) h', aux_voteResp_same hinv haux hk hterm h'⟩
    · exact ⟨happ s r r' m e hinv hreach hk hterm hin h,
        aux_appResp_same hinv haux hk hterm (fun _ => ⟨hto, hself⟩) h'⟩

/-- **the self-addressed promises** of a `Ready` (durable frame exposed) -/
theorem self_steps2D {val : Val} {voters : List Id} {n : Nat} (happ : AppRespDOK val voters n)
    (dur0 : Spec.Ver) (ms : List Message) (hms : ∀ m ∈ ms, m.to = n ∧ PromOK n dur0 m)
    (s : Spec.State) (r r' : Raft) (hinv : RaftInv val voters n r (s.nodes n) s.msgs) (haux : AuxInv n r)
    (hok : ∀ m ∈ ms, SelfOK n r m)
    (hreach : Spec.Reachable (cfgOf voters) s) (hdur : Spec.VerLe dur0 (s.nodes n).dur)
    (hrun : Next.runSteps ms r = .ok r') :
    RaftSimD val voters n s r' ∧ AuxInv n r' ∧ LogGrow r.log r'.log ∧ r'.term = r.term := by
  induction ms generalizing s r with
  | nil =>
    simp only [Next.runSteps, Except.ok.injEq] at hrun
    subst hrun
    exact ⟨RaftSimD.refl hinv, haux, LogGrow.refl _, rfl⟩
  | cons m ms ih =>
    simp only [Next.runSteps] at hrun
    obtain ⟨⟨e, r1⟩, hstep, hrest⟩ := bind_eq_ok.1 hrun
    obtain ⟨hto, hprom⟩ := hms m List.mem_cons_self
    have hself := hok m List.mem_cons_self
    obtain ⟨ht, _, _, hle, _⟩ := hself hto
    have hin : InOK val n (s.nodes n) s.msgs m := inOK_of_prom ht hto hprom hdur
    obtain ⟨⟨as1, s1, hrun1, hact1, hinv1, hd1, hrv1⟩, haux1, hfr1⟩ :=
      self_stepD happ hinv haux hreach ht hto hin hself hstep
    obtain ⟨hg1, ht1⟩ := grow_self (fuel := 2) hinv ht hprom.2.1 hle hstep
    obtain ⟨hsim2, haux2, hg2, ht2⟩ :=
      ih (fun x hx => hms x (List.mem_cons_of_mem _ hx)) s1 r1 hinv1 haux1
        (fun x hx => (hok x (List.mem_cons_of_mem _ hx)).frame hfr1)
        (hrun1.reachable hreach) (by rw [hd1]; exact hdur) hrest
    exact ⟨RaftSimD.trans hrun1 hact1 hd1 hrv1 hsim2, haux2, hg1.trans hg2, ht2.trans ht1⟩

/-- **`syncRound`, Spec side exposed**: as `sim_syncRound2`, and the Spec run makes exactly the volatile version of
the start of the round durable and adds no vote request of `n` -/
theorem sim_syncRound2D {val : Val} {voters : List Id} {n : Nat} (happ : AppRespDOK val voters n)
    {s : Spec.State} {rn rn' : RawNode} {rd : Ready}
    {draws : List Nat} (hnode : NodeInv val voters n rn (s.nodes n) s.msgs) (hra : RoundAux n rn.raft)
    (hreach : Spec.Reachable (cfgOf voters) s) (h : syncRound rn draws = .ok (rd, rn')) :
    ∃ as s', RunL (cfgOf voters) s as s' ∧ (∀ a ∈ as, a.actor = n) ∧
      NodeInv val voters n rn' (s'.nodes n) s'.msgs ∧ (∀ m ∈ rd.messages, NetOK val s'.msgs m) ∧
      RoundAux n rn'.raft ∧ (∀ m ∈ rd.messages, NetFrom m) ∧
      (s'.nodes n).dur = (s.nodes n).vol ∧
      (∀ t lt li, Spec.Msg.reqVote t n lt li ∈ s'.msgs → Spec.Msg.reqVote t n lt li ∈ s.msgs) := by
  obtain ⟨haux, hset, hprom⟩ := hra
  have hI := hnode.inv
  obtain ⟨eid, r2, r3, hsteps, hmsgs, hlast, hP, hterm2, hmaa2, ⟨hst2, htrk2, hmsgs2, _⟩, hinv2, hraft', hasy', hsoa'⟩ :=
    syncRound_model hnode hset h
  obtain ⟨s1, hrun1, hn1, hm1⟩ := write_persist_run (cfgOf voters) s n hI.pend
  have hI1 : RaftInv val voters n rn.raft (s1.nodes n) s1.msgs := by rw [hn1, hm1]; exact hI.persisted
  have hdur1 : (s1.nodes n).dur = (s.nodes n).vol := by rw [hn1]
  obtain ⟨s2, hrel, hnet⟩ := release_all (val := val) (cfgOf voters) n rn.raft.msgsAfterAppend s1
    (fun p hp => ⟨by rw [hdur1]; exact hI.prom p hp, hprom p hp⟩)
  obtain ⟨as2, hrun2, hact2, hnodes2, hsub2, hrv2⟩ := hrel
  have hI1' : RaftInv val voters n rn.raft (s2.nodes n) s2.msgs := by
    rw [hnodes2]; exact hI1.frame hsub2 (fun t lt li hx => hrv2 t n lt li hx)
  have hI2 : RaftInv val voters n r2 (s2.nodes n) s2.msgs := hinv2 _ _ hI1'
  have haux2 : AuxInv n r2 := haux.transfer hst2 htrk2 hterm2 (lastIndex_of_inv hI1' hI2)
    (by rw [hmsgs2]; exact fun _ hm => nomatch hm) (by rw [hmaa2]; exact fun _ hm => nomatch hm)
  have hreach2 := hrun2.reachable (hrun1.reachable hreach)
  have hdur2e : (s2.nodes n).dur = (s.nodes n).vol := by rw [hnodes2, hdur1]
  have hdur2 : Spec.VerLe (s.nodes n).vol (s2.nodes n).dur := by rw [hdur2e]; exact Spec.VerLe.refl _
  have hrouted : Routed r2 r3 := runSteps_routed _ r2 r3 hsteps
  unfold Next.soaOf at hsteps
  rw [runSteps_append, runSteps_append] at hsteps
  obtain ⟨rb, hsteps, hstepC⟩ := bind_eq_ok.1 hsteps
  obtain ⟨ra, hstepA, hstepB⟩ := bind_eq_ok.1 hsteps
  have hself : ∀ m ∈ rn.raft.msgsAfterAppend.filter (fun m => m.to == rn.raft.cfg.id),
      m.to = n ∧ PromOK n (s.nodes n).vol m ∧ SelfOK n r2 m := by
    intro m hm
    obtain ⟨hm1, hm2⟩ := List.mem_filter.1 hm
    have hto : m.to = n := by rw [← hI.st.id]; simpa using hm2
    exact ⟨hto, hI.prom m hm1, (haux.self m hm1).transfer hst2 hterm2 (lastIndex_of_inv hI1' hI2)⟩
  obtain ⟨⟨as3, s3, hrun3, hact3, hI3, hd3, hrv3⟩, haux3, hg3, ht3⟩ :=
    self_steps2D happ (s.nodes n).vol _ (fun m hm => ⟨(hself m hm).1, (hself m hm).2.1⟩) s2 r2 ra hI2 haux2
      (fun m hm => (hself m hm).2.2) hreach2 hdur2 hstepA
  obtain ⟨hIb, hsetb, hsameb⟩ := appendResp_phase hI.wf hset.1 hP hI3 (ht3.trans hterm2) hg3.storage hg3.snap
    hg3.offset hg3.oip hg3.ents eid hlast hstepB
  obtain ⟨hIc, hsetc, hsamec⟩ := applyResp_phase hIb hsetb rd.committedEntries hstepC
  have hauxb : AuxInv n rb := haux3.same hsameb (lastIndex_of_inv hI3 hIb)
  have hauxc : AuxInv n r3 := hauxb.same hsamec (lastIndex_of_inv hIb hIc)
  have hprom3 : ∀ m ∈ r3.msgsAfterAppend, isPromise m.typ = true := by
    obtain ⟨suf, hsuf, hp⟩ := hrouted.maa
    rw [hmaa2, List.nil_append] at hsuf
    intro m hm
    rw [hsuf] at hm
    exact hp m hm
  refine ⟨[.write n, .persist n] ++ (as2 ++ as3), s3, hrun1.append (hrun2.append hrun3), ?_,
    ⟨hasy', hsoa', by rw [hraft']; exact hIc⟩, ?_, by rw [hraft']; exact ⟨hauxc, hsetc, hprom3⟩, ?_,
    hd3.trans hdur2e, fun t lt li hx => by rw [← hm1]; exact hrv2 t n lt li (hrv3 t lt li hx)⟩
  · intro a ha
    rcases List.mem_append.1 ha with h1 | h1
    · simp only [List.mem_cons, List.not_mem_nil, or_false] at h1
      rcases h1 with rfl | rfl <;> rfl
    · rcases List.mem_append.1 h1 with h2 | h2
      · exact hact2 a h2
      · exact hact3 a h2
  · intro m hm
    rw [hmsgs] at hm
    have hsub3 : ∀ x ∈ s2.msgs, x ∈ s3.msgs := fun x hx => hrun3.msgs_mono x hx
    rcases List.mem_append.1 hm with h1 | h1
    · exact (hI.out m h1).mono (fun x hx => hsub3 x (hsub2 x (by rw [hm1]; exact hx)))
    · obtain ⟨h2, h3⟩ := List.mem_filter.1 h1
      have hto : m.to ≠ n := by rw [← hI.st.id]; simpa using h3
      exact (hnet m h2 hto).mono hsub3
  · intro m hm hty
    rw [hmsgs] at hm
    rcases List.mem_append.1 hm with h1 | h1
    · obtain ⟨hf, ht⟩ := haux.outFrom m h1 hty
      rw [hf]; exact fun h => ht h.symm
    · have hp := hprom m (List.mem_filter.1 h1).1
      rcases hty with hty | hty | hty <;> simp [isPromise, hty] at hp

end RaftVerif.Sim
