import RaftVerif.Proofs.C14Restore
import RaftVerif.Proofs.StepSend
/-!
# Proofs/C14Campaign — `campaign` and `hup` on a well-formed log: the vote requests never trip an assertion.
Helper lemmas for `Props/C14.lean`.  Core Lean only.
-/
set_option linter.unusedSimpArgs false
namespace RaftVerif.C14
open Raft

/-- `act` does not panic from state `s` -/
def NoErr {α : Type} (act : M α) (s : Raft) : Prop := ∀ e, act.run s ≠ .error e

theorem NoErr.forIn {γ β : Type} (Inv : Raft → Prop) (l : List γ) (f : γ → β → M (ForInStep β))
    (hstep : ∀ a ∈ l, ∀ b r, Inv r → NoErr (f a b) r ∧ ∀ st r', (f a b).run r = .ok (st, r') → Inv r') :
    ∀ (b : β) (r : Raft), Inv r → NoErr (forIn l b f) r := by
  induction l with
  | nil => intro b r _ e h; simp only [List.forIn_nil, StateT.run_pure, P_pure_eq] at h; cases h
  | cons a t ih =>
    intro b r hinv e h
    rw [List.forIn_cons, M_bind_error_iff] at h
    obtain ⟨hne, hpres⟩ := hstep a (by simp) b r hinv
    rcases h with h | ⟨st, r', hok, h⟩
    · exact hne e h
    · cases st with
      | done b' => simp only [StateT.run_pure, P_pure_eq] at h; cases h
      | yield b' =>
        exact ih (fun a' ha' => hstep a' (List.mem_cons_of_mem _ ha')) b' r' (hpres _ _ hok) e h

/-- the vote-request loop of `campaign` -/
def campaignLoop (t : CampaignType) (voteMsg : MsgType) (term : Nat) : M Unit := do
  let r ← get
  for id in r.trk.voterNodes do
    if id == r.cfg.id then
      send { to := id, term := term, typ := voteRespMsgType voteMsg }
    else
      let last ← lastEntryID
      let ctx := if t == .transfer then some campaignTransferCtx else none
      send { to := id, term := term, typ := voteMsg, index := last.index, logTerm := last.term, context := ctx }

theorem campaign_eq (t : CampaignType) :
    campaign t =
      if t = .preElection then (do becomePreCandidate; campaignLoop t .preVote ((← get).term + 1))
      else (do becomeCandidate; campaignLoop t .vote (← get).term) := by
  unfold campaign campaignLoop
  by_cases ht : t = .preElection
  · subst ht
    simp only [beq_self_eq_true, ↓reduceIte, pure_bind]
  · have hb : (t == CampaignType.preElection) = false := by simpa using ht
    rw [if_neg ht]
    simp only [hb, Bool.false_eq_true, ↓reduceIte, pure_bind]

theorem send_noErr_voteResp (v : MsgType) (id term : Nat) (r : Raft) (hterm : term ≠ 0)
    (hv : v = .vote ∨ v = .preVote) :
    NoErr (send { to := id, term := term, typ := voteRespMsgType v }) r := by
  intro e h
  have hty : voteRespMsgType v = .voteResp ∨ voteRespMsgType v = .preVoteResp := by
    rcases hv with rfl | rfl <;> simp [voteRespMsgType]
  rcases (send_error_iff _ r e).mp h with ⟨_, _, h0⟩ | ⟨_, hv', _⟩ | ⟨_, _, ha, _⟩
  · exact hterm h0
  · rcases hty with h1 | h1 <;> simp [h1, isVoteTyp] at hv'
  · rcases hty with h1 | h1 <;> simp [h1, isAfterAppendTyp] at ha

theorem send_noErr_vote (m : Message) (r : Raft) (hterm : m.term ≠ 0) (hv : m.typ = .vote ∨ m.typ = .preVote)
    (hto : m.to ≠ r.cfg.id) : NoErr (send m) r := by
  intro e h
  rcases (send_error_iff _ r e).mp h with ⟨_, _, h0⟩ | ⟨_, hv', _⟩ | ⟨_, _, _, h1⟩
  · exact hterm h0
  · rcases hv with h1 | h1 <;> simp [h1, isVoteTyp] at hv'
  · exact hto h1

theorem campaignLoop_noErr (t : CampaignType) (voteMsg : MsgType) (term : Nat) (r : Raft) (hwf : r.log.WF)
    (hterm : term ≠ 0) (hv : voteMsg = .vote ∨ voteMsg = .preVote) : NoErr (campaignLoop t voteMsg term) r := by
  intro e h
  unfold campaignLoop at h
  simp only [StateT.run_bind, StateT.run_get, P_pure_eq, P_ok_bind] at h
  rw [P_bind_error_iff] at h
  rcases h with h | ⟨a, _, h⟩
  · refine NoErr.forIn (fun r2 => r2.cfg = r.cfg ∧ r2.log = r.log) _ _ ?_ _ r ⟨rfl, rfl⟩ e h
    intro id _ b r2 ⟨hcfg, hlog⟩
    by_cases hid : (id == r.cfg.id) = true
    · simp only [hid, ↓reduceIte]
      constructor
      · intro e' h'
        rw [M_bind_error_iff] at h'
        rcases h' with h' | ⟨_, _, _, h'⟩
        · exact send_noErr_voteResp voteMsg id term r2 hterm hv e' h'
        · simp only [StateT.run_pure, P_pure_eq] at h'; cases h'
      · intro st r' hrun
        obtain ⟨_, r1, h1, h2⟩ := (Runs.bind_iff _ _ _ _ _).mp hrun
        have hsf := (send_sf _ r2).elim h1
        obtain ⟨_, rfl⟩ := (Runs.pure_iff _ _ _ _).mp h2
        exact ⟨hsf.cfg.trans hcfg, hsf.log.trans hlog⟩
    · simp only [hid, Bool.false_eq_true, ↓reduceIte]
      have hne : id ≠ r2.cfg.id := by rw [hcfg]; simpa using hid
      obtain ⟨tt, _, hlast⟩ := RaftLog.lastEntryID_spec (l := r2.log) (by rw [hlog]; exact hwf)
      have hl : lastEntryID.run r2 = .ok (({ term := tt, index := r2.log.abs.last } : EntryID), r2) := by
        unfold Raft.lastEntryID
        simp only [StateT.run_bind, StateT.run_get, P_pure_eq, P_ok_bind, liftP_run, hlast]
      constructor
      · intro e' h'
        rw [M_bind_error_iff, hl] at h'
        rcases h' with h' | ⟨_, _, h0, h'⟩
        · cases h'
        · injection h0 with h0; injection h0 with h01 h02; subst h01 h02
          rw [M_bind_error_iff] at h'
          rcases h' with h' | ⟨_, _, _, h'⟩
          · exact send_noErr_vote _ r2 hterm hv hne e' h'
          · simp only [StateT.run_pure, P_pure_eq] at h'; cases h'
      · intro st r' hrun
        obtain ⟨_, r1, h1, h2⟩ := (Runs.bind_iff _ _ _ _ _).mp hrun
        have h1' : lastEntryID.run r2 = .ok (_, r1) := h1
        rw [hl] at h1'
        injection h1' with h1'; injection h1' with _ h1'; subst h1'
        obtain ⟨_, r3, h3, h4⟩ := (Runs.bind_iff _ _ _ _ _).mp h2
        have hsf := (send_sf _ r2).elim h3
        obtain ⟨_, rfl⟩ := (Runs.pure_iff _ _ _ _).mp h4
        exact ⟨hsf.cfg.trans hcfg, hsf.log.trans hlog⟩
  · simp only [StateT.run_pure, P_pure_eq] at h; cases h

theorem becomePreCandidate_ok_frame (r r1 : Raft) (a : Unit) (h : becomePreCandidate.run r = .ok (a, r1)) :
    r1.log = r.log ∧ r1.term = r.term := by
  rw [becomePreCandidate_run] at h
  split at h
  · cases h
  · injection h with h; injection h with _ h; subst h; exact ⟨rfl, rfl⟩

theorem becomeCandidate_ok_frame (r r1 : Raft) (a : Unit) (h : becomeCandidate.run r = .ok (a, r1)) :
    r1.log = r.log ∧ r1.term = r.term + 1 := by
  by_cases hs : r.state = .leader
  · have := (becomeCandidate_error_iff r _).mpr (Or.inl ⟨rfl, hs⟩)
    rw [h] at this; cases this
  · have hdc : r.draws = [] ∨ ∃ d rest, r.draws = d :: rest := by cases r.draws <;> simp
    rcases hdc with hd | ⟨d, rest, hd⟩
    · have := (becomeCandidate_error_iff r _).mpr (Or.inr ⟨rfl, hs, hd⟩)
      rw [h] at this; cases this
    · rw [becomeCandidate_ok r d rest hs hd] at h
      injection h with h; injection h with _ h; subst h
      exact ⟨resetTo_log (r.term + 1) r d rest, resetTo_term (r.term + 1) r d rest⟩

/-- **campaign on a well-formed log** panics only through the role transition (`becomePreCandidate` /
`becomeCandidate`); the vote requests can never trip a `send` assertion (their term is set and non-zero, the
request to the node itself is a vote *response*) and `lastEntryID` cannot fail -/
theorem campaign_error_iff_wf (t : CampaignType) (r : Raft) (hwf : r.log.WF) (e : String) :
    (campaign t).run r = .error e ↔
      (t = .preElection ∧ e = "invalid transition [leader -> pre-candidate]" ∧ r.state = .leader) ∨
      (t ≠ .preElection ∧
        ((e = "invalid transition [leader -> candidate]" ∧ r.state = .leader) ∨
         (e = "HARNESS: no election-timeout draw supplied" ∧ r.state ≠ .leader ∧ r.draws = []))) := by
  rw [campaign_eq]
  by_cases ht : t = .preElection
  · rw [if_pos ht, M_bind_error_iff, becomePreCandidate_error_iff]
    simp only [ht, ne_eq, not_true_eq_false, false_and, or_false, true_and]
    constructor
    · rintro (h | ⟨a, r1, hok, h⟩)
      · exact h
      · exfalso
        obtain ⟨hlog, _⟩ := becomePreCandidate_ok_frame r r1 a hok
        rw [M_bind_error_iff] at h
        rcases h with h | ⟨d, r2, h1, h⟩
        · cases h
        · obtain ⟨rfl, rfl⟩ := (Runs.get_iff _ _ _).mp h1
          exact campaignLoop_noErr _ .preVote _ _ (by rw [hlog]; exact hwf) (Nat.succ_ne_zero _) (Or.inr rfl) e h
    · intro h; exact Or.inl h
  · rw [if_neg ht, M_bind_error_iff, becomeCandidate_error_iff]
    simp only [ht, false_and, false_or, ne_eq, not_false_eq_true, true_and]
    constructor
    · rintro (h | ⟨a, r1, hok, h⟩)
      · exact h
      · exfalso
        obtain ⟨hlog, hterm⟩ := becomeCandidate_ok_frame r r1 a hok
        rw [M_bind_error_iff] at h
        rcases h with h | ⟨d, r2, h1, h⟩
        · cases h
        · obtain ⟨rfl, rfl⟩ := (Runs.get_iff _ _ _).mp h1
          exact campaignLoop_noErr _ .vote _ _ (by rw [hlog]; exact hwf) (by rw [hterm]; omega) (Or.inl rfl) e h
    · intro h; exact Or.inl h

/-- the value `promotable` returns -/
def promotableB (r : Raft) : Bool :=
  match r.trk.getProgress r.cfg.id with
  | none => false
  | some pr => !pr.isLearner && !r.log.hasNextOrInProgressSnapshot

theorem promotable_run (r : Raft) : promotable.run r = .ok (promotableB r, r) := by
  unfold promotable promotableB
  simp only [StateT.run_bind, StateT.run_get, P_pure_eq, P_ok_bind]
  cases r.trk.getProgress r.cfg.id <;> rfl

/-- **hup on a well-formed log** (`MsgHup`, `Campaign()`, election timeout, `MsgTimeoutNow`): the only possible
panic is the harness running out of election-timeout draws when the node actually becomes candidate -/
theorem hup_error_wf (t : CampaignType) (r : Raft) (hwf : r.log.WF) (e : String)
    (h : (hup t).run r = .error e) :
    e = "HARNESS: no election-timeout draw supplied" ∧ r.draws = [] ∧ t ≠ .preElection ∧
    r.state ≠ .leader ∧ promotableB r = true := by
  unfold hup at h
  simp only [StateT.run_bind, StateT.run_get, P_pure_eq, P_ok_bind] at h
  by_cases hs : r.state = .leader
  · have hb : (r.state == .leader) = true := by simp [hs]
    simp only [hb, ↓reduceIte, StateT.run_pure, P_pure_eq, reduceCtorEq] at h
  · have hb : (r.state == .leader) = false := by simpa using hs
    simp only [hb, Bool.false_eq_true, ↓reduceIte, StateT.run_bind, promotable_run, P_ok_bind] at h
    cases hp : promotableB r with
    | false => simp only [hp, Bool.not_false, ↓reduceIte, StateT.run_pure, P_pure_eq, reduceCtorEq] at h
    | true =>
      simp only [hp, Bool.not_true, Bool.false_eq_true, ↓reduceIte, StateT.run_bind] at h
      have hsn : r.log.unstable.snapshot = none := by
        unfold promotableB at hp
        cases hg : r.trk.getProgress r.cfg.id with
        | none => rw [hg] at hp; cases hp
        | some pr =>
          rw [hg] at hp
          simp only [Bool.and_eq_true, Bool.not_eq_eq_eq_not, Bool.not_true] at hp
          have := hp.2
          unfold RaftLog.hasNextOrInProgressSnapshot at this
          cases hx : r.log.unstable.snapshot with
          | none => rfl
          | some s => rw [hx] at this; cases this
      obtain ⟨b, hb2⟩ := hasUnappliedConfChanges_no_panic r hwf hsn
      rw [hb2] at h
      simp only [P_ok_bind] at h
      cases b with
      | true => simp only [↓reduceIte, StateT.run_pure, P_pure_eq, reduceCtorEq] at h
      | false =>
        simp only [Bool.false_eq_true, ↓reduceIte] at h
        rcases (campaign_error_iff_wf t r hwf e).mp h with ⟨_, _, h1⟩ | ⟨ht, (⟨_, h1⟩ | ⟨h1, _, h2⟩)⟩
        · exact absurd h1 hs
        · exact absurd h1 hs
        · exact ⟨h1, h2, ht, hs, rfl⟩
/-- a successful `send` touches only the two message queues -/
theorem send_ok_frame (m : Message) (r r' : Raft) (h : (send m).run r = .ok ((), r')) :
    r'.cfg = r.cfg ∧ r'.trk = r.trk ∧ r'.log = r.log ∧ r'.term = r.term := by
  rw [send_run] at h
  repeat' split at h
  all_goals first
    | (injection h with h; injection h with _ h; subst h; exact ⟨rfl, rfl, rfl, rfl⟩)
    | cases h

/-- **bcastHeartbeatWithCtx never panics**: every id it iterates over has a progress record (the ids are the
keys of the progress map) and the node itself is skipped -/
theorem bcastHeartbeatWithCtx_noErr (ctx : Option Bytes) (r : Raft) : NoErr (bcastHeartbeatWithCtx ctx) r := by
  intro e h
  unfold bcastHeartbeatWithCtx progressIds at h
  simp only [StateT.run_bind, StateT.run_get, P_pure_eq, P_ok_bind, StateT.run_pure] at h
  rw [P_bind_error_iff] at h
  rcases h with h | ⟨_, _, h⟩
  case inr => cases h
  refine NoErr.forIn
    (fun r2 => r2.cfg = r.cfg ∧ ∀ id ∈ r.trk.progress.map (·.1), r2.trk.getProgress id ≠ none) _ _ ?_ _ r
    ⟨rfl, ?_⟩ e h
  · intro id hmem b r2 ⟨hcfg, hpr⟩
    by_cases hid : (id != r.cfg.id) = true
    · simp only [hid, ↓reduceIte]
      have hne : id ≠ r2.cfg.id := by rw [hcfg]; simpa using hid
      constructor
      · intro e' h'
        rw [M_bind_error_iff] at h'
        rcases h' with h' | ⟨_, _, _, h'⟩
        · rcases (sendHeartbeat_error_iff id ctx r2 e').mp h' with ⟨_, h1⟩ | ⟨_, _, h1⟩
          · exact hpr id hmem h1
          · exact hne h1
        · simp only [StateT.run_pure, P_pure_eq] at h'; cases h'
      · intro st r' hrun
        obtain ⟨_, r1, h1, h2⟩ := (Runs.bind_iff _ _ _ _ _).mp hrun
        obtain ⟨_, rfl⟩ := (Runs.pure_iff _ _ _ _).mp h2
        -- the state after `sendHeartbeat`
        unfold sendHeartbeat at h1
        obtain ⟨pr, r3, h3, h4⟩ := (Runs.bind_iff _ _ _ _ _).mp h1
        have h3' : (getPr id).run r2 = .ok (pr, r3) := h3
        rw [getPr_run] at h3'
        cases hg : r2.trk.getProgress id with
        | none => rw [hg] at h3'; cases h3'
        | some pr0 =>
          rw [hg] at h3'
          injection h3' with h3'; injection h3' with hp hr3; subst hp hr3
          obtain ⟨_, r4, h5, h6⟩ := (Runs.bind_iff _ _ _ _ _).mp h4
          obtain ⟨rfl, rfl⟩ := (Runs.get_iff _ _ _).mp h5
          obtain ⟨_, r5, h7, h8⟩ := (Runs.bind_iff _ _ _ _ _).mp h6
          obtain ⟨hc5, ht5, _, _⟩ := send_ok_frame _ _ _ h7
          unfold Runs at h8
          rw [setPr_run] at h8
          injection h8 with h8; injection h8 with _ h8; subst h8
          refine ⟨hc5.trans hcfg, ?_⟩
          intro id' hmem'
          show (r5.trk.setProgress id _).getProgress id' ≠ none
          rw [getProgress_setProgress]
          split
          · simp
          · rw [ht5]; exact hpr id' hmem'
    · simp only [hid, Bool.false_eq_true, ↓reduceIte]
      constructor
      · intro e' h'
        simp only [StateT.run_pure, P_pure_eq, StateT.run_bind, P_ok_bind] at h'
        cases h'
      · intro st r' hrun
        simp only [StateT.run_pure, P_pure_eq, StateT.run_bind, P_ok_bind] at hrun
        injection hrun with hrun; injection hrun with _ hrun; subst hrun
        exact ⟨hcfg, hpr⟩
  · intro id hmem
    have : id ∈ keys r.trk.progress := hmem
    obtain ⟨v, hv⟩ := (mem_keys_iff _ _).mp this
    show mapGet r.trk.progress id ≠ none
    rw [hv]; simp

theorem bcastHeartbeat_noErr (r : Raft) : NoErr bcastHeartbeat r := by
  intro e h
  unfold bcastHeartbeat at h
  rw [M_bind_error_iff] at h
  rcases h with h | ⟨a, r1, h1, h⟩
  · cases h
  · obtain ⟨rfl, rfl⟩ := (Runs.get_iff _ _ _).mp h1
    exact bcastHeartbeatWithCtx_noErr _ _ e h

/-- `MsgBeat` at a leader (the heartbeat tick) never panics -/
theorem stepLeader_beat_noErr (fuel : Nat) (m : Message) (r : Raft) (hm : m.typ = .beat) :
    NoErr (stepLeader fuel m) r := by
  intro e h
  unfold stepLeader at h
  simp only [hm] at h
  rw [M_bind_error_iff] at h
  rcases h with h | ⟨_, _, _, h⟩
  · exact bcastHeartbeat_noErr r e h
  · simp only [StateT.run_pure, P_pure_eq] at h; cases h

end RaftVerif.C14
