import RaftVerif.Proofs.SimPropAux
import RaftVerif.Proofs.SimLog
/-!
# Proofs/SimPropLog — MsgProp keeps `Settled`
-/
namespace RaftVerif.Sim
open Refine Raft

/-- what a MsgProp of term 0 does to the log: nothing, or (leader, accepted) one `raftLog.append` -/
theorem prop_step_log (fuel : Nat) (m : Message) (r r' : Raft) (e : Option StepErr)
    (ht : m.typ = .prop) (h0 : m.term = 0) (h : (step (fuel + 1) m).run r = .ok (e, r')) :
    r'.log = r.log ∨ ∃ ents p, r.log.append ents = .ok p ∧ r'.log = p.1 := by
  by_cases hs : r.state = .leader
  · refine (step_prop_local fuel m r (fun _ r' => r'.log = r.log ∨ ∃ ents p, r.log.append ents = .ok p ∧ r'.log = p.1)
      ht h0 (fun _ => ?_)
      (fun hC => by rw [hs] at hC; rcases hC with hC | hC <;> cases hC)
      (fun hF => by rw [hs] at hF; cases hF)).elim h
    refine (stepLeader_prop_spec_maa fuel m r ht).mono ?_
    rintro e s' (⟨_, h1⟩ | ⟨_, s1, ents, p, h1, _, happ, hsf, _, _⟩)
    · exact Or.inl h1.quiet.log
    · have hl : s1.log = r.log := h1.quiet.log
      rw [hl] at happ
      exact Or.inr ⟨_, p, happ, hsf.log⟩
  · rcases step_prop_nonleader fuel m r r' e ht h0 hs h with rfl | ⟨x, _, _, rfl⟩
    · exact Or.inl rfl
    · exact Or.inl rfl

/-- MsgProp keeps `Settled` (`hinv` is not used) -/
theorem settled_prop {val : Val} {voters : List Id} {n : Nat} {s : Spec.State} {r r' : Raft} {m : Message}
    {e : Option StepErr} {fuel : Nat} (hinv : RaftInv val voters n r (s.nodes n) s.msgs) (hs : Settled r)
    (ht : m.typ = .prop) (h0 : m.term = 0)
    (h : (Raft.step (fuel + 1) m).run r = .ok (e, r')) : Settled r' := by
  have _ := hinv
  rcases prop_step_log fuel m r r' e ht h0 h with hl | ⟨ents, ⟨l', li⟩, happ, hl⟩
  · exact hs.congr (by rw [hl])
  · have : LSettled l' := append_settled (l := r.log) hs happ
    unfold Settled
    rw [hl]
    exact this

end RaftVerif.Sim
